/-
  Helper lemmas for C14.  Core Lean only.

  Plan: a valid UTF-8 string is `encodeRunes cs` for its list `cs` of scalar values
  (Proofs/Codec.lean); the byte offset of the `k`-th rune boundary is `blen cs k`; the byte-level
  loops of sliceString / funcMatch are then shown to compute on `cs` by `take`/`drop`.
-/
import Gojq.Model.Regex
import Gojq.Proofs.Codec
namespace Gojq.Regex
open Gojq Gojq.Utf8 Gojq.Codec

/-! ## valid strings as code-point lists -/

def Scalars (cs : List Nat) : Prop := ∀ c ∈ cs, isScalar c = true

theorem Scalars.take {cs : List Nat} (h : Scalars cs) (k : Nat) : Scalars (cs.take k) :=
  fun c hc => h c (List.mem_of_mem_take hc)
theorem Scalars.drop {cs : List Nat} (h : Scalars cs) (k : Nat) : Scalars (cs.drop k) :=
  fun c hc => h c (List.mem_of_mem_drop hc)
theorem Scalars.tail {c : Nat} {cs : List Nat} (h : Scalars (c :: cs)) : Scalars cs :=
  fun x hx => h x (List.mem_cons_of_mem _ hx)

theorem encodeRunes_nil : encodeRunes [] = [] := rfl
theorem encodeRunes_cons (c : Nat) (cs : List Nat) : encodeRunes (c :: cs) = encodeRune c ++ encodeRunes cs := by
  simp [encodeRunes]
theorem encodeRunes_append (a b : List Nat) : encodeRunes (a ++ b) = encodeRunes a ++ encodeRunes b := by
  simp [encodeRunes]

theorem runes_encode {cs : List Nat} (h : Scalars cs) : runes (encodeRunes cs) = cs :=
  runesAux_encode cs h _ (Nat.le_refl _)

/-- a valid string is the encoding of its own (scalar) code points -/
theorem valid_repr (s : Bytes) (h : valid s = true) : Scalars (runes s) ∧ encodeRunes (runes s) = s := by
  have hs : Scalars (runes s) := runesAux_scalar _ s h
  refine ⟨hs, ?_⟩
  have h1 := implode_runesAux s.length s (Nat.le_refl _) h
  have h2 := flatMap_congr_mem (runes s) (fun r : Nat => implodeRune (r : Int)) (fun r : Nat => encodeRune r)
    (fun r hr => implodeRune_scalar r (hs r hr))
  exact h2.symm.trans h1

/-- byte offset of the `k`-th rune boundary -/
def blen (cs : List Nat) (k : Nat) : Nat := (encodeRunes (cs.take k)).length

theorem blen_zero (cs : List Nat) : blen cs 0 = 0 := by simp [blen, encodeRunes]
theorem blen_all (cs : List Nat) (k : Nat) (h : cs.length ≤ k) : blen cs k = (encodeRunes cs).length := by
  simp [blen, List.take_of_length_le h]
theorem blen_cons_succ (c : Nat) (cs : List Nat) (k : Nat) :
    blen (c :: cs) (k + 1) = (encodeRune c).length + blen cs k := by
  simp [blen, encodeRunes_cons]

theorem take_blen (cs : List Nat) (k : Nat) : (encodeRunes cs).take (blen cs k) = encodeRunes (cs.take k) := by
  have h : encodeRunes cs = encodeRunes (cs.take k) ++ encodeRunes (cs.drop k) := by
    rw [← encodeRunes_append, List.take_append_drop]
  rw [h, blen, List.take_left']
  rfl
theorem drop_blen (cs : List Nat) (k : Nat) : (encodeRunes cs).drop (blen cs k) = encodeRunes (cs.drop k) := by
  have h : encodeRunes cs = encodeRunes (cs.take k) ++ encodeRunes (cs.drop k) := by
    rw [← encodeRunes_append, List.take_append_drop]
  rw [h, blen, List.drop_left']
  rfl

theorem take_split (cs : List Nat) (a b : Nat) (h : a ≤ b) :
    cs.take b = cs.take a ++ (cs.drop a).take (b - a) := by
  have : b = a + (b - a) := by omega
  rw [this, List.take_add]
  simp

theorem blen_split (cs : List Nat) (a b : Nat) (h : a ≤ b) :
    blen cs b = blen cs a + (encodeRunes ((cs.drop a).take (b - a))).length := by
  simp only [blen]
  rw [take_split cs a b h, encodeRunes_append, List.length_append]

theorem blen_mono (cs : List Nat) (a b : Nat) (h : a ≤ b) : blen cs a ≤ blen cs b := by
  rw [blen_split cs a b h]; omega

theorem encodeRunes_length_ge (cs : List Nat) : cs.length ≤ (encodeRunes cs).length := by
  induction cs with
  | nil => simp [encodeRunes]
  | cons c cs ih =>
    rw [encodeRunes_cons, List.length_append, List.length_cons]
    have := encodeRune_length_pos c
    omega

theorem blen_lt (cs : List Nat) (a b : Nat) (h : a < b) (hb : b ≤ cs.length) : blen cs a < blen cs b := by
  rw [blen_split cs a b (Nat.le_of_lt h)]
  have := encodeRunes_length_ge ((cs.drop a).take (b - a))
  simp only [List.length_take, List.length_drop] at this
  omega

/-- boundaries at equal / ordered byte offsets are equal / ordered code-point positions -/
theorem blen_le_inv (cs : List Nat) (a b : Nat) (ha : a ≤ cs.length) (hb : b ≤ cs.length)
    (h : blen cs a ≤ blen cs b) : a ≤ b := by
  by_cases hab : a ≤ b
  · exact hab
  · have := blen_lt cs b a (by omega) ha
    omega

theorem slice_blen (cs : List Nat) (a b : Nat) (h : a ≤ b) :
    ((encodeRunes cs).drop (blen cs a)).take (blen cs b - blen cs a) = encodeRunes ((cs.drop a).take (b - a)) := by
  rw [drop_blen, blen_split cs a b h]
  have h2 : encodeRunes (cs.drop a) =
      encodeRunes ((cs.drop a).take (b - a)) ++ encodeRunes ((cs.drop a).drop (b - a)) := by
    rw [← encodeRunes_append, List.take_append_drop]
  rw [h2, Nat.add_sub_cancel_left, List.take_left']
  rfl

/-! ## runeStart on a valid string -/

theorem encode_cons_ne_nil (c : Nat) (cs : List Nat) :
    ∃ b t, encodeRune c ++ encodeRunes cs = b :: t := by
  have hpos := encodeRune_length_pos c
  cases hx : encodeRune c ++ encodeRunes cs with
  | nil => have := congrArg List.length hx; simp only [List.length_append, List.length_nil] at this; omega
  | cons b t => exact ⟨b, t, rfl⟩

theorem runeStartAux_encode : ∀ (cs : List Nat), Scalars cs → ∀ (k fuel : Nat), k ≤ cs.length → k + 1 ≤ fuel →
    runeStartAux fuel (encodeRunes cs) k = blen cs k := by
  intro cs
  induction cs with
  | nil =>
    intro _ k fuel hk hf
    have : k = 0 := by simpa using hk
    subst this
    cases fuel with
    | zero => omega
    | succ fuel => simp [runeStartAux, blen, encodeRunes]
  | cons c cs ih =>
    intro hs k fuel hk hf
    cases fuel with
    | zero => omega
    | succ fuel =>
      cases k with
      | zero => simp [runeStartAux, blen_zero]
      | succ k =>
        rw [encodeRunes_cons]
        obtain ⟨b, t, hbt⟩ := encode_cons_ne_nil c cs
        have hd := decode_encode c (hs c (List.mem_cons_self ..)) (encodeRunes cs)
        rw [hbt] at hd
        have hpos := encodeRune_length_pos c
        rw [hbt]
        simp only [runeStartAux, hd]
        have hw : max (encodeRune c).length 1 = (encodeRune c).length := by omega
        rw [hw, ← hbt, List.drop_left', blen_cons_succ]
        · rw [ih hs.tail k fuel (by simpa using hk) (by omega)]
        · rfl

theorem runeStart_encode (cs : List Nat) (hs : Scalars cs) (k : Nat) (hk : k ≤ cs.length) :
    runeStart (encodeRunes cs) k = blen cs k := by
  apply runeStartAux_encode cs hs k _ hk
  have := encodeRunes_length_ge cs
  omega

/-- the two `if start < l { for … } else { start = len(v) }` blocks of sliceString compute `blen` -/
theorem offset_encode (cs : List Nat) (hs : Scalars cs) (k : Nat) (hk : k ≤ cs.length) :
    (if (k : Int) < ((cs.length : Nat) : Int) then runeStart (encodeRunes cs) k else (encodeRunes cs).length) = blen cs k := by
  split
  · exact runeStart_encode cs hs k hk
  · rw [blen_all]; omega

/-! ## clampIndex -/

theorem clamp_start_range (i l : Int) (hl : 0 ≤ l) : 0 ≤ clampIndex i 0 l ∧ clampIndex i 0 l ≤ l := by
  unfold clampIndex; simp only []
  split <;> split <;> (try split) <;> omega

theorem clamp_end_range (i st l : Int) (h0 : 0 ≤ st) (hl : st ≤ l) :
    st ≤ clampIndex i st l ∧ clampIndex i st l ≤ l := by
  unfold clampIndex; simp only []
  split <;> split <;> (try split) <;> omega

theorem clamp_id (i mn mx : Int) (h0 : 0 ≤ i) (h1 : mn ≤ i) (h2 : i ≤ mx) : clampIndex i mn mx = i := by
  unfold clampIndex; simp only []
  split <;> split <;> (try split) <;> omega

/-- clampIndex in plain words -/
theorem clamp_spec (i mn mx : Int) :
    clampIndex i mn mx = (let j := if i < 0 then i + mx else i; if j < mn then mn else if j < mx then j else mx) := rfl

/-! ## sliceString on a valid string -/

theorem slice_core (cs : List Nat) (hs : Scalars cs) (start end_ : Int)
    (h1 : 0 ≤ start ∧ start ≤ ((cs.length : Nat) : Int)) (h2 : start ≤ end_ ∧ end_ ≤ ((cs.length : Nat) : Int)) :
    ((encodeRunes cs).drop (if start < ((cs.length : Nat) : Int) then runeStart (encodeRunes cs) start.toNat else (encodeRunes cs).length)).take
      ((if end_ < ((cs.length : Nat) : Int) then runeStart (encodeRunes cs) end_.toNat else (encodeRunes cs).length)
        - (if start < ((cs.length : Nat) : Int) then runeStart (encodeRunes cs) start.toNat else (encodeRunes cs).length))
      = encodeRunes ((cs.drop start.toNat).take (end_.toNat - start.toNat)) := by
  obtain ⟨a, rfl⟩ := Int.eq_ofNat_of_zero_le h1.1
  obtain ⟨b, rfl⟩ := Int.eq_ofNat_of_zero_le (Int.le_trans h1.1 h2.1)
  simp only [Int.toNat_natCast]
  have ha : a ≤ cs.length := by omega
  have hb : b ≤ cs.length := by omega
  have hab : a ≤ b := by omega
  rw [offset_encode cs hs a ha, offset_encode cs hs b hb]
  exact slice_blen cs a b hab

theorem sliceStr_encode (cs : List Nat) (hs : Scalars cs) (e st : Option Int) :
    sliceStr (encodeRunes cs) e st = encodeRunes (sliceList cs e st) := by
  unfold sliceStr sliceList strLength
  rw [runes_encode hs]
  have hl : (0 : Int) ≤ ((cs.length : Nat) : Int) := Int.natCast_nonneg _
  cases st with
  | none =>
    cases e with
    | none => exact slice_core cs hs _ _ ⟨Int.le_refl _, hl⟩ ⟨hl, Int.le_refl _⟩
    | some j => exact slice_core cs hs _ _ ⟨Int.le_refl _, hl⟩ (clamp_end_range j _ _ (Int.le_refl _) hl)
  | some i =>
    have h1 := clamp_start_range i _ hl
    cases e with
    | none => exact slice_core cs hs _ _ h1 ⟨h1.2, Int.le_refl _⟩
    | some j => exact slice_core cs hs _ _ h1 (clamp_end_range j _ _ h1.1 h1.2)

end Gojq.Regex

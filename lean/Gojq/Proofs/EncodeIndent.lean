/- Helper lemmas for C12: the indentation walker accepts every layout of the command's encoder.
   Core Lean only. -/
import Gojq.Proofs.EncodeStrip
namespace Gojq.Encode
open Gojq

/-- a byte that does not change the walker's state outside strings -/
def Inert (x : UInt8) : Prop := x ≠ cQuote ∧ isOpen x = false ∧ isClose x = false ∧ x ≠ cNl

theorem outStep_inert {x : UInt8} (h : Inert x) (d : Nat) : outStep d x = (.out, d) := by
  unfold outStep
  rw [if_neg h.1]
  simp [h.2.1, h.2.2.1, h.2.2.2]

theorem ind_inert (u : UInt8) (i d : Nat) : ∀ (a t : Bytes), (∀ x ∈ a, Inert x) →
    indentOk u i .out d (a ++ t) = indentOk u i .out d t
  | [], _, _ => rfl
  | b :: a, t, h => by
    rw [List.cons_append, indentOk, outStep_inert (h b (by simp))]
    exact ind_inert u i d a t (fun x hx => h x (by simp [hx]))

theorem numByte_inert {x : UInt8} (h : NumByte x) : Inert x := by
  rcases h with h | rfl | rfl | rfl | rfl
  · have hx : 0x30 ≤ x.toNat ∧ x.toNat ≤ 0x39 := by simpa [isDigit] using h
    have ne : ∀ c : UInt8, (c.toNat < 0x30 ∨ 0x39 < c.toNat) → x ≠ c := fun c hc => ne_of_toNat_ne (by omega)
    refine ⟨ne _ (by decide), ?_, ?_, ne _ (by decide)⟩
    · simp only [isOpen, Bool.or_eq_false_iff, decide_eq_false_iff_not]; exact ⟨ne _ (by decide), ne _ (by decide)⟩
    · simp only [isClose, Bool.or_eq_false_iff, decide_eq_false_iff_not]; exact ⟨ne _ (by decide), ne _ (by decide)⟩
  all_goals (unfold Inert; decide)

theorem encodeNum_inert (n : Num) : ∀ x ∈ encodeNum n, Inert x := by
  by_cases hn : n = .nan
  · subst hn; unfold Inert; decide
  by_cases hm : modelledNum n = true
  · obtain ⟨ng, ip, fp, ex, r, h1, h2, _⟩ := encodeNum_shape n hn hm
    rw [h1]; exact fun x hx => numByte_inert (numText_bytes h2 x hx)
  · cases n with
    | flt q =>
      have : encodeFloat q = none := by
        simp only [modelledNum] at hm
        cases h : encodeFloat q with
        | none => rfl
        | some _ => rw [h] at hm; simp at hm
      simp only [encodeNum, this, Option.getD_none]
      unfold Inert; decide
    | _ => simp [modelledNum] at hm

theorem encodeNum_head (n : Num) : ∃ b t, encodeNum n = b :: t ∧ ValStart b := by
  by_cases hn : n = .nan
  · subst hn; exact ⟨_, _, rfl, by decide⟩
  by_cases hm : modelledNum n = true
  · obtain ⟨ng, ip, fp, ex, r, h1, h2, _⟩ := encodeNum_shape n hn hm
    obtain ⟨b, t, h3, h4⟩ := numText_head (neg := ng) h2
    exact ⟨b, t, by rw [h1, h3], (numStart h4).1⟩
  · cases n with
    | flt q =>
      have : encodeFloat q = none := by
        simp only [modelledNum] at hm
        cases h : encodeFloat q with
        | none => rfl
        | some _ => rw [h] at hm; simp at hm
      exact ⟨0x3f, [], by simp [encodeNum, this, unmodelledFloat], by decide⟩
    | _ => simp [modelledNum] at hm

/-! strings -/

theorem ind_plain_run (u : UInt8) (i d : Nat) : ∀ (a t : Bytes), (∀ x ∈ a, StrPlain x) →
    indentOk u i .str d (a ++ t) = indentOk u i .str d t
  | [], _, _ => rfl
  | b :: a, t, h => by
    have hb := h b (by simp)
    rw [List.cons_append, indentOk, if_neg hb.1, if_neg hb.2.1]
    exact ind_plain_run u i d a t (fun x hx => h x (by simp [hx]))

theorem ind_shape (u : UInt8) (i d : Nat) {a : Bytes} (h : Shape a) (t : Bytes) :
    indentOk u i .str d (a ++ t) = indentOk u i .str d t := by
  rcases h with h | ⟨e, r, rfl, _, h⟩
  · exact ind_plain_run u i d a t h
  · rw [List.cons_append, List.cons_append, indentOk, if_neg (by decide), if_pos (by decide), indentOk]
    exact ind_plain_run u i d r t h

theorem ind_shapes (u : UInt8) (i d : Nat) {a : Bytes} (h : Shapes a) (rest : Bytes) :
    indentOk u i .str d (a ++ cQuote :: rest) = indentOk u i .out d rest := by
  induction h with
  | nil => rw [List.nil_append, indentOk, if_pos rfl]
  | cons h _ ih => rw [List.append_assoc, ind_shape u i d h, ih]

theorem ind_string (u : UInt8) (i d : Nat) (s rest : Bytes) :
    indentOk u i .out d (encodeString s ++ rest) = indentOk u i .out d rest := by
  rw [encodeString_append, indentOk]
  have : outStep d cQuote = (.str, d) := by simp [outStep]
  rw [this]
  exact ind_shapes u i d (pieces_shapes (encStrAux_pieces s.length s (Nat.le_refl _))) rest

/-! newlines -/

theorem ind_units (u : UInt8) (i d : Nat) : ∀ (n k : Nat) (t : Bytes),
    indentOk u i (.ind k) d (List.replicate n u ++ t) = indentOk u i (.ind (k + n)) d t
  | 0, k, t => by simp
  | n + 1, k, t => by
    rw [List.replicate_succ, List.cons_append, indentOk, if_pos rfl, ind_units u i d n (k + 1) t]
    congr 2; omega

theorem ind_out_cons (u : UInt8) (i d : Nat) (b : UInt8) (t : Bytes) :
    indentOk u i .out d (b :: t) = indentOk u i (outStep d b).1 (outStep d b).2 t := by
  rw [indentOk]

theorem ind_ind_cons (u : UInt8) (i k d : Nat) (b : UInt8) (t : Bytes) (hu : b ≠ u) :
    indentOk u i (.ind k) d (b :: t) =
      ((k == (if isClose b then d - 1 else d) * i) && indentOk u i (outStep d b).1 (outStep d b).2 t) := by
  rw [indentOk, if_neg hu]

theorem ind_nl (u : UInt8) (i d : Nat) (t : Bytes) : indentOk u i .out d (cNl :: t) = indentOk u i (.ind 0) d t := by
  rw [ind_out_cons]
  have : outStep d cNl = (.ind 0, d) := by simp +decide [outStep]
  rw [this]

/-- a newline of the layout followed by the first byte of a value -/
theorem ind_newline_value (o : Cli.Opts) (hi : o.indent ≥ 0) (l : Nat) (b : UInt8) (t : Bytes) (hb : ValStart b) :
    indentOk o.unit o.indent.toNat .out l (Cli.newline o l ++ b :: t) = indentOk o.unit o.indent.toNat .out l (b :: t) := by
  have hu : b ≠ o.unit := by
    intro e
    have : isWs o.unit = true := by unfold Cli.Opts.unit; split <;> decide
    rw [← e, hb.1] at this; cases this
  have hcl : isClose b = false := by simp [isClose, hb.2.1, hb.2.2]
  simp only [Cli.newline, hi, if_true, List.cons_append]
  rw [ind_nl, ind_units, ind_ind_cons _ _ _ _ _ _ hu, hcl, ind_out_cons]
  simp

/-- the newline before a closing bracket -/
theorem ind_newline_close (o : Cli.Opts) (hi : o.indent ≥ 0) (l : Nat) (c : UInt8) (t : Bytes) (hc : isClose c = true) :
    indentOk o.unit o.indent.toNat .out (l + 1) (Cli.newline o l ++ c :: t) = indentOk o.unit o.indent.toNat .out l t := by
  have hu : c ≠ o.unit := by
    intro e
    have : isClose o.unit = false := by unfold Cli.Opts.unit; split <;> decide
    rw [← e, hc] at this; cases this
  have hq : c ≠ cQuote := by intro e; rw [e] at hc; revert hc; decide
  have ho : isOpen c = false := by
    simp only [isClose, Bool.or_eq_true, decide_eq_true_eq] at hc
    rcases hc with rfl | rfl <;> decide
  have hs : outStep (l + 1) c = (.out, l) := by
    unfold outStep; rw [if_neg hq]; simp [ho, hc]
  simp only [Cli.newline, hi, if_true, List.cons_append]
  rw [ind_nl, ind_units, ind_ind_cons _ _ _ _ _ _ hu, hc, hs]
  simp

end Gojq.Encode

namespace Gojq.Encode
open Gojq

theorem render_head (o : Cli.Opts) (hc : o.color = none) (l : Nat) :
    ∀ v : JV, ∃ b t, Cli.render o l v = b :: t ∧ ValStart b
  | .null => by
    simp only [Cli.render, col_none hc, tok_none]; exact ⟨0x6e, [0x75, 0x6c, 0x6c], rfl, by decide⟩
  | .bool true => by
    simp only [Cli.render, col_none hc, tok_none]; exact ⟨0x74, [0x72, 0x75, 0x65], rfl, by decide⟩
  | .bool false => by
    simp only [Cli.render, col_none hc, tok_none]; exact ⟨0x66, [0x61, 0x6c, 0x73, 0x65], rfl, by decide⟩
  | .num n => by
    obtain ⟨b, t, h, hs⟩ := encodeNum_head n
    exact ⟨b, t, by simp [Cli.render, numColor_none hc, tok_none, h], hs⟩
  | .str s => by
    simp only [Cli.render, col_none hc, tok_none]
    exact ⟨cQuote, encStrAux s.length s ++ [cQuote], rfl, by decide⟩
  | .arr xs => by
    simp only [Cli.render, col_none hc, tok_none, List.cons_append, List.nil_append, List.append_assoc]
    exact ⟨cLBrack, _, rfl, by decide⟩
  | .obj kvs => by
    simp only [Cli.render, col_none hc, tok_none, List.cons_append, List.nil_append, List.append_assoc]
    exact ⟨cLBrace, _, rfl, by decide⟩

theorem ind_open (u : UInt8) (i d : Nat) (c : UInt8) (t : Bytes) (h : isOpen c = true) :
    indentOk u i .out d (c :: t) = indentOk u i .out (d + 1) t := by
  have hq : c ≠ cQuote := by intro e; rw [e] at h; revert h; decide
  rw [ind_out_cons]
  have : outStep d c = (.out, d + 1) := by unfold outStep; rw [if_neg hq]; simp [h]
  rw [this]

theorem ind_close (u : UInt8) (i d : Nat) (c : UInt8) (t : Bytes) (h : isClose c = true) :
    indentOk u i .out (d + 1) (c :: t) = indentOk u i .out d t := by
  have hq : c ≠ cQuote := by intro e; rw [e] at h; revert h; decide
  have ho : isOpen c = false := by
    simp only [isClose, Bool.or_eq_true, decide_eq_true_eq] at h
    rcases h with rfl | rfl <;> decide
  rw [ind_out_cons]
  have : outStep (d + 1) c = (.out, d) := by unfold outStep; rw [if_neg hq]; simp [ho, h]
  rw [this]

open Cli in
mutual
  theorem ind_render (o : Opts) (hc : o.color = none) (hi : o.indent ≥ 0) : ∀ (v : JV) (l : Nat) (rest : Bytes),
      indentOk o.unit o.indent.toNat .out l (render o l v ++ rest) = indentOk o.unit o.indent.toNat .out l rest
    | .null, l, rest => by
      simp only [render, col_none hc, tok_none]; exact ind_inert _ _ _ _ _ (by unfold Inert; decide)
    | .bool true, l, rest => by
      simp only [render, col_none hc, tok_none]; exact ind_inert _ _ _ _ _ (by unfold Inert; decide)
    | .bool false, l, rest => by
      simp only [render, col_none hc, tok_none]; exact ind_inert _ _ _ _ _ (by unfold Inert; decide)
    | .num n, l, rest => by
      simp only [render, numColor_none hc, tok_none]; exact ind_inert _ _ _ _ _ (encodeNum_inert n)
    | .str s, l, rest => by
      simp only [render, col_none hc, tok_none]; exact ind_string _ _ _ s rest
    | .arr xs, l, rest => by
      simp only [render, col_none hc, tok_none, List.append_assoc, List.cons_append, List.nil_append]
      rw [ind_open _ _ _ _ _ (by decide), ind_renderElems o hc hi xs (l + 1) true]
      cases xs with
      | nil =>
        simp only [List.isEmpty_nil, if_true, List.nil_append]
        exact ind_close _ _ _ _ _ (by decide)
      | cons x xs =>
        simp only [List.isEmpty_cons, Bool.false_eq_true, if_false]
        exact ind_newline_close o hi l _ _ (by decide)
    | .obj kvs, l, rest => by
      simp only [render, col_none hc, tok_none, List.append_assoc, List.cons_append, List.nil_append]
      rw [ind_open _ _ _ _ _ (by decide), ind_renderMembers o hc hi kvs (l + 1) true]
      cases kvs with
      | nil =>
        simp only [List.isEmpty_nil, if_true, List.nil_append]
        exact ind_close _ _ _ _ _ (by decide)
      | cons x xs =>
        simp only [List.isEmpty_cons, Bool.false_eq_true, if_false]
        exact ind_newline_close o hi l _ _ (by decide)
  theorem ind_renderElems (o : Opts) (hc : o.color = none) (hi : o.indent ≥ 0) : ∀ (xs : List JV) (l : Nat) (first : Bool) (rest : Bytes),
      indentOk o.unit o.indent.toNat .out l (renderElems o l xs first ++ rest) = indentOk o.unit o.indent.toNat .out l rest
    | [], l, _, rest => by simp [renderElems]
    | x :: xs, l, first, rest => by
      simp only [renderElems, col_none hc, tok_none, List.append_assoc]
      have hsep : ∀ t, indentOk o.unit o.indent.toNat .out l ((if first = true then [] else [cComma]) ++ t) =
          indentOk o.unit o.indent.toNat .out l t := by
        intro t; exact ind_inert _ _ _ _ _ (by cases first <;> simp [Inert] <;> decide)
      obtain ⟨b, t, hb, hs⟩ := render_head o hc l x
      rw [hsep]
      have : newline o l ++ (render o l x ++ (renderElems o l xs false ++ rest)) =
          newline o l ++ b :: (t ++ (renderElems o l xs false ++ rest)) := by rw [hb]; rfl
      rw [this, ind_newline_value o hi l b _ hs]
      have : b :: (t ++ (renderElems o l xs false ++ rest)) = render o l x ++ (renderElems o l xs false ++ rest) := by
        rw [hb]; rfl
      rw [this, ind_render o hc hi x l, ind_renderElems o hc hi xs l false]
  theorem ind_renderMembers (o : Opts) (hc : o.color = none) (hi : o.indent ≥ 0) : ∀ (kvs : List (Bytes × JV)) (l : Nat) (first : Bool) (rest : Bytes),
      indentOk o.unit o.indent.toNat .out l (renderMembers o l kvs first ++ rest) = indentOk o.unit o.indent.toNat .out l rest
    | [], l, _, rest => by simp [renderMembers]
    | (k, x) :: xs, l, first, rest => by
      simp only [renderMembers, col_none hc, tok_none, List.append_assoc]
      have hsep : ∀ t, indentOk o.unit o.indent.toNat .out l ((if first = true then [] else [cComma]) ++ t) =
          indentOk o.unit o.indent.toNat .out l t := by
        intro t; exact ind_inert _ _ _ _ _ (by cases first <;> simp [Inert] <;> decide)
      have hsp : ∀ t, indentOk o.unit o.indent.toNat .out l ((if o.indent ≥ 0 then [cSpace] else []) ++ t) =
          indentOk o.unit o.indent.toNat .out l t := by
        intro t; exact ind_inert _ _ _ _ _ (by split <;> simp [Inert] <;> decide)
      rw [hsep]
      have : newline o l ++ (encodeString k ++ ([cColon] ++ ((if o.indent ≥ 0 then [cSpace] else []) ++
            (render o l x ++ (renderMembers o l xs false ++ rest))))) =
          newline o l ++ cQuote :: ((encStrAux k.length k ++ [cQuote]) ++ ([cColon] ++ ((if o.indent ≥ 0 then [cSpace] else []) ++
            (render o l x ++ (renderMembers o l xs false ++ rest))))) := by simp [encodeString]
      rw [this, ind_newline_value o hi l cQuote _ (by decide)]
      have : cQuote :: ((encStrAux k.length k ++ [cQuote]) ++ ([cColon] ++ ((if o.indent ≥ 0 then [cSpace] else []) ++
            (render o l x ++ (renderMembers o l xs false ++ rest))))) =
          encodeString k ++ ([cColon] ++ ((if o.indent ≥ 0 then [cSpace] else []) ++
            (render o l x ++ (renderMembers o l xs false ++ rest)))) := by simp [encodeString]
      rw [this, ind_string, ind_inert _ _ _ [cColon] _ (by unfold Inert; decide), hsp, ind_render o hc hi x l,
        ind_renderMembers o hc hi xs l false]
end

/-- the walker accepts the command's whole output (colours removed), in every indenting mode -/
theorem indentOk_encodeCli (o : Cli.Opts) (ho : OptsOK o) (hi : o.indent ≥ 0) (v : JV) :
    indentOk o.unit o.indent.toNat .out 0 (stripSGR (Cli.encodeCli o v)) = true := by
  rw [Cli.encodeCli_eq_render, stripSGR_render o ho]
  have := ind_render (mono o) rfl hi v 0 []
  rw [List.append_nil] at this
  rw [show (mono o).unit = o.unit from rfl, show (mono o).indent = o.indent from rfl] at this
  rw [this]; rfl

end Gojq.Encode

namespace Gojq.Encode
open Gojq

open Cli in
mutual
  theorem compact_render (o : Opts) (hc : o.color = none) (hi : ¬ o.indent ≥ 0) (l : Nat) : ∀ v : JV, render o l v = encodeValue v
    | .null => by simp [render, col_none hc, tok_none, encodeValue]
    | .bool true => by simp [render, col_none hc, tok_none, encodeValue]
    | .bool false => by simp [render, col_none hc, tok_none, encodeValue]
    | .num n => by simp [render, numColor_none hc, tok_none, encodeValue]
    | .str s => by simp [render, col_none hc, tok_none, encodeValue]
    | .arr xs => by
      simp only [render, col_none hc, tok_none, encodeValue, newline_neg o l hi, compact_renderElems o hc hi (l + 1) xs true]
      cases xs <;> simp [elemsFrom, encodeElems]
    | .obj kvs => by
      simp only [render, col_none hc, tok_none, encodeValue, newline_neg o l hi, compact_renderMembers o hc hi (l + 1) kvs true]
      cases kvs <;> simp [membersFrom, encodeMembers]
  theorem compact_renderElems (o : Opts) (hc : o.color = none) (hi : ¬ o.indent ≥ 0) (l : Nat) :
      ∀ (xs : List JV) (first : Bool), renderElems o l xs first = elemsFrom first xs
    | [], _ => by simp [renderElems, elemsFrom]
    | x :: xs, first => by
      simp only [renderElems, col_none hc, tok_none, newline_neg o l hi, compact_render o hc hi l x,
        compact_renderElems o hc hi l xs false, elemsFrom_cons]
      simp
  theorem compact_renderMembers (o : Opts) (hc : o.color = none) (hi : ¬ o.indent ≥ 0) (l : Nat) :
      ∀ (kvs : List (Bytes × JV)) (first : Bool), renderMembers o l kvs first = membersFrom first kvs
    | [], _ => by simp [renderMembers, membersFrom]
    | (k, x) :: xs, first => by
      simp only [renderMembers, col_none hc, tok_none, newline_neg o l hi, compact_render o hc hi l x,
        compact_renderMembers o hc hi l xs false, membersFrom_cons, hi, if_false]
      simp
end

/-- compact mode: minus colours, the command writes exactly the library's bytes -/
theorem compact_encodeCli (o : Cli.Opts) (ho : OptsOK o) (hi : o.indent < 0) (v : JV) :
    stripSGR (Cli.encodeCli o v) = encodeValue v := by
  rw [Cli.encodeCli_eq_render, stripSGR_render o ho]
  exact compact_render (mono o) rfl (by show ¬ o.indent ≥ 0; omega) 0 v

end Gojq.Encode

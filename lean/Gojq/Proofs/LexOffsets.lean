/-
  C17.4 (`lexer_offsets`) — what the lexer model (Model/Lexer.lean, transliteration of lexer.go)
  consumes and records in ONE call of `Lex`, stated against a declarative vocabulary that does
  not mention the scanners:

    Gap        white space and `#` comments (gojq's backslash / CR rules) between two tokens
    StrBody    the inside of a string literal: plain bytes and well-formed escapes
    BadEscape  a malformed escape sequence
    BadNumber  a malformed number literal (`1.2.`, `1a`, `1e`, `1e+`, `1e5x`, …)
    Classified the five error kinds of `(*ParseError).Error` and the ordinary tokens

  Main result `lex_step`: from every lexer state, `Lex` splits the unread source into
  gap ++ text ++ unread', advances `l.offset` by |gap| + |text|, and (token type, text, l.token)
  are `Classified`.  Core Lean only.
-/
import Gojq.Proofs.Lexer
namespace Gojq.Lexer
open Gojq Gojq.Generated.Lalr

/-! ### vocabulary -/

/-- comment text after `#`, up to (not including) the LF / CR that ends the comment or the end
    of the source.  A backslash takes the next byte with it when that byte is a backslash, LF or
    CR (and CR LF together); before any other byte, and at the very end, it is an ordinary
    comment byte. -/
inductive CBody : Bytes → Prop
  | nil : CBody []
  | plain (c : UInt8) (b : Bytes) : c ≠ 92 → c ≠ 10 → c ≠ 13 → CBody b → CBody (c :: b)
  | bsbs (b : Bytes) : CBody b → CBody (92 :: 92 :: b)
  | bslf (b : Bytes) : CBody b → CBody (92 :: 10 :: b)
  | bscrlf (b : Bytes) : CBody b → CBody (92 :: 13 :: 10 :: b)
  | bscr (b : Bytes) : CBody b → CBody (92 :: 13 :: b)
  | bsplain (c : UInt8) (b : Bytes) : c ≠ 92 → c ≠ 10 → c ≠ 13 → CBody b → CBody (92 :: c :: b)
  | bsend : CBody [92]

/-- what `next()` skips before a token: white space (TAB LF CR SPACE) and comments, each comment
    `#` body followed by the LF or CR that ends it -/
inductive Gap : Bytes → Prop
  | nil : Gap []
  | white (c : UInt8) (g : Bytes) : isWhite c = true → Gap g → Gap (c :: g)
  | comment (b : Bytes) (t : UInt8) (g : Bytes) : CBody b → (t = 10 ∨ t = 13) → Gap g → Gap (35 :: b ++ t :: g)

/-- a gap that reaches the end of the source: it may end inside a comment -/
def GapEnd (g : Bytes) : Prop := Gap g ∨ ∃ g1 b, g = g1 ++ 35 :: b ∧ Gap g1 ∧ CBody b

/-- `e` in `\e` is one of the single-byte escapes `" / \ b f n r t` -/
def simpleEsc (e : UInt8) : Bool :=
  e == 34 || e == 47 || e == 92 || e == 98 || e == 102 || e == 110 || e == 114 || e == 116

/-- the inside of a string literal: bytes other than `\` and `"`, `\e` with `e` a single-byte
    escape, `\uXXXX` with four hex digits — no closing quote, no `\(` -/
inductive StrBody : Bytes → Prop
  | nil : StrBody []
  | plain (c : UInt8) (b : Bytes) : c ≠ 92 → c ≠ 34 → StrBody b → StrBody (c :: b)
  | esc (e : UInt8) (b : Bytes) : simpleEsc e = true → StrBody b → StrBody (92 :: e :: b)
  | uesc (a b c d : UInt8) (r : Bytes) : isHex a = true → isHex b = true → isHex c = true → isHex d = true →
      StrBody r → StrBody (92 :: 117 :: a :: b :: c :: d :: r)

/-- a malformed escape `tok`, followed in the source by `rest`:
    `\x` with `x` none of `" / \ b f n r t u (`, or `\u` with fewer than four hex digits (the
    token stops BEFORE the byte that is not a hex digit, or at the end of the source) -/
def BadEscape (tok rest : Bytes) : Prop :=
  (∃ x, tok = [92, x] ∧ simpleEsc x = false ∧ x ≠ 117 ∧ x ≠ 40) ∨
  (∃ hs, tok = 92 :: 117 :: hs ∧ hs.length < 4 ∧ (∀ h ∈ hs, isHex h = true) ∧
     ∀ c ∈ rest.head?, isHex c = false)

def AllDigits (d : Bytes) : Prop := ∀ c ∈ d, isNumber c = true
def IsSign (sg : Bytes) : Prop := sg = [] ∨ sg = [43] ∨ sg = [45]
def IsE (c : UInt8) : Prop := c = 101 ∨ c = 69
/-- a byte that may start an identifier: letter or `_` -/
def Letter (c : UInt8) : Prop := isIdent c false = true
/-- the next byte (if any) is neither a digit nor a letter -/
def Stops (rest : Bytes) : Prop := ∀ c ∈ rest.head?, isNumber c = false ∧ isIdent c false = false

/-- what makes an exponent invalid, `t` = the bytes after `e`/`E`:
    `[sign] digits letter` (`1ex`, `1e+x`, `1e5x`), or `[sign]` with no digit after it (`1e`, `1e+`) -/
def ExpBad (t rest : Bytes) : Prop :=
  ∃ sg d, IsSign sg ∧ AllDigits d ∧
    ((∃ c, Letter c ∧ t = sg ++ d ++ [c]) ∨ (d = [] ∧ t = sg ∧ Stops rest))

/-- invalid continuation once a `.` has been read: `digits .` (a second dot), `digits letter`
    (not `e`/`E`), or `digits e` + an invalid exponent -/
def FloatBad (t rest : Bytes) : Prop :=
  ∃ d, AllDigits d ∧
    (t = d ++ [46] ∨ (∃ c, Letter c ∧ ¬ IsE c ∧ t = d ++ [c]) ∨ (∃ e x, IsE e ∧ ExpBad x rest ∧ t = d ++ e :: x))

/-- invalid continuation of an integer part: `digits letter`, `digits e` + invalid exponent,
    `digits .` + invalid fraction -/
def LeadBad (t rest : Bytes) : Prop :=
  ∃ d, AllDigits d ∧
    ((∃ c, Letter c ∧ ¬ IsE c ∧ t = d ++ [c]) ∨ (∃ e x, IsE e ∧ ExpBad x rest ∧ t = d ++ e :: x) ∨
     (∃ x, FloatBad x rest ∧ t = d ++ 46 :: x))

/-- a malformed number literal `text` followed by `rest`: starts with a digit, or with `.` and a
    digit, and continues invalidly.  Its LAST byte is the byte that made it invalid (second dot,
    letter) — except for a missing exponent, where it ends with `e`/`E`/sign and the byte after
    it is no digit. -/
def BadNumber (text rest : Bytes) : Prop :=
  (∃ c t, isNumber c = true ∧ text = c :: t ∧ LeadBad t rest) ∨
  (∃ c t, isNumber c = true ∧ text = 46 :: c :: t ∧ FloatBad (c :: t) rest)

/-- token types whose text `Lex` does not store in `l.token`, or that are error kinds -/
def special (ty : Int) : Prop :=
  ty = eof ∨ ty = tokInvalid ∨ ty = tokInvalidEscapeSequence ∨ ty = tokUnterminatedString ∨
  ty = tokStringQuery ∨ ty = tokStringEnd

/-- how one token is reported.  `inStr` = the lexer was inside an interpolated string literal,
    `ty` = the token type returned, `text` = the source bytes consumed for it (after the gap),
    `tok` = what `Lex` assigned to `l.token` (none = not assigned), `rest` = the source after it. -/
inductive Classified (inStr : Bool) (ty : Int) (text : Bytes) (tok : Option Bytes) (rest : Bytes) : Prop
  /-- a single ASCII byte that is a token by itself: `l.token` is not assigned, `Error` uses the type -/
  | single (c : UInt8) (h0 : c ≠ 0) (h128 : c.toNat < 128) (hty : ty = c.toNat) (htext : text = [c]) (htok : tok = none)
  /-- every token whose text is stored: identifiers, keywords, variables, fields, formats,
      numbers, operators, string literals and pieces, the opening quote of an interpolated string
      (tokStringStart), a non-ASCII character -/
  | plain (h128 : 128 ≤ ty) (hsp : ¬ special ty) (hne : text ≠ []) (htok : tok = some text)
  /-- the NUL byte (b92b08f) -/
  | nul (hty : ty = tokInvalid) (htext : text = [0]) (htok : tok = some text)
  | badNumber (hty : ty = tokInvalid) (hbad : BadNumber text rest) (htok : tok = some text)
  /-- the first malformed escape of a string literal: everything from the opening quote (or from
      where the lexer stood inside the interpolated string) up to its end has been consumed,
      `l.token` is the escape alone -/
  | badEscape (opn body esc : Bytes) (hopn : opn = if inStr then [] else [34]) (hbody : StrBody body)
      (hesc : BadEscape esc rest) (hty : ty = tokInvalidEscapeSequence) (htext : text = opn ++ body ++ esc)
      (htok : tok = some esc)
  /-- no closing quote and no `\(` up to the end of the source (a lone trailing backslash
      included): everything has been consumed, `l.token` is empty -/
  | unterminated (opn body : Bytes) (hopn : opn = if inStr then [] else [34])
      (hbody : StrBody body ∨ ∃ b, body = b ++ [92] ∧ StrBody b)
      (hty : ty = tokUnterminatedString) (htext : text = opn ++ body) (hne : text ≠ []) (htok : tok = some []) (hrest : rest = [])
  /-- inside an interpolated string: `\(` — `l.token` is not assigned -/
  | strQuery (hin : inStr = true) (hty : ty = tokStringQuery) (htext : text = [92, 40]) (htok : tok = none)
  /-- inside an interpolated string: the closing `"` — `l.token` is not assigned -/
  | strEnd (hin : inStr = true) (hty : ty = tokStringEnd) (htext : text = [34]) (htok : tok = none)

/-! ### numbers -/

theorem allDigits_nil : AllDigits [] := by intro c h; cases h

theorem allDigits_cons {c : UInt8} {d : Bytes} (hc : isNumber c = true) (hd : AllDigits d) : AllDigits (c :: d) := by
  intro x hx
  cases hx with
  | head => exact hc
  | tail _ h => exact hd x h

theorem stops_of {c : UInt8} {r : Bytes} (h1 : isNumber c = false) (h2 : isIdent c false = false) : Stops (c :: r) := by
  intro x hx; simp at hx; subst hx; exact ⟨h1, h2⟩

theorem stops_nil : Stops [] := by intro x hx; simp at hx

/-- state `exp` (digits after the exponent marker have been seen) -/
theorem scanNumber_exp_bad (r : Bytes) : ∀ n, scanNumber .exp r = (n, false) →
    ∃ d c, AllDigits d ∧ Letter c ∧ r.take n = d ++ [c] := by
  induction r with
  | nil => intro n h; simp [scanNumber] at h
  | cons c r ih =>
    intro n h
    rw [scanNumber] at h
    simp only [show (NumState.exp == NumState.lead) = false from rfl, show (NumState.exp == NumState.float) = false from rfl,
      show (NumState.exp == NumState.expSign) = false from rfl, Bool.or_false, Bool.false_and, Bool.false_eq_true,
      if_false, show (NumState.exp != NumState.exp) = false from rfl] at h
    by_cases hn : isNumber c = true
    · simp only [hn, Bool.not_true, Bool.false_eq_true, if_false] at h
      rcases hs : scanNumber .exp r with ⟨m, ok⟩
      rw [hs] at h
      simp only [Prod.mk.injEq] at h
      obtain ⟨h1, h2⟩ := h
      subst h1 h2
      obtain ⟨d, x, hd, hx, ht⟩ := ih m hs
      exact ⟨c :: d, x, allDigits_cons hn hd, hx, by simp [List.take_succ_cons, ht]⟩
    · simp only [hn, Bool.not_false, if_true] at h
      by_cases hi : isIdent c false = true
      · simp only [hi, if_true, Prod.mk.injEq] at h
        obtain ⟨h1, _⟩ := h; subst h1
        exact ⟨[], c, allDigits_nil, hi, by simp⟩
      · simp [hi] at h

/-- state `expLead` (exponent marker and optional sign read, no digit yet) -/
theorem scanNumber_expLead_bad (r : Bytes) : ∀ n, scanNumber .expLead r = (n, false) →
    (∃ d c, AllDigits d ∧ Letter c ∧ r.take n = d ++ [c]) ∨ (n = 0 ∧ Stops r) := by
  cases r with
  | nil => intro n h; simp [scanNumber] at h; exact Or.inr ⟨h.symm, stops_nil⟩
  | cons c r =>
    intro n h
    rw [scanNumber] at h
    simp only [show (NumState.expLead == NumState.lead) = false from rfl, show (NumState.expLead == NumState.float) = false from rfl,
      show (NumState.expLead == NumState.expSign) = false from rfl, Bool.or_false, Bool.false_and, Bool.false_eq_true,
      if_false, show (NumState.expLead != NumState.exp) = true from rfl, if_true] at h
    by_cases hn : isNumber c = true
    · simp only [hn, Bool.not_true, Bool.false_eq_true, if_false] at h
      rcases hs : scanNumber .exp r with ⟨m, ok⟩
      rw [hs] at h
      simp only [Prod.mk.injEq] at h
      obtain ⟨h1, h2⟩ := h
      subst h1 h2
      obtain ⟨d, x, hd, hx, ht⟩ := scanNumber_exp_bad r m hs
      exact Or.inl ⟨c :: d, x, allDigits_cons hn hd, hx, by simp [List.take_succ_cons, ht]⟩
    · simp only [hn, Bool.not_false, if_true] at h
      by_cases hi : isIdent c false = true
      · simp only [hi, if_true, Prod.mk.injEq] at h
        obtain ⟨h1, _⟩ := h; subst h1
        exact Or.inl ⟨[], c, allDigits_nil, hi, by simp⟩
      · simp only [hi, Bool.false_eq_true, if_false, Prod.mk.injEq, and_true] at h
        exact Or.inr ⟨h.symm, stops_of (by simpa using hn) (by simpa using hi)⟩

/-- state `expSign` (just after `e`/`E`) -/
theorem scanNumber_expSign_bad (r : Bytes) (n : Nat) (h : scanNumber .expSign r = (n, false)) :
    ExpBad (r.take n) (r.drop n) := by
  cases r with
  | nil =>
    simp [scanNumber] at h; subst h
    exact ⟨[], [], Or.inl rfl, allDigits_nil, Or.inr ⟨rfl, rfl, stops_nil⟩⟩
  | cons c r =>
    rw [scanNumber] at h
    simp only [show (NumState.expSign == NumState.lead) = false from rfl, show (NumState.expSign == NumState.float) = false from rfl,
      show (NumState.expSign == NumState.expSign) = true from rfl, Bool.or_false, Bool.true_and, Bool.false_eq_true,
      if_false, show (NumState.expSign != NumState.exp) = true from rfl, if_true] at h
    by_cases hs : (c == 45 || c == 43) = true
    · simp only [hs, if_true] at h
      rcases hs2 : scanNumber .expLead r with ⟨m, ok⟩
      rw [hs2] at h
      simp only [Prod.mk.injEq] at h
      obtain ⟨h1, h2⟩ := h
      subst h1 h2
      have hsg : IsSign [c] := by
        simp only [Bool.or_eq_true, beq_iff_eq] at hs
        rcases hs with hs | hs <;> subst hs
        · exact Or.inr (Or.inr rfl)
        · exact Or.inr (Or.inl rfl)
      rcases scanNumber_expLead_bad r m hs2 with ⟨d, x, hd, hx, ht⟩ | ⟨hm, hst⟩
      · exact ⟨[c], d, hsg, hd, Or.inl ⟨x, hx, by simp [List.take_succ_cons, ht]⟩⟩
      · subst hm
        exact ⟨[c], [], hsg, allDigits_nil, Or.inr ⟨rfl, by simp, by simpa using hst⟩⟩
    · simp only [hs, Bool.false_eq_true, if_false] at h
      by_cases hn : isNumber c = true
      · simp only [hn, Bool.not_true, Bool.false_eq_true, if_false] at h
        rcases hs2 : scanNumber .exp r with ⟨m, ok⟩
        rw [hs2] at h
        simp only [Prod.mk.injEq] at h
        obtain ⟨h1, h2⟩ := h
        subst h1 h2
        obtain ⟨d, x, hd, hx, ht⟩ := scanNumber_exp_bad r m hs2
        exact ⟨[], c :: d, Or.inl rfl, allDigits_cons hn hd, Or.inl ⟨x, hx, by simp [List.take_succ_cons, ht]⟩⟩
      · simp only [hn, Bool.not_false, if_true] at h
        by_cases hi : isIdent c false = true
        · simp only [hi, if_true, Prod.mk.injEq] at h
          obtain ⟨h1, _⟩ := h; subst h1
          exact ⟨[], [], Or.inl rfl, allDigits_nil, Or.inl ⟨c, hi, by simp⟩⟩
        · simp only [hi, Bool.false_eq_true, if_false, Prod.mk.injEq, and_true] at h
          subst h
          exact ⟨[], [], Or.inl rfl, allDigits_nil, Or.inr ⟨rfl, by simp, by
            simpa using stops_of (r := r) (by simpa using hn) (by simpa using hi)⟩⟩

theorem isE_of_beq {c : UInt8} (h : (c == 101 || c == 69) = true) : IsE c := by
  simp only [Bool.or_eq_true, beq_iff_eq] at h; exact h

theorem not_isE_of_beq {c : UInt8} (h : ¬ (c == 101 || c == 69) = true) : ¬ IsE c := by
  intro hc; apply h; simp only [Bool.or_eq_true, beq_iff_eq]; exact hc

/-- state `float` (a `.` has been read) -/
theorem scanNumber_float_bad (r : Bytes) : ∀ n, scanNumber .float r = (n, false) →
    FloatBad (r.take n) (r.drop n) := by
  induction r with
  | nil => intro n h; simp [scanNumber] at h
  | cons c r ih =>
    intro n h
    rw [scanNumber] at h
    simp only [show (NumState.float == NumState.lead) = false from rfl, show (NumState.float == NumState.float) = true from rfl,
      Bool.or_true, if_true, show (NumState.float != NumState.lead) = true from rfl] at h
    by_cases hn : isNumber c = true
    · simp only [hn, if_true] at h
      rcases hs : scanNumber .float r with ⟨m, ok⟩
      rw [hs] at h
      simp only [Prod.mk.injEq] at h
      obtain ⟨h1, h2⟩ := h
      subst h1 h2
      obtain ⟨d, hd, hcase⟩ := ih m hs
      refine ⟨c :: d, allDigits_cons hn hd, ?_⟩
      rcases hcase with ht | ⟨x, hx, hxe, ht⟩ | ⟨e, x, he, hx, ht⟩
      · exact Or.inl (by simp [List.take_succ_cons, ht])
      · exact Or.inr (Or.inl ⟨x, hx, hxe, by simp [List.take_succ_cons, ht]⟩)
      · exact Or.inr (Or.inr ⟨e, x, he, by simpa using hx, by simp [List.take_succ_cons, ht]⟩)
    · simp only [hn, Bool.false_eq_true, if_false] at h
      by_cases hdot : (c == 46) = true
      · simp only [hdot, if_true, Prod.mk.injEq] at h
        obtain ⟨h1, _⟩ := h; subst h1
        simp only [beq_iff_eq] at hdot; subst hdot
        exact ⟨[], allDigits_nil, Or.inl (by simp)⟩
      · simp only [hdot, Bool.false_eq_true, if_false] at h
        by_cases he : (c == 101 || c == 69) = true
        · simp only [he, if_true] at h
          rcases hs : scanNumber .expSign r with ⟨m, ok⟩
          rw [hs] at h
          simp only [Prod.mk.injEq] at h
          obtain ⟨h1, h2⟩ := h
          subst h1 h2
          have := scanNumber_expSign_bad r m hs
          exact ⟨[], allDigits_nil, Or.inr (Or.inr ⟨c, r.take m, isE_of_beq he, by simpa using this, by simp [List.take_succ_cons]⟩)⟩
        · simp only [he, Bool.false_eq_true, if_false] at h
          by_cases hi : isIdent c false = true
          · simp only [hi, if_true, Prod.mk.injEq] at h
            obtain ⟨h1, _⟩ := h; subst h1
            exact ⟨[], allDigits_nil, Or.inr (Or.inl ⟨c, hi, not_isE_of_beq he, by simp⟩)⟩
          · simp [hi] at h

/-- state `lead` (integer part) -/
theorem scanNumber_lead_bad (r : Bytes) : ∀ n, scanNumber .lead r = (n, false) →
    LeadBad (r.take n) (r.drop n) := by
  induction r with
  | nil => intro n h; simp [scanNumber] at h
  | cons c r ih =>
    intro n h
    rw [scanNumber] at h
    simp only [show (NumState.lead == NumState.lead) = true from rfl,
      Bool.true_or, if_true, show (NumState.lead != NumState.lead) = false from rfl] at h
    by_cases hn : isNumber c = true
    · simp only [hn, if_true] at h
      rcases hs : scanNumber .lead r with ⟨m, ok⟩
      rw [hs] at h
      simp only [Prod.mk.injEq] at h
      obtain ⟨h1, h2⟩ := h
      subst h1 h2
      obtain ⟨d, hd, hcase⟩ := ih m hs
      refine ⟨c :: d, allDigits_cons hn hd, ?_⟩
      rcases hcase with ⟨x, hx, hxe, ht⟩ | ⟨e, x, he, hx, ht⟩ | ⟨x, hx, ht⟩
      · exact Or.inl ⟨x, hx, hxe, by simp [List.take_succ_cons, ht]⟩
      · exact Or.inr (Or.inl ⟨e, x, he, by simpa using hx, by simp [List.take_succ_cons, ht]⟩)
      · exact Or.inr (Or.inr ⟨x, by simpa using hx, by simp [List.take_succ_cons, ht]⟩)
    · simp only [hn, Bool.false_eq_true, if_false] at h
      by_cases hdot : (c == 46) = true
      · simp only [hdot, if_true] at h
        rcases hs : scanNumber .float r with ⟨m, ok⟩
        rw [hs] at h
        simp only [Prod.mk.injEq] at h
        obtain ⟨h1, h2⟩ := h
        subst h1 h2
        simp only [beq_iff_eq] at hdot; subst hdot
        have := scanNumber_float_bad r m hs
        exact ⟨[], allDigits_nil, Or.inr (Or.inr ⟨r.take m, by simpa using this, by simp [List.take_succ_cons]⟩)⟩
      · simp only [hdot, Bool.false_eq_true, if_false] at h
        by_cases he : (c == 101 || c == 69) = true
        · simp only [he, if_true] at h
          rcases hs : scanNumber .expSign r with ⟨m, ok⟩
          rw [hs] at h
          simp only [Prod.mk.injEq] at h
          obtain ⟨h1, h2⟩ := h
          subst h1 h2
          have := scanNumber_expSign_bad r m hs
          exact ⟨[], allDigits_nil, Or.inr (Or.inl ⟨c, r.take m, isE_of_beq he, by simpa using this, by simp [List.take_succ_cons]⟩)⟩
        · simp only [he, Bool.false_eq_true, if_false] at h
          by_cases hi : isIdent c false = true
          · simp only [hi, if_true, Prod.mk.injEq] at h
            obtain ⟨h1, _⟩ := h; subst h1
            exact ⟨[], allDigits_nil, Or.inl ⟨c, hi, not_isE_of_beq he, by simp⟩⟩
          · simp [hi] at h

/-! ### string literals -/

theorem hexPrefix_spec (r : Bytes) :
    hexPrefix r ≤ 4 ∧ hexPrefix r ≤ r.length ∧ (∀ h ∈ r.take (hexPrefix r), isHex h = true) ∧
    (hexPrefix r < 4 → ∀ c ∈ (r.drop (hexPrefix r)).head?, isHex c = false) := by
  unfold hexPrefix
  repeat' split
  all_goals simp_all

theorem hexPrefix_lt_of_not_all (a b c d : UInt8) (r : Bytes)
    (h : ¬ (isHex a && isHex b && isHex c && isHex d) = true) : hexPrefix (a :: b :: c :: d :: r) < 4 := by
  unfold hexPrefix
  repeat' split
  all_goals simp_all

/-- what the loop of `scanString`, started at relative position `k` on `r`, reports -/
def StrScan.Spec (r : Bytes) (k : Nat) : StrScan → Prop
  | .quote j => ∃ body X, r = body ++ 34 :: X ∧ j = k + body.length ∧ StrBody body
  | .interp j => ∃ body X, r = body ++ 92 :: 40 :: X ∧ j = k + body.length ∧ StrBody body
  | .invalidEscape e len => ∃ body esc X, r = body ++ esc ++ X ∧ e = k + body.length + esc.length ∧
      len = esc.length ∧ StrBody body ∧ BadEscape esc X
  | .unterminated => StrBody r ∨ ∃ b, r = b ++ [92] ∧ StrBody b

theorem StrScan.Spec.prepend (p r : Bytes) (k : Nat) (res : StrScan) (hp : ∀ b, StrBody b → StrBody (p ++ b))
    (h : res.Spec r (k + p.length)) : res.Spec (p ++ r) k := by
  cases res with
  | quote j =>
    obtain ⟨body, X, h1, h2, h3⟩ := h
    exact ⟨p ++ body, X, by simp [h1], by simp [h2]; omega, hp _ h3⟩
  | interp j =>
    obtain ⟨body, X, h1, h2, h3⟩ := h
    exact ⟨p ++ body, X, by simp [h1], by simp [h2]; omega, hp _ h3⟩
  | invalidEscape e len =>
    obtain ⟨body, esc, X, h1, h2, h3, h4, h5⟩ := h
    exact ⟨p ++ body, esc, X, by simp [h1], by simp [h2]; omega, h3, hp _ h4, h5⟩
  | unterminated =>
    rcases h with h | ⟨b, h1, h2⟩
    · exact Or.inl (hp _ h)
    · exact Or.inr ⟨p ++ b, by simp [h1], hp _ h2⟩

theorem scanString_spec (r : Bytes) (k : Nat) : (scanString r k).Spec r k := by
  fun_induction scanString r k
  · exact Or.inl .nil
  · rename_i c k hc
    simp only [beq_iff_eq] at hc; subst hc
    exact Or.inr ⟨[], rfl, .nil⟩
  · rename_i c k hc e he a b c' d r4 hhex ih
    simp only [beq_iff_eq] at hc he; subst hc he
    simp only [Bool.and_eq_true] at hhex
    exact StrScan.Spec.prepend [92, 117, a, b, c', d] r4 k _
      (fun body hb => .uesc a b c' d body hhex.1.1.1 hhex.1.1.2 hhex.1.2 hhex.2 hb) (by simpa using ih)
  · rename_i c k hc e he a b c' d r4 hhex
    simp only [beq_iff_eq] at hc he; subst hc he
    have hlt := hexPrefix_lt_of_not_all a b c' d r4 hhex
    obtain ⟨_, h2, h3, h4⟩ := hexPrefix_spec (a :: b :: c' :: d :: r4)
    refine ⟨[], 92 :: 117 :: (a :: b :: c' :: d :: r4).take (hexPrefix (a :: b :: c' :: d :: r4)),
      (a :: b :: c' :: d :: r4).drop (hexPrefix (a :: b :: c' :: d :: r4)), by simp, ?_, ?_, .nil, ?_⟩
    · simp [List.length_take]; omega
    · simp [List.length_take]; omega
    · exact Or.inr ⟨_, rfl, by simp [List.length_take]; omega, h3, h4 hlt⟩
  · rename_i c k hc e r' he hshort
    simp only [beq_iff_eq] at hc he; subst hc he
    obtain ⟨_, h2, h3, h4⟩ := hexPrefix_spec r'
    have hlen : r'.length < 4 := by
      match r', hshort with
      | [], _ => simp
      | [_], _ => simp
      | [_, _], _ => simp
      | [_, _, _], _ => simp
      | a :: b :: c :: d :: r4, hs => exact absurd rfl (hs a b c d r4)
    refine ⟨[], 92 :: 117 :: r'.take (hexPrefix r'), r'.drop (hexPrefix r'), by simp, ?_, ?_, .nil, ?_⟩
    · simp [List.length_take]; omega
    · simp [List.length_take]; omega
    · exact Or.inr ⟨_, rfl, by simp [List.length_take]; omega, h3, h4 (by omega)⟩
  · rename_i c k hc e r' he hsimple ih
    simp only [beq_iff_eq] at hc; subst hc
    exact StrScan.Spec.prepend [92, e] r' k _ (fun body hb => .esc e body (by simpa [simpleEsc] using hsimple) hb) (by simpa using ih)
  · rename_i c k hc e r' he hsimple h40
    simp only [beq_iff_eq] at hc h40; subst hc h40
    exact ⟨[], r', rfl, by simp, .nil⟩
  · rename_i c k hc e r' he hsimple h40
    simp only [beq_iff_eq] at hc; subst hc
    refine ⟨[], [92, e], r', rfl, by simp, rfl, .nil, Or.inl ⟨e, rfl, ?_, ?_, ?_⟩⟩
    · simpa [simpleEsc] using hsimple
    · simpa using he
    · simpa using h40
  · rename_i c r k hc h34
    simp only [beq_iff_eq] at h34; subst h34
    exact ⟨[], r, rfl, by simp, .nil⟩
  · rename_i c r k hc h34 ih
    exact StrScan.Spec.prepend [c] r k _ (fun body hb => .plain c body (by simpa using hc) (by simpa using h34) hb) (by simpa using ih)

theorem take_two (a b c : Bytes) (n : Nat) (h : n = a.length + b.length) : (a ++ b ++ c).take n = a ++ b := by
  subst h; rw [← List.length_append]; exact List.take_left' rfl

theorem drop_two (a b c : Bytes) (n : Nat) (h : n = a.length + b.length) : (a ++ b ++ c).drop n = c := by
  subst h; rw [← List.length_append]; exact List.drop_left' rfl

theorem not_special_tokString : ¬ special tokString := by
  simp only [special]; decide
theorem not_special_tokStringStart : ¬ special tokStringStart := by
  simp only [special]; decide

/-- a string literal started outside an interpolated string: Lex has consumed the opening quote -/
theorem scanStringTok_open_classified (r : Bytes) :
    (scanStringTok false (some 34) r).n ≤ r.length ∧
    Classified false (scanStringTok false (some 34) r).ty (34 :: r.take (scanStringTok false (some 34) r).n)
      (scanStringTok false (some 34) r).token (r.drop (scanStringTok false (some 34) r).n) := by
  refine ⟨scanStringTok_le _ _ _, ?_⟩
  have hs := scanString_spec r 0
  simp only [scanStringTok]
  cases hsc : scanString r 0 with
  | unterminated =>
    rw [hsc] at hs
    exact .unterminated [34] r rfl hs rfl (by simp) (by simp) rfl (by simp)
  | invalidEscape e len =>
    rw [hsc] at hs
    obtain ⟨body, esc, X, h1, h2, h3, h4, h5⟩ := hs
    subst h1 h2 h3
    have ht := take_two body esc X (0 + body.length + esc.length) (by omega)
    have hd := drop_two body esc X (0 + body.length + esc.length) (by omega)
    refine .badEscape [34] body esc rfl h4 (by rw [hd]; exact h5) rfl (by rw [ht]; simp) ?_
    simp only [ht]
    congr 1
    have : 0 + body.length + esc.length - esc.length = body.length := by omega
    rw [this]; simp
  | interp k =>
    simp only [Bool.not_false, if_true]
    exact .plain (by decide) not_special_tokStringStart (by simp) (by simp)
  | quote k =>
    simp only [Bool.not_false, if_true]
    exact .plain (by decide) not_special_tokString (by simp) (by simp)

/-- inside an interpolated string literal -/
theorem scanStringTok_in_classified (r : Bytes) (hr : r ≠ []) :
    (scanStringTok true none r).n ≤ r.length ∧
    Classified true (scanStringTok true none r).ty (r.take (scanStringTok true none r).n)
      (scanStringTok true none r).token (r.drop (scanStringTok true none r).n) := by
  refine ⟨scanStringTok_le _ _ _, ?_⟩
  have hs := scanString_spec r 0
  simp only [scanStringTok]
  cases hsc : scanString r 0 with
  | unterminated =>
    rw [hsc] at hs
    exact .unterminated [] r rfl hs rfl (by simp) (by simpa using hr) rfl (by simp)
  | invalidEscape e len =>
    rw [hsc] at hs
    obtain ⟨body, esc, X, h1, h2, h3, h4, h5⟩ := hs
    subst h1 h2 h3
    have ht := take_two body esc X (0 + body.length + esc.length) (by omega)
    have hd := drop_two body esc X (0 + body.length + esc.length) (by omega)
    refine .badEscape [] body esc rfl h4 (by rw [hd]; exact h5) rfl (by rw [ht]; simp) ?_
    simp only [ht]
    congr 1
    have : 0 + body.length + esc.length - esc.length = body.length := by omega
    rw [this]; simp
  | interp k =>
    rw [hsc] at hs
    obtain ⟨body, X, h1, h2, h3⟩ := hs
    subst h1
    simp only [Bool.not_true, Bool.false_eq_true, if_false]
    by_cases hk : (k == 0) = true
    · simp only [hk, if_true]
      simp only [beq_iff_eq] at hk
      have hb : body = [] := by
        cases body with
        | nil => rfl
        | cons _ _ => simp at h2; omega
      subst hb
      exact .strQuery rfl rfl (by simp) rfl
    · simp only [hk, Bool.false_eq_true, if_false]
      refine .plain (by decide) not_special_tokString ?_ rfl
      intro h
      have := congrArg List.length h
      simp [List.length_take] at this
      simp only [beq_iff_eq] at hk
      omega
  | quote k =>
    rw [hsc] at hs
    obtain ⟨body, X, h1, h2, h3⟩ := hs
    subst h1
    simp only [Bool.not_true, Bool.false_eq_true, if_false]
    by_cases hk : k > 0
    · simp only [hk, if_true]
      refine .plain (by decide) not_special_tokString ?_ rfl
      intro h
      have := congrArg List.length h
      simp [List.length_take] at this
      omega
    · simp only [hk, if_false]
      have hb : body = [] := by
        cases body with
        | nil => rfl
        | cons _ _ => simp at h2; omega
      subst hb
      exact .strEnd rfl rfl (by simp) rfl

/-! ### tokens outside a string literal -/

/-- `Classified` for a `Scan` of `scanTok`: `ch` is the byte `next()` returned, `r` the source after it -/
def Cls (ch : UInt8) (r : Bytes) (sc : Scan) : Prop :=
  Classified false sc.ty (ch :: r.take sc.n) sc.token (r.drop sc.n)

theorem ite_cls {c : Prop} [Decidable c] {a b : Scan} {ch : UInt8} {r : Bytes} (ha : c → Cls ch r a) (hb : ¬c → Cls ch r b) :
    Cls ch r (if c then a else b) := by
  split
  · exact ha ‹_›
  · exact hb ‹_›

instance (ty : Int) : Decidable (special ty) := by unfold special; infer_instance

theorem cls_single_eq {ch K : UInt8} {r : Bytes} (h : (ch == K) = true) (hK0 : K ≠ 0) (hK : K.toNat < 128) :
    Cls ch r { n := 0, token := none, ty := ch.toNat } := by
  simp only [beq_iff_eq] at h; subst h
  exact .single ch hK0 hK rfl (by simp) rfl

theorem cls_single_else {ch : UInt8} {r : Bytes} (h0 : ¬ (ch == 0) = true) (h : ¬ ch ≥ 128) :
    Cls ch r { n := 0, token := none, ty := ch.toNat } := by
  refine .single ch (by simpa using h0) ?_ rfl (by simp) rfl
  have : ¬ (128 : UInt8) ≤ ch := h
  rw [UInt8.le_iff_toNat_le] at this
  simpa using this

theorem cls_plain {ch : UInt8} {r : Bytes} (n : Nat) (ty : Int) (lv : LVal) (h1 : 128 ≤ ty) (h2 : ¬ special ty) :
    Cls ch r { n := n, token := some (ch :: r.take n), ty := ty, lval := lv } :=
  .plain h1 h2 (by simp) rfl

def opSpellings : List Bytes :=
  [[46, 46], [124, 61], [63, 47, 47], [43, 61], [45, 61], [42, 61], [47, 61], [47, 47, 61], [47, 47],
   [37, 61], [61, 61], [61], [33, 61], [62, 61], [62], [60, 61], [60]]

theorem opEntry_plain : ∀ sp ∈ opSpellings, 128 ≤ (opEntry sp).1 ∧ ¬ special (opEntry sp).1 := by decide +kernel

theorem cls_op {ch : UInt8} {r : Bytes} (sp : Bytes) (hsp : sp ∈ opSpellings) (ht : ch :: r.take (sp.length - 1) = sp) :
    Cls ch r { n := sp.length - 1, token := some sp, ty := (opEntry sp).1, lval := { operator := (opEntry sp).2 } } := by
  have := opEntry_plain sp hsp
  exact .plain this.1 this.2 (by simp only [ht]; intro h; subst h; simp [opSpellings] at hsp) (by simp only [ht])

theorem peek_cons {r : Bytes} {c : UInt8} (h : (peek r == c) = true) (hc : c ≠ 0) : ∃ r', r = c :: r' := by
  cases r with
  | nil => simp [peek] at h; exact absurd h.symm hc
  | cons x r' => simp [peek] at h; exact ⟨r', by rw [h]⟩

theorem op1_text {ch a : UInt8} {r : Bytes} (h1 : (ch == a) = true) : ch :: r.take ([a].length - 1) = [a] := by
  simp only [beq_iff_eq] at h1; subst h1; simp

theorem op2_text {ch a b : UInt8} {r : Bytes} (h1 : (ch == a) = true) (h2 : (peek r == b) = true) (hb : b ≠ 0) :
    ch :: r.take ([a, b].length - 1) = [a, b] := by
  simp only [beq_iff_eq] at h1; subst h1
  obtain ⟨r', rfl⟩ := peek_cons h2 hb
  simp

theorem op3_text {ch a b c : UInt8} {r : Bytes} (h1 : (ch == a) = true) (h2 : (peek r == b) = true)
    (h3 : (peek (r.drop 1) == c) = true) (hb : b ≠ 0) (hc : c ≠ 0) :
    ch :: r.take ([a, b, c].length - 1) = [a, b, c] := by
  simp only [beq_iff_eq] at h1; subst h1
  obtain ⟨r', rfl⟩ := peek_cons h2 hb
  obtain ⟨r'', h⟩ := peek_cons h3 hc
  simp only [List.drop_succ_cons, List.drop_zero] at h
  subst h
  simp

theorem bytesLookup_mem {α : Type} (k : Bytes) (l : List (Bytes × α)) (v : α) (h : bytesLookup k l = some v) :
    (k, v) ∈ l := by
  induction l with
  | nil => simp [bytesLookup] at h
  | cons e l ih =>
    obtain ⟨k', v'⟩ := e
    simp only [bytesLookup] at h
    split at h
    · rename_i hk
      simp only [beq_iff_eq] at hk
      simp only [Option.some.injEq] at h
      subst hk h
      exact List.mem_cons_self
    · exact List.mem_cons_of_mem _ (ih h)

theorem keywords_plain : ∀ e ∈ keywords, 128 ≤ e.2 ∧ ¬ special e.2 := by decide +kernel

theorem keyword_ty_plain (t : Bytes) :
    128 ≤ (bytesLookup t keywords).getD tokIdent ∧ ¬ special ((bytesLookup t keywords).getD tokIdent) := by
  cases h : bytesLookup t keywords with
  | none => exact ⟨by decide, by decide⟩
  | some v => exact keywords_plain _ (bytesLookup_mem t keywords v h)

theorem cls_nonascii {ch : UInt8} {r : Bytes} (n : Nat) (h : ch ≥ 128) :
    Cls ch r { n := n, token := some (ch :: r.take n), ty := ch.toNat } := by
  have h1 : (128 : UInt8) ≤ ch := h
  rw [UInt8.le_iff_toNat_le] at h1
  have h3 : (128 : UInt8).toNat = 128 := rfl
  rw [h3] at h1
  have h2 := ch.toNat_lt
  refine .plain (by show (128 : Int) ≤ (ch.toNat : Int); omega) ?_ (by simp) rfl
  simp only [special, eof, tokInvalid, tokInvalidEscapeSequence, tokUnterminatedString, tokStringQuery, tokStringEnd]
  omega

theorem cls_badNumber_lead {ch : UInt8} {r : Bytes} (hch : isNumber ch = true) (h : ¬ (scanNumber .lead r).2 = true) :
    Cls ch r { n := (scanNumber .lead r).1, token := some (ch :: r.take (scanNumber .lead r).1), ty := tokInvalid } := by
  have := scanNumber_lead_bad r (scanNumber .lead r).1 (by
    rcases hs : scanNumber .lead r with ⟨m, ok⟩
    rw [hs] at h; simp at h; simp [h])
  exact .badNumber rfl (Or.inl ⟨ch, _, hch, rfl, this⟩) rfl

theorem cls_badNumber_float {ch : UInt8} {r : Bytes} (hch : (ch == 46) = true) (hp : isNumber (peek r) = true)
    (h : ¬ (scanNumber .float r).2 = true) :
    Cls ch r { n := (scanNumber .float r).1, token := some (ch :: r.take (scanNumber .float r).1), ty := tokInvalid } := by
  simp only [beq_iff_eq] at hch; subst hch
  have hbad := scanNumber_float_bad r (scanNumber .float r).1 (by
    rcases hs : scanNumber .float r with ⟨m, ok⟩
    rw [hs] at h; simp at h; simp [h])
  cases r with
  | nil => simp [peek, isNumber] at hp
  | cons c r' =>
    simp only [peek, List.headD_cons] at hp
    have hn : ∃ m, (scanNumber .float (c :: r')).1 = m + 1 := by
      rw [scanNumber]
      simp only [show (NumState.float == NumState.lead) = false from rfl, show (NumState.float == NumState.float) = true from rfl,
        Bool.or_true, if_true, hp]
      exact ⟨_, rfl⟩
    obtain ⟨m, hm⟩ := hn
    refine .badNumber rfl (Or.inr ⟨c, r'.take m, hp, by simp [hm], ?_⟩) rfl
    simpa [hm] using hbad

theorem scanTok_classified (ch : UInt8) (r : Bytes) : Cls ch r (scanTok false ch r) := by
  have hs := (scanStringTok_open_classified r).2
  simp only [scanTok]
  repeat' (apply ite_cls <;> intro _)
  all_goals first
    | exact cls_single_eq ‹(ch == _) = true› (by decide) (by decide)
    | exact cls_single_else ‹_› ‹_›
    | exact cls_op _ (by decide) (op1_text ‹(ch == _) = true›)
    | exact cls_op _ (by decide) (op2_text ‹(ch == _) = true› ‹(peek r == _) = true› (by decide))
    | exact cls_op _ (by decide) (op3_text ‹(ch == _) = true› ‹(peek r == _) = true› ‹(peek (List.drop 1 r) == _) = true› (by decide) (by decide))
    | (rename_i hh; simp only [Bool.and_eq_true] at hh
       exact cls_op _ (by decide) (op3_text ‹(ch == _) = true› hh.1 hh.2 (by decide) (by decide)))
    | exact cls_plain _ _ _ (by decide) (by decide)
    | exact cls_nonascii _ ‹_›
    | exact cls_badNumber_lead ‹_› ‹_›
    | exact cls_badNumber_float ‹_› ‹_› ‹_›
    | exact cls_plain _ _ _ (by split <;> first | decide | exact (keyword_ty_plain _).1)
        (by split <;> first | decide | exact (keyword_ty_plain _).2)
    | (have hq : ch = 34 := by simpa using ‹(ch == 34) = true›
       subst hq; exact hs)
    | (have hq : ch = 0 := by simpa using ‹(ch == 0) = true›
       subst hq; exact .nul rfl (by simp) rfl)

/-! ### the gap before a token: `next()` / `skipComment()` -/

theorem GapEnd.white {c : UInt8} {g : Bytes} (hc : isWhite c = true) (h : GapEnd g) : GapEnd (c :: g) := by
  rcases h with h | ⟨g1, b, h1, h2, h3⟩
  · exact Or.inl (.white c g hc h)
  · exact Or.inr ⟨c :: g1, b, by simp [h1], .white c g1 hc h2, h3⟩

theorem GapEnd.comment {b : Bytes} {t : UInt8} {g : Bytes} (hb : CBody b) (ht : t = 10 ∨ t = 13) (h : GapEnd g) :
    GapEnd (35 :: b ++ t :: g) := by
  rcases h with h | ⟨g1, b2, h1, h2, h3⟩
  · exact Or.inl (.comment b t g hb ht h)
  · exact Or.inr ⟨35 :: b ++ t :: g1, b2, by simp [h1], .comment b t g1 hb ht h2, h3⟩

/-- the part of the current comment's body that the mode remembers -/
def modePfx : Mode → Bytes
  | .normal => []
  | .comment => []
  | .afterBs => [92]
  | .afterBsCR => [92, 13]

/-- inside a comment whose body so far is `pfx`: the rest of the body, its terminator, a gap -/
def GapC (pfx g : Bytes) : Prop := ∃ b t g', g = b ++ t :: g' ∧ CBody (pfx ++ b) ∧ (t = 10 ∨ t = 13) ∧ Gap g'

def GapEndC (pfx g : Bytes) : Prop :=
  (∃ b t g', g = b ++ t :: g' ∧ CBody (pfx ++ b) ∧ (t = 10 ∨ t = 13) ∧ GapEnd g') ∨ CBody (pfx ++ g)

def GapM : Mode → Bytes → Prop
  | .normal, g => Gap g
  | m, g => GapC (modePfx m) g

def GapEndM : Mode → Bytes → Prop
  | .normal, g => GapEnd g
  | m, g => GapEndC (modePfx m) g

/-- what `nextAux m r n` promises -/
def Next.Spec (m : Mode) (r : Bytes) (n : Nat) : Next → Prop
  | .char c w => ∃ g X, r = g ++ c :: X ∧ w = n + g.length + 1 ∧ isWhite c = false ∧ c ≠ 35 ∧ GapM m g
  | .eof k => k = n + r.length ∧ GapEndM m r
  | .panic => True

theorem cbody_modePfx (m : Mode) : CBody (modePfx m) := by
  cases m
  · exact .nil
  · exact .nil
  · exact .bsend
  · exact .bscr [] .nil

/-- one more byte of the comment body -/
theorem Next.Spec.step_body {m m' : Mode} (hm : m ≠ .normal) (hm' : m' ≠ .normal) (c : UInt8) (r : Bytes) (n : Nat)
    (res : Next) (hp : ∀ b, CBody (modePfx m' ++ b) → CBody (modePfx m ++ c :: b))
    (h : res.Spec m' r (n + 1)) : res.Spec m (c :: r) n := by
  have e1 : ∀ g, GapM m g = GapC (modePfx m) g := by intro g; cases m <;> first | exact absurd rfl hm | rfl
  have e2 : ∀ g, GapM m' g = GapC (modePfx m') g := by intro g; cases m' <;> first | exact absurd rfl hm' | rfl
  have e3 : ∀ g, GapEndM m g = GapEndC (modePfx m) g := by intro g; cases m <;> first | exact absurd rfl hm | rfl
  have e4 : ∀ g, GapEndM m' g = GapEndC (modePfx m') g := by intro g; cases m' <;> first | exact absurd rfl hm' | rfl
  cases res with
  | char x w =>
    obtain ⟨g, X, h1, h2, h3, h4, h5⟩ := h
    rw [e2] at h5
    obtain ⟨b, t, g', h6, h7, h8, h9⟩ := h5
    refine ⟨c :: g, X, by simp [h1], by simp [h2]; omega, h3, h4, ?_⟩
    rw [e1]
    exact ⟨c :: b, t, g', by simp [h6], hp b h7, h8, h9⟩
  | eof k =>
    obtain ⟨h1, h2⟩ := h
    refine ⟨by simp [h1]; omega, ?_⟩
    rw [e4] at h2; rw [e3]
    rcases h2 with ⟨b, t, g', h6, h7, h8, h9⟩ | h2
    · exact Or.inl ⟨c :: b, t, g', by simp [h6], hp b h7, h8, h9⟩
    · exact Or.inr (hp r h2)
  | panic => trivial

/-- the byte `t` (LF or CR) ends the comment; scanning goes on in normal mode -/
theorem Next.Spec.step_term {m : Mode} (hm : m ≠ .normal) (t : UInt8) (ht : t = 10 ∨ t = 13) (r : Bytes) (n : Nat)
    (res : Next) (h : res.Spec .normal r (n + 1)) : res.Spec m (t :: r) n := by
  have e1 : ∀ g, GapM m g = GapC (modePfx m) g := by intro g; cases m <;> first | exact absurd rfl hm | rfl
  have e3 : ∀ g, GapEndM m g = GapEndC (modePfx m) g := by intro g; cases m <;> first | exact absurd rfl hm | rfl
  cases res with
  | char x w =>
    obtain ⟨g, X, h1, h2, h3, h4, h5⟩ := h
    refine ⟨t :: g, X, by simp [h1], by simp [h2]; omega, h3, h4, ?_⟩
    rw [e1]
    exact ⟨[], t, g, rfl, by simpa using cbody_modePfx m, ht, h5⟩
  | eof k =>
    obtain ⟨h1, h2⟩ := h
    refine ⟨by simp [h1]; omega, ?_⟩
    rw [e3]
    exact Or.inl ⟨[], t, r, rfl, by simpa using cbody_modePfx m, ht, h2⟩
  | panic => trivial

theorem nextAux_spec (m : Mode) (r : Bytes) (n : Nat) : (nextAux m r n).Spec m r n := by
  fun_induction nextAux m r n
  · trivial
  · rename_i m n hm
    refine ⟨by simp, ?_⟩
    cases m
    · exact absurd rfl hm
    all_goals exact Or.inr (by simpa using cbody_modePfx _)
  · -- normal, `#`
    rename_i mode c r n hmode hc ih
    have hm : mode = .normal := by simpa using hmode
    have hc' : c = 35 := by simpa using hc
    subst hm hc'
    cases hres : nextAux .comment r (n + 1) with
    | char x w =>
      rw [hres] at ih
      obtain ⟨g, X, h1, h2, h3, h4, b, t, g', h6, h7, h8, h9⟩ := ih
      exact ⟨35 :: g, X, by simp [h1], by simp [h2]; omega, h3, h4, by
        show Gap (35 :: g); rw [h6]; exact .comment b t g' (by simpa [modePfx] using h7) h8 h9⟩
    | eof k =>
      rw [hres] at ih
      obtain ⟨h1, h2⟩ := ih
      refine ⟨by simp [h1]; omega, ?_⟩
      rcases h2 with ⟨b, t, g', h6, h7, h8, h9⟩ | h2
      · show GapEnd (35 :: r); rw [h6]; exact GapEnd.comment (by simpa [modePfx] using h7) h8 h9
      · exact Or.inr ⟨[], r, rfl, .nil, by simpa [modePfx] using h2⟩
    | panic => trivial
  · -- normal, token byte
    rename_i mode c r n hmode hc hw
    have hm : mode = .normal := by simpa using hmode
    subst hm
    exact ⟨[], r, rfl, by simp, by simpa using hw, by simpa using hc, .nil⟩
  · -- normal, last white byte
    rename_i mode c r n hmode hc hw hr
    have hm : mode = .normal := by simpa using hmode
    subst hm
    have hr' : r = [] := by simpa using hr
    subst hr'
    exact ⟨by simp, Or.inl (.white c [] (by simpa using hw) .nil)⟩
  · -- normal, white byte
    rename_i mode c r n hmode hc hw hr ih
    have hm : mode = .normal := by simpa using hmode
    subst hm
    have hw' : isWhite c = true := by simpa using hw
    cases hres : nextAux .normal r (n + 1) with
    | char x w =>
      rw [hres] at ih
      obtain ⟨g, X, h1, h2, h3, h4, h5⟩ := ih
      exact ⟨c :: g, X, by simp [h1], by simp [h2]; omega, h3, h4, .white c g hw' h5⟩
    | eof k =>
      rw [hres] at ih
      obtain ⟨h1, h2⟩ := ih
      exact ⟨by simp [h1]; omega, GapEnd.white hw' h2⟩
    | panic => trivial
  · -- `\\`, `\LF`, `\CR LF`
    rename_i mode c r n hmode hcond ih
    have hm : mode ≠ .normal := by intro h; subst h; simp at hmode
    refine Next.Spec.step_body hm (by decide) c r n _ ?_ ih
    intro b hb
    simp only [modePfx, List.nil_append] at hb
    cases mode <;> simp at hcond
    · rcases hcond with rfl | rfl
      · exact .bsbs b hb
      · exact .bslf b hb
    · subst hcond; exact .bscrlf b hb
  · -- `\CR`
    rename_i mode c r n hmode hcond hcond2 ih
    have hm : mode ≠ .normal := by intro h; subst h; simp at hmode
    refine Next.Spec.step_body hm (by decide) c r n _ ?_ ih
    intro b hb
    cases mode <;> simp at hcond2
    subst hcond2
    exact hb
  · -- a backslash
    rename_i mode c r n hmode hcond hcond2 hc ih
    have hm : mode ≠ .normal := by intro h; subst h; simp at hmode
    have hc' : c = 92 := by simpa using hc
    subst hc'
    refine Next.Spec.step_body hm (by decide) 92 r n _ ?_ ih
    intro b hb
    cases mode <;> simp at hcond
    · exact absurd rfl hm
    · exact hb
    · exact .bscr (92 :: b) hb
  · -- terminator, last byte
    rename_i mode c r n hmode hcond hcond2 hc ht hr
    have hm : mode ≠ .normal := by intro h; subst h; simp at hmode
    have hr' : r = [] := by simpa using hr
    subst hr'
    have ht' : c = 10 ∨ c = 13 := by simpa using ht
    refine ⟨by simp, ?_⟩
    have : GapEndM mode [c] = GapEndC (modePfx mode) [c] := by cases mode <;> first | exact absurd rfl hm | rfl
    rw [this]
    exact Or.inl ⟨[], c, [], rfl, by simpa using cbody_modePfx mode, ht', Or.inl .nil⟩
  · -- terminator
    rename_i mode c r n hmode hcond hcond2 hc ht hr ih
    have hm : mode ≠ .normal := by intro h; subst h; simp at hmode
    exact Next.Spec.step_term hm c (by simpa using ht) r n _ ih
  · -- ordinary comment byte
    rename_i mode c r n hmode hcond hcond2 hc ht ih
    have hm : mode ≠ .normal := by intro h; subst h; simp at hmode
    have h92 : c ≠ 92 := by simpa using hc
    have h10 : c ≠ 10 ∧ c ≠ 13 := by simpa using ht
    refine Next.Spec.step_body hm (by decide) c r n _ ?_ ih
    intro b hb
    simp only [modePfx, List.nil_append] at hb
    cases mode
    · exact absurd rfl hm
    · exact .plain c b h92 h10.1 h10.2 hb
    · exact .bsplain c b h92 h10.1 h10.2 hb
    · exact .bscr (c :: b) (.plain c b h92 h10.1 h10.2 hb)

/-! ### one call of `Lex` -/

/-- ONE CALL OF `Lex` from state `s`: the unread source is `gap ++ text ++ unread'`; `l.offset`
    advances over gap and text; the gap is white space and comments (empty inside an interpolated
    string); either the end of the source was reached (token type `eof`, `l.token = ""`), or the
    token is `Classified` and — outside a string — its first byte is neither white space nor `#`
    (the gap is maximal). -/
def LexStep (s : LState) (gap text : Bytes) : Prop :=
  s.rest = gap ++ text ++ (lex s).2.2.rest ∧
  (lex s).2.2.offset = s.offset + gap.length + text.length ∧
  (lex s).2.2.tokenType = (lex s).1 ∧ (s.inString = true → gap = []) ∧
  (((lex s).1 = eof ∧ text = [] ∧ (lex s).2.2.rest = [] ∧ (lex s).2.2.token = [] ∧ GapEnd gap) ∨
   (∃ tok, Classified s.inString (lex s).1 text tok (lex s).2.2.rest ∧ (lex s).2.2.token = tok.getD s.token ∧
      Gap gap ∧ (s.inString = false → ∃ c t, text = c :: t ∧ isWhite c = false ∧ c ≠ 35)))

theorem lex_step (s : LState) : ∃ gap text, LexStep s gap text := by
  unfold LexStep lex
  split
  · rename_i he
    have he' : s.rest = [] := by simpa using he
    exact ⟨[], [], by simp [commit, he'], by simp [commit], by simp [commit], fun _ => rfl,
      Or.inl ⟨by simp [commit], rfl, by simp [commit, he'], by simp [commit], Or.inl .nil⟩⟩
  · split
    · rename_i hne hin
      obtain ⟨hle, hcl⟩ := scanStringTok_in_classified s.rest (by intro h; simp [h] at hne)
      refine ⟨[], s.rest.take (scanStringTok true none s.rest).n, by simp [commit], ?_, by simp [commit], fun _ => rfl,
        Or.inr ⟨_, by simpa [commit, hin] using hcl, by simp [commit], .nil, by simp [hin]⟩⟩
      simp [commit, List.length_take]; omega
    · rename_i hne hin
      have hne' : s.rest ≠ [] := by intro h; simp [h] at hne
      have hb := next_bounds s.rest hne'
      have hsp := nextAux_spec .normal s.rest 0
      have hin' : s.inString = false := by simpa using hin
      split
      · rename_i heq; rw [heq] at hb; exact hb.elim
      · rename_i n heq
        simp only [next] at heq; rw [heq] at hsp
        obtain ⟨h1, h2⟩ := hsp
        simp only [Nat.zero_add] at h1
        subst h1
        exact ⟨s.rest, [], by simp [commit], by simp [commit], by simp [commit], fun h => by simp [hin'] at h,
          Or.inl ⟨by simp [commit], rfl, by simp [commit], by simp [commit], h2⟩⟩
      · rename_i ch w heq
        simp only [next] at heq; rw [heq] at hsp
        obtain ⟨g, X, h1, h2, h3, h4, h5⟩ := hsp
        simp only [Nat.zero_add] at h2
        have hX : s.rest.drop w = X := by rw [h1, h2]; simp
        rw [hX, hin']
        have hcl : Classified false _ _ _ _ := scanTok_classified ch X
        have hle := scanTok_le false ch X
        have hrest : List.drop (w + (scanTok false ch X).n) s.rest = X.drop (scanTok false ch X).n := by
          rw [← List.drop_drop, hX]
        refine ⟨g, ch :: X.take (scanTok false ch X).n, ?_, ?_, by simp [commit], fun h => by simp at h,
          Or.inr ⟨_, by simpa [commit, hrest] using hcl, by simp [commit], h5, fun _ => ⟨ch, _, rfl, h3, h4⟩⟩⟩
        · simp only [commit, hrest]; rw [h1]; simp
        · simp only [commit, List.length_cons, List.length_take]; omega

end Gojq.Lexer

/-
  C17.4 (`lexer_offsets`) — what the lexer model (Model/Lexer.lean, transliteration of lexer.go)
  consumes and records in ONE call of `Lex`, stated against a declarative vocabulary that does
  not mention the scanners:

    Gap        white space and `#` comments (gojq's backslash / CR rules) between two tokens
    StrBody    the inside of a string literal: plain bytes and well-formed escapes
    BadEscape  a malformed escape sequence
    BadNumber  a malformed number literal (`1.2.`, `1a`, `1e`, `1e+`, `1e5x`, …)
    Classified the five error kinds of `(*ParseError).Error` and the ordinary tokens

  Main result `lex_step`: from every lexer state, `Lex` splits the unread source into
  gap ++ text ++ unread', advances `l.offset` by |gap| + |text|, and (token type, text, l.token)
  are `Classified`.  Core Lean only.
-/
import Gojq.Proofs.Lexer
namespace Gojq.Lexer
open Gojq Gojq.Generated.Lalr

/-! ### vocabulary -/

/-- comment text after `#`, up to (not including) the LF / CR that ends the comment or the end
    of the source.  A backslash takes the next byte with it when that byte is a backslash, LF or
    CR (and CR LF together); before any other byte, and at the very end, it is an ordinary
    comment byte. -/
inductive CBody : Bytes → Prop
  | nil : CBody []
  | plain (c : UInt8) (b : Bytes) : c ≠ 92 → c ≠ 10 → c ≠ 13 → CBody b → CBody (c :: b)
  | bsbs (b : Bytes) : CBody b → CBody (92 :: 92 :: b)
  | bslf (b : Bytes) : CBody b → CBody (92 :: 10 :: b)
  | bscrlf (b : Bytes) : CBody b → CBody (92 :: 13 :: 10 :: b)
  | bscr (b : Bytes) : CBody b → CBody (92 :: 13 :: b)
  | bsplain (c : UInt8) (b : Bytes) : c ≠ 92 → c ≠ 10 → c ≠ 13 → CBody b → CBody (92 :: c :: b)
  | bsend : CBody [92]

/-- what `next()` skips before a token: white space (TAB LF CR SPACE) and comments, each comment
    `#` body followed by the LF or CR that ends it -/
inductive Gap : Bytes → Prop
  | nil : Gap []
  | white (c : UInt8) (g : Bytes) : isWhite c = true → Gap g → Gap (c :: g)
  | comment (b : Bytes) (t : UInt8) (g : Bytes) : CBody b → (t = 10 ∨ t = 13) → Gap g → Gap (35 :: b ++ t :: g)

/-- a gap that reaches the end of the source: it may end inside a comment -/
def GapEnd (g : Bytes) : Prop := Gap g ∨ ∃ g1 b, g = g1 ++ 35 :: b ∧ Gap g1 ∧ CBody b

/-- `e` in `\e` is one of the single-byte escapes `" / \ b f n r t` -/
def simpleEsc (e : UInt8) : Bool :=
  e == 34 || e == 47 || e == 92 || e == 98 || e == 102 || e == 110 || e == 114 || e == 116

/-- the inside of a string literal: bytes other than `\` and `"`, `\e` with `e` a single-byte
    escape, `\uXXXX` with four hex digits — no closing quote, no `\(` -/
inductive StrBody : Bytes → Prop
  | nil : StrBody []
  | plain (c : UInt8) (b : Bytes) : c ≠ 92 → c ≠ 34 → StrBody b → StrBody (c :: b)
  | esc (e : UInt8) (b : Bytes) : simpleEsc e = true → StrBody b → StrBody (92 :: e :: b)
  | uesc (a b c d : UInt8) (r : Bytes) : isHex a = true → isHex b = true → isHex c = true → isHex d = true →
      StrBody r → StrBody (92 :: 117 :: a :: b :: c :: d :: r)

/-- a malformed escape `tok`, followed in the source by `rest`:
    `\x` with `x` none of `" / \ b f n r t u (`, or `\u` with fewer than four hex digits (the
    token stops BEFORE the byte that is not a hex digit, or at the end of the source) -/
def BadEscape (tok rest : Bytes) : Prop :=
  (∃ x, tok = [92, x] ∧ simpleEsc x = false ∧ x ≠ 117 ∧ x ≠ 40) ∨
  (∃ hs, tok = 92 :: 117 :: hs ∧ hs.length < 4 ∧ (∀ h ∈ hs, isHex h = true) ∧
     ∀ c ∈ rest.head?, isHex c = false)

def AllDigits (d : Bytes) : Prop := ∀ c ∈ d, isNumber c = true
def IsSign (sg : Bytes) : Prop := sg = [] ∨ sg = [43] ∨ sg = [45]
def IsE (c : UInt8) : Prop := c = 101 ∨ c = 69
/-- a byte that may start an identifier: letter or `_` -/
def Letter (c : UInt8) : Prop := isIdent c false = true
/-- the next byte (if any) is neither a digit nor a letter -/
def Stops (rest : Bytes) : Prop := ∀ c ∈ rest.head?, isNumber c = false ∧ isIdent c false = false

/-- what makes an exponent invalid, `t` = the bytes after `e`/`E`:
    `[sign] digits letter` (`1ex`, `1e+x`, `1e5x`), or `[sign]` with no digit after it (`1e`, `1e+`) -/
def ExpBad (t rest : Bytes) : Prop :=
  ∃ sg d, IsSign sg ∧ AllDigits d ∧
    ((∃ c, Letter c ∧ t = sg ++ d ++ [c]) ∨ (d = [] ∧ t = sg ∧ Stops rest))

/-- invalid continuation once a `.` has been read: `digits .` (a second dot), `digits letter`
    (not `e`/`E`), or `digits e` + an invalid exponent -/
def FloatBad (t rest : Bytes) : Prop :=
  ∃ d, AllDigits d ∧
    (t = d ++ [46] ∨ (∃ c, Letter c ∧ ¬ IsE c ∧ t = d ++ [c]) ∨ (∃ e x, IsE e ∧ ExpBad x rest ∧ t = d ++ e :: x))

/-- invalid continuation of an integer part: `digits letter`, `digits e` + invalid exponent,
    `digits .` + invalid fraction -/
def LeadBad (t rest : Bytes) : Prop :=
  ∃ d, AllDigits d ∧
    ((∃ c, Letter c ∧ ¬ IsE c ∧ t = d ++ [c]) ∨ (∃ e x, IsE e ∧ ExpBad x rest ∧ t = d ++ e :: x) ∨
     (∃ x, FloatBad x rest ∧ t = d ++ 46 :: x))

/-- a malformed number literal `text` followed by `rest`: starts with a digit, or with `.` and a
    digit, and continues invalidly.  Its LAST byte is the byte that made it invalid (second dot,
    letter) — except for a missing exponent, where it ends with `e`/`E`/sign and the byte after
    it is no digit. -/
def BadNumber (text rest : Bytes) : Prop :=
  (∃ c t, isNumber c = true ∧ text = c :: t ∧ LeadBad t rest) ∨
  (∃ c t, isNumber c = true ∧ text = 46 :: c :: t ∧ FloatBad (c :: t) rest)

/-- token types whose text `Lex` does not store in `l.token`, or that are error kinds -/
def special (ty : Int) : Prop :=
  ty = eof ∨ ty = tokInvalid ∨ ty = tokInvalidEscapeSequence ∨ ty = tokUnterminatedString ∨
  ty = tokStringQuery ∨ ty = tokStringEnd

/-- how one token is reported.  `inStr` = the lexer was inside an interpolated string literal,
    `ty` = the token type returned, `text` = the source bytes consumed for it (after the gap),
    `tok` = what `Lex` assigned to `l.token` (none = not assigned), `rest` = the source after it. -/
inductive Classified (inStr : Bool) (ty : Int) (text : Bytes) (tok : Option Bytes) (rest : Bytes) : Prop
  /-- a single ASCII byte that is a token by itself: `l.token` is not assigned, `Error` uses the type -/
  | single (c : UInt8) (h0 : c ≠ 0) (h128 : c.toNat < 128) (hty : ty = c.toNat) (htext : text = [c]) (htok : tok = none)
  /-- every token whose text is stored: identifiers, keywords, variables, fields, formats,
      numbers, operators, string literals and pieces, the opening quote of an interpolated string
      (tokStringStart), a non-ASCII character -/
  | plain (h128 : 128 ≤ ty) (hsp : ¬ special ty) (hne : text ≠ []) (htok : tok = some text)
  /-- the NUL byte (b92b08f) -/
  | nul (hty : ty = tokInvalid) (htext : text = [0]) (htok : tok = some text)
  | badNumber (hty : ty = tokInvalid) (hbad : BadNumber text rest) (htok : tok = some text)
  /-- the first malformed escape of a string literal: everything from the opening quote (or from
      where the lexer stood inside the interpolated string) up to its end has been consumed,
      `l.token` is the escape alone -/
  | badEscape (opn body esc : Bytes) (hopn : opn = if inStr then [] else [34]) (hbody : StrBody body)
      (hesc : BadEscape esc rest) (hty : ty = tokInvalidEscapeSequence) (htext : text = opn ++ body ++ esc)
      (htok : tok = some esc)
  /-- no closing quote and no `\(` up to the end of the source (a lone trailing backslash
      included): everything has been consumed, `l.token` is empty -/
  | unterminated (opn body : Bytes) (hopn : opn = if inStr then [] else [34])
      (hbody : StrBody body ∨ ∃ b, body = b ++ [92] ∧ StrBody b)
      (hty : ty = tokUnterminatedString) (htext : text = opn ++ body) (htok : tok = some []) (hrest : rest = [])
  /-- inside an interpolated string: `\(` — `l.token` is not assigned -/
  | strQuery (hin : inStr = true) (hty : ty = tokStringQuery) (htext : text = [92, 40]) (htok : tok = none)
  /-- inside an interpolated string: the closing `"` — `l.token` is not assigned -/
  | strEnd (hin : inStr = true) (hty : ty = tokStringEnd) (htext : text = [34]) (htok : tok = none)

/-! ### numbers -/

theorem allDigits_nil : AllDigits [] := by intro c h; cases h

theorem allDigits_cons {c : UInt8} {d : Bytes} (hc : isNumber c = true) (hd : AllDigits d) : AllDigits (c :: d) := by
  intro x hx
  cases hx with
  | head => exact hc
  | tail _ h => exact hd x h

theorem stops_of {c : UInt8} {r : Bytes} (h1 : isNumber c = false) (h2 : isIdent c false = false) : Stops (c :: r) := by
  intro x hx; simp at hx; subst hx; exact ⟨h1, h2⟩

theorem stops_nil : Stops [] := by intro x hx; simp at hx

/-- state `exp` (digits after the exponent marker have been seen) -/
theorem scanNumber_exp_bad (r : Bytes) : ∀ n, scanNumber .exp r = (n, false) →
    ∃ d c, AllDigits d ∧ Letter c ∧ r.take n = d ++ [c] := by
  induction r with
  | nil => intro n h; simp [scanNumber] at h
  | cons c r ih =>
    intro n h
    rw [scanNumber] at h
    simp only [show (NumState.exp == NumState.lead) = false from rfl, show (NumState.exp == NumState.float) = false from rfl,
      show (NumState.exp == NumState.expSign) = false from rfl, Bool.or_false, Bool.false_and, Bool.false_eq_true,
      if_false, show (NumState.exp != NumState.exp) = false from rfl] at h
    by_cases hn : isNumber c = true
    · simp only [hn, Bool.not_true, Bool.false_eq_true, if_false] at h
      rcases hs : scanNumber .exp r with ⟨m, ok⟩
      rw [hs] at h
      simp only [Prod.mk.injEq] at h
      obtain ⟨h1, h2⟩ := h
      subst h1 h2
      obtain ⟨d, x, hd, hx, ht⟩ := ih m hs
      exact ⟨c :: d, x, allDigits_cons hn hd, hx, by simp [List.take_succ_cons, ht]⟩
    · simp only [hn, Bool.not_false, if_true] at h
      by_cases hi : isIdent c false = true
      · simp only [hi, if_true, Prod.mk.injEq] at h
        obtain ⟨h1, _⟩ := h; subst h1
        exact ⟨[], c, allDigits_nil, hi, by simp⟩
      · simp [hi] at h

/-- state `expLead` (exponent marker and optional sign read, no digit yet) -/
theorem scanNumber_expLead_bad (r : Bytes) : ∀ n, scanNumber .expLead r = (n, false) →
    (∃ d c, AllDigits d ∧ Letter c ∧ r.take n = d ++ [c]) ∨ (n = 0 ∧ Stops r) := by
  cases r with
  | nil => intro n h; simp [scanNumber] at h; exact Or.inr ⟨h.symm, stops_nil⟩
  | cons c r =>
    intro n h
    rw [scanNumber] at h
    simp only [show (NumState.expLead == NumState.lead) = false from rfl, show (NumState.expLead == NumState.float) = false from rfl,
      show (NumState.expLead == NumState.expSign) = false from rfl, Bool.or_false, Bool.false_and, Bool.false_eq_true,
      if_false, show (NumState.expLead != NumState.exp) = true from rfl, if_true] at h
    by_cases hn : isNumber c = true
    · simp only [hn, Bool.not_true, Bool.false_eq_true, if_false] at h
      rcases hs : scanNumber .exp r with ⟨m, ok⟩
      rw [hs] at h
      simp only [Prod.mk.injEq] at h
      obtain ⟨h1, h2⟩ := h
      subst h1 h2
      obtain ⟨d, x, hd, hx, ht⟩ := scanNumber_exp_bad r m hs
      exact Or.inl ⟨c :: d, x, allDigits_cons hn hd, hx, by simp [List.take_succ_cons, ht]⟩
    · simp only [hn, Bool.not_false, if_true] at h
      by_cases hi : isIdent c false = true
      · simp only [hi, if_true, Prod.mk.injEq] at h
        obtain ⟨h1, _⟩ := h; subst h1
        exact Or.inl ⟨[], c, allDigits_nil, hi, by simp⟩
      · simp only [hi, Bool.false_eq_true, if_false, Prod.mk.injEq, and_true] at h
        exact Or.inr ⟨h.symm, stops_of (by simpa using hn) (by simpa using hi)⟩

/-- state `expSign` (just after `e`/`E`) -/
theorem scanNumber_expSign_bad (r : Bytes) (n : Nat) (h : scanNumber .expSign r = (n, false)) :
    ExpBad (r.take n) (r.drop n) := by
  cases r with
  | nil =>
    simp [scanNumber] at h; subst h
    exact ⟨[], [], Or.inl rfl, allDigits_nil, Or.inr ⟨rfl, rfl, stops_nil⟩⟩
  | cons c r =>
    rw [scanNumber] at h
    simp only [show (NumState.expSign == NumState.lead) = false from rfl, show (NumState.expSign == NumState.float) = false from rfl,
      show (NumState.expSign == NumState.expSign) = true from rfl, Bool.or_false, Bool.true_and, Bool.false_eq_true,
      if_false, show (NumState.expSign != NumState.exp) = true from rfl, if_true] at h
    by_cases hs : (c == 45 || c == 43) = true
    · simp only [hs, if_true] at h
      rcases hs2 : scanNumber .expLead r with ⟨m, ok⟩
      rw [hs2] at h
      simp only [Prod.mk.injEq] at h
      obtain ⟨h1, h2⟩ := h
      subst h1 h2
      have hsg : IsSign [c] := by
        simp only [Bool.or_eq_true, beq_iff_eq] at hs
        rcases hs with hs | hs <;> subst hs
        · exact Or.inr (Or.inr rfl)
        · exact Or.inr (Or.inl rfl)
      rcases scanNumber_expLead_bad r m hs2 with ⟨d, x, hd, hx, ht⟩ | ⟨hm, hst⟩
      · exact ⟨[c], d, hsg, hd, Or.inl ⟨x, hx, by simp [List.take_succ_cons, ht]⟩⟩
      · subst hm
        exact ⟨[c], [], hsg, allDigits_nil, Or.inr ⟨rfl, by simp, by simpa using hst⟩⟩
    · simp only [hs, Bool.false_eq_true, if_false] at h
      by_cases hn : isNumber c = true
      · simp only [hn, Bool.not_true, Bool.false_eq_true, if_false] at h
        rcases hs2 : scanNumber .exp r with ⟨m, ok⟩
        rw [hs2] at h
        simp only [Prod.mk.injEq] at h
        obtain ⟨h1, h2⟩ := h
        subst h1 h2
        obtain ⟨d, x, hd, hx, ht⟩ := scanNumber_exp_bad r m hs2
        exact ⟨[], c :: d, Or.inl rfl, allDigits_cons hn hd, Or.inl ⟨x, hx, by simp [List.take_succ_cons, ht]⟩⟩
      · simp only [hn, Bool.not_false, if_true] at h
        by_cases hi : isIdent c false = true
        · simp only [hi, if_true, Prod.mk.injEq] at h
          obtain ⟨h1, _⟩ := h; subst h1
          exact ⟨[], [], Or.inl rfl, allDigits_nil, Or.inl ⟨c, hi, by simp⟩⟩
        · simp only [hi, Bool.false_eq_true, if_false, Prod.mk.injEq, and_true] at h
          subst h
          exact ⟨[], [], Or.inl rfl, allDigits_nil, Or.inr ⟨rfl, by simp, by
            simpa using stops_of (r := r) (by simpa using hn) (by simpa using hi)⟩⟩

theorem isE_of_beq {c : UInt8} (h : (c == 101 || c == 69) = true) : IsE c := by
  simp only [Bool.or_eq_true, beq_iff_eq] at h; exact h

theorem not_isE_of_beq {c : UInt8} (h : ¬ (c == 101 || c == 69) = true) : ¬ IsE c := by
  intro hc; apply h; simp only [Bool.or_eq_true, beq_iff_eq]; exact hc

/-- state `float` (a `.` has been read) -/
theorem scanNumber_float_bad (r : Bytes) : ∀ n, scanNumber .float r = (n, false) →
    FloatBad (r.take n) (r.drop n) := by
  induction r with
  | nil => intro n h; simp [scanNumber] at h
  | cons c r ih =>
    intro n h
    rw [scanNumber] at h
    simp only [show (NumState.float == NumState.lead) = false from rfl, show (NumState.float == NumState.float) = true from rfl,
      Bool.or_true, if_true, show (NumState.float != NumState.lead) = true from rfl] at h
    by_cases hn : isNumber c = true
    · simp only [hn, if_true] at h
      rcases hs : scanNumber .float r with ⟨m, ok⟩
      rw [hs] at h
      simp only [Prod.mk.injEq] at h
      obtain ⟨h1, h2⟩ := h
      subst h1 h2
      obtain ⟨d, hd, hcase⟩ := ih m hs
      refine ⟨c :: d, allDigits_cons hn hd, ?_⟩
      rcases hcase with ht | ⟨x, hx, hxe, ht⟩ | ⟨e, x, he, hx, ht⟩
      · exact Or.inl (by simp [List.take_succ_cons, ht])
      · exact Or.inr (Or.inl ⟨x, hx, hxe, by simp [List.take_succ_cons, ht]⟩)
      · exact Or.inr (Or.inr ⟨e, x, he, by simpa using hx, by simp [List.take_succ_cons, ht]⟩)
    · simp only [hn, Bool.false_eq_true, if_false] at h
      by_cases hdot : (c == 46) = true
      · simp only [hdot, if_true, Prod.mk.injEq] at h
        obtain ⟨h1, _⟩ := h; subst h1
        simp only [beq_iff_eq] at hdot; subst hdot
        exact ⟨[], allDigits_nil, Or.inl (by simp)⟩
      · simp only [hdot, Bool.false_eq_true, if_false] at h
        by_cases he : (c == 101 || c == 69) = true
        · simp only [he, if_true] at h
          rcases hs : scanNumber .expSign r with ⟨m, ok⟩
          rw [hs] at h
          simp only [Prod.mk.injEq] at h
          obtain ⟨h1, h2⟩ := h
          subst h1 h2
          have := scanNumber_expSign_bad r m hs
          exact ⟨[], allDigits_nil, Or.inr (Or.inr ⟨c, r.take m, isE_of_beq he, by simpa using this, by simp [List.take_succ_cons]⟩)⟩
        · simp only [he, Bool.false_eq_true, if_false] at h
          by_cases hi : isIdent c false = true
          · simp only [hi, if_true, Prod.mk.injEq] at h
            obtain ⟨h1, _⟩ := h; subst h1
            exact ⟨[], allDigits_nil, Or.inr (Or.inl ⟨c, hi, not_isE_of_beq he, by simp⟩)⟩
          · simp [hi] at h

/-- state `lead` (integer part) -/
theorem scanNumber_lead_bad (r : Bytes) : ∀ n, scanNumber .lead r = (n, false) →
    LeadBad (r.take n) (r.drop n) := by
  induction r with
  | nil => intro n h; simp [scanNumber] at h
  | cons c r ih =>
    intro n h
    rw [scanNumber] at h
    simp only [show (NumState.lead == NumState.lead) = true from rfl,
      Bool.true_or, if_true, show (NumState.lead != NumState.lead) = false from rfl] at h
    by_cases hn : isNumber c = true
    · simp only [hn, if_true] at h
      rcases hs : scanNumber .lead r with ⟨m, ok⟩
      rw [hs] at h
      simp only [Prod.mk.injEq] at h
      obtain ⟨h1, h2⟩ := h
      subst h1 h2
      obtain ⟨d, hd, hcase⟩ := ih m hs
      refine ⟨c :: d, allDigits_cons hn hd, ?_⟩
      rcases hcase with ⟨x, hx, hxe, ht⟩ | ⟨e, x, he, hx, ht⟩ | ⟨x, hx, ht⟩
      · exact Or.inl ⟨x, hx, hxe, by simp [List.take_succ_cons, ht]⟩
      · exact Or.inr (Or.inl ⟨e, x, he, by simpa using hx, by simp [List.take_succ_cons, ht]⟩)
      · exact Or.inr (Or.inr ⟨x, by simpa using hx, by simp [List.take_succ_cons, ht]⟩)
    · simp only [hn, Bool.false_eq_true, if_false] at h
      by_cases hdot : (c == 46) = true
      · simp only [hdot, if_true] at h
        rcases hs : scanNumber .float r with ⟨m, ok⟩
        rw [hs] at h
        simp only [Prod.mk.injEq] at h
        obtain ⟨h1, h2⟩ := h
        subst h1 h2
        simp only [beq_iff_eq] at hdot; subst hdot
        have := scanNumber_float_bad r m hs
        exact ⟨[], allDigits_nil, Or.inr (Or.inr ⟨r.take m, by simpa using this, by simp [List.take_succ_cons]⟩)⟩
      · simp only [hdot, Bool.false_eq_true, if_false] at h
        by_cases he : (c == 101 || c == 69) = true
        · simp only [he, if_true] at h
          rcases hs : scanNumber .expSign r with ⟨m, ok⟩
          rw [hs] at h
          simp only [Prod.mk.injEq] at h
          obtain ⟨h1, h2⟩ := h
          subst h1 h2
          have := scanNumber_expSign_bad r m hs
          exact ⟨[], allDigits_nil, Or.inr (Or.inl ⟨c, r.take m, isE_of_beq he, by simpa using this, by simp [List.take_succ_cons]⟩)⟩
        · simp only [he, Bool.false_eq_true, if_false] at h
          by_cases hi : isIdent c false = true
          · simp only [hi, if_true, Prod.mk.injEq] at h
            obtain ⟨h1, _⟩ := h; subst h1
            exact ⟨[], allDigits_nil, Or.inl ⟨c, hi, not_isE_of_beq he, by simp⟩⟩
          · simp [hi] at h

/-! ### string literals -/

theorem hexPrefix_spec (r : Bytes) :
    hexPrefix r ≤ 4 ∧ hexPrefix r ≤ r.length ∧ (∀ h ∈ r.take (hexPrefix r), isHex h = true) ∧
    (hexPrefix r < 4 → ∀ c ∈ (r.drop (hexPrefix r)).head?, isHex c = false) := by
  unfold hexPrefix
  repeat' split
  all_goals simp_all

theorem hexPrefix_lt_of_not_all (a b c d : UInt8) (r : Bytes)
    (h : ¬ (isHex a && isHex b && isHex c && isHex d) = true) : hexPrefix (a :: b :: c :: d :: r) < 4 := by
  unfold hexPrefix
  repeat' split
  all_goals simp_all

/-- what the loop of `scanString`, started at relative position `k` on `r`, reports -/
def StrScan.Spec (r : Bytes) (k : Nat) : StrScan → Prop
  | .quote j => ∃ body X, r = body ++ 34 :: X ∧ j = k + body.length ∧ StrBody body
  | .interp j => ∃ body X, r = body ++ 92 :: 40 :: X ∧ j = k + body.length ∧ StrBody body
  | .invalidEscape e len => ∃ body esc X, r = body ++ esc ++ X ∧ e = k + body.length + esc.length ∧
      len = esc.length ∧ StrBody body ∧ BadEscape esc X
  | .unterminated => StrBody r ∨ ∃ b, r = b ++ [92] ∧ StrBody b

theorem StrScan.Spec.prepend (p r : Bytes) (k : Nat) (res : StrScan) (hp : ∀ b, StrBody b → StrBody (p ++ b))
    (h : res.Spec r (k + p.length)) : res.Spec (p ++ r) k := by
  cases res with
  | quote j =>
    obtain ⟨body, X, h1, h2, h3⟩ := h
    exact ⟨p ++ body, X, by simp [h1], by simp [h2]; omega, hp _ h3⟩
  | interp j =>
    obtain ⟨body, X, h1, h2, h3⟩ := h
    exact ⟨p ++ body, X, by simp [h1], by simp [h2]; omega, hp _ h3⟩
  | invalidEscape e len =>
    obtain ⟨body, esc, X, h1, h2, h3, h4, h5⟩ := h
    exact ⟨p ++ body, esc, X, by simp [h1], by simp [h2]; omega, h3, hp _ h4, h5⟩
  | unterminated =>
    rcases h with h | ⟨b, h1, h2⟩
    · exact Or.inl (hp _ h)
    · exact Or.inr ⟨p ++ b, by simp [h1], hp _ h2⟩

theorem scanString_spec (r : Bytes) (k : Nat) : (scanString r k).Spec r k := by
  fun_induction scanString r k
  · exact Or.inl .nil
  · rename_i c k hc
    simp only [beq_iff_eq] at hc; subst hc
    exact Or.inr ⟨[], rfl, .nil⟩
  · rename_i c k hc e he a b c' d r4 hhex ih
    simp only [beq_iff_eq] at hc he; subst hc he
    simp only [Bool.and_eq_true] at hhex
    exact StrScan.Spec.prepend [92, 117, a, b, c', d] r4 k _
      (fun body hb => .uesc a b c' d body hhex.1.1.1 hhex.1.1.2 hhex.1.2 hhex.2 hb) (by simpa using ih)
  · rename_i c k hc e he a b c' d r4 hhex
    simp only [beq_iff_eq] at hc he; subst hc he
    have hlt := hexPrefix_lt_of_not_all a b c' d r4 hhex
    obtain ⟨_, h2, h3, h4⟩ := hexPrefix_spec (a :: b :: c' :: d :: r4)
    refine ⟨[], 92 :: 117 :: (a :: b :: c' :: d :: r4).take (hexPrefix (a :: b :: c' :: d :: r4)),
      (a :: b :: c' :: d :: r4).drop (hexPrefix (a :: b :: c' :: d :: r4)), by simp, ?_, ?_, .nil, ?_⟩
    · simp [List.length_take]; omega
    · simp [List.length_take]; omega
    · exact Or.inr ⟨_, rfl, by simp [List.length_take]; omega, h3, h4 hlt⟩
  · rename_i c k hc e r' he hshort
    simp only [beq_iff_eq] at hc he; subst hc he
    obtain ⟨_, h2, h3, h4⟩ := hexPrefix_spec r'
    have hlen : r'.length < 4 := by
      match r', hshort with
      | [], _ => simp
      | [_], _ => simp
      | [_, _], _ => simp
      | [_, _, _], _ => simp
      | a :: b :: c :: d :: r4, hs => exact absurd rfl (hs a b c d r4)
    refine ⟨[], 92 :: 117 :: r'.take (hexPrefix r'), r'.drop (hexPrefix r'), by simp, ?_, ?_, .nil, ?_⟩
    · simp [List.length_take]; omega
    · simp [List.length_take]; omega
    · exact Or.inr ⟨_, rfl, by simp [List.length_take]; omega, h3, h4 (by omega)⟩
  · rename_i c k hc e r' he hsimple ih
    simp only [beq_iff_eq] at hc; subst hc
    exact StrScan.Spec.prepend [92, e] r' k _ (fun body hb => .esc e body (by simpa [simpleEsc] using hsimple) hb) (by simpa using ih)
  · rename_i c k hc e r' he hsimple h40
    simp only [beq_iff_eq] at hc h40; subst hc h40
    exact ⟨[], r', rfl, by simp, .nil⟩
  · rename_i c k hc e r' he hsimple h40
    simp only [beq_iff_eq] at hc; subst hc
    refine ⟨[], [92, e], r', rfl, by simp, rfl, .nil, Or.inl ⟨e, rfl, ?_, ?_, ?_⟩⟩
    · simpa [simpleEsc] using hsimple
    · simpa using he
    · simpa using h40
  · rename_i c r k hc h34
    simp only [beq_iff_eq] at h34; subst h34
    exact ⟨[], r, rfl, by simp, .nil⟩
  · rename_i c r k hc h34 ih
    exact StrScan.Spec.prepend [c] r k _ (fun body hb => .plain c body (by simpa using hc) (by simpa using h34) hb) (by simpa using ih)

theorem take_two (a b c : Bytes) (n : Nat) (h : n = a.length + b.length) : (a ++ b ++ c).take n = a ++ b := by
  subst h; rw [← List.length_append]; exact List.take_left' rfl

theorem drop_two (a b c : Bytes) (n : Nat) (h : n = a.length + b.length) : (a ++ b ++ c).drop n = c := by
  subst h; rw [← List.length_append]; exact List.drop_left' rfl

theorem not_special_tokString : ¬ special tokString := by
  simp only [special]; decide
theorem not_special_tokStringStart : ¬ special tokStringStart := by
  simp only [special]; decide

/-- a string literal started outside an interpolated string: Lex has consumed the opening quote -/
theorem scanStringTok_open_classified (r : Bytes) :
    (scanStringTok false (some 34) r).n ≤ r.length ∧
    Classified false (scanStringTok false (some 34) r).ty (34 :: r.take (scanStringTok false (some 34) r).n)
      (scanStringTok false (some 34) r).token (r.drop (scanStringTok false (some 34) r).n) := by
  refine ⟨scanStringTok_le _ _ _, ?_⟩
  have hs := scanString_spec r 0
  simp only [scanStringTok]
  cases hsc : scanString r 0 with
  | unterminated =>
    rw [hsc] at hs
    exact .unterminated [34] r rfl hs rfl (by simp) rfl (by simp)
  | invalidEscape e len =>
    rw [hsc] at hs
    obtain ⟨body, esc, X, h1, h2, h3, h4, h5⟩ := hs
    subst h1 h2 h3
    have ht := take_two body esc X (0 + body.length + esc.length) (by omega)
    have hd := drop_two body esc X (0 + body.length + esc.length) (by omega)
    refine .badEscape [34] body esc rfl h4 (by rw [hd]; exact h5) rfl (by rw [ht]; simp) ?_
    simp only [ht]
    congr 1
    have : 0 + body.length + esc.length - esc.length = body.length := by omega
    rw [this]; simp
  | interp k =>
    simp only [Bool.not_false, if_true]
    exact .plain (by decide) not_special_tokStringStart (by simp) (by simp)
  | quote k =>
    simp only [Bool.not_false, if_true]
    exact .plain (by decide) not_special_tokString (by simp) (by simp)

/-- inside an interpolated string literal -/
theorem scanStringTok_in_classified (r : Bytes) :
    (scanStringTok true none r).n ≤ r.length ∧
    Classified true (scanStringTok true none r).ty (r.take (scanStringTok true none r).n)
      (scanStringTok true none r).token (r.drop (scanStringTok true none r).n) := by
  refine ⟨scanStringTok_le _ _ _, ?_⟩
  have hs := scanString_spec r 0
  simp only [scanStringTok]
  cases hsc : scanString r 0 with
  | unterminated =>
    rw [hsc] at hs
    exact .unterminated [] r rfl hs rfl (by simp) rfl (by simp)
  | invalidEscape e len =>
    rw [hsc] at hs
    obtain ⟨body, esc, X, h1, h2, h3, h4, h5⟩ := hs
    subst h1 h2 h3
    have ht := take_two body esc X (0 + body.length + esc.length) (by omega)
    have hd := drop_two body esc X (0 + body.length + esc.length) (by omega)
    refine .badEscape [] body esc rfl h4 (by rw [hd]; exact h5) rfl (by rw [ht]; simp) ?_
    simp only [ht]
    congr 1
    have : 0 + body.length + esc.length - esc.length = body.length := by omega
    rw [this]; simp
  | interp k =>
    rw [hsc] at hs
    obtain ⟨body, X, h1, h2, h3⟩ := hs
    subst h1
    simp only [Bool.not_true, Bool.false_eq_true, if_false]
    by_cases hk : (k == 0) = true
    · simp only [hk, if_true]
      simp only [beq_iff_eq] at hk
      have hb : body = [] := by
        cases body with
        | nil => rfl
        | cons _ _ => simp at h2; omega
      subst hb
      exact .strQuery rfl rfl (by simp) rfl
    · simp only [hk, Bool.false_eq_true, if_false]
      refine .plain (by decide) not_special_tokString ?_ rfl
      intro h
      have := congrArg List.length h
      simp [List.length_take] at this
      simp only [beq_iff_eq] at hk
      omega
  | quote k =>
    rw [hsc] at hs
    obtain ⟨body, X, h1, h2, h3⟩ := hs
    subst h1
    simp only [Bool.not_true, Bool.false_eq_true, if_false]
    by_cases hk : k > 0
    · simp only [hk, if_true]
      refine .plain (by decide) not_special_tokString ?_ rfl
      intro h
      have := congrArg List.length h
      simp [List.length_take] at this
      omega
    · simp only [hk, if_false]
      have hb : body = [] := by
        cases body with
        | nil => rfl
        | cons _ _ => simp at h2; omega
      subst hb
      exact .strEnd rfl rfl (by simp) rfl

end Gojq.Lexer

/-
  The image of the reference parser is Printable, part 4: the primary forms.
-/
import Gojq.Proofs.RoundTripImage4
namespace Gojq.RefTerm
open Gojq Gojq.Lexer

/-- the common conclusion for a self-delimiting form -/
theorem prim_closed {t : Term} {rest : List Tok} (hok : okT t = true) (hg : Good rest)
    (hs : suffixable t = true) (ho : openTryT t = false) :
    okT t = true ∧ Good rest ∧ (suffixable t = true ∨ SufStop rest) ∧ (openTryT t = true → CatchStop rest) :=
  ⟨hok, hg, Or.inl hs, fun h => by rw [ho] at h; cases h⟩

theorem step_primary (f : Nat) (ih : IH f) : ∀ (ts : List Tok) (t : Term) (rest : List Tok),
    pPrimary (f + 1) ts = some (t, rest) → Good ts →
      okT t = true ∧ Good rest ∧ (suffixable t = true ∨ SufStop rest) ∧ (openTryT t = true → CatchStop rest) := by
  intro ts t rest h hg
  unfold pPrimary at h
  split at h
  · cases h
  · -- `.[…]`
    ext_do h
    obtain ⟨s, ts1, h1, h2⟩ := h
    obtain ⟨p1, p2, p3⟩ := ih.bracket _ s ts1 h1 hg.tail2
    split at h2
    · simp at h2; obtain ⟨rfl, rfl⟩ := h2
      exact prim_closed (by simp [okT, suffixable, okSuf]) p2 rfl rfl
    · next hne =>
      simp at h2; obtain ⟨rfl, rfl⟩ := h2
      have hi : isIndexForm s = true := by
        rcases p3 with h' | h'
        · exact h'
        · exact absurd h' hne
      exact prim_closed (by simp [okT, hi, p1]) p2 rfl rfl
  · simp at h; obtain ⟨rfl, rfl⟩ := h
    exact prim_closed (by simp [okT, isIndexForm, okSuf, okS, wf_str hg.tail.head]) hg.tail2 rfl rfl
  · ext_do h
    obtain ⟨ps, ts1, h1, rfl, rfl⟩ := h
    obtain ⟨p1, p2, p3, p4⟩ := ih.parts _ ps ts1 h1 hg.tail2
    exact prim_closed (by simp [okT, isIndexForm, okSuf, okS_interp ps p1 p3 p4 hg.tail]) p2 rfl rfl
  · simp at h; obtain ⟨rfl, rfl⟩ := h; exact prim_closed rfl hg.tail rfl rfl
  · simp at h; obtain ⟨rfl, rfl⟩ := h; exact prim_closed rfl hg.tail rfl rfl
  · simp at h; obtain ⟨rfl, rfl⟩ := h
    exact prim_closed (by simp [okT, isIndexForm, okSuf, show isIdentName _ = true from hg.head]) hg.tail rfl rfl
  · simp at h; obtain ⟨rfl, rfl⟩ := h; exact prim_closed rfl hg.tail rfl rfl
  · simp at h; obtain ⟨rfl, rfl⟩ := h; exact prim_closed rfl hg.tail rfl rfl
  · simp at h; obtain ⟨rfl, rfl⟩ := h; exact prim_closed rfl hg.tail rfl rfl
  · -- `f(…)`
    ext_do h
    obtain ⟨a, ts1, h1, as, ts2, h2, rfl, rfl⟩ := h
    obtain ⟨p1, p2, _, _⟩ := ih.climb true 1 _ a ts1 h1 hg.tail2 (fun _ => by omega)
    obtain ⟨q1, q2⟩ := ih.argsT _ as ts2 h2 p2
    exact prim_closed (by simp [okT, show isPlainIdent _ = true from hg.head, p1, q1]) q2 rfl rfl
  · ext_do h
    obtain ⟨a, ts1, h1, as, ts2, h2, rfl, rfl⟩ := h
    obtain ⟨p1, p2, _, _⟩ := ih.climb true 1 _ a ts1 h1 hg.tail2 (fun _ => by omega)
    obtain ⟨q1, q2⟩ := ih.argsT _ as ts2 h2 p2
    exact prim_closed (by simp [okT, show isModIdent _ = true from hg.head, p1, q1]) q2 rfl rfl
  · simp at h; obtain ⟨rfl, rfl⟩ := h
    exact prim_closed (by simp [okT, show isPlainIdent _ = true from hg.head]) hg.tail rfl rfl
  · simp at h; obtain ⟨rfl, rfl⟩ := h
    exact prim_closed (by simp [okT, show isModIdent _ = true from hg.head]) hg.tail rfl rfl
  · simp at h; obtain ⟨rfl, rfl⟩ := h
    exact prim_closed (by simp [okT, show isVarName _ = true from hg.head]) hg.tail rfl rfl
  · simp at h; obtain ⟨rfl, rfl⟩ := h
    exact prim_closed (by simp [okT, show isModVar _ = true from hg.head]) hg.tail rfl rfl
  · simp at h; obtain ⟨rfl, rfl⟩ := h; exact prim_closed rfl hg.tail2 rfl rfl
  · -- `{…}`
    ext_do h
    obtain ⟨kv, ts1, h1, kvs, ts2, h2, rfl, rfl⟩ := h
    obtain ⟨p1, p2⟩ := ih.kv _ kv ts1 h1 hg.tail
    obtain ⟨q1, q2⟩ := ih.kvsT _ kvs ts2 h2 p2
    exact prim_closed (by simp [okT, okKVs, p1, q1]) q2 rfl rfl
  · simp at h; obtain ⟨rfl, rfl⟩ := h; exact prim_closed rfl hg.tail2 rfl rfl
  · -- `[q]`
    ext_do h
    obtain ⟨q, ts1, h1, a1, h2, rfl, rfl⟩ := h
    obtain ⟨p1, p2, _, _⟩ := ih.climb true 1 _ q ts1 h1 hg.tail (fun _ => by omega)
    have := expect_some h2; subst this
    exact prim_closed (by simpa [okT] using p1) p2.tail rfl rfl
  · simp at h; obtain ⟨rfl, rfl⟩ := h
    exact prim_closed (by simp [okT, show okNumber _ = true from hg.head]) hg.tail rfl rfl
  · -- `+t`
    ext_do h
    obtain ⟨t0, ts1, h1, rfl, rfl⟩ := h
    obtain ⟨p1, p2, p3, p4⟩ := ih.term _ t0 ts1 h1 hg.tail
    exact ⟨by simpa [okT] using p1, p2, Or.inr p3, fun ho => p4 (by simpa [openTryT] using ho)⟩
  · -- `-t`
    ext_do h
    obtain ⟨t0, ts1, h1, rfl, rfl⟩ := h
    obtain ⟨p1, p2, p3, p4⟩ := ih.term _ t0 ts1 h1 hg.tail
    exact ⟨by simpa [okT] using p1, p2, Or.inr p3, fun ho => p4 (by simpa [openTryT] using ho)⟩
  · simp at h; obtain ⟨rfl, rfl⟩ := h
    exact prim_closed (by simp [okT, show okFormat _ = true from hg.head, okS, wf_str hg.tail.head]) hg.tail2 rfl rfl
  · ext_do h
    obtain ⟨ps, ts1, h1, rfl, rfl⟩ := h
    obtain ⟨p1, p2, p3, p4⟩ := ih.parts _ ps ts1 h1 hg.tail2
    exact prim_closed (by simp [okT, show okFormat _ = true from hg.head, okS_interp ps p1 p3 p4 hg.tail]) p2 rfl rfl
  · simp at h; obtain ⟨rfl, rfl⟩ := h
    exact prim_closed (by simp [okT, show okFormat _ = true from hg.head]) hg.tail rfl rfl
  · simp at h; obtain ⟨rfl, rfl⟩ := h
    exact prim_closed (by simp [okT, okS, wf_str hg.head]) hg.tail rfl rfl
  · ext_do h
    obtain ⟨ps, ts1, h1, rfl, rfl⟩ := h
    obtain ⟨p1, p2, p3, p4⟩ := ih.parts _ ps ts1 h1 hg.tail
    exact prim_closed (by simp [okT, okS_interp ps p1 p3 p4 hg]) p2 rfl rfl
  · -- `if`
    ext_do h
    obtain ⟨cnd, ts1, h1, a1, h2, th, ts2, h3, r, ts3, h4, rfl, rfl⟩ := h
    obtain ⟨p1, p2, _, _⟩ := ih.climb true 1 _ cnd ts1 h1 hg.tail (fun _ => by omega)
    have := expect_some h2; subst this
    obtain ⟨q1, q2, _, _⟩ := ih.climb true 1 _ th ts2 h3 p2.tail (fun _ => by omega)
    obtain ⟨r1, r2⟩ := ih.ifRest _ r ts3 h4 q2
    exact prim_closed (by simp [okT, p1, q1, r1]) r2 rfl rfl
  · -- `try`
    ext_do h
    obtain ⟨b, ts1, h1, h2⟩ := h
    obtain ⟨p1, p2, p3, p4⟩ := ih.term _ b ts1 h1 hg.tail
    split at h2
    · next rest' =>
      ext_do h2
      obtain ⟨hd, ts2, h3, rfl, rfl⟩ := h2
      obtain ⟨q1, q2, q3, q4⟩ := ih.term _ hd ts2 h3 p2.tail
      have hnb : openTryT b = false := by
        cases hb : openTryT b
        · rfl
        · exact absurd rfl (p4 hb rest')
      exact ⟨by simp [okT, p1, hnb, q1], q2, Or.inr q3, fun ho => q4 (by simpa [openTryT, openTryQ] using ho)⟩
    · next hne =>
      simp at h2; obtain ⟨rfl, rfl⟩ := h2
      exact ⟨by simpa [okT] using p1, p2, Or.inr p3, fun _ r e => hne r e⟩
  · -- `reduce`
    ext_do h
    obtain ⟨s, ts1, h1, a1, h2, p, ts2, h3, a2, h4, a, ts3, h5, a3, h6, u, ts4, h7, a4, h8, rfl, rfl⟩ := h
    obtain ⟨p1, p2, _, _⟩ := ih.climb false 3 _ s ts1 h1 hg.tail (fun hh => by cases hh)
    have := expect_some h2; subst this
    obtain ⟨q1, q2⟩ := ih.pattern _ p ts2 h3 p2.tail
    have := expect_some h4; subst this
    obtain ⟨r1, r2, _, _⟩ := ih.climb true 1 _ a ts3 h5 q2.tail (fun _ => by omega)
    have := expect_some h6; subst this
    obtain ⟨s1, s2, _, _⟩ := ih.climb true 1 _ u ts4 h7 r2.tail (fun _ => by omega)
    have := expect_some h8; subst this
    exact prim_closed (by simp [okT, p1, q1, r1, s1]) s2.tail rfl rfl
  · -- `foreach`
    ext_do h
    obtain ⟨s, ts1, h1, a1, h2, p, ts2, h3, a2, h4, a, ts3, h5, a3, h6, u, ts4, h7, h8⟩ := h
    obtain ⟨p1, p2, _, _⟩ := ih.climb false 3 _ s ts1 h1 hg.tail (fun hh => by cases hh)
    have := expect_some h2; subst this
    obtain ⟨q1, q2⟩ := ih.pattern _ p ts2 h3 p2.tail
    have := expect_some h4; subst this
    obtain ⟨r1, r2, _, _⟩ := ih.climb true 1 _ a ts3 h5 q2.tail (fun _ => by omega)
    have := expect_some h6; subst this
    obtain ⟨s1, s2, _, _⟩ := ih.climb true 1 _ u ts4 h7 r2.tail (fun _ => by omega)
    split at h8
    · simp at h8; obtain ⟨rfl, rfl⟩ := h8
      exact prim_closed (by simp [okT, p1, q1, r1, s1]) s2.tail rfl rfl
    · ext_do h8
      obtain ⟨e, ts5, h9, a5, h10, rfl, rfl⟩ := h8
      obtain ⟨e1, e2, _, _⟩ := ih.climb true 1 _ e ts5 h9 s2.tail (fun _ => by omega)
      have := expect_some h10; subst this
      exact prim_closed (by simp [okT, p1, q1, r1, s1, e1]) e2.tail rfl rfl
    · cases h8
  · simp at h; obtain ⟨rfl, rfl⟩ := h
    exact prim_closed (by simp [okT, wf_var hg.tail.head]) hg.tail2 rfl rfl
  · -- `(q)`
    ext_do h
    obtain ⟨q, ts1, h1, a1, h2, rfl, rfl⟩ := h
    obtain ⟨p1, p2, _, _⟩ := ih.climb true 1 _ q ts1 h1 hg.tail (fun _ => by omega)
    have := expect_some h2; subst this
    exact prim_closed (by simpa [okT] using p1) p2.tail rfl rfl
  · cases h

end Gojq.RefTerm

/-
  Round trip, program level (tokens): module header, imports with metadata, definitions-only
  bodies, constant terms.
-/
import Gojq.Proofs.RoundTripAll
namespace Gojq.RefTerm
open Gojq

/-! ### constant terms -/

def RTCT (t : CTerm) : Prop := ∀ (rest : List Tok), okCT t = true →
  ∃ F, ∀ f, F ≤ f → pCTerm f (toks (itemsCT t) ++ rest) = some (t, rest)
def RTCObj (kvs : List CKV) : Prop := ∀ (rest : List Tok), okCKVs kvs = true →
  ∃ F, ∀ f, F ≤ f → pCObj f ((toks (itemsCObj kvs)).drop 1 ++ rest) = some (kvs, rest)
def RTCKV (kv : CKV) : Prop := ∀ (rest : List Tok), okCKV kv = true →
  ∃ F, ∀ f, F ≤ f → pCKV f (toks (itemsCKV kv) ++ rest) = some (kv, rest)
def RTCKVsT (kvs : List CKV) : Prop := ∀ (rest : List Tok), okCKVs kvs = true →
  ∃ F, ∀ f, F ≤ f → pCKVsT f (toks (itemsCKVsT kvs) ++ .ch 125 :: rest) = some (kvs, rest)
def RTCElemsT (es : List CTerm) : Prop := ∀ (rest : List Tok), okCTs es = true →
  ∃ F, ∀ f, F ≤ f → pCElemsT f (toks (itemsCTsT es) ++ .ch 93 :: rest) = some (es, rest)

theorem toksCObj_head (kvs : List CKV) : toks (itemsCObj kvs) = .ch 123 :: (toks (itemsCObj kvs)).drop 1 := by
  cases kvs <;> simp [itemsCObj]

theorem ckv_head (kv : CKV) : ∃ x r, toks (itemsCKV kv) = x :: r ∧ x ≠ .ch 125 := by
  cases kv with
  | mk isStr key v =>
    refine ⟨_, _, by simp [itemsCKV]; exact ⟨rfl, rfl⟩, ?_⟩
    cases isStr
    · exact (keyTok_shape key).2.2.2
    · simp

theorem ct_head (t : CTerm) : ∃ x r, toks (itemsCT t) = x :: r ∧ x ≠ .ch 93 := by
  cases t with
  | obj kvs => exact ⟨.ch 123, _, by simp only [itemsCT]; exact toksCObj_head kvs, by simp⟩
  | arr es => cases es <;> exact ⟨.ch 91, _, by simp [itemsCT]; rfl, by simp⟩
  | number s => exact ⟨_, _, rfl, by simp⟩
  | str v => exact ⟨_, _, rfl, by simp⟩
  | null => exact ⟨_, _, rfl, by simp⟩
  | true_ => exact ⟨_, _, rfl, by simp⟩
  | false_ => exact ⟨_, _, rfl, by simp⟩

theorem rt_ctObj (kvs : List CKV) (ih : RTCObj kvs) : RTCT (.obj kvs) := fun rest hok => by
  simp only [okCT] at hok
  obtain ⟨F, h⟩ := ih rest hok
  refine ⟨F + 1, fun f hf => ?_⟩
  obtain ⟨k, rfl⟩ : ∃ k, f = k + 1 := ⟨f - 1, by omega⟩
  have e : toks (itemsCT (.obj kvs)) ++ rest = .ch 123 :: ((toks (itemsCObj kvs)).drop 1 ++ rest) := by
    simp only [itemsCT]; rw [toksCObj_head kvs]; simp
  rw [e, pCTerm]; simp only [h k (by omega), Option.bind_eq_bind, Option.bind_some]

theorem rt_ctArrNil : RTCT (.arr []) := fun rest _ => ⟨1, fun f hf => by
  obtain ⟨k, rfl⟩ : ∃ k, f = k + 1 := ⟨f - 1, by omega⟩
  have e : toks (itemsCT (.arr [])) ++ rest = .ch 91 :: .ch 93 :: rest := by simp [itemsCT]
  rw [e, pCTerm]⟩

theorem pCTerm_arr (f : Nat) (X Y ts : List Tok) (e : CTerm) (es : List CTerm) (hne : ∀ r', X ≠ .ch 93 :: r')
    (h1 : pCTerm f X = some (e, Y)) (h2 : pCElemsT f Y = some (es, ts)) :
    pCTerm (f + 1) (.ch 91 :: X) = some (.arr (e :: es), ts) := by
  rw [pCTerm]
  · simp [h1, h2]
  · intro r e'; exact hne r e'

theorem rt_ctArr (e : CTerm) (es : List CTerm) (ihe : RTCT e) (ih : RTCElemsT es) : RTCT (.arr (e :: es)) :=
  fun rest hok => by
  simp only [okCT, okCTs, Bool.and_eq_true] at hok
  obtain ⟨Fe, hE⟩ := ihe (toks (itemsCTsT es) ++ .ch 93 :: rest) hok.1
  obtain ⟨F, h⟩ := ih rest hok.2
  refine ⟨Fe + F + 1, fun f hf => ?_⟩
  obtain ⟨k, rfl⟩ : ∃ k, f = k + 1 := ⟨f - 1, by omega⟩
  have e' : toks (itemsCT (.arr (e :: es))) ++ rest =
      .ch 91 :: (toks (itemsCT e) ++ (toks (itemsCTsT es) ++ .ch 93 :: rest)) := by simp [itemsCT]
  obtain ⟨x, r, hx, hne⟩ := ct_head e
  rw [e']
  refine pCTerm_arr k _ _ rest e es ?_ (hE k (by omega)) (h k (by omega))
  intro r' e2; rw [hx] at e2; injection e2 with e2 _; exact hne e2

theorem rt_ctAtom (t : CTerm) (x : Tok) (hi : toks (itemsCT t) = [x])
    (h : ∀ g rest, pCTerm (g + 1) (x :: rest) = some (t, rest)) : RTCT t := fun rest _ => ⟨1, fun f hf => by
  obtain ⟨k, rfl⟩ : ∃ k, f = k + 1 := ⟨f - 1, by omega⟩
  rw [hi]; exact h k rest⟩

theorem rt_ctNumber (s : Bytes) : RTCT (.number s) := rt_ctAtom _ (.number s) rfl (fun g rest => by rw [pCTerm])
theorem rt_ctStr (v : Bytes) : RTCT (.str v) := rt_ctAtom _ (.str v) rfl (fun g rest => by rw [pCTerm])
theorem rt_ctNull : RTCT .null := rt_ctAtom _ (.kw .null_) rfl (fun g rest => by rw [pCTerm])
theorem rt_ctTrue : RTCT .true_ := rt_ctAtom _ (.kw .true_) rfl (fun g rest => by rw [pCTerm])
theorem rt_ctFalse : RTCT .false_ := rt_ctAtom _ (.kw .false_) rfl (fun g rest => by rw [pCTerm])

theorem rt_cobjNil : RTCObj [] := fun rest _ => ⟨1, fun f hf => by
  obtain ⟨k, rfl⟩ : ∃ k, f = k + 1 := ⟨f - 1, by omega⟩
  have e : (toks (itemsCObj [])).drop 1 ++ rest = .ch 125 :: rest := by simp [itemsCObj]
  rw [e, pCObj]⟩

theorem pCObj_cons (f : Nat) (X Y ts : List Tok) (kv : CKV) (kvs : List CKV) (hne : ∀ r', X ≠ .ch 125 :: r')
    (h1 : pCKV f X = some (kv, Y)) (h2 : pCKVsT f Y = some (kvs, ts)) :
    pCObj (f + 1) X = some (kv :: kvs, ts) := by
  rw [pCObj]
  · simp [h1, h2]
  · intro r e'; exact hne r e'

theorem rt_cobjCons (kv : CKV) (kvs : List CKV) (ihkv : RTCKV kv) (ih : RTCKVsT kvs) : RTCObj (kv :: kvs) :=
  fun rest hok => by
  simp only [okCKVs, Bool.and_eq_true] at hok
  obtain ⟨Fk, hK⟩ := ihkv (toks (itemsCKVsT kvs) ++ .ch 125 :: rest) hok.1
  obtain ⟨F, h⟩ := ih rest hok.2
  refine ⟨Fk + F + 1, fun f hf => ?_⟩
  obtain ⟨k, rfl⟩ : ∃ k, f = k + 1 := ⟨f - 1, by omega⟩
  have e : (toks (itemsCObj (kv :: kvs))).drop 1 ++ rest =
      toks (itemsCKV kv) ++ (toks (itemsCKVsT kvs) ++ .ch 125 :: rest) := by simp [itemsCObj]
  obtain ⟨x, r, hx, hne⟩ := ckv_head kv
  rw [e]
  refine pCObj_cons k _ _ rest kv kvs ?_ (hK k (by omega)) (h k (by omega))
  intro r' e2; rw [hx] at e2; injection e2 with e2 _; exact hne e2

theorem rt_ckv (isStr : Bool) (key : Bytes) (v : CTerm) (ih : RTCT v) : RTCKV (.mk isStr key v) := fun rest hok => by
  simp only [okCKV, Bool.and_eq_true] at hok
  obtain ⟨F, h⟩ := ih rest hok.2
  refine ⟨F + 1, fun f hf => ?_⟩
  obtain ⟨k, rfl⟩ : ∃ k, f = k + 1 := ⟨f - 1, by omega⟩
  cases isStr
  · have hid : isIdentName key = true := by simpa using hok.1
    have e : toks (itemsCKV (.mk false key v)) ++ rest = keyTok key :: .ch 58 :: (toks (itemsCT v) ++ rest) := by
      simp [itemsCKV]
    rw [e]
    unfold keyTok
    rw [if_neg (by simp [identName_head key hid])]
    split
    · next w hw =>
      rw [pCKV]; simp [h k (by omega), kwOfText_text key w hw]
    · rw [pCKV]; simp [h k (by omega)]
  · have e : toks (itemsCKV (.mk true key v)) ++ rest = .str key :: .ch 58 :: (toks (itemsCT v) ++ rest) := by
      simp [itemsCKV]
    rw [e, pCKV]; simp [h k (by omega)]

theorem rt_ckvsNil : RTCKVsT [] := fun rest _ => ⟨1, fun f hf => by
  obtain ⟨k, rfl⟩ : ∃ k, f = k + 1 := ⟨f - 1, by omega⟩
  have e : toks (itemsCKVsT []) ++ .ch 125 :: rest = .ch 125 :: rest := by simp [itemsCKVsT]
  rw [e, pCKVsT]⟩

theorem pCKVsT_more (f : Nat) (X Y ts : List Tok) (kv : CKV) (kvs : List CKV) (hne : ∀ r', X ≠ .ch 125 :: r')
    (h1 : pCKV f X = some (kv, Y)) (h2 : pCKVsT f Y = some (kvs, ts)) :
    pCKVsT (f + 1) (.ch 44 :: X) = some (kv :: kvs, ts) := by
  rw [pCKVsT]
  · simp [h1, h2]
  · intro r e'; exact hne r e'

theorem rt_ckvsCons (kv : CKV) (kvs : List CKV) (ihkv : RTCKV kv) (ih : RTCKVsT kvs) : RTCKVsT (kv :: kvs) :=
  fun rest hok => by
  simp only [okCKVs, Bool.and_eq_true] at hok
  obtain ⟨Fk, hK⟩ := ihkv (toks (itemsCKVsT kvs) ++ .ch 125 :: rest) hok.1
  obtain ⟨F, h⟩ := ih rest hok.2
  refine ⟨Fk + F + 1, fun f hf => ?_⟩
  obtain ⟨k, rfl⟩ : ∃ k, f = k + 1 := ⟨f - 1, by omega⟩
  have e : toks (itemsCKVsT (kv :: kvs)) ++ .ch 125 :: rest =
      .ch 44 :: (toks (itemsCKV kv) ++ (toks (itemsCKVsT kvs) ++ .ch 125 :: rest)) := by simp [itemsCKVsT]
  obtain ⟨x, r, hx, hne⟩ := ckv_head kv
  rw [e]
  refine pCKVsT_more k _ _ rest kv kvs ?_ (hK k (by omega)) (h k (by omega))
  intro r' e2; rw [hx] at e2; injection e2 with e2 _; exact hne e2

theorem rt_celemsNil : RTCElemsT [] := fun rest _ => ⟨1, fun f hf => by
  obtain ⟨k, rfl⟩ : ∃ k, f = k + 1 := ⟨f - 1, by omega⟩
  have e : toks (itemsCTsT []) ++ .ch 93 :: rest = .ch 93 :: rest := by simp [itemsCTsT]
  rw [e, pCElemsT]⟩

theorem rt_celemsCons (e : CTerm) (es : List CTerm) (ihe : RTCT e) (ih : RTCElemsT es) : RTCElemsT (e :: es) :=
  fun rest hok => by
  simp only [okCTs, Bool.and_eq_true] at hok
  obtain ⟨Fe, hE⟩ := ihe (toks (itemsCTsT es) ++ .ch 93 :: rest) hok.1
  obtain ⟨F, h⟩ := ih rest hok.2
  refine ⟨Fe + F + 1, fun f hf => ?_⟩
  obtain ⟨k, rfl⟩ : ∃ k, f = k + 1 := ⟨f - 1, by omega⟩
  have e' : toks (itemsCTsT (e :: es)) ++ .ch 93 :: rest =
      .ch 44 :: (toks (itemsCT e) ++ (toks (itemsCTsT es) ++ .ch 93 :: rest)) := by simp [itemsCTsT]
  rw [e', pCElemsT]; simp [hE k (by omega), h k (by omega)]

mutual
  theorem rtCT : (t : CTerm) → RTCT t
    | .obj kvs => rt_ctObj kvs (rtCObj kvs)
    | .arr [] => rt_ctArrNil
    | .arr (e :: es) => rt_ctArr e es (rtCT e) (rtCElemsT es)
    | .number s => rt_ctNumber s
    | .str v => rt_ctStr v
    | .null => rt_ctNull
    | .true_ => rt_ctTrue
    | .false_ => rt_ctFalse
  theorem rtCObj : (kvs : List CKV) → RTCObj kvs
    | [] => rt_cobjNil
    | kv :: kvs => rt_cobjCons kv kvs (rtCKV kv) (rtCKVsT kvs)
  theorem rtCKV : (kv : CKV) → RTCKV kv
    | .mk isStr key v => rt_ckv isStr key v (rtCT v)
  theorem rtCKVsT : (kvs : List CKV) → RTCKVsT kvs
    | [] => rt_ckvsNil
    | kv :: kvs => rt_ckvsCons kv kvs (rtCKV kv) (rtCKVsT kvs)
  theorem rtCElemsT : (es : List CTerm) → RTCElemsT es
    | [] => rt_celemsNil
    | e :: es => rt_celemsCons e es (rtCT e) (rtCElemsT es)
end

/-! ### metadata, imports -/

theorem rt_meta (m : Option (List CKV)) (rest : List Tok) (hok : okMeta m = true) :
    ∃ F, ∀ f, F ≤ f → pMeta f (toks (itemsMeta m) ++ .ch 59 :: rest) = some (m, rest) := by
  cases m with
  | none => exact ⟨0, fun f _ => by simp [itemsMeta, pMeta]⟩
  | some kvs =>
    obtain ⟨F, h⟩ := rtCObj kvs (.ch 59 :: rest) hok
    refine ⟨F, fun f hf => ?_⟩
    have e : toks (itemsMeta (some kvs)) ++ .ch 59 :: rest =
        .ch 123 :: ((toks (itemsCObj kvs)).drop 1 ++ .ch 59 :: rest) := by
      simp only [itemsMeta, toks_sp]; rw [toksCObj_head kvs]; simp
    rw [e, pMeta]
    simp only [h f hf, Option.bind_eq_bind, Option.bind_some, expect, if_true]

/-- what follows the imports is not another import -/
def importEnd (rest : List Tok) : Prop := ∀ r', rest ≠ .kw .import_ :: r' ∧ rest ≠ .kw .include_ :: r'

theorem rt_imports (is : List Import) : ∀ (rest : List Tok), is.all okImport = true → importEnd rest →
    ∃ F, ∀ f, F ≤ f → pImports f (toks (is.flatMap itemsImport) ++ rest) = some (is, rest) := by
  induction is with
  | nil =>
    intro rest _ hend
    refine ⟨1, fun f hf => ?_⟩
    obtain ⟨k, rfl⟩ : ∃ k, f = k + 1 := ⟨f - 1, by omega⟩
    simp only [List.flatMap_nil, toks_nil, List.nil_append]
    rw [pImports]
    all_goals (intros; first | exact (hend _).1 ‹_› | exact (hend _).2 ‹_›)
  | cons im is ih =>
    intro rest hok hend
    simp only [List.all_cons, Bool.and_eq_true] at hok
    obtain ⟨Fi, hI⟩ := ih rest hok.2 hend
    cases im with
    | import_ path a m =>
      simp only [okImport, Bool.and_eq_true] at hok
      obtain ⟨Fm, hM⟩ := rt_meta m (toks (is.flatMap itemsImport) ++ rest) hok.1.2
      refine ⟨Fi + Fm + 1, fun f hf => ?_⟩
      obtain ⟨k, rfl⟩ : ∃ k, f = k + 1 := ⟨f - 1, by omega⟩
      have e : toks ((Import.import_ path a m :: is).flatMap itemsImport) ++ rest =
          .kw .import_ :: .str path :: .kw .as_ :: keyTok a ::
            (toks (itemsMeta m) ++ .ch 59 :: (toks (is.flatMap itemsImport) ++ rest)) := by
        simp [List.flatMap_cons, itemsImport]
      rw [e, pImports]
      simp [paramOfTok_keyTok a hok.1.1.2, hM k (by omega), hI k (by omega)]
    | include_ path m =>
      simp only [okImport, Bool.and_eq_true] at hok
      obtain ⟨Fm, hM⟩ := rt_meta m (toks (is.flatMap itemsImport) ++ rest) hok.1.2
      refine ⟨Fi + Fm + 1, fun f hf => ?_⟩
      obtain ⟨k, rfl⟩ : ∃ k, f = k + 1 := ⟨f - 1, by omega⟩
      have e : toks ((Import.include_ path m :: is).flatMap itemsImport) ++ rest =
          .kw .include_ :: .str path :: (toks (itemsMeta m) ++ .ch 59 :: (toks (is.flatMap itemsImport) ++ rest)) := by
        simp [List.flatMap_cons, itemsImport]
      rw [e, pImports]
      simp [hM k (by omega), hI k (by omega)]

/-! ### the body -/

theorem rt_bodyDefs (ds : List FuncDef) : ds.all okFD = true →
    ∃ F, ∀ f, F ≤ f → pBody f (toks (ds.flatMap (fun fd => itemsFD fd ++ [Item.sp]))) = some (.defs ds) := by
  induction ds with
  | nil => intro _; exact ⟨1, fun f hf => by
      obtain ⟨k, rfl⟩ : ∃ k, f = k + 1 := ⟨f - 1, by omega⟩
      simp [pBody]⟩
  | cons fd ds ih =>
    intro hok
    simp only [List.all_cons, Bool.and_eq_true] at hok
    obtain ⟨Fd, hD⟩ := ih hok.2
    obtain ⟨Ff, hF⟩ := rtFD fd (toks (ds.flatMap (fun fd => itemsFD fd ++ [Item.sp]))) hok.1
    refine ⟨Fd + Ff + 1, fun f hf => ?_⟩
    obtain ⟨k, rfl⟩ : ∃ k, f = k + 1 := ⟨f - 1, by omega⟩
    have e : toks ((fd :: ds).flatMap (fun fd => itemsFD fd ++ [Item.sp])) =
        .kw .def_ :: ((toks (itemsFD fd)).drop 1 ++ toks (ds.flatMap (fun fd => itemsFD fd ++ [Item.sp]))) := by
      simp only [List.flatMap_cons, toks_append, toks_sp, toks_nil, List.append_nil, List.append_assoc]
      rw [toksFD_head fd]; simp
    rw [e, pBody]
    simp only [hF k (by omega), hD k (by omega), Option.bind_eq_bind, Option.bind_some]

/-- an operator expression does not start with `def` -/
theorem nodef_false : ∀ (q : Query) (m : Nat), okQ false m q = true →
    ∃ x r, toks (itemsQ q) = x :: r ∧ x ≠ .kw .def_
  | .term t, _, _ => by
    obtain ⟨x, r, h, hs⟩ := toksT_head t
    exact ⟨x, r, by simp [itemsQ, h], by intro e; subst e; simp [termStart, termStartB] at hs⟩
  | .binop o l r, m, h => by
    rw [okQ_binop] at h
    simp only [Bool.and_eq_true] at h
    obtain ⟨x, r', hx, hne⟩ := nodef_false l _ h.1.1.2
    exact ⟨x, _, by simp only [itemsQ, toks_append, hx, List.cons_append]; rfl, hne⟩
  | .bind _ [] _, _, h => by rw [okQ_bind_nil] at h; cases h
  | .bind _ (_ :: _) _, _, h => by rw [okQ_bind] at h; simp at h
  | .def_ _ _, _, h => by rw [okQ_def] at h; simp at h
  | .label _ _, _, h => by rw [okQ_label] at h; simp at h

theorem refParseQ_body (f : Nat) (x : Tok) (r : List Tok) (hne : x ≠ .kw .def_) :
    pBody (f + 1) (x :: r) = (refParseQ f (x :: r)).map .query := by
  rw [pBody]
  all_goals (intros; simp_all)

theorem rt_bodyQuery : ∀ (q : Query), Printable q = true →
    ∃ F, ∀ f, F ≤ f → pBody f (toks (itemsQ q)) = some (.query q)
  | .def_ fd q', h => by
    unfold Printable at h
    rw [okQ_def] at h
    simp only [Bool.and_eq_true] at h
    obtain ⟨Fq, hQ⟩ := rt_bodyQuery q' h.2
    obtain ⟨Ff, hF⟩ := rtFD fd (toks (itemsQ q')) h.1.2
    refine ⟨Fq + Ff + 1, fun f hf => ?_⟩
    obtain ⟨k, rfl⟩ : ∃ k, f = k + 1 := ⟨f - 1, by omega⟩
    have e : toks (itemsQ (.def_ fd q')) = .kw .def_ :: ((toks (itemsFD fd)).drop 1 ++ toks (itemsQ q')) := by
      simp only [itemsQ, toks_append, toks_sp]
      rw [toksFD_head fd]; simp
    rw [e, pBody]
    simp only [hF k (by omega), hQ k (by omega), Option.bind_eq_bind, Option.bind_some]
  | .term t, h => by
    obtain ⟨F, hF⟩ := refParse_items _ h
    obtain ⟨x, r, hx, hne⟩ := nodef_false (.term t) 1 (by unfold Printable at h; rw [okQ_term] at h ⊢; exact h)
    refine ⟨F + 1, fun f hf => ?_⟩
    obtain ⟨k, rfl⟩ : ∃ k, f = k + 1 := ⟨f - 1, by omega⟩
    rw [hx, refParseQ_body k x r hne, ← hx, hF k (by omega)]; rfl
  | .binop o l r, h => by
    obtain ⟨F, hF⟩ := refParse_items _ h
    have hl : okQ false o.lmin l = true := by
      unfold Printable at h; rw [okQ_binop] at h; simp only [Bool.and_eq_true] at h; exact h.1.1.2
    obtain ⟨x, r', hx, hne⟩ := nodef_false l _ hl
    have hx' : toks (itemsQ (.binop o l r)) = x :: (r' ++ toks (opSep o ++ (Item.t (opTok o) :: Item.sp :: itemsQ r))) := by
      simp only [itemsQ, toks_append, hx, List.cons_append]
    refine ⟨F + 1, fun f hf => ?_⟩
    obtain ⟨k, rfl⟩ : ∃ k, f = k + 1 := ⟨f - 1, by omega⟩
    rw [hx', refParseQ_body k x _ hne, ← hx', hF k (by omega)]; rfl
  | .bind s [] b, h => by unfold Printable at h; rw [okQ_bind_nil] at h; cases h
  | .bind s (p :: ps) b, h => by
    obtain ⟨F, hF⟩ := refParse_items _ h
    have hs : okQ false 3 s = true := by
      unfold Printable at h; rw [okQ_bind] at h; simp only [Bool.and_eq_true] at h; exact h.1.1.2
    obtain ⟨x, r', hx, hne⟩ := nodef_false s _ hs
    obtain ⟨y, r2, hy, _⟩ := toksQ_head (.bind s (p :: ps) b)
    have hxy : y = x := by
      have : toks (itemsQ (.bind s (p :: ps) b)) = x :: (r' ++ toks (Item.sp :: ((k Kw.as_ :: Item.sp :: (itemsP p ++ (Item.sp :: itemsAltT ps))) ++ (c 124 :: Item.sp :: itemsQ b)))) := by
        simp only [itemsQ, toks_append, hx, List.cons_append]
      rw [this] at hy; injection hy with e _; exact e.symm
    subst hxy
    refine ⟨F + 1, fun f hf => ?_⟩
    obtain ⟨k, rfl⟩ : ∃ k, f = k + 1 := ⟨f - 1, by omega⟩
    rw [hy, refParseQ_body k y _ hne, ← hy, hF k (by omega)]; rfl
  | .label v b, h => by
    obtain ⟨F, hF⟩ := refParse_items _ h
    have hx : toks (itemsQ (.label v b)) = .kw .label_ :: (.var v :: .ch 124 :: toks (itemsQ b)) := by simp [itemsQ]
    refine ⟨F + 1, fun f hf => ?_⟩
    obtain ⟨k, rfl⟩ : ∃ k, f = k + 1 := ⟨f - 1, by omega⟩
    rw [hx, refParseQ_body k _ _ (by simp), ← hx, hF k (by omega)]; rfl

theorem rt_body (b : Body) (h : okBody b = true) :
    ∃ F, ∀ f, F ≤ f → pBody f (toks (itemsBody b)) = some b := by
  cases b with
  | defs ds => exact rt_bodyDefs ds h
  | query q => exact rt_bodyQuery q h

/-! ### the program -/

theorem body_head (b : Body) : toks (itemsBody b) = [] ∨ ∃ x r, toks (itemsBody b) = x :: r ∧ queryStart x := by
  cases b with
  | defs ds =>
    cases ds with
    | nil => left; rfl
    | cons fd ds =>
      right
      cases fd
      exact ⟨.kw .def_, _, by simp [itemsBody, List.flatMap_cons, itemsFD]; rfl, Or.inr (Or.inl rfl)⟩
  | query q => right; exact toksQ_head q

theorem queryStart_notHeader {x : Tok} (h : queryStart x) :
    x ≠ .kw .import_ ∧ x ≠ .kw .include_ ∧ x ≠ .kw .module_ := by
  refine ⟨?_, ?_, ?_⟩ <;> (intro e; subst e; rcases h with h | h | h <;> simp [termStartB] at h)

theorem body_importEnd (b : Body) : importEnd (toks (itemsBody b)) := by
  intro r'
  rcases body_head b with h | ⟨x, r, h, hs⟩
  · rw [h]; simp
  · rw [h]
    obtain ⟨h1, h2, _⟩ := queryStart_notHeader hs
    constructor <;> (intro e; injection e with e _; first | exact h1 e | exact h2 e)

theorem pProgram_nomodule (f : Nat) (ts : List Tok) (h : ∀ r, ts ≠ .kw .module_ :: r) :
    pProgram f ts = (do
      let (is, ts) ← pImports f ts
      let b ← pBody f ts
      some { md := none, imports := is, body := b }) := by
  unfold pProgram
  split
  all_goals first | rfl | (exfalso; exact h _ rfl)

/-- TOKEN-LEVEL ROUND TRIP FOR WHOLE PROGRAMS: module header, imports with metadata, then function
    definitions only or a query -/
theorem pProgram_items (p : Program) (h : PrintableProgram p = true) :
    ∃ F, ∀ f, F ≤ f → pProgram f (toks (itemsProgram p)) = some p := by
  obtain ⟨md, imports, body⟩ := p
  simp only [PrintableProgram, Bool.and_eq_true] at h
  obtain ⟨⟨hm, hi⟩, hb⟩ := h
  obtain ⟨Fb, hB⟩ := rt_body body hb
  obtain ⟨Fi, hI⟩ := rt_imports imports (toks (itemsBody body)) hi (body_importEnd body)
  cases md with
  | none =>
    refine ⟨Fb + Fi, fun f hf => ?_⟩
    have e : toks (itemsProgram { md := none, imports := imports, body := body }) =
        toks (imports.flatMap itemsImport) ++ toks (itemsBody body) := by simp [itemsProgram]
    rw [e, pProgram_nomodule]
    · simp only [hI f (by omega), hB f (by omega), Option.bind_eq_bind, Option.bind_some]
    · intro r e'
      cases imports with
      | nil =>
        simp only [List.flatMap_nil, toks_nil, List.nil_append] at e'
        rcases body_head body with hh | ⟨x, r2, hh, hs⟩
        · rw [hh] at e'; cases e'
        · rw [hh] at e'; injection e' with e' _; exact (queryStart_notHeader hs).2.2 e'
      | cons im is => cases im <;> simp [List.flatMap_cons, itemsImport] at e'
  | some kvs =>
    obtain ⟨Fm, hM⟩ := rtCObj kvs (.ch 59 :: (toks (imports.flatMap itemsImport) ++ toks (itemsBody body))) hm
    refine ⟨Fb + Fi + Fm, fun f hf => ?_⟩
    have e : toks (itemsProgram { md := some kvs, imports := imports, body := body }) =
        .kw .module_ :: .ch 123 :: ((toks (itemsCObj kvs)).drop 1 ++ .ch 59 ::
          (toks (imports.flatMap itemsImport) ++ toks (itemsBody body))) := by
      simp only [itemsProgram, toks_append, toks_t, toks_sp, toks_nl, toks_nil, List.cons_append, List.append_assoc,
        List.nil_append]
      rw [toksCObj_head kvs]; simp
    rw [e]
    unfold pProgram
    simp only [hM f (by omega), hI f (by omega), hB f (by omega), Option.bind_eq_bind, Option.bind_some, expect,
      if_true]

end Gojq.RefTerm

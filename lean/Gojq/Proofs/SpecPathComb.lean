/-
  Helper lemmas for Props/C02Path.lean, part 3: environments (`EnvOK`) and the list-level
  combinators of the evaluator (`evalArgsK`, `bindValsK`, `reduceStep`, `foreachLoop`, `interpK`,
  `expandEnvs`, `bindArrayK`, `bindKeysK`, `bindObjectK`) keep the invariant.  Core Lean only.
-/
import Gojq.Proofs.SpecPathNav
namespace Gojq.C02
open Gojq Gojq.Spec

/-! ### environments -/

mutual
  /-- a binding whose `$variable`s (closure environments included) have `IdOK` -/
  inductive BindingOK (W : World) : Binding → Prop
    | var (n : String) (v : JV) (id : Ident) : IdOK W v id → BindingOK W (.var n v id)
    | fn (n : String) (ps : List String) (body : Query) (bi : Bool) : BindingOK W (.fn n ps body bi)
    | clo (n : String) (body : Query) (env : Env) : EnvOK W env → BindingOK W (.clo n body env)
    | label (n : String) (id : Nat) : BindingOK W (.label n id)
  inductive EnvOK (W : World) : Env → Prop
    | mk (bs : List Binding) : (∀ b ∈ bs, BindingOK W b) → EnvOK W (.mk bs)
end

theorem EnvOK.bs {W : World} {env : Env} (h : EnvOK W env) : ∀ b ∈ env.bs, BindingOK W b := by
  cases h with
  | mk bs hbs => exact hbs

theorem EnvOK.of_bs {W : World} {env : Env} (h : ∀ b ∈ env.bs, BindingOK W b) : EnvOK W env := by
  cases env with
  | mk bs => exact EnvOK.mk bs h

theorem EnvOK.empty (W : World) : EnvOK W Env.empty := EnvOK.mk [] (fun _ h => by cases h)

theorem EnvOK.push {W : World} {env : Env} (h : EnvOK W env) {b : Binding} (hb : BindingOK W b) :
    EnvOK W (env.push b) := by
  unfold Env.push
  refine EnvOK.mk _ ?_
  intro b' hb'
  rcases List.mem_cons.mp hb' with rfl | hb'
  · exact hb
  · exact h.bs b' hb'

theorem EnvOK.pushVar {W : World} {env : Env} (h : EnvOK W env) (n : String) {v : JV} {id : Ident}
    (hv : IdOK W v id) : EnvOK W (env.push (.var n v id)) := h.push (.var n v id hv)

theorem EnvOK.defs {W : World} (ds : List FuncDef) (bi : Bool) : ∀ {env : Env}, EnvOK W env → EnvOK W (env.defs ds bi) := by
  unfold Env.defs
  induction ds with
  | nil => intro env h; exact h
  | cons d ds ih =>
    intro env h
    simp only [List.foldl_cons]
    exact ih (h.push (.fn _ _ _ _))

theorem EnvOK.nullVars {W : World} (pats : List Pattern) {env : Env} (h : EnvOK W env) :
    EnvOK W (nullVars pats env) := by
  unfold Spec.nullVars
  generalize pats.flatMap (patNames 64) = names
  induction names generalizing env with
  | nil => exact h
  | cons n ns ih =>
    simp only [List.foldl_cons]
    exact ih (h.pushVar n (IdOK.fresh W .null))

/-- what `lookupCall` returns is good -/
def LookupOK (W : World) : Lookup → Prop
  | .var v id => IdOK W v id
  | .fn _ _ fenv _ => EnvOK W fenv
  | .clo _ cenv => EnvOK W cenv
  | .none => True

/-- what `lookupCall` finds in a good environment is good -/
theorem lookupCall_ok {W : World} (name : String) (arity : Nat) : ∀ (bs : List Binding),
    (∀ b ∈ bs, BindingOK W b) → LookupOK W (lookupCall name arity bs)
  | [], _ => True.intro
  | b :: rest, h => by
    have ih := lookupCall_ok (W := W) name arity rest (fun b' hb' => h b' (List.mem_cons_of_mem _ hb'))
    have hb := h b (List.mem_cons_self ..)
    cases b with
    | var n v id =>
      simp only [lookupCall]
      by_cases hc : (arity == 0 && n == name) = true
      · rw [if_pos hc]
        cases hb with | var _ _ _ hv => exact hv
      · rw [if_neg hc]; exact ih
    | fn n ps body bi =>
      simp only [lookupCall]
      by_cases hc : (n == name && ps.length == arity) = true
      · rw [if_pos hc]; exact EnvOK.mk _ h
      · rw [if_neg hc]; exact ih
    | clo n body env =>
      simp only [lookupCall]
      by_cases hc : (arity == 0 && n == name) = true
      · rw [if_pos hc]
        cases hb with | clo _ _ _ he => exact he
      · rw [if_neg hc]; exact ih
    | label n id =>
      simp only [lookupCall]
      exact ih

/-! ### argument lists -/

theorem All.evalArgsK {W : World} (evalArg : Query → Option PCtx → Res) (k : List JV → Option PCtx → Res)
    (harg : ∀ a ctx, CtxOK W ctx → All (Post W ctx.isSome) (evalArg a ctx))
    (hk : ∀ vals ctx, CtxOK W ctx → All (Post W ctx.isSome) (k vals ctx)) :
    ∀ (args : List Query) (ctx : Option PCtx) (acc : List JV), CtxOK W ctx →
      All (Post W ctx.isSome) (evalArgsK evalArg args ctx acc k)
  | [], ctx, acc, hc => by
    simp only [Spec.evalArgsK]; exact hk acc ctx hc
  | a :: rest, ctx, acc, hc => by
    simp only [Spec.evalArgsK]
    refine All.bind (Post.pendInv W _) (harg a ctx hc) ?_
    intro av hav
    exact (All.evalArgsK evalArg k harg hk rest av.ctx (av.v :: acc) hav.2.1).mono
      (fun y hy => Post.trans hav hy)

theorem All.bindValsK {W : World} {Q : St → Prop} (hQ : PendInv Q) (evalArg : Query → Res) (body : Env → Res)
    (harg : ∀ a, All (fun av => IdOK W av.v av.id) (evalArg a))
    (hbody : ∀ env, EnvOK W env → All Q (body env)) :
    ∀ (ps : List (String × Query)) (env : Env), EnvOK W env → All Q (bindValsK evalArg body ps env)
  | [], env, he => by
    simp only [Spec.bindValsK]; exact hbody env he
  | (p, a) :: rest, env, he => by
    simp only [Spec.bindValsK]
    refine All.bind hQ (harg a) ?_
    intro av hav
    exact All.bindValsK hQ evalArg body harg hbody rest _ (he.pushVar p hav)

/-! ### `reduce` -/

theorem reduceStep_inv {I : JV → Ident → Prop} (bindPat : St → PatRes) (upd : St → Env → JV → Ident → Res) (x : St)
    (h : ∀ env' ∈ (bindPat x).envs, ∀ sv sid, I sv sid → ∀ l ∈ (upd x env' sv sid).outs, I l.v l.id)
    (acc : Except Stop (JV × Ident)) (hacc : ∀ sv sid, acc = .ok (sv, sid) → I sv sid) :
    ∀ sv sid, reduceStep bindPat upd acc x = .ok (sv, sid) → I sv sid := by
  intro sv sid hr
  unfold reduceStep at hr
  cases acc with
  | error e => simp at hr
  | ok st0 =>
    obtain ⟨sv0, sid0⟩ := st0
    simp only at hr
    -- the inner fold over the environments
    have inner : ∀ (envs : List Env), (∀ e ∈ envs, e ∈ (bindPat x).envs) →
        ∀ (a : Except Stop (JV × Ident)), (∀ sv sid, a = .ok (sv, sid) → I sv sid) →
        ∀ sv sid, envs.foldl (fun (acc : Except Stop (JV × Ident)) env' =>
          match acc with
          | .error e => .error e
          | .ok (sv, sid) =>
            let ru := upd x env' sv sid
            match ru.stop with
            | .done => (match ru.outs.getLast? with
              | some l => .ok (l.v, l.id)
              | none => .ok (sv, sid))
            | st => .error (pendStop x.pend st)) a = .ok (sv, sid) → I sv sid := by
      intro envs
      induction envs with
      | nil => intro _ a ha sv sid hf; exact ha sv sid hf
      | cons e es ih =>
        intro hsub a ha sv sid hf
        simp only [List.foldl_cons] at hf
        refine ih (fun e' he' => hsub e' (List.mem_cons_of_mem _ he')) _ ?_ sv sid hf
        intro sv1 sid1 h1
        cases a with
        | error e' => simp at h1
        | ok st1 =>
          obtain ⟨sv2, sid2⟩ := st1
          simp only at h1
          have hI2 : I sv2 sid2 := ha sv2 sid2 rfl
          split at h1
          · split at h1
            · rename_i l hl
              simp only [Except.ok.injEq, Prod.mk.injEq] at h1
              obtain ⟨rfl, rfl⟩ := h1
              exact h e (hsub e (List.mem_cons_self ..)) sv2 sid2 hI2 l (List.mem_of_getLast? hl)
            · simp only [Except.ok.injEq, Prod.mk.injEq] at h1
              obtain ⟨rfl, rfl⟩ := h1
              exact hI2
          · cases h1
    split at hr
    · cases hr
    · rename_i st' hfold hstop
      simp only [Except.ok.injEq] at hr
      subst hr
      exact inner _ (fun e he => he) (.ok (sv0, sid0))
        (fun sv sid h => by cases h; exact hacc sv0 sid0 rfl) sv sid hfold
    · cases hr

theorem reduceFold_inv {I : JV → Ident → Prop} (bindPat : St → PatRes) (upd : St → Env → JV → Ident → Res) :
    ∀ (xs : List St),
    (∀ x ∈ xs, ∀ env' ∈ (bindPat x).envs, ∀ sv sid, I sv sid → ∀ l ∈ (upd x env' sv sid).outs, I l.v l.id) →
    ∀ (acc : Except Stop (JV × Ident)), (∀ sv sid, acc = .ok (sv, sid) → I sv sid) →
    ∀ sv sid, xs.foldl (reduceStep bindPat upd) acc = .ok (sv, sid) → I sv sid
  | [], _, acc, hacc, sv, sid, hf => hacc sv sid hf
  | x :: xs, h, acc, hacc, sv, sid, hf => by
    simp only [List.foldl_cons] at hf
    exact reduceFold_inv bindPat upd xs (fun x' hx' => h x' (List.mem_cons_of_mem _ hx')) _
      (reduceStep_inv bindPat upd x (h x (List.mem_cons_self ..)) acc hacc) sv sid hf

/-! ### `foreach` -/

theorem foreachOuts_inv {I : JV → Ident → Prop} {Q : St → Prop} (ext : St → Res) (final : Stop) :
    ∀ (us : List St) (sv : JV) (sid : Ident) (acc : List St),
      (∀ u ∈ us, I u.v u.id ∧ All Q (ext u)) → I sv sid → (∀ a ∈ acc, Q a) →
      All Q (foreachOuts ext final us sv sid acc).1 ∧
        I (foreachOuts ext final us sv sid acc).2.1 (foreachOuts ext final us sv sid acc).2.2
  | [], sv, sid, acc, _, hI, hacc => by
    simp only [foreachOuts]; exact ⟨hacc, hI⟩
  | u :: urest, sv, sid, acc, hus, hI, hacc => by
    have hu := hus u (List.mem_cons_self ..)
    have hacc' : ∀ a ∈ acc ++ (ext u).outs, Q a := by
      intro a ha
      rcases List.mem_append.mp ha with ha | ha
      · exact hacc a ha
      · exact hu.2 a ha
    simp only [foreachOuts]
    split
    · exact foreachOuts_inv ext final urest u.v u.id _ (fun u' hu' => hus u' (List.mem_cons_of_mem _ hu')) hu.1 hacc'
    · exact ⟨hacc', hu.1⟩

theorem foreachEnvs_inv {I : JV → Ident → Prop} {Q : St → Prop} (upd : Env → JV → Ident → Res) (ext : Env → St → Res) :
    ∀ (envs : List Env) (sv : JV) (sid : Ident) (acc : List St),
      (∀ env' ∈ envs, ∀ sv sid, I sv sid → ∀ u ∈ (upd env' sv sid).outs, I u.v u.id ∧ All Q (ext env' u)) →
      I sv sid → (∀ a ∈ acc, Q a) →
      All Q (foreachEnvs upd ext envs sv sid acc).1 ∧
        I (foreachEnvs upd ext envs sv sid acc).2.1 (foreachEnvs upd ext envs sv sid acc).2.2
  | [], sv, sid, acc, _, hI, hacc => by
    simp only [foreachEnvs]; exact ⟨hacc, hI⟩
  | env' :: erest, sv, sid, acc, henvs, hI, hacc => by
    have h1 := foreachOuts_inv (I := I) (Q := Q) (ext env') (upd env' sv sid).stop (upd env' sv sid).outs sv sid acc
      (henvs env' (List.mem_cons_self ..) sv sid hI) hI hacc
    simp only [foreachEnvs]
    rcases hfo : foreachOuts (ext env') (upd env' sv sid).stop (upd env' sv sid).outs sv sid acc with ⟨r1, sv', sid'⟩
    rw [hfo] at h1
    simp only at h1 ⊢
    split
    · exact foreachEnvs_inv upd ext erest sv' sid' r1.outs
        (fun e he => henvs e (List.mem_cons_of_mem _ he)) h1.2 h1.1
    · exact h1

theorem All.foreachLoop {I : JV → Ident → Prop} {Q : St → Prop} (bindPat : St → PatRes)
    (upd : St → Env → JV → Ident → Res) (ext : Env → St → Res) (final : Stop) :
    ∀ (xs : List St) (sv : JV) (sid : Ident) (acc : List St),
      (∀ x ∈ xs, ∀ env' ∈ (bindPat x).envs, ∀ sv sid, I sv sid →
        ∀ u ∈ (upd x env' sv sid).outs, I u.v u.id ∧ All Q (ext env' u)) →
      I sv sid → (∀ a ∈ acc, Q a) →
      All Q (foreachLoop bindPat upd ext final xs sv sid acc)
  | [], sv, sid, acc, _, _, hacc => by
    simp only [Spec.foreachLoop]; exact hacc
  | x :: rest, sv, sid, acc, hxs, hI, hacc => by
    have h1 := foreachEnvs_inv (I := I) (Q := Q) (upd x) ext (bindPat x).envs sv sid acc
      (hxs x (List.mem_cons_self ..)) hI hacc
    simp only [Spec.foreachLoop]
    rcases hfe : foreachEnvs (upd x) ext (bindPat x).envs sv sid acc with ⟨r1, sv', sid'⟩
    rw [hfe] at h1
    simp only at h1 ⊢
    split
    · split
      · exact All.foreachLoop bindPat upd ext final rest sv' sid' r1.outs
          (fun x' hx' => hxs x' (List.mem_cons_of_mem _ hx')) h1.2 h1.1
      · exact h1.1
    · exact h1.1

/-! ### string interpolation -/

theorem interpK_cons2 (part : Query → Option PCtx → Res) (s : St) (last i : Query) (init : List Query) (ctx : Option PCtx) :
    interpK part s (last :: i :: init) ctx =
      (part last ctx).bind fun y =>
        (interpK part s (i :: init) y.ctx).bind fun x =>
          match x.v, y.v with
          | .str a, .str b => .one { v := .str (a ++ b), id := .fresh, ctx := x.ctx }
          | a, b => nativeRes x "_add" (callNative "_add" s.v [a, b]) [s.v, a, b] := rfl

theorem All.interpK {W : World} (part : Query → Option PCtx → Res) (s : St)
    (hpart : ∀ p ctx, CtxOK W ctx → All (Post W ctx.isSome) (part p ctx)) :
    ∀ (ps : List Query) (ctx : Option PCtx), CtxOK W ctx → All (Post W ctx.isSome) (interpK part s ps ctx)
  | [], ctx, hc => by
    simp only [Spec.interpK]
    exact All.one ⟨IdOK.fresh W _, hc, rfl⟩
  | [p], ctx, hc => by
    simp only [Spec.interpK]
    exact hpart p ctx hc
  | last :: i :: init, ctx, hc => by
    rw [interpK_cons2]
    refine All.bind (Post.pendInv W _) (hpart last ctx hc) ?_
    intro y hy
    refine All.bind (Post.pendInv W _) (All.interpK part s hpart (i :: init) y.ctx hy.2.1) ?_
    intro x hx
    have hx' : Post W ctx.isSome x := Post.trans hy hx
    have : All (Post W x.ctx.isSome)
        (match x.v, y.v with
          | .str a, .str b => .one { v := .str (a ++ b), id := .fresh, ctx := x.ctx }
          | a, b => Spec.nativeRes x "_add" (callNative "_add" s.v [a, b]) [s.v, a, b]) := by
      split
      · exact All.one ⟨IdOK.fresh W _, hx.2.1, rfl⟩
      · exact All.nativeRes hx.2.1 _ _ _
    exact this.mono (fun z hz => Post.trans hx' hz)

/-! ### patterns -/

/-- every environment a pattern produces satisfies `E` -/
def AllE (E : Env → Prop) (pr : PatRes) : Prop := ∀ e ∈ pr.envs, E e

theorem AllE.fail {E : Env → Prop} (st : Stop) : AllE E (PatRes.fail st) := by
  intro e he; simp [PatRes.fail] at he

theorem AllE.ok {E : Env → Prop} {es : List Env} (h : ∀ e ∈ es, E e) : AllE E (PatRes.ok es) := h

theorem AllE.expandEnvs {E E' : Env → Prop} (f : Env → PatRes) (final : Stop) :
    ∀ (es : List Env), (∀ e ∈ es, E e) → (∀ e, E e → AllE E' (f e)) → AllE E' (expandEnvs f final es)
  | [], _, _ => by
    intro e he; simp [Spec.expandEnvs] at he
  | e :: rest, hes, hf => by
    have h1 := hf e (hes e (List.mem_cons_self ..))
    have h2 := AllE.expandEnvs f final rest (fun e' he' => hes e' (List.mem_cons_of_mem _ he')) hf
    simp only [Spec.expandEnvs]
    split
    · intro e' he'
      rcases List.mem_append.mp he' with he' | he'
      · exact h1 e' he'
      · exact h2 e' he'
    · exact h1

theorem AllE.bindArrayK {W : World} (bindOne : Env → Pattern → JV → Ident → PatRes) (xv : JV) (xid : Ident)
    (hx : IdOK W xv xid)
    (hone : ∀ env' p w wid, EnvOK W env' → IdOK W w wid → AllE (EnvOK W) (bindOne env' p w wid)) :
    ∀ (ps : List Pattern) (i : Nat) (cur : PatRes), AllE (EnvOK W) cur →
      AllE (EnvOK W) (bindArrayK bindOne xv xid ps i cur)
  | [], i, cur, hcur => by
    simp only [Spec.bindArrayK]; exact hcur
  | p :: rest, i, cur, hcur => by
    simp only [Spec.bindArrayK]
    refine AllE.bindArrayK bindOne xv xid hx hone rest (i + 1) _ ?_
    refine AllE.expandEnvs _ _ cur.envs hcur ?_
    intro env' henv'
    split
    · exact AllE.fail _
    · rename_i w hw
      exact hone env' p w _ henv' (hx.child hw)

/-- one key of an object-pattern entry -/
def keyStep (bindOne : Env → Pattern → JV → Ident → PatRes) (xv : JV) (xid : Ident)
    (key : ObjKey) (val : Option Pattern) (env' : Env) (k : JV) : PatRes :=
  match funcIndex2 xv k with
  | .error e => PatRes.fail (.err e)
  | .ok w =>
    let wid := childIdent xid k
    let env1 := match key with
      | .var n => env'.push (.var n w wid)
      | _ => env'
    match val with
    | none => PatRes.ok [env1]
    | some vp => bindOne env1 vp w wid

theorem bindKeysK_cons (bindOne : Env → Pattern → JV → Ident → PatRes) (xv : JV) (xid : Ident)
    (key : ObjKey) (val : Option Pattern) (env' : Env) (final : Stop) (k : JV) (ks : List JV) :
    bindKeysK bindOne xv xid key val env' final (k :: ks) =
      match (keyStep bindOne xv xid key val env' k).stop with
      | .done => ⟨(keyStep bindOne xv xid key val env' k).envs ++ (bindKeysK bindOne xv xid key val env' final ks).envs,
                  (bindKeysK bindOne xv xid key val env' final ks).stop⟩
      | st => ⟨(keyStep bindOne xv xid key val env' k).envs, st⟩ := rfl

theorem AllE.keyStep {W : World} (bindOne : Env → Pattern → JV → Ident → PatRes) (xv : JV) (xid : Ident)
    (hx : IdOK W xv xid)
    (hone : ∀ env' p w wid, EnvOK W env' → IdOK W w wid → AllE (EnvOK W) (bindOne env' p w wid))
    (key : ObjKey) (val : Option Pattern) (env' : Env) (henv' : EnvOK W env') (k : JV) :
    AllE (EnvOK W) (C02.keyStep bindOne xv xid key val env' k) := by
  unfold C02.keyStep
  split
  · exact AllE.fail _
  · rename_i w hw
    have hwid : IdOK W w (childIdent xid k) := hx.child hw
    have henv1 : EnvOK W (match key with
          | .var n => env'.push (.var n w (childIdent xid k))
          | _ => env') := by
      split
      · exact henv'.pushVar _ hwid
      · exact henv'
    simp only
    split
    · intro e he
      simp only [PatRes.ok, List.mem_singleton] at he
      subst he; exact henv1
    · exact hone _ _ w _ henv1 hwid

theorem AllE.bindKeysK {W : World} (bindOne : Env → Pattern → JV → Ident → PatRes) (xv : JV) (xid : Ident)
    (hx : IdOK W xv xid)
    (hone : ∀ env' p w wid, EnvOK W env' → IdOK W w wid → AllE (EnvOK W) (bindOne env' p w wid))
    (key : ObjKey) (val : Option Pattern) (env' : Env) (henv' : EnvOK W env') (final : Stop) :
    ∀ (ks : List JV), AllE (EnvOK W) (bindKeysK bindOne xv xid key val env' final ks)
  | [] => by
    intro e he; simp [Spec.bindKeysK] at he
  | k :: ks => by
    have ih := AllE.bindKeysK bindOne xv xid hx hone key val env' henv' final ks
    have h1 := AllE.keyStep bindOne xv xid hx hone key val env' henv' k
    rw [bindKeysK_cons]
    split
    · intro e he
      rcases List.mem_append.mp he with he | he
      · exact h1 e he
      · exact ih e he
    · exact h1

theorem AllE.bindObjectK {W : World} (keysOf : Env → ObjKey → KeysRes)
    (bindOne : Env → Pattern → JV → Ident → PatRes) (xv : JV) (xid : Ident)
    (hx : IdOK W xv xid)
    (hone : ∀ env' p w wid, EnvOK W env' → IdOK W w wid → AllE (EnvOK W) (bindOne env' p w wid)) :
    ∀ (kvs : List PatKV) (cur : PatRes), AllE (EnvOK W) cur →
      AllE (EnvOK W) (bindObjectK keysOf bindOne xv xid kvs cur)
  | [], cur, hcur => by
    simp only [Spec.bindObjectK]; exact hcur
  | .mk key val :: rest, cur, hcur => by
    simp only [Spec.bindObjectK]
    refine AllE.bindObjectK keysOf bindOne xv xid hx hone rest _ ?_
    refine AllE.expandEnvs _ _ cur.envs hcur ?_
    intro env' henv'
    exact AllE.bindKeysK bindOne xv xid hx hone key val env' henv' _ _

end Gojq.C02

/- Helper lemmas for C12: UTF-8 decoding shapes, the pieces the string encoder emits, and what
   each consumer (JSON reader, UTF-8 validator, white-space/SGR strippers) does with them.
   Core Lean only. -/
import Gojq.Model.Encode
namespace Gojq.Encode
open Gojq Gojq.Utf8

def Seq2 (b b1 : UInt8) : Prop := 0xC2 ≤ b.toNat ∧ b.toNat < 0xE0 ∧ isCont b1 = true
def Seq3 (b b1 b2 : UInt8) : Prop :=
  0xE0 ≤ b.toNat ∧ b.toNat < 0xF0 ∧ (if b.toNat = 0xE0 then 0xA0 else 0x80) ≤ b1.toNat ∧
  b1.toNat ≤ (if b.toNat = 0xED then 0x9F else 0xBF) ∧ isCont b2 = true
def Seq4 (b b1 b2 b3 : UInt8) : Prop :=
  0xF0 ≤ b.toNat ∧ b.toNat < 0xF5 ∧ (if b.toNat = 0xF0 then 0x90 else 0x80) ≤ b1.toNat ∧
  b1.toNat ≤ (if b.toNat = 0xF4 then 0x8F else 0xBF) ∧ isCont b2 = true ∧ isCont b3 = true

theorem decodeRune_seq2 {b b1 : UInt8} (h : Seq2 b b1) (t : Bytes) :
    decodeRune (b :: b1 :: t) = ((b.toNat % 32) * 64 + b1.toNat % 64, 2, true) := by
  obtain ⟨h1, h2, h3⟩ := h
  unfold decodeRune
  simp only []
  rw [if_neg (by omega), if_neg (by omega), if_pos h2]
  simp [h3]

theorem decodeRune_seq3 {b b1 b2 : UInt8} (h : Seq3 b b1 b2) (t : Bytes) :
    decodeRune (b :: b1 :: b2 :: t) = ((b.toNat % 16) * 4096 + (b1.toNat % 64) * 64 + b2.toNat % 64, 3, true) := by
  obtain ⟨h1, h2, h3, h4, h5⟩ := h
  unfold decodeRune
  simp only []
  rw [if_neg (by omega), if_neg (by omega), if_neg (by omega), if_pos h2]
  simp only [beq_iff_eq, Bool.and_eq_true, decide_eq_true_eq]
  rw [if_pos ⟨⟨h3, h4⟩, h5⟩]

theorem decodeRune_seq4 {b b1 b2 b3 : UInt8} (h : Seq4 b b1 b2 b3) (t : Bytes) :
    decodeRune (b :: b1 :: b2 :: b3 :: t) =
      ((b.toNat % 8) * 262144 + (b1.toNat % 64) * 4096 + (b2.toNat % 64) * 64 + b3.toNat % 64, 4, true) := by
  obtain ⟨h1, h2, h3, h4, h5, h6⟩ := h
  unfold decodeRune
  simp only []
  rw [if_neg (by omega), if_neg (by omega), if_neg (by omega), if_neg (by omega), if_pos h2]
  simp only [beq_iff_eq, Bool.and_eq_true, decide_eq_true_eq]
  rw [if_pos ⟨⟨⟨h3, h4⟩, h5⟩, h6⟩]

theorem decodeRune_ascii {b : UInt8} (h : b.toNat < 0x80) (t : Bytes) : decodeRune (b :: t) = (b.toNat, 1, true) := by
  unfold decodeRune; simp [h]

/-- a non-ASCII lead byte: invalid (one byte, U+FFFD) or one of the three well-formed shapes -/
theorem decodeRune_cases (b : UInt8) (rest : Bytes) (hb : 0x80 ≤ b.toNat) :
    decodeRune (b :: rest) = (runeError, 1, false) ∨
    (∃ b1 t, rest = b1 :: t ∧ Seq2 b b1) ∨
    (∃ b1 b2 t, rest = b1 :: b2 :: t ∧ Seq3 b b1 b2) ∨
    (∃ b1 b2 b3 t, rest = b1 :: b2 :: b3 :: t ∧ Seq4 b b1 b2 b3) := by
  by_cases h1 : b.toNat < 0xC2
  · left; unfold decodeRune; simp only []; rw [if_neg (by omega), if_pos h1]
  by_cases h2 : b.toNat < 0xE0
  · match rest with
    | [] => left; unfold decodeRune; simp only []; rw [if_neg (by omega), if_neg h1, if_pos h2]
    | b1 :: t =>
      by_cases hc : isCont b1 = true
      · right; left; exact ⟨b1, t, rfl, by omega, h2, hc⟩
      · left; unfold decodeRune; simp only []; rw [if_neg (by omega), if_neg h1, if_pos h2]; simp [hc]
  by_cases h3 : b.toNat < 0xF0
  · match rest with
    | [] => left; unfold decodeRune; simp only []; rw [if_neg (by omega), if_neg h1, if_neg h2, if_pos h3]
    | [_] => left; unfold decodeRune; simp only []; rw [if_neg (by omega), if_neg h1, if_neg h2, if_pos h3]
    | b1 :: b2 :: t =>
      by_cases hc : ((if b.toNat = 0xE0 then 0xA0 else 0x80) ≤ b1.toNat ∧ b1.toNat ≤ (if b.toNat = 0xED then 0x9F else 0xBF)) ∧ isCont b2 = true
      · right; right; left; exact ⟨b1, b2, t, rfl, by omega, h3, hc.1.1, hc.1.2, hc.2⟩
      · left; unfold decodeRune; simp only []; rw [if_neg (by omega), if_neg h1, if_neg h2, if_pos h3]
        simp only [beq_iff_eq, Bool.and_eq_true, decide_eq_true_eq]
        rw [if_neg hc]
  by_cases h4 : b.toNat < 0xF5
  · match rest with
    | [] => left; unfold decodeRune; simp only []; rw [if_neg (by omega), if_neg h1, if_neg h2, if_neg h3, if_pos h4]
    | [_] => left; unfold decodeRune; simp only []; rw [if_neg (by omega), if_neg h1, if_neg h2, if_neg h3, if_pos h4]
    | [_, _] => left; unfold decodeRune; simp only []; rw [if_neg (by omega), if_neg h1, if_neg h2, if_neg h3, if_pos h4]
    | b1 :: b2 :: b3 :: t =>
      by_cases hc : (((if b.toNat = 0xF0 then 0x90 else 0x80) ≤ b1.toNat ∧ b1.toNat ≤ (if b.toNat = 0xF4 then 0x8F else 0xBF)) ∧ isCont b2 = true) ∧ isCont b3 = true
      · right; right; right; exact ⟨b1, b2, b3, t, rfl, by omega, h4, hc.1.1.1, hc.1.1.2, hc.1.2, hc.2⟩
      · left; unfold decodeRune; simp only []; rw [if_neg (by omega), if_neg h1, if_neg h2, if_neg h3, if_pos h4]
        simp only [beq_iff_eq, Bool.and_eq_true, decide_eq_true_eq]
        rw [if_neg hc]
  · left; unfold decodeRune; simp only []; rw [if_neg (by omega), if_neg h1, if_neg h2, if_neg h3, if_neg h4]
end Gojq.Encode

namespace Gojq.Encode
open Gojq Gojq.Utf8

theorem ne_of_toNat_ne {b c : UInt8} (h : b.toNat ≠ c.toNat) : b ≠ c := fun e => h (e ▸ rfl)
theorem eq_of_toNat_eq {b c : UInt8} (h : b.toNat = c.toNat) : b = c := UInt8.toNat_inj.mp h

/-- the escape pairs `\\e` ↦ byte -/
def escTable : List (UInt8 × UInt8) :=
  [(0x22, 0x22), (0x5c, 0x5c), (0x62, 0x08), (0x66, 0x0c), (0x6e, 0x0a), (0x72, 0x0d), (0x74, 0x09)]

/-- one unit of the encoder's string output together with the bytes it stands for -/
inductive Piece : Bytes → Bytes → Prop
  | plain (b : UInt8) (h1 : 0x20 ≤ b.toNat) (h2 : b.toNat ≤ 0x7e) (h3 : b.toNat ≠ 0x22) (h4 : b.toNat ≠ 0x5c) : Piece [b] [b]
  | esc2 (e c : UInt8) (h : (e, c) ∈ escTable) : Piece [0x5c, e] [c]
  | u00 (b : UInt8) (h : b.toNat < 0x80) :
      Piece [0x5c, 0x75, 0x30, 0x30, hexDigit (b.toNat / 16), hexDigit (b.toNat % 16)] [b]
  | bad : Piece escFFFD fffd
  | raw2 (b b1 : UInt8) (h : Seq2 b b1) : Piece [b, b1] [b, b1]
  | raw3 (b b1 b2 : UInt8) (h : Seq3 b b1 b2) : Piece [b, b1, b2] [b, b1, b2]
  | raw4 (b b1 b2 b3 : UInt8) (h : Seq4 b b1 b2 b3) : Piece [b, b1, b2, b3] [b, b1, b2, b3]

inductive Pieces : Bytes → Bytes → Prop
  | nil : Pieces [] []
  | cons {a d as ds : Bytes} (h : Piece a d) (t : Pieces as ds) : Pieces (a ++ as) (d ++ ds)

theorem escByte_piece (b : UInt8) (h : b.toNat < 0x80) : Piece (escByte b) [b] := by
  unfold escByte
  simp only []
  split
  · rename_i h'; exact .plain b h'.1 h'.2.1 h'.2.2.1 h'.2.2.2
  split
  · rename_i h'; have : b = 0x22 := eq_of_toNat_eq h'; subst this; exact .esc2 _ _ (by simp [escTable])
  split
  · rename_i h'; have : b = 0x5c := eq_of_toNat_eq h'; subst this; exact .esc2 _ _ (by simp [escTable])
  split
  · rename_i h'; have : b = 0x08 := eq_of_toNat_eq h'; subst this; exact .esc2 _ _ (by simp [escTable])
  split
  · rename_i h'; have : b = 0x0c := eq_of_toNat_eq h'; subst this; exact .esc2 _ _ (by simp [escTable])
  split
  · rename_i h'; have : b = 0x0a := eq_of_toNat_eq h'; subst this; exact .esc2 _ _ (by simp [escTable])
  split
  · rename_i h'; have : b = 0x0d := eq_of_toNat_eq h'; subst this; exact .esc2 _ _ (by simp [escTable])
  split
  · rename_i h'; have : b = 0x09 := eq_of_toNat_eq h'; subst this; exact .esc2 _ _ (by simp [escTable])
  · exact .u00 b h

/-- the encoder's string loop emits pieces that stand for the sanitised input -/
theorem encStrAux_pieces : ∀ (fuel : Nat) (s : Bytes), s.length ≤ fuel → Pieces (encStrAux fuel s) (sanitizeAux fuel s)
  | 0, s, h => by
    have : s = [] := List.eq_nil_of_length_eq_zero (by omega)
    subst this; simp [encStrAux, sanitizeAux]; exact .nil
  | fuel + 1, [], _ => by simp [encStrAux, sanitizeAux]; exact .nil
  | fuel + 1, b :: rest, h => by
    have hl : rest.length ≤ fuel := by simp at h; omega
    unfold encStrAux sanitizeAux
    by_cases hb : b.toNat < 0x80
    · rw [if_pos hb, decodeRune_ascii hb]
      simp only [List.take_succ_cons, List.take_zero, List.drop_succ_cons, List.drop_zero, if_true]
      exact .cons (escByte_piece b hb) (encStrAux_pieces fuel rest hl)
    · rw [if_neg hb]
      rcases decodeRune_cases b rest (by omega) with h0 | ⟨b1, t, rfl, hs⟩ | ⟨b1, b2, t, rfl, hs⟩ | ⟨b1, b2, b3, t, rfl, hs⟩
      · rw [h0]; simp only [runeError, and_self, if_true, Bool.false_eq_true, if_false]
        exact .cons .bad (encStrAux_pieces fuel rest hl)
      · rw [decodeRune_seq2 hs]
        have : ¬ ((b.toNat % 32) * 64 + b1.toNat % 64 = runeError ∧ 2 = 1) := by omega
        simp only [this, if_false, if_true]
        exact .cons (.raw2 b b1 hs) (encStrAux_pieces fuel t (by simp at hl; omega))
      · rw [decodeRune_seq3 hs]
        have : ¬ ((b.toNat % 16) * 4096 + (b1.toNat % 64) * 64 + b2.toNat % 64 = runeError ∧ 3 = 1) := by omega
        simp only [this, if_false, if_true]
        exact .cons (.raw3 b b1 b2 hs) (encStrAux_pieces fuel t (by simp at hl; omega))
      · rw [decodeRune_seq4 hs]
        have : ¬ ((b.toNat % 8) * 262144 + (b1.toNat % 64) * 4096 + (b2.toNat % 64) * 64 + b3.toNat % 64 = runeError ∧ 4 = 1) := by omega
        simp only [this, if_false, if_true]
        exact .cons (.raw4 b b1 b2 b3 hs) (encStrAux_pieces fuel t (by simp at hl; omega))
end Gojq.Encode

namespace Gojq.Encode
open Gojq Gojq.Utf8

theorem hex_roundtrip : ∀ x : Nat, x < 128 →
    hex4 0x30 0x30 (hexDigit (x / 16)) (hexDigit (x % 16)) = some x ∧ encodeRune x = [UInt8.ofNat x] := by
  decide

theorem parse_raw (b : UInt8) (hb : 0x80 ≤ b.toNat) (t : Bytes) (res : Bytes × Bytes)
    (h : parseStrAux none t = some res) : parseStrAux none (b :: t) = some (b :: res.1, res.2) := by
  have h1 : b ≠ cQuote := ne_of_toNat_ne (by simp [cQuote]; omega)
  have h2 : b ≠ cBackslash := ne_of_toNat_ne (by simp [cBackslash]; omega)
  rw [parseStrAux.eq_def]
  simp [h1, h2, h, pendingOut, show ¬ b.toNat < 32 by omega]

set_option linter.unusedSimpArgs false in
theorem parse_piece {a d : Bytes} (hp : Piece a d) (t : Bytes) (res : Bytes × Bytes)
    (h : parseStrAux none t = some res) : parseStrAux none (a ++ t) = some (d ++ res.1, res.2) := by
  cases hp with
  | plain b h1 h2 h3 h4 =>
    have e1 : b ≠ cQuote := ne_of_toNat_ne (by simpa [cQuote] using h3)
    have e2 : b ≠ cBackslash := ne_of_toNat_ne (by simpa [cBackslash] using h4)
    simp only [List.cons_append, List.nil_append]
    rw [parseStrAux.eq_def]
    simp [e1, e2, h, pendingOut, show ¬ b.toNat < 32 by omega]
  | esc2 e c hm =>
    simp only [List.cons_append, List.nil_append]
    simp [escTable] at hm
    rcases hm with ⟨rfl, rfl⟩ | ⟨rfl, rfl⟩ | ⟨rfl, rfl⟩ | ⟨rfl, rfl⟩ | ⟨rfl, rfl⟩ | ⟨rfl, rfl⟩ | ⟨rfl, rfl⟩ <;>
      (rw [parseStrAux.eq_def]; simp +decide [cQuote, cBackslash, h, pendingOut])
  | u00 b hb =>
    simp only [List.cons_append, List.nil_append]
    obtain ⟨hx, hr⟩ := hex_roundtrip b.toNat hb
    rw [parseStrAux.eq_def]
    simp [cQuote, cBackslash, hx, h, pendingOut, hr, show ¬ (0xDC00 ≤ b.toNat ∧ b.toNat ≤ 0xDFFF) by omega,
      show ¬ (0xD800 ≤ b.toNat ∧ b.toNat ≤ 0xDBFF) by omega]
  | bad =>
    simp only [escFFFD, List.cons_append, List.nil_append]
    rw [parseStrAux.eq_def]
    simp [cQuote, cBackslash, h, pendingOut, hex4, hexVal, fffd, encodeRune, maxRune]
  | raw2 b b1 hs =>
    obtain ⟨h1, h2, h3⟩ := hs
    simp [isCont] at h3
    simp only [List.cons_append, List.nil_append]
    exact parse_raw b (by omega) _ _ (parse_raw b1 (by omega) _ _ h)
  | raw3 b b1 b2 hs =>
    obtain ⟨h1, h2, h3, h4, h5⟩ := hs
    simp [isCont] at h5
    simp only [List.cons_append, List.nil_append]
    exact parse_raw b (by omega) _ _ (parse_raw b1 (by split at h3 <;> omega) _ _ (parse_raw b2 (by omega) _ _ h))
  | raw4 b b1 b2 b3 hs =>
    obtain ⟨h1, h2, h3, h4, h5, h6⟩ := hs
    simp [isCont] at h5 h6
    simp only [List.cons_append, List.nil_append]
    exact parse_raw b (by omega) _ _ (parse_raw b1 (by split at h3 <;> omega) _ _
      (parse_raw b2 (by omega) _ _ (parse_raw b3 (by omega) _ _ h)))

theorem parse_pieces {a d : Bytes} (hp : Pieces a d) (rest : Bytes) :
    parseStrAux none (a ++ cQuote :: rest) = some (d, rest) := by
  induction hp with
  | nil => rw [List.nil_append, parseStrAux.eq_def]; simp [pendingOut]
  | cons h _ ih => rw [List.append_assoc]; have := parse_piece h _ _ ih; simpa using this

end Gojq.Encode

namespace Gojq.Encode
open Gojq Gojq.Utf8

/-! ### lexical shape of the string output -/

/-- a byte that may stand unescaped inside a string literal -/
def StrPlain (b : UInt8) : Prop := b ≠ cQuote ∧ b ≠ cBackslash ∧ 0x20 ≤ b.toNat

/-- the letters that may follow a backslash -/
def escLetters : List UInt8 := [0x22, 0x5c, 0x62, 0x66, 0x6e, 0x72, 0x74, 0x75]

/-- unescaped bytes only, or one backslash escape followed by unescaped bytes -/
def Shape (a : Bytes) : Prop :=
  (∀ x ∈ a, StrPlain x) ∨ (∃ e t, a = 0x5c :: e :: t ∧ e ∈ escLetters ∧ ∀ x ∈ t, StrPlain x)

inductive Shapes : Bytes → Prop
  | nil : Shapes []
  | cons {a t : Bytes} (h : Shape a) (ht : Shapes t) : Shapes (a ++ t)

theorem strPlain_of_ge {b : UInt8} (h : 0x80 ≤ b.toNat) : StrPlain b :=
  ⟨ne_of_toNat_ne (by simp [cQuote]; omega), ne_of_toNat_ne (by simp [cBackslash]; omega), by omega⟩

theorem hexDigit_plain : ∀ n : Nat, n < 16 →
    hexDigit n ≠ cQuote ∧ hexDigit n ≠ cBackslash ∧ 0x20 ≤ (hexDigit n).toNat ∧ (hexDigit n).toNat < 0x80 := by
  decide

theorem cont_ge {b : UInt8} (h : isCont b = true) : 0x80 ≤ b.toNat := by
  simp [isCont] at h; omega

theorem piece_shape {a d : Bytes} (hp : Piece a d) : Shape a := by
  cases hp with
  | plain b h1 h2 h3 h4 =>
    left; intro x hx; simp at hx; subst hx
    exact ⟨ne_of_toNat_ne (by simpa [cQuote] using h3), ne_of_toNat_ne (by simpa [cBackslash] using h4), h1⟩
  | esc2 e c hm =>
    right; refine ⟨e, [], rfl, ?_, by simp⟩
    simp [escTable] at hm
    rcases hm with ⟨rfl, _⟩ | ⟨rfl, _⟩ | ⟨rfl, _⟩ | ⟨rfl, _⟩ | ⟨rfl, _⟩ | ⟨rfl, _⟩ | ⟨rfl, _⟩ <;> simp [escLetters]
  | u00 b hb =>
    right; refine ⟨0x75, _, rfl, by simp [escLetters], ?_⟩
    have h1 := hexDigit_plain (b.toNat / 16) (by omega)
    have h2 := hexDigit_plain (b.toNat % 16) (by omega)
    intro x hx
    simp at hx
    rcases hx with rfl | rfl | rfl
    · exact ⟨by decide, by decide, by decide⟩
    · exact ⟨h1.1, h1.2.1, h1.2.2.1⟩
    · exact ⟨h2.1, h2.2.1, h2.2.2.1⟩
  | bad =>
    right; refine ⟨0x75, [0x66, 0x66, 0x66, 0x64], rfl, by simp [escLetters], ?_⟩
    intro x hx; simp at hx
    rcases hx with rfl | rfl <;> exact ⟨by decide, by decide, by decide⟩
  | raw2 b b1 hs =>
    left; intro x hx; simp at hx
    rcases hx with rfl | rfl
    · exact strPlain_of_ge (by have := hs.1; omega)
    · exact strPlain_of_ge (cont_ge hs.2.2)
  | raw3 b b1 b2 hs =>
    obtain ⟨h1, h2, h3, h4, h5⟩ := hs
    left; intro x hx; simp at hx
    rcases hx with rfl | rfl | rfl
    · exact strPlain_of_ge (by omega)
    · exact strPlain_of_ge (by split at h3 <;> omega)
    · exact strPlain_of_ge (cont_ge h5)
  | raw4 b b1 b2 b3 hs =>
    obtain ⟨h1, h2, h3, h4, h5, h6⟩ := hs
    left; intro x hx; simp at hx
    rcases hx with rfl | rfl | rfl | rfl
    · exact strPlain_of_ge (by omega)
    · exact strPlain_of_ge (by split at h3 <;> omega)
    · exact strPlain_of_ge (cont_ge h5)
    · exact strPlain_of_ge (cont_ge h6)

theorem pieces_shapes {a d : Bytes} (hp : Pieces a d) : Shapes a := by
  induction hp with
  | nil => exact .nil
  | cons h _ ih => exact .cons (piece_shape h) ih

/-! consumers of the shape -/

theorem ws_plain_run : ∀ (a t : Bytes), (∀ x ∈ a, StrPlain x) →
    stripWsGo .str (a ++ t) = a ++ stripWsGo .str t
  | [], t, _ => rfl
  | b :: a, t, h => by
    have hb := h b (by simp)
    simp only [List.cons_append, stripWsGo, if_neg hb.1, if_neg hb.2.1]
    rw [ws_plain_run a t (fun x hx => h x (by simp [hx]))]

theorem ws_shape {a : Bytes} (h : Shape a) (t : Bytes) : stripWsGo .str (a ++ t) = a ++ stripWsGo .str t := by
  rcases h with h | ⟨e, r, rfl, _, h⟩
  · exact ws_plain_run a t h
  · simp only [List.cons_append, stripWsGo]
    rw [if_neg (by decide), if_pos (by decide), ws_plain_run r t h]

theorem ws_shapes {a : Bytes} (h : Shapes a) (rest : Bytes) :
    stripWsGo .str (a ++ cQuote :: rest) = a ++ cQuote :: stripWsGo .out rest := by
  induction h with
  | nil => simp [stripWsGo]
  | cons h _ ih => rw [List.append_assoc, ws_shape h, ih, List.append_assoc]

theorem strPlain_ne_esc {b : UInt8} (h : StrPlain b) : b ≠ cEsc :=
  ne_of_toNat_ne (by have := h.2.2; simp [cEsc]; omega)

theorem sgr_clean : ∀ (a t : Bytes), (∀ x ∈ a, x ≠ cEsc) → stripSGRGo false (a ++ t) = a ++ stripSGRGo false t
  | [], t, _ => rfl
  | b :: a, t, h => by
    simp only [List.cons_append, stripSGRGo, if_neg (h b (by simp))]
    rw [sgr_clean a t (fun x hx => h x (by simp [hx]))]

theorem shape_noCtl {a : Bytes} (h : Shape a) : ∀ x ∈ a, 0x20 ≤ x.toNat := by
  rcases h with h | ⟨e, r, rfl, he, h⟩
  · exact fun x hx => (h x hx).2.2
  · intro x hx
    simp at hx
    rcases hx with rfl | rfl | hx
    · decide
    · simp [escLetters] at he; rcases he with rfl | rfl | rfl | rfl | rfl | rfl | rfl | rfl <;> decide
    · exact (h x hx).2.2

theorem shapes_noCtl {a : Bytes} (h : Shapes a) : ∀ x ∈ a, 0x20 ≤ x.toNat := by
  induction h with
  | nil => simp
  | cons h _ ih =>
    intro x hx
    rcases List.mem_append.mp hx with hx | hx
    · exact shape_noCtl h x hx
    · exact ih x hx

/-- every quote or backslash in the body is part of a backslash escape with a legal letter -/
def escapedOk : Bytes → Bool
  | [] => true
  | [b] => b ≠ cQuote && b ≠ cBackslash
  | b :: e :: t =>
    if b = cBackslash then escLetters.contains e && escapedOk t
    else b ≠ cQuote && escapedOk (e :: t)

theorem escapedOk_plain_run : ∀ (a t : Bytes), (∀ x ∈ a, StrPlain x) → escapedOk (a ++ t) = escapedOk t
  | [], t, _ => rfl
  | [b], t, h => by
    have hb := h b (by simp)
    cases t with
    | nil => simp [escapedOk, hb.1, hb.2.1]
    | cons c t => simp [escapedOk, hb.1, hb.2.1]
  | b :: c :: a, t, h => by
    have hb := h b (by simp)
    simp only [List.cons_append, escapedOk, if_neg hb.2.1]
    have := escapedOk_plain_run (c :: a) t (fun x hx => h x (by simp [hx]))
    simp only [List.cons_append] at this
    simp [this, hb.1]

theorem escapedOk_shape {a : Bytes} (h : Shape a) (t : Bytes) : escapedOk (a ++ t) = escapedOk t := by
  rcases h with h | ⟨e, r, rfl, he, h⟩
  · exact escapedOk_plain_run a t h
  · simp only [List.cons_append, escapedOk]
    rw [if_pos (by decide), escapedOk_plain_run r t h]
    simp [he]

theorem escapedOk_shapes {a : Bytes} (h : Shapes a) : escapedOk a = true := by
  induction h with
  | nil => rfl
  | cons h _ ih => rw [escapedOk_shape h, ih]

end Gojq.Encode

namespace Gojq.Encode
open Gojq Gojq.Utf8

/-! ### UTF-8 validity -/

/-- well-formed UTF-8, as a grammar -/
inductive ValidSeq : Bytes → Prop
  | nil : ValidSeq []
  | ascii {b : UInt8} {t : Bytes} (h : b.toNat < 0x80) (ht : ValidSeq t) : ValidSeq (b :: t)
  | s2 {b b1 : UInt8} {t : Bytes} (h : Seq2 b b1) (ht : ValidSeq t) : ValidSeq (b :: b1 :: t)
  | s3 {b b1 b2 : UInt8} {t : Bytes} (h : Seq3 b b1 b2) (ht : ValidSeq t) : ValidSeq (b :: b1 :: b2 :: t)
  | s4 {b b1 b2 b3 : UInt8} {t : Bytes} (h : Seq4 b b1 b2 b3) (ht : ValidSeq t) : ValidSeq (b :: b1 :: b2 :: b3 :: t)

theorem ValidSeq.append {a t : Bytes} (ha : ValidSeq a) (ht : ValidSeq t) : ValidSeq (a ++ t) := by
  induction ha with
  | nil => exact ht
  | ascii h _ ih => exact .ascii h ih
  | s2 h _ ih => exact .s2 h ih
  | s3 h _ ih => exact .s3 h ih
  | s4 h _ ih => exact .s4 h ih

theorem ValidSeq.of_ascii : ∀ (a : Bytes), (∀ x ∈ a, x.toNat < 0x80) → ValidSeq a
  | [], _ => .nil
  | b :: a, h => .ascii (h b (by simp)) (ValidSeq.of_ascii a (fun x hx => h x (by simp [hx])))

theorem ValidSeq.validAux {s : Bytes} (hs : ValidSeq s) : ∀ fuel, s.length ≤ fuel → Utf8.validAux fuel s = true := by
  induction hs with
  | nil => intro fuel _; cases fuel <;> simp [Utf8.validAux]
  | @ascii b t h _ ih =>
    intro fuel hf
    cases fuel with
    | zero => simp at hf
    | succ fuel =>
      unfold Utf8.validAux
      rw [decodeRune_ascii h]
      simp only [Bool.true_and]
      exact ih fuel (by simp at hf; simpa using hf)
  | @s2 b b1 t h _ ih =>
    intro fuel hf
    cases fuel with
    | zero => simp at hf
    | succ fuel =>
      unfold Utf8.validAux
      rw [decodeRune_seq2 h]
      simp only [Bool.true_and]
      exact ih fuel (by simp at hf; omega)
  | @s3 b b1 b2 t h _ ih =>
    intro fuel hf
    cases fuel with
    | zero => simp at hf
    | succ fuel =>
      unfold Utf8.validAux
      rw [decodeRune_seq3 h]
      simp only [Bool.true_and]
      exact ih fuel (by simp at hf; omega)
  | @s4 b b1 b2 b3 t h _ ih =>
    intro fuel hf
    cases fuel with
    | zero => simp at hf
    | succ fuel =>
      unfold Utf8.validAux
      rw [decodeRune_seq4 h]
      simp only [Bool.true_and]
      exact ih fuel (by simp at hf; omega)

theorem ValidSeq.valid {s : Bytes} (hs : ValidSeq s) : Utf8.valid s = true :=
  hs.validAux _ (Nat.le_refl _)

theorem seq3_fffd : Seq3 0xEF 0xBF 0xBD := by unfold Seq3 isCont; decide

theorem piece_valid_out {a d : Bytes} (hp : Piece a d) : ValidSeq a := by
  cases hp with
  | raw2 b b1 hs => exact .s2 hs .nil
  | raw3 b b1 b2 hs => exact .s3 hs .nil
  | raw4 b b1 b2 b3 hs => exact .s4 hs .nil
  | plain b h1 h2 h3 h4 => exact .ascii (by omega) .nil
  | esc2 e c hm =>
    simp [escTable] at hm
    rcases hm with ⟨rfl, _⟩ | ⟨rfl, _⟩ | ⟨rfl, _⟩ | ⟨rfl, _⟩ | ⟨rfl, _⟩ | ⟨rfl, _⟩ | ⟨rfl, _⟩ <;>
      exact .of_ascii _ (by decide)
  | u00 b hb =>
    have h1 := hexDigit_plain (b.toNat / 16) (by omega)
    have h2 := hexDigit_plain (b.toNat % 16) (by omega)
    apply ValidSeq.of_ascii
    intro x hx; simp at hx
    rcases hx with rfl | rfl | rfl | rfl | rfl <;> first | decide | exact h1.2.2.2 | exact h2.2.2.2
  | bad => exact .of_ascii _ (by decide)

theorem piece_valid_dec {a d : Bytes} (hp : Piece a d) : ValidSeq d := by
  cases hp with
  | raw2 b b1 hs => exact .s2 hs .nil
  | raw3 b b1 b2 hs => exact .s3 hs .nil
  | raw4 b b1 b2 b3 hs => exact .s4 hs .nil
  | plain b h1 h2 h3 h4 => exact .ascii (by omega) .nil
  | esc2 e c hm =>
    simp [escTable] at hm
    rcases hm with ⟨_, rfl⟩ | ⟨_, rfl⟩ | ⟨_, rfl⟩ | ⟨_, rfl⟩ | ⟨_, rfl⟩ | ⟨_, rfl⟩ | ⟨_, rfl⟩ <;>
      exact .of_ascii _ (by decide)
  | u00 b hb => exact .ascii hb .nil
  | bad => exact .s3 seq3_fffd .nil

theorem pieces_valid {a d : Bytes} (hp : Pieces a d) : ValidSeq a ∧ ValidSeq d := by
  induction hp with
  | nil => exact ⟨.nil, .nil⟩
  | cons h _ ih => exact ⟨(piece_valid_out h).append ih.1, (piece_valid_dec h).append ih.2⟩

/-! ### decoding then re-encoding a well-formed sequence gives the same bytes -/

theorem ofNat_toNat_eq (b : UInt8) (n : Nat) (h : n = b.toNat) : UInt8.ofNat n = b := by
  subst h; exact UInt8.ofNat_toNat

theorem encodeRune_ascii {b : UInt8} (h : b.toNat < 0x80) : encodeRune b.toNat = [b] := by
  unfold encodeRune
  simp only [h, if_true]
  rw [ofNat_toNat_eq b _ rfl]

theorem encodeRune_seq2 {b b1 : UInt8} (h : Seq2 b b1) :
    encodeRune ((b.toNat % 32) * 64 + b1.toNat % 64) = [b, b1] := by
  obtain ⟨h1, h2, h3⟩ := h
  simp [isCont] at h3
  unfold encodeRune
  simp only []
  rw [if_neg (by omega), if_pos (by omega)]
  rw [ofNat_toNat_eq b _ (by omega), ofNat_toNat_eq b1 _ (by omega)]

theorem encodeRune_3 (r : Nat) (h1 : 0x800 ≤ r) (h2 : r < 0x10000) (h3 : ¬ (0xD800 ≤ r ∧ r ≤ 0xDFFF)) :
    encodeRune r = [UInt8.ofNat (0xE0 + r / 4096), UInt8.ofNat (0x80 + (r / 64) % 64), UInt8.ofNat (0x80 + r % 64)] := by
  unfold encodeRune
  simp only []
  rw [if_neg (by omega), if_neg (by omega)]
  split
  · rename_i h; simp [maxRune] at h; omega
  · first | rfl | (rw [if_pos h2])

theorem encodeRune_4 (r : Nat) (h1 : 0x10000 ≤ r) (h2 : r ≤ 0x10FFFF) :
    encodeRune r = [UInt8.ofNat (0xF0 + r / 262144), UInt8.ofNat (0x80 + (r / 4096) % 64),
      UInt8.ofNat (0x80 + (r / 64) % 64), UInt8.ofNat (0x80 + r % 64)] := by
  unfold encodeRune
  simp only []
  rw [if_neg (by omega), if_neg (by omega)]
  split
  · rename_i h; simp [maxRune] at h; omega
  · first | rfl | (rw [if_neg (by omega)])

theorem encodeRune_seq3 {b b1 b2 : UInt8} (h : Seq3 b b1 b2) :
    encodeRune ((b.toNat % 16) * 4096 + (b1.toNat % 64) * 64 + b2.toNat % 64) = [b, b1, b2] := by
  obtain ⟨h1, h2, h3, h4, h5⟩ := h
  simp [isCont] at h5
  have h3' : b.toNat = 0xE0 → 0xA0 ≤ b1.toNat := by intro e; simpa [e] using h3
  have h4' : b.toNat = 0xED → b1.toNat ≤ 0x9F := by intro e; simpa [e] using h4
  have hb1 : 0x80 ≤ b1.toNat ∧ b1.toNat ≤ 0xBF := by split at h3 <;> split at h4 <;> omega
  rw [encodeRune_3 _ (by omega) (by omega) (by omega)]
  rw [ofNat_toNat_eq b _ (by omega), ofNat_toNat_eq b1 _ (by omega), ofNat_toNat_eq b2 _ (by omega)]

theorem encodeRune_seq4 {b b1 b2 b3 : UInt8} (h : Seq4 b b1 b2 b3) :
    encodeRune ((b.toNat % 8) * 262144 + (b1.toNat % 64) * 4096 + (b2.toNat % 64) * 64 + b3.toNat % 64) = [b, b1, b2, b3] := by
  obtain ⟨h1, h2, h3, h4, h5, h6⟩ := h
  simp [isCont] at h5 h6
  have h3' : b.toNat = 0xF0 → 0x90 ≤ b1.toNat := by intro e; simpa [e] using h3
  have h4' : b.toNat = 0xF4 → b1.toNat ≤ 0x8F := by intro e; simpa [e] using h4
  have hb1 : 0x80 ≤ b1.toNat ∧ b1.toNat ≤ 0xBF := by split at h3 <;> split at h4 <;> omega
  rw [encodeRune_4 _ (by omega) (by omega)]
  rw [ofNat_toNat_eq b _ (by omega), ofNat_toNat_eq b1 _ (by omega), ofNat_toNat_eq b2 _ (by omega),
    ofNat_toNat_eq b3 _ (by omega)]

theorem encodeRune_error : encodeRune runeError = fffd := by decide

/-- the copy-based sanitiser is `Utf8.sanitize` (decode every rune, re-encode it) -/
theorem sanitizeAux_eq : ∀ (fuel : Nat) (s : Bytes), s.length ≤ fuel →
    sanitizeAux fuel s = encodeRunes (runesAux fuel s)
  | 0, s, h => by
    have : s = [] := List.eq_nil_of_length_eq_zero (by omega)
    subst this; simp [sanitizeAux, runesAux, encodeRunes]
  | fuel + 1, [], _ => by simp [sanitizeAux, runesAux, encodeRunes]
  | fuel + 1, b :: rest, h => by
    have hl : rest.length ≤ fuel := by simp at h; omega
    unfold sanitizeAux runesAux
    by_cases hb : b.toNat < 0x80
    · rw [decodeRune_ascii hb]
      simp only [if_true, List.take_succ_cons, List.take_zero, List.drop_succ_cons, List.drop_zero, Nat.max_self]
      rw [sanitizeAux_eq fuel rest hl]
      simp [encodeRunes, encodeRune_ascii hb]
    · rcases decodeRune_cases b rest (by omega) with h0 | ⟨b1, t, rfl, hs⟩ | ⟨b1, b2, t, rfl, hs⟩ | ⟨b1, b2, b3, t, rfl, hs⟩
      · rw [h0]
        simp only [Bool.false_eq_true, if_false, Nat.max_self, List.drop_succ_cons, List.drop_zero]
        rw [sanitizeAux_eq fuel rest hl]
        simp [encodeRunes, encodeRune_error]
      · rw [decodeRune_seq2 hs]
        simp only [if_true]
        rw [sanitizeAux_eq fuel _ (by simp at hl ⊢; omega)]
        simp [encodeRunes, encodeRune_seq2 hs]
      · rw [decodeRune_seq3 hs]
        simp only [if_true]
        rw [sanitizeAux_eq fuel _ (by simp at hl ⊢; omega)]
        simp [encodeRunes, encodeRune_seq3 hs]
      · rw [decodeRune_seq4 hs]
        simp only [if_true]
        rw [sanitizeAux_eq fuel _ (by simp at hl ⊢; omega)]
        simp [encodeRunes, encodeRune_seq4 hs]

theorem sanitizeBytes_eq (s : Bytes) : sanitizeBytes s = Utf8.sanitize s :=
  sanitizeAux_eq _ _ (Nat.le_refl _)

end Gojq.Encode

namespace Gojq.Encode
open Gojq Gojq.Utf8

/-- on well-formed UTF-8 the sanitiser is the identity -/
theorem sanitizeAux_valid : ∀ (fuel : Nat) (s : Bytes), s.length ≤ fuel → validAux fuel s = true → sanitizeAux fuel s = s
  | 0, s, h, _ => by
    have : s = [] := List.eq_nil_of_length_eq_zero (by omega)
    subst this; simp [sanitizeAux]
  | fuel + 1, [], _, _ => by simp [sanitizeAux]
  | fuel + 1, b :: rest, h, hv => by
    have hl : rest.length ≤ fuel := by simp at h; omega
    unfold validAux at hv
    unfold sanitizeAux
    by_cases hb : b.toNat < 0x80
    · rw [decodeRune_ascii hb] at hv ⊢
      simp only [Bool.true_and, Nat.max_self, List.drop_succ_cons, List.drop_zero] at hv
      simp only [if_true, List.take_succ_cons, List.take_zero, List.drop_succ_cons, List.drop_zero]
      rw [sanitizeAux_valid fuel rest hl hv]; rfl
    · rcases decodeRune_cases b rest (by omega) with h0 | ⟨b1, t, rfl, hs⟩ | ⟨b1, b2, t, rfl, hs⟩ | ⟨b1, b2, b3, t, rfl, hs⟩
      · rw [h0] at hv; simp at hv
      · rw [decodeRune_seq2 hs] at hv ⊢
        simp only [Bool.true_and] at hv
        simp only [if_true]
        rw [sanitizeAux_valid fuel _ (by simp at hl ⊢; omega) (by simpa using hv)]; rfl
      · rw [decodeRune_seq3 hs] at hv ⊢
        simp only [Bool.true_and] at hv
        simp only [if_true]
        rw [sanitizeAux_valid fuel _ (by simp at hl ⊢; omega) (by simpa using hv)]; rfl
      · rw [decodeRune_seq4 hs] at hv ⊢
        simp only [Bool.true_and] at hv
        simp only [if_true]
        rw [sanitizeAux_valid fuel _ (by simp at hl ⊢; omega) (by simpa using hv)]; rfl

theorem sanitize_of_valid (s : Bytes) (h : Utf8.valid s = true) : Utf8.sanitize s = s := by
  rw [← sanitizeBytes_eq]; exact sanitizeAux_valid _ _ (Nat.le_refl _) h

theorem sanitize_valid (s : Bytes) : Utf8.valid (Utf8.sanitize s) = true := by
  rw [← sanitizeBytes_eq]
  exact (pieces_valid (encStrAux_pieces s.length s (Nat.le_refl _))).2.valid
end Gojq.Encode

/-
  Lexing printed text, part 2: one token.  `stops t fol` — the scanner that reads `t` ends at the
  end of `t`'s spelling when the bytes `fol` follow (maximal munch does not merge) — and, per
  token class, `Lex` on `spell t ++ fol` delivers exactly `t` and leaves `fol` (`LexStep`).
  White space before a token is skipped.
-/
import Gojq.Proofs.RoundTripLex
import Gojq.Proofs.RoundTripNames
namespace Gojq.RefTerm
open Gojq Gojq.Lexer Gojq.Generated.Lalr

/-- `Lex` in mode `inStr` on `text` delivers the token `t`, leaves `fol` unread and sets the flag -/
def LexStep (inStr : Bool) (text : Bytes) (t : Tok) (fol : Bytes) (inStr' : Bool) : Prop :=
  ((lx text inStr).1 == eof) = false ∧ classify inStr (lx text inStr).1 (lx text inStr).2.1 = t ∧
    (lx text inStr).2.2.1 = fol ∧ (lx text inStr).2.2.2 = inStr'

theorem tkz_step (f : Nat) (inStr : Bool) (text : Bytes) (t : Tok) (fol : Bytes) (inStr' : Bool) (stk : List Nat)
    (h : LexStep inStr text t fol inStr') (hb : t.isBad = false) :
    tkz (f + 1) text inStr stk =
      t :: tkz f fol (if (stepStk t stk).2 then true else inStr') (stepStk t stk).1 := by
  obtain ⟨h1, h2, h3, h4⟩ := h
  simp only [tkz, h1, h2, h3, h4, hb, Bool.false_eq_true, if_false]

theorem lx_char (c : UInt8) (r : Bytes) (hw : isWhite c = false) (hh : (c == 35) = false) :
    lx (c :: r) false =
      ((scanTok false c r).ty, (scanTok false c r).lval, r.drop (scanTok false c r).n,
        (scanTok false c r).inString.getD false) := by
  simp [lx, lex, next, nextAux, hw, hh, commit, Nat.add_comm 1]

/-- from a scan to a step -/
theorem step_of_scan (c : UInt8) (r fol : Bytes) (t : Tok) (sc : Scan) (hw : isWhite c = false)
    (hh : (c == 35) = false) (hsc : scanTok false c r = sc) (hty : (sc.ty == eof) = false)
    (hcl : classify false sc.ty sc.lval = t) (hdrop : r.drop sc.n = fol) :
    LexStep false (c :: r) t fol (sc.inString.getD false) := by
  unfold LexStep
  rw [lx_char c r hw hh, hsc]
  exact ⟨hty, hcl, hdrop, rfl⟩

/-! ### white space -/

def shiftNext (k : Nat) : Next → Next
  | .char c w => .char c (w + k)
  | .eof w => .eof (w + k)
  | .panic => .panic

theorem nextAux_shift (k : Nat) : ∀ (r : Bytes) (mode : Mode) (n : Nat),
    nextAux mode r (n + k) = shiftNext k (nextAux mode r n) := by
  intro r
  induction r with
  | nil => intro mode n; cases mode <;> simp [nextAux, shiftNext]
  | cons c r ih =>
    intro mode n
    have e : ∀ m, nextAux m r (n + k + 1) = shiftNext k (nextAux m r (n + 1)) := by
      intro m; rw [Nat.add_right_comm]; exact ih m (n + 1)
    cases mode <;> simp only [nextAux, e] <;> (repeat' split) <;> simp_all [shiftNext, Nat.add_right_comm]

theorem lx_white (w : UInt8) (X : Bytes) (hw : isWhite w = true) : lx (w :: X) false = lx X false := by
  have hh := white_ne_hash hw
  cases X with
  | nil => simp [lx, lex, next, nextAux, hw, hh, commit]
  | cons x X =>
    have hb := next_bounds (x :: X) (by simp)
    have e : next (w :: x :: X) = shiftNext 1 (next (x :: X)) := by
      have h1 : nextAux .normal (w :: x :: X) 0 = nextAux .normal (x :: X) 1 := by
        rw [nextAux]; simp [hw, hh]
      have := nextAux_shift 1 (x :: X) .normal 0
      simp only [Nat.zero_add] at this
      simp only [next, h1, this]
    unfold lx lex
    simp only [List.isEmpty_cons, Bool.false_eq_true, if_false, e]
    cases hn : next (x :: X) with
    | panic => rw [hn] at hb; exact hb.elim
    | eof m => simp [shiftNext, commit]
    | char c m =>
      simp [shiftNext, commit, Nat.add_assoc]
      generalize (scanTok false c (List.drop m (x :: X))).n = n
      rw [show m + (1 + n) = (m + n) + 1 by omega, List.drop_succ_cons]

theorem lx_whites (g X : Bytes) (hg : ∀ w ∈ g, isWhite w = true) : lx (g ++ X) false = lx X false := by
  induction g with
  | nil => rfl
  | cons w g ih =>
    rw [List.cons_append, lx_white w _ (hg w (by simp)), ih (fun x hx => hg x (by simp [hx]))]

/-- at the end of the source (white space only) `Lex` returns eof -/
theorem lx_nil : (lx [] false).1 = eof := by
  simp [lx, lex, commit]

/-! ### single bytes -/

theorem step_single (c : UInt8) (fol : Bytes) (hw : isWhite c = false) (hh : (c == 35) = false)
    (hsc : scanTok false c fol = { n := 0, token := none, ty := c.toNat })
    (hcl : classify false c.toNat {} = .ch c) : LexStep false (c :: fol) (.ch c) fol false :=
  step_of_scan c fol fol _ _ hw hh hsc (by simp [eof]) hcl rfl

theorem step_solo (c : UInt8) (fol : Bytes) (h : isSolo c = true) : LexStep false (c :: fol) (.ch c) fol false := by
  simp only [isSolo, Bool.or_eq_true, beq_iff_eq] at h
  rcases h with (((((((h | h) | h) | h) | h) | h) | h) | h) | h <;> subst h <;>
    exact step_single _ fol (by decide) (by decide) rfl (by decide)

theorem step_dot (fol : Bytes) (h : stops (.ch 46) fol = true) : LexStep false (46 :: fol) (.ch 46) fol false := by
  simp only [stops, isSolo] at h
  simp at h
  refine step_single 46 fol (by decide) (by decide) ?_ (by decide)
  simp [scanTok, h, show isIdent 46 false = false by decide, show isNumber 46 = false by decide]

theorem step_eqExt (c : UInt8) (fol : Bytes) (hc : isEqExt c = true) (h : stops (.ch c) fol = true) :
    LexStep false (c :: fol) (.ch c) fol false := by
  simp only [isEqExt, Bool.or_eq_true, beq_iff_eq] at hc
  rcases hc with (((hc | hc) | hc) | hc) | hc <;> subst hc <;>
    (simp [stops, isSolo, isEqExt] at h
     refine step_single _ fol (by decide) (by decide) ?_ (by decide)
     simp [scanTok, isIdent, isNumber, h])

theorem step_slash (fol : Bytes) (h : stops (.ch 47) fol = true) : LexStep false (47 :: fol) (.ch 47) fol false := by
  simp [stops, isSolo, isEqExt] at h
  refine step_single 47 fol (by decide) (by decide) ?_ (by decide)
  simp [scanTok, isIdent, isNumber, h]

theorem step_quest (fol : Bytes) (h : stops (.ch 63) fol = true) : LexStep false (63 :: fol) (.ch 63) fol false := by
  simp only [stops, isSolo, isEqExt] at h
  simp at h
  refine step_single 63 fol (by decide) (by decide) ?_ (by decide)
  simp only [scanTok]
  simp [isIdent, isNumber]
  intro h1 h2
  rcases h with h | h
  · exact absurd h1 h
  · exact absurd (by simpa using h2) h

theorem step_ch (c : UInt8) (fol : Bytes) (hc : okCh c = true) (h : stops (.ch c) fol = true) :
    LexStep false (c :: fol) (.ch c) fol false := by
  simp only [okCh, Bool.or_eq_true, beq_iff_eq] at hc
  rcases hc with (((hc | hc) | hc) | hc) | hc
  · exact step_solo c fol hc
  · subst hc; exact step_dot fol h
  · exact step_eqExt c fol hc h
  · subst hc; exact step_slash fol h
  · subst hc; exact step_quest fol h

end Gojq.RefTerm

/-
  Congruence of `exec` with respect to `TRel`, opcode by opcode, for the 26 opcodes that neither
  call nor return (`easy`); generated in the style of Proofs/OptSimExec.lean.
-/
import Gojq.Proofs.TailSimCong
set_option linter.unusedSimpArgs false
set_option linter.unusedVariables false
namespace Gojq.TailVM
open Gojq Gojq.VM Gojq.OptVM

/-- the primitives; unification at reducible transparency so that a mismatch fails at once -/
macro "tg_prim" : tactic => `(tactic| with_reducible first
  | exact TCong.pure _ | exact TCong.frame (FrameS.push _) | exact TCong.frame FrameS.pop
  | exact TCong.frame FrameS.stackTop | exact TCong.pushfork _ (by assumption)
  | exact TCong.pushforkOver _ _ (by assumption) | exact TCong.frame (FrameS.objectLoop _ _ _)
  | exact TCong.frame (FrameS.popArgs _)
  | exact TCong.frame (FrameS.pathsPush _) | exact TCong.frame FrameS.pathsPop | exact TCong.frame FrameS.pathsTop
  | exact TCong.envIndex _ _ (by assumption) | exact TCong.frame (FrameS.getValue _)
  | exact TCong.frame (FrameS.setValue _ _)
  | exact TCong.frame (FrameS.extCall _) | exact TCong.frame FrameS.tracking | exact TCong.frame (FrameS.asJV _)
  | exact TCong.frame (FrameS.pathIntact _) | exact TCong.frame FrameS.poppaths
  | exact TCong.frame (FrameS.pushPaths _ _)
  | exact TCong.panic _ | exact TCong.stuck _)

macro "tg_exec" : tactic => `(tactic| repeat' (first
  | tg_prim
  | (with_reducible refine TCong.modify _ ?_ ?_
     · intro _ _ _; rfl
     · intro _; exact ⟨rfl, rfl⟩)
  | (with_reducible refine TCong.getEnv_bind _ ?_ (fun _ => ?_)
     · intro _ _ _; rfl)
  | with_reducible refine TCong.bind ?_ (fun _ => ?_)
  | split))

/-- the opcodes that neither call nor return -/
def easy : Instr → Bool
  | .call _ | .callrec _ | .pushpc _ | .callpc | .scope _ _ _ | .ret => false
  | _ => true

/-- the scope id a variable instruction names -/
def varId : Instr → Option Int
  | .load id _ | .store id _ | .append id _ | .forklabel id _ => some id
  | _ => none


theorem exec_tcong_nop {c : Array Instr}  (x : ExtRec) (l : L) : TCong c (exec Instr.nop x l) := by
  simp only [exec, exec.execIndex, iterEmit, iterInvalid, pathBroken]
  tg_exec


theorem exec_tcong_push {c : Array Instr} (v : JV) (x : ExtRec) (l : L) : TCong c (exec (Instr.push v) x l) := by
  simp only [exec, exec.execIndex, iterEmit, iterInvalid, pathBroken]
  tg_exec


theorem exec_tcong_pop {c : Array Instr}  (x : ExtRec) (l : L) : TCong c (exec Instr.pop x l) := by
  simp only [exec, exec.execIndex, iterEmit, iterInvalid, pathBroken]
  tg_exec


theorem exec_tcong_dup {c : Array Instr}  (x : ExtRec) (l : L) : TCong c (exec Instr.dup x l) := by
  simp only [exec, exec.execIndex, iterEmit, iterInvalid, pathBroken]
  tg_exec


theorem exec_tcong_const {c : Array Instr} (v : JV) (x : ExtRec) (l : L) : TCong c (exec (Instr.const v) x l) := by
  simp only [exec, exec.execIndex, iterEmit, iterInvalid, pathBroken]
  tg_exec


theorem exec_tcong_load {c : Array Instr} (a b : Int) (x : ExtRec) (l : L) (hD : ¬ Dead c a) : TCong c (exec (Instr.load a b) x l) := by
  simp only [exec, exec.execIndex, iterEmit, iterInvalid, pathBroken]
  tg_exec


theorem exec_tcong_store {c : Array Instr} (a b : Int) (x : ExtRec) (l : L) (hD : ¬ Dead c a) : TCong c (exec (Instr.store a b) x l) := by
  simp only [exec, exec.execIndex, iterEmit, iterInvalid, pathBroken]
  tg_exec


theorem exec_tcong_object {c : Array Instr} (n : Int) (x : ExtRec) (l : L) : TCong c (exec (Instr.object n) x l) := by
  simp only [exec, exec.execIndex, iterEmit, iterInvalid, pathBroken]
  tg_exec


theorem exec_tcong_append {c : Array Instr} (a b : Int) (x : ExtRec) (l : L) (hD : ¬ Dead c a) : TCong c (exec (Instr.append a b) x l) := by
  simp only [exec, exec.execIndex, iterEmit, iterInvalid, pathBroken]
  tg_exec


theorem exec_tcong_fork {c : Array Instr} (t : Int) (x : ExtRec) (l : L) (hF : ForkAt c l.pc) : TCong c (exec (Instr.fork t) x l) := by
  simp only [exec, exec.execIndex, iterEmit, iterInvalid, pathBroken]
  tg_exec


theorem exec_tcong_forktrybegin {c : Array Instr} (t : Int) (x : ExtRec) (l : L) (hF : ForkAt c l.pc) : TCong c (exec (Instr.forktrybegin t) x l) := by
  simp only [exec, exec.execIndex, iterEmit, iterInvalid, pathBroken]
  tg_exec


theorem exec_tcong_forktryend {c : Array Instr}  (x : ExtRec) (l : L) (hF : ForkAt c l.pc) : TCong c (exec Instr.forktryend x l) := by
  simp only [exec, exec.execIndex, iterEmit, iterInvalid, pathBroken]
  tg_exec


theorem exec_tcong_forkalt {c : Array Instr} (t : Int) (x : ExtRec) (l : L) (hF : ForkAt c l.pc) : TCong c (exec (Instr.forkalt t) x l) := by
  simp only [exec, exec.execIndex, iterEmit, iterInvalid, pathBroken]
  tg_exec


theorem exec_tcong_forklabel {c : Array Instr} (a b : Int) (x : ExtRec) (l : L) (hD : ¬ Dead c a) (hF : ForkAt c l.pc) : TCong c (exec (Instr.forklabel a b) x l) := by
  simp only [exec, exec.execIndex, iterEmit, iterInvalid, pathBroken]
  tg_exec


theorem exec_tcong_backtrack {c : Array Instr}  (x : ExtRec) (l : L) : TCong c (exec Instr.backtrack x l) := by
  simp only [exec, exec.execIndex, iterEmit, iterInvalid, pathBroken]
  tg_exec


theorem exec_tcong_jump {c : Array Instr} (t : Int) (x : ExtRec) (l : L) : TCong c (exec (Instr.jump t) x l) := by
  simp only [exec, exec.execIndex, iterEmit, iterInvalid, pathBroken]
  tg_exec


theorem exec_tcong_jumpifnot {c : Array Instr} (t : Int) (x : ExtRec) (l : L) : TCong c (exec (Instr.jumpifnot t) x l) := by
  simp only [exec, exec.execIndex, iterEmit, iterInvalid, pathBroken]
  tg_exec


theorem exec_tcong_index {c : Array Instr} (k : JV) (x : ExtRec) (l : L) : TCong c (exec (Instr.index k) x l) := by
  simp only [exec, exec.execIndex, iterEmit, iterInvalid, pathBroken]
  tg_exec


theorem exec_tcong_indexarray {c : Array Instr} (k : JV) (x : ExtRec) (l : L) : TCong c (exec (Instr.indexarray k) x l) := by
  simp only [exec, exec.execIndex, iterEmit, iterInvalid, pathBroken]
  tg_exec


theorem exec_tcong_callNative {c : Array Instr} (kd : NativeKind) (n : Int) (x : ExtRec) (l : L) : TCong c (exec (Instr.callNative kd n) x l) := by
  simp only [exec, exec.execIndex, iterEmit, iterInvalid, pathBroken]
  tg_exec


theorem exec_tcong_iter {c : Array Instr}  (x : ExtRec) (l : L) (hF : ForkAt c l.pc) : TCong c (exec Instr.iter x l) := by
  simp only [exec, exec.execIndex, iterEmit, iterInvalid, pathBroken]
  tg_exec


theorem exec_tcong_expbegin {c : Array Instr}  (x : ExtRec) (l : L) : TCong c (exec Instr.expbegin x l) := by
  simp only [exec, exec.execIndex, iterEmit, iterInvalid, pathBroken]
  tg_exec


theorem exec_tcong_expend {c : Array Instr}  (x : ExtRec) (l : L) : TCong c (exec Instr.expend x l) := by
  simp only [exec, exec.execIndex, iterEmit, iterInvalid, pathBroken]
  tg_exec


theorem exec_tcong_pathbegin {c : Array Instr}  (x : ExtRec) (l : L) : TCong c (exec Instr.pathbegin x l) := by
  simp only [exec, exec.execIndex, iterEmit, iterInvalid, pathBroken]
  tg_exec


theorem exec_tcong_pathend {c : Array Instr}  (x : ExtRec) (l : L) : TCong c (exec Instr.pathend x l) := by
  simp only [exec, exec.execIndex, iterEmit, iterInvalid, pathBroken]
  tg_exec


theorem exec_tcong_bad {c : Array Instr}  (x : ExtRec) (l : L) : TCong c (exec Instr.bad x l) := by
  simp only [exec, exec.execIndex, iterEmit, iterInvalid, pathBroken]
  tg_exec


/-- every easy opcode respects the relation: `hD` — a variable instruction names a live scope id;
    `hF` — a fork-pushing instruction stands at its own pc -/
theorem exec_tcong {c : Array Instr} (ins : Instr) (x : ExtRec) (l : L) (he : easy ins = true)
    (hD : ∀ id, varId ins = some id → ¬ Dead c id) (hF : forkLike ins = true → ForkAt c l.pc) :
    TCong c (exec ins x l) := by
  cases ins with
  | nop => exact exec_tcong_nop  x l 
  | push v => exact exec_tcong_push v x l 
  | pop => exact exec_tcong_pop  x l 
  | dup => exact exec_tcong_dup  x l 
  | const v => exact exec_tcong_const v x l 
  | load a b => exact exec_tcong_load a b x l (hD _ rfl)
  | store a b => exact exec_tcong_store a b x l (hD _ rfl)
  | object n => exact exec_tcong_object n x l 
  | append a b => exact exec_tcong_append a b x l (hD _ rfl)
  | fork t => exact exec_tcong_fork t x l (hF rfl)
  | forktrybegin t => exact exec_tcong_forktrybegin t x l (hF rfl)
  | forktryend => exact exec_tcong_forktryend  x l (hF rfl)
  | forkalt t => exact exec_tcong_forkalt t x l (hF rfl)
  | forklabel a b => exact exec_tcong_forklabel a b x l (hD _ rfl) (hF rfl)
  | backtrack => exact exec_tcong_backtrack  x l 
  | jump t => exact exec_tcong_jump t x l 
  | jumpifnot t => exact exec_tcong_jumpifnot t x l 
  | index k => exact exec_tcong_index k x l 
  | indexarray k => exact exec_tcong_indexarray k x l 
  | callNative kd n => exact exec_tcong_callNative kd n x l 
  | iter => exact exec_tcong_iter  x l (hF rfl)
  | expbegin => exact exec_tcong_expbegin  x l 
  | expend => exact exec_tcong_expend  x l 
  | pathbegin => exact exec_tcong_pathbegin  x l 
  | pathend => exact exec_tcong_pathend  x l 
  | bad => exact exec_tcong_bad  x l 
  | call t => simp [easy] at he
  | callrec t => simp [easy] at he
  | pushpc t => simp [easy] at he
  | callpc => simp [easy] at he
  | scope a b d => simp [easy] at he
  | ret => simp [easy] at he

end Gojq.TailVM

/-
  `compile_yields`, the cases `try b` and `try b catch h` (C01.3).  Core Lean only.
-/
import Gojq.Proofs.MiniVMRefine
namespace Gojq.MiniVM
variable [IterMsg]
set_option linter.unusedSectionVars false

theorem cy_try {code defs entry nf n} (hfun : FuncsOK code defs entry nf) (ihn : CY code defs entry nf n) (b : Q) :
    CYq code defs entry nf (n+1) (.try_ b) := by
  intro g e p hep hseg hcl ρ v S F R fr o cp P htop hge hpar hP henv hoff hnd
  simp only [compile] at hseg hoff ⊢
  simp only [Q.Closed] at hcl
  simp only [Q.HasParam] at hpar
  generalize hcb : compile entry g e (p+1) b = cb at hseg hoff ⊢
  have h0 : code[p]? = some (.forktrybegin (p + 1 + cb.length + 2)) := by have := hseg 0 (by simp); simpa using this
  have hsb : Seg code (p+1) cb := by
    have := Seg.append_right (a := [Instr.forktrybegin (p + 1 + cb.length + 2)]) (b := cb) (Seg.append_left hseg)
    simpa using this
  have htail := Seg.append_right (a := [Instr.forktrybegin (p + 1 + cb.length + 2)] ++ cb) hseg
  have hpe : p + ([Instr.forktrybegin (p + 1 + cb.length + 2)] ++ cb).length = p + 1 + cb.length := by simp; omega
  rw [hpe] at htail
  have t0 : code[p + 1 + cb.length]? = some .forktryend := by have := htail 0 (by simp); simpa using this
  have t1 : code[p + 1 + cb.length + 1]? = some (.jump (p + 1 + cb.length + 3)) := by have := htail 1 (by simp); simpa using this
  have t2 : code[p + 1 + cb.length + 2]? = some .backtrack := by have := htail 2 (by simp); simpa using this
  have hlen : ([Instr.forktrybegin (p + 1 + cb.length + 2)] ++ cb ++ [Instr.forktryend, .jump (p + 1 + cb.length + 3), .backtrack]).length = 1 + cb.length + 3 := by
    simp; omega
  rw [hlen] at hoff ⊢
  have hexit : p + (1 + cb.length + 3) = p + 1 + cb.length + 3 := by omega
  rw [hexit]
  simp only [eval] at hnd ⊢
  have hndb : ND (eval defs n g ρ b v).stop := by
    generalize eval defs n g ρ b v = rb at hnd
    rcases rb with ⟨ob, sb⟩
    cases sb <;> simp_all [ND]
  have yb := ihn b g e (p+1) (by omega) (hcb ▸ hsb) hcl ρ v S (⟨p, .v v :: S, fr, o⟩ :: F) R fr o cp P htop hge hpar
    (fun a h => by have := hP a h; omega) henv (by rw [hcb]; omega) hndb
  rw [hcb] at yb
  have start : Steps code (.run p (.v v :: S) F false none R fr o cp)
      (.run (p+1) (.v v :: S) (⟨p, .v v :: S, fr, o⟩ :: F) false none R fr o cp) := Steps.one (by simp [step, h0])
  refine Yields.steps_left start EqOff.refl ?_
  have hOb : ∀ a, Own (base fr) e (p+1) cb.length a → Own (base fr) e p (1 + cb.length + 3) a := by
    intro a h; obtain ⟨j, h1, h2, h3⟩ := h; exact ⟨j, by omega, by omega, h3⟩
  generalize hrb : eval defs n g ρ b v = rb at hnd yb ⊢
  rcases rb with ⟨ob, sb⟩
  cases sb with
  | diverge => simp [ND] at hnd
  | done =>
    simp only [Stop.toErr] at yb ⊢
    have := try_body_aux yb (O := Own (base fr) e p (1 + cb.length + 3)) (K := fun _ => False) (out2 := []) (e := none)
      (Rref := R) rfl h0 t0 t1 hOb (fun _ h => h.elim) (fun _ h => h.elim) (fun _ h => h.elim)
      (fun R' _ => .done (e := none)
        (.head (c' := .run p (.v v :: S) F true none R' fr o 0) (by simp [step]) (Steps.one (by simp [step, h0])))
        EqOff.refl)
    simpa using this
  | err ee =>
    simp only [Stop.toErr] at yb ⊢
    have := try_body_aux yb (O := Own (base fr) e p (1 + cb.length + 3)) (K := fun _ => False) (out2 := []) (e := none)
      (Rref := R) rfl h0 t0 t1 hOb (fun _ h => h.elim) (fun _ h => h.elim) (fun _ h => h.elim)
      (fun R' _ => .done (e := none)
        (.head (c' := .run p (.v v :: S) F true (some (.plain ee)) R' fr o 0) (by simp [step])
          (.head (c' := .run (p + 1 + cb.length + 2) (.v ee.toV :: S) F false none R' fr o 0) (by simp [step, h0])
            (Steps.one (by simp [step, t2]))))
        EqOff.refl)
    simpa using this

theorem cy_tryCatch {code defs entry nf n} (hfun : FuncsOK code defs entry nf) (ihn : CY code defs entry nf n) (b : Q) (h : Q) :
    CYq code defs entry nf (n+1) (.tryCatch b h) := by
  intro g e p hep hseg hcl ρ v S F R fr o cp P htop hge hpar hP henv hoff hnd
  simp only [compile] at hseg hoff ⊢
  simp only [Q.Closed] at hcl
  simp only [Q.HasParam] at hpar
  generalize hcb : compile entry g e (p+1) b = cb at hseg hoff ⊢
  generalize hch : compile entry g e (p + 1 + cb.length + 2) h = ch at hseg hoff ⊢
  have h0 : code[p]? = some (.forktrybegin (p + 1 + cb.length + 2)) := by have := hseg 0 (by simp); simpa using this
  have hsb : Seg code (p+1) cb := by
    have := Seg.append_right (a := [Instr.forktrybegin (p + 1 + cb.length + 2)]) (b := cb) (Seg.append_left (Seg.append_left hseg))
    simpa using this
  have hmid := Seg.append_right (a := [Instr.forktrybegin (p + 1 + cb.length + 2)] ++ cb) (Seg.append_left hseg)
  have hpe : p + ([Instr.forktrybegin (p + 1 + cb.length + 2)] ++ cb).length = p + 1 + cb.length := by simp; omega
  rw [hpe] at hmid
  have t0 : code[p + 1 + cb.length]? = some .forktryend := by have := hmid 0 (by simp); simpa using this
  have t1 : code[p + 1 + cb.length + 1]? = some (.jump (p + 1 + cb.length + 2 + ch.length)) := by have := hmid 1 (by simp); simpa using this
  have hsh : Seg code (p + 1 + cb.length + 2) ch := by
    have := Seg.append_right (a := [Instr.forktrybegin (p + 1 + cb.length + 2)] ++ cb ++ [Instr.forktryend, .jump (p + 1 + cb.length + 2 + ch.length)]) (b := ch) hseg
    have e2 : p + ([Instr.forktrybegin (p + 1 + cb.length + 2)] ++ cb ++ [Instr.forktryend, .jump (p + 1 + cb.length + 2 + ch.length)]).length = p + 1 + cb.length + 2 := by
      simp; omega
    rw [e2] at this; exact this
  have hlen : ([Instr.forktrybegin (p + 1 + cb.length + 2)] ++ cb ++ [Instr.forktryend, .jump (p + 1 + cb.length + 2 + ch.length)] ++ ch).length = 1 + cb.length + 2 + ch.length := by
    simp; omega
  rw [hlen] at hoff ⊢
  have hexit : p + (1 + cb.length + 2 + ch.length) = p + 1 + cb.length + 2 + ch.length := by omega
  rw [hexit]
  simp only [eval] at hnd ⊢
  have hndb : ND (eval defs n g ρ b v).stop := by
    generalize eval defs n g ρ b v = rb at hnd
    rcases rb with ⟨ob, sb⟩
    cases sb <;> simp_all [ND]
  have yb := ihn b g e (p+1) (by omega) (hcb ▸ hsb) hcl.1 ρ v S (⟨p, .v v :: S, fr, o⟩ :: F) R fr o cp P htop hge
    (fun hh => hpar (Or.inl hh)) (fun a h => by have := hP a h; omega) henv (by rw [hcb]; omega) hndb
  rw [hcb] at yb
  have start : Steps code (.run p (.v v :: S) F false none R fr o cp)
      (.run (p+1) (.v v :: S) (⟨p, .v v :: S, fr, o⟩ :: F) false none R fr o cp) := Steps.one (by simp [step, h0])
  refine Yields.steps_left start EqOff.refl ?_
  have hOb : ∀ a, Own (base fr) e (p+1) cb.length a → Own (base fr) e p (1 + cb.length + 2 + ch.length) a := by
    intro a h; obtain ⟨j, h1, h2, h3⟩ := h; exact ⟨j, by omega, by omega, h3⟩
  have hOh : ∀ a, Own (base fr) e (p + 1 + cb.length + 2) ch.length a →
      Own (base fr) e p (1 + cb.length + 2 + ch.length) a ∨ (o ≤ a ∧ a < o) := by
    intro a h; obtain ⟨j, h1, h2, h3⟩ := h; exact Or.inl ⟨j, by omega, by omega, h3⟩
  have hPd : ∀ a, P a → ¬ Wr (Own (base fr) e (p+1) cb.length) o a := by
    intro a h hw
    have := hP a h
    rcases hw with hw | hw
    · obtain ⟨j, j1, j2, j3⟩ := hw; omega
    · omega
  generalize hrb : eval defs n g ρ b v = rb at hnd yb ⊢
  rcases rb with ⟨ob, sb⟩
  cases sb with
  | diverge => simp [ND] at hnd
  | done =>
    simp only [Stop.toErr] at yb ⊢
    have := try_body_aux yb (O := Own (base fr) e p (1 + cb.length + 2 + ch.length)) (K := P) (out2 := []) (e := none)
      (Rref := R) rfl h0 t0 t1 hOb (fun _ h => Or.inr h) hPd EqOn.refl
      (fun R' _ => .done (e := none)
        (.head (c' := .run p (.v v :: S) F true none R' fr o 0) (by simp [step]) (Steps.one (by simp [step, h0])))
        EqOff.refl)
    simpa using this
  | err ee =>
    simp only [Stop.toErr] at yb hnd ⊢
    have yh := fun R' (hR' : EqOn P R R') => ihn h g e (p + 1 + cb.length + 2) (by omega) (hch ▸ hsh) hcl.2 ρ ee.toV S F R' fr o 0 P htop hge
      (fun hh => hpar (Or.inr hh)) (fun a h => by have := hP a h; omega) (henv.congr hR') (by rw [hch]; omega) hnd
    rw [hch] at yh
    exact try_body_aux yb (O := Own (base fr) e p (1 + cb.length + 2 + ch.length)) (K := P)
      (Rref := R) rfl h0 t0 t1 hOb (fun _ h => Or.inr h) hPd EqOn.refl
      (fun R' hR' => Yields.steps_left
        (c' := .run (p + 1 + cb.length + 2) (.v ee.toV :: S) F false none R' fr o 0)
        (.head (c' := .run p (.v v :: S) F true (some (.plain ee)) R' fr o 0) (by simp [step])
          (Steps.one (by simp [step, h0])))
        EqOff.refl ((yh R' hR').mono hOh (fun a h => Or.inr (Or.inl h)) (Nat.le_refl _)))

end Gojq.MiniVM

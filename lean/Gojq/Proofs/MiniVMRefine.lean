/-
  `compile_yields` (C01.3) — the code emitted for ANY query of the fragment, placed anywhere in
  the code of a well laid-out program and started on ANY stack, pending forks, registers and
  call frames that realise the query's closure environment (`EnvRel`), `Yields` exactly the
  outputs `eval` prescribes and then fails into the pending forks carrying `eval`'s error, if
  any.  Induction on the fuel of `eval`, then on the query.  Port of the kernel-checked
  prototype (proto-vm-refinement), extended to the instruction shapes of the real compiler:
  the call site saves its input in a register, the function prologue `store; store; load`
  puts the closure into REGISTER 1 of the new frame, lexical lookup by scope id, `opscope`'s
  outerindex computation, and the read-only register set `P`.  Core Lean only.
-/
import Gojq.Proofs.MiniVMCompile
namespace Gojq.MiniVM
variable [IterMsg]
set_option linter.unusedSectionVars false

theorem eval_pipe_nd_left {defs n g ρ a b v} (h : ND (eval defs (n+1) g ρ (.pipe a b) v).stop) :
    ND (eval defs n g ρ a v).stop := by
  simp only [eval] at h
  generalize eval defs n g ρ a v = ra at h
  rcases ra with ⟨oa, sa⟩
  cases sa <;> simp_all [ND]

theorem eval_pipe_of_nd {defs n g ρ a b v} (h : ND (eval defs n g ρ a v).stop) :
    eval defs (n+1) g ρ (.pipe a b) v =
      Res.bindL (eval defs n g ρ b) (eval defs n g ρ a v).outs (eval defs n g ρ a v).stop := by
  simp only [eval]
  generalize eval defs n g ρ a v = ra at h
  rcases ra with ⟨oa, sa⟩
  cases sa <;> simp_all [ND]

theorem compile_yields {code defs entry nf} (hfun : FuncsOK code defs entry nf) :
    ∀ (n : Nat) (q : Q) (g : Option Name) (e p : Nat), e ≤ p → Seg code p (compile entry g e p q) → q.Closed nf →
    ∀ ρ v S F R fr o cp (P : Nat → Prop), TopIs fr e → scopeOf entry g ≤ e → (q.HasParam → ρ ≠ .none) →
      (∀ a, P a → a < base fr + (p - e)) →
      EnvRel code entry nf P R fr (fr.length - 1) ρ g →
      base fr + (p + (compile entry g e p q).length - e) ≤ o → ND (eval defs n g ρ q v).stop →
      Yields code (Own (base fr) e p (compile entry g e p q).length) P o fr F (p + (compile entry g e p q).length) S
        (.run p (.v v :: S) F false none R fr o cp) (eval defs n g ρ q v).outs (eval defs n g ρ q v).stop.toErr := by
  intro n
  induction n with
  | zero => intro q g e p _ _ _ ρ v S F R fr o cp P _ _ _ _ _ _ hnd; simp [eval, ND] at hnd
  | succ n ihn =>
    intro q
    cases q with
    | id =>
      intro g e p _ _ _ ρ v S F R fr o cp P _ _ _ _ _ _ _
      simp only [compile, eval, List.length_nil, Nat.add_zero, Stop.toErr]
      exact .out (F' := []) ForksOK.nil (.refl _) (Nat.le_refl _) EqOff.refl (fun _ => ⟨rfl, rfl⟩)
        (fun R2 _ => .done (.refl _) EqOff.refl)
    | const c =>
      intro g e p _ hseg _ ρ v S F R fr o cp P _ _ _ _ _ _ _
      simp only [compile, eval, List.length_singleton, Stop.toErr]
      have h0 := Seg.head hseg
      exact .out (F' := []) (R1 := R) (o1 := o) (cp := cp) ForksOK.nil (Steps.one (by simp [step, h0]))
        (Nat.le_refl _) EqOff.refl (fun _ => ⟨rfl, rfl⟩) (fun R2 _ => .done (.refl _) EqOff.refl)
    | empty =>
      intro g e p _ hseg _ ρ v S F R fr o cp P _ _ _ _ _ _ _
      simp only [compile, eval, Stop.toErr]
      have h0 := Seg.head hseg
      exact .done (Steps.one (by simp [step, h0])) EqOff.refl
    | iter =>
      intro g e p _ hseg _ ρ v S F R fr o cp P _ _ _ _ _ _ _
      have h0 : code[p]? = some .iter := Seg.head hseg
      simp only [compile, List.length_singleton]
      cases hit : iterItems v with
      | none =>
        simp only [eval, hit, Stop.toErr]
        exact .done (Steps.one (by simp [step, h0, hit])) EqOff.refl
      | some xs =>
        simp only [eval, hit, Stop.toErr]
        have key : ∀ (ys : List V) (c : Cfg),
            (∃ R cp, (∃ x, iterItems x = some ys ∧ c = .run p (.v x :: S) F false none R fr o cp) ∨
             (ys ≠ [] ∧ c = .run p (.rest ys :: S) F true none R fr o cp)) →
            Yields code (Own (base fr) e p 1) P o fr F (p+1) S c ys none := by
          intro ys
          induction ys with
          | nil =>
            intro c hc
            obtain ⟨R, cp, ⟨x, hx, rfl⟩ | ⟨h, _⟩⟩ := hc
            · exact .done (Steps.one (by simp [step, h0, hx])) EqOff.refl
            · exact absurd rfl h
          | cons y ys ih =>
            intro c hc
            obtain ⟨R, cp, hc⟩ := hc
            cases ys with
            | nil =>
              refine .out (F' := []) (R1 := R) (o1 := o) (cp := cp) ForksOK.nil ?_ (Nat.le_refl _) ?_
                (fun _ => ⟨rfl, rfl⟩) (fun R2 _ => .done (.refl _) EqOff.refl)
              · rcases hc with ⟨x, hx, rfl⟩ | ⟨_, rfl⟩
                · exact Steps.one (by simp [step, h0, hx])
                · exact Steps.one (by simp [step, h0])
              · rcases hc with ⟨x, hx, rfl⟩ | ⟨_, rfl⟩ <;> exact EqOff.refl
            | cons z zs =>
              have hok : ForksOK code [⟨p, .rest (z :: zs) :: S, fr, o⟩] := .plain (Or.inr h0) .nil
              refine .out (F' := [⟨p, .rest (z :: zs) :: S, fr, o⟩]) (R1 := R) (o1 := o) (cp := cp) hok ?_
                (Nat.le_refl _) ?_ (fun h => by simp at h) ?_
              · rcases hc with ⟨x, hx, rfl⟩ | ⟨_, rfl⟩
                · exact Steps.one (by simp [step, h0, hx])
                · exact Steps.one (by simp [step, h0])
              · rcases hc with ⟨x, hx, rfl⟩ | ⟨_, rfl⟩ <;> exact EqOff.refl
              · intro R2 _
                refine Yields.steps_left
                  (Steps.one (b := .run p (.rest (z :: zs) :: S) F true none R2 fr o 0) (by simp [step])) EqOff.refl ?_
                exact ih _ ⟨R2, 0, Or.inr ⟨by simp, rfl⟩⟩
        exact key xs _ ⟨R, cp, Or.inl ⟨v, hit, rfl⟩⟩
    | pipe a b =>
      intro g e p hep hseg hcl ρ v S F R fr o cp P htop hge hpar hP henv hoff hnd
      simp only [compile] at hseg hoff ⊢
      simp only [Q.Closed] at hcl
      simp only [Q.HasParam] at hpar
      have hsa := Seg.append_left hseg
      have hsb := Seg.append_right hseg
      have hnda : ND (eval defs n g ρ a v).stop := eval_pipe_nd_left hnd
      rw [eval_pipe_of_nd hnda] at hnd ⊢
      simp only [List.length_append] at hoff ⊢
      have ya := ihn a g e p hep hsa hcl.1 ρ v S F R fr o cp P htop hge (fun h => hpar (Or.inl h)) hP henv (by omega) hnda
      have := Yields.bind (f := eval defs n g ρ b) (R0 := R)
        (O := Own (base fr) e p ((compile entry g e p a).length + (compile entry g e (p + (compile entry g e p a).length) b).length))
        (p' := p + (compile entry g e p a).length + (compile entry g e (p + (compile entry g e p a).length) b).length)
        (by intro i h; obtain ⟨j, h1, h2, h3⟩ := h; exact ⟨j, by omega, by omega, h3⟩)
        (by intro i h; obtain ⟨j, h1, h2, h3⟩ := h; exact ⟨j, by omega, by omega, h3⟩)
        (by intro i h h'; obtain ⟨j, h1, h2, h3⟩ := h; obtain ⟨k, k1, k2, k3⟩ := h'; omega)
        (by intro i h; obtain ⟨j, h1, h2, h3⟩ := h; omega)
        (by intro i h; have := hP i h; refine ⟨by omega, ?_⟩; intro h'; obtain ⟨j, h1, h2, h3⟩ := h'; omega)
        ya
        (fun x G R' o1 cp ho1 hR' hx => ihn b g e _ (by omega) hsb hcl.2 ρ x S G R' fr o1 cp P htop hge
          (fun h => hpar (Or.inr h)) (fun a h => by have := hP a h; omega) (henv.congr hR') (by omega) hx)
        (eval defs n g ρ a v).stop rfl EqOn.refl hnd
      simpa [Nat.add_assoc] using this
    | comma a b =>
      intro g e p hep hseg hcl ρ v S F R fr o cp P htop hge hpar hP henv hoff hnd
      simp only [compile] at hseg hoff ⊢
      simp only [Q.Closed] at hcl
      simp only [Q.HasParam] at hpar
      generalize hca : compile entry g e (p+1) a = ca at hseg hoff ⊢
      generalize hpb : p + 1 + ca.length + 1 = pb at hseg hoff ⊢
      generalize hcb : compile entry g e pb b = cb at hseg hoff ⊢
      have hfork : code[p]? = some (.fork pb) := by
        have := hseg 0 (by simp); simpa using this
      have hsa : Seg code (p+1) ca := by
        have h1 := Seg.append_left (Seg.append_left hseg)
        have := Seg.append_right (a := [Instr.fork pb]) (b := ca) h1
        simpa using this
      have hjump : code[p + 1 + ca.length]? = some (.jump (pb + cb.length)) := by
        have h1 := Seg.append_left hseg
        have := Seg.append_right (a := [Instr.fork pb] ++ ca) (b := [Instr.jump (pb + cb.length)]) h1
        have := Seg.head this
        have e : p + 1 + ca.length = p + ([Instr.fork pb] ++ ca).length := by simp; omega
        rw [e]; exact this
      have hsb : Seg code pb cb := by
        have := Seg.append_right (a := [Instr.fork pb] ++ ca ++ [Instr.jump (pb + cb.length)]) (b := cb) hseg
        simpa [← hpb, Nat.add_assoc, Nat.add_comm, Nat.add_left_comm] using this
      have hlen : ([Instr.fork pb] ++ ca ++ [Instr.jump (pb + cb.length)] ++ cb).length = 1 + ca.length + 1 + cb.length := by
        simp; omega
      rw [hlen] at hoff ⊢
      have hexit : p + (1 + ca.length + 1 + cb.length) = pb + cb.length := by omega
      rw [hexit]
      let fk : Fork := ⟨p, .v v :: S, fr, o⟩
      have hfk : ForksOK code [fk] := .plain (Or.inl ⟨pb, hfork⟩) .nil
      simp only [eval] at hnd ⊢
      have hnda : ND (eval defs n g ρ a v).stop := by
        generalize eval defs n g ρ a v = ra at hnd
        rcases ra with ⟨oa, sa⟩
        cases sa <;> simp_all [ND]
      have ya := ihn a g e (p+1) (by omega) (hca ▸ hsa) hcl.1 ρ v S (fk :: F) R fr o cp P htop hge
        (fun h => hpar (Or.inl h)) (fun a h => by have := hP a h; omega) henv (by rw [hca]; omega) hnda
      rw [hca] at ya
      have ya' : Yields code (Own (base fr) e (p+1) ca.length) P o fr ([fk] ++ F) (pb + cb.length) S
          (.run (p+1) (.v v :: S) (fk :: F) false none R fr o cp) (eval defs n g ρ a v).outs (eval defs n g ρ a v).stop.toErr :=
        Yields.exit_steps (fun w G R o1 cp => ⟨cp, Steps.one (by simp [step, hjump])⟩) ya
      have start : Steps code (.run p (.v v :: S) F false none R fr o cp) (.run (p+1) (.v v :: S) (fk :: F) false none R fr o cp) :=
        Steps.one (by simp [step, hfork, fk])
      refine Yields.steps_left start EqOff.refl ?_
      have hOa : ∀ i, Own (base fr) e (p+1) ca.length i → Own (base fr) e p (1 + ca.length + 1 + cb.length) i ∨ (o ≤ i ∧ i < o) := by
        intro i h; obtain ⟨j, h1, h2, h3⟩ := h; exact Or.inl ⟨j, by omega, by omega, h3⟩
      have hOb : ∀ i, Own (base fr) e pb cb.length i → Own (base fr) e p (1 + ca.length + 1 + cb.length) i ∨ (o ≤ i ∧ i < o) := by
        intro i h; obtain ⟨j, h1, h2, h3⟩ := h; exact Or.inl ⟨j, by omega, by omega, h3⟩
      have hPP : ∀ a, P a → Own (base fr) e p (1 + ca.length + 1 + cb.length) a ∨ P a ∨ (o ≤ a ∧ a < o) :=
        fun a h => Or.inr (Or.inl h)
      generalize hra : eval defs n g ρ a v = ra at hnd ya' ⊢
      rcases ra with ⟨oa, sa⟩
      cases sa with
      | diverge => simp [ND] at hnd
      | err ee =>
        simp only [Stop.toErr] at ya' ⊢
        exact Yields.rebase_err ya' hfk hOa hPP (Nat.le_refl _)
      | done =>
        simp only [Stop.toErr] at ya' hnd ⊢
        have yb := fun R' (hR' : EqOn P R R') => ihn b g e pb (by omega) (hcb ▸ hsb) hcl.2 ρ v S F R' fr o 0 P htop hge
          (fun h => hpar (Or.inr h)) (fun a h => by have := hP a h; omega) (henv.congr hR') (by rw [hcb]; omega) hnd
        rw [hcb] at yb
        refine Yields.rebase (K := P) ya' hfk hOa hPP (Nat.le_refl _) hPP ?_ (fun h => by simp at h) ?_
        · intro a h hw
          have := hP a h
          rcases hw with hw | hw
          · obtain ⟨j, j1, j2, j3⟩ := hw; omega
          · omega
        intro R' hR'
        refine Yields.steps_left (c' := .run pb (.v v :: S) F false none R' fr o 0) ?_ EqOff.refl
          ((yb R' (by simpa using hR')).mono hOb hPP (Nat.le_refl _))
        refine .head (c' := .run p (.v v :: S) F true none R' fr o 0) (by simp [step, fk]) ?_
        exact Steps.one (by simp [step, hfork])
    | arr q =>
      intro g e p hep hseg hcl ρ v S F R fr o cp P htop hge hpar hP henv hoff hnd
      simp only [compile] at hseg hoff ⊢
      simp only [Q.Closed] at hcl
      simp only [Q.HasParam] at hpar
      obtain ⟨ft, hres, hbase, _, _⟩ := htop.resolve
      generalize hcq : compile entry g e (p+3) q = cq at hseg hoff ⊢
      have h0 : code[p]? = some (.push (.arr [])) := by have := hseg 0 (by simp); simpa using this
      have h1 : code[p+1]? = some (.store e (p - e)) := by have := hseg 1 (by simp); simpa using this
      have h2 : code[p+2]? = some (.fork (p + 3 + cq.length + 2)) := by have := hseg 2 (by simp); simpa using this
      have hsq : Seg code (p+3) cq := by
        have := Seg.append_right (a := [Instr.push (.arr []), .store e (p - e), .fork (p + 3 + cq.length + 2)]) (b := cq) (Seg.append_left hseg)
        simpa using this
      have htail := Seg.append_right (a := [Instr.push (.arr []), .store e (p - e), .fork (p + 3 + cq.length + 2)] ++ cq) hseg
      have hpe : p + ([Instr.push (.arr []), .store e (p - e), .fork (p + 3 + cq.length + 2)] ++ cq).length = p + 3 + cq.length := by
        simp; omega
      rw [hpe] at htail
      have t0 : code[p + 3 + cq.length]? = some (.append e (p - e)) := by have := htail 0 (by simp); simpa using this
      have t1 : code[p + 3 + cq.length + 1]? = some .backtrack := by have := htail 1 (by simp); simpa using this
      have t2 : code[p + 3 + cq.length + 2]? = some .pop := by have := htail 2 (by simp); simpa using this
      have t3 : code[p + 3 + cq.length + 3]? = some (.load e (p - e)) := by have := htail 3 (by simp); simpa using this
      have hlen : ([Instr.push (.arr []), .store e (p - e), .fork (p + 3 + cq.length + 2)] ++ cq ++ [Instr.append e (p - e), .backtrack, .pop, .load e (p - e)]).length = 3 + cq.length + 4 := by
        simp; omega
      rw [hlen] at hoff ⊢
      let fk : Fork := ⟨p+2, .v v :: S, fr, o⟩
      let r := ft.base + (p - e)
      let R0 := R.set r (.v (.arr []))
      have hrP : ¬ P r := by intro h; have := hP _ h; simp only [r] at this; omega
      have hRR0 : EqOn P R R0 := by
        intro a ha; simp only [R0, Regs.set]; split
        · rename_i h; subst h; exact absurd ha hrP
        · rfl
      have start : Steps code (.run p (.v v :: S) F false none R fr o cp) (.run (p+3) (.v v :: S) (fk :: F) false none R0 fr o cp) := by
        refine .head (c' := .run (p+1) (.v (.arr []) :: .v v :: S) F false none R fr o cp) (by simp [step, h0]) ?_
        refine .head (c' := .run (p+2) (.v v :: S) F false none R0 fr o cp) (by simp [step, h1, hres, R0, r]) ?_
        exact Steps.one (by simp [step, h2, fk])
      simp only [eval] at hnd ⊢
      have hndq : ND (eval defs n g ρ q v).stop := by
        generalize eval defs n g ρ q v = rq at hnd
        rcases rq with ⟨oq, sq⟩
        cases sq <;> simp_all [ND]
      have yq := ihn q g e (p+3) (by omega) (hcq ▸ hsq) hcl ρ v S (fk :: F) R0 fr o cp P htop hge hpar
        (fun a h => by have := hP a h; omega) (henv.congr hRR0) (by rw [hcq]; omega) hndq
      rw [hcq] at yq
      have hnot : ¬ Own (base fr) e (p+3) cq.length r := by
        intro h; obtain ⟨j, j1, j2, j3⟩ := h; simp only [r] at j3; omega
      have hrlt : r < o := by simp only [r]; omega
      obtain ⟨R', hs, hacc, hfr⟩ := collect hres hnot hrP hrlt t0 t1 yq [] (by simp [R0, Regs.set, r])
      have hfr' : EqOff (Wr (Own (base fr) e p (3 + cq.length + 4)) o) R R' := by
        intro i hi
        have hne : i ≠ r := by
          intro h; apply hi; left; exact ⟨p, by omega, by omega, by simp [h, r, hbase]⟩
        have a : ¬ (Wr (Own (base fr) e (p+3) cq.length) o i ∨ i = r) := by
          intro h; rcases h with (h | h) | h
          · apply hi; left; obtain ⟨j, j1, j2, j3⟩ := h; exact ⟨j, by omega, by omega, j3⟩
          · exact hi (Or.inr h)
          · exact hne h
        rw [← hfr i a]
        simp [R0, Regs.set, hne]
      generalize hrq : eval defs n g ρ q v = rq at hnd hs hacc ⊢
      rcases rq with ⟨oq, sq⟩
      cases sq with
      | diverge => simp [ND] at hnd
      | err ee =>
        simp only [Stop.toErr] at hs ⊢
        refine .done (start.trans (hs.trans ?_)) hfr'
        refine .head (c' := .run (p+2) (.v v :: S) F true (some (.plain ee)) R' fr o 0) (by simp [step, fk]) ?_
        exact Steps.one (by simp [step, h2])
      | done =>
        simp only [Stop.toErr] at hs hacc ⊢
        refine .out (F' := []) (R1 := R') (o1 := o) (cp := 0) ForksOK.nil ?_ (Nat.le_refl _) hfr' (fun _ => ⟨rfl, rfl⟩)
          (fun R2 _ => .done (.refl _) EqOff.refl)
        refine start.trans (hs.trans ?_)
        refine .head (c' := .run (p+2) (.v v :: S) F true none R' fr o 0) (by simp [step, fk]) ?_
        refine .head (c' := .run (p + 3 + cq.length + 2) (.v v :: S) F false none R' fr o 0) (by simp [step, h2]) ?_
        refine .head (c' := .run (p + 3 + cq.length + 3) S F false none R' fr o 0) (by simp [step, t2]) ?_
        have : p + (3 + cq.length + 4) = p + 3 + cq.length + 3 + 1 := by omega
        rw [this]
        refine Steps.one ?_
        have hacc' : R' (ft.base + (p - e)) = .v (.arr oq) := by simpa using hacc
        simp [step, t3, hres, hacc']
    | param =>
      intro g e p hep hseg _ ρ v S F R fr o cp P htop hge hpar hP henv hoff hnd
      simp only [compile] at hseg hoff ⊢
      have h0 : code[p]? = some (.load (scopeOf entry g) 1) := by have := hseg 0 (by simp); simpa using this
      have h1 : code[p+1]? = some .callpc := by have := hseg 1 (by simp); simpa using this
      simp only [List.length_cons, List.length_nil]
      cases ρ with
      | none => exact absurd rfl (hpar (by simp [Q.HasParam]))
      | mk h q' ρ' =>
        obtain ⟨f, dg, pcL, d', fd, hr, hp, _, hdd, hfd, hfid, hl, hcl', hpar', hrec⟩ := EnvRel.inv_mk henv
        simp only [eval] at hnd ⊢
        obtain ⟨l0, l1, l2, l3⟩ := hl
        let lq := (compile entry h pcL (pcL+1) q').length
        let lam : Frame := ⟨pcL, p+1, o, F.length, some d'⟩
        have hdg := resolve_lt _ _ _ _ _ hr
        have hfne : fd.id ≠ pcL := by omega
        have start : Steps code (.run p (.v v :: S) F false none R fr o cp)
            (.run (pcL + 1) (.v v :: S) F false none R (lam :: fr) (o + (lq + 1)) (p+1, some d')) := by
          refine .head (c' := .run (p+1) (.clo pcL d' :: .v v :: S) F false none R fr o cp)
            (by simp [step, h0, hr, hp]) ?_
          refine .head (c' := .run pcL (.v v :: S) F false none R fr o (p+1, some d')) (by simp [step, h1]) ?_
          refine Steps.one ?_
          rw [step_scope l0 rfl hfd, if_neg hfne]
        have henv' : EnvRel code entry nf P R (lam :: fr) ((lam :: fr).length - 1) ρ' h := by
          have := hrec.lam lam (by omega) (by simp only [lam]; omega) rfl
          simpa using this
        have yb := ihn q' h pcL (pcL+1) (by omega) l1 hcl' ρ' v S F R (lam :: fr) (o + (lq + 1)) (p+1, some d') P
          ⟨lam, fr, rfl, rfl⟩ (by omega) hpar' (fun a ha => by have := hP a ha; simp only [lam, base]; omega) henv'
          (by simp only [lam, base, lq]; omega) hnd
        have yb' : Yields code (Own o pcL (pcL + 1) lq) P (o + (lq + 1)) (lam :: fr) F (pcL + 1 + lq) S
            (.run (pcL + 1) (.v v :: S) F false none R (lam :: fr) (o + (lq + 1)) (p+1, some d'))
            (eval defs n h ρ' q' v).outs (eval defs n h ρ' q' v).stop.toErr := yb
        have yc := call_of_body (o := o) (fm := lam) (n := lq + 1) (Ob := Own o pcL (pcL + 1) lq) (P := P) (P' := P) htop.ne_nil rfl rfl
          (by intro a h; obtain ⟨j, j1, j2, j3⟩ := h; omega) (fun a h => Or.inl h) l2 yb'
        exact Yields.steps_left start EqOff.refl (yc.mono (fun _ h => h.elim) (fun a h => Or.inr (Or.inl h)) (Nat.le_refl _))
    | call1 f a =>
      intro g e p hep hseg hcl ρ v S F R fr o cp P htop hge hpar hP henv hoff hnd
      simp only [compile] at hseg hoff ⊢
      simp only [Q.Closed] at hcl
      simp only [Q.HasParam] at hpar
      obtain ⟨hf, hcla⟩ := hcl
      obtain ⟨ft, hres, hbase, hftop, hftid⟩ := htop.resolve
      have hne := htop.ne_nil
      have htd := topDepth_of_ne_nil hne
      generalize hca : compile entry g (p+2) (p+3) a = ca at hseg hoff ⊢
      have c0 : code[p]? = some (.store e (p - e)) := by have := hseg 0 (by simp); simpa using this
      have c1 : code[p+1]? = some (.jump (p + 4 + ca.length)) := by have := hseg 1 (by simp); simpa using this
      have c2 : code[p+2]? = some (.scope (p+2) (ca.length + 1) 0) := by have := hseg 2 (by simp); simpa using this
      have hsa : Seg code (p+3) ca := by
        have := Seg.append_right (a := [Instr.store e (p - e), .jump (p + 4 + ca.length), .scope (p+2) (ca.length + 1) 0]) (b := ca) (Seg.append_left hseg)
        simpa using this
      have htail := Seg.append_right (a := [Instr.store e (p - e), .jump (p + 4 + ca.length), .scope (p+2) (ca.length + 1) 0] ++ ca) hseg
      have hpe : p + ([Instr.store e (p - e), .jump (p + 4 + ca.length), .scope (p+2) (ca.length + 1) 0] ++ ca).length = p + 3 + ca.length := by
        simp; omega
      rw [hpe] at htail
      have t0 : code[p + 3 + ca.length]? = some .ret := by have := htail 0 (by simp); simpa using this
      have t1 : code[p + 3 + ca.length + 1]? = some (.pushpc (p+2)) := by have := htail 1 (by simp); simpa using this
      have t2 : code[p + 3 + ca.length + 2]? = some (.load e (p - e)) := by have := htail 2 (by simp); simpa using this
      have t3 : code[p + 3 + ca.length + 3]? = some (.call (entry f)) := by have := htail 3 (by simp); simpa using this
      have hlen : ([Instr.store e (p - e), .jump (p + 4 + ca.length), .scope (p+2) (ca.length + 1) 0] ++ ca ++
          [Instr.ret, .pushpc (p+2), .load e (p - e), .call (entry f)]).length = 3 + ca.length + 4 := by
        simp; omega
      rw [hlen] at hoff ⊢
      have hlam : LamAt code entry (p+2) g a := by
        refine ⟨?_, ?_, ?_, by omega⟩
        · rw [hca]; exact c2
        · rw [hca]; exact hsa
        · rw [hca]; have : p + 2 + 1 + ca.length = p + 3 + ca.length := by omega
          rw [this]; exact t0
      simp only [eval] at hnd ⊢
      let lb := (compile entry (some f) (entry f) (entry f + 4) (defs f)).length
      let r := ft.base + (p - e)
      let R0 := R.set r (.v v)
      let R1 := R0.set o (.v v)
      let R2 := R1.set (o + 1) (.clo (p+2) (fr.length - 1))
      -- the `outerindex` the real VM computes for the callee's frame (never consulted in this fragment)
      let oo : Option Nat := if ft.id = entry f then ft.outer else some (fr.length - 1)
      let cal : Frame := ⟨entry f, p + 3 + ca.length + 3, o, F.length, oo⟩
      have hlenpos : 0 < fr.length := by cases fr <;> simp_all
      have hrc : resolve (entry f) (cal :: fr) ((cal :: fr).length - 1) = some (cal, fr.length) := by simp [resolve, cal]
      have start : Steps code (.run p (.v v :: S) F false none R fr o cp)
          (.run (entry f + 4) (.v v :: S) F false none R2 (cal :: fr) (o + (lb + 4)) (p + 3 + ca.length + 3, some (fr.length - 1))) := by
        refine .head (c' := .run (p+1) S F false none R0 fr o cp) (by simp [step, c0, hres, R0, r]) ?_
        refine .head (c' := .run (p + 4 + ca.length) S F false none R0 fr o cp) (by simp [step, c1]) ?_
        have e4 : p + 4 + ca.length = p + 3 + ca.length + 1 := by omega
        rw [e4]
        refine .head (c' := .run (p + 3 + ca.length + 2) (.clo (p+2) (fr.length - 1) :: S) F false none R0 fr o cp)
          (by simp [step, t1, htd]) ?_
        refine .head (c' := .run (p + 3 + ca.length + 3) (.v v :: .clo (p+2) (fr.length - 1) :: S) F false none R0 fr o cp)
          (by simp [step, t2, hres, R0, r, Regs.set]) ?_
        refine .head (c' := .run (entry f) (.v v :: .clo (p+2) (fr.length - 1) :: S) F false none R0 fr o
          (p + 3 + ca.length + 3, some (fr.length - 1))) (by simp [step, t3, htd]) ?_
        refine .head (c' := .run (entry f + 1) (.v v :: .clo (p+2) (fr.length - 1) :: S) F false none R0 (cal :: fr) (o + (lb + 4))
          (p + 3 + ca.length + 3, some (fr.length - 1))) (by rw [step_scope (hfun.scope f hf) rfl hftop]) ?_
        refine .head (c' := .run (entry f + 2) (.clo (p+2) (fr.length - 1) :: S) F false none R1 (cal :: fr) (o + (lb + 4))
          (p + 3 + ca.length + 3, some (fr.length - 1))) (by rw [step_store (hfun.st0 f hf) hrc]; rfl) ?_
        refine .head (c' := .run (entry f + 3) S F false none R2 (cal :: fr) (o + (lb + 4))
          (p + 3 + ca.length + 3, some (fr.length - 1))) (by rw [step_store (hfun.st1 f hf) hrc]) ?_
        refine Steps.one ?_
        rw [step_load (hfun.ld0 f hf) hrc]
        simp [cal, R2, R1, Regs.set]
      let P' : Nat → Prop := fun x => P x ∨ x = o + 1
      have hRR2 : EqOn P R R2 := by
        intro x hx
        have := hP x hx
        have h1 : x ≠ r := by simp only [r]; omega
        have h2 : x ≠ o := by omega
        have h3 : x ≠ o + 1 := by omega
        simp [R2, R1, R0, Regs.set, h1, h2, h3]
      have henv' : EnvRel code entry nf P' R2 (cal :: fr) ((cal :: fr).length - 1) (.mk g a ρ) (some f) := by
        have hres' : resolve (scopeOf entry (some f)) (cal :: fr) fr.length = some (cal, fr.length) := by
          simp [resolve, cal, scopeOf]
        have hfa : frameAt (cal :: fr) (fr.length - 1) = some ft := by
          rw [frameAt_push _ _ _ (by omega)]; exact hftop
        have := EnvRel.mk (code := code) (entry := entry) (nf := nf) (P := P') (R := R2) hres'
          (by simp [cal, R2, Regs.set]) (Or.inr (by simp [cal])) (by omega)
          hfa (by omega) hlam hcla hpar (((henv.congr hRR2).monoP (fun x hx => Or.inl hx)).push cal (by omega))
        simpa using this
      have yb := ihn (defs f) (some f) (entry f) (entry f + 4) (by omega) (hfun.body f hf) (hfun.closed f hf) (.mk g a ρ) v S F R2
        (cal :: fr) (o + (lb + 4)) (p + 3 + ca.length + 3, some (fr.length - 1)) P'
        ⟨cal, fr, rfl, rfl⟩ (Nat.le_refl _) (fun _ => by simp)
        (fun x hx => by
          simp only [cal, base]
          rcases hx with hx | hx
          · have := hP x hx; omega
          · omega)
        henv' (by simp only [cal, base, lb]; omega) hnd
      have yb' : Yields code (Own o (entry f) (entry f + 4) lb) P' (o + (lb + 4)) (cal :: fr) F (entry f + 4 + lb) S
          (.run (entry f + 4) (.v v :: S) F false none R2 (cal :: fr) (o + (lb + 4)) (p + 3 + ca.length + 3, some (fr.length - 1)))
          (eval defs n (some f) (.mk g a ρ) (defs f) v).outs (eval defs n (some f) (.mk g a ρ) (defs f) v).stop.toErr := yb
      have yc := call_of_body (o := o) (fm := cal) (n := lb + 4) (Ob := Own o (entry f) (entry f + 4) lb) (P := P) (P' := P') hne rfl rfl
        (by intro a h; obtain ⟨j, j1, j2, j3⟩ := h; omega)
        (by intro x hx; rcases hx with hx | hx
            · exact Or.inl hx
            · exact Or.inr (by omega))
        (hfun.ret f hf) yb'
      have hexit : cal.ret + 1 = p + (3 + ca.length + 4) := by simp only [cal]; omega
      rw [hexit] at yc
      refine Yields.steps_left start ?_ (yc.mono (fun _ h => h.elim) (fun a h => Or.inr (Or.inl h)) (Nat.le_refl _))
      intro i hi
      have hne1 : i ≠ r := by
        intro h; apply hi; left; exact ⟨p, by omega, by omega, by simp [h, r, hbase]⟩
      have hne2 : i ≠ o := by
        intro h; apply hi; right; omega
      have hne3 : i ≠ o + 1 := by
        intro h; apply hi; right; omega
      simp [R2, R1, R0, Regs.set, hne1, hne2, hne3]
    | error =>
      intro g e p _ hseg _ ρ v S F R fr o cp P _ _ _ _ _ _ _
      simp only [compile, eval, Stop.toErr]
      have h0 := Seg.head hseg
      exact .done (e := some (.user v)) (Steps.one (by simp [step, h0])) EqOff.refl
    | try_ b =>
      intro g e p hep hseg hcl ρ v S F R fr o cp P htop hge hpar hP henv hoff hnd
      simp only [compile] at hseg hoff ⊢
      simp only [Q.Closed] at hcl
      simp only [Q.HasParam] at hpar
      generalize hcb : compile entry g e (p+1) b = cb at hseg hoff ⊢
      have h0 : code[p]? = some (.forktrybegin (p + 1 + cb.length + 2)) := by have := hseg 0 (by simp); simpa using this
      have hsb : Seg code (p+1) cb := by
        have := Seg.append_right (a := [Instr.forktrybegin (p + 1 + cb.length + 2)]) (b := cb) (Seg.append_left hseg)
        simpa using this
      have htail := Seg.append_right (a := [Instr.forktrybegin (p + 1 + cb.length + 2)] ++ cb) hseg
      have hpe : p + ([Instr.forktrybegin (p + 1 + cb.length + 2)] ++ cb).length = p + 1 + cb.length := by simp; omega
      rw [hpe] at htail
      have t0 : code[p + 1 + cb.length]? = some .forktryend := by have := htail 0 (by simp); simpa using this
      have t1 : code[p + 1 + cb.length + 1]? = some (.jump (p + 1 + cb.length + 3)) := by have := htail 1 (by simp); simpa using this
      have t2 : code[p + 1 + cb.length + 2]? = some .backtrack := by have := htail 2 (by simp); simpa using this
      have hlen : ([Instr.forktrybegin (p + 1 + cb.length + 2)] ++ cb ++ [Instr.forktryend, .jump (p + 1 + cb.length + 3), .backtrack]).length = 1 + cb.length + 3 := by
        simp; omega
      rw [hlen] at hoff ⊢
      have hexit : p + (1 + cb.length + 3) = p + 1 + cb.length + 3 := by omega
      rw [hexit]
      simp only [eval] at hnd ⊢
      have hndb : ND (eval defs n g ρ b v).stop := by
        generalize eval defs n g ρ b v = rb at hnd
        rcases rb with ⟨ob, sb⟩
        cases sb <;> simp_all [ND]
      have yb := ihn b g e (p+1) (by omega) (hcb ▸ hsb) hcl ρ v S (⟨p, .v v :: S, fr, o⟩ :: F) R fr o cp P htop hge hpar
        (fun a h => by have := hP a h; omega) henv (by rw [hcb]; omega) hndb
      rw [hcb] at yb
      have start : Steps code (.run p (.v v :: S) F false none R fr o cp)
          (.run (p+1) (.v v :: S) (⟨p, .v v :: S, fr, o⟩ :: F) false none R fr o cp) := Steps.one (by simp [step, h0])
      refine Yields.steps_left start EqOff.refl ?_
      have hOb : ∀ a, Own (base fr) e (p+1) cb.length a → Own (base fr) e p (1 + cb.length + 3) a := by
        intro a h; obtain ⟨j, h1, h2, h3⟩ := h; exact ⟨j, by omega, by omega, h3⟩
      generalize hrb : eval defs n g ρ b v = rb at hnd yb ⊢
      rcases rb with ⟨ob, sb⟩
      cases sb with
      | diverge => simp [ND] at hnd
      | done =>
        simp only [Stop.toErr] at yb ⊢
        have := try_body_aux yb (O := Own (base fr) e p (1 + cb.length + 3)) (K := fun _ => False) (out2 := []) (e := none)
          (Rref := R) rfl h0 t0 t1 hOb (fun _ h => h.elim) (fun _ h => h.elim) (fun _ h => h.elim)
          (fun R' _ => .done (e := none)
            (.head (c' := .run p (.v v :: S) F true none R' fr o 0) (by simp [step]) (Steps.one (by simp [step, h0])))
            EqOff.refl)
        simpa using this
      | err ee =>
        simp only [Stop.toErr] at yb ⊢
        have := try_body_aux yb (O := Own (base fr) e p (1 + cb.length + 3)) (K := fun _ => False) (out2 := []) (e := none)
          (Rref := R) rfl h0 t0 t1 hOb (fun _ h => h.elim) (fun _ h => h.elim) (fun _ h => h.elim)
          (fun R' _ => .done (e := none)
            (.head (c' := .run p (.v v :: S) F true (some (.plain ee)) R' fr o 0) (by simp [step])
              (.head (c' := .run (p + 1 + cb.length + 2) (.v ee.toV :: S) F false none R' fr o 0) (by simp [step, h0])
                (Steps.one (by simp [step, t2]))))
            EqOff.refl)
        simpa using this
    | tryCatch b h =>
      intro g e p hep hseg hcl ρ v S F R fr o cp P htop hge hpar hP henv hoff hnd
      simp only [compile] at hseg hoff ⊢
      simp only [Q.Closed] at hcl
      simp only [Q.HasParam] at hpar
      generalize hcb : compile entry g e (p+1) b = cb at hseg hoff ⊢
      generalize hch : compile entry g e (p + 1 + cb.length + 2) h = ch at hseg hoff ⊢
      have h0 : code[p]? = some (.forktrybegin (p + 1 + cb.length + 2)) := by have := hseg 0 (by simp); simpa using this
      have hsb : Seg code (p+1) cb := by
        have := Seg.append_right (a := [Instr.forktrybegin (p + 1 + cb.length + 2)]) (b := cb) (Seg.append_left (Seg.append_left hseg))
        simpa using this
      have hmid := Seg.append_right (a := [Instr.forktrybegin (p + 1 + cb.length + 2)] ++ cb) (Seg.append_left hseg)
      have hpe : p + ([Instr.forktrybegin (p + 1 + cb.length + 2)] ++ cb).length = p + 1 + cb.length := by simp; omega
      rw [hpe] at hmid
      have t0 : code[p + 1 + cb.length]? = some .forktryend := by have := hmid 0 (by simp); simpa using this
      have t1 : code[p + 1 + cb.length + 1]? = some (.jump (p + 1 + cb.length + 2 + ch.length)) := by have := hmid 1 (by simp); simpa using this
      have hsh : Seg code (p + 1 + cb.length + 2) ch := by
        have := Seg.append_right (a := [Instr.forktrybegin (p + 1 + cb.length + 2)] ++ cb ++ [Instr.forktryend, .jump (p + 1 + cb.length + 2 + ch.length)]) (b := ch) hseg
        have e2 : p + ([Instr.forktrybegin (p + 1 + cb.length + 2)] ++ cb ++ [Instr.forktryend, .jump (p + 1 + cb.length + 2 + ch.length)]).length = p + 1 + cb.length + 2 := by
          simp; omega
        rw [e2] at this; exact this
      have hlen : ([Instr.forktrybegin (p + 1 + cb.length + 2)] ++ cb ++ [Instr.forktryend, .jump (p + 1 + cb.length + 2 + ch.length)] ++ ch).length = 1 + cb.length + 2 + ch.length := by
        simp; omega
      rw [hlen] at hoff ⊢
      have hexit : p + (1 + cb.length + 2 + ch.length) = p + 1 + cb.length + 2 + ch.length := by omega
      rw [hexit]
      simp only [eval] at hnd ⊢
      have hndb : ND (eval defs n g ρ b v).stop := by
        generalize eval defs n g ρ b v = rb at hnd
        rcases rb with ⟨ob, sb⟩
        cases sb <;> simp_all [ND]
      have yb := ihn b g e (p+1) (by omega) (hcb ▸ hsb) hcl.1 ρ v S (⟨p, .v v :: S, fr, o⟩ :: F) R fr o cp P htop hge
        (fun hh => hpar (Or.inl hh)) (fun a h => by have := hP a h; omega) henv (by rw [hcb]; omega) hndb
      rw [hcb] at yb
      have start : Steps code (.run p (.v v :: S) F false none R fr o cp)
          (.run (p+1) (.v v :: S) (⟨p, .v v :: S, fr, o⟩ :: F) false none R fr o cp) := Steps.one (by simp [step, h0])
      refine Yields.steps_left start EqOff.refl ?_
      have hOb : ∀ a, Own (base fr) e (p+1) cb.length a → Own (base fr) e p (1 + cb.length + 2 + ch.length) a := by
        intro a h; obtain ⟨j, h1, h2, h3⟩ := h; exact ⟨j, by omega, by omega, h3⟩
      have hOh : ∀ a, Own (base fr) e (p + 1 + cb.length + 2) ch.length a →
          Own (base fr) e p (1 + cb.length + 2 + ch.length) a ∨ (o ≤ a ∧ a < o) := by
        intro a h; obtain ⟨j, h1, h2, h3⟩ := h; exact Or.inl ⟨j, by omega, by omega, h3⟩
      have hPd : ∀ a, P a → ¬ Wr (Own (base fr) e (p+1) cb.length) o a := by
        intro a h hw
        have := hP a h
        rcases hw with hw | hw
        · obtain ⟨j, j1, j2, j3⟩ := hw; omega
        · omega
      generalize hrb : eval defs n g ρ b v = rb at hnd yb ⊢
      rcases rb with ⟨ob, sb⟩
      cases sb with
      | diverge => simp [ND] at hnd
      | done =>
        simp only [Stop.toErr] at yb ⊢
        have := try_body_aux yb (O := Own (base fr) e p (1 + cb.length + 2 + ch.length)) (K := P) (out2 := []) (e := none)
          (Rref := R) rfl h0 t0 t1 hOb (fun _ h => Or.inr h) hPd EqOn.refl
          (fun R' _ => .done (e := none)
            (.head (c' := .run p (.v v :: S) F true none R' fr o 0) (by simp [step]) (Steps.one (by simp [step, h0])))
            EqOff.refl)
        simpa using this
      | err ee =>
        simp only [Stop.toErr] at yb hnd ⊢
        have yh := fun R' (hR' : EqOn P R R') => ihn h g e (p + 1 + cb.length + 2) (by omega) (hch ▸ hsh) hcl.2 ρ ee.toV S F R' fr o 0 P htop hge
          (fun hh => hpar (Or.inr hh)) (fun a h => by have := hP a h; omega) (henv.congr hR') (by rw [hch]; omega) hnd
        rw [hch] at yh
        exact try_body_aux yb (O := Own (base fr) e p (1 + cb.length + 2 + ch.length)) (K := P)
          (Rref := R) rfl h0 t0 t1 hOb (fun _ h => Or.inr h) hPd EqOn.refl
          (fun R' hR' => Yields.steps_left
            (c' := .run (p + 1 + cb.length + 2) (.v ee.toV :: S) F false none R' fr o 0)
            (.head (c' := .run p (.v v :: S) F true (some (.plain ee)) R' fr o 0) (by simp [step])
              (Steps.one (by simp [step, h0])))
            EqOff.refl ((yh R' hR').mono hOh (fun a h => Or.inr (Or.inl h)) (Nat.le_refl _)))

end Gojq.MiniVM

/-
  `compile_yields` (C01.3) — the code emitted for ANY query of the fragment, placed anywhere in
  the code of a well laid-out program and started on ANY stack, pending forks, registers and
  call frames that realise the query's closure environment (`EnvRel`), `Yields` exactly the
  outputs `eval` prescribes and then fails into the pending forks carrying `eval`'s error, if
  any.  Induction on the fuel of `eval`, then on the query.  Port of the kernel-checked
  prototype (proto-vm-refinement), extended to the instruction shapes of the real compiler:
  the call site saves its input in a register, the function prologue `store; store; load`
  puts the closure into REGISTER 1 of the new frame, lexical lookup by scope id, `opscope`'s
  outerindex computation, and the read-only register set `P`.  Core Lean only.
-/
import Gojq.Proofs.MiniVMCompile
namespace Gojq.MiniVM
variable [IterMsg]
set_option linter.unusedSectionVars false


theorem eval_pipe_nd_left {defs n g ρ a b v} (h : ND (eval defs (n+1) g ρ (.pipe a b) v).stop) :
    ND (eval defs n g ρ a v).stop := by
  simp only [eval] at h
  generalize eval defs n g ρ a v = ra at h
  rcases ra with ⟨oa, sa⟩
  cases sa <;> simp_all [ND]

theorem eval_pipe_of_nd {defs n g ρ a b v} (h : ND (eval defs n g ρ a v).stop) :
    eval defs (n+1) g ρ (.pipe a b) v =
      Res.bindL (eval defs n g ρ b) (eval defs n g ρ a v).outs (eval defs n g ρ a v).stop := by
  simp only [eval]
  generalize eval defs n g ρ a v = ra at h
  rcases ra with ⟨oa, sa⟩
  cases sa <;> simp_all [ND]

theorem eval_ite_nd_left {defs n g ρ c a b v} (h : ND (eval defs (n+1) g ρ (.ite c a b) v).stop) :
    ND (eval defs n g ρ c v).stop := by
  simp only [eval] at h
  generalize eval defs n g ρ c v = rc at h
  rcases rc with ⟨oc, sc⟩
  cases sc <;> simp_all [ND]

theorem eval_ite_of_nd {defs n g ρ c a b v} (h : ND (eval defs n g ρ c v).stop) :
    eval defs (n+1) g ρ (.ite c a b) v =
      Res.bindL (fun w => if falsy w then eval defs n g ρ b v else eval defs n g ρ a v)
        (eval defs n g ρ c v).outs (eval defs n g ρ c v).stop := by
  simp only [eval]
  generalize eval defs n g ρ c v = rc at h
  rcases rc with ⟨oc, sc⟩
  cases sc <;> simp_all [ND]

/-- the statement of `compile_yields` for one query `q` at fuel `n` -/
def CYq (code : Code) (defs : Name → Q) (entry : Name → Nat) (nf n : Nat) (q : Q) : Prop :=
  ∀ (g : Ctx) (e p : Nat), e ≤ p → Seg code p (compile entry g e p q) → q.Closed nf (g.vars.map (·.1)) →
    ∀ (ρ : Env) v S F R fr o cp (P : Nat → Prop), TopIs fr e → scopeOf entry g ≤ e → (q.HasParam → ρ.clo ≠ .none) →
      (∀ a, P a → a < base fr + (p - e)) →
      EnvOK code entry nf P R fr ρ g →
      base fr + (p + (compile entry g e p q).length - e) ≤ o → ND (eval defs n g ρ q v).stop →
      Yields code (Own (base fr) e p (compile entry g e p q).length) P o fr F (p + (compile entry g e p q).length) S
        (.run p (.v v :: S) F false none R fr o cp) (eval defs n g ρ q v).outs (eval defs n g ρ q v).stop.toErr

/-- … for every query: the induction hypothesis on the fuel -/
def CY (code : Code) (defs : Name → Q) (entry : Name → Nat) (nf n : Nat) : Prop :=
  ∀ q, CYq code defs entry nf n q

theorem cy_id {code defs entry nf n} (hfun : FuncsOK code defs entry nf) (ihn : CY code defs entry nf n)  :
    CYq code defs entry nf (n+1) .id := by
  intro g e p _ _ _ ρ v S F R fr o cp P _ _ _ _ _ _ _
  simp only [compile, eval, List.length_nil, Nat.add_zero, Stop.toErr]
  exact .out (F' := []) ForksOK.nil (.refl _) (Nat.le_refl _) EqOff.refl (fun _ => ⟨rfl, rfl⟩)
    (fun R2 _ => .done (.refl _) EqOff.refl)

theorem cy_const {code defs entry nf n} (hfun : FuncsOK code defs entry nf) (ihn : CY code defs entry nf n) (c : V) :
    CYq code defs entry nf (n+1) (.const c) := by
  intro g e p _ hseg _ ρ v S F R fr o cp P _ _ _ _ _ _ _
  simp only [compile, eval, List.length_singleton, Stop.toErr]
  have h0 := Seg.head hseg
  exact .out (F' := []) (R1 := R) (o1 := o) (cp := cp) ForksOK.nil (Steps.one (by simp [step, h0]))
    (Nat.le_refl _) EqOff.refl (fun _ => ⟨rfl, rfl⟩) (fun R2 _ => .done (.refl _) EqOff.refl)

theorem cy_empty {code defs entry nf n} (hfun : FuncsOK code defs entry nf) (ihn : CY code defs entry nf n)  :
    CYq code defs entry nf (n+1) .empty := by
  intro g e p _ hseg _ ρ v S F R fr o cp P _ _ _ _ _ _ _
  simp only [compile, eval, Stop.toErr]
  have h0 := Seg.head hseg
  exact .done (Steps.one (by simp [step, h0])) EqOff.refl

theorem cy_iter {code defs entry nf n} (hfun : FuncsOK code defs entry nf) (ihn : CY code defs entry nf n)  :
    CYq code defs entry nf (n+1) .iter := by
  intro g e p _ hseg _ ρ v S F R fr o cp P _ _ _ _ _ _ _
  have h0 : code[p]? = some .iter := Seg.head hseg
  simp only [compile, List.length_singleton]
  cases hit : iterItems v with
  | none =>
    simp only [eval, hit, Stop.toErr]
    exact .done (Steps.one (by simp [step, h0, hit])) EqOff.refl
  | some xs =>
    simp only [eval, hit, Stop.toErr]
    have key : ∀ (ys : List V) (c : Cfg),
        (∃ R cp, (∃ x, iterItems x = some ys ∧ c = .run p (.v x :: S) F false none R fr o cp) ∨
         (ys ≠ [] ∧ c = .run p (.rest ys :: S) F true none R fr o cp)) →
        Yields code (Own (base fr) e p 1) P o fr F (p+1) S c ys none := by
      intro ys
      induction ys with
      | nil =>
        intro c hc
        obtain ⟨R, cp, ⟨x, hx, rfl⟩ | ⟨h, _⟩⟩ := hc
        · exact .done (Steps.one (by simp [step, h0, hx])) EqOff.refl
        · exact absurd rfl h
      | cons y ys ih =>
        intro c hc
        obtain ⟨R, cp, hc⟩ := hc
        cases ys with
        | nil =>
          refine .out (F' := []) (R1 := R) (o1 := o) (cp := cp) ForksOK.nil ?_ (Nat.le_refl _) ?_
            (fun _ => ⟨rfl, rfl⟩) (fun R2 _ => .done (.refl _) EqOff.refl)
          · rcases hc with ⟨x, hx, rfl⟩ | ⟨_, rfl⟩
            · exact Steps.one (by simp [step, h0, hx])
            · exact Steps.one (by simp [step, h0])
          · rcases hc with ⟨x, hx, rfl⟩ | ⟨_, rfl⟩ <;> exact EqOff.refl
        | cons z zs =>
          have hok : ForksOK code [⟨p, .rest (z :: zs) :: S, fr, o⟩] := .plain (Or.inr h0) .nil
          refine .out (F' := [⟨p, .rest (z :: zs) :: S, fr, o⟩]) (R1 := R) (o1 := o) (cp := cp) hok ?_
            (Nat.le_refl _) ?_ (fun h => by simp at h) ?_
          · rcases hc with ⟨x, hx, rfl⟩ | ⟨_, rfl⟩
            · exact Steps.one (by simp [step, h0, hx])
            · exact Steps.one (by simp [step, h0])
          · rcases hc with ⟨x, hx, rfl⟩ | ⟨_, rfl⟩ <;> exact EqOff.refl
          · intro R2 _
            refine Yields.steps_left
              (Steps.one (b := .run p (.rest (z :: zs) :: S) F true none R2 fr o 0) (by simp [step])) EqOff.refl ?_
            exact ih _ ⟨R2, 0, Or.inr ⟨by simp, rfl⟩⟩
    exact key xs _ ⟨R, cp, Or.inl ⟨v, hit, rfl⟩⟩

theorem cy_pipe {code defs entry nf n} (hfun : FuncsOK code defs entry nf) (ihn : CY code defs entry nf n) (a : Q) (b : Q) :
    CYq code defs entry nf (n+1) (.pipe a b) := by
  intro g e p hep hseg hcl ρ v S F R fr o cp P htop hge hpar hP henv hoff hnd
  simp only [compile] at hseg hoff ⊢
  simp only [Q.Closed] at hcl
  simp only [Q.HasParam] at hpar
  have hsa := Seg.append_left hseg
  have hsb := Seg.append_right hseg
  have hnda : ND (eval defs n g ρ a v).stop := eval_pipe_nd_left hnd
  rw [eval_pipe_of_nd hnda] at hnd ⊢
  simp only [List.length_append] at hoff ⊢
  have ya := ihn a g e p hep hsa hcl.1 ρ v S F R fr o cp P htop hge (fun h => hpar (Or.inl h)) hP henv (by omega) hnda
  have := Yields.bind (f := eval defs n g ρ b) (R0 := R)
    (O := Own (base fr) e p ((compile entry g e p a).length + (compile entry g e (p + (compile entry g e p a).length) b).length))
    (p' := p + (compile entry g e p a).length + (compile entry g e (p + (compile entry g e p a).length) b).length)
    (by intro i h; obtain ⟨j, h1, h2, h3⟩ := h; exact ⟨j, by omega, by omega, h3⟩)
    (by intro i h; obtain ⟨j, h1, h2, h3⟩ := h; exact ⟨j, by omega, by omega, h3⟩)
    (by intro i h h'; obtain ⟨j, h1, h2, h3⟩ := h; obtain ⟨k, k1, k2, k3⟩ := h'; omega)
    (by intro i h; obtain ⟨j, h1, h2, h3⟩ := h; omega)
    (by intro i h; have := hP i h; refine ⟨by omega, ?_⟩; intro h'; obtain ⟨j, h1, h2, h3⟩ := h'; omega)
    ya
    (fun x G R' o1 cp ho1 hR' hx => ihn b g e _ (by omega) hsb hcl.2 ρ x S G R' fr o1 cp P htop hge
      (fun h => hpar (Or.inr h)) (fun a h => by have := hP a h; omega) (henv.congr hR') (by omega) hx)
    (eval defs n g ρ a v).stop rfl EqOn.refl hnd
  simpa [Nat.add_assoc] using this

theorem cy_comma {code defs entry nf n} (hfun : FuncsOK code defs entry nf) (ihn : CY code defs entry nf n) (a : Q) (b : Q) :
    CYq code defs entry nf (n+1) (.comma a b) := by
  intro g e p hep hseg hcl ρ v S F R fr o cp P htop hge hpar hP henv hoff hnd
  simp only [compile] at hseg hoff ⊢
  simp only [Q.Closed] at hcl
  simp only [Q.HasParam] at hpar
  generalize hca : compile entry g e (p+1) a = ca at hseg hoff ⊢
  generalize hpb : p + 1 + ca.length + 1 = pb at hseg hoff ⊢
  generalize hcb : compile entry g e pb b = cb at hseg hoff ⊢
  have hfork : code[p]? = some (.fork pb) := by
    have := hseg 0 (by simp); simpa using this
  have hsa : Seg code (p+1) ca := by
    have h1 := Seg.append_left (Seg.append_left hseg)
    have := Seg.append_right (a := [Instr.fork pb]) (b := ca) h1
    simpa using this
  have hjump : code[p + 1 + ca.length]? = some (.jump (pb + cb.length)) := by
    have h1 := Seg.append_left hseg
    have := Seg.append_right (a := [Instr.fork pb] ++ ca) (b := [Instr.jump (pb + cb.length)]) h1
    have := Seg.head this
    have e : p + 1 + ca.length = p + ([Instr.fork pb] ++ ca).length := by simp; omega
    rw [e]; exact this
  have hsb : Seg code pb cb := by
    have := Seg.append_right (a := [Instr.fork pb] ++ ca ++ [Instr.jump (pb + cb.length)]) (b := cb) hseg
    simpa [← hpb, Nat.add_assoc, Nat.add_comm, Nat.add_left_comm] using this
  have hlen : ([Instr.fork pb] ++ ca ++ [Instr.jump (pb + cb.length)] ++ cb).length = 1 + ca.length + 1 + cb.length := by
    simp; omega
  rw [hlen] at hoff ⊢
  have hexit : p + (1 + ca.length + 1 + cb.length) = pb + cb.length := by omega
  rw [hexit]
  let fk : Fork := ⟨p, .v v :: S, fr, o⟩
  have hfk : ForksOK code [fk] := .plain (Or.inl ⟨pb, hfork⟩) .nil
  simp only [eval] at hnd ⊢
  have hnda : ND (eval defs n g ρ a v).stop := by
    generalize eval defs n g ρ a v = ra at hnd
    rcases ra with ⟨oa, sa⟩
    cases sa <;> simp_all [ND]
  have ya := ihn a g e (p+1) (by omega) (hca ▸ hsa) hcl.1 ρ v S (fk :: F) R fr o cp P htop hge
    (fun h => hpar (Or.inl h)) (fun a h => by have := hP a h; omega) henv (by rw [hca]; omega) hnda
  rw [hca] at ya
  have ya' : Yields code (Own (base fr) e (p+1) ca.length) P o fr ([fk] ++ F) (pb + cb.length) S
      (.run (p+1) (.v v :: S) (fk :: F) false none R fr o cp) (eval defs n g ρ a v).outs (eval defs n g ρ a v).stop.toErr :=
    Yields.exit_steps (fun w G R o1 cp => ⟨cp, Steps.one (by simp [step, hjump])⟩) ya
  have start : Steps code (.run p (.v v :: S) F false none R fr o cp) (.run (p+1) (.v v :: S) (fk :: F) false none R fr o cp) :=
    Steps.one (by simp [step, hfork, fk])
  refine Yields.steps_left start EqOff.refl ?_
  have hOa : ∀ i, Own (base fr) e (p+1) ca.length i → Own (base fr) e p (1 + ca.length + 1 + cb.length) i ∨ (o ≤ i ∧ i < o) := by
    intro i h; obtain ⟨j, h1, h2, h3⟩ := h; exact Or.inl ⟨j, by omega, by omega, h3⟩
  have hOb : ∀ i, Own (base fr) e pb cb.length i → Own (base fr) e p (1 + ca.length + 1 + cb.length) i ∨ (o ≤ i ∧ i < o) := by
    intro i h; obtain ⟨j, h1, h2, h3⟩ := h; exact Or.inl ⟨j, by omega, by omega, h3⟩
  have hPP : ∀ a, P a → Own (base fr) e p (1 + ca.length + 1 + cb.length) a ∨ P a ∨ (o ≤ a ∧ a < o) :=
    fun a h => Or.inr (Or.inl h)
  generalize hra : eval defs n g ρ a v = ra at hnd ya' ⊢
  rcases ra with ⟨oa, sa⟩
  cases sa with
  | diverge => simp [ND] at hnd
  | err ee =>
    simp only [Stop.toErr] at ya' ⊢
    exact Yields.rebase_err ya' hfk hOa hPP (Nat.le_refl _)
  | done =>
    simp only [Stop.toErr] at ya' hnd ⊢
    have yb := fun R' (hR' : EqOn P R R') => ihn b g e pb (by omega) (hcb ▸ hsb) hcl.2 ρ v S F R' fr o 0 P htop hge
      (fun h => hpar (Or.inr h)) (fun a h => by have := hP a h; omega) (henv.congr hR') (by rw [hcb]; omega) hnd
    rw [hcb] at yb
    refine Yields.rebase (K := P) ya' hfk hOa hPP (Nat.le_refl _) hPP ?_ (fun h => by simp at h) ?_
    · intro a h hw
      have := hP a h
      rcases hw with hw | hw
      · obtain ⟨j, j1, j2, j3⟩ := hw; omega
      · omega
    intro R' hR'
    refine Yields.steps_left (c' := .run pb (.v v :: S) F false none R' fr o 0) ?_ EqOff.refl
      ((yb R' (by simpa using hR')).mono hOb hPP (Nat.le_refl _))
    refine .head (c' := .run p (.v v :: S) F true none R' fr o 0) (by simp [step, fk]) ?_
    exact Steps.one (by simp [step, hfork])

theorem cy_arr {code defs entry nf n} (hfun : FuncsOK code defs entry nf) (ihn : CY code defs entry nf n) (q : Q) :
    CYq code defs entry nf (n+1) (.arr q) := by
  intro g e p hep hseg hcl ρ v S F R fr o cp P htop hge hpar hP henv hoff hnd
  simp only [compile] at hseg hoff ⊢
  simp only [Q.Closed] at hcl
  simp only [Q.HasParam] at hpar
  obtain ⟨ft, hres, hbase, _, _⟩ := htop.resolve
  generalize hcq : compile entry g e (p+3) q = cq at hseg hoff ⊢
  have h0 : code[p]? = some (.push (.arr [])) := by have := hseg 0 (by simp); simpa using this
  have h1 : code[p+1]? = some (.store e (p - e)) := by have := hseg 1 (by simp); simpa using this
  have h2 : code[p+2]? = some (.fork (p + 3 + cq.length + 2)) := by have := hseg 2 (by simp); simpa using this
  have hsq : Seg code (p+3) cq := by
    have := Seg.append_right (a := [Instr.push (.arr []), .store e (p - e), .fork (p + 3 + cq.length + 2)]) (b := cq) (Seg.append_left hseg)
    simpa using this
  have htail := Seg.append_right (a := [Instr.push (.arr []), .store e (p - e), .fork (p + 3 + cq.length + 2)] ++ cq) hseg
  have hpe : p + ([Instr.push (.arr []), .store e (p - e), .fork (p + 3 + cq.length + 2)] ++ cq).length = p + 3 + cq.length := by
    simp; omega
  rw [hpe] at htail
  have t0 : code[p + 3 + cq.length]? = some (.append e (p - e)) := by have := htail 0 (by simp); simpa using this
  have t1 : code[p + 3 + cq.length + 1]? = some .backtrack := by have := htail 1 (by simp); simpa using this
  have t2 : code[p + 3 + cq.length + 2]? = some .pop := by have := htail 2 (by simp); simpa using this
  have t3 : code[p + 3 + cq.length + 3]? = some (.load e (p - e)) := by have := htail 3 (by simp); simpa using this
  have hlen : ([Instr.push (.arr []), .store e (p - e), .fork (p + 3 + cq.length + 2)] ++ cq ++ [Instr.append e (p - e), .backtrack, .pop, .load e (p - e)]).length = 3 + cq.length + 4 := by
    simp; omega
  rw [hlen] at hoff ⊢
  let fk : Fork := ⟨p+2, .v v :: S, fr, o⟩
  let r := ft.base + (p - e)
  let R0 := R.set r (.v (.arr []))
  have hrP : ¬ P r := by intro h; have := hP _ h; simp only [r] at this; omega
  have hRR0 : EqOn P R R0 := by
    intro a ha; simp only [R0, Regs.set]; split
    · rename_i h; subst h; exact absurd ha hrP
    · rfl
  have start : Steps code (.run p (.v v :: S) F false none R fr o cp) (.run (p+3) (.v v :: S) (fk :: F) false none R0 fr o cp) := by
    refine .head (c' := .run (p+1) (.v (.arr []) :: .v v :: S) F false none R fr o cp) (by simp [step, h0]) ?_
    refine .head (c' := .run (p+2) (.v v :: S) F false none R0 fr o cp) (by simp [step, h1, hres, R0, r]) ?_
    exact Steps.one (by simp [step, h2, fk])
  simp only [eval] at hnd ⊢
  have hndq : ND (eval defs n g ρ q v).stop := by
    generalize eval defs n g ρ q v = rq at hnd
    rcases rq with ⟨oq, sq⟩
    cases sq <;> simp_all [ND]
  have yq := ihn q g e (p+3) (by omega) (hcq ▸ hsq) hcl ρ v S (fk :: F) R0 fr o cp P htop hge hpar
    (fun a h => by have := hP a h; omega) (henv.congr hRR0) (by rw [hcq]; omega) hndq
  rw [hcq] at yq
  have hnot : ¬ Own (base fr) e (p+3) cq.length r := by
    intro h; obtain ⟨j, j1, j2, j3⟩ := h; simp only [r] at j3; omega
  have hrlt : r < o := by simp only [r]; omega
  obtain ⟨R', hs, hacc, hfr⟩ := collect hres hnot hrP hrlt t0 t1 yq [] (by simp [R0, Regs.set, r])
  have hfr' : EqOff (Wr (Own (base fr) e p (3 + cq.length + 4)) o) R R' := by
    intro i hi
    have hne : i ≠ r := by
      intro h; apply hi; left; exact ⟨p, by omega, by omega, by simp [h, r, hbase]⟩
    have a : ¬ (Wr (Own (base fr) e (p+3) cq.length) o i ∨ i = r) := by
      intro h; rcases h with (h | h) | h
      · apply hi; left; obtain ⟨j, j1, j2, j3⟩ := h; exact ⟨j, by omega, by omega, j3⟩
      · exact hi (Or.inr h)
      · exact hne h
    rw [← hfr i a]
    simp [R0, Regs.set, hne]
  generalize hrq : eval defs n g ρ q v = rq at hnd hs hacc ⊢
  rcases rq with ⟨oq, sq⟩
  cases sq with
  | diverge => simp [ND] at hnd
  | err ee =>
    simp only [Stop.toErr] at hs ⊢
    refine .done (start.trans (hs.trans ?_)) hfr'
    refine .head (c' := .run (p+2) (.v v :: S) F true (some (.plain ee)) R' fr o 0) (by simp [step, fk]) ?_
    exact Steps.one (by simp [step, h2])
  | done =>
    simp only [Stop.toErr] at hs hacc ⊢
    refine .out (F' := []) (R1 := R') (o1 := o) (cp := 0) ForksOK.nil ?_ (Nat.le_refl _) hfr' (fun _ => ⟨rfl, rfl⟩)
      (fun R2 _ => .done (.refl _) EqOff.refl)
    refine start.trans (hs.trans ?_)
    refine .head (c' := .run (p+2) (.v v :: S) F true none R' fr o 0) (by simp [step, fk]) ?_
    refine .head (c' := .run (p + 3 + cq.length + 2) (.v v :: S) F false none R' fr o 0) (by simp [step, h2]) ?_
    refine .head (c' := .run (p + 3 + cq.length + 3) S F false none R' fr o 0) (by simp [step, t2]) ?_
    have : p + (3 + cq.length + 4) = p + 3 + cq.length + 3 + 1 := by omega
    rw [this]
    refine Steps.one ?_
    have hacc' : R' (ft.base + (p - e)) = .v (.arr oq) := by simpa using hacc
    simp [step, t3, hres, hacc']

theorem cy_error {code defs entry nf n} (hfun : FuncsOK code defs entry nf) (ihn : CY code defs entry nf n)  :
    CYq code defs entry nf (n+1) .error := by
  intro g e p _ hseg _ ρ v S F R fr o cp P _ _ _ _ _ _ _
  simp only [compile, eval, Stop.toErr]
  have h0 := Seg.head hseg
  exact .done (e := some (.user v)) (Steps.one (by simp [step, h0])) EqOff.refl

theorem cy_index {code defs entry nf n} (hfun : FuncsOK code defs entry nf) (ihn : CY code defs entry nf n) (k : V) :
    CYq code defs entry nf (n+1) (.index k) := by
  intro g e p _ hseg _ ρ v S F R fr o cp P _ _ _ _ _ _ _
  have h0 : code[p]? = some (.index k) := Seg.head hseg
  simp only [compile, List.length_singleton]
  cases hix : IterMsg.index v k with
  | none =>
    simp only [eval, hix, Stop.toErr]
    exact .done (e := some (.idx v k)) (Steps.one (by simp [step, h0, hix])) EqOff.refl
  | some w =>
    simp only [eval, hix, Stop.toErr]
    exact .out (F' := []) (R1 := R) (o1 := o) (cp := cp) ForksOK.nil (Steps.one (by simp [step, h0, hix]))
      (Nat.le_refl _) EqOff.refl (fun _ => ⟨rfl, rfl⟩) (fun R2 _ => .done (.refl _) EqOff.refl)

end Gojq.MiniVM

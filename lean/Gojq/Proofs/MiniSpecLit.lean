/-
  Helper lemmas for Props/C01Tie.lean, part 6: every integer constant has a jq number literal that
  `Spec.eval` reads back as the constant — `parseNumberLit (toString i) = some (.int i)` — so that
  the side condition `litOK` of the translation is a purely syntactic one (the constant is `null`,
  a boolean, an integer, a string or `[]`).
  Core Lean only.
-/
import Gojq.Model.MiniSpec
namespace Gojq.MiniSpec
open Gojq

theorem span_loop_all {p : Char → Bool} : ∀ (cs acc : List Char), (∀ c ∈ cs, p c = true) →
    List.span.loop p cs acc = (acc.reverse ++ cs, [])
  | [], acc, _ => by simp [List.span.loop]
  | c :: cs, acc, h => by
    have hc : p c = true := h c (by simp)
    have ih := span_loop_all cs (c :: acc) (fun d hd => h d (by simp [hd]))
    simp [List.span.loop, hc, ih]

theorem span_all {p : Char → Bool} (cs : List Char) (h : ∀ c ∈ cs, p c = true) : cs.span p = (cs, []) := by
  simpa [List.span] using span_loop_all cs [] h

theorem foldl_digits (cs : List Char) (init : Nat) :
    cs.foldl (fun a c => a * 10 + (c.toNat - 48)) init = Nat.ofDigitChars 10 cs init := by
  induction cs generalizing init with
  | nil => simp
  | cons c cs ih =>
    rw [List.foldl_cons, Nat.ofDigitChars_cons, ih, Nat.mul_comm]
    rfl

theorem parse_digits (cs : List Char) (hne : cs ≠ []) (hall : ∀ c ∈ cs, c.isDigit = true) (neg : Bool) :
    parseNumberLit (String.ofList (if neg then '-' :: cs else cs)) =
      some (.int (if neg then -(Nat.ofDigitChars 10 cs 0 : Int) else (Nat.ofDigitChars 10 cs 0 : Int))) := by
  unfold parseNumberLit
  simp only [String.toList_ofList]
  have hsp := span_all cs hall
  cases neg with
  | true =>
    simp only [if_true]
    simp [hsp, hne, foldl_digits]
  | false =>
    simp only [Bool.false_eq_true, if_false]
    cases cs with
    | nil => exact absurd rfl hne
    | cons c cs' =>
      have hc : c.isDigit = true := hall c (by simp)
      have h1 : c ≠ '-' := by intro h; subst h; simp [Char.isDigit] at hc
      have h2 : c ≠ '+' := by intro h; subst h; simp [Char.isDigit] at hc
      simp [h1, h2, hsp, foldl_digits, Nat.ofDigitChars_cons]

theorem litOK_int (i : Int) : litOK (.num (.int i)) = true := by
  have hnat : ∀ n : Nat, parseNumberLit (toString n) = some (.int (n : Int)) := by
    intro n
    have h := parse_digits (Nat.toDigits 10 n) Nat.toDigits_ne_nil
      (fun c hc => Nat.isDigit_of_mem_toDigits (by omega) (by omega) hc) false
    simp only [Bool.false_eq_true, if_false, Nat.ofDigitChars_ten_toDigits] at h
    rw [← h, Nat.toString_eq_ofList_toDigits]
  cases i with
  | ofNat n =>
    have : toString (Int.ofNat n) = toString n := rfl
    simp only [litOK, this, hnat n]
    simp
  | negSucc n =>
    have : toString (Int.negSucc n) = String.ofList ('-' :: Nat.toDigits 10 (n+1)) := by
      show "-" ++ toString (n+1) = _
      rw [Nat.toString_eq_ofList_toDigits]
      apply String.toList_inj.mp
      simp
    have h := parse_digits (Nat.toDigits 10 (n+1)) Nat.toDigits_ne_nil
      (fun c hc => Nat.isDigit_of_mem_toDigits (by omega) (by omega) hc) true
    simp only [if_true, Nat.ofDigitChars_ten_toDigits] at h
    simp only [litOK, this, h]
    simp [Int.negSucc_eq]

/-- which constants have a literal -/
theorem litOK_iff (c : MiniVM.V) :
    litOK c = true ↔ (c = .null ∨ (∃ b, c = .bool b) ∨ (∃ i, c = .num (.int i)) ∨ (∃ s, c = .str s) ∨ c = .arr []) := by
  constructor
  · intro h
    cases c with
    | null => exact .inl rfl
    | bool b => exact .inr (.inl ⟨b, rfl⟩)
    | str s => exact .inr (.inr (.inr (.inl ⟨s, rfl⟩)))
    | num x =>
      cases x with
      | int i => exact .inr (.inr (.inl ⟨i, rfl⟩))
      | _ => simp [litOK] at h
    | arr xs =>
      cases xs with
      | nil => exact .inr (.inr (.inr (.inr rfl)))
      | cons x xs => simp [litOK] at h
    | obj kvs => simp [litOK] at h
  · rintro (rfl | ⟨b, rfl⟩ | ⟨i, rfl⟩ | ⟨s, rfl⟩ | rfl)
    · rfl
    · rfl
    · exact litOK_int i
    · rfl
    · rfl

end Gojq.MiniSpec

/-
  Helper lemmas about the control skeleton of `Next` (Model/VM.lean): how a turn (`step`) uses
  the poll oracle, and what that implies for `loop`, `next` and call histories.  Everything
  here is generic in what an instruction does (`exec` is opaque), i.e. holds for arbitrary code.
-/
import Gojq.Model.VM
namespace Gojq.VM

def Step.st : Step → St
  | .cont _ s => s
  | .fin _ s => s

/-- the state in which a call cancelled at its poll is left: nothing of the environment is touched
    except `forks := nil`, `pc := len(codes)` (and the deferred `backtrack := true`) -/
def cancelledSt (P : Params) (s : St) : St :=
  { env := { s.env with forks := [], pc := P.code.size, backtrack := true }, polls := s.polls + 1 }

/-- an iterator that is over: nothing to execute, nothing to backtrack to -/
def Terminal (P : Params) (s : St) : Prop := s.env.pc = P.code.size ∧ s.env.forks = []

/-- the loop is at an instruction -/
def InRange (P : Params) (l : L) : Prop := 0 ≤ l.pc ∧ l.pc < P.code.size

instance (P : Params) (l : L) : Decidable (InRange P l) := by unfold InRange; infer_instance

theorem step_cancelled (P : Params) (l : L) (s : St) (hr : InRange P l)
    (hc : P.cancelled s.polls = true) : step P l s = .fin .ctxErr (cancelledSt P s) := by
  unfold step
  simp [hr.2, hc, Int.not_lt.mpr hr.1, cancelledSt, St.save]

theorem unwind_polls (P : Params) (l : L) (s : St) : (unwind P l s).st.polls = s.polls := by
  unfold unwind
  split
  · unfold finish; split <;> rfl
  · rfl

theorem unwind_fin (P : Params) (l : L) (s : St) (o : Outcome) (s' : St) (h : unwind P l s = .fin o s') :
    o ≠ .ctxErr ∧ (o = .done → Terminal P s') ∧ (∀ site, o ≠ .panic site) ∧ s.env.forks = [] := by
  unfold unwind at h
  split at h
  · rename_i hf
    unfold finish at h
    split at h
    · simp at h; obtain ⟨rfl, rfl⟩ := h; simp [hf]
    · simp at h; obtain ⟨rfl, rfl⟩ := h; simp [Terminal, St.save, hf]
  · simp at h

theorem unwind_congr (P Q : Params) (hcode : P.code = Q.code) (l : L) (s : St) : unwind P l s = unwind Q l s := by
  unfold unwind finish
  rw [hcode]

/-- a turn at an instruction consumes exactly one poll; any other turn consumes none -/
theorem step_polls (P : Params) (l : L) (s : St) :
    (step P l s).st.polls = if InRange P l then s.polls + 1 else s.polls := by
  unfold step
  by_cases h1 : l.pc < P.code.size
  · by_cases h0 : l.pc < 0
    · have : ¬ InRange P l := fun h => absurd h.1 (Int.not_le.mpr h0)
      simp [h1, h0, this, Step.st, St.save]
    · have hr : InRange P l := ⟨Int.not_lt.mp h0, h1⟩
      simp only [h1, h0, hr, if_true, if_false]
      split
      · rfl
      · split
        · rfl
        · rfl
        · split
          · rfl
          · rfl
          · rfl
          · rw [unwind_polls]
  · have : ¬ InRange P l := fun h => h1 h.2
    simp only [h1, this, if_false]
    rw [unwind_polls]

theorem step_congr (P Q : Params) (hcode : P.code = Q.code) (hext : P.ext = Q.ext) (l : L) (s : St)
    (h : InRange P l → P.cancelled s.polls = Q.cancelled s.polls) : step P l s = step Q l s := by
  unfold step
  rw [← hcode, ← hext]
  by_cases h1 : l.pc < P.code.size
  · by_cases h0 : l.pc < 0
    · simp [h1, h0]
    · have hr : InRange P l := ⟨Int.not_lt.mp h0, h1⟩
      simp only [h1, h0, if_true, if_false, ← h hr]
      split
      · rfl
      · split
        · rfl
        · rfl
        · split
          · rfl
          · rfl
          · rfl
          · exact unwind_congr P Q hcode _ _
  · simp only [h1, if_false]
    exact unwind_congr P Q hcode _ _

/-- how a turn can end a call -/
theorem step_fin (P : Params) (l : L) (s : St) (o : Outcome) (s' : St) (h : step P l s = .fin o s') :
    (o = .ctxErr → InRange P l ∧ P.cancelled s.polls = true ∧ s' = cancelledSt P s) ∧
    (o = .done → Terminal P s') ∧ o ≠ .outOfFuel := by
  unfold step at h
  by_cases h1 : l.pc < P.code.size
  · by_cases h0 : l.pc < 0
    · simp [h1, h0] at h; obtain ⟨rfl, rfl⟩ := h; simp
    · have hr : InRange P l := ⟨Int.not_lt.mp h0, h1⟩
      simp only [h1, h0, if_true, if_false] at h
      split at h
      · rename_i hc
        simp at h; obtain ⟨rfl, rfl⟩ := h
        simp [hr, hc, cancelledSt, St.save]
      · split at h
        · simp at h; obtain ⟨rfl, rfl⟩ := h; simp
        · simp at h; obtain ⟨rfl, rfl⟩ := h; simp
        · split at h
          · simp at h
          · simp at h
          · simp at h; obtain ⟨rfl, rfl⟩ := h; simp
          · have := unwind_fin P _ _ o s' h
            refine ⟨fun e => absurd e this.1, this.2.1, ?_⟩
            intro e; subst e
            unfold unwind finish at h
            split at h
            · split at h <;> simp at h
            · simp at h
  · simp only [h1, if_false] at h
    have := unwind_fin P _ _ o s' h
    refine ⟨fun e => absurd e this.1, this.2.1, ?_⟩
    intro e; subst e
    unfold unwind finish at h
    split at h
    · split at h <;> simp at h
    · simp at h

/-! ## the loop -/

theorem loop_zero (P : Params) (l : L) (s : St) :
    loop P 0 l s =
      match step P l s with
      | .fin o s' => (o, s')
      | .cont l' s' => (.outOfFuel, s'.save l'.pc) := by
  rw [loop]; rfl

theorem loop_succ (P : Params) (n : Nat) (l : L) (s : St) :
    loop P (n + 1) l s =
      match step P l s with
      | .fin o s' => (o, s')
      | .cont l' s' => loop P n l' s' := by
  rw [loop]; rfl

theorem loop_polls_mono (P : Params) : ∀ (fuel : Nat) (l : L) (s : St), s.polls ≤ (loop P fuel l s).2.polls := by
  intro fuel
  induction fuel with
  | zero =>
    intro l s
    rw [loop_zero]
    have hp := step_polls P l s
    split
    · rename_i o s' h; rw [h] at hp; simp only [Step.st] at hp; split at hp <;> simp [hp]
    · rename_i l' s' h; rw [h] at hp; simp only [Step.st] at hp; split at hp <;> simp [St.save, hp]
  | succ n ih =>
    intro l s
    rw [loop_succ]
    have hp := step_polls P l s
    split
    · rename_i o s' h; rw [h] at hp; simp only [Step.st] at hp; split at hp <;> simp [hp]
    · rename_i l' s' h
      rw [h] at hp; simp only [Step.st] at hp
      have := ih l' s'
      split at hp <;> omega

/-- a call that returns the context error or `(nil, false)` leaves a terminal state, and the
    context error is returned by the very turn that saw the cancelled poll -/
theorem loop_fin_terminal (P : Params) : ∀ (fuel : Nat) (l : L) (s : St) (o : Outcome) (s' : St),
    loop P fuel l s = (o, s') →
    (o = .done → Terminal P s') ∧
    (o = .ctxErr → Terminal P s' ∧ s.polls < s'.polls ∧ P.cancelled (s'.polls - 1) = true) := by
  intro fuel
  induction fuel with
  | zero =>
    intro l s o s' h
    rw [loop_zero] at h
    split at h
    · rename_i o1 s1 hs
      simp at h; obtain ⟨rfl, rfl⟩ := h
      have := step_fin P l s _ _ hs
      refine ⟨this.2.1, fun e => ?_⟩
      obtain ⟨_, hc, rfl⟩ := this.1 e
      simp [Terminal, cancelledSt, hc]
    · simp at h; obtain ⟨rfl, rfl⟩ := h; simp
  | succ n ih =>
    intro l s o s' h
    rw [loop_succ] at h
    split at h
    · rename_i o1 s1 hs
      simp at h; obtain ⟨rfl, rfl⟩ := h
      have := step_fin P l s _ _ hs
      refine ⟨this.2.1, fun e => ?_⟩
      obtain ⟨_, hc, rfl⟩ := this.1 e
      simp [Terminal, cancelledSt, hc]
    · rename_i l1 s1 hs
      have := ih l1 s1 o s' h
      have hp := step_polls P l s
      rw [hs] at hp; simp only [Step.st] at hp
      refine ⟨this.1, fun e => ?_⟩
      obtain ⟨a, b, c⟩ := this.2 e
      refine ⟨a, ?_, c⟩
      split at hp <;> omega

/-- global promptness: if a call consulted a cancelled poll `k`, it returned the context error at
    that very poll (no later poll happened) and no earlier poll of the call was cancelled -/
theorem loop_cancel_seen (P : Params) : ∀ (fuel : Nat) (l : L) (s : St) (o : Outcome) (s' : St),
    loop P fuel l s = (o, s') → ∀ k, s.polls ≤ k → k < s'.polls → P.cancelled k = true →
    o = .ctxErr ∧ s'.polls = k + 1 ∧ Terminal P s' ∧ ∀ j, s.polls ≤ j → j < k → P.cancelled j = false := by
  have fin_case : ∀ (l : L) (s : St) (o : Outcome) (s' : St), step P l s = .fin o s' →
      ∀ k, s.polls ≤ k → k < s'.polls → P.cancelled k = true →
      o = .ctxErr ∧ s'.polls = k + 1 ∧ Terminal P s' ∧ ∀ j, s.polls ≤ j → j < k → P.cancelled j = false := by
    intro l s o s' hs k hk1 hk2 hc
    have hp := step_polls P l s
    rw [hs] at hp; simp only [Step.st] at hp
    by_cases hr : InRange P l
    · simp only [hr, if_true] at hp
      have hk : k = s.polls := by omega
      subst hk
      rw [step_cancelled P l s hr hc] at hs
      simp at hs; obtain ⟨rfl, rfl⟩ := hs
      refine ⟨rfl, rfl, ?_, fun j a b => by omega⟩
      simp [Terminal, cancelledSt]
    · simp only [hr, if_false] at hp; omega
  have cont_case : ∀ (l : L) (s : St) (l1 : L) (s1 : St), step P l s = .cont l1 s1 →
      ∀ k, s.polls ≤ k → P.cancelled k = true →
      s1.polls ≤ k ∧ (∀ j, s.polls ≤ j → j < s1.polls → P.cancelled j = false) := by
    intro l s l1 s1 hs k hk1 hc
    have hp := step_polls P l s
    rw [hs] at hp; simp only [Step.st] at hp
    by_cases hr : InRange P l
    · simp only [hr, if_true] at hp
      have hne : P.cancelled s.polls = false := by
        cases hcs : P.cancelled s.polls with
        | false => rfl
        | true => rw [step_cancelled P l s hr hcs] at hs; simp at hs
      have : k ≠ s.polls := fun e => by rw [e] at hc; rw [hc] at hne; simp at hne
      refine ⟨by omega, fun j a b => ?_⟩
      have : j = s.polls := by omega
      rw [this]; exact hne
    · simp only [hr, if_false] at hp
      exact ⟨by omega, fun j a b => by omega⟩
  intro fuel
  induction fuel with
  | zero =>
    intro l s o s' h k hk1 hk2 hc
    rw [loop_zero] at h
    split at h
    · rename_i o1 s1 hs
      simp at h; obtain ⟨rfl, rfl⟩ := h
      exact fin_case l s _ _ hs k hk1 hk2 hc
    · rename_i l1 s1 hs
      simp at h; obtain ⟨rfl, rfl⟩ := h
      have := cont_case l s l1 s1 hs k hk1 hc
      simp [St.save] at hk2; omega
  | succ n ih =>
    intro l s o s' h k hk1 hk2 hc
    rw [loop_succ] at h
    split at h
    · rename_i o1 s1 hs
      simp at h; obtain ⟨rfl, rfl⟩ := h
      exact fin_case l s _ _ hs k hk1 hk2 hc
    · rename_i l1 s1 hs
      have hcont := cont_case l s l1 s1 hs k hk1 hc
      obtain ⟨a, b, c, d⟩ := ih l1 s1 o s' h k hcont.1 hk2 hc
      refine ⟨a, b, c, fun j hj1 hj2 => ?_⟩
      by_cases hj : j < s1.polls
      · exact hcont.2 j hj1 hj
      · exact d j (by omega) hj2

/-- two poll oracles that agree on every poll a call consults give the same call -/
theorem loop_agree (P Q : Params) (hcode : P.code = Q.code) (hext : P.ext = Q.ext) :
    ∀ (fuel : Nat) (l : L) (s : St),
    (∀ j, s.polls ≤ j → j < (loop P fuel l s).2.polls → P.cancelled j = Q.cancelled j) →
    loop Q fuel l s = loop P fuel l s := by
  have key : ∀ (l : L) (s : St) (final : Nat), (step P l s).st.polls ≤ final →
      (∀ j, s.polls ≤ j → j < final → P.cancelled j = Q.cancelled j) → step P l s = step Q l s := by
    intro l s final hf h
    apply step_congr P Q hcode hext
    intro hr
    have hp := step_polls P l s
    simp only [hr, if_true] at hp
    exact h s.polls (Nat.le_refl _) (by omega)
  intro fuel
  induction fuel with
  | zero =>
    intro l s h
    have hk := key l s (loop P 0 l s).2.polls
    rw [loop_zero] at h hk ⊢
    rw [loop_zero]
    cases hs : step P l s with
    | fin o1 s1 =>
      rw [hs] at h hk
      rw [← hk (by simp [Step.st]) h]
    | cont l1 s1 =>
      rw [hs] at h hk
      rw [← hk (by simp [Step.st, St.save]) h]
  | succ n ih =>
    intro l s h
    have hk := key l s (loop P (n + 1) l s).2.polls
    rw [loop_succ] at h hk ⊢
    rw [loop_succ]
    cases hs : step P l s with
    | fin o1 s1 =>
      rw [hs] at h hk
      rw [← hk (by simp [Step.st]) h]
    | cont l1 s1 =>
      rw [hs] at h hk
      simp only at h hk
      rw [← hk (by simp only [Step.st]; exact loop_polls_mono P n l1 s1) h]
      simp only
      apply ih
      intro j hj1 hj2
      apply h j _ hj2
      have hp := step_polls P l s
      rw [hs] at hp; simp only [Step.st] at hp
      split at hp <;> omega

/-- if the reference call goes past poll `k` and the other oracle, equal below `k`, is cancelled
    at `k`, the other call returns the context error at poll `k` -/
theorem loop_cancel_at (P Q : Params) (hcode : P.code = Q.code) (hext : P.ext = Q.ext) (k : Nat)
    (hlt : ∀ j, j < k → P.cancelled j = Q.cancelled j) (hk : Q.cancelled k = true) :
    ∀ (fuel : Nat) (l : L) (s : St), s.polls ≤ k → k < (loop P fuel l s).2.polls →
    ∃ s', loop Q fuel l s = (.ctxErr, s') ∧ s'.polls = k + 1 ∧ Terminal Q s' := by
  have here : ∀ (l : L) (s : St), s.polls = k → InRange P l →
      ∀ fuel, ∃ s', loop Q fuel l s = (.ctxErr, s') ∧ s'.polls = k + 1 ∧ Terminal Q s' := by
    intro l s e hr fuel
    have hrq : InRange Q l := by unfold InRange at hr ⊢; rw [← hcode]; exact hr
    have hst := step_cancelled Q l s hrq (by rw [e]; exact hk)
    refine ⟨cancelledSt Q s, ?_, by simp [cancelledSt, e], by simp [Terminal, cancelledSt]⟩
    cases fuel with
    | zero => rw [loop_zero, hst]
    | succ n => rw [loop_succ, hst]
  have same : ∀ (l : L) (s : St), s.polls ≤ k → (s.polls = k → ¬ InRange P l) → step P l s = step Q l s := by
    intro l s hle hne
    apply step_congr P Q hcode hext
    intro hr
    have : s.polls < k := by
      rcases Nat.lt_or_ge s.polls k with h | h
      · exact h
      · exact absurd hr (hne (by omega))
    exact hlt _ this
  intro fuel
  induction fuel with
  | zero =>
    intro l s hle hgt
    by_cases hh : s.polls = k ∧ InRange P l
    · exact here l s hh.1 hh.2 0
    · have hsame := same l s hle (fun e hr => hh ⟨e, hr⟩)
      have hp := step_polls P l s
      rw [loop_zero] at hgt
      cases hs : step P l s with
      | fin o1 s1 =>
        rw [hs] at hgt hp; simp only [Step.st] at hp hgt
        split at hp
        · rename_i hr; have : s.polls ≠ k := fun e => hh ⟨e, hr⟩; omega
        · omega
      | cont l1 s1 =>
        rw [hs] at hgt hp; simp only [Step.st, St.save] at hp hgt
        split at hp
        · rename_i hr; have : s.polls ≠ k := fun e => hh ⟨e, hr⟩; omega
        · omega
  | succ n ih =>
    intro l s hle hgt
    by_cases hh : s.polls = k ∧ InRange P l
    · exact here l s hh.1 hh.2 (n + 1)
    · have hsame := same l s hle (fun e hr => hh ⟨e, hr⟩)
      have hp := step_polls P l s
      rw [loop_succ] at hgt
      rw [loop_succ, ← hsame]
      cases hs : step P l s with
      | fin o1 s1 =>
        rw [hs] at hgt hp; simp only [Step.st] at hp hgt
        split at hp
        · rename_i hr; have : s.polls ≠ k := fun e => hh ⟨e, hr⟩; omega
        · omega
      | cont l1 s1 =>
        rw [hs] at hgt hp; simp only [Step.st] at hp hgt
        simp only
        apply ih l1 s1 _ hgt
        split at hp
        · rename_i hr; have : s.polls ≠ k := fun e => hh ⟨e, hr⟩; omega
        · omega

/-- a terminal iterator answers `(nil, false)` at every fuel, under every poll oracle, and stays terminal -/
theorem terminal_next (P : Params) (s : St) (h : Terminal P s) (fuel : Nat) :
    next P fuel s = (.done, s.save P.code.size) := by
  have hst : step P (entry P s) s = .fin .done (s.save P.code.size) := by
    unfold step
    have : ¬ ((entry P s).pc < (P.code.size : Int)) := by simp [entry, h.1]
    simp only [this, if_false]
    unfold unwind
    rw [h.2]
    simp [finish, entry]
  unfold next
  cases fuel with
  | zero => rw [loop_zero, hst]
  | succ n => rw [loop_succ, hst]

theorem terminal_save (P : Params) (s : St) (h : Terminal P s) : Terminal P (s.save P.code.size) := by
  simp [Terminal, St.save, h.2]

theorem terminal_history (P : Params) : ∀ (s : St), Terminal P s → ∀ (fuel n : Nat),
    history P fuel n s = List.replicate n Outcome.done := by
  intro s h fuel n
  induction n generalizing s with
  | zero => rfl
  | succ n ih =>
    simp only [history, terminal_next P s h fuel, List.replicate_succ]
    rw [ih _ (terminal_save P s h)]

theorem next_polls_mono (P : Params) (fuel : Nat) (s : St) : s.polls ≤ (next P fuel s).2.polls :=
  loop_polls_mono P fuel _ s

theorem after_polls_mono (P : Params) (fuel : Nat) : ∀ (n : Nat) (s : St), s.polls ≤ (after P fuel n s).polls := by
  intro n
  induction n with
  | zero => intro s; exact Nat.le_refl _
  | succ n ih =>
    intro s
    simp only [after]
    exact Nat.le_trans (next_polls_mono P fuel s) (ih _)

/-- constructor index, to state concrete histories decidably -/
def Outcome.tag : Outcome → Nat
  | .value _ => 0 | .error _ => 1 | .done => 2 | .ctxErr => 3 | .panic _ => 4 | .stuck _ => 5 | .outOfFuel => 6

end Gojq.VM

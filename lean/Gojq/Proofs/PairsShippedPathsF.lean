/-
  Helper lemmas for Props/C13Shipped.lean, part 7: `paths(f)` as shipped
  (`path(.. | select(f)) | select(. != [])`) for a filter argument `f` that is a TEST: run without
  path tracking on any value it yields one boolean, a function `φ` of the value (`IsTest`); instance:
  `type == "…"`.
-/
import Gojq.Proofs.PairsShippedLaws
namespace Gojq.Pairs
open Gojq Gojq.Spec Gojq.Pairs.Tie

/-- `fq`, evaluated in `env` without path tracking with `N` units of fuel or more, is the test `φ`:
    exactly one output, the boolean `φ v` -/
def IsTest (env : Env) (fq : Query) (N : Nat) (φ : JV → Bool) : Prop :=
  ∀ k, N ≤ k → ∀ (w : JV) (i : Ident), ∃ j, eval k cfgGo env fq { v := w, id := i } = .one { v := .bool (φ w), id := j }

/-- the paths `paths(f)` emits for a test `φ`: the non-empty paths of the nodes whose value passes -/
def pathsWhere (φ : JV → Bool) (v : JV) : List (List JV) :=
  (((nodes false [] v).filter fun nd => φ nd.2).map (·.1)).filter fun p => !p.isEmpty

/-- `path(f)` for an `f` that emits some of the nodes of a walk -/
theorem evalCall_path_list (n : Nat) (env : Env) (fq : Query) (s : St) (l : List (List JV × JV))
    (h : lookupCall "path" 1 env.bs = .none) (hl : ∀ nd ∈ l, ScalarOK nd.2)
    (hf : eval n cfgGo env fq (pathStart n s) = ⟨l.map (descN (pathStart n s)), .done⟩) :
    evalCall (n + 1) cfgGo env "path" [fq] s = ⟨l.map fun nd => computed s (.arr nd.1), .done⟩ := by
  rw [evalCall_path n env fq s h, hf]
  obtain ⟨c0, hc0, hp0⟩ := pathStart_ctx n s
  simp only [Res.bind]
  apply bindList_map_ones
  intro nd hnd
  refine ⟨rfl, ?_⟩
  rw [descN, pathEmit_desc s _ (trk_pathStart n s) c0 hc0 nd.1 nd.2 (hl nd hnd), hp0]
  rfl

theorem bindList_map_filter {α : Type} (f : St → Res) (mk : α → St) (φ : α → Bool) : ∀ l : List α,
    (∀ a ∈ l, (mk a).pend = false ∧ f (mk a) = if φ a then .one (mk a) else .empty) →
    Res.bindList f .done (l.map mk) = ⟨(l.filter φ).map mk, .done⟩
  | [], _ => rfl
  | a :: l, h => by
    have ha := h a (by simp)
    rw [List.map_cons, bindList_cons_nopend f .done _ _ ha.1, ha.2,
      bindList_map_filter f mk φ l (fun b hb => h b (by simp [hb]))]
    cases hφ : φ a <;> simp [Res.one, Res.empty, List.filter, hφ]

/-- `.. | select(f)` -/
def recSelQ : Query := (Query.binop [] Op.pipe recurseQ (Query.term [] (Term.mk (TermCore.func "select" [varQ "f"]) [])))
/-- `path(.. | select(f)) | select(. != [])` -/
def paths1Body : Query := (Query.binop [] Op.pipe (Query.term [] (Term.mk (TermCore.func "path" [recSelQ]) [])) (Query.term [] (Term.mk (TermCore.func "select" [neNilQ]) [])))

theorem shipped_paths1 : Generated.Builtins.go_paths_a01 = .mk "paths" ["f"] paths1Body := rfl

theorem find_paths1 : cfgGo.builtins.find "paths" 1 = some (.mk "paths" ["f"] paths1Body) := by
  rw [← shipped_paths1]; rfl

theorem evalCall_paths1 (n : Nat) (env : Env) (fq : Query) (s : St) (h : lookupCall "paths" 1 env.bs = .none) :
    evalCall (n + 2) cfgGo env "paths" [fq] s =
      eval n cfgGo (.mk [.clo "f" fq env, .fn "paths" ["f"] paths1Body true]) paths1Body s := by
  have hsw : "paths".startsWith "$" = false := by decide +kernel
  have hf : "f".startsWith "$" = false := by decide +kernel
  simp only [evalCall_succ, List.length_cons, List.length_nil, Nat.zero_add, h, hsw, Bool.false_eq_true, if_false, find_paths1,
    callDef_succ, FuncDef.name, FuncDef.params, FuncDef.body, List.zip_cons_cons, List.zip_nil_right, List.foldl_cons,
    List.foldl_nil, List.filter_cons, List.filter_nil, hf, bindValsK]
  rfl

/-- `.. | select(f)` from a walk state, `f` a test: the nodes whose value passes -/
theorem eval_recSelQ (m : Nat) (cenv : Env) (fq : Query) (N : Nat) (φ : JV → Bool) (ht : IsTest cenv fq N φ)
    (rest : List Binding) (s : St) (hs : Trk s) (hm : 10 * depth s.v + 30 + N ≤ m)
    (hR : lookupCall "recurse" 0 (.clo "f" fq cenv :: rest) = .none)
    (hS : lookupCall "select" 1 (.clo "f" fq cenv :: rest) = .none) :
    eval m cfgGo (.mk (.clo "f" fq cenv :: rest)) recSelQ s =
      ⟨((nodes false [] s.v).filter fun nd => φ nd.2).map (descN s), .done⟩ := by
  obtain ⟨n, rfl⟩ : ∃ n, m = n + 14 := ⟨m - 14, by omega⟩
  simp only [recSelQ, eval_binop, Env.defs, List.foldl_nil]
  rw [eval_recurseQ (n + 13) (.mk (.clo "f" fq cenv :: rest)) s hs (by omega) hR]
  simp only [Res.bind, eval_term, Env.defs, List.foldl_nil, evalTerm_succ, evalTermRev, List.reverse_nil, evalCore_succ]
  apply bindList_map_filter
  intro nd _
  refine ⟨rfl, ?_⟩
  obtain ⟨n', rfl⟩ : ∃ n', n = n' + 3 := ⟨n - 3, by omega⟩
  obtain ⟨j, hj⟩ := ht n' (by omega) nd.2 (descN s nd).id
  have hf : eval (n' + 3 + 1) cfgGo (.mk (.clo "f" fq cenv :: rest)) (varQ "f") (withCtx none (descN s nd)) =
      .one { v := .bool (φ nd.2), id := j } := by
    simp only [varQ, eval_term, Env.defs, List.foldl_nil, evalTerm_succ, evalTermRev, List.reverse_nil, evalCore_succ,
      evalCall_succ, List.length_nil, Env.bs, lookupCall, beq_self_eq_true, Bool.and_self, if_true]
    exact hj
  exact evalCall_select_test (n' + 3) _ (varQ "f") (descN s nd) (φ nd.2) j hS hf

/-- the body of `paths(f)` with `f` bound to a test -/
theorem eval_paths1Body (m : Nat) (cenv : Env) (fq : Query) (N : Nat) (φ : JV → Bool) (ht : IsTest cenv fq N φ)
    (s : St) (hv : IntsOK s.v) (hm : 10 * depth s.v + 50 + N ≤ m) :
    eval m cfgGo (.mk [.clo "f" fq cenv, .fn "paths" ["f"] paths1Body true]) paths1Body s =
      ⟨(pathsWhere φ s.v).map fun p => computed s (.arr p), .done⟩ := by
  obtain ⟨n, rfl⟩ : ∃ n, m = n + 14 := ⟨m - 14, by omega⟩
  simp only [paths1Body, eval_binop, Env.defs, List.foldl_nil, eval_term, evalTerm_succ, evalTermRev, List.reverse_nil,
    evalCore_succ]
  rw [evalCall_path_list (n + 9) _ recSelQ s ((nodes false [] s.v).filter fun nd => φ nd.2) rfl
    (fun nd hnd => (nodes_scalarOK false s.v [] hv nd (List.mem_filter.mp hnd).1).1)
    (eval_recSelQ (n + 9) cenv fq N φ ht _ _ (trk_pathStart _ s) (by rw [pathStart_v]; omega) rfl rfl)]
  simp only [Res.bind]
  rw [bindList_map_filter _ _ (fun nd => !nd.1.isEmpty)]
  · simp only [pathsWhere, List.filter_map, List.map_map]
    rfl
  · intro nd _
    refine ⟨rfl, ?_⟩
    obtain ⟨i, hi⟩ := eval_neNilQ (n + 1) (by omega) (.mk [.clo "f" fq cenv, .fn "paths" ["f"] paths1Body true]) nd.1 .fresh
    exact evalCall_select_test n _ neNilQ (computed s (.arr nd.1)) (!nd.1.isEmpty) i rfl hi

/-- **`paths(f)` as shipped, for a test `f`** -/
theorem evalCall_paths1_test (m : Nat) (env : Env) (fq : Query) (N : Nat) (φ : JV → Bool) (ht : IsTest env fq N φ)
    (s : St) (hv : IntsOK s.v) (hm : 10 * depth s.v + 52 + N ≤ m) (h : lookupCall "paths" 1 env.bs = .none) :
    evalCall m cfgGo env "paths" [fq] s = ⟨(pathsWhere φ s.v).map fun p => computed s (.arr p), .done⟩ := by
  obtain ⟨n, rfl⟩ : ∃ n, m = n + 2 := ⟨m - 2, by omega⟩
  rw [evalCall_paths1 n env fq s h]
  exact eval_paths1Body n env fq N φ ht s hv (by omega)

/-! ### a test: `type == "…"` -/

/-- `type == "lit"` -/
def typeEqQ (lit : Bytes) : Query := (Query.binop [] Op.eq (Query.term [] (Term.mk (TermCore.func "type" []) [])) (strQ lit))

theorem find_type : cfgGo.builtins.find "type" 0 = none := by rfl

theorem evalCall_type (m : Nat) (hm : 1 ≤ m) (env : Env) (s : St) (h : lookupCall "type" 0 env.bs = .none) :
    evalCall m cfgGo env "type" [] s = .one { v := .str (B s.v.typeName), id := .fresh, ctx := s.ctx } := by
  obtain ⟨n, rfl⟩ : ∃ n, m = n + 1 := ⟨m - 1, by omega⟩
  have hsw : "type".startsWith "$" = false := by decide +kernel
  simp only [evalCall_succ, List.length_nil, h, hsw, Bool.false_eq_true, if_false, find_type]
  rfl

/-- `type == "lit"` is a test in every environment that does not shadow `type` -/
theorem isTest_typeEq (env : Env) (lit : Bytes) (h : lookupCall "type" 0 env.bs = .none) :
    IsTest env (typeEqQ lit) 6 (fun w => opEq (.str (B w.typeName)) (.str lit)) := by
  intro k hk w i
  obtain ⟨n, rfl⟩ : ∃ n, k = n + 6 := ⟨k - 6, by omega⟩
  have hne : ("_equal" == "_add") = false := by decide
  have hc : callNative "_equal" w [.str (B w.typeName), .str lit] = some (pure (.bool (opEq (.str (B w.typeName)) (.str lit)))) := rfl
  simp only [typeEqQ, strQ, eval_binop, Env.defs, List.foldl_nil, evalBinNative_eq, eval_term, evalTerm_succ, evalTermRev,
    List.reverse_nil, evalCore_succ, evalStr_succ, computed, one_bind_mk, evalCall_type (n + 1) (by omega) env _ h, binApply, hne,
    Bool.false_and, Bool.false_eq_true, if_false, hc, nativeRes, pure, Except.pure, resultOf]
  exact ⟨_, rfl⟩

/-- `paths(type == "number")` -/
def pathsNumbersQ : Query := (Query.term [] (Term.mk (TermCore.func "paths" [typeEqQ (B "number")]) []))

theorem eval_pathsNumbersQ (m : Nat) (env : Env) (s : St) (hv : IntsOK s.v) (hm : 10 * depth s.v + 62 ≤ m)
    (h : lookupCall "paths" 1 env.bs = .none) (hT : lookupCall "type" 0 env.bs = .none) :
    eval m cfgGo env pathsNumbersQ s =
      ⟨(pathsWhere (fun w => opEq (.str (B w.typeName)) (.str (B "number"))) s.v).map fun p => computed s (.arr p), .done⟩ := by
  obtain ⟨n, rfl⟩ : ∃ n, m = n + 3 := ⟨m - 3, by omega⟩
  simp only [pathsNumbersQ, eval_term, Env.defs, List.foldl_nil, evalTerm_succ, evalTermRev, List.reverse_nil, evalCore_succ]
  exact evalCall_paths1_test n env _ 6 _ (isTest_typeEq env _ hT) s hv (by omega) h

end Gojq.Pairs

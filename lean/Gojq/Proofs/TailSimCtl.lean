/-
  Two syntactic facts about `exec` for the opcodes that neither call nor return (`easy`):
  * `exec_setCI` — the locals `callpc` and `index` of `Next` are dead for them: they are neither
    read nor written (only `call` / `callrec` / `callpc` write them and only `scope` reads them);
  * `exec_post` — what the control result says about the next pc and the `backtrack` flag: a fall
    through keeps the pc, a jump goes to the static operand, only the `isBreaker` opcodes break,
    none returns, and the flag is cleared by the opcodes that may be re-entered on a backtrack.
-/
import Gojq.Proofs.TailSimExec
set_option linter.unusedSimpArgs false
set_option linter.unusedVariables false
namespace Gojq.TailVM
open Gojq Gojq.VM Gojq.OptVM

/-! ## `callpc` and `index` are dead -/

def setCI (l : L) (cp ix : Int) : L := { l with callpc := cp, index := ix }

def mapCI (cp ix : Int) : Res (Ctl × L) → Res (Ctl × L)
  | .ok (ctl, l) e => .ok (ctl, setCI l cp ix) e
  | .panic s => .panic s
  | .stuck w => .stuck w

def CI (cp ix : Int) (m m' : M (Ctl × L)) : Prop := ∀ e, m' e = mapCI cp ix (m e)

theorem CI.pure {cp ix : Int} (ctl : Ctl) (l1 l1' : L) (h : l1' = setCI l1 cp ix) :
    CI cp ix (pure (ctl, l1)) (pure (ctl, l1')) := by
  intro e; subst h; rfl

theorem CI.bind {α : Type} {cp ix : Int} {m : M α} {f f' : α → M (Ctl × L)} (h : ∀ a, CI cp ix (f a) (f' a)) :
    CI cp ix (m >>= f) (m >>= f') := by
  intro e
  show M.bind m f' e = mapCI cp ix (M.bind m f e)
  unfold M.bind
  cases m e with
  | ok a e1 => exact h a e1
  | panic s => rfl
  | stuck w => rfl

theorem CI.panic {cp ix : Int} (s : Site) : CI cp ix (panic s) (panic s) := fun _ => rfl
theorem CI.stuck {cp ix : Int} (w : String) : CI cp ix (stuck w) (stuck w) := fun _ => rfl

macro "ci_exec" : tactic => `(tactic| repeat' (first
  | (with_reducible exact CI.pure _ _ _ rfl)
  | (with_reducible exact CI.panic _)
  | (with_reducible exact CI.stuck _)
  | (with_reducible refine CI.bind (fun _ => ?_))
  | (split <;> try dsimp only)))

/-- decide everything `exec` asks about the locals first, then unfold -/
macro "l_start" : tactic => `(tactic| (
  rename_i l
  obtain ⟨pc, cpc, idx, bt, er⟩ := l
  cases bt <;> (try cases er) <;>
  simp only [exec, exec.execIndex, iterEmit, iterInvalid, pathBroken, setCI, Option.isSome, Option.isNone,
    if_true, if_false, Bool.false_eq_true, ↓reduceIte]))

/-! ## the control result -/

/-- what the control result of an easy opcode guarantees -/
def PostT (ins : Instr) (l : L) : Ctl × L → Prop
  | (.brk, l') => l'.pc = l.pc ∧ isBreaker ins = true
  | (.fall, l') => l'.pc = l.pc ∧ (∀ t, ins ≠ .jump t) ∧
      ((l.backtrack = false ∨ isBreaker ins = true) → l'.backtrack = false)
  | (.jump, l') => targetOf ins = some l'.pc ∧ ((l.backtrack = false ∨ isBreaker ins = true) → l'.backtrack = false)
  | (.ret _, _) => False

/-- `m`'s result satisfies `φ` (a panic or `stuck` satisfies everything) -/
def CSpec {α : Type} (φ : α → Prop) (m : M α) : Prop :=
  ∀ e, match m e with
    | .ok a _ => φ a
    | .panic _ => True
    | .stuck _ => True

theorem CSpec.pure {α : Type} {φ : α → Prop} {a : α} (h : φ a) : CSpec φ (pure a : M α) := fun _ => h

theorem CSpec.bind {α β : Type} {φ : β → Prop} {m : M α} {f : α → M β} (h : ∀ a, CSpec φ (f a)) :
    CSpec φ (m >>= f) := by
  intro e
  show match M.bind m f e with | .ok a _ => φ a | .panic _ => True | .stuck _ => True
  unfold M.bind
  cases m e with
  | ok a e1 => exact h a e1
  | panic s => trivial
  | stuck w => trivial

theorem CSpec.panic {α : Type} {φ : α → Prop} (s : Site) : CSpec φ (panic s : M α) := fun _ => trivial
theorem CSpec.stuck {α : Type} {φ : α → Prop} (w : String) : CSpec φ (stuck w : M α) := fun _ => trivial

macro "cs_exec" : tactic => `(tactic| repeat' (first
  | (with_reducible exact CSpec.panic _)
  | (with_reducible exact CSpec.stuck _)
  | (with_reducible refine CSpec.pure ?_
     simp [PostT, isBreaker, targetOf]
     done)
  | (with_reducible refine CSpec.bind (fun _ => ?_))
  | (split <;> try dsimp only)))


theorem exec_ci_nop  (x : ExtRec) (cp ix : Int) (l : L) :
    CI cp ix (exec Instr.nop x l) (exec Instr.nop x (setCI l cp ix)) := by
  l_start <;> ci_exec

theorem exec_post_nop  (x : ExtRec) (l : L) : CSpec (PostT Instr.nop l) (exec Instr.nop x l) := by
  l_start <;> cs_exec


theorem exec_ci_push (v : JV) (x : ExtRec) (cp ix : Int) (l : L) :
    CI cp ix (exec (Instr.push v) x l) (exec (Instr.push v) x (setCI l cp ix)) := by
  l_start <;> ci_exec

theorem exec_post_push (v : JV) (x : ExtRec) (l : L) : CSpec (PostT (Instr.push v) l) (exec (Instr.push v) x l) := by
  l_start <;> cs_exec


theorem exec_ci_pop  (x : ExtRec) (cp ix : Int) (l : L) :
    CI cp ix (exec Instr.pop x l) (exec Instr.pop x (setCI l cp ix)) := by
  l_start <;> ci_exec

theorem exec_post_pop  (x : ExtRec) (l : L) : CSpec (PostT Instr.pop l) (exec Instr.pop x l) := by
  l_start <;> cs_exec


theorem exec_ci_dup  (x : ExtRec) (cp ix : Int) (l : L) :
    CI cp ix (exec Instr.dup x l) (exec Instr.dup x (setCI l cp ix)) := by
  l_start <;> ci_exec

theorem exec_post_dup  (x : ExtRec) (l : L) : CSpec (PostT Instr.dup l) (exec Instr.dup x l) := by
  l_start <;> cs_exec


theorem exec_ci_const (v : JV) (x : ExtRec) (cp ix : Int) (l : L) :
    CI cp ix (exec (Instr.const v) x l) (exec (Instr.const v) x (setCI l cp ix)) := by
  l_start <;> ci_exec

theorem exec_post_const (v : JV) (x : ExtRec) (l : L) : CSpec (PostT (Instr.const v) l) (exec (Instr.const v) x l) := by
  l_start <;> cs_exec


theorem exec_ci_load (a b : Int) (x : ExtRec) (cp ix : Int) (l : L) :
    CI cp ix (exec (Instr.load a b) x l) (exec (Instr.load a b) x (setCI l cp ix)) := by
  l_start <;> ci_exec

theorem exec_post_load (a b : Int) (x : ExtRec) (l : L) : CSpec (PostT (Instr.load a b) l) (exec (Instr.load a b) x l) := by
  l_start <;> cs_exec


theorem exec_ci_store (a b : Int) (x : ExtRec) (cp ix : Int) (l : L) :
    CI cp ix (exec (Instr.store a b) x l) (exec (Instr.store a b) x (setCI l cp ix)) := by
  l_start <;> ci_exec

theorem exec_post_store (a b : Int) (x : ExtRec) (l : L) : CSpec (PostT (Instr.store a b) l) (exec (Instr.store a b) x l) := by
  l_start <;> cs_exec


theorem exec_ci_object (n : Int) (x : ExtRec) (cp ix : Int) (l : L) :
    CI cp ix (exec (Instr.object n) x l) (exec (Instr.object n) x (setCI l cp ix)) := by
  l_start <;> ci_exec

theorem exec_post_object (n : Int) (x : ExtRec) (l : L) : CSpec (PostT (Instr.object n) l) (exec (Instr.object n) x l) := by
  l_start <;> cs_exec


theorem exec_ci_append (a b : Int) (x : ExtRec) (cp ix : Int) (l : L) :
    CI cp ix (exec (Instr.append a b) x l) (exec (Instr.append a b) x (setCI l cp ix)) := by
  l_start <;> ci_exec

theorem exec_post_append (a b : Int) (x : ExtRec) (l : L) : CSpec (PostT (Instr.append a b) l) (exec (Instr.append a b) x l) := by
  l_start <;> cs_exec


theorem exec_ci_fork (t : Int) (x : ExtRec) (cp ix : Int) (l : L) :
    CI cp ix (exec (Instr.fork t) x l) (exec (Instr.fork t) x (setCI l cp ix)) := by
  l_start <;> ci_exec

theorem exec_post_fork (t : Int) (x : ExtRec) (l : L) : CSpec (PostT (Instr.fork t) l) (exec (Instr.fork t) x l) := by
  l_start <;> cs_exec


theorem exec_ci_forktrybegin (t : Int) (x : ExtRec) (cp ix : Int) (l : L) :
    CI cp ix (exec (Instr.forktrybegin t) x l) (exec (Instr.forktrybegin t) x (setCI l cp ix)) := by
  l_start <;> ci_exec

theorem exec_post_forktrybegin (t : Int) (x : ExtRec) (l : L) : CSpec (PostT (Instr.forktrybegin t) l) (exec (Instr.forktrybegin t) x l) := by
  l_start <;> cs_exec


theorem exec_ci_forktryend  (x : ExtRec) (cp ix : Int) (l : L) :
    CI cp ix (exec Instr.forktryend x l) (exec Instr.forktryend x (setCI l cp ix)) := by
  l_start <;> ci_exec

theorem exec_post_forktryend  (x : ExtRec) (l : L) : CSpec (PostT Instr.forktryend l) (exec Instr.forktryend x l) := by
  l_start <;> cs_exec


theorem exec_ci_forkalt (t : Int) (x : ExtRec) (cp ix : Int) (l : L) :
    CI cp ix (exec (Instr.forkalt t) x l) (exec (Instr.forkalt t) x (setCI l cp ix)) := by
  l_start <;> ci_exec

theorem exec_post_forkalt (t : Int) (x : ExtRec) (l : L) : CSpec (PostT (Instr.forkalt t) l) (exec (Instr.forkalt t) x l) := by
  l_start <;> cs_exec


theorem exec_ci_forklabel (a b : Int) (x : ExtRec) (cp ix : Int) (l : L) :
    CI cp ix (exec (Instr.forklabel a b) x l) (exec (Instr.forklabel a b) x (setCI l cp ix)) := by
  l_start <;> ci_exec

theorem exec_post_forklabel (a b : Int) (x : ExtRec) (l : L) : CSpec (PostT (Instr.forklabel a b) l) (exec (Instr.forklabel a b) x l) := by
  l_start <;> cs_exec


theorem exec_ci_backtrack  (x : ExtRec) (cp ix : Int) (l : L) :
    CI cp ix (exec Instr.backtrack x l) (exec Instr.backtrack x (setCI l cp ix)) := by
  l_start <;> ci_exec

theorem exec_post_backtrack  (x : ExtRec) (l : L) : CSpec (PostT Instr.backtrack l) (exec Instr.backtrack x l) := by
  l_start <;> cs_exec


theorem exec_ci_jump (t : Int) (x : ExtRec) (cp ix : Int) (l : L) :
    CI cp ix (exec (Instr.jump t) x l) (exec (Instr.jump t) x (setCI l cp ix)) := by
  l_start <;> ci_exec

theorem exec_post_jump (t : Int) (x : ExtRec) (l : L) : CSpec (PostT (Instr.jump t) l) (exec (Instr.jump t) x l) := by
  l_start <;> cs_exec


theorem exec_ci_jumpifnot (t : Int) (x : ExtRec) (cp ix : Int) (l : L) :
    CI cp ix (exec (Instr.jumpifnot t) x l) (exec (Instr.jumpifnot t) x (setCI l cp ix)) := by
  l_start <;> ci_exec

theorem exec_post_jumpifnot (t : Int) (x : ExtRec) (l : L) : CSpec (PostT (Instr.jumpifnot t) l) (exec (Instr.jumpifnot t) x l) := by
  l_start <;> cs_exec


theorem exec_ci_index (k : JV) (x : ExtRec) (cp ix : Int) (l : L) :
    CI cp ix (exec (Instr.index k) x l) (exec (Instr.index k) x (setCI l cp ix)) := by
  l_start <;> ci_exec

theorem exec_post_index (k : JV) (x : ExtRec) (l : L) : CSpec (PostT (Instr.index k) l) (exec (Instr.index k) x l) := by
  l_start <;> cs_exec


theorem exec_ci_indexarray (k : JV) (x : ExtRec) (cp ix : Int) (l : L) :
    CI cp ix (exec (Instr.indexarray k) x l) (exec (Instr.indexarray k) x (setCI l cp ix)) := by
  l_start <;> ci_exec

theorem exec_post_indexarray (k : JV) (x : ExtRec) (l : L) : CSpec (PostT (Instr.indexarray k) l) (exec (Instr.indexarray k) x l) := by
  l_start <;> cs_exec


theorem exec_ci_callNative (kd : NativeKind) (n : Int) (x : ExtRec) (cp ix : Int) (l : L) :
    CI cp ix (exec (Instr.callNative kd n) x l) (exec (Instr.callNative kd n) x (setCI l cp ix)) := by
  l_start <;> ci_exec

theorem exec_post_callNative (kd : NativeKind) (n : Int) (x : ExtRec) (l : L) : CSpec (PostT (Instr.callNative kd n) l) (exec (Instr.callNative kd n) x l) := by
  l_start <;> cs_exec


theorem exec_ci_iter  (x : ExtRec) (cp ix : Int) (l : L) :
    CI cp ix (exec Instr.iter x l) (exec Instr.iter x (setCI l cp ix)) := by
  l_start <;> ci_exec

theorem exec_post_iter  (x : ExtRec) (l : L) : CSpec (PostT Instr.iter l) (exec Instr.iter x l) := by
  l_start <;> cs_exec


theorem exec_ci_expbegin  (x : ExtRec) (cp ix : Int) (l : L) :
    CI cp ix (exec Instr.expbegin x l) (exec Instr.expbegin x (setCI l cp ix)) := by
  l_start <;> ci_exec

theorem exec_post_expbegin  (x : ExtRec) (l : L) : CSpec (PostT Instr.expbegin l) (exec Instr.expbegin x l) := by
  l_start <;> cs_exec


theorem exec_ci_expend  (x : ExtRec) (cp ix : Int) (l : L) :
    CI cp ix (exec Instr.expend x l) (exec Instr.expend x (setCI l cp ix)) := by
  l_start <;> ci_exec

theorem exec_post_expend  (x : ExtRec) (l : L) : CSpec (PostT Instr.expend l) (exec Instr.expend x l) := by
  l_start <;> cs_exec


theorem exec_ci_pathbegin  (x : ExtRec) (cp ix : Int) (l : L) :
    CI cp ix (exec Instr.pathbegin x l) (exec Instr.pathbegin x (setCI l cp ix)) := by
  l_start <;> ci_exec

theorem exec_post_pathbegin  (x : ExtRec) (l : L) : CSpec (PostT Instr.pathbegin l) (exec Instr.pathbegin x l) := by
  l_start <;> cs_exec


theorem exec_ci_pathend  (x : ExtRec) (cp ix : Int) (l : L) :
    CI cp ix (exec Instr.pathend x l) (exec Instr.pathend x (setCI l cp ix)) := by
  l_start <;> ci_exec

theorem exec_post_pathend  (x : ExtRec) (l : L) : CSpec (PostT Instr.pathend l) (exec Instr.pathend x l) := by
  l_start <;> cs_exec


theorem exec_ci_bad  (x : ExtRec) (cp ix : Int) (l : L) :
    CI cp ix (exec Instr.bad x l) (exec Instr.bad x (setCI l cp ix)) := by
  l_start <;> ci_exec

theorem exec_post_bad  (x : ExtRec) (l : L) : CSpec (PostT Instr.bad l) (exec Instr.bad x l) := by
  l_start <;> cs_exec


/-- `callpc` and `index` are dead for every easy opcode -/
theorem exec_setCI (ins : Instr) (he : easy ins = true) (x : ExtRec) (l : L) (cp ix : Int) (e : Env) :
    exec ins x (setCI l cp ix) e = mapCI cp ix (exec ins x l e) := by
  cases ins with
  | nop => exact exec_ci_nop  x cp ix l e
  | push v => exact exec_ci_push v x cp ix l e
  | pop => exact exec_ci_pop  x cp ix l e
  | dup => exact exec_ci_dup  x cp ix l e
  | const v => exact exec_ci_const v x cp ix l e
  | load a b => exact exec_ci_load a b x cp ix l e
  | store a b => exact exec_ci_store a b x cp ix l e
  | object n => exact exec_ci_object n x cp ix l e
  | append a b => exact exec_ci_append a b x cp ix l e
  | fork t => exact exec_ci_fork t x cp ix l e
  | forktrybegin t => exact exec_ci_forktrybegin t x cp ix l e
  | forktryend => exact exec_ci_forktryend  x cp ix l e
  | forkalt t => exact exec_ci_forkalt t x cp ix l e
  | forklabel a b => exact exec_ci_forklabel a b x cp ix l e
  | backtrack => exact exec_ci_backtrack  x cp ix l e
  | jump t => exact exec_ci_jump t x cp ix l e
  | jumpifnot t => exact exec_ci_jumpifnot t x cp ix l e
  | index k => exact exec_ci_index k x cp ix l e
  | indexarray k => exact exec_ci_indexarray k x cp ix l e
  | callNative kd n => exact exec_ci_callNative kd n x cp ix l e
  | iter => exact exec_ci_iter  x cp ix l e
  | expbegin => exact exec_ci_expbegin  x cp ix l e
  | expend => exact exec_ci_expend  x cp ix l e
  | pathbegin => exact exec_ci_pathbegin  x cp ix l e
  | pathend => exact exec_ci_pathend  x cp ix l e
  | bad => exact exec_ci_bad  x cp ix l e
  | call t => simp [easy] at he
  | callrec t => simp [easy] at he
  | pushpc t => simp [easy] at he
  | callpc => simp [easy] at he
  | scope a b d => simp [easy] at he
  | ret => simp [easy] at he

/-- the control result of every easy opcode -/
theorem exec_post (ins : Instr) (he : easy ins = true) (x : ExtRec) (l : L) : CSpec (PostT ins l) (exec ins x l) := by
  cases ins with
  | nop => exact exec_post_nop  x l
  | push v => exact exec_post_push v x l
  | pop => exact exec_post_pop  x l
  | dup => exact exec_post_dup  x l
  | const v => exact exec_post_const v x l
  | load a b => exact exec_post_load a b x l
  | store a b => exact exec_post_store a b x l
  | object n => exact exec_post_object n x l
  | append a b => exact exec_post_append a b x l
  | fork t => exact exec_post_fork t x l
  | forktrybegin t => exact exec_post_forktrybegin t x l
  | forktryend => exact exec_post_forktryend  x l
  | forkalt t => exact exec_post_forkalt t x l
  | forklabel a b => exact exec_post_forklabel a b x l
  | backtrack => exact exec_post_backtrack  x l
  | jump t => exact exec_post_jump t x l
  | jumpifnot t => exact exec_post_jumpifnot t x l
  | index k => exact exec_post_index k x l
  | indexarray k => exact exec_post_indexarray k x l
  | callNative kd n => exact exec_post_callNative kd n x l
  | iter => exact exec_post_iter  x l
  | expbegin => exact exec_post_expbegin  x l
  | expend => exact exec_post_expend  x l
  | pathbegin => exact exec_post_pathbegin  x l
  | pathend => exact exec_post_pathend  x l
  | bad => exact exec_post_bad  x l
  | call t => simp [easy] at he
  | callrec t => simp [easy] at he
  | pushpc t => simp [easy] at he
  | callpc => simp [easy] at he
  | scope a b d => simp [easy] at he
  | ret => simp [easy] at he

end Gojq.TailVM

/-
  Helper lemmas for Props/C13Shipped.lean, part 2: the UNIVERSAL tie of `..` / `recurse`,
  `path(..)`, `paths` and `paths(f)` to the shipped definitions — `Spec.eval` of the regenerated
  ASTs of builtin.jq (Generated/BuiltinDefs.lean) on EVERY value, with and without path tracking,
  for every fuel from an explicit bound (linear in the nesting depth) on.
-/
import Gojq.Proofs.PairsShipped
import Gojq.Proofs.PairsEvalStream
import Gojq.Proofs.PairsPaths
namespace Gojq.Pairs
open Gojq Gojq.Spec Gojq.Pairs.Tie

/-! ### the shipped definitions (ASTs as the real parser dumps them) -/

/-- `.[]?` -/
def iterOptQ : Query := (Query.term [] (Term.mk TermCore.identity [Suffix.iter, Suffix.optional]))
/-- `., (f | r)` -/
def rBody : Query := (Query.binop [] Op.comma (Query.term [] (Term.mk TermCore.identity [])) (Query.term [] (Term.mk (TermCore.query (Query.binop [] Op.pipe (Query.term [] (Term.mk (TermCore.func "f" []) [])) (Query.term [] (Term.mk (TermCore.func "r" []) [])))) [])))
/-- `def r: ., (f | r); r` -/
def recurse1Body : Query := (Query.term [(FuncDef.mk "r" [] rBody)] (Term.mk (TermCore.func "r" []) []))
/-- `recurse(.[]?)` -/
def recurse0Body : Query := (Query.term [] (Term.mk (TermCore.func "recurse" [iterOptQ]) []))

theorem shipped_recurse0 : Generated.Builtins.go_recurse_a00 = .mk "recurse" [] recurse0Body := rfl
theorem shipped_recurse1 : Generated.Builtins.go_recurse_a01 = .mk "recurse" ["f"] recurse1Body := rfl

theorem find_recurse0 : cfgGo.builtins.find "recurse" 0 = some (.mk "recurse" [] recurse0Body) := by
  rw [← shipped_recurse0]; rfl
theorem find_recurse1 : cfgGo.builtins.find "recurse" 1 = some (.mk "recurse" ["f"] recurse1Body) := by
  rw [← shipped_recurse1]; rfl

/-! ### one unfolding of `r` -/

/-- `.[]?` on a state without pending alternative -/
theorem eval_iterOptQ (m : Nat) (hm : 4 ≤ m) (env : Env) (s : St) (hs : s.pend = false) :
    eval m cfgGo env iterOptQ s = catchAll (iterate s) := by
  obtain ⟨n, rfl⟩ : ∃ n, m = n + 4 := ⟨m - 4, by omega⟩
  simp only [iterOptQ, eval_term, Env.defs, List.foldl_nil, evalTerm_succ, evalTermRev, List.reverse_cons, List.reverse_nil,
    List.nil_append, List.cons_append, evalCore_succ, one_bind_nopend _ _ hs]

/-- the body of `r` in any environment where `f` is the closure `.[]?` -/
theorem eval_rBody (n : Nat) (env cenv : Env) (s : St) (hs : s.pend = false)
    (hf : lookupCall "f" 0 env.bs = .clo iterOptQ cenv) :
    eval (n + 13) cfgGo env rBody s =
      stepRes false s (fun x => evalCall (n + 5) cfgGo env "r" [] x) := by
  simp only [rBody, eval_binop, Env.defs, List.foldl_nil, eval_term, evalTerm_succ, evalTermRev, List.reverse_nil, evalCore_succ,
    evalCall_succ (n + 4) cfgGo env "f", List.length_nil, hf, eval_iterOptQ (n + 4) (by omega) cenv s hs, stepRes,
    Bool.false_eq_true, if_false]

/-- the environment in which `r` runs: itself, the closure `f`, the rest -/
def envR (cenv : Env) (rest : List Binding) : Env :=
  .mk (.fn "r" [] rBody false :: .clo "f" iterOptQ cenv :: rest)

theorem evalCall_r (n : Nat) (cenv : Env) (rest : List Binding) (s : St) :
    evalCall (n + 2) cfgGo (envR cenv rest) "r" [] s = eval n cfgGo (envR cenv rest) rBody s := by
  simp only [evalCall_succ, List.length_nil, envR, Env.bs, lookupCall, beq_self_eq_true, Bool.and_self, if_true, callDef_succ,
    List.zip_nil_right, List.filter_nil, List.foldl_nil, bindValsK]

theorem step_r (cenv : Env) (rest : List Binding) (n : Nat) (s : St) (hs : Trk s) :
    evalCall (n + 10 + 5) cfgGo (envR cenv rest) "r" [] s =
      stepRes false s (fun x => evalCall (n + 5) cfgGo (envR cenv rest) "r" [] x) := by
  rw [evalCall_r (n + 13) cenv rest s, eval_rBody n (envR cenv rest) cenv s hs.pend rfl]

/-- `r` (of `recurse(.[]?)`) emits the nodes of the value in pre-order, in both modes -/
theorem evalCall_r_walk (cenv : Env) (rest : List Binding) (s : St) (hs : Trk s) (m : Nat)
    (hm : 10 * (depth s.v + 1) + 5 ≤ m) :
    evalCall m cfgGo (envR cenv rest) "r" [] s = ⟨(nodes false [] s.v).map (descN s), .done⟩ := by
  obtain ⟨k, rfl⟩ : ∃ k, m = k + 5 := ⟨m - 5, by omega⟩
  exact walk_root (fun n x => evalCall (n + 5) cfgGo (envR cenv rest) "r" [] x) 10 false
    (fun n x hx => step_r cenv rest n x hx) s hs k (by omega)

/-! ### `recurse(.[]?)`, `recurse`, `..` -/

theorem evalCall_recurse1 (n : Nat) (env : Env) (s : St) (h : lookupCall "recurse" 1 env.bs = .none) :
    evalCall (n + 5) cfgGo env "recurse" [iterOptQ] s =
      evalCall n cfgGo (envR env [.fn "recurse" ["f"] recurse1Body true]) "r" [] s := by
  have hsw : "recurse".startsWith "$" = false := by decide +kernel
  have hf : "f".startsWith "$" = false := by decide +kernel
  simp only [evalCall_succ (n + 4), List.length_cons, List.length_nil, Nat.zero_add, h, hsw, Bool.false_eq_true, if_false,
    find_recurse1, callDef_succ, FuncDef.name, FuncDef.params, FuncDef.body, List.zip_cons_cons, List.zip_nil_right,
    List.foldl_cons, List.foldl_nil, List.filter_cons, List.filter_nil, hf, bindValsK]
  simp only [recurse1Body, eval_term, Env.defs, List.foldl_cons, List.foldl_nil, evalTerm_succ, evalTermRev, List.reverse_nil,
    evalCore_succ, FuncDef.name, FuncDef.params, FuncDef.body]
  rfl

theorem evalCall_recurse0 (n : Nat) (env : Env) (s : St) (h : lookupCall "recurse" 0 env.bs = .none) :
    evalCall (n + 10) cfgGo env "recurse" [] s =
      evalCall n cfgGo (envR (.mk [.fn "recurse" [] recurse0Body true]) [.fn "recurse" ["f"] recurse1Body true]) "r" [] s := by
  have hsw : "recurse".startsWith "$" = false := by decide +kernel
  simp only [evalCall_succ (n + 9), List.length_nil, h, hsw, Bool.false_eq_true, if_false, find_recurse0, callDef_succ,
    FuncDef.name, FuncDef.params, FuncDef.body, List.zip_nil_right, List.filter_nil, List.foldl_nil, bindValsK]
  simp only [recurse0Body, eval_term, Env.defs, List.foldl_nil, evalTerm_succ, evalTermRev, List.reverse_nil, evalCore_succ]
  exact evalCall_recurse1 n _ s rfl

/-- **`recurse` as shipped, in both modes**: the nodes of the value in pre-order -/
theorem evalCall_recurse (m : Nat) (env : Env) (s : St) (hs : Trk s) (hm : 10 * depth s.v + 25 ≤ m)
    (h : lookupCall "recurse" 0 env.bs = .none) :
    evalCall m cfgGo env "recurse" [] s = ⟨(nodes false [] s.v).map (descN s), .done⟩ := by
  obtain ⟨n, rfl⟩ : ∃ n, m = n + 10 := ⟨m - 10, by omega⟩
  rw [evalCall_recurse0 n env s h]
  exact evalCall_r_walk _ _ s hs n (by omega)

/-- `..` -/
def recurseQ : Query := (Query.term [] (Term.mk TermCore.recurse []))
/-- `recurse` -/
def recurseCallQ : Query := (Query.term [] (Term.mk (TermCore.func "recurse" []) []))

theorem eval_recurseQ (m : Nat) (env : Env) (s : St) (hs : Trk s) (hm : 10 * depth s.v + 28 ≤ m)
    (h : lookupCall "recurse" 0 env.bs = .none) :
    eval m cfgGo env recurseQ s = ⟨(nodes false [] s.v).map (descN s), .done⟩ := by
  obtain ⟨n, rfl⟩ : ∃ n, m = n + 3 := ⟨m - 3, by omega⟩
  simp only [recurseQ, eval_term, Env.defs, List.foldl_nil, evalTerm_succ, evalTermRev, List.reverse_nil, evalCore_succ]
  exact evalCall_recurse n env s hs (by omega) h

theorem eval_recurseCallQ (m : Nat) (env : Env) (s : St) (hs : Trk s) (hm : 10 * depth s.v + 28 ≤ m)
    (h : lookupCall "recurse" 0 env.bs = .none) :
    eval m cfgGo env recurseCallQ s = ⟨(nodes false [] s.v).map (descN s), .done⟩ := by
  obtain ⟨n, rfl⟩ : ∃ n, m = n + 3 := ⟨m - 3, by omega⟩
  simp only [recurseCallQ, eval_term, Env.defs, List.foldl_nil, evalTerm_succ, evalTermRev, List.reverse_nil, evalCore_succ]
  exact evalCall_recurse n env s hs (by omega) h

end Gojq.Pairs

/-
  C08 (bytecode checker): every opcode keeps the invariant — part 1: helpers and the opcodes that
  only move values between the data stack and the variable slots.
-/
import Gojq.Proofs.SafeVMInv
set_option linter.unusedSimpArgs false
set_option linter.unusedVariables false
namespace Gojq.SafeVM
open Gojq Gojq.VM

/-- instructions that may be (re-)entered in backtrack mode -/
def bOK : Shape → Bool
  | .fork _ | .forkalt _ | .forktrybegin _ | .iter | .forklabel _ _ | .forktryend | .object _ | .backtrack
  | .index _ | .indexarray _ | .call _ | .callNative _ _ | .ret | .pathend => true
  | _ => false

theorem BConf.code {S : SC} {fne : Prop} {pc err stk pa fr} (h : BConf S fne pc err stk pa fr) {i : Shape}
    (hc : codeAt S pc = some i) : bOK i = true := by
  unfold BConf at h
  rw [hc] at h
  cases i <;> first | rfl | exact h.elim

/-- an instruction that is never entered in backtrack mode runs in normal mode -/
theorem Inv.elimN {S : SC} {l : L} {e : Env} (hI : Inv S l e) {i : Shape} (hc : codeAt S l.pc = some i)
    (hb : bOK i = false) :
    l.backtrack = false ∧ ∃ A, View e A ∧ GInv S e ∧ ForksConf S A.forks ∧ PathsInv A ∧ NMode S l e A := by
  obtain ⟨A, hV, G, hF, hP, hM⟩ := hI
  by_cases hbt : l.backtrack = true
  · rw [if_pos hbt] at hM
    rcases hM.2 with h | h
    · have := codeAt_range hc; omega
    · have := h.code hc; rw [hb] at this; cases this
  · rw [if_neg hbt] at hM
    exact ⟨by simpa using hbt, A, hV, G, hF, hP, hM⟩

theorem NMode.unpack {S : SC} (C : Checked S) {l : L} {e : Env} {A : AView} (hN : NMode S l e A) {i : Shape}
    (hc : codeAt S l.pc = some i) :
    l.err = none ∧ ∃ a succs, annAt S l.pc = some a ∧ step1 S.code S.tab S.nvars l.pc.toNat a i = some succs ∧
      (∀ s ∈ succs, SuccOK S s) ∧ ((l.pc.toNat : Nat) : Int) = l.pc ∧ (a.pend = true → A.forks ≠ []) ∧
      (if isScope i = true then EntryConf S (A.forks ≠ []) l a A ∧ l.index < e.scopes.data.size
       else HConf S (A.forks ≠ []) a A.stk A.paths A.frames) := by
  obtain ⟨herr, a, i', ha, hc', hp, hconf⟩ := hN
  rw [hc] at hc'
  simp only [Option.some.injEq] at hc'
  subst hc'
  obtain ⟨_, succs, hst, hs, hpc⟩ := C.step l.pc a i ha hc
  exact ⟨herr, a, succs, ha, hst, hs, hpc, hp, hconf⟩

theorem HConf.resize {S : SC} {p : Prop} {a a' : Abs} {stk stk' : List (Int × V)} {pa fr}
    (c : HConf S p a stk pa fr) (hl : stk.length + a'.h ≤ stk'.length + a.h)
    (hd : a'.pd ≤ a.pd := by exact Nat.le_refl _) : HConf S p a' stk' pa fr :=
  ⟨c.ne, c.fr, by have := c.len; omega, by have := c.plen; omega⟩

theorem HConf.cons_of_pos {S : SC} {p : Prop} {a : Abs} {stk : List (Int × V)} {pa fr}
    (c : HConf S p a stk pa fr) (hh : 1 ≤ a.h) : ∃ i v r, stk = (i, v) :: r := by
  cases stk with
  | nil => have := c.len; simp at this; omega
  | cons q r => exact ⟨q.1, q.2, r, rfl⟩

/-- `Post` for an instruction that falls through with the forks unchanged -/
theorem Post.fall {S : SC} {l : L} {e' : Env} {A' : AView} (hV : View e' A') (G : GInv S e')
    (hF : ForksConf S A'.forks) (hP : PathsInv A') (hb : l.backtrack = false)
    (hN : NMode S { l with pc := l.pc + 1 } e' A') :
    Post S (.fall, l) e' := ⟨A', hV, G, hF, hP, hb, hN⟩

theorem Post.jump {S : SC} {l : L} {e' : Env} {A' : AView} (hV : View e' A') (G : GInv S e')
    (hF : ForksConf S A'.forks) (hP : PathsInv A') (hb : l.backtrack = false) (hN : NMode S l e' A') :
    Post S (.jump, l) e' := ⟨A', hV, G, hF, hP, hb, hN⟩

theorem succ1 {α : Type} {P : α → Prop} {s1 : α} (h : ∀ s ∈ [s1], P s) : P s1 := h s1 (by simp)
theorem succ2 {α : Type} {P : α → Prop} {s1 s2 : α} (h : ∀ s ∈ [s1, s2], P s) : P s1 ∧ P s2 :=
  ⟨h s1 (by simp), h s2 (by simp)⟩

theorem NMode.fall {S : SC} {a' : Abs} {l : L} {e : Env} {A : AView} (hs : SuccOK S (l.pc + 1, a'))
    (herr : l.err = none) (hp : a'.pend = true → A.forks ≠ [])
    (hc : HConf S (A.forks ≠ []) a' A.stk A.paths A.frames) : NMode S { l with pc := l.pc + 1 } e A :=
  NMode.of_succ hs herr rfl hp hc

theorem exec_nop {S : SC} (C : Checked S) {x : ExtRec} {l : L} {e : Env}
    (hc : codeAt S l.pc = some .nop) (hI : Inv S l e) : WP (exec .nop x l) (Post S) e := by
  obtain ⟨hb, A, hV, G, hF, hP, hN⟩ := hI.elimN hc rfl
  obtain ⟨herr, a, succs, ha, hst, hsucc, hpc, hp, hconf⟩ := hN.unpack C hc
  simp only [step1, Option.some.injEq] at hst
  subst hst
  rw [hpc] at hsucc
  rw [if_neg (by simp [isScope])] at hconf
  simp only [exec]
  apply WP.pure
  exact Post.fall hV G hF hP hb (NMode.fall (succ1 hsucc) herr hp hconf)

theorem exec_push {S : SC} (C : Checked S) {v : JV} {x : ExtRec} {l : L} {e : Env}
    (hc : codeAt S l.pc = some (.push (isArrJV v))) (hI : Inv S l e) : WP (exec (.push v) x l) (Post S) e := by
  obtain ⟨hb, A, hV, G, hF, hP, hN⟩ := hI.elimN hc rfl
  obtain ⟨herr, a, succs, ha, hst, hsucc, hpc, hp, hconf⟩ := hN.unpack C hc
  simp only [step1, Option.some.injEq] at hst
  subst hst
  rw [hpc] at hsucc
  rw [if_neg (by simp [isScope])] at hconf
  simp only [exec]
  apply WP.step (push_eq _ _)
  apply WP.pure
  exact Post.fall (hV.push _) (G.push rfl) hF hP hb
    (NMode.fall (succ1 hsucc) herr hp (hconf.resize (by simp; omega)))

theorem exec_pop {S : SC} (C : Checked S) {x : ExtRec} {l : L} {e : Env}
    (hc : codeAt S l.pc = some .pop) (hI : Inv S l e) : WP (exec .pop x l) (Post S) e := by
  obtain ⟨hb, A, hV, G, hF, hP, hN⟩ := hI.elimN hc rfl
  obtain ⟨herr, a, succs, ha, hst, hsucc, hpc, hp, hconf⟩ := hN.unpack C hc
  simp only [step1] at hst
  split at hst
  · rename_i hh
    simp only [Option.some.injEq] at hst
    subst hst
    rw [hpc] at hsucc
    rw [if_neg (by simp [isScope])] at hconf
    obtain ⟨i, v, r, hstk⟩ := hconf.cons_of_pos hh
    obtain ⟨nx, hpop, hV1, G1, hv⟩ := pop_spec hV G hstk
    simp only [exec]
    apply WP.step hpop
    apply WP.pure
    exact Post.fall hV1 G1 hF hP hb
      (NMode.fall (succ1 hsucc) herr hp (hconf.resize (by simp [hstk]; omega)))
  · simp at hst

theorem getEnv_eq (e : Env) : getEnv e = .ok e e := rfl
theorem modifyEnv_eq (f : Env → Env) (e : Env) : modifyEnv f e = .ok () (f e) := rfl
theorem pathsPush_eq (v : V) (e : Env) : pathsPush v e = .ok () { e with paths := e.paths.push v } := rfl

theorem WP.envIndex {S : SC} {β : Type} {e : Env} {A : AView} (hV : View e A) (G : GInv S e) {id off : Int}
    (hs : slotOK S.tab id off = true) {f : Int → M β} {Q : β → Env → Prop}
    (h : ∀ k : Int, 0 ≤ k → k < e.values.size → WP (f k) Q e) : WP (VM.envIndex id off >>= f) Q e := by
  apply WP.bind
  have := envIndex_slot hV G hs
  unfold WP
  cases hm : VM.envIndex id off e with
  | ok k e' =>
    rw [hm] at this
    obtain ⟨rfl, h0, h1⟩ := this
    exact h k h0 h1
  | panic s => rw [hm] at this; exact this
  | stuck w => trivial

theorem exec_dup {S : SC} (C : Checked S) {x : ExtRec} {l : L} {e : Env}
    (hc : codeAt S l.pc = some .dup) (hI : Inv S l e) : WP (exec .dup x l) (Post S) e := by
  obtain ⟨hb, A, hV, G, hF, hP, hN⟩ := hI.elimN hc rfl
  obtain ⟨herr, a, succs, ha, hst, hsucc, hpc, hp, hconf⟩ := hN.unpack C hc
  simp only [step1] at hst
  split at hst
  · rename_i hh
    simp only [Option.some.injEq] at hst
    subst hst
    rw [hpc] at hsucc
    rw [if_neg (by simp [isScope])] at hconf
    obtain ⟨i, v, r, hstk⟩ := hconf.cons_of_pos hh
    obtain ⟨nx, hpop, hV1, G1, hv⟩ := pop_spec hV G hstk
    simp only [exec]
    apply WP.step hpop
    apply WP.step (push_eq _ _)
    apply WP.step (push_eq _ _)
    apply WP.pure
    exact Post.fall ((hV1.push v).push v) ((G1.push hv).push hv) hF hP hb
      (NMode.fall (succ1 hsucc) herr hp (hconf.resize (by simp [hstk]; omega)))
  · simp at hst

theorem exec_const {S : SC} (C : Checked S) {w : JV} {x : ExtRec} {l : L} {e : Env}
    (hc : codeAt S l.pc = some .const) (hI : Inv S l e) : WP (exec (.const w) x l) (Post S) e := by
  obtain ⟨hb, A, hV, G, hF, hP, hN⟩ := hI.elimN hc rfl
  obtain ⟨herr, a, succs, ha, hst, hsucc, hpc, hp, hconf⟩ := hN.unpack C hc
  simp only [step1] at hst
  split at hst
  · rename_i hh
    simp only [Option.some.injEq] at hst
    subst hst
    rw [hpc] at hsucc
    rw [if_neg (by simp [isScope])] at hconf
    obtain ⟨i, v, r, hstk⟩ := hconf.cons_of_pos hh
    obtain ⟨nx, hpop, hV1, G1, hv⟩ := pop_spec hV G hstk
    simp only [exec]
    apply WP.step hpop
    apply WP.step (push_eq _ _)
    apply WP.pure
    exact Post.fall (hV1.push _) (G1.push rfl) hF hP hb
      (NMode.fall (succ1 hsucc) herr hp (hconf.resize (by simp [hstk])))
  · simp at hst

theorem exec_load {S : SC} (C : Checked S) {id i : Int} {x : ExtRec} {l : L} {e : Env}
    (hc : codeAt S l.pc = some (.load id i)) (hI : Inv S l e) : WP (exec (.load id i) x l) (Post S) e := by
  obtain ⟨hb, A, hV, G, hF, hP, hN⟩ := hI.elimN hc rfl
  obtain ⟨herr, a, succs, ha, hst, hsucc, hpc, hp, hconf⟩ := hN.unpack C hc
  simp only [step1] at hst
  split at hst
  · rename_i hslot
    simp only [Option.some.injEq] at hst
    subst hst
    rw [hpc] at hsucc
    rw [if_neg (by simp [isScope])] at hconf
    simp only [exec]
    apply WP.envIndex hV G hslot
    intro k h0 h1
    obtain ⟨v, hget, hv⟩ := getValue_spec G h0 h1
    apply WP.step hget
    apply WP.step (push_eq _ _)
    apply WP.pure
    exact Post.fall (hV.push _) (G.push hv) hF hP hb
      (NMode.fall (succ1 hsucc) herr hp (hconf.resize (by simp; omega)))
  · simp at hst

theorem exec_store {S : SC} (C : Checked S) {id i : Int} {x : ExtRec} {l : L} {e : Env}
    (hc : codeAt S l.pc = some (.store id i)) (hI : Inv S l e) : WP (exec (.store id i) x l) (Post S) e := by
  obtain ⟨hb, A, hV, G, hF, hP, hN⟩ := hI.elimN hc rfl
  obtain ⟨herr, a, succs, ha, hst, hsucc, hpc, hp, hconf⟩ := hN.unpack C hc
  simp only [step1] at hst
  split at hst
  · rename_i hh
    obtain ⟨hh, hslot⟩ := hh
    simp only [Option.some.injEq] at hst
    subst hst
    rw [hpc] at hsucc
    rw [if_neg (by simp [isScope])] at hconf
    obtain ⟨j, v, r, hstk⟩ := hconf.cons_of_pos hh
    simp only [exec]
    apply WP.envIndex hV G hslot
    intro k h0 h1
    obtain ⟨nx, hpop, hV1, G1, hv⟩ := pop_spec hV G hstk
    apply WP.step hpop
    obtain ⟨hset, hV2, G2⟩ := setValue_spec hV1 G1 (k := k) h0 h1 hv
    apply WP.step hset
    apply WP.pure
    exact Post.fall hV2 G2 hF hP hb
      (NMode.fall (succ1 hsucc) herr hp (hconf.resize (by simp [hstk]; omega)))
  · simp at hst

theorem exec_append {S : SC} (C : Checked S) {id i : Int} {x : ExtRec} {l : L} {e : Env}
    (hc : codeAt S l.pc = some (.append id i)) (hI : Inv S l e) : WP (exec (.append id i) x l) (Post S) e := by
  obtain ⟨hb, A, hV, G, hF, hP, hN⟩ := hI.elimN hc rfl
  obtain ⟨herr, a, succs, ha, hst, hsucc, hpc, hp, hconf⟩ := hN.unpack C hc
  simp only [step1] at hst
  split at hst
  · rename_i hh
    obtain ⟨hh, hslot⟩ := hh
    simp only [Option.some.injEq] at hst
    subst hst
    rw [hpc] at hsucc
    rw [if_neg (by simp [isScope])] at hconf
    obtain ⟨j, v, r, hstk⟩ := hconf.cons_of_pos hh
    simp only [exec]
    apply WP.envIndex hV G hslot
    intro k h0 h1
    obtain ⟨w, hget, hw⟩ := getValue_spec G h0 h1
    apply WP.step hget
    split
    · obtain ⟨nx, hpop, hV1, G1, hv⟩ := pop_spec hV G hstk
      apply WP.step hpop
      cases v with
      | jv jv =>
        simp only [asJV]
        apply WP.step (rfl : (pure jv : M JV) _ = .ok jv _)
        obtain ⟨hset, hV2, G2⟩ := setValue_spec hV1 G1 (k := k) (v := .jv (.arr (_ ++ [jv]))) h0 h1 rfl
        apply WP.step hset
        apply WP.pure
        exact Post.fall hV2 G2 hF hP hb
          (NMode.fall (succ1 hsucc) herr hp (hconf.resize (by simp [hstk]; omega)))
      | _ => simp only [asJV]; apply WP.bind; exact WP.stuck
    · exact WP.panic rfl
  · simp at hst

theorem exec_jump {S : SC} (C : Checked S) {t : Int} {x : ExtRec} {l : L} {e : Env}
    (hc : codeAt S l.pc = some (.jump t)) (hI : Inv S l e) : WP (exec (.jump t) x l) (Post S) e := by
  obtain ⟨hb, A, hV, G, hF, hP, hN⟩ := hI.elimN hc rfl
  obtain ⟨herr, a, succs, ha, hst, hsucc, hpc, hp, hconf⟩ := hN.unpack C hc
  simp only [step1, Option.some.injEq] at hst
  subst hst
  rw [if_neg (by simp [isScope])] at hconf
  simp only [exec]
  apply WP.pure
  exact Post.jump hV G hF hP hb (NMode.of_succ (succ1 hsucc) herr rfl hp hconf)

theorem exec_jumpifnot {S : SC} (C : Checked S) {t : Int} {x : ExtRec} {l : L} {e : Env}
    (hc : codeAt S l.pc = some (.jumpifnot t)) (hI : Inv S l e) : WP (exec (.jumpifnot t) x l) (Post S) e := by
  obtain ⟨hb, A, hV, G, hF, hP, hN⟩ := hI.elimN hc rfl
  obtain ⟨herr, a, succs, ha, hst, hsucc, hpc, hp, hconf⟩ := hN.unpack C hc
  simp only [step1] at hst
  split at hst
  · rename_i hh
    simp only [Option.some.injEq] at hst
    subst hst
    rw [hpc] at hsucc
    rw [if_neg (by simp [isScope])] at hconf
    obtain ⟨i, v, r, hstk⟩ := hconf.cons_of_pos hh
    obtain ⟨nx, hpop, hV1, G1, hv⟩ := pop_spec hV G hstk
    obtain ⟨hs1, hs2⟩ := succ2 hsucc
    have hc' := hconf.resize (a' := { a with h := a.h - 1 }) (stk' := r) (by simp [hstk]; omega)
    simp only [exec]
    apply WP.step hpop
    split
    · apply WP.pure
      exact Post.jump hV1 G1 hF hP hb (NMode.of_succ hs2 herr rfl hp hc')
    · apply WP.pure
      exact Post.jump hV1 G1 hF hP hb (NMode.of_succ hs2 herr rfl hp hc')
    · apply WP.pure
      exact Post.fall hV1 G1 hF hP hb (NMode.fall hs1 herr hp hc')
  · simp at hst

theorem exec_expbegin {S : SC} (C : Checked S) {x : ExtRec} {l : L} {e : Env}
    (hc : codeAt S l.pc = some .expbegin) (hI : Inv S l e) : WP (exec .expbegin x l) (Post S) e := by
  obtain ⟨hb, A, hV, G, hF, hP, hN⟩ := hI.elimN hc rfl
  obtain ⟨herr, a, succs, ha, hst, hsucc, hpc, hp, hconf⟩ := hN.unpack C hc
  simp only [step1, Option.some.injEq] at hst
  subst hst
  rw [hpc] at hsucc
  rw [if_neg (by simp [isScope])] at hconf
  simp only [exec]
  apply WP.step (modifyEnv_eq _ _)
  apply WP.pure
  exact Post.fall (hV.fr ⟨rfl, rfl, rfl, rfl, rfl⟩) (G.fr ⟨rfl, rfl, rfl, rfl, rfl⟩) hF hP hb
    (NMode.fall (succ1 hsucc) herr hp hconf)

theorem exec_expend {S : SC} (C : Checked S) {x : ExtRec} {l : L} {e : Env}
    (hc : codeAt S l.pc = some .expend) (hI : Inv S l e) : WP (exec .expend x l) (Post S) e := by
  obtain ⟨hb, A, hV, G, hF, hP, hN⟩ := hI.elimN hc rfl
  obtain ⟨herr, a, succs, ha, hst, hsucc, hpc, hp, hconf⟩ := hN.unpack C hc
  simp only [step1, Option.some.injEq] at hst
  subst hst
  rw [hpc] at hsucc
  rw [if_neg (by simp [isScope])] at hconf
  simp only [exec]
  apply WP.step (modifyEnv_eq _ _)
  apply WP.pure
  exact Post.fall (hV.fr ⟨rfl, rfl, rfl, rfl, rfl⟩) (G.fr ⟨rfl, rfl, rfl, rfl, rfl⟩) hF hP hb
    (NMode.fall (succ1 hsucc) herr hp hconf)

theorem exec_pathbegin {S : SC} (C : Checked S) {x : ExtRec} {l : L} {e : Env}
    (hc : codeAt S l.pc = some .pathbegin) (hI : Inv S l e) : WP (exec .pathbegin x l) (Post S) e := by
  obtain ⟨hb, A, hV, G, hF, hP, hN⟩ := hI.elimN hc rfl
  obtain ⟨herr, a, succs, ha, hst, hsucc, hpc, hp, hconf⟩ := hN.unpack C hc
  simp only [step1] at hst
  split at hst
  · rename_i hh
    simp only [Option.some.injEq] at hst
    subst hst
    rw [hpc] at hsucc
    rw [if_neg (by simp [isScope])] at hconf
    obtain ⟨i, v, r, hstk⟩ := hconf.cons_of_pos hh
    simp only [exec]
    apply WP.step (getEnv_eq _)
    apply WP.step (pathsPush_eq _ _)
    have hV1 := pathsPush_view hV (.jv (.num (.int e.expdepth)))
    have G1 : GInv S { e with paths := e.paths.push (.jv (.num (.int e.expdepth))) } := G.fr ⟨rfl, rfl, rfl, rfl, rfl⟩
    obtain ⟨htop, _⟩ := stackTop_spec hV1 G1 hstk
    apply WP.step htop
    apply WP.step (pathsPush_eq _ _)
    have hV2 := pathsPush_view hV1 (.pv (.jv .null) v)
    apply WP.step (modifyEnv_eq _ _)
    apply WP.pure
    refine Post.fall (hV2.fr ⟨rfl, rfl, rfl, rfl, rfl⟩) (G1.fr ⟨rfl, rfl, rfl, rfl, rfl⟩) hF ⟨POK.seg hP.1, hP.2⟩ hb
      (NMode.fall (succ1 hsucc) herr hp ⟨hconf.ne, hconf.fr, hconf.len, ?_⟩)
    have := hconf.plen
    simp only [segs_seg]
    omega
  · simp at hst

theorem entryHI_target {S : SC} {t : Int} (h : entryHI S.code S.nvars t = some 1) : S.target t = true := by
  unfold SC.target; rw [h]; rfl

theorem exec_pushpc {S : SC} (C : Checked S) {t : Int} {x : ExtRec} {l : L} {e : Env}
    (hc : codeAt S l.pc = some (.pushpc t)) (hI : Inv S l e) : WP (exec (.pushpc t) x l) (Post S) e := by
  obtain ⟨hb, A, hV, G, hF, hP, hN⟩ := hI.elimN hc rfl
  obtain ⟨herr, a, succs, ha, hst, hsucc, hpc, hp, hconf⟩ := hN.unpack C hc
  simp only [step1] at hst
  split at hst
  · rename_i k hk
    split at hst
    · rename_i hk1
      subst hk1
      simp only [Option.some.injEq] at hst
      subst hst
      rw [hpc] at hsucc
      rw [if_neg (by simp [isScope])] at hconf
      simp only [exec]
      apply WP.step (getEnv_eq _)
      apply WP.step (push_eq _ _)
      apply WP.pure
      have hv : VOK S e (.clo t e.scopes.index) := by
        simp only [VOK, vok, Bool.and_eq_true, decide_eq_true_eq]
        exact ⟨entryHI_target hk, hV.scopes.chain.index_lt⟩
      exact Post.fall (hV.push _) (G.push hv) hF hP hb
        (NMode.fall (succ1 hsucc) herr hp (hconf.resize (by simp; omega)))
    · simp at hst
  · simp at hst

/-
  Round trip, part 8: object construction (keys, `objectval`), patterns (array, object,
  destructuring alternatives), function definitions.
-/
import Gojq.Proofs.RoundTripForms
namespace Gojq.RefTerm
open Gojq

/-! ### `objectval` -/

/-- a token of level ≤ 2 (or no operator at all) may follow an operator expression -/
theorem followQ_expr (x : Tok) (hx : plainTok x = true) (hop : ∀ o', binopOfTok x = some o' → o'.lv ≤ 2) :
    ∀ (q : Query) (m : Nat), 3 ≤ m → okQ false m q = true → followQ q (some x) = true
  | .term t, _, _, _ => by
    simp only [followQ, followT_plain t x hx, noSuf_of_plain hx, Bool.and_self]
  | .binop o l r, m, hm, hok => by
    rw [okQ_binop] at hok
    simp only [Bool.and_eq_true, decide_eq_true_eq] at hok
    obtain ⟨⟨⟨h1, _⟩, _⟩, h4⟩ := hok
    have h3 : 3 ≤ o.lv := Nat.le_trans hm h1
    have hd : decide (o.lv ≤ 2) = false := by simp; omega
    rw [hd] at h4
    have hr := followQ_expr x hx hop r o.rmin (Nat.le_trans h3 (lv_le_rmin o)) h4
    simp only [followQ, hr, opFollow, Bool.true_and]
    cases ho : binopOfTok x with
    | some o' =>
      have := hop o' ho
      have := lv_le_absorb o
      simp; omega
    | none => simp [h3]
  | .bind _ [] _, _, _, hok => by rw [okQ_bind_nil] at hok; cases hok
  | .bind _ (_ :: _) _, _, _, hok => by rw [okQ_bind] at hok; simp at hok
  | .def_ _ _, _, _, hok => by rw [okQ_def] at hok; simp at hok
  | .label _ _, _, _, hok => by rw [okQ_label] at hok; simp at hok

/-- an operator expression followed by `,`, `|` or a closing token -/
theorem climb_expr (q : Query) (ih : RTQ q) (x : Tok) (rest : List Tok) (hx : plainTok x = true)
    (hop : ∀ o', binopOfTok x = some o' → o'.lv ≤ 2) (_hna : x ≠ .kw .as_) (hok : okQ false 3 q = true) :
    ∃ F, ∀ f, F ≤ f → pClimb f false 3 (toks (itemsQ q) ++ x :: rest) = some (q, x :: rest) := by
  refine climb_done q ih false 3 (x :: rest) hok (by simpa using followQ_expr x hx hop q 3 (Nat.le_refl _) hok) ?_ ?_
  · intro y o hy ho
    simp at hy; subst hy
    have := hop o ho; omega
  · intro _; rfl

theorem pObjVal_one (f : Nat) (X ts : List Tok) (e : Query) (h : pClimb f false 3 X = some (e, ts))
    (hne : ∀ r', ts ≠ .ch 124 :: r') : pObjVal (f + 1) X = some (e, ts) := by
  rw [pObjVal]
  simp only [h, Option.bind_eq_bind, Option.bind_some]

theorem pObjVal_pipe (f : Nat) (X Y ts : List Tok) (e r : Query) (h : pClimb f false 3 X = some (e, .ch 124 :: Y))
    (h2 : pObjVal f Y = some (r, ts)) : pObjVal (f + 1) X = some (.binop .pipe e r, ts) := by
  rw [pObjVal]
  simp only [h, h2, Option.bind_eq_bind, Option.bind_some]

/-- the two tokens that follow an object value -/
def kvEnd (rest : List Tok) : Prop := rest.head? = some (.ch 44) ∨ rest.head? = some (.ch 125)

theorem kvEnd_cases {rest : List Tok} (h : kvEnd rest) :
    ∃ x r, rest = x :: r ∧ plainTok x = true ∧ (∀ o', binopOfTok x = some o' → o'.lv ≤ 2) ∧ x ≠ .kw .as_ ∧
      x ≠ .ch 124 ∧ x ≠ .ch 58 := by
  cases rest with
  | nil => rcases h with h | h <;> cases h
  | cons x r =>
    refine ⟨x, r, rfl, ?_⟩
    rcases h with h | h
    · simp at h; subst h
      refine ⟨rfl, ?_, by decide, by decide, by decide⟩
      intro o' ho; simp [binopOfTok] at ho; subst ho; decide
    · simp at h; subst h
      refine ⟨rfl, ?_, by decide, by decide, by decide⟩
      intro o' ho; simp [binopOfTok] at ho

/-- an object value without a top-level `|` -/
theorem ov_expr (v : Query) (ih : RTQ v) (hok3 : okQ false 3 v = true) : ∀ (rest : List Tok), kvEnd rest →
    ∃ F, ∀ f, F ≤ f → pObjVal f (toks (itemsQ v) ++ rest) = some (v, rest) := by
  intro rest hend
  obtain ⟨x, r, rfl, hx, hop, hna, hnp, _⟩ := kvEnd_cases hend
  obtain ⟨F, h⟩ := climb_expr v ih x r hx hop hna hok3
  refine ⟨F + 1, fun f hf => ?_⟩
  obtain ⟨k, rfl⟩ : ∃ k, f = k + 1 := ⟨f - 1, by omega⟩
  refine pObjVal_one k _ _ v (h k (by omega)) ?_
  intro r' e; injection e with e _; exact hnp e

theorem okOV_term (t : Term) : okOV (.term t) = okT t := by simp only [okOV]

theorem okOV_binop (o : BOp) (l r : Query) : okOV (.binop o l r) =
    (if o = .pipe then okQ false 3 l && closedQ l && okOV r
     else decide (3 ≤ o.lv) && okQ false o.lmin l && closedQ l && okQ false o.rmin r) := by
  simp only [okOV]

theorem ov_term (t : Term) (ih : RTT t) : RTOV (.term t) := fun rest hok hend =>
  ov_expr (.term t) (rt_term t ih) (by rw [okQ_term]; rw [okOV_term] at hok; exact hok) rest hend

theorem ov_binop (o : BOp) (l r : Query) (ho : o ≠ .pipe) (ihl : RTQ l) (ihr : RTQ r) : RTOV (.binop o l r) :=
  fun rest hok hend => by
  rw [okOV_binop] at hok
  simp only [ho, if_false, Bool.and_eq_true, decide_eq_true_eq] at hok
  refine ov_expr (.binop o l r) (rt_binop o l r ihl ihr) ?_ rest hend
  rw [okQ_binop]
  have hd : decide (o.lv ≤ 2) = false := by simp; omega
  simp only [hd, Bool.and_eq_true, decide_eq_true_eq]
  exact hok

theorem ov_pipe (l r : Query) (ihl : RTQ l) (ihr : RTOV r) : RTOV (.binop .pipe l r) := fun rest hok hend => by
  rw [okOV_binop] at hok
  simp only [if_true, Bool.and_eq_true] at hok
  obtain ⟨⟨hl, _⟩, hr⟩ := hok
  obtain ⟨Fl, hL⟩ := climb_expr l ihl (.ch 124) (toks (itemsQ r) ++ rest) rfl
    (by intro o' h; simp [binopOfTok] at h; subst h; decide) (by decide) hl
  obtain ⟨Fr, hR⟩ := ihr rest hr hend
  refine ⟨Fl + Fr + 1, fun f hf => ?_⟩
  obtain ⟨k, rfl⟩ : ∃ k, f = k + 1 := ⟨f - 1, by omega⟩
  have e : toks (itemsQ (.binop .pipe l r)) ++ rest = toks (itemsQ l) ++ .ch 124 :: (toks (itemsQ r) ++ rest) := by
    simp [itemsQ, opTok]
  rw [e]
  exact pObjVal_pipe k _ _ rest l r (hL k (by omega)) (hR k (by omega))

/-! ### object entries -/

theorem pKV_nameVal (f : Nat) (t : Tok) (n : Bytes) (X ts : List Tok) (v : Query)
    (h1 : ∀ w, t ≠ .str w) (h2 : t ≠ .strStart) (h3 : t ≠ .ch 40) (hk : keyOfTok t = some n)
    (hv : pObjVal f X = some (v, ts)) : pKV (f + 1) (t :: .ch 58 :: X) = some (.nameVal n v, ts) := by
  rw [pKV]
  · simp [hk, hv]
  all_goals (intros; simp_all)

theorem pKV_name (f : Nat) (t : Tok) (n : Bytes) (rest : List Tok)
    (h1 : ∀ w, t ≠ .str w) (h2 : t ≠ .strStart) (h3 : t ≠ .ch 40) (hk : keyOfTok t = some n)
    (hne : ∀ r', rest ≠ .ch 58 :: r') : pKV (f + 1) (t :: rest) = some (.name n, rest) := by
  rw [pKV]
  · simp [hk]
  all_goals (intros; simp_all)

theorem pKV_strVal (f : Nat) (w : Bytes) (X ts : List Tok) (v : Query) (hv : pObjVal f X = some (v, ts)) :
    pKV (f + 1) (.str w :: .ch 58 :: X) = some (.strVal (.lit w) v, ts) := by
  rw [pKV]; simp [hv]

theorem pKV_str (f : Nat) (w : Bytes) (rest : List Tok) (hne : ∀ r', rest ≠ .ch 58 :: r') :
    pKV (f + 1) (.str w :: rest) = some (.str (.lit w), rest) := by
  rw [pKV]
  all_goals (intros; simp_all)

theorem pKV_strIVal (f : Nat) (X Y ts : List Tok) (ps : List Part) (v : Query)
    (hp : pParts f X = some (ps, .ch 58 :: Y)) (hv : pObjVal f Y = some (v, ts)) :
    pKV (f + 1) (.strStart :: X) = some (.strVal (.interp ps) v, ts) := by
  rw [pKV]; simp [hp, hv]

theorem pKV_strI (f : Nat) (X ts : List Tok) (ps : List Part)
    (hp : pParts f X = some (ps, ts)) (hne : ∀ r', ts ≠ .ch 58 :: r') :
    pKV (f + 1) (.strStart :: X) = some (.str (.interp ps), ts) := by
  rw [pKV]
  simp only [hp, Option.bind_eq_bind, Option.bind_some]

theorem pKV_qVal (f : Nat) (X Y ts : List Tok) (kq v : Query)
    (hq : pClimb f true 1 X = some (kq, .ch 41 :: .ch 58 :: Y)) (hv : pObjVal f Y = some (v, ts)) :
    pKV (f + 1) (.ch 40 :: X) = some (.qVal kq v, ts) := by
  rw [pKV]; simp [hq, hv, expect]

theorem kvEnd_ne58 {rest : List Tok} (h : kvEnd rest) : ∀ r', rest ≠ .ch 58 :: r' := by
  intro r' e; subst e
  rcases h with h | h <;> simp at h

theorem kv_nameVal (n : Bytes) (v : Query) (ih : RTOV v) : RTKV (.nameVal n v) := fun rest hok hend => by
  simp only [okKV, Bool.and_eq_true] at hok
  obtain ⟨F, h⟩ := ih rest hok.2 hend
  refine ⟨F + 1, fun f hf => ?_⟩
  obtain ⟨k, rfl⟩ : ∃ k, f = k + 1 := ⟨f - 1, by omega⟩
  have e : toks (itemsKV (.nameVal n v)) ++ rest = keyTok n :: .ch 58 :: (toks (itemsQ v) ++ rest) := by
    simp [itemsKV]
  obtain ⟨h1, h2, h3, _⟩ := keyTok_shape n
  rw [e]
  exact pKV_nameVal k _ n _ rest v h1 h2 h3 (keyOfTok_keyTok n) (h k (by omega))

theorem kv_name (n : Bytes) : RTKV (.name n) := fun rest _ hend => ⟨1, fun f hf => by
  obtain ⟨k, rfl⟩ : ∃ k, f = k + 1 := ⟨f - 1, by omega⟩
  have e : toks (itemsKV (.name n)) ++ rest = keyTok n :: rest := by simp [itemsKV]
  obtain ⟨h1, h2, h3, _⟩ := keyTok_shape n
  rw [e]
  exact pKV_name k _ n rest h1 h2 h3 (keyOfTok_keyTok n) (kvEnd_ne58 hend)⟩

theorem kv_strLitVal (w : Bytes) (v : Query) (ih : RTOV v) : RTKV (.strVal (.lit w) v) := fun rest hok hend => by
  simp only [okKV, Bool.and_eq_true] at hok
  obtain ⟨F, h⟩ := ih rest hok.2 hend
  refine ⟨F + 1, fun f hf => ?_⟩
  obtain ⟨k, rfl⟩ : ∃ k, f = k + 1 := ⟨f - 1, by omega⟩
  have e : toks (itemsKV (.strVal (.lit w) v)) ++ rest = .str w :: .ch 58 :: (toks (itemsQ v) ++ rest) := by
    simp [itemsKV, itemsS]
  rw [e]
  exact pKV_strVal k w _ rest v (h k (by omega))

theorem kv_strLit (w : Bytes) : RTKV (.str (.lit w)) := fun rest _ hend => ⟨1, fun f hf => by
  obtain ⟨k, rfl⟩ : ∃ k, f = k + 1 := ⟨f - 1, by omega⟩
  have e : toks (itemsKV (.str (.lit w))) ++ rest = .str w :: rest := by simp [itemsKV, itemsS]
  rw [e]
  exact pKV_str k w rest (kvEnd_ne58 hend)⟩

theorem kv_strIVal (ps : List Part) (v : Query) (ihp : RTParts ps) (ih : RTOV v) :
    RTKV (.strVal (.interp ps) v) := fun rest hok hend => by
  simp only [okKV, okS, Bool.and_eq_true] at hok
  obtain ⟨Fp, hP⟩ := ihp (.ch 58 :: (toks (itemsQ v) ++ rest)) hok.1.2
  obtain ⟨F, h⟩ := ih rest hok.2 hend
  refine ⟨Fp + F + 1, fun f hf => ?_⟩
  obtain ⟨k, rfl⟩ : ∃ k, f = k + 1 := ⟨f - 1, by omega⟩
  have e : toks (itemsKV (.strVal (.interp ps) v)) ++ rest =
      .strStart :: (toks (itemsParts ps) ++ .strEnd :: .ch 58 :: (toks (itemsQ v) ++ rest)) := by
    simp [itemsKV, itemsS]
  rw [e]
  exact pKV_strIVal k _ _ rest ps v (hP k (by omega)) (h k (by omega))

theorem kv_strI (ps : List Part) (ihp : RTParts ps) : RTKV (.str (.interp ps)) := fun rest hok hend => by
  simp only [okKV, okS, Bool.and_eq_true] at hok
  obtain ⟨Fp, hP⟩ := ihp rest hok.2
  refine ⟨Fp + 1, fun f hf => ?_⟩
  obtain ⟨k, rfl⟩ : ∃ k, f = k + 1 := ⟨f - 1, by omega⟩
  have e : toks (itemsKV (.str (.interp ps))) ++ rest = .strStart :: (toks (itemsParts ps) ++ .strEnd :: rest) := by
    simp [itemsKV, itemsS]
  rw [e]
  exact pKV_strI k _ rest ps (hP k (by omega)) (kvEnd_ne58 hend)

theorem kv_qVal (kq v : Query) (ihq : RTQ kq) (ih : RTOV v) : RTKV (.qVal kq v) := fun rest hok hend => by
  simp only [okKV, Bool.and_eq_true] at hok
  obtain ⟨Fq, hQ⟩ := climb_stop kq ihq true 1 (.ch 41) (.ch 58 :: (toks (itemsQ v) ++ rest)) hok.1 rfl
  obtain ⟨F, h⟩ := ih rest hok.2 hend
  refine ⟨Fq + F + 1, fun f hf => ?_⟩
  obtain ⟨k, rfl⟩ : ∃ k, f = k + 1 := ⟨f - 1, by omega⟩
  have e : toks (itemsKV (.qVal kq v)) ++ rest =
      .ch 40 :: (toks (itemsQ kq) ++ .ch 41 :: .ch 58 :: (toks (itemsQ v) ++ rest)) := by
    simp [itemsKV]
  rw [e]
  exact pKV_qVal k _ _ rest kq v (hQ k (by omega)) (h k (by omega))

/-! ### the rest of an object -/

theorem pKVsT_end (f : Nat) (rest : List Tok) : pKVsT (f + 1) (.ch 125 :: rest) = some ([], rest) := by
  rw [pKVsT]

theorem pKVsT_more (f : Nat) (X Y ts : List Tok) (kv : KV) (kvs : List KV) (hne : ∀ r', X ≠ .ch 125 :: r')
    (h1 : pKV f X = some (kv, Y)) (h2 : pKVsT f Y = some (kvs, ts)) :
    pKVsT (f + 1) (.ch 44 :: X) = some (kv :: kvs, ts) := by
  rw [pKVsT]
  · simp [h1, h2]
  · intro rest e; exact hne _ e

theorem kv_head (kv : KV) : ∃ x r, toks (itemsKV kv) = x :: r ∧ x ≠ .ch 125 := by
  cases kv with
  | nameVal n v => exact ⟨keyTok n, .ch 58 :: toks (itemsQ v), by simp [itemsKV], (keyTok_shape n).2.2.2⟩
  | strVal s v =>
    cases s with
    | lit w => exact ⟨.str w, .ch 58 :: toks (itemsQ v), by simp [itemsKV, itemsS], by simp⟩
    | interp ps =>
      exact ⟨.strStart, toks (itemsParts ps) ++ .strEnd :: .ch 58 :: toks (itemsQ v), by simp [itemsKV, itemsS], by simp⟩
  | qVal kq v =>
    exact ⟨.ch 40, toks (itemsQ kq) ++ .ch 41 :: .ch 58 :: toks (itemsQ v), by simp [itemsKV], by simp⟩
  | name n => exact ⟨keyTok n, [], by simp [itemsKV], (keyTok_shape n).2.2.2⟩
  | str s =>
    cases s with
    | lit w => exact ⟨.str w, [], by simp [itemsKV, itemsS], by simp⟩
    | interp ps => exact ⟨.strStart, toks (itemsParts ps) ++ [.strEnd], by simp [itemsKV, itemsS], by simp⟩

theorem kvsT_end (kvs : List KV) (rest : List Tok) : kvEnd (toks (itemsKVsT kvs) ++ .ch 125 :: rest) := by
  cases kvs with
  | nil => right; rfl
  | cons kv kvs => left; simp [itemsKVsT]

theorem kvsT_nil : RTKVsT [] := fun rest _ => ⟨1, fun f hf => by
  obtain ⟨k, rfl⟩ : ∃ k, f = k + 1 := ⟨f - 1, by omega⟩
  exact pKVsT_end k rest⟩

theorem kvsT_cons (kv : KV) (kvs : List KV) (ihkv : RTKV kv) (ih : RTKVsT kvs) : RTKVsT (kv :: kvs) :=
  fun rest hok => by
  simp only [okKVs, Bool.and_eq_true] at hok
  obtain ⟨Fk, hK⟩ := ihkv (toks (itemsKVsT kvs) ++ .ch 125 :: rest) hok.1 (kvsT_end kvs rest)
  obtain ⟨F, h⟩ := ih rest hok.2
  refine ⟨Fk + F + 1, fun f hf => ?_⟩
  obtain ⟨k, rfl⟩ : ∃ k, f = k + 1 := ⟨f - 1, by omega⟩
  have e : toks (itemsKVsT (kv :: kvs)) ++ .ch 125 :: rest =
      .ch 44 :: (toks (itemsKV kv) ++ (toks (itemsKVsT kvs) ++ .ch 125 :: rest)) := by simp [itemsKVsT]
  obtain ⟨x, r, hx, hne⟩ := kv_head kv
  rw [e]
  refine pKVsT_more k _ _ rest kv kvs ?_ (hK k (by omega)) (h k (by omega))
  intro r' e'; rw [hx] at e'; injection e' with e' _; exact hne e'

theorem pPrimary_object (f : Nat) (X Y ts : List Tok) (kv : KV) (kvs : List KV) (hne : ∀ r', X ≠ .ch 125 :: r')
    (h1 : pKV f X = some (kv, Y)) (h2 : pKVsT f Y = some (kvs, ts)) :
    pPrimary (f + 1) (.ch 123 :: X) = some (.object (kv :: kvs), ts) := by
  rw [pPrimary]
  · simp [h1, h2]
  · intro rest e; exact hne _ e

theorem rt_object (kv : KV) (kvs : List KV) (ihkv : RTKV kv) (ih : RTKVsT kvs) : RTT (.object (kv :: kvs)) :=
  rtT_of_prim _ (fun rest hok _ => by
  simp only [okT, okKVs, Bool.and_eq_true] at hok
  obtain ⟨Fk, hK⟩ := ihkv (toks (itemsKVsT kvs) ++ .ch 125 :: rest) hok.1 (kvsT_end kvs rest)
  obtain ⟨F, h⟩ := ih rest hok.2
  refine ⟨Fk + F + 1, fun g hg => ?_⟩
  obtain ⟨k, rfl⟩ : ∃ k, g = k + 1 := ⟨g - 1, by omega⟩
  have e : toks (itemsT (.object (kv :: kvs))) ++ rest =
      .ch 123 :: (toks (itemsKV kv) ++ (toks (itemsKVsT kvs) ++ .ch 125 :: rest)) := by simp [itemsT]
  obtain ⟨x, r, hx, hne⟩ := kv_head kv
  rw [e]
  refine pPrimary_object k _ _ rest kv kvs ?_ (hK k (by omega)) (h k (by omega))
  intro r' e'; rw [hx] at e'; injection e' with e' _; exact hne e')

end Gojq.RefTerm

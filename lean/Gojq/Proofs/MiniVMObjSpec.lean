/-
  What `opobject` builds (C01.3, object construction): the loop of execute.go — pop the pairs LAST
  entry first, stop at the first key that is not a string, keep a key that is already present —
  computes exactly what `Spec.evalObject` prescribes at its last step (Model/Spec.lean): the LAST
  entry with a non-string key is the error, otherwise `JV.mkObj` of the string-keyed pairs in the
  order of the entries (insert in order, a later duplicate replaces the earlier one).
  Proof: both maps are strictly sorted (`kvInsert_sorted`) and have the same lookup function
  (first occurrence in the reversed list = last occurrence in entry order); a strictly sorted
  association list is determined by its lookup function (`sorted_lookup_ext`).  Core Lean only.
-/
import Gojq.Model.MiniVM
import Gojq.Proofs.EncodeKeyOrder
import Gojq.Proofs.Fromstream
namespace Gojq.MiniVM
open Gojq Gojq.Stream Gojq.KeyOrder

/-- the entries with a string key -/
def strPairs (l : List (V × V)) : List (Bytes × V) :=
  l.filterMap fun (k, v) => match k with | .str b => some (b, v) | _ => none

def nonStr : V × V → Bool := fun (k, _) => match k with | .str _ => false | _ => true

/-- insert unless present, in list order -/
def insAbsent (m : List (Bytes × V)) (kv : Bytes × V) : List (Bytes × V) :=
  if m.any (fun p => p.1 == kv.1) then m else kvInsert kv.1 kv.2 m

theorem objOfPairsRev_spec : ∀ (rs : List (V × V)) (m : List (Bytes × V)),
    objOfPairsRev rs m = match rs.find? nonStr with
      | some (k, _) => .error k
      | none => .ok ((strPairs rs).foldl insAbsent m)
  | [], m => by simp [objOfPairsRev, strPairs]
  | (k, v) :: rs, m => by
    cases k with
    | str s =>
      simp only [objOfPairsRev, List.find?, nonStr, strPairs, List.filterMap_cons, List.foldl_cons]
      have := objOfPairsRev_spec rs (insAbsent m (s, v))
      simpa [insAbsent, nonStr, strPairs] using this
    | _ => simp [objOfPairsRev, List.find?, nonStr]

theorem any_key_iff (k : Bytes) : ∀ (m : List (Bytes × V)), m.any (fun p => p.1 == k) = (kvLookup k m).isSome
  | [] => by simp [kvLookup]
  | (k', v') :: rest => by
    simp only [List.any_cons, kvLookup]
    by_cases h : k = k'
    · subst h; simp
    · have h' : (k' == k) = false := by simpa using fun e => h e.symm
      simp [h, h', any_key_iff k rest]

/-- the first value for `k` in the list -/
def firstOf (k : Bytes) : List (Bytes × V) → Option V
  | [] => none
  | (k', v) :: rest => if k = k' then some v else firstOf k rest

theorem lookup_insAbsent (k : Bytes) : ∀ (es m : List (Bytes × V)),
    kvLookup k (es.foldl insAbsent m) = (kvLookup k m).or (firstOf k es)
  | [], m => by simp [firstOf]
  | (s, v) :: es, m => by
    rw [List.foldl_cons, lookup_insAbsent k es]
    simp only [insAbsent, any_key_iff, firstOf]
    by_cases hks : k = s
    · subst hks
      cases hm : kvLookup k m with
      | some w => simp [hm]
      | none => simp [hm, kvLookup_insert_self]
    · cases hm : kvLookup s m with
      | some w => simp [hm, hks]
      | none => simp [hm, hks, kvLookup_insert_ne s k v hks]

theorem lookup_foldr (k : Bytes) : ∀ (es : List (Bytes × V)),
    kvLookup k (es.foldr (fun kv acc => kvInsert kv.1 kv.2 acc) []) = firstOf k es
  | [] => by simp [firstOf, kvLookup]
  | (s, v) :: es => by
    simp only [List.foldr_cons, firstOf]
    by_cases hks : k = s
    · subst hks; simp [kvLookup_insert_self]
    · simp [hks, kvLookup_insert_ne s k v hks, lookup_foldr k es]

theorem sorted_foldl_insAbsent : ∀ (es m : List (Bytes × V)), Sorted m → Sorted (es.foldl insAbsent m)
  | [], m, h => h
  | (s, v) :: es, m, h => by
    rw [List.foldl_cons]
    refine sorted_foldl_insAbsent es _ ?_
    unfold insAbsent
    split
    · exact h
    · exact kvInsert_sorted _ _ _ h

theorem sorted_foldr : ∀ (es : List (Bytes × V)), Sorted (es.foldr (fun kv acc => kvInsert kv.1 kv.2 acc) [])
  | [] => List.Pairwise.nil
  | (s, v) :: es => kvInsert_sorted _ _ _ (sorted_foldr es)

theorem lookup_none_of_lt (k : Bytes) : ∀ (l : List (Bytes × V)), (∀ p ∈ l, Bytes.cmp k p.1 = .lt) → kvLookup k l = none
  | [], _ => rfl
  | (k', v') :: rest, h => by
    have h1 := h (k', v') (by simp)
    have hne : k ≠ k' := fun e => by rw [e, Bytes.cmp_refl] at h1; cases h1
    simp [kvLookup, hne, lookup_none_of_lt k rest (fun p hp => h p (List.mem_cons_of_mem _ hp))]

theorem sorted_lookup_ext : ∀ (a b : List (Bytes × V)), Sorted a → Sorted b →
    (∀ k, kvLookup k a = kvLookup k b) → a = b
  | [], [], _, _, _ => rfl
  | [], (k, v) :: ys, _, _, h => by have := h k; simp [kvLookup] at this
  | (k, v) :: xs, [], _, _, h => by have := h k; simp [kvLookup] at this
  | (k1, v1) :: xs, (k2, v2) :: ys, ha, hb, h => by
    have ha' := List.pairwise_cons.mp ha
    have hb' := List.pairwise_cons.mp hb
    have hk : k1 = k2 := by
      cases hc : Bytes.cmp k1 k2 with
      | eq => exact (Bytes.cmp_eq_iff k1 k2).mp hc
      | lt =>
        have h1 := h k1
        have : kvLookup k1 ((k2, v2) :: ys) = none :=
          lookup_none_of_lt k1 _ (fun p hp => by
            rcases List.mem_cons.mp hp with hp | hp
            · rw [hp]; exact hc
            · exact bcmp_trans hc (hb'.1 p hp))
        rw [this] at h1; simp [kvLookup] at h1
      | gt =>
        have hlt : Bytes.cmp k2 k1 = .lt := by rw [Bytes.cmp_swap k1 k2, hc]; rfl
        have h1 := h k2
        have : kvLookup k2 ((k1, v1) :: xs) = none :=
          lookup_none_of_lt k2 _ (fun p hp => by
            rcases List.mem_cons.mp hp with hp | hp
            · rw [hp]; exact hlt
            · exact bcmp_trans hlt (ha'.1 p hp))
        rw [this] at h1; simp [kvLookup] at h1
    subst hk
    have hv : v1 = v2 := by have := h k1; simpa [kvLookup] using this
    subst hv
    have : xs = ys := sorted_lookup_ext xs ys ha'.2 hb'.2 (fun k => by
      by_cases hkk : k = k1
      · subst hkk
        rw [lookup_none_of_lt k xs (fun p hp => ha'.1 p hp), lookup_none_of_lt k ys (fun p hp => hb'.1 p hp)]
      · have := h k; simpa [kvLookup, hkk] using this)
    rw [this]

theorem foldl_insAbsent_eq_foldr (es : List (Bytes × V)) :
    es.foldl insAbsent [] = es.foldr (fun kv acc => kvInsert kv.1 kv.2 acc) [] :=
  sorted_lookup_ext _ _ (sorted_foldl_insAbsent es [] List.Pairwise.nil) (sorted_foldr es)
    (fun k => by rw [lookup_insAbsent, lookup_foldr]; simp [kvLookup])


/-- `opobject`'s loop = the last step of `Spec.evalObject` -/
theorem objOfPairs_eq_spec (acc : List (V × V)) :
    objOfPairs acc = match acc.reverse.find? nonStr with
      | some (k, _) => ⟨[], .err (.keyNotStr k)⟩
      | none => ⟨[JV.mkObj (strPairs acc)], .done⟩ := by
  unfold objOfPairs
  rw [objOfPairsRev_spec]
  cases hf : acc.reverse.find? nonStr with
  | some kv => rfl
  | none =>
    simp only
    have h1 : strPairs acc.reverse = (strPairs acc).reverse := by simp [strPairs]
    rw [h1, foldl_insAbsent_eq_foldr, List.foldr_reverse]
    rfl

end Gojq.MiniVM

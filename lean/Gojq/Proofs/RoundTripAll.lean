/-
  Round trip, part 10: tying the knot — by structural recursion over the mutually recursive AST
  every class of syntax satisfies its round-trip statement; the whole-query theorem.
-/
import Gojq.Proofs.RoundTripPatterns
namespace Gojq.RefTerm
open Gojq

theorem rtT_vac (t : Term) (h : okT t = false) : RTT t := fun _ hok _ => by rw [h] at hok; cases hok
theorem rtQ_vac (q : Query) (h : ∀ item min, okQ item min q = false) : RTQ q :=
  fun item min _ hok _ => by rw [h item min] at hok; cases hok
theorem rtOV_vac (q : Query) (h : okOV q = false) : RTOV q := fun _ hok _ => by rw [h] at hok; cases hok

mutual
  theorem rtQ : (q : Query) → RTQ q
    | .term t => rt_term t (rtT t)
    | .binop o l r => rt_binop o l r (rtQ l) (rtQ r)
    | .bind s [] b => rtQ_vac _ (fun item min => okQ_bind_nil item min s b)
    | .bind s (p :: ps) b => rt_bind s p ps b (rtQ s) (rtP p) (rtAltT ps) (rtQ b)
    | .def_ fd q => rt_def fd q (rtFD fd) (rtQ q)
    | .label v b => rt_label v b (rtQ b)
  theorem rtFD : (fd : FuncDef) → RTFD fd
    | .mk name params body => rt_funcDef name params body (rtQ body)
  theorem rtT : (t : Term) → RTT t
    | .identity => rt_identity
    | .recurse => rt_recurse
    | .null => rt_null
    | .true_ => rt_true
    | .false_ => rt_false
    | .index (.name n) => rt_indexName n
    | .index (.str (.lit v)) => rt_indexStrLit v
    | .index (.str (.interp ps)) => rt_indexStrI ps (rtParts ps)
    | .index (.at q) => rt_indexBr _ rfl (by simp) (br_at q (rtQ q))
    | .index (.sliceFrom a) => rt_indexBr _ rfl (by simp) (br_from a (rtQ a))
    | .index (.sliceTo b) => rt_indexBr _ rfl (by simp) (br_to b (rtQ b))
    | .index (.slice a b) => rt_indexBr _ rfl (by simp) (br_slice a b (rtQ a) (rtQ b))
    | .index .iter => rtT_vac _ (by simp [okT, isIndexForm])
    | .index .opt => rtT_vac _ (by simp [okT, isIndexForm])
    | .func n [] => rt_func0 n
    | .func n (a :: as) => rt_call n a as (rtQ a) (rtArgsT as)
    | .object [] => rt_objectEmpty
    | .object (kv :: kvs) => rt_object kv kvs (rtKV kv) (rtKVsT kvs)
    | .arrayEmpty => rt_arrayEmpty
    | .array q => rt_array q (rtQ q)
    | .number s => rt_number s
    | .unary neg t => rt_unary neg t (rtT t)
    | .format f => rt_format f
    | .formatStr f (.lit v) => rt_formatLit f v
    | .formatStr f (.interp ps) => rt_formatI f ps (rtParts ps)
    | .str (.lit v) => rt_strLit v
    | .str (.interp ps) => rt_strI ps (rtParts ps)
    | .if_ c t r => rt_if c t r (rtQ c) (rtQ t) (rtIf r)
    | .try_ (.term b) => rt_try b (rtT b)
    | .try_ (.binop _ _ _) => rtT_vac _ (by simp [okT])
    | .try_ (.bind _ _ _) => rtT_vac _ (by simp [okT])
    | .try_ (.def_ _ _) => rtT_vac _ (by simp [okT])
    | .try_ (.label _ _) => rtT_vac _ (by simp [okT])
    | .tryCatch (.term b) (.term h) => rt_tryCatch b h (rtT b) (rtT h)
    | .tryCatch (.term _) (.binop _ _ _) => rtT_vac _ (by simp [okT])
    | .tryCatch (.term _) (.bind _ _ _) => rtT_vac _ (by simp [okT])
    | .tryCatch (.term _) (.def_ _ _) => rtT_vac _ (by simp [okT])
    | .tryCatch (.term _) (.label _ _) => rtT_vac _ (by simp [okT])
    | .tryCatch (.binop _ _ _) _ => rtT_vac _ (by unfold okT; simp)
    | .tryCatch (.bind _ _ _) _ => rtT_vac _ (by unfold okT; simp)
    | .tryCatch (.def_ _ _) _ => rtT_vac _ (by unfold okT; simp)
    | .tryCatch (.label _ _) _ => rtT_vac _ (by unfold okT; simp)
    | .reduce s p a u => rt_reduce s p a u (rtQ s) (rtP p) (rtQ a) (rtQ u)
    | .foreach s p a u => rt_foreach s p a u (rtQ s) (rtP p) (rtQ a) (rtQ u)
    | .foreach3 s p a u e => rt_foreach3 s p a u e (rtQ s) (rtP p) (rtQ a) (rtQ u) (rtQ e)
    | .break_ v => rt_break v
    | .paren q => rt_paren q (rtQ q)
    | .suf .identity .iter => rt_dotIter
    | .suf .identity (.name n) => rt_suf _ _ rt_identity (suf_name n) (by simp)
    | .suf .identity (.str (.lit v)) => rt_suf _ _ rt_identity (suf_strLit v) (by simp)
    | .suf .identity (.str (.interp ps)) => rt_suf _ _ rt_identity (suf_strI ps (rtParts ps)) (by simp)
    | .suf .identity (.at q) => rt_suf _ _ rt_identity (suf_br _ rfl (by simp) (br_at q (rtQ q))) (by simp)
    | .suf .identity (.sliceFrom a) => rt_suf _ _ rt_identity (suf_br _ rfl (by simp) (br_from a (rtQ a))) (by simp)
    | .suf .identity (.sliceTo b) => rt_suf _ _ rt_identity (suf_br _ rfl (by simp) (br_to b (rtQ b))) (by simp)
    | .suf .identity (.slice a b) =>
      rt_suf _ _ rt_identity (suf_br _ rfl (by simp) (br_slice a b (rtQ a) (rtQ b))) (by simp)
    | .suf .identity .opt => rt_suf _ _ rt_identity suf_opt (by simp)
    | .suf (.suf t s') s => rt_suf _ s (rtT (.suf t s')) (rtSuf s) (by simp)
    | .suf .recurse s => rt_suf _ s rt_recurse (rtSuf s) (by simp)
    | .suf .null s => rt_suf _ s rt_null (rtSuf s) (by simp)
    | .suf .true_ s => rt_suf _ s rt_true (rtSuf s) (by simp)
    | .suf .false_ s => rt_suf _ s rt_false (rtSuf s) (by simp)
    | .suf (.index i) s => rt_suf _ s (rtT (.index i)) (rtSuf s) (by simp)
    | .suf (.func n as) s => rt_suf _ s (rtT (.func n as)) (rtSuf s) (by simp)
    | .suf (.object kvs) s => rt_suf _ s (rtT (.object kvs)) (rtSuf s) (by simp)
    | .suf .arrayEmpty s => rt_suf _ s rt_arrayEmpty (rtSuf s) (by simp)
    | .suf (.array q) s => rt_suf _ s (rtT (.array q)) (rtSuf s) (by simp)
    | .suf (.number n) s => rt_suf _ s (rt_number n) (rtSuf s) (by simp)
    | .suf (.unary _ _) _ => rtT_vac _ (by simp [okT, suffixable])
    | .suf (.format f) s => rt_suf _ s (rt_format f) (rtSuf s) (by simp)
    | .suf (.formatStr f x) s => rt_suf _ s (rtT (.formatStr f x)) (rtSuf s) (by simp)
    | .suf (.str x) s => rt_suf _ s (rtT (.str x)) (rtSuf s) (by simp)
    | .suf (.if_ c t r) s => rt_suf _ s (rtT (.if_ c t r)) (rtSuf s) (by simp)
    | .suf (.try_ _) _ => rtT_vac _ (by simp [okT, suffixable])
    | .suf (.tryCatch _ _) _ => rtT_vac _ (by simp [okT, suffixable])
    | .suf (.reduce a b c d) s => rt_suf _ s (rtT (.reduce a b c d)) (rtSuf s) (by simp)
    | .suf (.foreach a b c d) s => rt_suf _ s (rtT (.foreach a b c d)) (rtSuf s) (by simp)
    | .suf (.foreach3 a b c d e) s => rt_suf _ s (rtT (.foreach3 a b c d e)) (rtSuf s) (by simp)
    | .suf (.break_ v) s => rt_suf _ s (rt_break v) (rtSuf s) (by simp)
    | .suf (.paren q) s => rt_suf _ s (rtT (.paren q)) (rtSuf s) (by simp)
  theorem rtSuf : (s : Suffix) → RTSuf s
    | .name n => suf_name n
    | .str (.lit v) => suf_strLit v
    | .str (.interp ps) => suf_strI ps (rtParts ps)
    | .at q => suf_br _ rfl (by simp) (br_at q (rtQ q))
    | .sliceFrom a => suf_br _ rfl (by simp) (br_from a (rtQ a))
    | .sliceTo b => suf_br _ rfl (by simp) (br_to b (rtQ b))
    | .slice a b => suf_br _ rfl (by simp) (br_slice a b (rtQ a) (rtQ b))
    | .iter => suf_iter
    | .opt => suf_opt
  theorem rtParts : (ps : List Part) → RTParts ps
    | [] => parts_nil
    | .lit v :: ps => parts_lit v ps (rtParts ps)
    | .q q :: ps => parts_q q ps (rtQ q) (rtParts ps)
  theorem rtArgsT : (qs : List Query) → RTArgsT qs
    | [] => argsT_nil
    | q :: qs => argsT_cons q qs (rtQ q) (rtArgsT qs)
  theorem rtOV : (v : Query) → RTOV v
    | .term t => ov_term t (rtT t)
    | .binop o l r =>
      if ho : o = .pipe then ho ▸ ov_pipe l r (rtQ l) (rtOV r) else ov_binop o l r ho (rtQ l) (rtQ r)
    | .bind _ _ _ => rtOV_vac _ (by simp [okOV])
    | .def_ _ _ => rtOV_vac _ (by simp [okOV])
    | .label _ _ => rtOV_vac _ (by simp [okOV])
  theorem rtKV : (kv : KV) → RTKV kv
    | .nameVal n v => kv_nameVal n v (rtOV v)
    | .strVal (.lit w) v => kv_strLitVal w v (rtOV v)
    | .strVal (.interp ps) v => kv_strIVal ps v (rtParts ps) (rtOV v)
    | .qVal kq v => kv_qVal kq v (rtQ kq) (rtOV v)
    | .name n => kv_name n
    | .str (.lit w) => kv_strLit w
    | .str (.interp ps) => kv_strI ps (rtParts ps)
  theorem rtKVsT : (kvs : List KV) → RTKVsT kvs
    | [] => kvsT_nil
    | kv :: kvs => kvsT_cons kv kvs (rtKV kv) (rtKVsT kvs)
  theorem rtP : (p : Pattern) → RTP p
    | .var n => pat_var n
    | .arr [] => fun _ hok => by simp [okP] at hok
    | .arr (p :: ps) => pat_arr p ps (rtP p) (rtPsT ps)
    | .obj [] => fun _ hok => by simp [okP] at hok
    | .obj (kv :: kvs) => pat_obj kv kvs (rtPKV kv) (rtPKVsT kvs)
  theorem rtPsT : (ps : List Pattern) → RTPsT ps
    | [] => psT_nil
    | p :: ps => psT_cons p ps (rtP p) (rtPsT ps)
  theorem rtAltT : (ps : List Pattern) → RTAltT ps
    | [] => altT_nil
    | p :: ps => altT_cons p ps (rtP p) (rtAltT ps)
  theorem rtPKV : (kv : PKV) → RTPKV kv
    | .nameVal n p => pkv_nameVal n p (rtP p)
    | .strVal (.lit w) p => pkv_strLitVal w p (rtP p)
    | .strVal (.interp ps) p => pkv_strIVal ps p (rtParts ps) (rtP p)
    | .qVal kq p => pkv_qVal kq p (rtQ kq) (rtP p)
    | .name n => pkv_name n
  theorem rtPKVsT : (kvs : List PKV) → RTPKVsT kvs
    | [] => pkvsT_nil
    | kv :: kvs => pkvsT_cons kv kvs (rtPKV kv) (rtPKVsT kvs)
  theorem rtIf : (r : IfRest) → RTIf r
    | .end_ => if_end
    | .else_ e => if_else e (rtQ e)
    | .elif_ c t r => if_elif c t r (rtQ c) (rtQ t) (rtIf r)
end

/-- TOKEN-LEVEL ROUND TRIP: for every Printable query, the reference parser applied to the tokens
    the printer writes gives the query back — for every sufficiently large fuel (the fuel bounds the
    recursion depth of the executable reference parser; it is not part of the grammar) -/
theorem refParse_items (q : Query) (h : Printable q = true) :
    ∃ F, ∀ f, F ≤ f → refParseQ f (toks (itemsQ q)) = some q := by
  obtain ⟨F, hF⟩ := climb_done q (rtQ q) true 1 [] h (by simpa using followQ_none q)
    (by intro x o hx; cases hx) (by intro hx; cases hx)
  refine ⟨F, fun f hf => ?_⟩
  have := hF f hf
  simp only [List.append_nil] at this
  simp [refParseQ, this]

end Gojq.RefTerm

/- Helper lemmas for C12: decimal digits, the number reader on what the encoders print.
   Core Lean only. -/
import Gojq.Model.Encode
namespace Gojq.Encode
open Gojq

theorem digitByte_props : ∀ d : Nat, d < 10 →
    isDigit (digitByte d) = true ∧ digitVal (digitByte d) = d ∧ (digitByte d = cZero ↔ d = 0) := by
  decide

/-- `ds` is the decimal numeral of `n`: digits only, value `n`, no superfluous leading zero -/
structure DigitsOf (n : Nat) (ds : Bytes) : Prop where
  all : ∀ x ∈ ds, isDigit x = true
  val : ∀ a, digitsVal a ds = a * 10 ^ ds.length + n
  ne : ds ≠ []
  lead : n ≠ 0 → ds.head? ≠ some cZero
  zero : n = 0 → ds = [cZero]

theorem digitsVal_append (xs ys : Bytes) (a : Nat) : digitsVal a (xs ++ ys) = digitsVal (digitsVal a xs) ys := by
  simp [digitsVal, List.foldl_append]

theorem digitsVal_cons (x : UInt8) (t : Bytes) (a : Nat) : digitsVal a (x :: t) = digitsVal (a * 10 + digitVal x) t := by
  simp [digitsVal]

theorem digitsVal_nil (a : Nat) : digitsVal a [] = a := by simp [digitsVal]

theorem digitsOf_single (n : Nat) (h : n < 10) : DigitsOf n [digitByte n] := by
  obtain ⟨h1, h2, h3⟩ := digitByte_props n h
  refine ⟨by simpa using h1, ?_, by simp, ?_, ?_⟩
  · intro a
    rw [digitsVal_cons, digitsVal_nil, h2]; simp
  · intro hn; simp; exact fun e => hn (h3.mp e)
  · intro hn; subst hn; rfl

theorem natDigitsAux_spec : ∀ (fuel n : Nat) (acc : Bytes), n < 10 ^ (fuel + 1) →
    ∃ ds, natDigitsAux (fuel + 1) n acc = ds ++ acc ∧ DigitsOf n ds
  | 0, n, acc, h => by
    have hn : n < 10 := by simpa using h
    exact ⟨[digitByte n], by simp [natDigitsAux, hn], digitsOf_single n hn⟩
  | fuel + 1, n, acc, h => by
    by_cases hn : n < 10
    · exact ⟨[digitByte n], by simp [natDigitsAux, hn], digitsOf_single n hn⟩
    · have hdiv : n / 10 < 10 ^ (fuel + 1) := by
        rw [Nat.pow_succ] at h; omega
      obtain ⟨ds, hds, hd⟩ := natDigitsAux_spec fuel (n / 10) (digitByte (n % 10) :: acc) hdiv
      obtain ⟨h1, h2, _⟩ := digitByte_props (n % 10) (by omega)
      refine ⟨ds ++ [digitByte (n % 10)], ?_, ?_⟩
      · rw [natDigitsAux]; simp [hn, hds]
      · refine ⟨?_, ?_, by simp, ?_, ?_⟩
        · intro x hx
          rcases List.mem_append.mp hx with hx | hx
          · exact hd.all x hx
          · simp at hx; subst hx; exact h1
        · intro a
          rw [digitsVal_append, hd.val]
          simp only [digitsVal_cons, digitsVal_nil, h2, List.length_append, List.length_cons, List.length_nil]
          rw [Nat.pow_succ]
          have := Nat.div_add_mod n 10
          generalize 10 ^ ds.length = p at *
          have e : a * (p * 10) = a * p * 10 := by rw [Nat.mul_assoc]
          omega
        · intro _
          have hne : n / 10 ≠ 0 := by omega
          have := hd.lead hne
          cases ds with
          | nil => exact absurd rfl hd.ne
          | cons d t => simpa using this
        · intro h0; omega

theorem natDigits_spec (n : Nat) : DigitsOf n (natDigits n) := by
  have h : n < 10 ^ (n + 1) :=
    Nat.lt_of_lt_of_le (Nat.lt_pow_self (by omega : 1 < 10)) (Nat.pow_le_pow_right (by omega) (by omega))
  obtain ⟨ds, hds, hd⟩ := natDigitsAux_spec n n [] h
  unfold natDigits
  rw [hds]; simpa using hd

/-- the input after a number must not continue it -/
def NumEnd (rest : Bytes) : Prop :=
  ∀ b t, rest = b :: t → isDigit b = false ∧ b ≠ cDot ∧ b ≠ 0x65 ∧ b ≠ 0x45

theorem numEnd_nil : NumEnd [] := by intro b t h; cases h

theorem spanDigits_append : ∀ (ds rest : Bytes), (∀ x ∈ ds, isDigit x = true) →
    (∀ b t, rest = b :: t → isDigit b = false) → spanDigits (ds ++ rest) = (ds, rest)
  | [], [], _, _ => rfl
  | [], b :: t, _, h => by simp [spanDigits, h b t rfl]
  | d :: ds, rest, hd, h => by
    simp only [List.cons_append, spanDigits, hd d (by simp), if_true]
    rw [spanDigits_append ds rest (fun x hx => hd x (by simp [hx])) h]

theorem isDigit_ne {b c : UInt8} (h : isDigit b = true) (hc : isDigit c = false) : b ≠ c := by
  intro e; subst e; rw [h] at hc; cases hc

theorem parseFrac_end {rest : Bytes} (h : NumEnd rest) : parseFrac rest = some (none, rest) := by
  cases rest with
  | nil => rfl
  | cons b t => simp [parseFrac, (h b t rfl).2.1]

theorem parseExp_end {rest : Bytes} (h : NumEnd rest) : parseExp rest = some (none, rest) := by
  cases rest with
  | nil => rfl
  | cons b t => simp [parseExp, (h b t rfl).2.2.1, (h b t rfl).2.2.2]

theorem parseSign_digits {ds : Bytes} (rest : Bytes) (h : ∀ x ∈ ds, isDigit x = true) (hne : ds ≠ []) :
    parseSign (ds ++ rest) = (false, ds ++ rest) := by
  cases ds with
  | nil => exact absurd rfl hne
  | cons d t =>
    have : d ≠ cMinus := isDigit_ne (h d (by simp)) (by decide)
    simp [parseSign, this]

theorem parseSign_minus (s : Bytes) : parseSign (cMinus :: s) = (true, s) := by simp [parseSign]

/-- reading a plain digit string (no fraction, no exponent) -/
theorem parseNumber_digits (neg : Bool) (n : Nat) (ds rest : Bytes) (hd : DigitsOf n ds) (hr : NumEnd rest) :
    parseNumber ((if neg then [cMinus] else []) ++ ds ++ rest) = some (.int (if neg then -(n : Int) else n), rest) := by
  have hs : parseSign ((if neg then [cMinus] else []) ++ ds ++ rest) = (neg, ds ++ rest) := by
    cases neg
    · simpa using parseSign_digits rest hd.all hd.ne
    · simp [parseSign_minus]
  have hsp := spanDigits_append ds rest hd.all (fun b t e => (hr b t e).1)
  have hlead : ¬ (ds.length > 1 ∧ ds.head? = some cZero) := by
    intro ⟨h1, h2⟩
    by_cases hn : n = 0
    · rw [hd.zero hn] at h1; simp at h1
    · exact hd.lead hn h2
  have hne : ds.isEmpty = false := by
    cases ds with
    | nil => exact absurd rfl hd.ne
    | cons _ _ => rfl
  unfold parseNumber
  simp only [hs, hsp, hne, hlead, parseFrac_end hr, parseExp_end hr, if_false, Bool.false_eq_true]
  simp [mkNum, hd.val]

theorem encodeInt_eq (z : Int) : encodeInt z = (if decide (z < 0) then [cMinus] else []) ++ natDigits z.natAbs := by
  unfold encodeInt; split <;> simp [*]

/-- an integer of any size reads back exactly -/
theorem parseNumber_encodeInt (z : Int) (rest : Bytes) (hr : NumEnd rest) :
    parseNumber (encodeInt z ++ rest) = some (.int z, rest) := by
  rw [encodeInt_eq, parseNumber_digits (decide (z < 0)) z.natAbs _ rest (natDigits_spec _) hr]
  by_cases h : z < 0
  · simp [h]; omega
  · simp [h]; omega

end Gojq.Encode

namespace Gojq.Encode
open Gojq

/-! ### the general shape of a printed number and what the reader makes of it -/

def fracPart : Option Bytes → Bytes
  | none => []
  | some f => cDot :: f
def expPart : Option (Bool × Bytes) → Bytes
  | none => []
  | some (eneg, ed) => cE :: (if eneg then cMinus else cPlus) :: ed
def expVal : Option (Bool × Bytes) → Option Int
  | none => none
  | some (eneg, ed) => some (if eneg then -(digitsVal 0 ed : Int) else (digitsVal 0 ed : Int))
def signPart (neg : Bool) : Bytes := if neg then [cMinus] else []
def numText (neg : Bool) (ip : Bytes) (fp : Option Bytes) (ex : Option (Bool × Bytes)) : Bytes :=
  signPart neg ++ ip ++ fracPart fp ++ expPart ex

structure NumOK (ip : Bytes) (fp : Option Bytes) (ex : Option (Bool × Bytes)) : Prop where
  ipd : ∀ x ∈ ip, isDigit x = true
  ipne : ip ≠ []
  iplead : ¬ (ip.length > 1 ∧ ip.head? = some cZero)
  fpd : ∀ f, fp = some f → (∀ x ∈ f, isDigit x = true) ∧ f ≠ []
  exd : ∀ e d, ex = some (e, d) → (∀ x ∈ d, isDigit x = true) ∧ d ≠ []

def HeadNonDigit (t : Bytes) : Prop := ∀ b r, t = b :: r → isDigit b = false

theorem headNonDigit_of_numEnd {t : Bytes} (h : NumEnd t) : HeadNonDigit t := fun b r e => (h b r e).1

theorem headNonDigit_expPart (ex : Option (Bool × Bytes)) {rest : Bytes} (hr : NumEnd rest) :
    HeadNonDigit (expPart ex ++ rest) := by
  cases ex with
  | none => simpa [expPart] using headNonDigit_of_numEnd hr
  | some p => intro b r e; simp [expPart] at e; rw [← e.1]; decide

theorem headNonDigit_fracPart (fp : Option Bytes) (ex : Option (Bool × Bytes)) {rest : Bytes} (hr : NumEnd rest) :
    HeadNonDigit (fracPart fp ++ (expPart ex ++ rest)) := by
  cases fp with
  | none => simpa [fracPart] using headNonDigit_expPart ex hr
  | some p => intro b r e; simp [fracPart] at e; rw [← e.1]; decide

theorem isEmpty_false_of_ne {l : Bytes} (h : l ≠ []) : l.isEmpty = false := by
  cases l with
  | nil => exact absurd rfl h
  | cons _ _ => rfl

theorem parseExp_some (eneg : Bool) (ed rest : Bytes) (hd : ∀ x ∈ ed, isDigit x = true) (hne : ed ≠ [])
    (hr : NumEnd rest) :
    parseExp (expPart (some (eneg, ed)) ++ rest) = some (expVal (some (eneg, ed)), rest) := by
  have hsp := spanDigits_append ed rest hd (headNonDigit_of_numEnd hr)
  have hs : parseExpSign ((if eneg then cMinus else cPlus) :: (ed ++ rest)) = (eneg, ed ++ rest) := by
    cases eneg <;> simp +decide [parseExpSign]
  simp only [expPart, List.cons_append, parseExp, expVal]
  rw [if_pos (Or.inl (by decide)), hs]
  simp only [hsp, isEmpty_false_of_ne hne, Bool.false_eq_true, if_false]

theorem parseExp_part (ex : Option (Bool × Bytes)) (rest : Bytes)
    (hex : ∀ e d, ex = some (e, d) → (∀ x ∈ d, isDigit x = true) ∧ d ≠ []) (hr : NumEnd rest) :
    parseExp (expPart ex ++ rest) = some (expVal ex, rest) := by
  cases ex with
  | none => simpa [expPart, expVal] using parseExp_end hr
  | some p =>
    obtain ⟨e, d⟩ := p
    exact parseExp_some e d rest (hex e d rfl).1 (hex e d rfl).2 hr

theorem parseFrac_part (fp : Option Bytes) (t : Bytes)
    (hfp : ∀ f, fp = some f → (∀ x ∈ f, isDigit x = true) ∧ f ≠ []) (ht : HeadNonDigit t)
    (hdot : ∀ b r, t = b :: r → b ≠ cDot) :
    parseFrac (fracPart fp ++ t) = some (fp, t) := by
  cases fp with
  | none =>
    cases t with
    | nil => rfl
    | cons b r => simp [fracPart, parseFrac, hdot b r rfl]
  | some f =>
    have hsp := spanDigits_append f t (hfp f rfl).1 ht
    simp only [fracPart, List.cons_append, parseFrac, if_true, hsp, isEmpty_false_of_ne (hfp f rfl).2,
      Bool.false_eq_true, if_false]

theorem expPart_nodot (ex : Option (Bool × Bytes)) {rest : Bytes} (hr : NumEnd rest) :
    ∀ b r, expPart ex ++ rest = b :: r → b ≠ cDot := by
  cases ex with
  | none => intro b r e; simp [expPart] at e; exact (hr b r e).2.1
  | some p => intro b r e; simp [expPart] at e; rw [← e.1]; decide

theorem parseSign_part (neg : Bool) (ip t : Bytes) (hd : ∀ x ∈ ip, isDigit x = true) (hne : ip ≠ []) :
    parseSign (signPart neg ++ ip ++ t) = (neg, ip ++ t) := by
  cases neg
  · simpa [signPart] using parseSign_digits t hd hne
  · simp [signPart, parseSign_minus]

/-- the reader on any well-formed number text followed by a non-number byte -/
theorem parseNumber_numText (neg : Bool) (ip : Bytes) (fp : Option Bytes) (ex : Option (Bool × Bytes))
    (rest : Bytes) (h : NumOK ip fp ex) (hr : NumEnd rest) :
    parseNumber (numText neg ip fp ex ++ rest) = some (mkNum neg ip fp (expVal ex), rest) := by
  have e1 : numText neg ip fp ex ++ rest = signPart neg ++ ip ++ (fracPart fp ++ (expPart ex ++ rest)) := by
    simp [numText, List.append_assoc]
  rw [e1]
  unfold parseNumber
  simp only [parseSign_part neg ip _ h.ipd h.ipne,
    spanDigits_append ip _ h.ipd (headNonDigit_fracPart fp ex hr),
    isEmpty_false_of_ne h.ipne, h.iplead, Bool.false_eq_true, if_false,
    parseFrac_part fp _ h.fpd (headNonDigit_expPart ex hr) (expPart_nodot ex hr),
    parseExp_part ex rest h.exd hr]

end Gojq.Encode

namespace Gojq.Encode
open Gojq

/-! ### the float formats as number texts -/

theorem digitsVal_zeros (n a : Nat) : digitsVal a (List.replicate n cZero) = a * 10 ^ n := by
  induction n generalizing a with
  | zero => simp [digitsVal_nil]
  | succ n ih =>
    rw [List.replicate_succ, digitsVal_cons, ih]
    have : digitVal cZero = 0 := by decide
    rw [this, Nat.pow_succ, Nat.add_zero, Nat.mul_assoc, Nat.mul_comm 10]

theorem isDigit_zero : isDigit cZero = true := by decide

theorem mem_replicate_zero {n : Nat} {x : UInt8} (h : x ∈ List.replicate n cZero) : isDigit x = true := by
  rw [(List.mem_replicate.mp h).2]; exact isDigit_zero

theorem digitsOf_head {m : Nat} {ds : Bytes} (hd : DigitsOf m ds) (hm : m ≠ 0) : ∃ d t, ds = d :: t ∧ d ≠ cZero := by
  cases ds with
  | nil => exact absurd rfl hd.ne
  | cons d t => exact ⟨d, t, rfl, fun e => hd.lead hm (by simp [e])⟩

/-- `%f`: the text, and what the reader computes from it -/
theorem fmtF_shape (neg : Bool) (m : Nat) (ds : Bytes) (dp : Int) (hd : DigitsOf m ds) (hm : m ≠ 0) :
    ∃ ip fp, fmtF ds dp = ip ++ fracPart fp ∧ NumOK ip fp none ∧
      mkNum neg ip fp none =
        (if 0 ≤ dp - ds.length then
          .int (if neg then -((m * 10 ^ (dp - ds.length).toNat : Nat) : Int) else ((m * 10 ^ (dp - ds.length).toNat : Nat) : Int))
         else litToFloat neg m (dp - ds.length)) := by
  obtain ⟨d, t, hdt, hd0⟩ := digitsOf_head hd hm
  have hlen : 1 ≤ ds.length := by rw [hdt]; simp
  unfold fmtF
  by_cases h1 : dp ≤ 0
  · -- 0.000ddd
    refine ⟨[cZero], some (List.replicate (-dp).toNat cZero ++ ds), by simp [h1, fracPart], ?_, ?_⟩
    · refine ⟨by simp [isDigit_zero], by simp, by simp, ?_, by simp⟩
      intro f hf; cases hf
      refine ⟨?_, by simp [hd.ne]⟩
      intro x hx
      rcases List.mem_append.mp hx with hx | hx
      · exact mem_replicate_zero hx
      · exact hd.all x hx
    · have hneg : ¬ (0 ≤ dp - (ds.length : Int)) := by omega
      rw [if_neg hneg]
      simp only [mkNum, Option.getD_some, Option.getD_none]
      have hv : digitsVal 0 ([cZero] ++ (List.replicate (-dp).toNat cZero ++ ds)) = m := by
        rw [digitsVal_append, digitsVal_append, digitsVal_cons, digitsVal_nil, digitsVal_zeros, hd.val]
        have : digitVal cZero = 0 := by decide
        simp [this]
      rw [hv]
      congr 1
      simp only [List.length_append, List.length_replicate]
      omega
  · rw [if_neg h1]
    by_cases h2 : ds.length ≤ dp.toNat
    · -- ddd000
      rw [if_pos h2]
      refine ⟨ds ++ List.replicate (dp.toNat - ds.length) cZero, none, by simp [fracPart], ?_, ?_⟩
      · refine ⟨?_, by simp [hd.ne], ?_, by simp, by simp⟩
        · intro x hx
          rcases List.mem_append.mp hx with hx | hx
          · exact hd.all x hx
          · exact mem_replicate_zero hx
        · rw [hdt]; simp [hd0]
      · have hpos : 0 ≤ dp - (ds.length : Int) := by omega
        rw [if_pos hpos]
        simp only [mkNum]
        rw [digitsVal_append, hd.val, digitsVal_zeros]
        have : (dp - (ds.length : Int)).toNat = dp.toNat - ds.length := by omega
        rw [this]; simp
    · -- dd.ddd
      rw [if_neg h2]
      refine ⟨ds.take dp.toNat, some (ds.drop dp.toNat), by simp [fracPart], ?_, ?_⟩
      · refine ⟨fun x hx => hd.all x (List.mem_of_mem_take hx), ?_, ?_, ?_, by simp⟩
        · intro e
          rcases List.take_eq_nil_iff.mp e with h | h
          · omega
          · exact hd.ne h
        · intro ⟨_, h⟩
          have hpos : 0 < dp.toNat := by omega
          rw [hdt] at h
          obtain ⟨n, hn⟩ : ∃ n, dp.toNat = n + 1 := ⟨dp.toNat - 1, by omega⟩
          rw [hn] at h; simp at h; exact hd0 h
        · intro f hf; cases hf
          refine ⟨fun x hx => hd.all x (List.mem_of_mem_drop hx), ?_⟩
          intro e
          have := List.drop_eq_nil_iff.mp e
          omega
      · have hneg : ¬ (0 ≤ dp - (ds.length : Int)) := by omega
        rw [if_neg hneg]
        simp only [mkNum, Option.getD_some, Option.getD_none, List.take_append_drop]
        have hv := hd.val 0
        simp at hv
        rw [hv]
        congr 1
        simp only [List.length_drop]
        omega

/-- exponent digits, possibly cleaned up -/
theorem expDigits_spec (n : Nat) : (∀ x ∈ expDigits n, isDigit x = true) ∧ digitsVal 0 (expDigits n) = n ∧
    2 ≤ (expDigits n).length ∧ (10 ≤ n → (expDigits n).head? ≠ some cZero) ∧ (n < 10 → expDigits n = [cZero, digitByte n]) := by
  unfold expDigits
  by_cases h : n < 10
  · obtain ⟨h1, h2, _⟩ := digitByte_props n h
    rw [if_pos h]
    refine ⟨?_, ?_, by simp, fun h' => by omega, fun _ => rfl⟩
    · intro x hx; simp at hx; rcases hx with rfl | rfl
      · exact isDigit_zero
      · exact h1
    · rw [digitsVal_cons, digitsVal_cons, digitsVal_nil, h2]
      have : digitVal cZero = 0 := by decide
      simp [this]
  · rw [if_neg h]
    have hd := natDigits_spec n
    refine ⟨hd.all, by simpa using hd.val 0, ?_, fun _ => hd.lead (by omega), fun h' => absurd h' h⟩
    -- at least two digits: otherwise the value would be below 10
    cases hds : natDigits n with
    | nil => exact absurd hds hd.ne
    | cons d t =>
      cases t with
      | nil =>
        exfalso
        have hv := hd.val 0
        rw [hds, digitsVal_cons, digitsVal_nil] at hv
        have hdig := hd.all d (by rw [hds]; simp)
        have : digitVal d < 10 := by
          simp [isDigit] at hdig; simp [digitVal]; omega
        simp at hv; omega
      | cons _ _ => simp

theorem cleanExp_last4 (pre : Bytes) (e m z d : UInt8) :
    cleanExp (pre ++ [e, m, z, d]) =
      if e = cE ∧ m = cMinus ∧ z = cZero then pre ++ [e, m, d] else pre ++ [e, m, z, d] := by
  unfold cleanExp
  simp only [List.reverse_append, List.reverse_cons, List.reverse_nil, List.nil_append, List.cons_append]
  split <;> simp

theorem cleanExp_digit (X : Bytes) (m z d : UInt8) (hX : X ≠ []) (hm : m ≠ cMinus) :
    cleanExp (X ++ [m, z, d]) = X ++ [m, z, d] := by
  obtain ⟨X', e, rfl⟩ : ∃ X' e, X = X' ++ [e] := by
    rcases List.eq_nil_or_concat X with h | ⟨X', e, h⟩
    · exact absurd h hX
    · exact ⟨X', e, by rw [h, List.concat_eq_append]⟩
  have : X' ++ [e] ++ [m, z, d] = X' ++ [e, m, z, d] := by simp
  rw [this, cleanExp_last4, if_neg (by intro ⟨_, h, _⟩; exact hm h)]

theorem cleanExp_shape (mant : Bytes) (eneg : Bool) (n : Nat) :
    ∃ ed, cleanExp (mant ++ [cE, if eneg then cMinus else cPlus] ++ expDigits n) = mant ++ expPart (some (eneg, ed)) ∧
      (∀ x ∈ ed, isDigit x = true) ∧ ed ≠ [] ∧ digitsVal 0 ed = n := by
  obtain ⟨hall, hval, hlen, hlead, hsmall⟩ := expDigits_spec n
  by_cases hn : n < 10
  · -- two digits 0X
    rw [hsmall hn]
    obtain ⟨h1, h2, _⟩ := digitByte_props n hn
    have e4 : mant ++ [cE, if eneg then cMinus else cPlus] ++ [cZero, digitByte n] =
        mant ++ [cE, if eneg then cMinus else cPlus, cZero, digitByte n] := by simp
    rw [e4, cleanExp_last4]
    cases eneg
    · -- e+0X stays
      refine ⟨[cZero, digitByte n], ?_, ?_, by simp, ?_⟩
      · rw [if_neg (by intro ⟨_, h, _⟩; exact absurd h (by decide))]
        simp [expPart]
      · intro x hx; simp at hx; rcases hx with rfl | rfl
        · exact isDigit_zero
        · exact h1
      · rw [← hsmall hn]; exact hval
    · -- e-0X becomes e-X
      refine ⟨[digitByte n], ?_, by simpa using h1, by simp, ?_⟩
      · rw [if_pos ⟨rfl, rfl, rfl⟩]
        simp [expPart]
      · rw [digitsVal_cons, digitsVal_nil, h2]; simp
  · -- natDigits n, at least two digits, no leading zero: nothing to clean
    refine ⟨expDigits n, ?_, hall, ?_, hval⟩
    · have hnc : cleanExp (mant ++ [cE, if eneg then cMinus else cPlus] ++ expDigits n) =
          mant ++ [cE, if eneg then cMinus else cPlus] ++ expDigits n := by
        -- look at the reversed exponent digits
        rcases hrev : (expDigits n).reverse with _ | ⟨d, _ | ⟨z, r⟩⟩
        · have := congrArg List.length hrev
          rw [List.length_reverse, List.length_nil] at this; omega
        · have := congrArg List.length hrev
          rw [List.length_reverse] at this; simp only [List.length_cons, List.length_nil] at this; omega
        · cases r with
          | nil =>
            -- exactly two digits [z, d]: z is the leading digit, not '0'
            have he : expDigits n = [z, d] := by
              have := congrArg List.reverse hrev; simpa using this
            have hz : z ≠ cZero := by
              have := hlead (by omega); rw [he] at this; simpa using this
            have e4 : mant ++ [cE, if eneg then cMinus else cPlus] ++ [z, d] =
                mant ++ [cE, if eneg then cMinus else cPlus, z, d] := by simp
            rw [he, e4, cleanExp_last4, if_neg (by intro ⟨_, _, h⟩; exact hz h)]
          | cons m r' =>
            -- three or more digits: the byte at n-3 is a digit, not '-'
            have he : expDigits n = r'.reverse ++ [m, z, d] := by
              have := congrArg List.reverse hrev; simpa using this
            have hm : isDigit m = true := hall m (by rw [he]; simp)
            have hmm : m ≠ cMinus := isDigit_ne hm (by decide)
            rw [he, ← List.append_assoc]
            exact cleanExp_digit _ m z d (by simp) hmm
      rw [hnc]; simp [expPart, List.append_assoc]
    · intro e; rw [e] at hlen; simp at hlen

/-- `%e` + clean-up: the text, and what the reader computes from it -/
theorem fmtE_shape (neg : Bool) (m : Nat) (ds : Bytes) (dp : Int) (hd : DigitsOf m ds) (hm : m ≠ 0) :
    ∃ ip fp ex, cleanExp (fmtE ds dp) = ip ++ fracPart fp ++ expPart (some ex) ∧ NumOK ip fp (some ex) ∧
      mkNum neg ip fp (expVal (some ex)) = litToFloat neg m (dp - ds.length) := by
  obtain ⟨d, t, hdt, hd0⟩ := digitsOf_head hd hm
  subst hdt
  have hdd : isDigit d = true := hd.all d (by simp)
  have hv := hd.val 0
  simp at hv
  -- the text before clean-up
  have hfmt : ∃ fp, fmtE (d :: t) dp = [d] ++ fracPart fp ++
        [cE, if decide (dp - 1 < 0) = true then cMinus else cPlus] ++ expDigits (dp - 1).natAbs ∧
      (∀ f, fp = some f → (∀ x ∈ f, isDigit x = true) ∧ f ≠ []) ∧ fp.getD [] = t := by
    cases t with
    | nil => exact ⟨none, by simp [fmtE, fracPart], by simp, rfl⟩
    | cons c t' =>
      refine ⟨some (c :: t'), by simp [fmtE, fracPart], ?_, rfl⟩
      intro f hf; cases hf
      exact ⟨fun x hx => hd.all x (by simp at hx ⊢; right; exact hx), by simp⟩
  obtain ⟨fp, hfp, hfpd, hfpt⟩ := hfmt
  obtain ⟨ed, hce, hedd, hedne, hedv⟩ := cleanExp_shape ([d] ++ fracPart fp) (decide (dp - 1 < 0)) (dp - 1).natAbs
  refine ⟨[d], fp, (decide (dp - 1 < 0), ed), ?_, ?_, ?_⟩
  · rw [hfp]; exact hce
  · refine ⟨by simpa using hdd, by simp, by simp, hfpd, ?_⟩
    intro e d' h; cases h; exact ⟨hedd, hedne⟩
  · have hmk : mkNum neg [d] fp (expVal (some (decide (dp - 1 < 0), ed))) =
        litToFloat neg (digitsVal 0 ([d] ++ fp.getD [])) ((expVal (some (decide (dp - 1 < 0), ed))).getD 0 - ((fp.getD []).length : Int)) := by
      cases fp <;> simp [mkNum, expVal]
    rw [hmk, hfpt]
    have : [d] ++ t = d :: t := rfl
    rw [this, hv]
    congr 1
    simp only [expVal, Option.getD_some, hedv]
    have hl : (((d :: t).length : Nat) : Int) = t.length + 1 := by simp
    by_cases hneg : dp - 1 < 0
    · simp only [hneg, decide_true, if_true]; omega
    · simp only [hneg, decide_false, Bool.false_eq_true, if_false]; omega

end Gojq.Encode

namespace Gojq.Encode
open Gojq

/-! ### the shortest-digits search only returns decimals that read back -/

theorem shortestAux_sound (x : Rat) (e : Int) : ∀ (fuel p m : Nat) (k : Int),
    shortestAux x e fuel p = some (m, k) → m ≠ 0 ∧ readsBack x m k = true := by
  intro fuel
  induction fuel with
  | zero => intro p m k h; simp [shortestAux] at h
  | succ fuel ih =>
    intro p m k h
    unfold shortestAux at h
    simp only [] at h
    split at h
    · split at h
      · rename_i hc
        simp only [Option.some.injEq] at h
        rw [h] at hc
        exact ⟨hc.1, hc.2⟩
      · cases h
    · exact ih _ _ _ h

theorem readsBack_eq {x : Rat} {m : Nat} {k : Int} (h : readsBack x m k = true) :
    roundRat ((m : Rat) * pow10 k) = .flt x := by
  unfold readsBack at h; exact eq_of_beq h

theorem shortestDigits_sound {x : Rat} {m : Nat} {k : Int} (h : shortestDigits x = some (m, k)) :
    m ≠ 0 ∧ roundRat ((m : Rat) * pow10 k) = .flt x := by
  have := shortestAux_sound x _ _ _ _ _ h
  exact ⟨this.1, readsBack_eq this.2⟩

/-- the number a reader gets from the positive double `a` printed with sign `neg` -/
def readBackPos (neg : Bool) (a : Rat) (m : Nat) (k : Int) : Num :=
  if ¬ (a < f64_1e_6 ∨ f64_1e21 ≤ a) ∧ 0 ≤ k then
    .int (if neg then -((m * 10 ^ k.toNat : Nat) : Int) else ((m * 10 ^ k.toNat : Nat) : Int))
  else litToFloat neg m k

theorem fmtPos_shape (neg : Bool) (a : Rat) (bs : Bytes) (h : fmtPos a = some bs) :
    ∃ ip fp ex m k, shortestDigits a = some (m, k) ∧ bs = ip ++ fracPart fp ++ expPart ex ∧ NumOK ip fp ex ∧
      mkNum neg ip fp (expVal ex) = readBackPos neg a m k := by
  unfold fmtPos at h
  split at h
  · cases h
  · rename_i m k hs
    have hm := (shortestDigits_sound hs).1
    have hd := natDigits_spec m
    have hk : ((natDigits m).length : Int) + k - ((natDigits m).length : Int) = k := by omega
    simp only [] at h
    split at h
    · -- exponent format
      rename_i hc
      obtain ⟨ip, fp, ex, h1, h2, h3⟩ := fmtE_shape neg m (natDigits m) ((natDigits m).length + k) hd hm
      refine ⟨ip, fp, some ex, m, k, hs, ?_, h2, ?_⟩
      · simp only [Option.some.injEq] at h; rw [← h, h1]
      · rw [h3, hk]; unfold readBackPos
        rw [if_neg (show ¬(¬(a < f64_1e_6 ∨ f64_1e21 ≤ a) ∧ 0 ≤ k) from fun h' => h'.1 hc)]
    · rename_i hc
      obtain ⟨ip, fp, h1, h2, h3⟩ := fmtF_shape neg m (natDigits m) ((natDigits m).length + k) hd hm
      refine ⟨ip, fp, none, m, k, hs, ?_, h2, ?_⟩
      · simp only [Option.some.injEq] at h; rw [← h, h1]; simp [expPart]
      · rw [show expVal none = none from rfl, h3, hk]
        unfold readBackPos
        by_cases hk0 : 0 ≤ k
        · rw [if_pos hk0, if_pos (show ¬(a < f64_1e_6 ∨ f64_1e21 ≤ a) ∧ 0 ≤ k from ⟨hc, hk0⟩)]
        · rw [if_neg hk0, if_neg (show ¬(¬(a < f64_1e_6 ∨ f64_1e21 ≤ a) ∧ 0 ≤ k) from fun h' => hk0 h'.2)]

theorem rat_neg_ne_zero {q : Rat} (h : (q == 0) = false) : ((-q) == 0) = false := by
  have hq : q ≠ 0 := by intro e; rw [e] at h; simp at h
  have : -q ≠ 0 := by
    intro e
    apply hq
    have := congrArg (fun x => -x) e
    simpa [Rat.neg_neg] using this
  simpa using this

theorem digitsVal_zero1 : digitsVal 0 [cZero] = 0 := by
  rw [digitsVal_cons, digitsVal_nil]; decide

/-- a finite double's text is a well-formed number text that reads as `readBackFlt q` -/
theorem encodeFloat_shape (q : Rat) (bs : Bytes) (h : encodeFloat q = some bs) :
    ∃ neg ip fp ex, bs = numText neg ip fp ex ∧ NumOK ip fp ex ∧ mkNum neg ip fp (expVal ex) = readBackFlt q := by
  unfold encodeFloat at h
  unfold readBackFlt
  by_cases h0 : (q == 0) = true
  · rw [if_pos h0] at h
    simp only [Option.some.injEq] at h
    rw [if_pos h0]
    refine ⟨false, [cZero], none, none, by simp [numText, signPart, fracPart, expPart, ← h], ?_, ?_⟩
    · exact ⟨by simp [isDigit_zero], by simp, by simp, by simp, by simp⟩
    · simp [mkNum, expVal, digitsVal_zero1]
  · rw [if_neg h0] at h
    rw [if_neg h0]
    have h0' : (q == 0) = false := by simpa using h0
    by_cases hneg : q < 0
    · rw [if_pos hneg] at h
      simp only [hneg, if_true]
      cases hf : fmtPos (-q) with
      | none => rw [hf] at h; cases h
      | some bs' =>
        rw [hf] at h
        simp only [Option.map_some, Option.some.injEq] at h
        obtain ⟨ip, fp, ex, m, k, hs, hb, hok, hmk⟩ := fmtPos_shape true (-q) bs' hf
        refine ⟨true, ip, fp, ex, by simp [numText, signPart, ← h, hb, List.append_assoc], hok, ?_⟩
        rw [hmk, hs]
        unfold readBackPos
        simp only []
        split
        · simp
        · have hr := (shortestDigits_sound hs).2
          simp only [litToFloat, hr, if_true, negFlt, rat_neg_ne_zero h0', Bool.false_eq_true, if_false, Rat.neg_neg]
    · rw [if_neg hneg] at h
      simp only [hneg, if_false]
      obtain ⟨ip, fp, ex, m, k, hs, hb, hok, hmk⟩ := fmtPos_shape false q bs h
      refine ⟨false, ip, fp, ex, by simp [numText, signPart, hb], hok, ?_⟩
      rw [hmk, hs]
      unfold readBackPos
      simp only []
      split
      · simp
      · have hr := (shortestDigits_sound hs).2
        simp only [litToFloat, hr, Bool.false_eq_true, if_false]

end Gojq.Encode

namespace Gojq.Encode
open Gojq

/-- `readBackFlt q` is the double itself, or an integer literal `±m·10^k` whose magnitude rounds
    (to nearest even) to the double's magnitude -/
theorem readBackFlt_faithful (q : Rat) :
    readBackFlt q = .int 0 ∨ readBackFlt q = .flt q ∨
    ∃ (m : Nat) (k : Nat), readBackFlt q = .int (if q < 0 then -((m * 10 ^ k : Nat) : Int) else ((m * 10 ^ k : Nat) : Int)) ∧
      roundRat ((m : Rat) * pow10 k) = .flt (if q < 0 then -q else q) := by
  unfold readBackFlt
  by_cases h0 : (q == 0) = true
  · left; rw [if_pos h0]
  · rw [if_neg h0]
    simp only []
    generalize (if q < 0 then -q else q) = a
    cases hs : shortestDigits a with
    | none => left; rfl
    | some p =>
      obtain ⟨m, k⟩ := p
      simp only []
      by_cases hc : ¬ (a < f64_1e_6 ∨ f64_1e21 ≤ a) ∧ 0 ≤ k
      · rw [if_pos hc]; right; right
        exact ⟨m, k.toNat, rfl, by rw [Int.toNat_of_nonneg hc.2]; exact (shortestDigits_sound hs).2⟩
      · rw [if_neg hc]; right; left; rfl

/-! ### bytes of a number text -/

/-- the bytes a number text is made of -/
def NumByte (b : UInt8) : Prop := isDigit b = true ∨ b = cMinus ∨ b = cPlus ∨ b = cDot ∨ b = cE

theorem numText_bytes {neg : Bool} {ip : Bytes} {fp : Option Bytes} {ex : Option (Bool × Bytes)}
    (h : NumOK ip fp ex) : ∀ x ∈ numText neg ip fp ex, NumByte x := by
  intro x hx
  simp only [numText, List.mem_append] at hx
  rcases hx with ((hx | hx) | hx) | hx
  · cases neg <;> simp [signPart] at hx; right; left; exact hx
  · left; exact h.ipd x hx
  · cases fp with
    | none => simp [fracPart] at hx
    | some f =>
      simp [fracPart] at hx
      rcases hx with rfl | hx
      · right; right; right; left; rfl
      · left; exact (h.fpd f rfl).1 x hx
  · cases ex with
    | none => simp [expPart] at hx
    | some p =>
      obtain ⟨e, d⟩ := p
      simp [expPart] at hx
      rcases hx with rfl | rfl | hx
      · right; right; right; right; rfl
      · cases e <;> simp [NumByte]
      · left; exact (h.exd e d rfl).1 x hx

theorem numText_head {neg : Bool} {ip : Bytes} {fp : Option Bytes} {ex : Option (Bool × Bytes)}
    (h : NumOK ip fp ex) : ∃ b t, numText neg ip fp ex = b :: t ∧ (isDigit b = true ∨ b = cMinus) := by
  cases neg
  · cases hip : ip with
    | nil => exact absurd hip h.ipne
    | cons d t =>
      refine ⟨d, t ++ fracPart fp ++ expPart ex, by simp [numText, signPart], Or.inl (h.ipd d (by rw [hip]; simp))⟩
  · exact ⟨cMinus, ip ++ fracPart fp ++ expPart ex, by simp [numText, signPart], Or.inr rfl⟩

theorem encodeInt_shape (z : Int) :
    encodeInt z = numText (decide (z < 0)) (natDigits z.natAbs) none none ∧ NumOK (natDigits z.natAbs) none none := by
  have hd := natDigits_spec z.natAbs
  refine ⟨by rw [encodeInt_eq]; simp [numText, signPart, fracPart, expPart], hd.all, hd.ne, ?_, by simp, by simp⟩
  intro ⟨h1, h2⟩
  by_cases hn : z.natAbs = 0
  · rw [hd.zero hn] at h1; simp at h1
  · exact hd.lead hn h2

end Gojq.Encode

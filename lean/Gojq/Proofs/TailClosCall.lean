/-
  C04, the tail-call pass on programs WITH closures: the turn at `callpc` and the `scope` it jumps to,
  GIVEN that the two closures popped by the two runs name corresponding frames (`CloGood`).  Both
  runs push a frame whose outer frame is the closure's frame; the new frames are a kept pair of the
  chain relation `SR`, their lookups agree because the lookups from the two closure frames do.

  What this does NOT provide is `CloGood` itself — which pairs of closure values, among all those the
  two environments hold, name corresponding frames: see the header of Props/C04TailClos.lean.
-/
import Gojq.Proofs.TailClosDiagram
set_option linter.unusedSimpArgs false
set_option linter.unusedVariables false
namespace Gojq.TailVM
open Gojq Gojq.VM Gojq.OptVM Gojq.CloParam

/-! ## pushing a frame whose outer frame is not the top -/

/-- the frame `opscope` pushes for scope `id` entered with the register `index = ix` (`opcallpc`:
    the closure's frame), return address `cpc` -/
def newFrameFrom (s : Stack Scope) (id off cpc ix : Int) : Scope :=
  ⟨id, off, cpc, s.index, outerOf s.data ix id⟩

theorem Lk.pushFrom {d d' : Array (Block Scope)} {k p nx : Int} {id id' : Int} {r : Option Int} {off cpc sv : Int}
    (h : Lk d id' k r) (hne : id' ≠ id) (hkp : k < p) (h0 : 0 ≤ p)
    (hp : d'[p.toNat]? = some ⟨⟨id, off, cpc, sv, TailVM.outerOf d k id⟩, nx⟩)
    (hd : ∀ j : Nat, (j : Int) ≤ k → d'[j]? = d[j]?) : Lk d' id' p r := by
  obtain ⟨h1, h2⟩ := h.outerOf id hne
  refine .miss h0 hp (fun e => hne e.symm) (by show TailVM.outerOf d k id < p; omega) ?_
  exact h1.frame (fun j hj => hd j (by omega))

theorem ScRel.pushKeepFrom {c : Array Instr} {a b : Stack Scope} {fa fb : List Fork} {off : Int}
    (h : ScRel c a fa b fb off) (id cpc off' ia ib : Int) (hk : KeptPc c cpc)
    (hbot : b.index < 0 → cpc = (c.size : Int) - 1)
    (hq : LEq c a.data b.data ia ib) (hia : ia ≤ max a.index a.limit) (hib : ib ≤ max b.index b.limit) :
    ScRel c (a.push (newFrameFrom a id off cpc ia)) fa (b.push (newFrameFrom b id off cpc ib)) fb off' := by
  obtain ⟨hsr, hfk, la, lb, fwa, fwb⟩ := h
  obtain ⟨hi1, hi2⟩ := hsr.lt_size
  obtain ⟨a1, a2, a3, a4, a5⟩ := push_spec' a (newFrameFrom a id off cpc ia) la.1 la.2 hi1
  obtain ⟨b1, b2, b3, b4, b5⟩ := push_spec' b (newFrameFrom b id off cpc ib) lb.1 lb.2 hi2
  refine ⟨?_, ?_, ?_, ?_, ?_, ?_⟩
  · rw [a1, a2, b1, b2]
    refine .keep (by omega) (by omega) a3 b3 rfl rfl rfl rfl (by omega) (by omega)
      ⟨fun _ => by omega, fun _ => by omega⟩ hk hbot ?_ ?_
    · intro id' hid'
      by_cases hne : id' = id
      · subst hne
        exact ⟨some off, .hit (by omega) a3 rfl, .hit (by omega) b3 rfl⟩
      · obtain ⟨r, r1, r2⟩ := hq id' hid'
        exact ⟨r, r1.pushFrom hne (by omega) (by omega) a3 (fun j hj => a4 j (by omega)),
          r2.pushFrom hne (by omega) (by omega) b3 (fun j hj => b4 j (by omega))⟩
    · exact hsr.frame (fun j hj => a4 j (by omega)) (fun j hj => b4 j (by omega))
  · exact hfk.frame (FWs.index_le fwa) (FWs.index_le fwb) (fun j hj => a4 j (by omega)) (fun j hj => b4 j (by omega))
  · rw [a2]; exact ⟨la.1, by omega⟩
  · rw [b2]; exact ⟨lb.1, by omega⟩
  · rw [a2]; exact fwa
  · rw [b2]; exact fwb

/-! ## the two instructions -/

theorem exec_callpc_eq (x : ExtRec) (l : L) (e : Env) {pcT ix : Int} {s : Stack V}
    (hp : e.stack.pop? = some (.clo pcT ix, s)) :
    exec .callpc x l e = .ok (.jump, { l with pc := pcT, callpc := l.pc, index := ix }) { e with stack := s } := by
  simp only [exec, bind_apply, VM.pop, hp]
  rfl

/-- the environment `opscope` leaves when it is entered by `opcallpc` -/
def scopeEnvFrom (id vars cpc ix : Int) (e : Env) : Env :=
  growValues { e with scopes := e.scopes.push (newFrameFrom e.scopes id e.offset cpc ix), offset := e.offset + vars }

theorem exec_scope_from (id vars n : Int) (x : ExtRec) (l : L) (e : Env) (hc : 0 ≤ l.callpc)
    (hb : 0 ≤ l.index → ∃ b, e.scopes.data[l.index.toNat]? = some b) :
    exec (.scope id vars n) x l e = .ok (.fall, l) (scopeEnvFrom id vars l.callpc l.index e) := by
  by_cases hix : l.index = e.scopes.index
  · rw [exec_scope_call id vars n x l e hix hc (by rw [← hix]; exact hb), hix]
    rfl
  obtain ⟨pc, cpc, idx, bt, er⟩ := l
  simp only at hc hb hix
  have hc' : cpc ≥ 0 := hc
  simp only [exec, bind_apply, getEnv_apply, modifyEnv_apply, pure_apply, ite_apply', hc', if_true]
  · simp only [hix, if_false, pure_apply]
    by_cases h0 : idx ≥ 0
    · obtain ⟨b, hbb⟩ := hb h0
      have h0' : 0 ≤ idx := h0
      simp only [h0, if_true, hbb, pure_apply, scopeEnvFrom, growValues, newFrameFrom, outerOf, h0']
      split <;> rfl
    · have h0' : ¬ 0 ≤ idx := h0
      simp only [h0, if_false, scopeEnvFrom, growValues, newFrameFrom, outerOf, h0', pure_apply]
      split <;> rfl

/-! ## the two turns -/

/-- the closures popped by the two runs name corresponding frames: lookups from them agree, both lie
    in the protected region of their scope stack, and hold a frame -/
structure CloGood (d : Array Instr) (eo ep : Env) (ia ib : Int) : Prop where
  leq : LEq d eo.scopes.data ep.scopes.data ia ib
  la : ia ≤ max eo.scopes.index eo.scopes.limit
  lb : ib ≤ max ep.scopes.index ep.scopes.limit
  ba : 0 ≤ ia → ∃ b, eo.scopes.data[ia.toNat]? = some b
  bb : 0 ≤ ib → ∃ b, ep.scopes.data[ib.toNat]? = some b

theorem scopeEnvFrom_fields (id v cp ix : Int) (e : Env) :
    (scopeEnvFrom id v cp ix e).scopes = e.scopes.push (newFrameFrom e.scopes id e.offset cp ix) ∧
    (scopeEnvFrom id v cp ix e).forks = e.forks ∧ (scopeEnvFrom id v cp ix e).offset = e.offset + v ∧
    e.values.size ≤ (scopeEnvFrom id v cp ix e).values.size ∧
    (scopeEnvFrom id v cp ix e).offset ≤ (scopeEnvFrom id v cp ix e).values.size := by
  unfold scopeEnvFrom
  obtain ⟨g1, g2, g3, g4, g5⟩ := growValues_fields
    { e with scopes := e.scopes.push (newFrameFrom e.scopes id e.offset cp ix), offset := e.offset + v }
  exact ⟨g1, g2, g3, g4, g5⟩

theorem scopeEnvFrom_other (id v cp ix : Int) (e : Env) :
    (scopeEnvFrom id v cp ix e).stack = e.stack ∧ (scopeEnvFrom id v cp ix e).paths = e.paths ∧
    (scopeEnvFrom id v cp ix e).pc = e.pc ∧ (scopeEnvFrom id v cp ix e).backtrack = e.backtrack ∧
    (scopeEnvFrom id v cp ix e).expdepth = e.expdepth ∧ (scopeEnvFrom id v cp ix e).label = e.label := by
  unfold scopeEnvFrom growValues
  split <;> exact ⟨rfl, rfl, rfl, rfl, rfl, rfl⟩

theorem scopeEnvFrom_values (id v cp ix cp' ix' : Int) {e e' : Env} (hv : AR VR e.values e'.values)
    (ho : e'.offset = e.offset) :
    AR VR (scopeEnvFrom id v cp ix e).values (scopeEnvFrom id v cp' ix' e').values := by
  unfold scopeEnvFrom growValues
  simp only [ho, ← hv.1]
  split
  · exact hv.append_replicate _ (.refl _)
  · exact hv

/-- THE TURNS AT `callpc` AND AT THE `scope` IT JUMPS TO, given `CloGood` for the popped pair: both runs
    pop their closure, jump to its entry and push a frame there; the states stay related. -/
theorem callpc_turns_closures {c c' d d' : Array Instr} (S : TailStatic d d') (x : ExtRec) {lo lp : L} {eo ep : Env}
    (h : CInv d d' lo lp eo ep) (h0 : 0 ≤ lo.pc) (hc : c[lo.pc.toNat]? = some .callpc)
    (hc' : c'[lo.pc.toNat]? = some .callpc) (hd : d[lo.pc.toNat]? = some (.call 0))
    (hbt : lo.backtrack = false)
    {pcT ia : Int} {so1 : Stack V} (hpop : eo.stack.pop? = some (.clo pcT ia, so1))
    {id v n : Int} (hT0 : 0 ≤ pcT) (hsc : c[pcT.toNat]? = some (.scope id v n))
    (hsc' : c'[pcT.toNat]? = some (.scope id v n)) (hdsc : d[pcT.toNat]? = some (.scope id v n))
    (hgood : ∀ ib sp1, ep.stack.pop? = some (.clo pcT ib, sp1) → CloGood d eo ep ia ib) :
    ∃ lo1 eo1 lo2 eo2 lp1 ep1 lp2 ep2, stepE c x lo eo = .cont lo1 eo1 ∧ stepE c x lo1 eo1 = .cont lo2 eo2 ∧
      stepE c' x lp ep = .cont lp1 ep1 ∧ stepE c' x lp1 ep1 = .cont lp2 ep2 ∧ CInv d d' lo2 lp2 eo2 ep2 := by
  obtain ⟨lm, em, hl, he, hI⟩ := h
  have hpcm : lm.pc = lo.pc := by rw [hl.rest]
  have hbtm : lm.backtrack = lo.backtrack := by rw [hl.rest]
  have hdm : d[lm.pc.toNat]? = some (.call 0) := by rw [hpcm]; exact hd
  have hsync : lm.pc = lp.pc := by
    cases hI.mode with
    | sync h _ => exact h
    | detour _ _ hj =>
      exfalso
      cases hj with
      | ret _ hr => rw [hdm] at hr; cases hr
      | jump _ hjj _ => rw [hdm] at hjj; cases hjj
    | callmid i j id _ _ _ _ hsc hpc _ _ _ _ =>
      exfalso
      rw [← hpc, hdm] at hsc
      cases hsc
  have hlp : lp.pc = lo.pc := by rw [← hsync, hpcm]
  have hbtp : lp.backtrack = false := by rw [hI.bt, hbtm, hbt]
  -- field equalities between the three environments
  have hrm := he.rest
  have hrp := hI.rel.1
  have e_stack : ep.stack = em.stack := by rw [hrp]
  have e_paths : ep.paths = em.paths := by rw [hrp]
  have e_values : ep.values = em.values := by rw [hrp]
  have e_off : ep.offset = eo.offset := by rw [hrp]; exact he.offset
  have e_pc : ep.pc = eo.pc := by rw [hrp]; show em.pc = eo.pc; rw [hrm]
  have e_bt : ep.backtrack = eo.backtrack := by rw [hrp]; show em.backtrack = eo.backtrack; rw [hrm]
  have e_xd : ep.expdepth = eo.expdepth := by rw [hrp]; exact he.expdepth
  have e_lab : ep.label = eo.label := by rw [hrp]; exact he.label
  -- the optimised run pops a closure with the same pc
  obtain ⟨ib, sp1, hpop', hsr1⟩ : ∃ ib sp1, ep.stack.pop? = some (.clo pcT ib, sp1) ∧ CloParam.SR so1 sp1 := by
    have := he.stack.pop
    rw [hpop] at this
    rw [e_stack]
    cases hp : em.stack.pop? with
    | none => rw [hp] at this; exact this.elim
    | some r =>
      rw [hp] at this
      obtain ⟨w, sm1⟩ := r
      obtain ⟨hw, hs1⟩ := this
      cases hw with
      | refl _ => exact ⟨ia, sm1, rfl, hs1⟩
      | clo _ _ j => exact ⟨j, sm1, rfl, hs1⟩
  have G := hgood ib sp1 hpop'
  have h0p : 0 ≤ lp.pc := by rw [hlp]; exact h0
  have hcp : c'[lp.pc.toNat]? = some .callpc := by rw [hlp]; exact hc'
  have hne : 0 ≤ ep.scopes.index := by
    rcases hI.ne with h1 | ⟨h1, _⟩ | ⟨_, _, id', v', n', h3⟩
    · exact h1
    · rw [hbtp] at h1; cases h1
    · rw [hlp, hd] at h3; cases h3
  -- the four turns
  refine ⟨{ lo with pc := pcT, callpc := lo.pc, index := ia }, { eo with stack := so1 },
    { lo with pc := pcT + 1, callpc := lo.pc, index := ia },
    scopeEnvFrom id v lo.pc ia { eo with stack := so1 },
    { lp with pc := pcT, callpc := lp.pc, index := ib }, { ep with stack := sp1 },
    { lp with pc := pcT + 1, callpc := lp.pc, index := ib },
    scopeEnvFrom id v lp.pc ib { ep with stack := sp1 }, ?_, ?_, ?_, ?_, ?_⟩
  · rw [stepE_at c x lo eo _ h0 hc, exec_callpc_eq x lo eo hpop]; rfl
  · rw [stepE_at c x _ _ _ hT0 hsc, exec_scope_from id v n x _ _ h0 G.ba]; rfl
  · rw [stepE_at c' x lp ep _ h0p hcp, exec_callpc_eq x lp ep hpop']; rfl
  · rw [stepE_at c' x _ _ _ hT0 hsc', exec_scope_from id v n x _ _ h0p G.bb]; rfl
  -- the composite relation afterwards
  obtain ⟨f1, f2, f3, f4, f5⟩ := scopeEnvFrom_fields id v lo.pc ia { eo with stack := so1 }
  obtain ⟨f6, f7, f8, f9, f10, f11⟩ := scopeEnvFrom_other id v lo.pc ia { eo with stack := so1 }
  obtain ⟨g1, g2, g3, g4, g5⟩ := scopeEnvFrom_fields id v lp.pc ib { ep with stack := sp1 }
  obtain ⟨g6, g7, g8, g9, g10, g11⟩ := scopeEnvFrom_other id v lp.pc ib { ep with stack := sp1 }
  have hvals : AR VR (scopeEnvFrom id v lo.pc ia { eo with stack := so1 }).values
      (scopeEnvFrom id v lp.pc ib { ep with stack := sp1 }).values :=
    scopeEnvFrom_values id v lo.pc ia lp.pc ib (e := { eo with stack := so1 }) (e' := { ep with stack := sp1 })
      (by show AR VR eo.values ep.values; rw [e_values]; exact he.values) e_off
  generalize scopeEnvFrom id v lo.pc ia { eo with stack := so1 } = EO2 at *
  generalize scopeEnvFrom id v lp.pc ib { ep with stack := sp1 } = EP2 at *
  replace f1 : EO2.scopes = eo.scopes.push (newFrameFrom eo.scopes id eo.offset lo.pc ia) := f1
  replace f2 : EO2.forks = eo.forks := f2
  replace f3 : EO2.offset = eo.offset + v := f3
  replace f6 : EO2.stack = so1 := f6
  replace f7 : EO2.paths = eo.paths := f7
  replace f8 : EO2.pc = eo.pc := f8
  replace f9 : EO2.backtrack = eo.backtrack := f9
  replace f10 : EO2.expdepth = eo.expdepth := f10
  replace f11 : EO2.label = eo.label := f11
  replace g1 : EP2.scopes = ep.scopes.push (newFrameFrom ep.scopes id ep.offset lp.pc ib) := g1
  replace g2 : EP2.forks = ep.forks := g2
  replace g3 : EP2.offset = ep.offset + v := g3
  replace g4 : ep.values.size ≤ EP2.values.size := g4
  replace g5 : EP2.offset ≤ EP2.values.size := g5
  replace g6 : EP2.stack = sp1 := g6
  replace g7 : EP2.paths = ep.paths := g7
  replace g8 : EP2.pc = ep.pc := g8
  replace g9 : EP2.backtrack = ep.backtrack := g9
  replace g10 : EP2.expdepth = ep.expdepth := g10
  replace g11 : EP2.label = ep.label := g11
  obtain ⟨_, hs, ho⟩ := hI.rel
  have hkept : KeptPc d lp.pc := .inl ⟨h0p, 0, by rw [hlp]; exact hd⟩
  have hsr := ScRel.pushKeepFrom (c := d) (a := eo.scopes) (b := ep.scopes) (fa := eo.forks) (fb := ep.forks)
    (off := eo.offset) (by rw [← he.scopes, ← he.forks, ← he.offset]; exact hs) id lp.pc (eo.offset + v) ia ib hkept
    (fun hlt => by omega) G.leq G.la G.lb
  have hszI : (em.values.size : Int) ≤ (EP2.values.size : Int) := by
    rw [← e_values]; exact_mod_cast g4
  refine ⟨{ lp with pc := pcT + 1, callpc := lo.pc, index := ia },
    { EP2 with scopes := EO2.scopes, forks := EO2.forks }, ?_, ?_, ?_⟩
  · -- locals
    refine ⟨?_, ?_⟩
    · show OR ER lo.err lp.err
      rw [hI.err]; exact hl.err
    · show ({ lp with pc := pcT + 1, callpc := lo.pc, index := ia } : L) =
        { lo with pc := pcT + 1, callpc := lo.pc, index := ia, err := lp.err }
      rw [L.mk.injEq]
      exact ⟨rfl, rfl, rfl, by rw [hbtp, hbt], rfl⟩
  · -- up to closure indices
    refine ⟨?_, ?_, ?_, ?_⟩
    · show CloParam.SR EO2.stack EP2.stack
      rw [f6, g6]; exact hsr1
    · show CloParam.SR EO2.paths EP2.paths
      rw [f7, g7, e_paths]; exact he.paths
    · exact hvals
    · show ({ EP2 with scopes := EO2.scopes, forks := EO2.forks } : Env) =
        { EO2 with stack := EP2.stack, paths := EP2.paths, values := EP2.values }
      rw [Env.mk.injEq]
      exact ⟨by rw [g8, f8]; exact e_pc, by rw [g9, f9]; exact e_bt, rfl, rfl, rfl, rfl, rfl,
        by rw [g3, f3, e_off], by rw [g10, f10]; exact e_xd, by rw [g11, f11]; exact e_lab⟩
  · -- the invariant of the closure-free proof
    have hidx : 0 ≤ EP2.scopes.index := by
      rw [g1]
      have := (push_spec' ep.scopes (newFrameFrom ep.scopes id ep.offset lp.pc ib) hs.lb.1 hs.lb.2 hs.sr.lt_size.2).1
      rw [this]; have := hs.lb.1; omega
    refine ⟨⟨rfl, ?_, ?_⟩, rfl, rfl, .sync rfl (fun hsx => ?_), ?_, .inl hidx⟩
    · -- ScRel
      show ScRel d EO2.scopes EO2.forks EP2.scopes EP2.forks EP2.offset
      rw [f1, f2, g1, g2, g3, e_off, ← hlp]
      exact hsr
    · -- OffInv
      refine ⟨?_, ?_, ?_⟩
      · show EP2.offset ≤ (EP2.values.size : Int)
        exact g5
      · show ∀ (j : Nat) (b : Block Scope), EO2.scopes.data[j]? = some b → b.value.offset ≤ (EP2.values.size : Int)
        rw [f1]
        refine push_all (fun b => b.value.offset ≤ (EP2.values.size : Int))
          eo.scopes (newFrameFrom eo.scopes id eo.offset lo.pc ia) ?_ ?_
        · intro j b hb'
          rw [← he.scopes] at hb'
          exact Int.le_trans (ho.frames j b hb') hszI
        · show eo.offset ≤ (EP2.values.size : Int)
          rw [← he.offset]
          exact Int.le_trans ho.off hszI
      · show ∀ f ∈ EO2.forks, f.offset ≤ (EP2.values.size : Int)
        intro f hf
        rw [f2, ← he.forks] at hf
        exact Int.le_trans (ho.forks f hf) hszI
    · exact absurd hsx (S.not_scope_succ hT0 hdsc (by intro u e; cases e))
    · intro hbb
      have : lp.backtrack = true := hbb
      rw [hbtp] at this; cases this

/-- … for the codes themselves: `c` shape-checked (closures allowed), `c'` the pass output without
    `callrec`.  None of the four turns consumes an oracle record. -/
theorem callpc_closures {c c' : Array Instr} (hshape : tailShapeCheck c = true) (hopt : optTailV c = some c')
    (hnc : noCallrec c' = true) (x : ExtRec) {lo lp : L} {eo ep : Env}
    (h : CInv (c.map strip) (c'.map strip) lo lp eo ep) (h0 : 0 ≤ lo.pc) (hc : c[lo.pc.toNat]? = some .callpc)
    (hbt : lo.backtrack = false)
    {pcT ia : Int} {so1 : Stack V} (hpop : eo.stack.pop? = some (.clo pcT ia, so1))
    {id v n : Int} (hT0 : 0 ≤ pcT) (hsc : c[pcT.toNat]? = some (.scope id v n))
    (hgood : ∀ ib sp1, ep.stack.pop? = some (.clo pcT ib, sp1) → CloGood (c.map strip) eo ep ia ib) :
    ∃ lo1 eo1 lo2 eo2 lp1 ep1 lp2 ep2, stepE c x lo eo = .cont lo1 eo1 ∧ stepE c x lo1 eo1 = .cont lo2 eo2 ∧
      stepE c' x lp ep = .cont lp1 ep1 ∧ stepE c' x lp1 ep1 = .cont lp2 ep2 ∧
      CInv (c.map strip) (c'.map strip) lo2 lp2 eo2 ep2 ∧ tickAt c lo = 0 ∧ tickAt c lo1 = 0 := by
  have hs := shapeOK_of_check hshape
  obtain ⟨_, hsite⟩ := optTailV_spec hs.fwd hopt
  have hc' : c'[lo.pc.toNat]? = some .callpc := by
    rcases hsite _ _ hc with h1 | ⟨j, id, v, h1, _⟩
    · exact h1
    · cases h1
  have hsc' : c'[pcT.toNat]? = some (.scope id v n) := by
    rcases hsite _ _ hsc with h1 | ⟨j, id, v, h1, _⟩
    · exact h1
    · cases h1
  obtain ⟨lo1, eo1, lo2, eo2, lp1, ep1, lp2, ep2, s1, s2, s3, s4, hC⟩ :=
    callpc_turns_closures (tailStatic_strip hshape hopt hnc) x h h0 hc hc' (get_strip hc) hbt hpop hT0 hsc hsc'
      (get_strip hsc) hgood
  refine ⟨lo1, eo1, lo2, eo2, lp1, ep1, lp2, ep2, s1, s2, s3, s4, hC, ?_, ?_⟩
  · rw [tickAt_at c lo _ h0 hc]; rfl
  · have e1 : stepE c x lo eo = .cont { lo with pc := pcT, callpc := lo.pc, index := ia } { eo with stack := so1 } := by
      rw [stepE_at c x lo eo _ h0 hc, exec_callpc_eq x lo eo hpop]; rfl
    rw [e1] at s1
    simp only [StepE.cont.injEq] at s1
    obtain ⟨rfl, _⟩ := s1
    rw [tickAt_at c _ _ hT0 hsc]; rfl

end Gojq.TailVM

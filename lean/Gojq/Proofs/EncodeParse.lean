/- Helper lemmas for C12: the JSON reader on the library encoder's output (round trip).
   Core Lean only. -/
import Gojq.Proofs.EncodeStr
import Gojq.Proofs.EncodeNum
namespace Gojq.Encode
open Gojq

/-! ### floats the model covers -/

theorem encodeFloat_max : encodeFloat maxFloat64 = some [0x31, 0x2e, 0x37, 0x39, 0x37, 0x36, 0x39, 0x33, 0x31, 0x33, 0x34,
    0x38, 0x36, 0x32, 0x33, 0x31, 0x35, 0x37, 0x65, 0x2b, 0x33, 0x30, 0x38] := by decide +kernel
theorem encodeFloat_negmax : encodeFloat (-maxFloat64) = some [0x2d, 0x31, 0x2e, 0x37, 0x39, 0x37, 0x36, 0x39, 0x33, 0x31, 0x33, 0x34,
    0x38, 0x36, 0x32, 0x33, 0x31, 0x35, 0x37, 0x65, 0x2b, 0x33, 0x30, 0x38] := by decide +kernel
theorem readBackFlt_max : readBackFlt maxFloat64 = .flt maxFloat64 := by decide +kernel
theorem readBackFlt_negmax : readBackFlt (-maxFloat64) = .flt (-maxFloat64) := by decide +kernel

/-- is the number's text produced by the model (i.e. not the "unmodelled float" marker)? -/
def modelledNum : Num → Bool
  | .flt q => (encodeFloat q).isSome
  | _ => true

/-- every number except NaN prints as a well-formed number text that reads as `readBackNum` -/
theorem encodeNum_shape (n : Num) (hn : n ≠ .nan) (hm : modelledNum n = true) :
    ∃ neg ip fp ex r, encodeNum n = numText neg ip fp ex ∧ NumOK ip fp ex ∧
      mkNum neg ip fp (expVal ex) = r ∧ readBackNum n = .num r := by
  cases n with
  | nan => exact absurd rfl hn
  | int z =>
    obtain ⟨h1, h2⟩ := encodeInt_shape z
    refine ⟨_, _, none, none, .int z, h1, h2, ?_, rfl⟩
    have hv := (natDigits_spec z.natAbs).val 0
    simp only [mkNum, expVal, hv]
    by_cases h : z < 0
    · simp [h]; omega
    · simp [h]; omega
  | nzero =>
    refine ⟨true, [cZero], none, none, .int 0, by simp [encodeNum, numText, signPart, fracPart, expPart], ?_, ?_, rfl⟩
    · exact ⟨by simp [isDigit_zero], by simp, by simp, by simp, by simp⟩
    · simp [mkNum, expVal, digitsVal_zero1]
  | inf neg =>
    cases neg
    · obtain ⟨ng, ip, fp, ex, h1, h2, h3⟩ := encodeFloat_shape _ _ encodeFloat_max
      exact ⟨ng, ip, fp, ex, _, by simp [encodeNum, encodeFloat_max, h1], h2, h3, by simp [readBackNum]⟩
    · obtain ⟨ng, ip, fp, ex, h1, h2, h3⟩ := encodeFloat_shape _ _ encodeFloat_negmax
      exact ⟨ng, ip, fp, ex, _, by simp [encodeNum, encodeFloat_negmax, h1], h2, h3, by simp [readBackNum]⟩
  | flt q =>
    simp only [modelledNum] at hm
    obtain ⟨bs, hbs⟩ := Option.isSome_iff_exists.mp hm
    obtain ⟨ng, ip, fp, ex, h1, h2, h3⟩ := encodeFloat_shape q bs hbs
    exact ⟨ng, ip, fp, ex, _, by simp [encodeNum, hbs, h1], h2, h3, rfl⟩

/-! ### what may follow a value, and how a value starts -/

/-- the input after a value inside the encoder's output: end, `,`, `]` or `}` -/
def ValEnd (rest : Bytes) : Prop := rest = [] ∨ ∃ c t, rest = c :: t ∧ (c = cComma ∨ c = cRBrack ∨ c = cRBrace)

theorem ValEnd.numEnd {rest : Bytes} (h : ValEnd rest) : NumEnd rest := by
  intro b t e
  rcases h with h | ⟨c, t', h, hc⟩
  · rw [h] at e; cases e
  · rw [h] at e; cases e
    rcases hc with rfl | rfl | rfl <;> decide

theorem skipWs_start {b : UInt8} (t : Bytes) (h : isWs b = false) : skipWs (b :: t) = b :: t := by
  rw [skipWs]; simp [h]

theorem ValEnd.skipWs {rest : Bytes} (h : ValEnd rest) : skipWs rest = rest := by
  rcases h with h | ⟨c, t', h, hc⟩
  · rw [h]; rfl
  · rw [h]; rcases hc with rfl | rfl | rfl <;> exact skipWs_start _ (by decide)

theorem valEnd_comma (t : Bytes) : ValEnd (cComma :: t) := Or.inr ⟨_, _, rfl, Or.inl rfl⟩
theorem valEnd_rbrack (t : Bytes) : ValEnd (cRBrack :: t) := Or.inr ⟨_, _, rfl, Or.inr (Or.inl rfl)⟩
theorem valEnd_rbrace (t : Bytes) : ValEnd (cRBrace :: t) := Or.inr ⟨_, _, rfl, Or.inr (Or.inr rfl)⟩

/-- first byte of a value: not white space, not a closing bracket -/
abbrev ValStart (b : UInt8) : Prop := isWs b = false ∧ b ≠ cRBrack ∧ b ≠ cRBrace

theorem numStart {b : UInt8} (h : isDigit b = true ∨ b = cMinus) :
    ValStart b ∧ b ≠ 0x6e ∧ b ≠ 0x74 ∧ b ≠ 0x66 ∧ b ≠ cQuote ∧ b ≠ cLBrack ∧ b ≠ cLBrace := by
  rcases h with h | rfl
  · have hx : 0x30 ≤ b.toNat ∧ b.toNat ≤ 0x39 := by simpa [isDigit] using h
    have ne : ∀ c : UInt8, (c.toNat < 0x30 ∨ 0x39 < c.toNat) → b ≠ c := fun c hc => ne_of_toNat_ne (by omega)
    refine ⟨⟨?_, ne _ (by decide), ne _ (by decide)⟩, ne _ (by decide), ne _ (by decide), ne _ (by decide),
      ne _ (by decide), ne _ (by decide), ne _ (by decide)⟩
    simp only [isWs, Bool.or_eq_false_iff, decide_eq_false_iff_not]
    exact ⟨⟨⟨ne _ (by decide), ne _ (by decide)⟩, ne _ (by decide)⟩, ne _ (by decide)⟩
  · decide

mutual
  theorem encodeValue_head : ∀ (v : JV), modelled v = true → ∃ b t, encodeValue v = b :: t ∧ ValStart b
    | .null, _ => ⟨_, _, rfl, by decide⟩
    | .bool true, _ => ⟨_, _, rfl, by decide⟩
    | .bool false, _ => ⟨_, _, rfl, by decide⟩
    | .str s, _ => ⟨_, _, rfl, by decide⟩
    | .arr xs, _ => ⟨_, _, rfl, by decide⟩
    | .obj kvs, _ => ⟨_, _, rfl, by decide⟩
    | .num n, hm => by
      by_cases hn : n = .nan
      · subst hn; exact ⟨_, _, rfl, by decide⟩
      · have hmn : modelledNum n = true := by cases n <;> simp_all [modelled, modelledNum]
        obtain ⟨ng, ip, fp, ex, r, h1, h2, _⟩ := encodeNum_shape n hn hmn
        obtain ⟨b, t, h3, h4⟩ := numText_head (neg := ng) h2
        exact ⟨b, t, by simp [encodeValue, h1, h3], (numStart h4).1⟩
end

/-! ### fuel -/

mutual
  def need : JV → Nat
    | .arr xs => 1 + needList xs
    | .obj kvs => 1 + needKvs kvs
    | _ => 1
  def needList : List JV → Nat
    | [] => 0
    | x :: xs => 1 + need x + needList xs
  def needKvs : List (Bytes × JV) → Nat
    | [] => 0
    | (_, x) :: xs => 1 + need x + needKvs xs
end

mutual
  theorem need_le : ∀ v : JV, need v ≤ 2 * (encodeValue v).length + 1
    | .null => by simp [need]
    | .bool _ => by simp [need]
    | .num _ => by simp [need]
    | .str _ => by simp [need]
    | .arr xs => by
      have := needList_le xs
      simp only [need, encodeValue, List.length_cons, List.length_append, List.length_nil]; omega
    | .obj kvs => by
      have := needKvs_le kvs
      simp only [need, encodeValue, List.length_cons, List.length_append, List.length_nil]; omega
  theorem needList_le : ∀ xs : List JV, needList xs ≤ 2 * (encodeElems xs).length + 2
    | [] => by simp [needList]
    | [x] => by
      have := need_le x
      simp only [needList, encodeElems]; omega
    | x :: y :: r => by
      have h1 := need_le x
      have h2 := needList_le (y :: r)
      simp only [needList, encodeElems, List.length_cons, List.length_append] at *; omega
  theorem needKvs_le : ∀ kvs : List (Bytes × JV), needKvs kvs ≤ 2 * (encodeMembers kvs).length + 2
    | [] => by simp [needKvs]
    | [(k, x)] => by
      have := need_le x
      simp only [needKvs, encodeMembers, List.length_cons, List.length_append]; omega
    | (k, x) :: y :: r => by
      have h1 := need_le x
      have h2 := needKvs_le (y :: r)
      simp only [needKvs, encodeMembers, List.length_cons, List.length_append] at *; omega
end

end Gojq.Encode

namespace Gojq.Encode
open Gojq

/-! ### the reader on the encoder's output -/

set_option linter.unusedSimpArgs false

theorem parse_encodeString (s rest : Bytes) :
    parseStrAux none (encStrAux s.length s ++ cQuote :: rest) = some (Utf8.sanitize s, rest) := by
  rw [← sanitizeBytes_eq]
  exact parse_pieces (encStrAux_pieces _ _ (Nat.le_refl _)) rest

theorem encodeString_append (s rest : Bytes) :
    encodeString s ++ rest = cQuote :: (encStrAux s.length s ++ cQuote :: rest) := by
  simp [encodeString]

theorem modelled_num {n : Num} (h : modelled (.num n) = true) : modelledNum n = true := by
  cases n <;> simp_all [modelled, modelledNum]

/-- dispatch of `parseValue` on a number's first byte -/
theorem parseValue_number (fuel : Nat) (b : UInt8) (t : Bytes) (h : isDigit b = true ∨ b = cMinus) :
    parseValue (fuel + 1) (b :: t) = (parseNumber (b :: t)).map fun p => (.num p.1, p.2) := by
  obtain ⟨⟨h0, _, _⟩, h1, h2, h3, h4, h5, h6⟩ := numStart h
  rw [parseValue, skipWs_start _ h0]
  simp only [if_neg h1, if_neg h2, if_neg h3, if_neg h4, if_neg h5, if_neg h6]

theorem encodeElems_head (x : JV) (xs : List JV) (hm : modelled x = true) :
    ∃ b t, encodeElems (x :: xs) = b :: t ∧ ValStart b := by
  obtain ⟨b, t, hb, hs⟩ := encodeValue_head x hm
  cases xs with
  | nil => exact ⟨b, t, by simp [encodeElems, hb], hs⟩
  | cons y r => exact ⟨b, t ++ cComma :: encodeElems (y :: r), by simp [encodeElems, hb], hs⟩

theorem encodeMembers_head (kv : Bytes × JV) (kvs : List (Bytes × JV)) :
    ∃ t, encodeMembers (kv :: kvs) = cQuote :: t := by
  obtain ⟨k, x⟩ := kv
  cases kvs with
  | nil => exact ⟨encStrAux k.length k ++ [cQuote] ++ cColon :: encodeValue x, by simp [encodeMembers, encodeString]⟩
  | cons y r =>
    exact ⟨encStrAux k.length k ++ [cQuote] ++ cColon :: (encodeValue x ++ cComma :: encodeMembers (y :: r)),
      by simp [encodeMembers, encodeString]⟩

mutual
  theorem parseValue_encode : ∀ (v : JV), modelled v = true → ∀ (fuel : Nat) (rest : Bytes),
      need v ≤ fuel → ValEnd rest → parseValue fuel (encodeValue v ++ rest) = some (readBack v, rest)
    | .null, _, fuel, rest, hf, _ => by
      obtain ⟨f, rfl⟩ : ∃ f, fuel = f + 1 := ⟨fuel - 1, by simp [need] at hf; omega⟩
      rw [parseValue]; simp +decide [encodeValue, bNull, skipWs, isWs, readBack]
    | .bool true, _, fuel, rest, hf, _ => by
      obtain ⟨f, rfl⟩ : ∃ f, fuel = f + 1 := ⟨fuel - 1, by simp [need] at hf; omega⟩
      rw [parseValue]; simp +decide [encodeValue, bTrue, skipWs, isWs, readBack]
    | .bool false, _, fuel, rest, hf, _ => by
      obtain ⟨f, rfl⟩ : ∃ f, fuel = f + 1 := ⟨fuel - 1, by simp [need] at hf; omega⟩
      rw [parseValue]; simp +decide [encodeValue, bFalse, skipWs, isWs, readBack]
    | .num n, hm, fuel, rest, hf, hr => by
      obtain ⟨f, rfl⟩ : ∃ f, fuel = f + 1 := ⟨fuel - 1, by simp [need] at hf; omega⟩
      by_cases hn : n = .nan
      · subst hn
        rw [parseValue]; simp +decide [encodeValue, encodeNum, bNull, skipWs, isWs, readBack, readBackNum]
      · obtain ⟨ng, ip, fp, ex, r, h1, h2, h3, h4⟩ := encodeNum_shape n hn (modelled_num hm)
        obtain ⟨b, t, h5, h6⟩ := numText_head (neg := ng) h2
        have hp := parseNumber_numText ng ip fp ex rest h2 hr.numEnd
        simp only [encodeValue, h1, readBack, h4]
        rw [h5] at hp ⊢
        rw [List.cons_append] at hp ⊢
        rw [parseValue_number f b _ h6, hp, h3]; rfl
    | .str s, _, fuel, rest, hf, _ => by
      obtain ⟨f, rfl⟩ : ∃ f, fuel = f + 1 := ⟨fuel - 1, by simp [need] at hf; omega⟩
      simp only [encodeValue, readBack]
      rw [encodeString_append, parseValue, skipWs_start _ (by decide)]
      simp +decide only [if_true, if_false]
      rw [parse_encodeString]; rfl
    | .arr xs, hm, fuel, rest, hf, hr => by
      obtain ⟨f, rfl⟩ : ∃ f, fuel = f + 1 := ⟨fuel - 1, by simp [need] at hf; omega⟩
      have hf' : needList xs ≤ f := by simp [need] at hf; omega
      have hm' : modelledList xs = true := by simpa [modelled] using hm
      have e : encodeValue (.arr xs) ++ rest = cLBrack :: (encodeElems xs ++ cRBrack :: rest) := by
        simp [encodeValue]
      rw [e, parseValue, skipWs_start _ (by decide)]
      simp +decide only [if_true, if_false]
      cases xs with
      | nil =>
        rw [show encodeElems [] ++ cRBrack :: rest = cRBrack :: rest from rfl, skipWs_start _ (by decide)]
        simp [readBack, readBackList]
      | cons x xs' =>
        have ih := parseElems_encode (x :: xs') (by simp) hm' f rest hf'
        have hmx : modelled x = true := by simp [modelledList] at hm'; exact hm'.1
        obtain ⟨b, t, hb, hs⟩ := encodeElems_head x xs' hmx
        rw [hb] at ih ⊢
        rw [List.cons_append] at ih ⊢
        rw [skipWs_start _ hs.1]
        simp only [if_neg hs.2.1, ih, readBack]; rfl
    | .obj kvs, hm, fuel, rest, hf, hr => by
      obtain ⟨f, rfl⟩ : ∃ f, fuel = f + 1 := ⟨fuel - 1, by simp [need] at hf; omega⟩
      have hf' : needKvs kvs ≤ f := by simp [need] at hf; omega
      have hm' : modelledKvs kvs = true := by simpa [modelled] using hm
      have e : encodeValue (.obj kvs) ++ rest = cLBrace :: (encodeMembers kvs ++ cRBrace :: rest) := by
        simp [encodeValue]
      rw [e, parseValue, skipWs_start _ (by decide)]
      simp +decide only [if_true, if_false]
      cases kvs with
      | nil =>
        rw [show encodeMembers [] ++ cRBrace :: rest = cRBrace :: rest from rfl, skipWs_start _ (by decide)]
        simp [readBack, readBackKvs]
      | cons kv kvs' =>
        have ih := parseMembers_encode (kv :: kvs') (by simp) hm' f rest hf'
        obtain ⟨t, hb⟩ := encodeMembers_head kv kvs'
        rw [hb] at ih ⊢
        rw [List.cons_append] at ih ⊢
        rw [skipWs_start _ (by decide)]
        simp +decide only [if_false, ih, readBack]; rfl
  theorem parseElems_encode : ∀ (xs : List JV), xs ≠ [] → modelledList xs = true → ∀ (fuel : Nat) (rest : Bytes),
      needList xs ≤ fuel →
      parseElems fuel (encodeElems xs ++ cRBrack :: rest) = some (readBackList xs, rest)
    | [], hne, _, _, _, _ => absurd rfl hne
    | [x], _, hm, fuel, rest, hf => by
      obtain ⟨f, rfl⟩ : ∃ f, fuel = f + 1 := ⟨fuel - 1, by simp [needList] at hf; omega⟩
      have hmx : modelled x = true := by simp [modelledList] at hm; exact hm
      have ih := parseValue_encode x hmx f (cRBrack :: rest) (by simp [needList] at hf; omega) (valEnd_rbrack rest)
      rw [parseElems]
      simp only [encodeElems, ih, skipWs_start _ (show isWs cRBrack = false by decide)]
      simp +decide [readBackList]
    | x :: y :: r, _, hm, fuel, rest, hf => by
      obtain ⟨f, rfl⟩ : ∃ f, fuel = f + 1 := ⟨fuel - 1, by simp [needList] at hf; omega⟩
      have hm2 : modelled x = true ∧ modelledList (y :: r) = true := by
        simp only [modelledList, Bool.and_eq_true] at hm ⊢; exact ⟨hm.1, hm.2⟩
      have ih1 := parseValue_encode x hm2.1 f (cComma :: (encodeElems (y :: r) ++ cRBrack :: rest))
        (by simp [needList] at hf ⊢; omega) (valEnd_comma _)
      have ih2 := parseElems_encode (y :: r) (by simp) hm2.2 f rest (by simp [needList] at hf ⊢; omega)
      rw [parseElems]
      have e : encodeElems (x :: y :: r) ++ cRBrack :: rest =
          encodeValue x ++ cComma :: (encodeElems (y :: r) ++ cRBrack :: rest) := by
        simp [encodeElems]
      rw [e]
      simp only [ih1, skipWs_start _ (show isWs cComma = false by decide), if_true, ih2]
      simp [readBackList]
  theorem parseMembers_encode : ∀ (kvs : List (Bytes × JV)), kvs ≠ [] → modelledKvs kvs = true →
      ∀ (fuel : Nat) (rest : Bytes), needKvs kvs ≤ fuel →
      parseMembers fuel (encodeMembers kvs ++ cRBrace :: rest) = some (readBackKvs kvs, rest)
    | [], hne, _, _, _, _ => absurd rfl hne
    | [(k, x)], _, hm, fuel, rest, hf => by
      obtain ⟨f, rfl⟩ : ∃ f, fuel = f + 1 := ⟨fuel - 1, by simp [needKvs] at hf; omega⟩
      have hmx : modelled x = true := by simp [modelledKvs] at hm; exact hm
      have ih := parseValue_encode x hmx f (cRBrace :: rest) (by simp [needKvs] at hf; omega) (valEnd_rbrace rest)
      have e : encodeMembers [(k, x)] ++ cRBrace :: rest =
          cQuote :: (encStrAux k.length k ++ cQuote :: (cColon :: (encodeValue x ++ cRBrace :: rest))) := by
        simp [encodeMembers, encodeString]
      rw [e, parseMembers, skipWs_start _ (show isWs cQuote = false by decide)]
      simp only [if_true, parse_encodeString, skipWs_start _ (show isWs cColon = false by decide), ih,
        skipWs_start _ (show isWs cRBrace = false by decide)]
      simp +decide [readBackKvs]
    | (k, x) :: y :: r, _, hm, fuel, rest, hf => by
      obtain ⟨f, rfl⟩ : ∃ f, fuel = f + 1 := ⟨fuel - 1, by simp [needKvs] at hf; omega⟩
      have hm2 : modelled x = true ∧ modelledKvs (y :: r) = true := by
        simp only [modelledKvs, Bool.and_eq_true] at hm ⊢; exact ⟨hm.1, hm.2⟩
      have ih1 := parseValue_encode x hm2.1 f (cComma :: (encodeMembers (y :: r) ++ cRBrace :: rest))
        (by simp [needKvs] at hf ⊢; omega) (valEnd_comma _)
      have ih2 := parseMembers_encode (y :: r) (by simp) hm2.2 f rest (by simp [needKvs] at hf ⊢; omega)
      have e : encodeMembers ((k, x) :: y :: r) ++ cRBrace :: rest =
          cQuote :: (encStrAux k.length k ++ cQuote :: (cColon :: (encodeValue x ++
            cComma :: (encodeMembers (y :: r) ++ cRBrace :: rest)))) := by
        simp [encodeMembers, encodeString]
      rw [e, parseMembers, skipWs_start _ (show isWs cQuote = false by decide)]
      simp only [if_true, parse_encodeString, skipWs_start _ (show isWs cColon = false by decide), ih1,
        skipWs_start _ (show isWs cComma = false by decide), ih2]
      simp [readBackKvs]
end

/-- the library encoder's text reads back as `readBack v` -/
theorem parseJson_encodeValue (v : JV) (hm : modelled v = true) : parseJson (encodeValue v) = some (readBack v) := by
  unfold parseJson
  have h := parseValue_encode v hm (2 * (encodeValue v).length + 1) [] (need_le v) (Or.inl rfl)
  rw [List.append_nil] at h
  rw [h]; simp [skipWs]

end Gojq.Encode

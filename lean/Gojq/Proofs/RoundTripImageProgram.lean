/-
  The image of the reference parser is Printable, whole programs: module header, imports with
  metadata, definitions-only bodies or a query.
-/
import Gojq.Proofs.RoundTripImage6
namespace Gojq.RefTerm
open Gojq Gojq.Lexer

structure IHC (f : Nat) : Prop where
  cterm : ∀ (ts : List Tok) (c : CTerm) (rest : List Tok),
    pCTerm f ts = some (c, rest) → Good ts → okCT c = true ∧ Good rest
  cobj : ∀ (ts : List Tok) (kvs : List CKV) (rest : List Tok),
    pCObj f ts = some (kvs, rest) → Good ts → okCKVs kvs = true ∧ Good rest
  ckv : ∀ (ts : List Tok) (kv : CKV) (rest : List Tok),
    pCKV f ts = some (kv, rest) → Good ts → okCKV kv = true ∧ Good rest
  ckvsT : ∀ (ts : List Tok) (kvs : List CKV) (rest : List Tok),
    pCKVsT f ts = some (kvs, rest) → Good ts → okCKVs kvs = true ∧ Good rest
  celemsT : ∀ (ts : List Tok) (es : List CTerm) (rest : List Tok),
    pCElemsT f ts = some (es, rest) → Good ts → okCTs es = true ∧ Good rest

theorem kw_identName (w : Kw) : isIdentName w.text = true := by cases w <;> decide

theorem stepC_cterm (f : Nat) (ih : IHC f) : ∀ (ts : List Tok) (c : CTerm) (rest : List Tok),
    pCTerm (f + 1) ts = some (c, rest) → Good ts → okCT c = true ∧ Good rest := by
  intro ts c rest h hg
  unfold pCTerm at h
  split at h
  · ext_do h
    obtain ⟨kvs, b, h1, rfl, rfl⟩ := h
    obtain ⟨p1, p2⟩ := ih.cobj _ kvs b h1 hg.tail
    exact ⟨by simpa [okCT] using p1, p2⟩
  · simp at h; obtain ⟨rfl, rfl⟩ := h; exact ⟨rfl, hg.tail2⟩
  · ext_do h
    obtain ⟨e, b, h1, es, b2, h2, rfl, rfl⟩ := h
    obtain ⟨p1, p2⟩ := ih.cterm _ e b h1 hg.tail
    obtain ⟨r1, r2⟩ := ih.celemsT _ es _ h2 p2
    exact ⟨by simp [okCT, okCTs, p1, r1], r2⟩
  · simp at h; obtain ⟨rfl, rfl⟩ := h
    exact ⟨by simpa [okCT, Tok.wfI, Tok.wf] using hg.head, hg.tail⟩
  · simp at h; obtain ⟨rfl, rfl⟩ := h
    exact ⟨by simpa [okCT, Tok.wfI, Tok.wf] using hg.head, hg.tail⟩
  · simp at h; obtain ⟨rfl, rfl⟩ := h; exact ⟨rfl, hg.tail⟩
  · simp at h; obtain ⟨rfl, rfl⟩ := h; exact ⟨rfl, hg.tail⟩
  · simp at h; obtain ⟨rfl, rfl⟩ := h; exact ⟨rfl, hg.tail⟩
  · cases h

theorem stepC_cobj (f : Nat) (ih : IHC f) : ∀ (ts : List Tok) (kvs : List CKV) (rest : List Tok),
    pCObj (f + 1) ts = some (kvs, rest) → Good ts → okCKVs kvs = true ∧ Good rest := by
  intro ts kvs rest h hg
  unfold pCObj at h
  split at h
  · simp at h; obtain ⟨rfl, rfl⟩ := h; exact ⟨rfl, hg.tail⟩
  · ext_do h
    obtain ⟨kv, b, h1, kvs', b2, h2, rfl, rfl⟩ := h
    obtain ⟨p1, p2⟩ := ih.ckv _ kv b h1 hg
    obtain ⟨r1, r2⟩ := ih.ckvsT _ kvs' _ h2 p2
    exact ⟨by simp [okCKVs, p1, r1], r2⟩

theorem stepC_ckv (f : Nat) (ih : IHC f) : ∀ (ts : List Tok) (kv : CKV) (rest : List Tok),
    pCKV (f + 1) ts = some (kv, rest) → Good ts → okCKV kv = true ∧ Good rest := by
  intro ts kv rest h hg
  unfold pCKV at h
  split at h
  · ext_do h
    obtain ⟨v, b, h1, rfl, rfl⟩ := h
    obtain ⟨p1, p2⟩ := ih.cterm _ v b h1 hg.tail2
    have hw := hg.head
    simp only [Tok.wfI, Tok.wf, isPlainIdent, Bool.and_eq_true] at hw
    exact ⟨by simp [okCKV, hw.1, p1], p2⟩
  · ext_do h
    obtain ⟨v, b, h1, rfl, rfl⟩ := h
    obtain ⟨p1, p2⟩ := ih.cterm _ v b h1 hg.tail2
    exact ⟨by simp [okCKV, kw_identName, p1], p2⟩
  · ext_do h
    obtain ⟨v, b, h1, rfl, rfl⟩ := h
    obtain ⟨p1, p2⟩ := ih.cterm _ v b h1 hg.tail2
    have hw := hg.head
    simp only [Tok.wfI, Tok.wf] at hw
    exact ⟨by simp [okCKV, hw, p1], p2⟩
  · cases h

theorem stepC_ckvsT (f : Nat) (ih : IHC f) : ∀ (ts : List Tok) (kvs : List CKV) (rest : List Tok),
    pCKVsT (f + 1) ts = some (kvs, rest) → Good ts → okCKVs kvs = true ∧ Good rest := by
  intro ts kvs rest h hg
  unfold pCKVsT at h
  split at h
  · simp at h; obtain ⟨rfl, rfl⟩ := h; exact ⟨rfl, hg.tail⟩
  · simp at h; obtain ⟨rfl, rfl⟩ := h; exact ⟨rfl, hg.tail2⟩
  · ext_do h
    obtain ⟨kv, b, h1, kvs', b2, h2, rfl, rfl⟩ := h
    obtain ⟨p1, p2⟩ := ih.ckv _ kv b h1 hg.tail
    obtain ⟨r1, r2⟩ := ih.ckvsT _ kvs' _ h2 p2
    exact ⟨by simp [okCKVs, p1, r1], r2⟩
  · cases h

theorem stepC_celemsT (f : Nat) (ih : IHC f) : ∀ (ts : List Tok) (es : List CTerm) (rest : List Tok),
    pCElemsT (f + 1) ts = some (es, rest) → Good ts → okCTs es = true ∧ Good rest := by
  intro ts es rest h hg
  unfold pCElemsT at h
  split at h
  · simp at h; obtain ⟨rfl, rfl⟩ := h; exact ⟨rfl, hg.tail⟩
  · ext_do h
    obtain ⟨e, b, h1, es', b2, h2, rfl, rfl⟩ := h
    obtain ⟨p1, p2⟩ := ih.cterm _ e b h1 hg.tail
    obtain ⟨r1, r2⟩ := ih.celemsT _ es' _ h2 p2
    exact ⟨by simp [okCTs, p1, r1], r2⟩
  · cases h

theorem ihc_all : ∀ f, IHC f := by
  intro f
  induction f with
  | zero =>
    exact {
      cterm := fun _ _ _ h => by simp [pCTerm] at h
      cobj := fun _ _ _ h => by simp [pCObj] at h
      ckv := fun _ _ _ h => by simp [pCKV] at h
      ckvsT := fun _ _ _ h => by simp [pCKVsT] at h
      celemsT := fun _ _ _ h => by simp [pCElemsT] at h }
  | succ f ih =>
    exact { cterm := stepC_cterm f ih, cobj := stepC_cobj f ih, ckv := stepC_ckv f ih,
            ckvsT := stepC_ckvsT f ih, celemsT := stepC_celemsT f ih }

theorem pMeta_img (f : Nat) (ts : List Tok) (m : Option (List CKV)) (rest : List Tok)
    (h : pMeta f ts = some (m, rest)) (hg : Good ts) : okMeta m = true ∧ Good rest := by
  unfold pMeta at h
  split at h
  · simp at h; obtain ⟨rfl, rfl⟩ := h; exact ⟨rfl, hg.tail⟩
  · ext_do h
    obtain ⟨kvs, b, h1, ts2, h2, rfl, rfl⟩ := h
    obtain ⟨p1, p2⟩ := (ihc_all f).cobj _ kvs b h1 hg.tail
    have := expect_some h2; subst this
    exact ⟨by simpa [okMeta] using p1, p2.tail⟩
  · cases h

theorem pImports_img : ∀ (f : Nat) (ts : List Tok) (is : List Import) (rest : List Tok),
    pImports f ts = some (is, rest) → Good ts → is.all okImport = true ∧ Good rest := by
  intro f
  induction f with
  | zero => intro ts is rest h; simp [pImports] at h
  | succ f ih =>
    intro ts is rest h hg
    unfold pImports at h
    split at h
    · ext_do h
      obtain ⟨a, ha, m, b, h1, is', b2, h2, rfl, rfl⟩ := h
      obtain ⟨p1, p2⟩ := pMeta_img f _ m b h1 hg.tail3.tail
      obtain ⟨r1, r2⟩ := ih _ is' _ h2 p2
      have hp : okLit _ = true := hg.tail.head
      have ht := wf_paramOfTok hg.tail3.head ha
      exact ⟨by simp only [List.all_cons, okImport, hp, ht, p1, r1, Bool.and_self], r2⟩
    · cases h
    · ext_do h
      obtain ⟨m, b, h1, is', b2, h2, rfl, rfl⟩ := h
      obtain ⟨p1, p2⟩ := pMeta_img f _ m b h1 hg.tail2
      obtain ⟨r1, r2⟩ := ih _ is' _ h2 p2
      have hp : okLit _ = true := hg.tail.head
      exact ⟨by simp only [List.all_cons, okImport, hp, p1, r1, Bool.and_self], r2⟩
    · cases h
    · simp at h; obtain ⟨rfl, rfl⟩ := h; exact ⟨rfl, hg⟩

theorem pBody_img : ∀ (f : Nat) (ts : List Tok) (b : Body), pBody f ts = some b → Good ts → okBody b = true := by
  intro f
  induction f with
  | zero => intro ts b h; simp [pBody] at h
  | succ f ih =>
    intro ts b h hg
    unfold pBody at h
    split at h
    · simp at h; subst h; rfl
    · ext_do h
      obtain ⟨fd, ts1, h1, b', h2, h3⟩ := h
      obtain ⟨p1, p2⟩ := (ih_all f).funcDef _ fd ts1 h1 hg.tail
      have hb := ih _ b' h2 p2
      cases b' with
      | defs ds =>
        simp at h3; subst h3
        simpa [okBody, p1] using hb
      | query q =>
        simp at h3; subst h3
        simp only [okBody] at hb ⊢
        unfold Printable at hb ⊢
        rw [okQ_def]
        simp [p1, hb]
    · simp only [Option.map_eq_some_iff] at h
      obtain ⟨q, hq, rfl⟩ := h
      exact refParse_printable f ts q hg hq

/-- THE IMAGE, WHOLE PROGRAMS: on a token list the lexer can have produced every program the
    reference parser returns is a Printable program -/
theorem pProgram_printable (f : Nat) (ts : List Tok) (p : Program) (hg : Good ts) (h : pProgram f ts = some p) :
    PrintableProgram p = true := by
  unfold pProgram at h
  split at h
  · ext_do h
    obtain ⟨kvs, ts1, h1, ts2, h2, is, ts3, h3, b, h4, rfl⟩ := h
    obtain ⟨p1, p2⟩ := (ihc_all f).cobj _ kvs ts1 h1 hg.tail2
    have := expect_some h2; subst this
    obtain ⟨q1, q2⟩ := pImports_img f _ is ts3 h3 p2.tail
    have hb := pBody_img f _ b h4 q2
    simp [PrintableProgram, okMeta, p1, q1, hb]
  · cases h
  · ext_do h
    obtain ⟨is, ts3, h3, b, h4, rfl⟩ := h
    obtain ⟨q1, q2⟩ := pImports_img f _ is ts3 h3 hg
    have hb := pBody_img f _ b h4 q2
    simp [PrintableProgram, okMeta, q1, hb]

end Gojq.RefTerm

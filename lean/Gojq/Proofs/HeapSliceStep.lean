/-
  Helper lemmas for the slice extension of the heap model, part 3: the slice step of `updS` preserves
  the bookkeeping invariant `URes`, and the resulting theorem `updS_res`.  Core Lean only.
-/
import Gojq.Proofs.HeapSliceInv
namespace Gojq.Heap
open Gojq

theorem URes.plugSlice {A f v n} (H : Hyp A f v n) (s e : Option Int) (p : PathS) (sf : SFocus)
    (he : enterSlice s e v = some sf) (r r' : T × List Nat × Nat × Log)
    (R : URes A (viewLabel sf f).2 p (view sf f) n r)
    (hp : plugSlice sf (viewLabel sf f).1 r = some r') :
    URes A f (.slice s e :: p) v n r' := by
  obtain ⟨hroot, hkid, hkids, hnode⟩ := enterSlice_ids s e v sf he
  have Hv := H.view s e sf he
  have hf0 := viewLabel_ge sf f
  have hRf := R.hf
  obtain ⟨ul, uc, uks, hu, hcase⟩ := plugSlice_cases sf _ r r' hp
  have huids : r.1.ids = ul :: idsK uks := by rw [hu]; rfl
  have hukid : kidIds r.1 = idsK uks := by rw [hu]; rfl
  have huroot : r.1.root? = some ul := by rw [hu]; rfl
  have hukids : kidsOf r.1 = uks := by rw [hu]; rfl
  -- labels of the three parts
  have hvc : ∀ a, v.ids.count a = (if v.root? = some a then 1 else 0) +
      ((idsK sf.pre).count a + (idsK sf.mid).count a + (idsK sf.post).count a) := by
    intro a; rw [count_root_kid, hkid]; simp only [List.count_append]
  have hpart : ∀ j, (j ∈ idsK sf.pre ∨ j ∈ idsK sf.mid ∨ j ∈ idsK sf.post) → j ∈ v.ids := by
    intro j hj
    rw [ids_root_kid, hkid]
    simp only [List.mem_append]
    rcases hj with h | h | h
    · exact Or.inr (Or.inl (Or.inl h))
    · exact Or.inr (Or.inl (Or.inr h))
    · exact Or.inr (Or.inr h)
  have hpre : ∀ j ∈ idsK sf.pre, j < f := fun j hj => H.hv j (hpart j (Or.inl hj))
  have hmid : ∀ j ∈ idsK sf.mid, j < f := fun j hj => H.hv j (hpart j (Or.inr (Or.inl hj)))
  have hpost : ∀ j ∈ idsK sf.post, j < f := fun j hj => H.hv j (hpart j (Or.inr (Or.inr hj)))
  -- the label of the view
  have hvl : ((viewLabel sf f).1 = f ∧ (viewLabel sf f).2 = f + 1) ∨
      (∃ id c, sf.cell = some (id, c) ∧ (viewLabel sf f).1 = id ∧ (viewLabel sf f).2 = f) := by
    rcases viewLabel_cases sf f with ⟨h0, id, c, hc, h1, _⟩ | ⟨h1, h0, _⟩
    · exact Or.inr ⟨id, c, hc, h1, h0⟩
    · exact Or.inl ⟨h1, h0⟩
  have cellv : ∀ id c, sf.cell = some (id, c) → v.root? = some id ∧ id ∈ v.ids ∧ id < f := by
    intro id c hc
    have h1 : v.root? = some id := by rw [hroot, hc]; rfl
    have h2 : id ∈ v.ids := by rw [ids_root_kid, h1]; simp
    exact ⟨h1, h2, H.hv id h2⟩
  have hA1f : ∀ a ∈ r.2.1, a < f → a ∈ A := by
    intro a ha hlt
    rcases R.hA1 a ha with h | h
    · exact h
    · omega
  have vlA : (viewLabel sf f).1 ∈ r.2.1 → ∃ id c, sf.cell = some (id, c) ∧ (viewLabel sf f).1 = id := by
    intro hm
    rcases hvl with ⟨h1, h2⟩ | ⟨id, c, hc, h1, _⟩
    · exfalso
      rcases R.hA1 _ hm with h | h
      · have := H.hA _ h; omega
      · omega
    · exact ⟨id, c, hc, h1⟩
  -- labels of the new elements
  have hkc : ∀ a, a < (viewLabel sf f).2 → (idsK uks).count a ≤ (idsK sf.mid).count a + n.ids.count a := by
    intro a ha
    have := R.kcnt' a ha
    rw [hukid, view_kidIds] at this
    exact this
  have huksub : ∀ j ∈ idsK uks, j < r.2.2.1 := fun j hj => R.hub j (by rw [huids]; simp [hj])
  have uksfresh : ∀ a, f ≤ a → (idsK uks).count a ≤ 1 ∧ (a = ul → (idsK uks).count a = 0) := by
    intro a ha
    by_cases hlt : a < (viewLabel sf f).2
    · have h1 := hkc a hlt
      have h2 : (idsK sf.mid).count a = 0 := count_eq_zero_of_lt hmid ha
      have h3 : n.ids.count a = 0 := count_eq_zero_of_lt H.hn ha
      exact ⟨by omega, fun _ => by omega⟩
    · have h1 := R.fresh a (by omega)
      rw [huids] at h1
      simp only [List.count_cons] at h1
      refine ⟨by omega, fun hal => ?_⟩
      subst hal
      simp only [beq_self_eq_true, if_true] at h1
      omega
  -- where the root of `u` comes from
  have hur := R.uroot ul huroot
  rw [view_root] at hur
  have ulNe : ∀ j ∈ A, (∀ id c, sf.cell = some (id, c) → j ≠ id) → ul ≠ j := by
    intro j hj hne heq
    subst heq
    rcases hur with ⟨h1, _, _⟩ | ⟨h1, _, _⟩ | ⟨h1, _⟩
    · simp only [Option.some.injEq] at h1
      rcases hvl with ⟨h2, _⟩ | ⟨id, c, hc, h2, _⟩
      · have := H.hA _ hj; omega
      · exact hne id c hc (by rw [← h1, h2])
    · have := H.hA _ hj; omega
    · exact H.hnA _ hj h1
  -- an owned label of `v` that is the root or occurs in `mid` does not occur in `pre`, `post`
  have outside : ∀ j ∈ A, j ∈ (view sf f).ids → (idsK sf.pre).count j + (idsK sf.post).count j = 0 := by
    intro j hj hm
    have h1 := H.uniq j hj
    have h2 := hvc j
    rw [view_ids] at hm
    rcases List.mem_cons.mp hm with hm | hm
    · rcases hvl with ⟨h3, _⟩ | ⟨id, c, hc, h3, _⟩
      · have := H.hA j hj; omega
      · have : v.root? = some j := by rw [(cellv id c hc).1, hm, h3]
        simp only [this, if_true] at h2
        omega
    · have := count_pos_of_mem hm
      omega
  -- siblings
  have sibLt : ∀ (x : Bytes × T), x ∈ sf.pre ++ sf.post → ∀ j ∈ x.2.ids,
      j < f ∧ (idsK sf.pre).count j + (idsK sf.post).count j > 0 := by
    intro x hx j hj
    rcases List.mem_append.mp hx with hx | hx
    · have hm := mem_idsK_of_mem hx hj
      exact ⟨hpre j hm, by have := count_pos_of_mem hm; omega⟩
    · have hm := mem_idsK_of_mem hx hj
      exact ⟨hpost j hm, by have := count_pos_of_mem hm; omega⟩
  have sibNotView : ∀ j ∈ A, (idsK sf.pre).count j + (idsK sf.post).count j > 0 →
      j ∉ (view sf f).ids ∧ ∀ id c, sf.cell = some (id, c) → j ≠ id := by
    intro j hj hpos
    refine ⟨fun hm => by have := outside j hj hm; omega, ?_⟩
    intro id c hc heq
    have h1 := H.uniq j hj
    have h2 := hvc j
    have : v.root? = some j := by rw [(cellv id c hc).1, heq]
    simp only [this, if_true] at h2
    omega
  have sibAgree : ∀ (x : Bytes × T), x ∈ sf.pre ++ sf.post → ∀ j ∈ x.2.ids, (j ∈ A ↔ j ∈ r.2.1) := by
    intro x hx j hj
    obtain ⟨hjf, hpos⟩ := sibLt x hx j hj
    constructor
    · intro h; exact R.keep j h (sibNotView j h hpos).1
    · intro h; exact hA1f j h hjf
  have sibTc : ∀ x ∈ sf.pre ++ sf.post, tc A x.2 := by
    intro x hx
    apply H.tck x
    rw [hkids]
    simp only [List.mem_append] at hx ⊢
    rcases hx with h | h
    · exact Or.inl (Or.inl h)
    · exact Or.inr h
  have uksTc : ∀ x ∈ uks, tc r.2.1 x.2 := by
    have := R.tcr
    rw [hu] at this
    exact tc_kid this
  -- `a ∈ A1` that is the root of `u` although `u` is dropped: impossible unless it is the cell of `v`
  have keepA : ∀ a ∈ A, a ∉ v.ids → a ∈ r.2.1 ∧ ul ≠ a := by
    intro a ha hnv
    have hne : ∀ id c, sf.cell = some (id, c) → a ≠ id := fun id c hc heq => hnv (heq ▸ (cellv id c hc).2.1)
    refine ⟨R.keep a ha ?_, ulNe a ha hne⟩
    rw [view_ids]
    intro hm
    rcases List.mem_cons.mp hm with hm | hm
    · rcases hvl with ⟨h3, _⟩ | ⟨id, c, hc, h3, _⟩
      · have := H.hA a ha; omega
      · exact hne id c hc (by rw [hm, h3])
    · exact hnv (hpart a (Or.inr (Or.inl hm)))
  -- consistency of the entries of the recursion with the new children
  have consKids : ∀ e' ∈ r.2.2.2, consK e'.1 e'.2 (sf.pre ++ uks ++ sf.post) := by
    intro e' he'
    obtain ⟨h1, h2⟩ := R.logA e' he'
    have h0 := outside e'.1 h1 h2
    have hc := R.cons e' he'
    rw [hu] at hc
    simp only [Heap.cons] at hc
    rw [consK_append, consK_append]
    exact ⟨⟨consK_of_not_mem _ _ _ (not_mem_of_count_zero (by omega)), hc.2⟩,
      consK_of_not_mem _ _ _ (not_mem_of_count_zero (by omega))⟩
  have logAv : ∀ e' ∈ r.2.2.2, e'.1 ∈ A ∧ e'.1 ∈ v.ids := by
    intro e' he'
    obtain ⟨h1, h2⟩ := R.logA e' he'
    refine ⟨h1, ?_⟩
    rw [view_ids] at h2
    rcases List.mem_cons.mp h2 with hm | hm
    · rcases hvl with ⟨h3, _⟩ | ⟨id, c, hc, h3, _⟩
      · have := H.hA _ h1; omega
      · rw [hm, h3]; exact (cellv id c hc).2.1
    · exact hpart _ (Or.inr (Or.inl hm))
  have kcntNew : ∀ a, a < f → (idsK (sf.pre ++ uks ++ sf.post)).count a ≤ (kidIds v).count a + n.ids.count a := by
    intro a ha
    rw [hkid]
    simp only [idsK_append, List.count_append]
    have := hkc a (by omega)
    omega
  have freshNew : ∀ a, f ≤ a → (idsK (sf.pre ++ uks ++ sf.post)).count a ≤ 1 := by
    intro a ha
    simp only [idsK_append, List.count_append]
    rw [count_eq_zero_of_lt hpre ha, count_eq_zero_of_lt hpost ha]
    have := (uksfresh a ha).1
    omega
  have hubNew : ∀ j ∈ idsK (sf.pre ++ uks ++ sf.post), j < r.2.2.1 := by
    intro j hj
    simp only [idsK_append, List.mem_append] at hj
    rcases hj with (hj | hj) | hj
    · have := hpre j hj; omega
    · exact huksub j hj
    · have := hpost j hj; omega
  -- the replaced part, seen from `v`
  have replUp : ∀ a, a ∈ A → (∀ id c, sf.cell = some (id, c) → a ≠ id) →
      (a ∉ (view sf f).ids ∨ a ∈ replG p (view sf f)) → a ∉ idsK sf.pre → a ∉ idsK sf.post →
      (a ∉ v.ids ∨ a ∈ replG (.slice s e :: p) v) := by
    intro a haA hne hor h1 h3
    cases hcell : sf.cell with
    | none =>
      left
      rcases enterSlice_cases s e v sf he with ⟨rfl, _⟩ | ⟨id, c, ks, _, hc, _⟩
      · simp [T.null, T.ids]
      · rw [hcell] at hc; cases hc
    | some ic =>
      obtain ⟨id, c⟩ := ic
      have hv := hnode id c hcell
      have haid := hne id c hcell
      rcases hor with g | g
      · left
        rw [view_ids] at g
        simp only [List.mem_cons, not_or] at g
        rw [ids_root_kid, (cellv id c hcell).1, hkid]
        simp only [Option.toList_some, List.mem_append, List.mem_cons, List.not_mem_nil, or_false, not_or]
        exact ⟨haid, ⟨h1, g.2⟩, h3⟩
      · right
        rw [hv] at he ⊢
        obtain ⟨r1, r2⟩ := replG_slice s e p id c _ sf he (viewLabel sf f).1 sf.mid.length
        by_cases hpe : p = []
        · subst hpe
          rw [r1 rfl]
          simp only [replG, getpS, endsWithSlice, Bool.false_eq_true, if_false, view_ids, List.mem_cons] at g
          rcases g with g | g
          · exfalso
            rcases hvl with ⟨h3', _⟩ | ⟨id', c', hc', h3', _⟩
            · have := H.hA a haA; omega
            · rw [hcell] at hc'
              simp only [Option.some.injEq, Prod.mk.injEq] at hc'
              exact haid (by rw [g, h3', hc'.1])
          · exact g
        · rw [r2 hpe]; exact g
  -- the root of `u`, when `u` is dropped, is not registered any more
  have ulGone : ∀ a, a ∈ r.2.1 → a = ul → (∀ id c, sf.cell = some (id, c) → a ≠ id) → uks ≠ [] ∧ f ≤ a := by
    intro a ha hal hne
    subst hal
    rcases hur with ⟨h1, _, h2⟩ | ⟨h1, _, h2⟩ | ⟨h1, hp0⟩
    · exfalso
      simp only [Option.some.injEq] at h1
      obtain ⟨id, c, hc, h3⟩ := vlA (h1 ▸ h2)
      exact hne id c hc (by rw [← h1, h3])
    · exact ⟨by rw [← hukids]; exact h2.mp ha, by omega⟩
    · exfalso
      have hb := R.base hp0
      have : r.2.1 = A := by rw [hb]
      rw [this] at ha
      exact H.hnA _ ha h1
  rcases hcase with ⟨id, c, hc, hlen, hin, rfl⟩ | ⟨A2, rfl, hA2⟩
  · -- the elements are copied into `v` in place
    obtain ⟨hvroot, hidv, hidf⟩ := cellv id c hc
    have hidA : id ∈ A := hA1f id hin hidf
    have hidonce : (idsK sf.pre).count id + (idsK sf.mid).count id + (idsK sf.post).count id = 0 := by
      have h1 := H.uniq id hidA
      have h2 := hvc id
      simp only [hvroot, if_true] at h2
      omega
    have hnid : n.ids.count id = 0 := List.count_eq_zero.mpr (H.hnA id hidA)
    have huksid : (idsK uks).count id = 0 := by have := hkc id (by omega); omega
    have hidkids : id ∉ idsK (sf.pre ++ uks ++ sf.post) := by
      simp only [idsK_append, List.mem_append, not_or]
      exact ⟨⟨not_mem_of_count_zero (by omega), not_mem_of_count_zero huksid⟩, not_mem_of_count_zero (by omega)⟩
    -- `u` carries the label of `v` only when it is the view written in place
    have ulid : ul = id → (viewLabel sf f).1 = id := by
      intro h
      subst h
      rcases hur with ⟨h1, _, _⟩ | ⟨h1, _, _⟩ | ⟨h1, _⟩
      · simp only [Option.some.injEq] at h1; exact h1
      · omega
      · exact absurd h1 (H.hnA _ hidA)
    have memA' : ∀ a ∈ r.2.1, ul ≠ a ∨ (ul == (viewLabel sf f).1) = true → a ∈ freeU (ul == (viewLabel sf f).1) r.1 uks r.2.1 := by
      intro a ha hor
      cases hsame : (ul == (viewLabel sf f).1) with
      | true => rw [freeU_same]; exact ha
      | false =>
        rcases hor with h | h
        · exact mem_freeU _ _ _ _ a ha (by rw [huroot]; intro e; cases e; exact h rfl)
        · rw [hsame] at h; cases h
    have hidA' : id ∈ freeU (ul == (viewLabel sf f).1) r.1 uks r.2.1 := by
      apply memA' id hin
      by_cases h : ul = id
      · right; rw [h, ulid h]; simp
      · exact Or.inl h
    refine { hf := by show f ≤ r.2.2.1; omega, hA1 := ?_, keep := ?_, hub := ?_, base := ?_, root := ?_, kcnt := ?_,
             fresh := ?_, logA := ?_, logne := ?_, logroot := ?_, cons := ?_, tcr := ?_, live := ?_ }
    · intro a ha
      rcases R.hA1 a (freeU_sub _ _ _ _ a ha) with h | h
      · exact Or.inl h
      · exact Or.inr ⟨by omega, h.2⟩
    · intro a ha hnv
      obtain ⟨h1, h2⟩ := keepA a ha hnv
      exact memA' a h1 (Or.inl h2)
    · intro j hj
      simp only [T.ids, List.mem_cons] at hj
      rcases hj with rfl | hj
      · show j < r.2.2.1; omega
      · exact hubNew j hj
    · intro h; cases h
    · intro _; exact ⟨id, false, c, _, rfl, Or.inl ⟨hvroot, hidA, hidA'⟩⟩
    · intro _ a ha; exact kcntNew a ha
    · intro a ha
      show (T.node id false c (sf.pre ++ uks ++ sf.post)).ids.count a ≤ 1
      simp only [T.ids, List.count_cons]
      have := freshNew a ha
      have : ¬ (id == a) = true := by simp; omega
      simp only [this, Bool.false_eq_true, if_false]; omega
    · intro e' he'
      simp only [List.mem_append] at he'
      rcases he' with he' | he'
      · split at he'
        · obtain ⟨e'', he'', h1, _⟩ := mem_rebase id sf.post r.2.2.2 e' he'
          rw [h1]; exact logAv e'' he''
        · exact logAv e' he'
      · split at he'
        · cases he'
        · simp only [List.mem_singleton] at he'
          subst he'
          exact ⟨hidA, hidv⟩
    · intro e' he'
      simp only [List.mem_append] at he'
      rcases he' with he' | he'
      · split at he'
        · obtain ⟨e'', he'', _, h2⟩ := mem_rebase id sf.post r.2.2.2 e' he'
          rcases h2 with ⟨_, h2⟩ | ⟨_, h2⟩
          · rw [h2]
            have := R.logne e'' he''
            intro h
            exact this (List.append_eq_nil_iff.mp h).1
          · rw [h2]; exact R.logne e'' he''
        · exact R.logne e' he'
      · split at he'
        · cases he'
        · rename_i hne
          simp only [List.mem_singleton] at he'
          subst he'
          simp only []
          intro h
          have h1 := (List.append_eq_nil_iff.mp h).1
          have h2 := (List.append_eq_nil_iff.mp h1).2
          exact hne (by rw [h2]; rfl)
    · intro e' _ hr'
      have heq : e'.1 = id := by rw [hvroot] at hr'; exact (Option.some.inj hr').symm
      refine ⟨by rw [heq]; rfl, by rw [heq]; exact hidA', ?_⟩
      rw [heq]
      intro c0 ks0 hv0 _
      have hv1 := hnode id c hc
      rw [hv1] at hv0
      injection hv0 with _ _ _ hks
      rw [← hks]
      simp only [kidsOf, List.length_append]
      omega
    · -- unobservability
      have final : Heap.cons id (sf.pre ++ uks ++ sf.post) (T.node id false c (sf.pre ++ uks ++ sf.post)) :=
        ⟨fun _ => rfl, consK_of_not_mem _ _ _ hidkids⟩
      have other : ∀ e' ∈ r.2.2.2, e'.1 ≠ id → Heap.cons e'.1 e'.2 (T.node id false c (sf.pre ++ uks ++ sf.post)) :=
        fun e' he' hne => ⟨fun h => absurd h.symm hne, consKids e' he'⟩
      -- an entry of the recursion for the cell of `v` itself: the view was written in place
      have viewEntry : ∀ e' ∈ r.2.2.2, e'.1 = id → uks = e'.2 ∧ e'.2 ≠ [] := by
        intro e' he' heq
        have hvid : (view sf f).root? = some e'.1 := by
          rw [view_root, heq]
          obtain ⟨_, h2⟩ := R.logA e' he'
          rw [view_ids, heq] at h2
          rcases List.mem_cons.mp h2 with h | h
          · rw [← h]
          · exact absurd (count_pos_of_mem h) (by omega)
        obtain ⟨h1, _, _⟩ := R.logroot e' he' hvid
        have hc' := R.cons e' he'
        rw [hu] at hc' h1
        simp only [T.root?, Option.some.injEq] at h1
        simp only [Heap.cons] at hc'
        exact ⟨hc'.1 h1, R.logne e' he'⟩
      intro e' he'
      simp only [List.mem_append] at he'
      rcases he' with he' | he'
      · by_cases hpe : sf.pre.isEmpty = true
        · simp only [hpe, if_true] at he'
          obtain ⟨e'', he'', h1, h2⟩ := mem_rebase id sf.post r.2.2.2 e' he'
          rcases h2 with ⟨h3, h4⟩ | ⟨h3, h4⟩
          · have hpre0 : sf.pre = [] := List.isEmpty_iff.mp hpe
            obtain ⟨h5, _⟩ := viewEntry e'' he'' h3
            have : e' = (id, sf.pre ++ uks ++ sf.post) :=
              Prod.ext (by rw [h1, h3]) (by rw [h4, hpre0, h5]; rfl)
            rw [this]; exact final
          · rw [h4]; exact other e'' he'' h3
        · simp only [hpe, Bool.false_eq_true, if_false] at he'
          by_cases heq : e'.1 = id
          · exfalso
            obtain ⟨h5, h6⟩ := viewEntry e' he' heq
            -- the view has the label of `v` although it does not start at 0: it is empty
            have hmid0 : sf.mid = [] := by
              rcases viewLabel_cases sf f with ⟨_, id', c', hc', _, h7⟩ | ⟨h7, _, _⟩
              · rcases h7 with h7 | h7
                · rw [h7] at hpe; simp at hpe
                · exact h7
              · obtain ⟨_, h2⟩ := R.logA e' he'
                rw [view_ids, heq, h7] at h2
                rcases List.mem_cons.mp h2 with h | h
                · omega
                · exact absurd (count_pos_of_mem h) (by omega)
            rw [hmid0] at hlen
            simp only [List.length_nil, List.length_eq_zero_iff] at hlen
            exact h6 (by rw [← h5, hlen])
          · exact other e' he' heq
      · split at he'
        · cases he'
        · simp only [List.mem_singleton] at he'
          subst he'
          exact final
    · show tc _ (T.node id false c (sf.pre ++ uks ++ sf.post))
      simp only [tc]
      refine ⟨fun _ => ?_, fun hnin => absurd hidA' hnin⟩
      rw [tcK_iff]
      intro x hx
      simp only [List.mem_append] at hx
      have sib : ∀ x ∈ sf.pre ++ sf.post, tc (freeU (ul == (viewLabel sf f).1) r.1 uks r.2.1) x.2 := by
        intro x hx
        refine tc_congr A _ x.2 ?_ (sibTc x hx)
        intro j hj
        obtain ⟨hjf, hpos⟩ := sibLt x hx j hj
        constructor
        · intro hm
          exact memA' j ((sibAgree x hx j hj).mp hm) (Or.inl (ulNe j hm (sibNotView j hm hpos).2))
        · intro hm
          exact (sibAgree x hx j hj).mpr (freeU_sub _ _ _ _ j hm)
      rcases hx with (hx | hx) | hx
      · exact sib x (by simp [hx])
      · refine tc_congr r.2.1 _ x.2 ?_ (uksTc x hx)
        intro j hj
        refine ⟨fun hm => ?_, freeU_sub _ _ _ _ j⟩
        apply memA' j hm
        by_cases hne : ul = j
        · right
          subst hne
          have hjm := mem_idsK_of_mem hx hj
          -- the root of `u` does not occur below it: it is the view itself
          rcases hur with ⟨h1, _, _⟩ | ⟨h1, _, _⟩ | ⟨h1, hp0⟩
          · simp only [Option.some.injEq] at h1; rw [h1]; simp
          · exfalso
            have := (uksfresh ul (by omega)).2 rfl
            exact absurd (count_pos_of_mem hjm) (by omega)
          · exfalso
            have hb := R.base hp0
            have : r.2.1 = A := by rw [hb]
            rw [this] at hm
            exact H.hnA _ hm h1
        · exact Or.inl hne
      · exact sib x (by simp [hx])
    · intro a ha hnot
      have ha1 := freeU_sub _ _ _ _ a ha
      simp only [T.ids, List.mem_cons, idsK_append, List.mem_append, not_or] at hnot
      obtain ⟨h0, ⟨h1, h2⟩, h3⟩ := hnot
      have hne : ∀ id' c', sf.cell = some (id', c') → a ≠ id' := by
        intro id' c' hc'
        rw [hc] at hc'
        simp only [Option.some.injEq, Prod.mk.injEq] at hc'
        rw [← hc'.1]; exact h0
      have hau : a ∉ r.1.ids := by
        rw [huids]
        simp only [List.mem_cons, not_or]
        refine ⟨fun hal => ?_, h2⟩
        obtain ⟨hne0, hge⟩ := ulGone a ha1 hal hne
        -- `u` is fresh and not empty: it has been unregistered
        have hsame : (ul == (viewLabel sf f).1) = false := by
          rw [← hal]
          have : a ≠ (viewLabel sf f).1 := by
            rcases hvl with ⟨h4, _⟩ | ⟨id', c', hc', h4, _⟩
            · intro h5
              rcases R.hA1 a ha1 with h | h
              · have := H.hA a h; omega
              · omega
            · rw [h4]; exact hne id' c' hc'
          simpa using this
        rw [hsame] at ha
        exact not_mem_freeU r.1 uks r.2.1 ul huroot hne0 (hal ▸ ha)
      obtain ⟨g1, g2⟩ := R.live a ha1 hau
      exact ⟨g1, replUp a g1 hne g2 h1 h3⟩
  · -- the elements are copied into a new array
    have hA2sub : ∀ a ∈ A2, a ∈ r.2.1 := by
      rcases hA2 with ⟨_, hEq⟩ | ⟨id, c, _, _, hEq⟩
      · rw [hEq]; exact fun a h => h
      · rw [hEq]; exact fun a h => (List.mem_filter.mp h).1
    have hA2keep : ∀ a ∈ r.2.1, (∀ id c, sf.cell = some (id, c) → a ≠ id) → a ∈ A2 := by
      intro a ha hne
      rcases hA2 with ⟨_, hEq⟩ | ⟨id, c, hc, _, hEq⟩
      · rw [hEq]; exact ha
      · rw [hEq]; exact List.mem_filter.mpr ⟨ha, by simpa using hne id c hc⟩
    have hA2not : ∀ id c, sf.cell = some (id, c) → id ∉ A2 := by
      intro id c hc
      rcases hA2 with ⟨hn0, _⟩ | ⟨id', c'', hc', _, hEq⟩
      · rw [hn0] at hc; cases hc
      · rw [hc] at hc'
        simp only [Option.some.injEq, Prod.mk.injEq] at hc'
        obtain ⟨rfl, rfl⟩ := hc'
        rw [hEq]
        intro hm
        have := (List.mem_filter.mp hm).2
        simp at this
    have hA1lt : ∀ a ∈ r.2.1, a < r.2.2.1 := by
      intro a ha
      rcases R.hA1 a ha with h | h
      · have := H.hA a h; omega
      · exact h.2
    -- an owned cell of `v` does not occur among the new elements
    have cellNotUks : ∀ id c, sf.cell = some (id, c) → id ∈ r.2.1 → (idsK uks).count id = 0 := by
      intro id c hc hin
      obtain ⟨hvroot, hidv, hidf⟩ := cellv id c hc
      have hidA : id ∈ A := hA1f id hin hidf
      have h1 := H.uniq id hidA
      have h2 := hvc id
      simp only [hvroot, if_true] at h2
      have : n.ids.count id = 0 := List.count_eq_zero.mpr (H.hnA id hidA)
      have := hkc id (by omega)
      omega
    have memA' : ∀ a ∈ r.2.1, (∀ id c, sf.cell = some (id, c) → a ≠ id) → ul ≠ a →
        a ∈ regFresh r.2.2.1 (sf.pre ++ uks ++ sf.post) (freeU false r.1 uks A2) := by
      intro a ha hne hul
      apply mem_regFresh
      exact mem_freeU _ _ _ _ a (hA2keep a ha hne) (by rw [huroot]; intro e; cases e; exact hul rfl)
    have subA' : ∀ a ∈ regFresh r.2.2.1 (sf.pre ++ uks ++ sf.post) (freeU false r.1 uks A2), a = r.2.2.1 ∨ a ∈ A2 := by
      intro a ha
      rcases regFresh_sub _ _ _ a ha with h | h
      · exact Or.inl h
      · exact Or.inr (freeU_sub _ _ _ _ a h)
    refine { hf := by show f ≤ r.2.2.1 + 1; omega, hA1 := ?_, keep := ?_, hub := ?_, base := ?_, root := ?_, kcnt := ?_,
             fresh := ?_, logA := logAv, logne := R.logne, logroot := ?_, cons := ?_, tcr := ?_, live := ?_ }
    · intro a ha
      rcases subA' a ha with rfl | ha
      · exact Or.inr ⟨by omega, Nat.lt_succ_self _⟩
      · rcases R.hA1 a (hA2sub a ha) with h | h
        · exact Or.inl h
        · exact Or.inr ⟨by omega, Nat.lt_succ_of_lt h.2⟩
    · intro a ha hnv
      obtain ⟨h1, h2⟩ := keepA a ha hnv
      exact memA' a h1 (fun id c hc heq => hnv (heq ▸ (cellv id c hc).2.1)) h2
    · intro j hj
      simp only [T.ids, List.mem_cons] at hj
      rcases hj with rfl | hj
      · exact Nat.lt_succ_self _
      · have := hubNew j hj; show j < r.2.2.1 + 1; omega
    · intro h; cases h
    · intro _
      refine ⟨r.2.2.1, false, _, _, rfl, Or.inr ⟨by omega, Nat.lt_succ_self _, ⟨fun hm => ?_, fun hne => regFresh_self _ _ _ hne⟩⟩⟩
      intro hk
      rcases subA' _ hm with h | h
      · -- `regFresh` registers nothing for an empty array
        have : r.2.2.1 ∈ freeU false r.1 uks A2 := by
          unfold regFresh at hm
          simpa [hk] using hm
        have := hA1lt _ (hA2sub _ (freeU_sub _ _ _ _ _ this))
        omega
      · have := hA1lt _ (hA2sub _ h); omega
    · intro _ a ha; exact kcntNew a ha
    · intro a ha
      show (T.node r.2.2.1 false _ (sf.pre ++ uks ++ sf.post)).ids.count a ≤ 1
      simp only [T.ids, List.count_cons]
      by_cases hfa : r.2.2.1 = a
      · subst hfa
        have : (idsK (sf.pre ++ uks ++ sf.post)).count r.2.2.1 = 0 :=
          List.count_eq_zero.mpr (fun hm => by have := hubNew _ hm; omega)
        rw [this]; simp
      · have := freshNew a ha
        have : ¬ (r.2.2.1 == a) = true := by simpa using hfa
        simp only [this, Bool.false_eq_true, if_false]; omega
    · -- an entry for the cell of `v` would mean the view was written in place: then so is `v`
      intro e' he' hr'
      exfalso
      obtain ⟨h1, h2⟩ := R.logA e' he'
      rw [hroot] at hr'
      cases hcell : sf.cell with
      | none => rw [hcell] at hr'; simp at hr'
      | some ic =>
        obtain ⟨id, c⟩ := ic
        rw [hcell] at hr'
        simp only [Option.map_some, Option.some.injEq] at hr'
        subst hr'
        obtain ⟨hvroot, hidv, hidf⟩ := cellv _ c hcell
        have hu1 := H.uniq _ h1
        have hc1 := hvc e'.1
        simp only [hvroot, if_true] at hc1
        have hvid : (view sf f).root? = some e'.1 := by
          rw [view_root]
          rw [view_ids] at h2
          rcases List.mem_cons.mp h2 with h | h
          · rw [← h]
          · exact absurd (count_pos_of_mem h) (by omega)
        obtain ⟨g1, g2, g3⟩ := R.logroot e' he' hvid
        have hlen := g3 sf.mid.length sf.mid (by
          simp only [Heap.view]
          simp only [view_root, Option.some.injEq] at hvid
          rw [hvid]) rfl
        rw [hukids] at hlen
        rcases hA2 with ⟨hn0, _⟩ | ⟨id', c', hc', hcond, _⟩
        · rw [hcell] at hn0; cases hn0
        · rw [hcell] at hc'
          simp only [Option.some.injEq, Prod.mk.injEq] at hc'
          obtain ⟨rfl, rfl⟩ := hc'
          exact hcond ⟨hlen, g2⟩
    · intro e' he'
      refine ⟨?_, consKids e' he'⟩
      intro heq
      have := H.hA e'.1 (R.logA e' he').1
      omega
    · show tc _ (T.node r.2.2.1 false _ (sf.pre ++ uks ++ sf.post))
      simp only [tc]
      refine ⟨fun _ => ?_, fun hnin a ha => ?_⟩
      · rw [tcK_iff]
        intro x hx
        simp only [List.mem_append] at hx
        have sib : ∀ x ∈ sf.pre ++ sf.post, tc (regFresh r.2.2.1 (sf.pre ++ uks ++ sf.post) (freeU false r.1 uks A2)) x.2 := by
          intro x hx
          refine tc_congr A _ x.2 ?_ (sibTc x hx)
          intro j hj
          obtain ⟨hjf, hpos⟩ := sibLt x hx j hj
          constructor
          · intro hm
            exact memA' j ((sibAgree x hx j hj).mp hm) (sibNotView j hm hpos).2 (ulNe j hm (sibNotView j hm hpos).2)
          · intro hm
            rcases subA' j hm with h | h
            · omega
            · exact (sibAgree x hx j hj).mpr (hA2sub j h)
        rcases hx with (hx | hx) | hx
        · exact sib x (by simp [hx])
        · refine tc_congr r.2.1 _ x.2 ?_ (uksTc x hx)
          intro j hj
          have hjm := mem_idsK_of_mem hx hj
          constructor
          · intro hm
            have hne : ∀ id c, sf.cell = some (id, c) → j ≠ id := by
              intro id c hc heq
              subst heq
              have := cellNotUks j c hc hm
              exact absurd (count_pos_of_mem hjm) (by omega)
            apply memA' j hm hne
            intro hal
            obtain ⟨_, hge⟩ := ulGone j hm hal.symm hne
            have := (uksfresh j hge).2 hal.symm
            exact absurd (count_pos_of_mem hjm) (by omega)
          · intro hm
            rcases subA' j hm with h | h
            · have := huksub j hjm; omega
            · exact hA2sub j h
        · exact sib x (by simp [hx])
      · by_cases hk : sf.pre ++ uks ++ sf.post = []
        · rw [hk] at ha; simp [idsK] at ha
        · exact absurd (regFresh_self _ _ _ hk) hnin
    · intro a ha hnot
      simp only [T.ids, List.mem_cons, idsK_append, List.mem_append, not_or] at hnot
      obtain ⟨h0, ⟨h1, h2⟩, h3⟩ := hnot
      rcases regFresh_sub _ _ _ a ha with h | ha'
      · exact absurd h h0
      · have ha2 := freeU_sub _ _ _ _ a ha'
        have ha1 := hA2sub a ha2
        have hne : ∀ id c, sf.cell = some (id, c) → a ≠ id := by
          intro id c hc heq
          subst heq
          exact hA2not a c hc ha2
        have hau : a ∉ r.1.ids := by
          rw [huids]
          simp only [List.mem_cons, not_or]
          refine ⟨fun hal => ?_, h2⟩
          obtain ⟨hne0, _⟩ := ulGone a ha1 hal hne
          exact not_mem_freeU r.1 uks A2 ul huroot hne0 (hal ▸ ha')
        obtain ⟨g1, g2⟩ := R.live a ha1 hau
        exact ⟨g1, replUp a g1 hne g2 h1 h3⟩

/-- **The bookkeeping of `updS`**, for key, index and slice elements. -/
theorem updS_res : ∀ (p : PathS) (v n : T) (A : List Nat) (f : Nat) r,
    updS A f p v n = some r → Hyp A f v n → URes A f p v n r := by
  intro p
  induction p with
  | nil =>
    intro v n A f r h H
    simp only [updS, Option.some.injEq] at h
    subst h
    exact URes.nil H
  | cons e p ih =>
    intro v n A f r h H
    cases e with
    | key k =>
      simp only [updS] at h
      split at h
      · cases h
      · rename_i cell o fo he
        simp only [Option.map_eq_some_iff] at h
        obtain ⟨r1, hr1, rfl⟩ := h
        exact URes.plugE H (.key k) p cell o fo he r1 (ih _ _ _ _ _ hr1 (H.child _ cell o fo he))
    | idx i =>
      simp only [updS] at h
      split at h
      · cases h
      · rename_i cell o fo he
        simp only [Option.map_eq_some_iff] at h
        obtain ⟨r1, hr1, rfl⟩ := h
        exact URes.plugE H (.idx i) p cell o fo he r1 (ih _ _ _ _ _ hr1 (H.child _ cell o fo he))
    | slice s e =>
      simp only [updS] at h
      split at h
      · cases h
      · rename_i sf he
        simp only [Option.bind_eq_some_iff] at h
        obtain ⟨r1, hr1, hp⟩ := h
        exact URes.plugSlice H s e p sf he r1 r (ih _ _ _ _ _ hr1 (H.view s e sf he)) hp

end Gojq.Heap

/-
  Control hygiene (Proofs/OptSimHyg.lean) through one turn of the loop of `Next`: the static
  conditions on the code under which every turn keeps it, and what a turn then guarantees about
  the next pc.
-/
import Gojq.Proofs.OptSimHygExec
import Gojq.Proofs.VMReentry
set_option linter.unusedSimpArgs false
set_option linter.unusedVariables false
namespace Gojq.OptVM
open Gojq Gojq.VM

/-- what the CODE must satisfy for `B` to be reachable only by falling through from `B - 1` -/
structure StaticOK (B : Int) (c : Array Instr) : Prop where
  /-- no jump / fork / call / pushpc operand is `B` -/
  tgt : ∀ (pc : Nat) (ins : Instr) (t : Int), c[pc]? = some ins → staticTarget ins = some t → t ≠ B
  /-- the instructions at `B - 1` and `B` do not save their own pc (they are not fork-like, `call`, `callpc`) -/
  saves : ∀ (pc : Nat) (ins : Instr), c[pc]? = some ins → savesPc ins = true → PcOK B pc
  pos : 1 ≤ B
  /-- `B` is not the last instruction (`Next` enters with return address `len(codes) - 1`) -/
  size : B + 1 < c.size

theorem exec_hyg_ok {B : Int} {ins : Instr} {x : ExtRec} {l : L} {e : Env} {ctl : Ctl} {l' : L} {e' : Env}
    (H : HygL B ins x l) (he : HygEnv B e) (h : exec ins x l e = .ok (ctl, l') e') :
    HygEnv B e' ∧ HPost B l (ctl, l') := by
  have := exec_hyg B ins x l H e he
  unfold wp at this
  rw [h] at this
  exact this

theorem HygEnv.saveE {B : Int} {e : Env} (h : HygEnv B e) (pc : Int) : HygEnv B (saveE e pc) :=
  ⟨h.stack, h.values, h.scopes, h.forks⟩

/-- what a turn leaves -/
def StepHyg (B : Int) (l : L) : StepE → Prop
  | .cont l' e' => HygEnv B e' ∧ PcOK B l'.callpc ∧ ErrOK B l'.err ∧ (l'.pc ≠ B ∨ l'.pc = l.pc + 1)
  | .fin o e' => o.proper = true → HygEnv B e' ∧ e'.pc ≠ B

theorem unwindE_hyg {B : Int} (size : Nat) (hsz : B < size) (l0 l : L) (e : Env) (he : HygEnv B e)
    (hc : PcOK B l.callpc) (herr : ErrOK B l.err) (hpc : l.pc ≠ B) : StepHyg B l0 (unwindE size l e) := by
  unfold unwindE
  cases hf : e.forks with
  | nil =>
    simp only
    cases l.err with
    | none => exact fun _ => ⟨he.saveE _, by show (size : Int) ≠ B; omega⟩
    | some er => exact fun _ => ⟨he.saveE _, hpc⟩
  | cons f rest =>
    simp only [popfork]
    refine ⟨⟨he.stack, he.values, he.scopes, ?_⟩, hc, herr, Or.inl (he.forks f (by rw [hf]; simp))⟩
    intro g hg
    exact he.forks g (by rw [hf]; exact List.mem_cons_of_mem _ hg)

/-- one turn of code satisfying `StaticOK`, from a hygienic state at a pc other than `B` -/
theorem stepE_hyg {B : Int} {c : Array Instr} (S : StaticOK B c) (x : ExtRec) (hx : ExtOK B x)
    (l : L) (e : Env) (he : HygEnv B e) (hc : PcOK B l.callpc) (herr : ErrOK B l.err) (hpc : l.pc ≠ B) :
    StepHyg B l (stepE c x l e) := by
  have hsz : B < c.size := by have := S.size; omega
  unfold stepE
  by_cases h1 : l.pc < c.size
  · by_cases h0 : l.pc < 0
    · simp only [h1, h0, if_true]
      intro hp; simp [Outcome.proper] at hp
    · have h0' : 0 ≤ l.pc := Int.not_lt.mp h0
      simp only [h1, h0, if_true, if_false]
      have hins := getD_some c l.pc h0' h1
      generalize hI : c.getD l.pc.toNat .bad = ins at hins
      have H : HygL B ins x l := by
        refine ⟨hc, herr, hx, fun t ht => S.tgt _ ins t hins ht, fun hs => ?_, S.pos⟩
        have := S.saves _ ins hins hs
        rw [Int.toNat_of_nonneg h0'] at this
        exact this
      cases hex : exec ins x l e with
      | panic site => intro hp; simp [Outcome.proper] at hp
      | stuck why => intro hp; simp [Outcome.proper] at hp
      | ok r e' =>
        obtain ⟨ctl, l'⟩ := r
        obtain ⟨he', hcp, her, hctl⟩ := exec_hyg_ok H he hex
        cases ctl with
        | fall =>
          simp only at hctl ⊢
          refine ⟨he', hcp, her, ?_⟩
          rcases hctl with h | h
          · right; show l'.pc + 1 = l.pc + 1; rw [h]
          · left; exact h.2
        | jump => exact ⟨he', hcp, her, Or.inl hctl⟩
        | ret v => exact fun _ => ⟨he'.saveE _, hctl⟩
        | brk =>
          simp only at hctl ⊢
          exact unwindE_hyg _ hsz l l' e' he' hcp her (by rw [hctl]; exact hpc)
  · simp only [h1, if_false]
    exact unwindE_hyg _ hsz l l e he hc herr hpc

end Gojq.OptVM

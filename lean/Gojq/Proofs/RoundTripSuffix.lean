/-
  Round trip, part 5: suffixes (`.name`, `."s"`, `[q]`, slices, `[]`, `?`), index terms (`.name`,
  `.[q]`, …) and suffix lists, including the printer's special cases for an identity term
  (`. .a`, `. .[0]`, `.[]`).
-/
import Gojq.Proofs.RoundTripTerm
namespace Gojq.RefTerm
open Gojq

/-! ### after `[` -/

theorem pBracket_iter (f : Nat) (rest : List Tok) : pBracket (f + 1) (.ch 93 :: rest) = some (.iter, rest) := by
  rw [pBracket]

theorem pBracket_to (f : Nat) (rest ts : List Tok) (b : Query)
    (h : pClimb f true 1 rest = some (b, .ch 93 :: ts)) :
    pBracket (f + 1) (.ch 58 :: rest) = some (.sliceTo b, ts) := by
  rw [pBracket]; simp [h, expect]

theorem pBracket_at (f : Nat) (x : Tok) (r ts : List Tok) (a : Query) (h1 : x ≠ .ch 93) (h2 : x ≠ .ch 58)
    (h : pClimb f true 1 (x :: r) = some (a, .ch 93 :: ts)) :
    pBracket (f + 1) (x :: r) = some (.at a, ts) := by
  rw [pBracket]
  · simp [h]
  · intro rest e; injection e with e _; exact h1 e
  · intro rest e; injection e with e _; exact h2 e

theorem pBracket_from (f : Nat) (x : Tok) (r ts : List Tok) (a : Query) (h1 : x ≠ .ch 93) (h2 : x ≠ .ch 58)
    (h : pClimb f true 1 (x :: r) = some (a, .ch 58 :: .ch 93 :: ts)) :
    pBracket (f + 1) (x :: r) = some (.sliceFrom a, ts) := by
  rw [pBracket]
  · simp [h]
  · intro rest e; injection e with e _; exact h1 e
  · intro rest e; injection e with e _; exact h2 e

theorem pBracket_slice (f : Nat) (x : Tok) (r ts2 ts : List Tok) (a b : Query) (h1 : x ≠ .ch 93) (h2 : x ≠ .ch 58)
    (h : pClimb f true 1 (x :: r) = some (a, .ch 58 :: ts2)) (hne : ∀ r', ts2 ≠ .ch 93 :: r')
    (hb : pClimb f true 1 ts2 = some (b, .ch 93 :: ts)) :
    pBracket (f + 1) (x :: r) = some (.slice a b, ts) := by
  rw [pBracket]
  · simp [h, hb, expect]
  · intro rest e; injection e with e _; exact h1 e
  · intro rest e; injection e with e _; exact h2 e

/-- tokens of a bracket suffix after its `[` -/
def brToks : Suffix → List Tok
  | .at q => toks (itemsQ q) ++ [.ch 93]
  | .sliceFrom a => toks (itemsQ a) ++ [.ch 58, .ch 93]
  | .sliceTo b => .ch 58 :: (toks (itemsQ b) ++ [.ch 93])
  | .slice a b => toks (itemsQ a) ++ .ch 58 :: (toks (itemsQ b) ++ [.ch 93])
  | _ => [.ch 93]

def isBracket : Suffix → Bool
  | .name _ => false
  | .str _ => false
  | .opt => false
  | _ => true

def RTBr' (s : Suffix) : Prop :=
  ∀ (rest : List Tok), okSuf s = true →
    ∃ F, ∀ f, F ≤ f → pBracket f (brToks s ++ rest) = some (s, rest)

theorem br_iter : RTBr' .iter := fun rest _ => ⟨1, fun f hf => by
  obtain ⟨k, rfl⟩ : ∃ k, f = k + 1 := ⟨f - 1, by omega⟩
  exact pBracket_iter k rest⟩

theorem br_at (q : Query) (ih : RTQ q) : RTBr' (.at q) := fun rest hok => by
  simp only [okSuf] at hok
  obtain ⟨F, h⟩ := climb_stop q ih true 1 (.ch 93) rest hok rfl
  refine ⟨F + 1, fun f hf => ?_⟩
  obtain ⟨k, rfl⟩ : ∃ k, f = k + 1 := ⟨f - 1, by omega⟩
  obtain ⟨x, r, hx, hs⟩ := toksQ_head q
  have e : brToks (.at q) ++ rest = x :: (r ++ .ch 93 :: rest) := by simp [brToks, hx]
  have h' := h k (by omega)
  rw [hx] at h'
  rw [e]
  exact pBracket_at k x _ rest q (queryStart_ne hs).1 (queryStart_ne hs).2.1 h'

theorem br_from (q : Query) (ih : RTQ q) : RTBr' (.sliceFrom q) := fun rest hok => by
  simp only [okSuf] at hok
  obtain ⟨F, h⟩ := climb_stop q ih true 1 (.ch 58) (.ch 93 :: rest) hok rfl
  refine ⟨F + 1, fun f hf => ?_⟩
  obtain ⟨k, rfl⟩ : ∃ k, f = k + 1 := ⟨f - 1, by omega⟩
  obtain ⟨x, r, hx, hs⟩ := toksQ_head q
  have e : brToks (.sliceFrom q) ++ rest = x :: (r ++ .ch 58 :: .ch 93 :: rest) := by simp [brToks, hx]
  have h' := h k (by omega)
  rw [hx] at h'
  rw [e]
  exact pBracket_from k x _ rest q (queryStart_ne hs).1 (queryStart_ne hs).2.1 h'

theorem br_to (q : Query) (ih : RTQ q) : RTBr' (.sliceTo q) := fun rest hok => by
  simp only [okSuf] at hok
  obtain ⟨F, h⟩ := climb_stop q ih true 1 (.ch 93) rest hok rfl
  refine ⟨F + 1, fun f hf => ?_⟩
  obtain ⟨k, rfl⟩ : ∃ k, f = k + 1 := ⟨f - 1, by omega⟩
  have e : brToks (.sliceTo q) ++ rest = .ch 58 :: (toks (itemsQ q) ++ .ch 93 :: rest) := by simp [brToks]
  rw [e]
  exact pBracket_to k _ rest q (h k (by omega))

theorem br_slice (a b : Query) (iha : RTQ a) (ihb : RTQ b) : RTBr' (.slice a b) := fun rest hok => by
  simp only [okSuf, Bool.and_eq_true] at hok
  obtain ⟨Fa, hA⟩ := climb_stop a iha true 1 (.ch 58) (toks (itemsQ b) ++ .ch 93 :: rest) hok.1 rfl
  obtain ⟨Fb, hB⟩ := climb_stop b ihb true 1 (.ch 93) rest hok.2 rfl
  refine ⟨Fa + Fb + 1, fun f hf => ?_⟩
  obtain ⟨k, rfl⟩ : ∃ k, f = k + 1 := ⟨f - 1, by omega⟩
  obtain ⟨x, r, hx, hs⟩ := toksQ_head a
  obtain ⟨y, r2, hy, hs2⟩ := toksQ_head b
  have e : brToks (.slice a b) ++ rest = x :: (r ++ .ch 58 :: (toks (itemsQ b) ++ .ch 93 :: rest)) := by
    simp [brToks, hx]
  have hA' := hA k (by omega)
  rw [hx] at hA'
  rw [e]
  refine pBracket_slice k x _ _ rest a b (queryStart_ne hs).1 (queryStart_ne hs).2.1 hA' ?_ (hB k (by omega))
  intro r' e'
  rw [hy] at e'
  injection e' with e' _
  exact (queryStart_ne hs2).1 e'

/-! ### one more suffix -/

theorem pSuf_name (f : Nat) (t : Term) (n : Bytes) (rest : List Tok) :
    pSuf (f + 1) t (.index n :: rest) = pSuf f (.suf t (.name n)) rest := by rw [pSuf]

theorem pSuf_opt (f : Nat) (t : Term) (rest : List Tok) :
    pSuf (f + 1) t (.ch 63 :: rest) = pSuf f (.suf t .opt) rest := by rw [pSuf]

theorem pSuf_strLit (f : Nat) (t : Term) (v : Bytes) (rest : List Tok) :
    pSuf (f + 1) t (.ch 46 :: .str v :: rest) = pSuf f (.suf t (.str (.lit v))) rest := by rw [pSuf]

theorem pSuf_strI (f : Nat) (t : Term) (X ts : List Tok) (ps : List Part) (h : pParts f X = some (ps, ts)) :
    pSuf (f + 1) t (.ch 46 :: .strStart :: X) = pSuf f (.suf t (.str (.interp ps))) ts := by
  rw [pSuf]; simp [h]

theorem pSuf_br (f : Nat) (t : Term) (X ts : List Tok) (s : Suffix) (h : pBracket f X = some (s, ts)) :
    pSuf (f + 1) t (.ch 91 :: X) = pSuf f (.suf t s) ts := by
  rw [pSuf]; simp [h]

theorem pSuf_dotbr (f : Nat) (t : Term) (X ts : List Tok) (s : Suffix) (h : pBracket f X = some (s, ts)) :
    pSuf (f + 1) t (.ch 46 :: .ch 91 :: X) = pSuf f (.suf t s) ts := by
  rw [pSuf]; simp [h]

theorem toksSuf_br (dot : Bool) (s : Suffix) (h : isBracket s = true) (hs : s ≠ .iter) :
    toks (itemsSuf dot s) = (if dot then [.ch 46, .ch 91] else [.ch 91]) ++ brToks s := by
  cases s <;> simp_all [isBracket, itemsSuf, brToks] <;> cases dot <;> simp

theorem suf_name (n : Bytes) : RTSuf (.name n) := fun t dot rest _ => ⟨0, fun f _ => by
  have e : toks (itemsSuf dot (.name n)) ++ rest = .index n :: rest := by simp [itemsSuf]
  rw [e, pSuf_name]⟩

theorem suf_opt : RTSuf .opt := fun t dot rest _ => ⟨0, fun f _ => by
  have e : toks (itemsSuf dot .opt) ++ rest = .ch 63 :: rest := by simp [itemsSuf]
  rw [e, pSuf_opt]⟩

theorem suf_strLit (v : Bytes) : RTSuf (.str (.lit v)) := fun t dot rest _ => ⟨0, fun f _ => by
  have e : toks (itemsSuf dot (.str (.lit v))) ++ rest = .ch 46 :: .str v :: rest := by simp [itemsSuf, itemsS]
  rw [e, pSuf_strLit]⟩

theorem suf_strI (ps : List Part) (ih : RTParts ps) : RTSuf (.str (.interp ps)) := fun t dot rest hok => by
  simp only [okSuf, okS, Bool.and_eq_true] at hok
  obtain ⟨F, h⟩ := ih rest hok.2
  refine ⟨F, fun f hf => ?_⟩
  have e : toks (itemsSuf dot (.str (.interp ps))) ++ rest =
      .ch 46 :: .strStart :: (toks (itemsParts ps) ++ .strEnd :: rest) := by simp [itemsSuf, itemsS]
  rw [e, pSuf_strI f t _ rest ps (h f hf)]

theorem suf_iter : RTSuf .iter := fun t dot rest _ => ⟨1, fun f hf => by
  obtain ⟨k, rfl⟩ : ∃ k, f = k + 1 := ⟨f - 1, by omega⟩
  have e : toks (itemsSuf dot .iter) ++ rest = .ch 91 :: .ch 93 :: rest := by simp [itemsSuf]
  rw [e, pSuf_br (k + 1) t _ rest .iter (pBracket_iter k rest)]⟩

/-- a bracket suffix, with or without the dot -/
theorem suf_br (s : Suffix) (hb : isBracket s = true) (hs : s ≠ .iter) (ih : RTBr' s) : RTSuf s :=
  fun t dot rest hok => by
  obtain ⟨F, h⟩ := ih rest hok
  refine ⟨F, fun f hf => ?_⟩
  rw [toksSuf_br dot s hb hs]
  cases dot
  · simp only [Bool.false_eq_true, if_false, List.cons_append, List.nil_append]
    exact pSuf_br f t _ rest s (h f hf)
  · simp only [if_true, List.cons_append, List.nil_append]
    exact pSuf_dotbr f t _ rest s (h f hf)

/-! ### index terms -/

theorem pPrimary_index (f : Nat) (n : Bytes) (rest : List Tok) :
    pPrimary (f + 1) (.index n :: rest) = some (.index (.name n), rest) := by rw [pPrimary]

theorem pPrimary_dotStrLit (f : Nat) (v : Bytes) (rest : List Tok) :
    pPrimary (f + 1) (.ch 46 :: .str v :: rest) = some (.index (.str (.lit v)), rest) := by rw [pPrimary]

theorem pPrimary_dotStrI (f : Nat) (X ts : List Tok) (ps : List Part) (h : pParts f X = some (ps, ts)) :
    pPrimary (f + 1) (.ch 46 :: .strStart :: X) = some (.index (.str (.interp ps)), ts) := by
  rw [pPrimary]; simp [h]

theorem pPrimary_dotbr (f : Nat) (X ts : List Tok) (s : Suffix) (h : pBracket f X = some (s, ts)) (hs : s ≠ .iter) :
    pPrimary (f + 1) (.ch 46 :: .ch 91 :: X) = some (.index s, ts) := by
  rw [pPrimary]
  simp only [h, Option.bind_eq_bind, Option.bind_some]

theorem pPrimary_dotiter (f : Nat) (X ts : List Tok) (h : pBracket f X = some (.iter, ts)) :
    pPrimary (f + 1) (.ch 46 :: .ch 91 :: X) = some (.suf .identity .iter, ts) := by
  rw [pPrimary]
  simp only [h, Option.bind_eq_bind, Option.bind_some]

theorem rt_indexName (n : Bytes) : RTT (.index (.name n)) := rt_atom _ [.index n] (by simp [itemsT, itemsSuf])
  (fun g rest _ => by simp only [List.cons_append, List.nil_append]; exact pPrimary_index g n rest)

theorem rt_indexStrLit (v : Bytes) : RTT (.index (.str (.lit v))) :=
  rt_atom _ [.ch 46, .str v] (by simp [itemsT, itemsSuf, itemsS])
  (fun g rest _ => by simp only [List.cons_append, List.nil_append]; exact pPrimary_dotStrLit g v rest)

theorem rt_indexStrI (ps : List Part) (ih : RTParts ps) : RTT (.index (.str (.interp ps))) :=
  rtT_of_prim _ (fun rest hok _ => by
  simp only [okT, okSuf, okS, Bool.and_eq_true] at hok
  obtain ⟨F, h⟩ := ih rest hok.2.2
  refine ⟨F + 1, fun g hg => ?_⟩
  obtain ⟨k, rfl⟩ : ∃ k, g = k + 1 := ⟨g - 1, by omega⟩
  have e : toks (itemsT (.index (.str (.interp ps)))) ++ rest =
      .ch 46 :: .strStart :: (toks (itemsParts ps) ++ .strEnd :: rest) := by simp [itemsT, itemsSuf, itemsS]
  rw [e]
  exact pPrimary_dotStrI k _ rest ps (h k (by omega)))

theorem rt_indexBr (s : Suffix) (hb : isBracket s = true) (hs : s ≠ .iter) (ih : RTBr' s) : RTT (.index s) :=
  rtT_of_prim _ (fun rest hok _ => by
  simp only [okT, Bool.and_eq_true] at hok
  obtain ⟨F, h⟩ := ih rest hok.2
  refine ⟨F + 1, fun g hg => ?_⟩
  obtain ⟨k, rfl⟩ : ∃ k, g = k + 1 := ⟨g - 1, by omega⟩
  have e : toks (itemsT (.index s)) ++ rest = .ch 46 :: .ch 91 :: (brToks s ++ rest) := by
    simp [itemsT, toksSuf_br true s hb hs]
  rw [e]
  exact pPrimary_dotbr k _ rest s (h k (by omega)) hs)

/-! ### suffix lists -/

/-- `.[]`: the identity term with the iterator suffix is read as one primary form -/
theorem rt_dotIter : RTT (.suf .identity .iter) := rtT_of_prim _ (fun rest _ _ => ⟨2, fun g hg => by
  obtain ⟨k, rfl⟩ : ∃ k, g = (k + 1) + 1 := ⟨g - 2, by omega⟩
  have e : toks (itemsT (.suf .identity .iter)) ++ rest = .ch 46 :: .ch 91 :: (.ch 93 :: rest) := by
    simp [itemsT, itemsSuf]
  rw [e]
  exact pPrimary_dotiter (k + 1) _ rest (pBracket_iter k rest)⟩)

/-- the first token of a printed suffix does not break the term before it -/
theorem followT_suf (t : Term) (s : Suffix) (rest : List Tok) (hsuf : suffixable t = true)
    (hne : t = .identity → s ≠ .iter) :
    followT t (toks (itemsSuf (isIdentity t) s) ++ rest).head? = true := by
  cases t <;> first
    | (simp [suffixable] at hsuf; done)
    | (cases s <;> simp_all [followT, itemsSuf, isIdentity])
  all_goals (cases ‹List Query› <;> simp [followT])

/-- one more element of the suffix list -/
theorem rt_suf (t : Term) (s : Suffix) (iht : RTT t) (ihs : RTSuf s) (hne : t = .identity → s ≠ .iter) :
    RTT (.suf t s) := by
  intro rest hok _
  simp only [okT, Bool.and_eq_true] at hok
  obtain ⟨⟨hokt, hsuf⟩, hoks⟩ := hok
  obtain ⟨d, Ft, hT⟩ := iht (toks (itemsSuf (isIdentity t) s) ++ rest) hokt (followT_suf t s rest hsuf hne)
  obtain ⟨Fs, hS⟩ := ihs t (isIdentity t) rest hoks
  refine ⟨d + 1, Ft + Fs + 1, fun f hf => ?_⟩
  have e : toks (itemsT (.suf t s)) ++ rest = toks (itemsT t) ++ (toks (itemsSuf (isIdentity t) s) ++ rest) := by
    simp [itemsT]
  have e2 : f + (d + 1) = (f + 1) + d := by omega
  rw [e, e2, hT (f + 1) (by omega), hS f (by omega)]

end Gojq.RefTerm

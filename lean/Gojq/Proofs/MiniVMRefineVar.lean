/-
  `compile_yields`, the cases `$x` and `src as $x | body` (C01.3).  Core Lean only.
-/
import Gojq.Proofs.MiniVMRefine
namespace Gojq.MiniVM
variable [IterMsg]
set_option linter.unusedSectionVars false

theorem eval_bind_nd_left {defs n g ρ x s b v} (h : ND (eval defs (n+1) g ρ (.bind x s b) v).stop) :
    ND (eval defs n g ρ s v).stop := by
  simp only [eval] at h
  generalize eval defs n g ρ s v = rs at h
  rcases rs with ⟨os, ss⟩
  cases ss <;> simp_all [ND]

theorem eval_bind_of_nd {defs n g ρ x s b v} (h : ND (eval defs n g ρ s v).stop) :
    eval defs (n+1) g ρ (.bind x s b) v =
      Res.bindL (fun w => eval defs n g ⟨ρ.clo, (x, w) :: ρ.vars⟩ b v)
        (eval defs n g ρ s v).outs (eval defs n g ρ s v).stop := by
  simp only [eval]
  generalize eval defs n g ρ s v = rs at h
  rcases rs with ⟨os, ss⟩
  cases ss <;> simp_all [ND]

/-- the reference semantics does not look at the compile-time part of the context -/
theorem eval_ctx_irrel (defs : Name → Q) : ∀ (n : Nat) (q : Q) (g g' : Ctx) (ρ : Env) (v : V), g.fn = g'.fn →
    eval defs n g ρ q v = eval defs n g' ρ q v := by
  intro n
  induction n with
  | zero => intros; rfl
  | succ n ih =>
    intro q g g' ρ v hg
    cases q with
    | id => rfl
    | const c => rfl
    | pipe a b =>
      simp only [eval, ih a g g' ρ v hg]
      have : eval defs n g ρ b = eval defs n g' ρ b := funext fun w => ih b g g' ρ w hg
      rw [this]
    | comma a b => simp only [eval, ih a g g' ρ v hg, ih b g g' ρ v hg]
    | iter => rfl
    | empty => rfl
    | arr q => simp only [eval, ih q g g' ρ v hg]
    | param => rfl
    | call1 f a => simp only [eval, hg]
    | error => rfl
    | try_ b => simp only [eval, ih b g g' ρ v hg]
    | tryCatch b h =>
      simp only [eval, ih b g g' ρ v hg]
      have : eval defs n g ρ h = eval defs n g' ρ h := funext fun w => ih h g g' ρ w hg
      rw [this]
    | index k => rfl
    | ite c a b => simp only [eval, ih c g g' ρ v hg, ih a g g' ρ v hg, ih b g g' ρ v hg]
    | alt l r => simp only [eval, ih l g g' ρ v hg, ih r g g' ρ v hg]
    | var x => rfl
    | bind x s b =>
      simp only [eval, ih s g g' ρ v hg]
      have : (fun w => eval defs n g ⟨ρ.clo, (x, w) :: ρ.vars⟩ b v) = (fun w => eval defs n g' ⟨ρ.clo, (x, w) :: ρ.vars⟩ b v) :=
        funext fun w => ih b g g' _ v hg
      rw [this]
    | reduce x src init upd =>
      simp only [eval, ih init g g' ρ v hg, ih src g g' ρ v hg]
      have : (fun w s => eval defs n g ⟨ρ.clo, (x, w) :: ρ.vars⟩ upd s) = (fun w s => eval defs n g' ⟨ρ.clo, (x, w) :: ρ.vars⟩ upd s) :=
        funext fun w => funext fun s => ih upd g g' _ s hg
      rw [this]
    | foreach x src init upd ext =>
      simp only [eval, ih init g g' ρ v hg, ih src g g' ρ v hg]
      have h1 : (fun w s => eval defs n g ⟨ρ.clo, (x, w) :: ρ.vars⟩ upd s) = (fun w s => eval defs n g' ⟨ρ.clo, (x, w) :: ρ.vars⟩ upd s) :=
        funext fun w => funext fun s => ih upd g g' _ s hg
      have h2 : (fun w u => eval defs n g ⟨ρ.clo, (x, w) :: ρ.vars⟩ ext u) = (fun w u => eval defs n g' ⟨ρ.clo, (x, w) :: ρ.vars⟩ ext u) :=
        funext fun w => funext fun u => ih ext g g' _ u hg
      rw [h1, h2]
    | obj sp =>
      simp only [eval]
      have : (fun q x => eval defs n g ρ q x) = (fun q x => eval defs n g' ρ q x) :=
        funext fun q => funext fun x => ih q g g' ρ x hg
      rw [this]
    | objStart => rfl
    | objSnoc init k v => rfl
    | objSnocC init key v => rfl
    | delay q => simp only [eval]; exact ih q g g' ρ v hg

theorem cy_var {code defs entry nf n} (hfun : FuncsOK code defs entry nf) (ihn : CY code defs entry nf n) (x : Nat) :
    CYq code defs entry nf (n+1) (.var x) := by
  intro g e p _ hseg hcl ρ v S F R fr o cp P htop _ _ _ henv _ _
  simp only [Q.Closed] at hcl
  obtain ⟨r, hr⟩ := lookup_of_mem x g.vars hcl
  obtain ⟨w, hw, hRw, _⟩ := henv.2 x r hr
  obtain ⟨ft, hres, hbase, _, _⟩ := htop.resolve
  simp only [compile, hr, Option.getD_some] at hseg ⊢
  have h0 : code[p]? = some .pop := by have := hseg 0 (by simp); simpa using this
  have h1 : code[p+1]? = some (.load e r) := by have := hseg 1 (by simp); simpa using this
  simp only [eval, hw, List.length_cons, List.length_nil, Stop.toErr]
  refine .out (F' := []) (R1 := R) (o1 := o) (cp := cp) ForksOK.nil ?_ (Nat.le_refl _) EqOff.refl (fun _ => ⟨rfl, rfl⟩)
    (fun R2 _ => .done (.refl _) EqOff.refl)
  refine .head (c' := .run (p+1) S F false none R fr o cp) (by simp [step, h0]) ?_
  refine Steps.one ?_
  rw [step_load h1 hres, hbase, hRw]
  simp

theorem cy_bind {code defs entry nf n} (hfun : FuncsOK code defs entry nf) (ihn : CY code defs entry nf n) (x : Nat) (s b : Q) :
    CYq code defs entry nf (n+1) (.bind x s b) := by
  intro g e p hep hseg hcl ρ v S F R fr o cp P htop hge hpar hP henv hoff hnd
  simp only [compile] at hseg hoff ⊢
  simp only [Q.Closed] at hcl
  simp only [Q.HasParam] at hpar
  obtain ⟨ft, hres, hbase, _, _⟩ := htop.resolve
  generalize hcs : compile entry g e (p+2) s = cs at hseg hoff ⊢
  generalize hpx : p + 2 + cs.length = px at hseg hoff ⊢
  generalize hcb : compile entry ⟨g.fn, (x, px - e) :: g.vars⟩ e (px + 2) b = cb at hseg hoff ⊢
  have h0 : code[p]? = some .dup := by have := hseg 0 (by simp); simpa using this
  have h1 : code[p+1]? = some .expbegin := by have := hseg 1 (by simp); simpa using this
  have hss : Seg code (p+2) cs := by
    have := Seg.append_right (a := [Instr.dup, .expbegin]) (b := cs) (Seg.append_left (Seg.append_left hseg))
    simpa using this
  have hmid := Seg.append_right (a := [Instr.dup, .expbegin] ++ cs) (b := [Instr.store e (px - e), .expend]) (Seg.append_left hseg)
  have hpm : p + ([Instr.dup, .expbegin] ++ cs).length = px := by simp; omega
  rw [hpm] at hmid
  have m0 : code[px]? = some (.store e (px - e)) := by have := hmid 0 (by simp); simpa using this
  have m1 : code[px+1]? = some .expend := by have := hmid 1 (by simp); simpa using this
  have hsb : Seg code (px + 2) cb := by
    have := Seg.append_right (a := [Instr.dup, .expbegin] ++ cs ++ [Instr.store e (px - e), .expend]) (b := cb) hseg
    have e2 : p + ([Instr.dup, .expbegin] ++ cs ++ [Instr.store e (px - e), .expend]).length = px + 2 := by simp; omega
    rw [e2] at this; exact this
  have hlen : ([Instr.dup, .expbegin] ++ cs ++ [Instr.store e (px - e), .expend] ++ cb).length = 2 + cs.length + 2 + cb.length := by
    simp; omega
  rw [hlen] at hoff ⊢
  have hexit : p + (2 + cs.length + 2 + cb.length) = px + 2 + cb.length := by omega
  rw [hexit]
  have hnds : ND (eval defs n g ρ s v).stop := eval_bind_nd_left hnd
  rw [eval_bind_of_nd hnds] at hnd ⊢
  have start : Steps code (.run p (.v v :: S) F false none R fr o cp) (.run (p+2) (.v v :: .v v :: S) F false none R fr o cp) :=
    .head (c' := .run (p+1) (.v v :: .v v :: S) F false none R fr o cp) (by simp [step, h0]) (Steps.one (by simp [step, h1]))
  refine Yields.steps_left start EqOff.refl ?_
  have ys := ihn s g e (p+2) (by omega) (hcs ▸ hss) hcl.1 ρ v (.v v :: S) F R fr o cp P htop hge
    (fun h => hpar (Or.inl h)) (fun a h => by have := hP a h; omega) henv (by rw [hcs]; omega) hnds
  rw [hcs, hpx] at ys
  let rx := ft.base + (px - e)
  have hrxP : ¬ P rx := by intro h; have := hP _ h; simp only [rx] at this; omega
  have := Yields.bind (f := fun w => eval defs n g ⟨ρ.clo, (x, w) :: ρ.vars⟩ b v) (R0 := R)
    (Oa := Own (base fr) e (p+2) cs.length)
    (Ob := Own (base fr) e px (2 + cb.length))
    (O := Own (base fr) e p (2 + cs.length + 2 + cb.length))
    (p' := px + 2 + cb.length) (S := S)
    (by intro i h; obtain ⟨j, h1, h2, h3⟩ := h; exact ⟨j, by omega, by omega, h3⟩)
    (by intro i h; obtain ⟨j, h1, h2, h3⟩ := h; exact ⟨j, by omega, by omega, h3⟩)
    (by intro i h h'; obtain ⟨j, h1, h2, h3⟩ := h; obtain ⟨k, k1, k2, k3⟩ := h'; omega)
    (by intro i h; obtain ⟨j, h1, h2, h3⟩ := h; omega)
    (by intro i h; have := hP i h; refine ⟨by omega, ?_⟩; intro h'; obtain ⟨j, h1, h2, h3⟩ := h'; omega)
    ys
    (fun w G R' o1 cp' ho1 hR' hw => by
      let R'' := R'.set rx (.v w)
      let P' : Nat → Prop := fun a => P a ∨ a = rx
      have hR'' : EqOn P R' R'' := by
        intro a ha; simp only [R'', Regs.set]; split
        · rename_i h; subst h; exact absurd ha hrxP
        · rfl
      have henv' : EnvOK code entry nf P' R'' fr ⟨ρ.clo, (x, w) :: ρ.vars⟩ ⟨g.fn, (x, px - e) :: g.vars⟩ := by
        have he := (henv.congr hR').congr hR''
        refine ⟨he.1.monoP (fun a h => Or.inl h), ?_⟩
        intro y r hy
        by_cases hyx : x = y
        · subst hyx
          simp only [lookup, if_true, Option.some.injEq] at hy
          subst hy
          exact ⟨w, by simp [lookup], by simp [R'', Regs.set, rx, hbase], Or.inr (by simp [rx, hbase])⟩
        · simp only [lookup, hyx, if_false] at hy
          obtain ⟨u, h1, h2, h3⟩ := he.2 y r hy
          exact ⟨u, by simp [lookup, hyx, h1], h2, Or.inl h3⟩
      have hirr := eval_ctx_irrel defs n b g ⟨g.fn, (x, px - e) :: g.vars⟩ ⟨ρ.clo, (x, w) :: ρ.vars⟩ v rfl
      simp only [hirr] at hw ⊢
      have yb := ihn b ⟨g.fn, (x, px - e) :: g.vars⟩ e (px + 2) (by omega) (hcb ▸ hsb) (by simpa using hcl.2)
        ⟨ρ.clo, (x, w) :: ρ.vars⟩ v S G R'' fr o1 cp' P' htop hge
        (fun h => hpar (Or.inr h))
        (fun a h => by
          rcases h with h | h
          · have := hP a h; omega
          · simp only [h, rx, hbase]; omega)
        henv' (by rw [hcb]; omega) hw
      rw [hcb] at yb
      have yb' := yb.mono (O' := Own (base fr) e px (2 + cb.length)) (P' := P) (o' := o1)
        (fun i h => by obtain ⟨j, h1, h2, h3⟩ := h; exact Or.inl ⟨j, by omega, by omega, h3⟩)
        (fun a h => by
          rcases h with h | h
          · exact Or.inr (Or.inl h)
          · exact Or.inl ⟨px, by omega, by omega, by simp [h, rx, hbase]⟩)
        (Nat.le_refl _)
      refine Yields.steps_left (c' := .run (px + 2) (.v v :: S) G false none R'' fr o1 cp') ?_ ?_ yb'
      · exact .head (c' := .run (px + 1) (.v v :: S) G false none R'' fr o1 cp') (by rw [step_store m0 hres])
          (Steps.one (by simp [step, m1]))
      · intro a ha
        have hne : a ≠ rx := fun h => ha (Or.inl ⟨px, by omega, by omega, by simp [h, rx, hbase]⟩)
        simp [R'', Regs.set, hne])
    (eval defs n g ρ s v).stop rfl EqOn.refl hnd
  exact this

end Gojq.MiniVM

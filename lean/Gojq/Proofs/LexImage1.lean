/-
  The lexer delivers well-formed tokens, part 1: identifiers, keywords, module names, variables,
  field names, formats, numbers — the converse of the per-token lexing lemmas.
-/
import Gojq.Proofs.RoundTripLexTok3
namespace Gojq.RefTerm
open Gojq Gojq.Lexer Gojq.Generated.Lalr

theorem take_identLen (r : Bytes) : ∀ x ∈ r.take (identLen r), isIdent x true = true := by
  induction r with
  | nil => simp [identLen]
  | cons c r ih =>
    simp only [identLen]
    split
    · next h =>
      intro x hx
      simp only [List.take_succ_cons, List.mem_cons] at hx
      rcases hx with rfl | hx
      · exact h
      · exact ih x hx
    · simp

theorem identName_word (ch : UInt8) (r : Bytes) (h : isIdent ch false = true) :
    isIdentName (ch :: r.take (identLen r)) = true := by
  simp only [isIdentName, h, Bool.true_and, List.all_eq_true]
  exact take_identLen r

theorem identName_take (r : Bytes) (h : isIdent (peek r) false = true) : isIdentName (r.take (identLen r)) = true := by
  cases r with
  | nil => simp [peek, isIdent] at h
  | cons c r' =>
    simp only [peek_cons] at h
    have h' := isIdent_tail c h
    simp only [identLen, h', if_true, List.take_succ_cons]
    exact identName_word c r' h

/-- the two outcomes of `scanIdentOrModule` -/
theorem scanIdentOrModule_cases (r : Bytes) :
    scanIdentOrModule r = (identLen r, false) ∨
    ∃ c r2, r.drop (identLen r) = 58 :: 58 :: c :: r2 ∧ isIdent c false = true ∧
      scanIdentOrModule r = (identLen r + 3 + identLen r2, true) := by
  simp only [scanIdentOrModule]
  split
  · next c r2 heq =>
    split
    · next hc => right; exact ⟨c, r2, heq, hc, rfl⟩
    · left; rfl
  · left; rfl

theorem splitColons_app (a b : Bytes) (ha : ∀ x ∈ a, x ≠ 58) : splitColons (a ++ 58 :: 58 :: b) = some (a, b) := by
  induction a with
  | nil => simp [splitColons]
  | cons x a ih =>
    have hx := ha x (by simp)
    have := ih (fun y hy => ha y (by simp [hy]))
    rw [List.cons_append, splitColons]
    · simp [this]
    · intro r e _; exact hx e

theorem take_module (r r2 : Bytes) (c : UInt8) (h : r.drop (identLen r) = 58 :: 58 :: c :: r2) :
    r.take (identLen r + 3 + identLen r2) = r.take (identLen r) ++ 58 :: 58 :: c :: r2.take (identLen r2) := by
  have hle := identLen_le r
  generalize identLen r = k at *
  generalize identLen r2 = m at *
  have e : r = r.take k ++ (58 :: 58 :: c :: r2) := by rw [← h]; exact (List.take_append_drop _ _).symm
  have hl : (r.take k).length = k := by rw [List.length_take]; exact Nat.min_eq_left hle
  generalize r.take k = pre at *
  subst e
  rw [List.take_append, hl, List.take_of_length_le (by omega)]
  have : k + 3 + m - k = m + 3 := by omega
  rw [this]
  simp [List.take_succ_cons]

theorem modIdent_word (a b : Bytes) (ha : isIdentName a = true) (hb : isIdentName b = true) :
    isModIdent (a ++ 58 :: 58 :: b) = true := by
  have hne : ∀ x ∈ a, x ≠ 58 := fun x hx => isIdent_ne_colon x true (identName_bytes a ha x hx)
  simp [isModIdent, splitColons_app a b hne, ha, hb]

theorem classify_ident (lv : LVal) : classify false tokIdent lv = .ident lv.token := rfl
theorem classify_modIdent (lv : LVal) : classify false tokModuleIdent lv = .modIdent lv.token := rfl
theorem classify_var (lv : LVal) : classify false tokVariable lv = .var lv.token := rfl
theorem classify_modVar (lv : LVal) : classify false tokModuleVariable lv = .modVar lv.token := rfl
theorem classify_index (lv : LVal) : classify false tokIndex lv = .index lv.token := rfl
theorem classify_number (lv : LVal) : classify false tokNumber lv = .number lv.token := rfl
theorem classify_format (lv : LVal) : classify false tokFormat lv = .format lv.token := rfl
theorem classify_invalid (b : Bool) (lv : LVal) : (classify b tokInvalid lv).wfI = true := by cases b <;> rfl

/-- a word: keyword or identifier -/
theorem word_wfI (t : Bytes) (ht : isIdentName t = true) :
    (classify false ((bytesLookup t keywords).getD tokIdent) { token := t }).wfI = true := by
  rw [bytesLookup_keywords]
  cases hk : kwOfText t with
  | none => simp [classify_ident, Tok.wfI, Tok.wf, isPlainIdent, ht, hk]
  | some w => simp [classify_kw, Tok.wfI, Tok.wf]

/-- a single byte (or a byte ≥ 128) is a `ch` or an error token -/
theorem classify_byte (b : Bool) (n : Nat) (hn : n < 256) (lv : LVal) : (classify b (n : Int) lv).wfI = true := by
  have h : ∀ k : Int, 57346 ≤ k → ((n : Int) == k) = false := by
    intro k hk; simp; omega
  have hkw : kwOfCode (n : Int) = none := by
    simp only [kwOfCode, List.find?_eq_none]
    intro w _
    cases w <;> simp [Kw.code, tokAndOp, tokAs, tokBreak, tokCatch, tokDef, tokElif, tokElse, tokEnd, tokFalse,
      tokForeach, tokIf, tokImport, tokInclude, tokLabel, tokModule, tokNull, tokOrOp, tokReduce, tokThen, tokTrue,
      tokTry] <;> omega
  unfold classify
  simp only [h tokIdent (by decide), h tokModuleIdent (by decide), h tokVariable (by decide),
    h tokModuleVariable (by decide), h tokIndex (by decide), h tokNumber (by decide), h tokFormat (by decide),
    h tokRecurse (by decide), h tokDestAltOp (by decide), h tokAltOp (by decide), h tokUpdateOp (by decide),
    h tokCompareOp (by decide), h tokString (by decide), h tokStringStart (by decide), h tokStringQuery (by decide),
    h tokStringEnd (by decide), Bool.false_eq_true, if_false, Bool.or_self, hkw]
  split <;> rfl

/-! ### numbers -/

theorem scanNumber_take (st : NumState) (r : Bytes) : ∀ n, scanNumber st r = (n, true) →
    scanNumber st (r.take n) = (n, true) := by
  fun_induction scanNumber st r
  all_goals (intro n h)
  all_goals (try (simp at h; done))
  all_goals first
    | (simp only [Prod.mk.injEq, and_true] at h; subst h; simp [scanNumber]; done)
    | (simp only [Prod.mk.injEq, and_true] at h; subst h
       simp only [List.take_zero]
       rename_i st _ _ _ _ _ _
       cases st <;> simp_all [scanNumber]; done)
    | (simp only [Prod.mk.injEq, and_true] at h; subst h
       simp only [List.take_zero]
       rename_i st _ _ _ _ _ _ _
       cases st <;> simp_all [scanNumber]; done)
    | (simp only [Prod.mk.injEq] at h
       obtain ⟨h1, h2⟩ := h
       subst h1 h2
       rename_i ih hx
       have := ih _ hx
       rw [List.take_succ_cons, scanNumber]
       simp_all)

theorem okNumber_lead (b : UInt8) (r : Bytes) (n : Nat) (hb : isNumber b = true) (h : scanNumber .lead r = (n, true)) :
    okNumber (b :: r.take n) = true := by
  have hle := scanNumber_le .lead r
  rw [h] at hle
  have hl : (r.take n).length = n := by rw [List.length_take]; exact Nat.min_eq_left hle
  simp [okNumber, hb, scanNumber_take .lead r n h, hl]

theorem okNumber_float (r : Bytes) (n : Nat) (hp : isNumber (peek r) = true) (h : scanNumber .float r = (n, true)) :
    okNumber (46 :: r.take n) = true := by
  have hle := scanNumber_le .float r
  rw [h] at hle
  have hl : (r.take n).length = n := by rw [List.length_take]; exact Nat.min_eq_left hle
  have hn : 1 ≤ n := by
    cases r with
    | nil => simp [peek, isNumber] at hp
    | cons c r' =>
      simp only [peek_cons] at hp
      rw [scanNumber] at h
      simp [hp] at h
      omega
  have hpk : peek (r.take n) = peek r := by
    cases r with
    | nil => simp
    | cons c r' => obtain ⟨k, rfl⟩ : ∃ k, n = k + 1 := ⟨n - 1, by omega⟩; rfl
  simp [okNumber, hpk, hp, scanNumber_take .float r n h, hl]

end Gojq.RefTerm

/-
  Helper lemmas for Props/C13Shipped.lean, part 8: the replay program
    reduce (tostream | select(length == 2)) as [$p, $x] (null; setpath($p; $x))
  run by `Spec.eval` with the shipped `tostream` and `select`: on every value with distinct keys,
  arrays of at most 2^29 elements and integers that fit a Go `int` it yields the value (in
  canonical member order).  Value level: `replayS_doc` (Proofs/PairsReplay.lean).
-/
import Gojq.Proofs.PairsShippedPathsF
namespace Gojq.Pairs
open Gojq Gojq.Spec Gojq.Pairs.Tie

/-- `select(length == 2)` -/
def selLeafQ : Query := (Query.term [] (Term.mk (TermCore.func "select" [lenEqQ "2"]) []))
/-- `(tostream | select(length == 2))` -/
def leafEventsQ : Query := (Query.term [] (Term.mk (TermCore.query (Query.binop [] Op.pipe tostreamQ selLeafQ)) []))
/-- `setpath($p; $x)` -/
def setPXQ : Query := (Query.term [] (Term.mk (TermCore.func "setpath" [varQ "$p", varQ "$x"]) []))

theorem qReplay_eq : qReplay = (Query.term [] (Term.mk (TermCore.reduce leafEventsQ
    (Pattern.array [(Pattern.var "$p"), (Pattern.var "$x")]) (Query.term [] (Term.mk TermCore.null [])) setPXQ) [])) := rfl

/-- an event as a state -/
def evSt (ev : JV) : St := { v := ev, id := .fresh }

/-- `length == 2` on an event -/
def isLeaf2 : JV → Bool
  | .arr xs => decide (xs.length = 2)
  | _ => false

theorem eventOK_arr {ev : JV} (h : eventOK ev = true) : ∃ xs, ev = .arr xs := by
  rcases eventOK_cases h with ⟨p, x, rfl, _⟩ | ⟨p, rfl⟩ <;> exact ⟨_, rfl⟩

/-- `(tostream | select(length == 2))`: the two-element events -/
theorem eval_leafEventsQ (m : Nat) (env : Env) (v : JV) (id : Ident) (hn : Stream.nodup v) (hs : Rebuildable v)
    (hv : IntsOK v) (hm : 10 * depth v + 80 ≤ m)
    (hT : lookupCall "tostream" 0 env.bs = .none) (hS : lookupCall "select" 1 env.bs = .none)
    (hL : lookupCall "length" 0 env.bs = .none) :
    eval m cfgGo env leafEventsQ { v := v, id := id } = ⟨((Stream.streamSpec v).filter isLeaf2).map evSt, .done⟩ := by
  obtain ⟨n, rfl⟩ : ∃ n, m = n + 17 := ⟨m - 17, by omega⟩
  simp only [leafEventsQ, eval_term, Env.defs, List.foldl_nil, evalTerm_succ, evalTermRev, List.reverse_nil, evalCore_succ,
    eval_binop]
  rw [eval_tostreamQ (n + 13) env v id hn hs.indexable hv (by omega) hT]
  simp only [Res.bind, selLeafQ, eval_term, Env.defs, List.foldl_nil, evalTerm_succ, evalTermRev, List.reverse_nil, evalCore_succ]
  apply bindList_map_filter
  intro ev hev
  refine ⟨rfl, ?_⟩
  obtain ⟨xs, rfl⟩ := eventOK_arr (List.all_eq_true.mp (streamSpec_ok v hs) ev hev)
  exact evalCall_select_test n env (lenEqQ "2") _ (decide (xs.length = 2)) .fresh hS
    (eval_lenEqQ (n + 1) (by omega) env "2" 2 rfl xs .fresh hL)

/-- the `reduce` loop of the replay over modelled two-element events: `replayS` -/
theorem replay_fold (n : Nat) (hn : 12 ≤ n) (rest : List Binding) (hS : lookupCall "setpath" 2 rest = .none) :
    ∀ (evs : List JV), (∀ ev ∈ evs, eventOK ev = true ∧ isLeaf2 ev = true) → ∀ (cur : JV) (cid : Ident) (w : JV),
      replayS evs cur = some w →
      ∃ i, (evs.map evSt).foldl
        (reduceStep (fun x => bindPattern n cfgGo (.mk rest) (.array [.var "$p", .var "$x"]) x.v x.id x.ctx)
          (fun x env' sv sid => eval n cfgGo env' setPXQ { v := sv, id := sid, ctx := x.ctx })) (.ok (cur, cid)) = .ok (w, i)
  | [], _, cur, cid, w, h => by
    simp only [replayS, Option.some.injEq] at h
    subst h
    exact ⟨cid, rfl⟩
  | ev :: evs, hev, cur, cid, w, h => by
    obtain ⟨j, rfl⟩ : ∃ j, n = j + 5 := ⟨n - 5, by omega⟩
    obtain ⟨hok, hleaf⟩ := hev ev (by simp)
    rcases eventOK_cases hok with ⟨p, x, rfl, hp⟩ | ⟨p, rfl⟩
    · simp only [replayS] at h
      cases hset : Stream.setpath p x cur with
      | none => rw [hset] at h; cases h
      | some w1 =>
        rw [hset] at h
        have hS' : lookupCall "setpath" 2
            (Env.mk (.var "$x" x (childIdent .fresh (jvInt (1 : Nat))) :: .var "$p" (.arr p) (childIdent .fresh (jvInt (0 : Nat))) :: rest)).bs = .none := by
          simpa [Env.bs, lookupCall] using hS
        have hrun := runs_setpath (j + 1) _ (varQ "$p") (varQ "$x") cur cid p x hS' hp
          (by rw [eval_varQ (j + 1) (by omega) _ "$x" x _ _ rfl]; exact ⟨_, rfl⟩)
          (by rw [eval_varQ (j + 1) (by omega) _ "$p" (.arr p) _ _ rfl]; exact ⟨_, rfl⟩)
        rw [hset] at hrun
        obtain ⟨i1, hi1⟩ := hrun
        have hupd : eval (j + 5) cfgGo
            (Env.mk (.var "$x" x (childIdent .fresh (jvInt (1 : Nat))) :: .var "$p" (.arr p) (childIdent .fresh (jvInt (0 : Nat))) :: rest))
            setPXQ { v := cur, id := cid } = .one { v := w1, id := i1 } := by
          simp only [setPXQ, eval_term, Env.defs, List.foldl_nil, evalTerm_succ, evalTermRev, List.reverse_nil, evalCore_succ]
          exact hi1
        have h0 : funcIndex2 (.arr [.arr p, x]) (jvInt (0 : Nat)) = .ok (.arr p) := rfl
        have h1 : funcIndex2 (.arr [.arr p, x]) (jvInt (1 : Nat)) = .ok x := rfl
        have hstep : reduceStep
            (fun x => bindPattern (j + 5) cfgGo (.mk rest) (.array [.var "$p", .var "$x"]) x.v x.id x.ctx)
            (fun x env' sv sid => eval (j + 5) cfgGo env' setPXQ { v := sv, id := sid, ctx := x.ctx }) (.ok (cur, cid))
            (evSt (.arr [.arr p, x])) = .ok (w1, i1) := by
          simp only [reduceStep, evSt, bindPattern_succ, bindArrayK, expandEnvs, PatRes.ok, h0, h1, Env.push, Env.bs,
            List.append_nil, List.foldl_cons, List.foldl_nil, hupd, Res.one, List.getLast?_singleton]
        rw [List.map_cons, List.foldl_cons, hstep]
        exact replay_fold (j + 5) hn rest hS evs (fun e he => hev e (by simp [he])) w1 i1 w h
    · simp [isLeaf2] at hleaf

theorem filter_leaf_ok (evs : List JV) (h : evs.all eventOK = true) :
    ∀ ev ∈ evs.filter isLeaf2, eventOK ev = true ∧ isLeaf2 ev = true := by
  intro ev hev
  obtain ⟨h1, h2⟩ := List.mem_filter.mp hev
  exact ⟨List.all_eq_true.mp h ev h1, h2⟩

/-- `replayS` skips the events that are not two-element events -/
theorem replayS_filter : ∀ (evs : List JV), evs.all eventOK = true → ∀ cur, replayS (evs.filter isLeaf2) cur = replayS evs cur
  | [], _, _ => rfl
  | ev :: evs, h, cur => by
    simp only [List.all_cons, Bool.and_eq_true] at h
    rcases eventOK_cases h.1 with ⟨p, x, rfl, _⟩ | ⟨p, rfl⟩
    · have : isLeaf2 (.arr [.arr p, x]) = true := by simp [isLeaf2]
      simp only [List.filter_cons, this, if_true, replayS]
      cases Stream.setpath p x cur with
      | none => rfl
      | some w => exact replayS_filter evs h.2 w
    · have : isLeaf2 (.arr [.arr p]) = false := by simp [isLeaf2]
      simp only [List.filter_cons, this, Bool.false_eq_true, if_false, replayS]
      exact replayS_filter evs h.2 cur

/-- **the replay program AS SHIPPED rebuilds the value** (canonical member order) -/
theorem eval_qReplay (m : Nat) (env : Env) (v : JV) (id : Ident) (hn : Stream.nodup v) (hs : Rebuildable v)
    (hv : IntsOK v) (hm : 10 * depth v + 90 ≤ m)
    (hT : lookupCall "tostream" 0 env.bs = .none) (hSel : lookupCall "select" 1 env.bs = .none)
    (hL : lookupCall "length" 0 env.bs = .none) (hSet : lookupCall "setpath" 2 env.bs = .none) :
    ∃ i, eval m cfgGo env qReplay { v := v, id := id } = .one { v := Stream.canon v, id := i } := by
  obtain ⟨k, rfl⟩ : ∃ k, m = k + 3 + 3 := ⟨m - 6, by omega⟩
  generalize hn' : k + 3 = n at *
  have hnull : eval n cfgGo env (Query.term [] (Term.mk TermCore.null [])) { v := v, id := id } =
      .one { v := .null, id := .fresh } := by
    subst hn'
    simp only [eval_term, Env.defs, List.foldl_nil, evalTerm_succ, evalTermRev, List.reverse_nil, evalCore_succ, computed]
  have hok := streamSpec_ok v hs
  have hrep : replayS ((Stream.streamSpec v).filter isLeaf2) .null = some (Stream.canon v) := by
    rw [replayS_filter _ hok]; exact replayS_doc v hn
  obtain ⟨i, hfold⟩ := replay_fold n (by omega) env.bs hSet _ (filter_leaf_ok _ hok) .null .fresh _ hrep
  refine ⟨i, ?_⟩
  have henv : Env.mk env.bs = env := by cases env; rfl
  rw [henv] at hfold
  simp only [qReplay_eq, eval_term, Env.defs, List.foldl_nil, evalTerm_succ, evalTermRev, List.reverse_nil, evalCore_succ,
    hnull, one_bind_mk, reduceFrom, eval_leafEventsQ n env v id hn hs hv (by omega) hT hSel hL, hfold]

end Gojq.Pairs

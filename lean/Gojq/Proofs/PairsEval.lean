/-
  Helper lemmas for Props/C13Pairs.lean, part 7: the UNIVERSAL tie of `to_entries`, `from_entries`
  and `with_entries(.)` to the shipped definitions — `Spec.eval` of the regenerated ASTs of
  builtin.jq (Generated/BuiltinDefs.lean), by symbolic evaluation with the unfolding lemmas of
  Proofs/SpecPathUnfold.lean, for EVERY input value, every sufficient fuel and every calling
  environment that does not shadow the builtins.  `shipped_…` lemmas (`rfl`) state that the
  regenerated definition is the body evaluated here: an edit of builtin.jq breaks them.
-/
import Gojq.Proofs.SpecPathUnfold
import Gojq.Proofs.SpecLaws
import Gojq.Proofs.PairsTie
import Gojq.Proofs.PairsEntries
namespace Gojq.Pairs
open Gojq Gojq.Spec Gojq.Pairs.Tie

/-- `{key: $k, value: .[$k]}` -/
def entryBody : Query := (Query.term [] (Term.mk (TermCore.object [(ObjKV.mk (ObjKey.name (B "key")) (some (Query.term [] (Term.mk (TermCore.func "$k" []) [])))), (ObjKV.mk (ObjKey.name (B "value")) (some (Query.term [] (Term.mk (TermCore.index (Index.at (Query.term [] (Term.mk (TermCore.func "$k" []) [])))) []))))]) []))

theorem one_bind_mk (v : JV) (id : Ident) (ctx : Option PCtx) (f : St → Res) :
    (Res.one { v := v, id := id, ctx := ctx }).bind f = f { v := v, id := id, ctx := ctx } := by
  rw [one_bind_wrap]; rfl

theorem fail_bind (e : Err) (f : St → Res) : (Res.fail e).bind f = .fail e := rfl

/-- `{key: $k, value: .[$k]}` with `$k` bound to `k`, on ANY input `v` on which `.[$k]` is defined -/
theorem eval_entryBody (m : Nat) (hm : 16 ≤ m) (bs : List Binding) (k : JV) (kid : Ident) (v w : JV) (id : Ident)
    (hw : funcIndex2 v k = .ok w) :
    eval m cfgGo (.mk (.var "$k" k kid :: bs)) entryBody { v := v, id := id } =
      .one { v := entry k w, id := .fresh } := by
  obtain ⟨n, rfl⟩ : ∃ n, m = n + 16 := ⟨m - 16, by omega⟩
  simp only [entryBody, eval_term, evalTerm_succ, evalTermRev, List.reverse_nil, evalCore_succ, evalObject_succ,
    objKeyRes, objValRes, Env.defs, List.foldl_nil]
  simp only [computed, one_bind_mk, evalCall_succ, Env.bs, lookupCall, List.length_nil, beq_self_eq_true,
    Bool.and_self, if_true, evalIndex_succ, eval_term, Env.defs, List.foldl_nil, evalTerm_succ, evalTermRev, List.reverse_nil,
    evalCore_succ, withCtx, navStep, hw, navigated]
  have hc : Bytes.cmp [118, 97, 108, 117, 101] [107, 101, 121] = .gt := by decide
  simp only [List.nil_append, List.cons_append, List.reverse_cons, List.reverse_nil, List.find?, List.filterMap,
    JV.mkObj, List.foldl, kvInsert, B_key, B_value, entry, hc]


theorem bindList_ones (f : St → Res) (g : St → St) : ∀ xs : List St, (∀ x ∈ xs, x.pend = false ∧ f x = .one (g x)) →
    Res.bindList f .done xs = ⟨xs.map g, .done⟩
  | [], _ => rfl
  | x :: xs, h => by
    have hx := h x (by simp)
    rw [bindList_cons_nopend f .done x xs hx.1, hx.2, bindList_ones f g xs (fun y hy => h y (by simp [hy]))]
    rfl

theorem iterItems_vals (v : JV) (xs : List JV) (hv : valuesOf v = some xs) :
    ∃ items, iterItems v = some items ∧ items.map (·.2) = xs := by
  cases v with
  | arr ys =>
    simp only [valuesOf, Option.some.injEq] at hv; subst hv
    refine ⟨_, rfl, ?_⟩
    simp only [List.map_map]
    have : (Prod.snd ∘ fun (x : Nat × JV) => (jvInt (x.1 : Nat), x.2)) = Prod.snd := by funext a; rfl
    rw [this]
    exact List.map_snd_zip (by simp)
  | obj kvs =>
    simp only [valuesOf, Option.some.injEq] at hv; subst hv
    refine ⟨_, rfl, ?_⟩
    simp only [List.map_map]
    apply List.map_congr_left; intro a _; rfl
  | null => simp [valuesOf] at hv
  | bool _ => simp [valuesOf] at hv
  | num _ => simp [valuesOf] at hv
  | str _ => simp [valuesOf] at hv

/-- `.[]` without path tracking: the children in order, no `pend` flag, no tracking context -/
theorem iterate_vals (v : JV) (id : Ident) (xs : List JV) (hv : valuesOf v = some xs) :
    ∃ sts : List St, iterate { v := v, id := id } = ⟨sts, .done⟩ ∧ sts.map (·.v) = xs ∧
      ∀ st ∈ sts, st.pend = false ∧ st.ctx = none := by
  obtain ⟨items, hi, hx⟩ := iterItems_vals v xs hv
  refine ⟨items.map fun kw => { v := kw.2, id := childIdent id kw.1, ctx := none }, ?_, ?_, ?_⟩
  · simp only [iterate, hi]
  · rw [← hx, List.map_map]; rfl
  · intro st hst
    obtain ⟨kw, _, rfl⟩ := List.mem_map.mp hst
    exact ⟨rfl, rfl⟩


/-! ### natives called without path tracking -/

theorem find_keys : cfgGo.builtins.find "keys" 0 = none := by rfl

/-- `keys` where the name is not shadowed -/
theorem evalCall_keys (m : Nat) (hm : 1 ≤ m) (env : Env) (s : St) (h : lookupCall "keys" 0 env.bs = .none) :
    evalCall m cfgGo env "keys" [] s = nativeRes s "keys" (some (funcKeys s.v)) [s.v] := by
  obtain ⟨n, rfl⟩ : ∃ n, m = n + 1 := ⟨m - 1, by omega⟩
  have hsw : "keys".startsWith "$" = false := by decide +kernel
  simp only [evalCall_succ, List.length_nil, h, hsw, Bool.false_eq_true, if_false, find_keys]
  rfl

/-- `keys[]` on a value that has keys -/
theorem eval_keys_iter (m : Nat) (hm : 5 ≤ m) (env : Env) (v : JV) (id : Ident) (ks : List JV)
    (h : lookupCall "keys" 0 env.bs = .none) (hk : keysOf v = some ks) :
    ∃ sts : List St, eval m cfgGo env (Query.term [] (Term.mk (TermCore.func "keys" []) [Suffix.iter])) { v := v, id := id } =
        ⟨sts, .done⟩ ∧ sts.map (·.v) = ks ∧ ∀ st ∈ sts, st.pend = false ∧ st.ctx = none := by
  obtain ⟨n, rfl⟩ : ∃ n, m = n + 5 := ⟨m - 5, by omega⟩
  obtain ⟨sts, h1, h2, h3⟩ := iterate_vals (.arr ks) (resultIdent [v] (.arr ks)) ks rfl
  refine ⟨sts, ?_, h2, h3⟩
  simp only [eval_term, Env.defs, List.foldl_nil, evalTerm_succ, evalTermRev, List.reverse_cons, List.reverse_nil,
    List.nil_append, evalCore_succ, evalCall_keys (n + 1) (by omega) env _ h, funcKeys, hk, pure, Except.pure, nativeRes, resultOf,
    one_bind_mk, h1]

/-- the body of `to_entries` as the real parser dumps it: `[keys[] as $k | {key: $k, value: .[$k]}]` -/
def toEntriesBody : Query := (Query.term [] (Term.mk (TermCore.array (some (Query.bind [] (Query.term [] (Term.mk (TermCore.func "keys" []) [Suffix.iter])) [(Pattern.var "$k")] entryBody))) []))

theorem entriesOf_map (v : JV) : ∀ (ks es : List JV), entriesOf v ks = some es →
    ∀ k ∈ ks, ∃ w, funcIndex2 v k = .ok w
  | [], _, _, k, hk => by cases hk
  | k0 :: ks, es, h, k, hk => by
    simp only [entriesOf] at h
    split at h
    · rename_i w es' hw hes
      rcases List.mem_cons.mp hk with rfl | hk
      · exact ⟨w, hw⟩
      · exact entriesOf_map v ks es' hes k hk
    · cases h

/-- what `{key: $k, value: .[$k]}` makes of one key -/
def entryOf (v k : JV) : JV :=
  match funcIndex2 v k with
  | .ok w => entry k w
  | .error _ => .null

theorem entriesOf_eq (v : JV) : ∀ (ks es : List JV), entriesOf v ks = some es → es = ks.map (entryOf v)
  | [], es, h => by simp only [entriesOf, Option.some.injEq] at h; simp [← h]
  | k0 :: ks, es, h => by
    simp only [entriesOf] at h
    split at h
    · rename_i w es' hw hes
      simp only [Option.some.injEq] at h
      rw [← h, entriesOf_eq v ks es' hes]
      simp [entryOf, hw]
    · cases h

theorem eval_toEntriesBody (m : Nat) (hm : 30 ≤ m) (env : Env) (v : JV) (id : Ident) (ks es : List JV)
    (h : lookupCall "keys" 0 env.bs = .none) (hk : keysOf v = some ks) (he : entriesOf v ks = some es) :
    eval m cfgGo env toEntriesBody { v := v, id := id } = .one { v := .arr es, id := .fresh } := by
  obtain ⟨n, rfl⟩ : ∃ n, m = n + 30 := ⟨m - 30, by omega⟩
  obtain ⟨sts, h1, h2, h3⟩ := eval_keys_iter (n + 26) (by omega) env v id ks h hk
  have hbody : ∀ st ∈ sts, st.pend = false ∧
      evalAlts (n + 26) cfgGo env [Pattern.var "$k"] [Pattern.var "$k"] st.v st.id entryBody { v := v, id := id } =
        .one { v := entryOf v st.v, id := .fresh } := by
    intro st hst
    refine ⟨(h3 st hst).1, ?_⟩
    have hmem : st.v ∈ ks := by rw [← h2]; exact List.mem_map_of_mem hst
    obtain ⟨w, hw⟩ := entriesOf_map v ks es he st.v hmem
    have hb := eval_entryBody (n + 25) (by omega) env.bs st.v st.id v w id hw
    simp only [evalAlts_one, List.length_cons, List.length_nil, altAttempt, bindPattern_succ, PatRes.ok, forEnvs,
      List.foldl_cons, List.foldl_nil, Env.push]
    simp only [Nat.lt_irrefl, if_false, gt_iff_lt, Nat.reduceAdd, hb, entryOf, hw]
    rfl
  simp only [toEntriesBody, eval_term, Env.defs, List.foldl_nil, evalTerm_succ, evalTermRev, List.reverse_nil, evalCore_succ,
    eval_bind, withCtx, h1, Res.bind, bindList_ones _ _ sts hbody, computed]
  rw [entriesOf_eq v ks es he, ← h2]
  simp [Res.one, List.map_map]


/-- the SHIPPED definition (regenerated from builtin.go) is this body -/
theorem shipped_to_entries : Generated.Builtins.go_to_uentries_a00 = .mk "to_entries" [] toEntriesBody := rfl

theorem find_to_entries : cfgGo.builtins.find "to_entries" 0 = some (.mk "to_entries" [] toEntriesBody) := by
  rw [← shipped_to_entries]; rfl

/-- a call of the jq-defined builtin `to_entries` (not shadowed) runs its body in the builtin environment -/
theorem evalCall_to_entries (n : Nat) (env : Env) (s : St) (h : lookupCall "to_entries" 0 env.bs = .none) :
    evalCall (n + 2) cfgGo env "to_entries" [] s =
      eval n cfgGo (.mk [.fn "to_entries" [] toEntriesBody true]) toEntriesBody s := by
  have hsw : "to_entries".startsWith "$" = false := by decide +kernel
  simp only [evalCall_succ, List.length_nil, h, hsw, Bool.false_eq_true, if_false, find_to_entries, callDef_succ,
    FuncDef.name, FuncDef.params, FuncDef.body, List.zip_nil_right, List.filter_nil, List.foldl_nil, bindValsK]
  rfl

theorem eval_toEntriesBody_error (m : Nat) (hm : 10 ≤ m) (env : Env) (v : JV) (id : Ident)
    (h : lookupCall "keys" 0 env.bs = .none) (hk : keysOf v = none) :
    eval m cfgGo env toEntriesBody { v := v, id := id } = .fail (errFunc0 "keys" v) := by
  obtain ⟨n, rfl⟩ : ∃ n, m = n + 10 := ⟨m - 10, by omega⟩
  simp only [toEntriesBody, eval_term, Env.defs, List.foldl_nil, evalTerm_succ, evalTermRev, List.reverse_nil, evalCore_succ,
    eval_bind, withCtx, List.reverse_cons, List.nil_append, evalCall_keys (n + 2) (by omega) env _ h, funcKeys, hk,
    nativeRes, throw, throwThe, MonadExceptOf.throw]
  rfl

theorem entriesOf_total (v : JV) (ks : List JV) (hk : keysOf v = some ks) : ∃ es, entriesOf v ks = some es := by
  have key : ∀ l : List JV, (∀ k ∈ l, ∃ w, funcIndex2 v k = .ok w) → ∃ es, entriesOf v l = some es := by
    intro l
    induction l with
    | nil => intro _; exact ⟨[], rfl⟩
    | cons k l ih =>
      intro h
      obtain ⟨w, hw⟩ := h k (by simp)
      obtain ⟨es, hes⟩ := ih (fun k' hk' => h k' (by simp [hk']))
      exact ⟨entry k w :: es, by simp [entriesOf, hw, hes]⟩
  apply key
  intro k hkm
  cases v with
  | arr xs =>
    simp only [keysOf, Option.some.injEq] at hk; subst hk
    obtain ⟨i, _, rfl⟩ := List.mem_map.mp hkm
    exact ⟨_, rfl⟩
  | obj kvs =>
    simp only [keysOf, Option.some.injEq] at hk; subst hk
    obtain ⟨kv, _, rfl⟩ := List.mem_map.mp hkm
    exact ⟨_, rfl⟩
  | null => simp [keysOf] at hk
  | bool _ => simp [keysOf] at hk
  | num _ => simp [keysOf] at hk
  | str _ => simp [keysOf] at hk

/-- **`toEntries` IS the shipped `to_entries`, on every value**: evaluated by `Spec.eval` from the
    regenerated definition, with any fuel from 40 on, in any environment that does not shadow it. -/
theorem eval_to_entries (m : Nat) (hm : 40 ≤ m) (env : Env) (v : JV) (id : Ident)
    (h : lookupCall "to_entries" 0 env.bs = .none) :
    Agrees (eval m cfgGo env qToEntries { v := v, id := id }) (toEntries v) := by
  obtain ⟨n, rfl⟩ : ∃ n, m = n + 40 := ⟨m - 40, by omega⟩
  have hcall : eval (n + 40) cfgGo env qToEntries { v := v, id := id } =
      eval (n + 35) cfgGo (.mk [.fn "to_entries" [] toEntriesBody true]) toEntriesBody { v := v, id := id } := by
    simp only [qToEntries, eval_term, Env.defs, List.foldl_nil, evalTerm_succ, evalTermRev, List.reverse_nil, evalCore_succ]
    rw [evalCall_to_entries (n + 35) env _ h]
  rw [hcall]
  cases hk : keysOf v with
  | some ks =>
    obtain ⟨es, he⟩ := entriesOf_total v ks hk
    rw [eval_toEntriesBody (n + 35) (by omega) _ v id ks es rfl hk he]
    simp [toEntries, hk, he, Agrees, Res.one]
  | none =>
    rw [eval_toEntriesBody_error (n + 35) (by omega) _ v id rfl hk]
    simp [toEntries, hk, Agrees, Res.fail]

/-! ## `from_entries`, `with_entries(.)` -/

/-- a run without path tracking that yields the single value `o` / fails when `o = none` -/
def Runs (r : Res) (o : Option JV) : Prop :=
  match o with
  | some w => ∃ i, r = .one { v := w, id := i }
  | none => ∃ e, r = .fail e

/-- `.name` -/
def fieldQ (nm : String) : Query := (Query.term [] (Term.mk (TermCore.index (Index.name (B nm))) []))

theorem eval_fieldQ (m : Nat) (hm : 6 ≤ m) (env : Env) (nm : String) (e : JV) (id : Ident) :
    Runs (eval m cfgGo env (fieldQ nm) { v := e, id := id }) (field e nm) := by
  obtain ⟨n, rfl⟩ : ∃ n, m = n + 6 := ⟨m - 6, by omega⟩
  simp only [fieldQ, eval_term, Env.defs, List.foldl_nil, evalTerm_succ, evalTermRev, List.reverse_nil, evalCore_succ,
    evalIndex_succ, one_bind_mk, navStep, field]
  cases funcIndex2 e (.str (B nm)) with
  | ok w => exact ⟨_, rfl⟩
  | error err => exact ⟨err, rfl⟩

/-- `l // r` when both sides run to a single value or fail -/
theorem eval_alt_runs (n : Nat) (env : Env) (l r : Query) (s : St) (ol : Option JV) (or' : Unit → Option JV)
    (hl : Runs (eval n cfgGo env l s) ol) (hr : Runs (eval n cfgGo env r s) (or' ())) :
    Runs (eval (n + 1) cfgGo env (.binop [] .alt l r) s) (alt ol or') := by
  rw [eval_alt]
  simp only [Env.defs, List.foldl_nil]
  cases ol with
  | none =>
    obtain ⟨e, he⟩ := hl
    simp only [he]
    exact ⟨e, rfl⟩
  | some a =>
    obtain ⟨i, hi⟩ := hl
    simp only [hi, Res.one, List.filter, alt]
    by_cases hf : isFalsy a = true
    · simp only [hf, Bool.not_true, List.isEmpty_nil, if_true]
      exact hr
    · have : isFalsy a = false := by simpa using hf
      simp only [this, Bool.not_false, List.isEmpty_cons, Bool.false_eq_true, if_false]
      exact ⟨i, rfl⟩

/-- `.key // .Key // .name // .Name` -/
def keyQ : Query := (Query.binop [] Op.alt (fieldQ "key") (Query.binop [] Op.alt (fieldQ "Key") (Query.binop [] Op.alt (fieldQ "name") (fieldQ "Name"))))

theorem eval_keyQ (m : Nat) (hm : 9 ≤ m) (env : Env) (e : JV) (id : Ident) :
    Runs (eval m cfgGo env keyQ { v := e, id := id }) (entryKey e) := by
  obtain ⟨n, rfl⟩ : ∃ n, m = n + 9 := ⟨m - 9, by omega⟩
  exact eval_alt_runs (n + 8) env _ _ _ _ _ (eval_fieldQ _ (by omega) env "key" e id)
    (eval_alt_runs (n + 7) env _ _ _ _ _ (eval_fieldQ _ (by omega) env "Key" e id)
      (eval_alt_runs (n + 6) env _ _ _ _ _ (eval_fieldQ _ (by omega) env "name" e id)
        (eval_fieldQ _ (by omega) env "Name" e id)))


theorem find_has : cfgGo.builtins.find "has" 1 = none := by rfl

/-- `"…"` (a string literal) -/
def strQ (b : Bytes) : Query := (Query.term [] (Term.mk (TermCore.str (Str.lit b)) []))

theorem evalCall_has (m : Nat) (hm : 6 ≤ m) (env : Env) (b : Bytes) (v : JV) (id : Ident)
    (h : lookupCall "has" 1 env.bs = .none) :
    evalCall m cfgGo env "has" [strQ b] { v := v, id := id } =
      nativeRes { v := v, id := id } "has" (some (funcHas v (.str b))) [v, .str b] := by
  obtain ⟨n, rfl⟩ : ∃ n, m = n + 6 := ⟨m - 6, by omega⟩
  have hsw : "has".startsWith "$" = false := by decide +kernel
  have hn : nativeCall (n + 5) cfgGo env "has" [strQ b] { v := v, id := id } =
      evalArgsK (fun a ctx => eval (n + 5) cfgGo env a { v := v, id := id, ctx := ctx }) [strQ b] none [] fun vals ctx =>
        nativeRes { v := v, id := id, ctx := ctx } "has" (callNative "has" v vals) (v :: vals) := rfl
  simp only [evalCall_succ, List.length_cons, List.length_nil, Nat.zero_add, h, hsw, Bool.false_eq_true, if_false,
    find_has, hn]
  simp only [evalArgsK, strQ, eval_term, Env.defs, List.foldl_nil, evalTerm_succ, evalTermRev, List.reverse_nil, evalCore_succ,
    evalStr_succ, computed, one_bind_mk]
  rfl


theorem funcHas_bool (v x w : JV) (h : funcHas v x = .ok w) : ∃ b, w = .bool b := by
  unfold funcHas at h
  split at h
  · split at h
    · simp only [pure, Except.pure, Except.ok.injEq] at h; exact ⟨_, h.symm⟩
    · cases h
  · simp only [pure, Except.pure, Except.ok.injEq] at h; exact ⟨_, h.symm⟩
  · simp only [pure, Except.pure, Except.ok.injEq] at h; exact ⟨_, h.symm⟩
  · cases h

theorem funcHas_error (v x : JV) (err : Err) (h : funcHas v x = .error err) : err = errFunc1 "has" v x := by
  unfold funcHas at h
  split at h
  · split at h
    · cases h
    · simp only [throw, throwThe, MonadExceptOf.throw, Except.error.injEq] at h; exact h.symm
  · cases h
  · cases h
  · simp only [throw, throwThe, MonadExceptOf.throw, Except.error.injEq] at h; exact h.symm

/-- `if has("value") then .value else .Value end` -/
def valQ : Query := (Query.term [] (Term.mk (TermCore.if_ (Query.term [] (Term.mk (TermCore.func "has" [strQ (B "value")]) [])) (fieldQ "value") [] (some (fieldQ "Value"))) []))

theorem eval_valQ (m : Nat) (hm : 12 ≤ m) (env : Env) (e : JV) (id : Ident) (h : lookupCall "has" 1 env.bs = .none) :
    Runs (eval m cfgGo env valQ { v := e, id := id }) (entryValue e) := by
  obtain ⟨n, rfl⟩ : ∃ n, m = n + 12 := ⟨m - 12, by omega⟩
  simp only [valQ, eval_term, Env.defs, List.foldl_nil, evalTerm_succ, evalTermRev, List.reverse_nil, evalCore_succ, withCtx,
    evalCall_has (n + 6) (by omega) env _ e id h, entryValue]
  cases hh : funcHas e (.str (B "value")) with
  | error err =>
    rw [funcHas_error _ _ _ hh]
    exact ⟨_, rfl⟩
  | ok w =>
    obtain ⟨b, rfl⟩ := funcHas_bool _ _ _ hh
    cases b with
    | true =>
      simp only [nativeRes, resultOf, one_bind_mk, isFalsy, Bool.not_false, if_true]
      exact eval_fieldQ _ (by omega) env "value" e id
    | false =>
      simp only [nativeRes, resultOf, one_bind_mk, isFalsy, Bool.not_true, Bool.false_eq_true, if_false]
      exact eval_fieldQ _ (by omega) env "Value" e id

/-- `{ (.key // .Key // .name // .Name): if has("value") then .value else .Value end }` -/
def entryObjQ : Query := (Query.term [] (Term.mk (TermCore.object [(ObjKV.mk (ObjKey.query keyQ) (some valQ))]) []))

/-- what that object construction makes of one entry -/
def entryObj (e : JV) : Option JV := (fromEntry e).map fun kv => .obj [kv]

theorem eval_entryObjQ (m : Nat) (hm : 20 ≤ m) (env : Env) (e : JV) (id : Ident) (h : lookupCall "has" 1 env.bs = .none) :
    Runs (eval m cfgGo env entryObjQ { v := e, id := id }) (entryObj e) := by
  obtain ⟨n, rfl⟩ : ∃ n, m = n + 20 := ⟨m - 20, by omega⟩
  have hk := eval_keyQ (n + 16) (by omega) env e id
  simp only [entryObjQ, eval_term, Env.defs, List.foldl_nil, evalTerm_succ, evalTermRev, List.reverse_nil, evalCore_succ,
    evalObject_succ, objKeyRes, objValRes, entryObj, fromEntry]
  cases hek : entryKey e with
  | none =>
    rw [hek] at hk
    obtain ⟨err, he⟩ := hk
    simp only [he, fail_bind]
    exact ⟨err, rfl⟩
  | some kx =>
    rw [hek] at hk
    obtain ⟨i, hi⟩ := hk
    have hv := eval_valQ (n + 16) (by omega) env e id h
    simp only [hi, one_bind_mk]
    cases hev : entryValue e with
    | none =>
      rw [hev] at hv
      obtain ⟨err, he⟩ := hv
      simp only [he, fail_bind]
      cases kx <;> exact ⟨err, rfl⟩
    | some vx =>
      rw [hev] at hv
      obtain ⟨j, hj⟩ := hv
      simp only [hj, one_bind_mk, List.nil_append, List.reverse_cons, List.reverse_nil, List.find?, List.filterMap]
      cases kx with
      | str k => exact ⟨_, rfl⟩
      | null => exact ⟨_, rfl⟩
      | bool _ => exact ⟨_, rfl⟩
      | num _ => exact ⟨_, rfl⟩
      | arr _ => exact ⟨_, rfl⟩
      | obj _ => exact ⟨_, rfl⟩


/-! ### `map(f)` -/

theorem bindList_runs (f : St → Res) (φ : JV → Option JV) : ∀ (xs : List St),
    (∀ x ∈ xs, x.pend = false ∧ Runs (f x) (φ x.v)) →
    match mapOpt φ (xs.map (·.v)) with
    | some ys => ∃ sts, Res.bindList f .done xs = ⟨sts, .done⟩ ∧ sts.map (·.v) = ys
    | none => ∃ sts e, Res.bindList f .done xs = ⟨sts, .err e⟩
  | [], _ => ⟨[], rfl, rfl⟩
  | x :: xs, h => by
    have hx := h x (by simp)
    have ih := bindList_runs f φ xs (fun y hy => h y (by simp [hy]))
    rw [bindList_cons_nopend f .done x xs hx.1]
    simp only [List.map_cons, mapOpt]
    cases hφ : φ x.v with
    | none =>
      have := hx.2; rw [hφ] at this
      obtain ⟨e, he⟩ := this
      simp only [he]
      exact ⟨[], e, rfl⟩
    | some y =>
      have := hx.2; rw [hφ] at this
      obtain ⟨i, hi⟩ := this
      simp only [hi, Res.one]
      cases hm : mapOpt φ (xs.map (·.v)) with
      | none =>
        rw [hm] at ih
        obtain ⟨sts, e, he⟩ := ih
        exact ⟨{ v := y, id := i } :: sts, e, by simp [he]⟩
      | some ys =>
        rw [hm] at ih
        obtain ⟨sts, he, hv⟩ := ih
        exact ⟨{ v := y, id := i } :: sts, by simp [he], by simp [hv]⟩

/-- the body of `map(f)` as the real parser dumps it: `[.[] | f]` -/
def mapBody : Query := (Query.term [] (Term.mk (TermCore.array (some (Query.binop [] Op.pipe (Query.term [] (Term.mk TermCore.identity [Suffix.iter])) (Query.term [] (Term.mk (TermCore.func "f" []) []))))) []))

theorem shipped_map : Generated.Builtins.go_map_a01 = .mk "map" ["f"] mapBody := rfl

theorem find_map : cfgGo.builtins.find "map" 1 = some (.mk "map" ["f"] mapBody) := by
  rw [← shipped_map]; rfl

/-- `map(f)` at value level, for an `f` with one output per element (or an error) -/
def mapVal (φ : JV → Option JV) (v : JV) : Option JV :=
  match valuesOf v with
  | none => none
  | some es => (mapOpt φ es).map .arr

theorem eval_mapBody (n : Nat) (cenv : Env) (fq : Query) (bs : List Binding) (v : JV) (id : Ident)
    (φ : JV → Option JV) (hf : ∀ e i, Runs (eval n cfgGo cenv fq { v := e, id := i }) (φ e)) :
    Runs (eval (n + 8) cfgGo (.mk (.clo "f" fq cenv :: bs)) mapBody { v := v, id := id }) (mapVal φ v) := by
  simp only [mapBody, eval_term, Env.defs, List.foldl_nil, evalTerm_succ, evalTermRev, List.reverse_nil, evalCore_succ,
    eval_binop, List.reverse_cons, List.nil_append, one_bind_mk, mapVal]
  cases hv : valuesOf v with
  | none =>
    have : iterate { v := v, id := id } = .fail (.builtin "iterator" [v]) := by
      cases v <;> simp_all [valuesOf, iterate, iterItems]
    simp only [this, Res.fail]
    exact ⟨_, rfl⟩
  | some es =>
    obtain ⟨sts, h1, h2, h3⟩ := iterate_vals v id es hv
    have hcall : ∀ x ∈ sts, x.pend = false ∧
        Runs (evalCall (n + 1) cfgGo (.mk (.clo "f" fq cenv :: bs)) "f" [] x) (φ x.v) := by
      intro x hx
      obtain ⟨hp, hc⟩ := h3 x hx
      refine ⟨hp, ?_⟩
      have hx' : x = { v := x.v, id := x.id } := by
        cases x; simp_all
      have := hf x.v x.id
      simp only [evalCall_succ, List.length_nil, Env.bs, lookupCall, beq_self_eq_true, Bool.and_self, if_true]
      rw [hx']
      exact this
    have hb := bindList_runs _ φ sts hcall
    rw [h2] at hb
    simp only [h1, Res.bind]
    cases hm : mapOpt φ es with
    | none =>
      rw [hm] at hb
      obtain ⟨sts', e, he⟩ := hb
      simp only [he, Option.map_none]
      exact ⟨e, rfl⟩
    | some ys =>
      rw [hm] at hb
      obtain ⟨sts', he, hv'⟩ := hb
      simp only [he, Option.map_some, computed, hv']
      exact ⟨_, rfl⟩


/-- a call of the jq-defined builtin `map(f)` (not shadowed): its body with `f` bound to the closure -/
theorem evalCall_map (n : Nat) (env : Env) (fq : Query) (s : St) (h : lookupCall "map" 1 env.bs = .none) :
    evalCall (n + 2) cfgGo env "map" [fq] s =
      eval n cfgGo (.mk [.clo "f" fq env, .fn "map" ["f"] mapBody true]) mapBody s := by
  have hsw : "map".startsWith "$" = false := by decide +kernel
  have hf : "f".startsWith "$" = false := by decide +kernel
  simp only [evalCall_succ, List.length_cons, List.length_nil, Nat.zero_add, h, hsw, Bool.false_eq_true, if_false, find_map,
    callDef_succ, FuncDef.name, FuncDef.params, FuncDef.body, List.zip_cons_cons, List.zip_nil_right, List.foldl_cons,
    List.foldl_nil, List.filter_cons, List.filter_nil, hf, bindValsK]
  rfl

/-! ### `add // {}` over one-member objects -/

theorem find_add : cfgGo.builtins.find "add" 0 = none := by rfl

theorem evalCall_add (m : Nat) (hm : 1 ≤ m) (env : Env) (s : St) (h : lookupCall "add" 0 env.bs = .none) :
    evalCall m cfgGo env "add" [] s = nativeRes s "add" (some (funcAdd s.v)) [s.v] := by
  obtain ⟨n, rfl⟩ : ∃ n, m = n + 1 := ⟨m - 1, by omega⟩
  have hsw : "add".startsWith "$" = false := by decide +kernel
  simp only [evalCall_succ, List.length_nil, h, hsw, Bool.false_eq_true, if_false, find_add]
  rfl

/-- one step of `addAll` -/
def addStep (acc x : JV) : NRes :=
  match x with
  | .null => pure acc
  | x => opAdd acc x

theorem addAll_eq (xs : List JV) : addAll xs = xs.foldlM addStep .null := rfl

theorem addAll_pairs_go : ∀ (kvs acc : List (Bytes × JV)),
    (kvs.map fun kv => JV.obj [kv]).foldlM addStep (JV.obj acc) =
      .ok (.obj (kvs.foldl (fun a kv => kvInsert kv.1 kv.2 a) acc))
  | [], acc => rfl
  | kv :: kvs, acc => by
    have h0 : addStep (.obj acc) (.obj [kv]) = .ok (.obj (kvInsert kv.1 kv.2 acc)) := rfl
    simp only [List.map_cons, List.foldlM_cons, h0, bind, Except.bind, List.foldl_cons]
    exact addAll_pairs_go kvs _

/-- `add` of the one-member objects of `kvs`: `null` for none, else the successive assignment -/
theorem funcAdd_pairs (kvs : List (Bytes × JV)) :
    funcAdd (.arr (kvs.map fun kv => JV.obj [kv])) = .ok (if kvs.isEmpty then .null else addPairs kvs) := by
  cases kvs with
  | nil => rfl
  | cons kv kvs =>
    have h0 : addStep .null (.obj [kv]) = .ok (.obj [kv]) := rfl
    simp only [funcAdd, valuesOf, addAll_eq, List.map_cons, List.foldlM_cons, h0, bind, Except.bind,
      List.isEmpty_cons, Bool.false_eq_true, if_false, addPairs, List.foldl_cons]
    rw [addAll_pairs_go kvs [kv]]
    cases kv; simp [kvInsert]


/-! ### `from_entries` -/

/-- the body of `from_entries` as the real parser dumps it -/
def fromEntriesBody : Query := (Query.binop [] Op.pipe (Query.term [] (Term.mk (TermCore.func "map" [entryObjQ]) [])) (Query.binop [] Op.alt (Query.term [] (Term.mk (TermCore.func "add" []) [])) (Query.term [] (Term.mk (TermCore.object []) []))))

theorem shipped_from_entries : Generated.Builtins.go_from_uentries_a00 = .mk "from_entries" [] fromEntriesBody := rfl

theorem find_from_entries : cfgGo.builtins.find "from_entries" 0 = some (.mk "from_entries" [] fromEntriesBody) := by
  rw [← shipped_from_entries]; rfl

theorem mapOpt_entryObj : ∀ es : List JV,
    mapOpt entryObj es = (fromEntryList es).map fun kvs => kvs.map fun kv => JV.obj [kv]
  | [] => rfl
  | e :: es => by
    simp only [mapOpt, fromEntryList, mapOpt_entryObj es, entryObj]
    cases fromEntry e <;> cases fromEntryList es <;> rfl

theorem eval_fromEntriesBody (m : Nat) (hm : 40 ≤ m) (env : Env) (v : JV) (id : Ident)
    (hmap : lookupCall "map" 1 env.bs = .none) (hhas : lookupCall "has" 1 env.bs = .none)
    (hadd : lookupCall "add" 0 env.bs = .none) :
    Runs (eval m cfgGo env fromEntriesBody { v := v, id := id }) (fromEntries v) := by
  obtain ⟨n, rfl⟩ : ∃ n, m = n + 40 := ⟨m - 40, by omega⟩
  have hm' : Runs (eval (n + 34) cfgGo (.mk [.clo "f" entryObjQ env, .fn "map" ["f"] mapBody true]) mapBody { v := v, id := id })
      (mapVal entryObj v) :=
    eval_mapBody (n + 26) env entryObjQ [.fn "map" ["f"] mapBody true] v id entryObj
      (fun e i => eval_entryObjQ _ (by omega) env e i hhas)
  simp only [fromEntriesBody, eval_binop, Env.defs, List.foldl_nil, eval_term, evalTerm_succ, evalTermRev, List.reverse_nil,
    evalCore_succ, evalCall_map (n + 34) env _ _ hmap]
  simp only [mapVal, mapOpt_entryObj] at hm'
  simp only [fromEntries]
  cases hv : valuesOf v with
  | none =>
    simp only [hv] at hm'
    obtain ⟨e, he⟩ := hm'
    simp only [he, fail_bind]
    exact ⟨e, rfl⟩
  | some es =>
    simp only [hv] at hm' ⊢
    cases hl : fromEntryList es with
    | none =>
      simp only [hl, Option.map_none] at hm'
      obtain ⟨e, he⟩ := hm'
      simp only [he, fail_bind, Option.map_none]
      exact ⟨e, rfl⟩
    | some kvs =>
      simp only [hl, Option.map_some] at hm'
      obtain ⟨i, hi⟩ := hm'
      have hadd' : evalCall (n + 35) cfgGo env "add" [] { v := .arr (kvs.map fun kv => JV.obj [kv]), id := i } =
          .one { v := if kvs.isEmpty then .null else addPairs kvs,
                 id := resultIdent [.arr (kvs.map fun kv => JV.obj [kv])] (if kvs.isEmpty then .null else addPairs kvs) } := by
        rw [evalCall_add (n + 35) (by omega) env _ hadd]
        simp only [funcAdd_pairs, nativeRes, resultOf]
      simp only [hi, one_bind_mk, hadd', Option.map_some]
      cases kvs with
      | nil =>
        simp only [Res.one, List.isEmpty_nil, if_true, isFalsy, Bool.not_true, List.filter, evalObject_succ]
        exact ⟨_, rfl⟩
      | cons kv kvs =>
        simp only [Res.one, List.isEmpty_cons, Bool.false_eq_true, if_false, addPairs, isFalsy, Bool.not_false, List.filter]
        exact ⟨_, rfl⟩


theorem runs_bind {r : Res} {o : Option JV} {f : St → Res} {g : JV → Option JV} (hr : Runs r o)
    (hf : ∀ w i, Runs (f { v := w, id := i }) (g w)) : Runs (r.bind f) (o.bind g) := by
  cases o with
  | none =>
    obtain ⟨e, he⟩ := hr
    rw [he, fail_bind]
    exact ⟨e, rfl⟩
  | some w =>
    obtain ⟨i, hi⟩ := hr
    rw [hi, one_bind_mk]
    exact hf w i

theorem runs_agrees {r : Res} {o : Option JV} (h : Runs r o) : Agrees r o := by
  cases o with
  | none => obtain ⟨e, he⟩ := h; rw [he]; exact ⟨rfl, e, rfl⟩
  | some w => obtain ⟨i, hi⟩ := h; rw [hi]; exact ⟨rfl, rfl⟩

/-- a call of `to_entries` (not shadowed) -/
theorem runs_call_to_entries (m : Nat) (hm : 37 ≤ m) (env : Env) (v : JV) (id : Ident)
    (h : lookupCall "to_entries" 0 env.bs = .none) :
    Runs (evalCall m cfgGo env "to_entries" [] { v := v, id := id }) (toEntries v) := by
  obtain ⟨n, rfl⟩ : ∃ n, m = n + 37 := ⟨m - 37, by omega⟩
  rw [evalCall_to_entries (n + 35) env _ h]
  cases hk : keysOf v with
  | some ks =>
    obtain ⟨es, he⟩ := entriesOf_total v ks hk
    rw [eval_toEntriesBody (n + 35) (by omega) _ v id ks es rfl hk he]
    simp only [toEntries, hk, he, Option.map_some]
    exact ⟨_, rfl⟩
  | none =>
    rw [eval_toEntriesBody_error (n + 35) (by omega) _ v id rfl hk]
    simp only [toEntries, hk]
    exact ⟨_, rfl⟩

/-- a call of the jq-defined builtin `from_entries` (not shadowed) runs its body in the builtin environment -/
theorem evalCall_from_entries (n : Nat) (env : Env) (s : St) (h : lookupCall "from_entries" 0 env.bs = .none) :
    evalCall (n + 2) cfgGo env "from_entries" [] s =
      eval n cfgGo (.mk [.fn "from_entries" [] fromEntriesBody true]) fromEntriesBody s := by
  have hsw : "from_entries".startsWith "$" = false := by decide +kernel
  simp only [evalCall_succ, List.length_nil, h, hsw, Bool.false_eq_true, if_false, find_from_entries, callDef_succ,
    FuncDef.name, FuncDef.params, FuncDef.body, List.zip_nil_right, List.filter_nil, List.foldl_nil, bindValsK]
  rfl

theorem runs_call_from_entries (m : Nat) (hm : 42 ≤ m) (env : Env) (v : JV) (id : Ident)
    (h : lookupCall "from_entries" 0 env.bs = .none) :
    Runs (evalCall m cfgGo env "from_entries" [] { v := v, id := id }) (fromEntries v) := by
  obtain ⟨n, rfl⟩ : ∃ n, m = n + 42 := ⟨m - 42, by omega⟩
  rw [evalCall_from_entries (n + 40) env _ h]
  exact eval_fromEntriesBody (n + 40) (by omega) _ v id rfl rfl rfl

/-- **`fromEntries` IS the shipped `from_entries`, on every value** (errors included): `Spec.eval` of the
    regenerated definition, any fuel from 45 on, any environment that does not shadow it. -/
theorem eval_from_entries (m : Nat) (hm : 45 ≤ m) (env : Env) (v : JV) (id : Ident)
    (h : lookupCall "from_entries" 0 env.bs = .none) :
    Agrees (eval m cfgGo env qFromEntries { v := v, id := id }) (fromEntries v) := by
  obtain ⟨n, rfl⟩ : ∃ n, m = n + 45 := ⟨m - 45, by omega⟩
  simp only [qFromEntries, eval_term, Env.defs, List.foldl_nil, evalTerm_succ, evalTermRev, List.reverse_nil, evalCore_succ]
  exact runs_agrees (runs_call_from_entries (n + 42) (by omega) env v id h)

/-- **`to_entries | from_entries` through the shipped definitions is `toEntries` then `fromEntries`** -/
theorem eval_to_from (m : Nat) (hm : 46 ≤ m) (env : Env) (v : JV) (id : Ident)
    (h1 : lookupCall "to_entries" 0 env.bs = .none) (h2 : lookupCall "from_entries" 0 env.bs = .none) :
    Agrees (eval m cfgGo env qToFrom { v := v, id := id }) ((toEntries v).bind fromEntries) := by
  obtain ⟨n, rfl⟩ : ∃ n, m = n + 46 := ⟨m - 46, by omega⟩
  simp only [qToFrom, eval_binop, Env.defs, List.foldl_nil, eval_term, evalTerm_succ, evalTermRev, List.reverse_nil, evalCore_succ]
  exact runs_agrees (runs_bind (runs_call_to_entries (n + 42) (by omega) env v id h1)
    (fun w i => runs_call_from_entries (n + 42) (by omega) env w i h2))


/-! ### `with_entries(.)` -/

/-- `f` (a call of the filter parameter) -/
def callF : Query := (Query.term [] (Term.mk (TermCore.func "f" []) []))

/-- the body of `with_entries(f)` as the real parser dumps it: `to_entries | map(f) | from_entries` -/
def withEntriesBody : Query := (Query.binop [] Op.pipe (Query.term [] (Term.mk (TermCore.func "to_entries" []) [])) (Query.binop [] Op.pipe (Query.term [] (Term.mk (TermCore.func "map" [callF]) [])) (Query.term [] (Term.mk (TermCore.func "from_entries" []) []))))

theorem shipped_with_entries : Generated.Builtins.go_with_uentries_a01 = .mk "with_entries" ["f"] withEntriesBody := rfl

theorem find_with_entries : cfgGo.builtins.find "with_entries" 1 = some (.mk "with_entries" ["f"] withEntriesBody) := by
  rw [← shipped_with_entries]; rfl

theorem evalCall_with_entries (n : Nat) (env : Env) (fq : Query) (s : St) (h : lookupCall "with_entries" 1 env.bs = .none) :
    evalCall (n + 2) cfgGo env "with_entries" [fq] s =
      eval n cfgGo (.mk [.clo "f" fq env, .fn "with_entries" ["f"] withEntriesBody true]) withEntriesBody s := by
  have hsw : "with_entries".startsWith "$" = false := by decide +kernel
  have hf : "f".startsWith "$" = false := by decide +kernel
  simp only [evalCall_succ, List.length_cons, List.length_nil, Nat.zero_add, h, hsw, Bool.false_eq_true, if_false,
    find_with_entries, callDef_succ, FuncDef.name, FuncDef.params, FuncDef.body, List.zip_cons_cons, List.zip_nil_right,
    List.foldl_cons, List.foldl_nil, List.filter_cons, List.filter_nil, hf, bindValsK]
  rfl

theorem mapVal_some (w : JV) : (mapVal some w).bind fromEntries =
    match w with
    | .arr es => (mapOpt some es).bind fun es' => fromEntries (.arr es')
    | .obj kvs => fromEntries (.arr (kvs.map (·.2)))
    | _ => none := by
  cases w with
  | arr es => simp only [mapVal, valuesOf]; cases mapOpt some es <;> rfl
  | obj kvs => simp only [mapVal, valuesOf, mapOpt_some]; rfl
  | null => rfl
  | bool _ => rfl
  | num _ => rfl
  | str _ => rfl

theorem toEntries_arr (v w : JV) (h : toEntries v = some w) : ∃ es, w = .arr es := by
  simp only [toEntries] at h
  split at h
  · cases h
  · simp only [Option.map_eq_some_iff] at h
    obtain ⟨es, _, rfl⟩ := h
    exact ⟨es, rfl⟩

/-- **`withEntries some` IS the shipped `with_entries(.)`, on every value** -/
theorem eval_with_entries_id (m : Nat) (hm : 60 ≤ m) (env : Env) (v : JV) (id : Ident)
    (h : lookupCall "with_entries" 1 env.bs = .none) :
    Agrees (eval m cfgGo env qWithEntriesId { v := v, id := id }) (withEntries some v) := by
  obtain ⟨n, rfl⟩ : ∃ n, m = n + 60 := ⟨m - 60, by omega⟩
  simp only [qWithEntriesId, eval_term, Env.defs, List.foldl_nil, evalTerm_succ, evalTermRev, List.reverse_nil, evalCore_succ,
    evalCall_with_entries (n + 55) env _ _ h]
  simp only [withEntriesBody, eval_binop, Env.defs, List.foldl_nil, eval_term, evalTerm_succ, evalTermRev, List.reverse_nil,
    evalCore_succ]
  have hmap : ∀ w i, Runs (evalCall (n + 50) cfgGo
      (.mk [.clo "f" (Query.term [] (Term.mk TermCore.identity [])) env, .fn "with_entries" ["f"] withEntriesBody true])
      "map" [callF] { v := w, id := i }) (mapVal some w) := by
    intro w i
    rw [evalCall_map (n + 48) _ _ _ rfl]
    apply eval_mapBody (n + 40)
    intro e j
    simp only [callF, eval_term, Env.defs, List.foldl_nil, evalTerm_succ, evalTermRev, List.reverse_nil, evalCore_succ,
      evalCall_succ, List.length_nil, Env.bs, lookupCall, beq_self_eq_true, Bool.and_self, if_true]
    exact ⟨j, rfl⟩
  have h1 := runs_call_to_entries (n + 51) (by omega)
      (.mk [.clo "f" (Query.term [] (Term.mk TermCore.identity [])) env, .fn "with_entries" ["f"] withEntriesBody true]) v id rfl
  have h2 : ∀ w i, Runs ((evalCall (n + 50) cfgGo
      (.mk [.clo "f" (Query.term [] (Term.mk TermCore.identity [])) env, .fn "with_entries" ["f"] withEntriesBody true])
      "map" [callF] { v := w, id := i }).bind fun y => evalCall (n + 50) cfgGo
      (.mk [.clo "f" (Query.term [] (Term.mk TermCore.identity [])) env, .fn "with_entries" ["f"] withEntriesBody true])
      "from_entries" [] y) ((mapVal some w).bind fromEntries) :=
    fun w i => runs_bind (g := fromEntries) (hmap w i) (fun w' i' => runs_call_from_entries (n + 50) (by omega) _ w' i' rfl)
  have hall := runs_bind (f := fun x => (evalCall (n + 50) cfgGo
      (.mk [.clo "f" (Query.term [] (Term.mk TermCore.identity [])) env, .fn "with_entries" ["f"] withEntriesBody true])
      "map" [callF] x).bind fun y => evalCall (n + 50) cfgGo
      (.mk [.clo "f" (Query.term [] (Term.mk TermCore.identity [])) env, .fn "with_entries" ["f"] withEntriesBody true])
      "from_entries" [] y) (g := fun w => (mapVal some w).bind fromEntries) h1 h2
  have hval : ((toEntries v).bind fun w => (mapVal some w).bind fromEntries) = withEntries some v := by
    simp only [withEntries]
    cases ht : toEntries v with
    | none => rfl
    | some w =>
      obtain ⟨es, rfl⟩ := toEntries_arr v w ht
      simp only [Option.bind_some, mapVal_some]
  rw [← hval]
  exact runs_agrees hall

end Gojq.Pairs

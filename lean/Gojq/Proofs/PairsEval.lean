/-
  Helper lemmas for Props/C13Pairs.lean, part 7: the UNIVERSAL tie of `to_entries`, `from_entries`
  and `with_entries(.)` to the shipped definitions — `Spec.eval` of the regenerated ASTs of
  builtin.jq (Generated/BuiltinDefs.lean), by symbolic evaluation with the unfolding lemmas of
  Proofs/SpecPathUnfold.lean, for EVERY input value, every sufficient fuel and every calling
  environment that does not shadow the builtins.  `shipped_…` lemmas (`rfl`) state that the
  regenerated definition is the body evaluated here: an edit of builtin.jq breaks them.
-/
import Gojq.Proofs.SpecPathUnfold
import Gojq.Proofs.SpecLaws
import Gojq.Proofs.PairsTie
import Gojq.Proofs.PairsEntries
namespace Gojq.Pairs
open Gojq Gojq.Spec Gojq.Pairs.Tie

/-- `{key: $k, value: .[$k]}` -/
def entryBody : Query := (Query.term [] (Term.mk (TermCore.object [(ObjKV.mk (ObjKey.name (B "key")) (some (Query.term [] (Term.mk (TermCore.func "$k" []) [])))), (ObjKV.mk (ObjKey.name (B "value")) (some (Query.term [] (Term.mk (TermCore.index (Index.at (Query.term [] (Term.mk (TermCore.func "$k" []) [])))) []))))]) []))

theorem one_bind_mk (v : JV) (id : Ident) (ctx : Option PCtx) (f : St → Res) :
    (Res.one { v := v, id := id, ctx := ctx }).bind f = f { v := v, id := id, ctx := ctx } := by
  rw [one_bind_wrap]; rfl

theorem fail_bind (e : Err) (f : St → Res) : (Res.fail e).bind f = .fail e := rfl

/-- `{key: $k, value: .[$k]}` with `$k` bound to `k`, on ANY input `v` on which `.[$k]` is defined -/
theorem eval_entryBody (m : Nat) (hm : 16 ≤ m) (bs : List Binding) (k : JV) (kid : Ident) (v w : JV) (id : Ident)
    (hw : funcIndex2 v k = .ok w) :
    eval m cfgGo (.mk (.var "$k" k kid :: bs)) entryBody { v := v, id := id } =
      .one { v := entry k w, id := .fresh } := by
  obtain ⟨n, rfl⟩ : ∃ n, m = n + 16 := ⟨m - 16, by omega⟩
  simp only [entryBody, eval_term, evalTerm_succ, evalTermRev, List.reverse_nil, evalCore_succ, evalObject_succ,
    objKeyRes, objValRes, Env.defs, List.foldl_nil]
  simp only [computed, one_bind_mk, evalCall_succ, Env.bs, lookupCall, List.length_nil, beq_self_eq_true,
    Bool.and_self, if_true, evalIndex_succ, eval_term, Env.defs, List.foldl_nil, evalTerm_succ, evalTermRev, List.reverse_nil,
    evalCore_succ, withCtx, navStep, hw, navigated]
  have hc : Bytes.cmp [118, 97, 108, 117, 101] [107, 101, 121] = .gt := by decide
  simp only [List.nil_append, List.cons_append, List.reverse_cons, List.reverse_nil, List.find?, List.filterMap,
    JV.mkObj, List.foldl, kvInsert, B_key, B_value, entry, hc]


theorem bindList_ones (f : St → Res) (g : St → St) : ∀ xs : List St, (∀ x ∈ xs, x.pend = false ∧ f x = .one (g x)) →
    Res.bindList f .done xs = ⟨xs.map g, .done⟩
  | [], _ => rfl
  | x :: xs, h => by
    have hx := h x (by simp)
    rw [bindList_cons_nopend f .done x xs hx.1, hx.2, bindList_ones f g xs (fun y hy => h y (by simp [hy]))]
    rfl

theorem iterItems_vals (v : JV) (xs : List JV) (hv : valuesOf v = some xs) :
    ∃ items, iterItems v = some items ∧ items.map (·.2) = xs := by
  cases v with
  | arr ys =>
    simp only [valuesOf, Option.some.injEq] at hv; subst hv
    refine ⟨_, rfl, ?_⟩
    simp only [List.map_map]
    have : (Prod.snd ∘ fun (x : Nat × JV) => (jvInt (x.1 : Nat), x.2)) = Prod.snd := by funext a; rfl
    rw [this]
    exact List.map_snd_zip (by simp)
  | obj kvs =>
    simp only [valuesOf, Option.some.injEq] at hv; subst hv
    refine ⟨_, rfl, ?_⟩
    simp only [List.map_map]
    apply List.map_congr_left; intro a _; rfl
  | null => simp [valuesOf] at hv
  | bool _ => simp [valuesOf] at hv
  | num _ => simp [valuesOf] at hv
  | str _ => simp [valuesOf] at hv

/-- `.[]` without path tracking: the children in order, no `pend` flag, no tracking context -/
theorem iterate_vals (v : JV) (id : Ident) (xs : List JV) (hv : valuesOf v = some xs) :
    ∃ sts : List St, iterate { v := v, id := id } = ⟨sts, .done⟩ ∧ sts.map (·.v) = xs ∧
      ∀ st ∈ sts, st.pend = false ∧ st.ctx = none := by
  obtain ⟨items, hi, hx⟩ := iterItems_vals v xs hv
  refine ⟨items.map fun kw => { v := kw.2, id := childIdent id kw.1, ctx := none }, ?_, ?_, ?_⟩
  · simp only [iterate, hi]
  · rw [← hx, List.map_map]; rfl
  · intro st hst
    obtain ⟨kw, _, rfl⟩ := List.mem_map.mp hst
    exact ⟨rfl, rfl⟩


/-! ### natives called without path tracking -/

theorem find_keys : cfgGo.builtins.find "keys" 0 = none := by rfl

/-- `keys` where the name is not shadowed -/
theorem evalCall_keys (m : Nat) (hm : 1 ≤ m) (env : Env) (s : St) (h : lookupCall "keys" 0 env.bs = .none) :
    evalCall m cfgGo env "keys" [] s = nativeRes s "keys" (some (funcKeys s.v)) [s.v] := by
  obtain ⟨n, rfl⟩ : ∃ n, m = n + 1 := ⟨m - 1, by omega⟩
  have hsw : "keys".startsWith "$" = false := by decide +kernel
  simp only [evalCall_succ, List.length_nil, h, hsw, Bool.false_eq_true, if_false, find_keys]
  rfl

/-- `keys[]` on a value that has keys -/
theorem eval_keys_iter (m : Nat) (hm : 5 ≤ m) (env : Env) (v : JV) (id : Ident) (ks : List JV)
    (h : lookupCall "keys" 0 env.bs = .none) (hk : keysOf v = some ks) :
    ∃ sts : List St, eval m cfgGo env (Query.term [] (Term.mk (TermCore.func "keys" []) [Suffix.iter])) { v := v, id := id } =
        ⟨sts, .done⟩ ∧ sts.map (·.v) = ks ∧ ∀ st ∈ sts, st.pend = false ∧ st.ctx = none := by
  obtain ⟨n, rfl⟩ : ∃ n, m = n + 5 := ⟨m - 5, by omega⟩
  obtain ⟨sts, h1, h2, h3⟩ := iterate_vals (.arr ks) (resultIdent [v] (.arr ks)) ks rfl
  refine ⟨sts, ?_, h2, h3⟩
  simp only [eval_term, Env.defs, List.foldl_nil, evalTerm_succ, evalTermRev, List.reverse_cons, List.reverse_nil,
    List.nil_append, evalCore_succ, evalCall_keys (n + 1) (by omega) env _ h, funcKeys, hk, pure, Except.pure, nativeRes, resultOf,
    one_bind_mk, h1]

/-- the body of `to_entries` as the real parser dumps it: `[keys[] as $k | {key: $k, value: .[$k]}]` -/
def toEntriesBody : Query := (Query.term [] (Term.mk (TermCore.array (some (Query.bind [] (Query.term [] (Term.mk (TermCore.func "keys" []) [Suffix.iter])) [(Pattern.var "$k")] entryBody))) []))

theorem entriesOf_map (v : JV) : ∀ (ks es : List JV), entriesOf v ks = some es →
    ∀ k ∈ ks, ∃ w, funcIndex2 v k = .ok w
  | [], _, _, k, hk => by cases hk
  | k0 :: ks, es, h, k, hk => by
    simp only [entriesOf] at h
    split at h
    · rename_i w es' hw hes
      rcases List.mem_cons.mp hk with rfl | hk
      · exact ⟨w, hw⟩
      · exact entriesOf_map v ks es' hes k hk
    · cases h

/-- what `{key: $k, value: .[$k]}` makes of one key -/
def entryOf (v k : JV) : JV :=
  match funcIndex2 v k with
  | .ok w => entry k w
  | .error _ => .null

theorem entriesOf_eq (v : JV) : ∀ (ks es : List JV), entriesOf v ks = some es → es = ks.map (entryOf v)
  | [], es, h => by simp only [entriesOf, Option.some.injEq] at h; simp [← h]
  | k0 :: ks, es, h => by
    simp only [entriesOf] at h
    split at h
    · rename_i w es' hw hes
      simp only [Option.some.injEq] at h
      rw [← h, entriesOf_eq v ks es' hes]
      simp [entryOf, hw]
    · cases h

theorem eval_toEntriesBody (m : Nat) (hm : 30 ≤ m) (env : Env) (v : JV) (id : Ident) (ks es : List JV)
    (h : lookupCall "keys" 0 env.bs = .none) (hk : keysOf v = some ks) (he : entriesOf v ks = some es) :
    eval m cfgGo env toEntriesBody { v := v, id := id } = .one { v := .arr es, id := .fresh } := by
  obtain ⟨n, rfl⟩ : ∃ n, m = n + 30 := ⟨m - 30, by omega⟩
  obtain ⟨sts, h1, h2, h3⟩ := eval_keys_iter (n + 26) (by omega) env v id ks h hk
  have hbody : ∀ st ∈ sts, st.pend = false ∧
      evalAlts (n + 26) cfgGo env [Pattern.var "$k"] [Pattern.var "$k"] st.v st.id entryBody { v := v, id := id } =
        .one { v := entryOf v st.v, id := .fresh } := by
    intro st hst
    refine ⟨(h3 st hst).1, ?_⟩
    have hmem : st.v ∈ ks := by rw [← h2]; exact List.mem_map_of_mem hst
    obtain ⟨w, hw⟩ := entriesOf_map v ks es he st.v hmem
    have hb := eval_entryBody (n + 25) (by omega) env.bs st.v st.id v w id hw
    simp only [evalAlts_one, List.length_cons, List.length_nil, altAttempt, bindPattern_succ, PatRes.ok, forEnvs,
      List.foldl_cons, List.foldl_nil, Env.push]
    simp only [Nat.lt_irrefl, if_false, gt_iff_lt, Nat.reduceAdd, hb, entryOf, hw]
    rfl
  simp only [toEntriesBody, eval_term, Env.defs, List.foldl_nil, evalTerm_succ, evalTermRev, List.reverse_nil, evalCore_succ,
    eval_bind, withCtx, h1, Res.bind, bindList_ones _ _ sts hbody, computed]
  rw [entriesOf_eq v ks es he, ← h2]
  simp [Res.one, List.map_map]


/-- the SHIPPED definition (regenerated from builtin.go) is this body -/
theorem shipped_to_entries : Generated.Builtins.go_to_uentries_a00 = .mk "to_entries" [] toEntriesBody := rfl

theorem find_to_entries : cfgGo.builtins.find "to_entries" 0 = some (.mk "to_entries" [] toEntriesBody) := by
  rw [← shipped_to_entries]; rfl

/-- a call of the jq-defined builtin `to_entries` (not shadowed) runs its body in the builtin environment -/
theorem evalCall_to_entries (n : Nat) (env : Env) (s : St) (h : lookupCall "to_entries" 0 env.bs = .none) :
    evalCall (n + 2) cfgGo env "to_entries" [] s =
      eval n cfgGo (.mk [.fn "to_entries" [] toEntriesBody true]) toEntriesBody s := by
  have hsw : "to_entries".startsWith "$" = false := by decide +kernel
  simp only [evalCall_succ, List.length_nil, h, hsw, Bool.false_eq_true, if_false, find_to_entries, callDef_succ,
    FuncDef.name, FuncDef.params, FuncDef.body, List.zip_nil_right, List.filter_nil, List.foldl_nil, bindValsK]
  rfl

theorem eval_toEntriesBody_error (m : Nat) (hm : 10 ≤ m) (env : Env) (v : JV) (id : Ident)
    (h : lookupCall "keys" 0 env.bs = .none) (hk : keysOf v = none) :
    eval m cfgGo env toEntriesBody { v := v, id := id } = .fail (errFunc0 "keys" v) := by
  obtain ⟨n, rfl⟩ : ∃ n, m = n + 10 := ⟨m - 10, by omega⟩
  simp only [toEntriesBody, eval_term, Env.defs, List.foldl_nil, evalTerm_succ, evalTermRev, List.reverse_nil, evalCore_succ,
    eval_bind, withCtx, List.reverse_cons, List.nil_append, evalCall_keys (n + 2) (by omega) env _ h, funcKeys, hk,
    nativeRes, throw, throwThe, MonadExceptOf.throw]
  rfl

theorem entriesOf_total (v : JV) (ks : List JV) (hk : keysOf v = some ks) : ∃ es, entriesOf v ks = some es := by
  have key : ∀ l : List JV, (∀ k ∈ l, ∃ w, funcIndex2 v k = .ok w) → ∃ es, entriesOf v l = some es := by
    intro l
    induction l with
    | nil => intro _; exact ⟨[], rfl⟩
    | cons k l ih =>
      intro h
      obtain ⟨w, hw⟩ := h k (by simp)
      obtain ⟨es, hes⟩ := ih (fun k' hk' => h k' (by simp [hk']))
      exact ⟨entry k w :: es, by simp [entriesOf, hw, hes]⟩
  apply key
  intro k hkm
  cases v with
  | arr xs =>
    simp only [keysOf, Option.some.injEq] at hk; subst hk
    obtain ⟨i, _, rfl⟩ := List.mem_map.mp hkm
    exact ⟨_, rfl⟩
  | obj kvs =>
    simp only [keysOf, Option.some.injEq] at hk; subst hk
    obtain ⟨kv, _, rfl⟩ := List.mem_map.mp hkm
    exact ⟨_, rfl⟩
  | null => simp [keysOf] at hk
  | bool _ => simp [keysOf] at hk
  | num _ => simp [keysOf] at hk
  | str _ => simp [keysOf] at hk

/-- does a result agree with a value-level function's answer (`none` = a jq error, nothing emitted) -/
def Agrees (r : Res) (o : Option JV) : Prop :=
  match o with
  | some w => r.outs.map (·.v) = [w] ∧ r.stop = .done
  | none => r.outs = [] ∧ ∃ e, r.stop = .err e

/-- **`toEntries` IS the shipped `to_entries`, on every value**: evaluated by `Spec.eval` from the
    regenerated definition, with any fuel from 40 on, in any environment that does not shadow it. -/
theorem eval_to_entries (m : Nat) (hm : 40 ≤ m) (env : Env) (v : JV) (id : Ident)
    (h : lookupCall "to_entries" 0 env.bs = .none) :
    Agrees (eval m cfgGo env qToEntries { v := v, id := id }) (toEntries v) := by
  obtain ⟨n, rfl⟩ : ∃ n, m = n + 40 := ⟨m - 40, by omega⟩
  have hcall : eval (n + 40) cfgGo env qToEntries { v := v, id := id } =
      eval (n + 35) cfgGo (.mk [.fn "to_entries" [] toEntriesBody true]) toEntriesBody { v := v, id := id } := by
    simp only [qToEntries, eval_term, Env.defs, List.foldl_nil, evalTerm_succ, evalTermRev, List.reverse_nil, evalCore_succ]
    rw [evalCall_to_entries (n + 35) env _ h]
  rw [hcall]
  cases hk : keysOf v with
  | some ks =>
    obtain ⟨es, he⟩ := entriesOf_total v ks hk
    rw [eval_toEntriesBody (n + 35) (by omega) _ v id ks es rfl hk he]
    simp [toEntries, hk, he, Agrees, Res.one]
  | none =>
    rw [eval_toEntriesBody_error (n + 35) (by omega) _ v id rfl hk]
    simp [toEntries, hk, Agrees, Res.fail]

end Gojq.Pairs

/-
  The bridge between C08's bytecode checker (Model/SafeVM.lean, Proofs/SafeVMInv.lean) and the
  run-time guard of C07's "after an error" theorems (Model/LabelShape.lean): the dynamic invariant
  `SafeVM.Inv` that an accepted annotation induces implies `labelGuard`.  In normal mode at an
  `opforklabel` the annotation `a` satisfies `1 ≤ a.h ∨ a.pend` (`step1`); `a.h` entries are owned by
  the current activation, so the data stack is not empty; `a.pend` means a fork is pending.
  Depends only on the DEFINITION of `Inv` / `Checked` (not on the preservation proofs).
-/
import Gojq.Proofs.SafeVMInv
import Gojq.Model.LabelShape
import Gojq.Proofs.VMAfterErrorNext
set_option linter.unusedSimpArgs false
set_option linter.unusedVariables false
namespace Gojq.VM
open Gojq Gojq.SafeVM

theorem labelGuard_of_safe_inv {S : SC} (C : Checked S) (code : Array Instr) (hcode : S.code = code.map shape)
    {l : L} {e : Env} (hI : SafeVM.Inv S l e) : labelGuard code l e = true := by
  unfold labelGuard
  cases hlp : isLabelPc code l.pc with
  | false => simp
  | true =>
    cases hbt : l.backtrack with
    | true => simp
    | false =>
      cases hfe : e.forks.isEmpty with
      | false => simp
      | true =>
        simp only [Bool.not_false, Bool.and_self, Bool.not_true, Bool.false_or, decide_eq_true_eq]
        -- the instruction is an `opforklabel`
        unfold isLabelPc at hlp
        simp only [Bool.and_eq_true, decide_eq_true_eq] at hlp
        obtain ⟨h0, hl⟩ := hlp
        cases hc : code[l.pc.toNat]? with
        | none => rw [hc] at hl; simp at hl
        | some i =>
          rw [hc] at hl
          simp only at hl
          cases i <;> simp [VM.isLabel] at hl
          rename_i la lb
          have hcA : codeAt S l.pc = some (.forklabel la lb) := by
            unfold codeAt
            simp only [h0, if_true, hcode, Array.getElem?_map, hc, Option.map_some]
            rfl
          obtain ⟨A, hV, _, _, _, hmode⟩ := hI
          simp only [hbt, Bool.false_eq_true, if_false] at hmode
          obtain ⟨_, a, ins, hann, hci, hpend, hconf⟩ := hmode
          rw [hcA] at hci
          have : ins = .forklabel la lb := by simpa using hci.symm
          subst this
          simp only [SafeVM.isScope, Bool.false_eq_true, if_false] at hconf
          obtain ⟨_, succs, hs, _, _⟩ := C.step l.pc a _ hann hcA
          simp only [step1] at hs
          split at hs
          · rename_i hcond
            rcases hcond.1 with h1 | hp
            · -- the activation owns an entry
              obtain ⟨_, _, hlen⟩ := hconf
              cases hstk : A.stk with
              | nil => rw [hstk] at hlen; simp at hlen; omega
              | cons p r =>
                obtain ⟨i, v⟩ := p
                have := hV.stack
                rw [hstk] at this
                obtain ⟨hi, hi0⟩ := this.index_cons
                rw [hi]; exact hi0
            · -- a fork is pending
              exfalso
              have hne := hpend hp
              have hpcs := hV.pcs
              have : e.forks = [] := by simpa using hfe
              rw [this] at hpcs
              simp at hpcs
              exact hne (by simpa using hpcs.symm)
          · simp at hs

/-- … so if the checker's invariant holds at every turn of a run (the first turn of each call and every
    turn that follows a turn: what the soundness theorem of `safeCheck` establishes from `execute`'s
    initial state), the guard holds for any number of calls — and with it every "after an error"
    theorem of Props/C07AfterError.lean, with no run-time hypothesis left. -/
theorem historyGuard_of_safe_turns {S : SC} (C : Checked S) (P : Params) (hcode : S.code = P.code.map shape)
    (fuel : Nat) (s0 : St) (hall : ∀ l s, ReachTurn P fuel s0 l s → SafeVM.Inv S l s.env) (n : Nat) :
    historyGuard P fuel n s0 = true :=
  historyGuard_of_reach P fuel s0 (fun l s hr => labelGuard_of_safe_inv C P.code hcode (hall l s hr)) n

end Gojq.VM

/-
  Helper lemmas for C16 `stream_rebuilds`: `fromstream` (Model/Cli/Stream.lean, a fold of
  `setpath`) applied to the `tostream` events of a document with duplicate-free objects
  rebuilds the document (objects in the library's canonical member order).

  The partially rebuilt value is described by a context: a list of frames from the root to
  the position being filled, each holding the already completed siblings.
-/
import Gojq.Model.Cli.Stream
import Gojq.Proofs.Stream
namespace Gojq.Stream
open Gojq

/-! ### association lists -/

theorem cmp_refl : ∀ a : Bytes, Bytes.cmp a a = .eq
  | [] => rfl
  | x :: xs => by simp [Bytes.cmp, UInt8.lt_irrefl, cmp_refl xs]

theorem cmp_eq : ∀ a b : Bytes, Bytes.cmp a b = .eq → a = b
  | [], [], _ => rfl
  | [], _ :: _, h => by simp [Bytes.cmp] at h
  | _ :: _, [], h => by simp [Bytes.cmp] at h
  | x :: xs, y :: ys, h => by
    simp only [Bytes.cmp] at h
    split at h
    · cases h
    · split at h
      · cases h
      · rename_i h1 h2
        have : x = y := UInt8.le_antisymm (UInt8.not_lt.mp h2) (UInt8.not_lt.mp h1)
        rw [this, cmp_eq xs ys h]

theorem kvLookup_insert_self (k : Bytes) (y : JV) : ∀ l, kvLookup k (kvInsert k y l) = some y
  | [] => by simp [kvInsert, kvLookup]
  | (k', v') :: rest => by
    simp only [kvInsert]
    cases h : Bytes.cmp k k' with
    | lt => simp [kvLookup]
    | eq => simp [kvLookup]
    | gt =>
      have hne : k ≠ k' := fun e => by rw [e, cmp_refl] at h; cases h
      simp [kvLookup, hne, kvLookup_insert_self k y rest]

theorem kvLookup_insert_ne (k k2 : Bytes) (y : JV) (hne : k2 ≠ k) : ∀ l, kvLookup k2 (kvInsert k y l) = kvLookup k2 l
  | [] => by simp [kvInsert, kvLookup, hne]
  | (k', v') :: rest => by
    simp only [kvInsert]
    cases h : Bytes.cmp k k' with
    | lt => simp [kvLookup, hne]
    | eq =>
      have : k = k' := cmp_eq _ _ h
      subst this
      simp [kvLookup, hne]
    | gt =>
      simp only [kvLookup]
      split
      · rfl
      · exact kvLookup_insert_ne k k2 y hne rest

theorem kvInsert_insert (k : Bytes) (y h : JV) : ∀ l, kvInsert k y (kvInsert k h l) = kvInsert k y l
  | [] => by simp [kvInsert, cmp_refl]
  | (k', v') :: rest => by
    simp only [kvInsert]
    cases hc : Bytes.cmp k k' with
    | lt => simp [kvInsert, cmp_refl]
    | eq => simp [kvInsert, cmp_refl]
    | gt => simp [kvInsert, hc, kvInsert_insert k y h rest]

theorem kvInsert_ne_nil (k : Bytes) (y : JV) : ∀ l, kvInsert k y l ≠ []
  | [] => by simp [kvInsert]
  | (k', v') :: rest => by
    simp only [kvInsert]
    cases Bytes.cmp k k' <;> simp

/-! ### arrays -/

theorem setAt_end (y : JV) : ∀ done : List JV, setAt done.length y done = done ++ [y]
  | [] => by simp [setAt]
  | x :: xs => by simp [setAt, setAt_end y xs]

theorem setAt_last (y h : JV) : ∀ done : List JV, setAt done.length y (done ++ [h]) = done ++ [y]
  | [] => by simp [setAt]
  | x :: xs => by simp [setAt, setAt_last y h xs]

theorem getD_end (done : List JV) (d : JV) : done.getD done.length d = d := by
  simp [List.getD_eq_getElem?_getD]

theorem getD_last (done : List JV) (h d : JV) : (done ++ [h]).getD done.length d = h := by
  simp [List.getD_eq_getElem?_getD]

/-! ### contexts -/

/-- one level of the partially rebuilt document: the completed siblings, and the position of
    the hole (the next index, or a key) -/
inductive Frame where
  | arr (done : List JV)
  | obj (done : List (Bytes × JV)) (k : Bytes)

def Frame.pe : Frame → JV
  | .arr done => idxJV done.length
  | .obj _ k => .str k

/-- the container of a frame with the hole empty (`none`) or filled; a container with no
    completed sibling and an empty hole does not exist yet -/
def fill : Frame → Option JV → Option JV
  | .arr [], none => none
  | .arr (d :: ds), none => some (.arr (d :: ds))
  | .arr done, some y => some (.arr (done ++ [y]))
  | .obj [] _, none => none
  | .obj (d :: ds) _, none => some (.obj (d :: ds))
  | .obj done k, some y => some (.obj (kvInsert k y done))

/-- the whole value, frames from the root inwards -/
def plug : List Frame → Option JV → Option JV
  | [], h => h
  | f :: C, h => fill f (plug C h)

def cpath (C : List Frame) : List JV := C.map Frame.pe

def Frame.ok : Frame → Prop
  | .arr _ => True
  | .obj done k => kvLookup k done = none

def CtxOK (C : List Frame) : Prop := ∀ f ∈ C, f.ok

theorem fill_some (f : Frame) (y : JV) : ∃ z, fill f (some y) = some z := by
  cases f with
  | arr done => cases done <;> exact ⟨_, rfl⟩
  | obj done k => cases done <;> exact ⟨_, rfl⟩

theorem plug_some : ∀ (C : List Frame) (y : JV), ∃ z, plug C (some y) = some z
  | [], y => ⟨y, rfl⟩
  | f :: C, y => by
    obtain ⟨z, hz⟩ := plug_some C y
    simp only [plug, hz]
    exact fill_some f z

theorem plug_append : ∀ (C : List Frame) (f : Frame) (h : Option JV), plug (C ++ [f]) h = plug C (fill f h)
  | [], f, h => rfl
  | g :: C, f, h => by simp [plug, plug_append C f h]

theorem fill_arr_none {L : List JV} (h : L ≠ []) : fill (.arr L) none = some (.arr L) := by
  cases L with
  | nil => exact absurd rfl h
  | cons d ds => rfl

theorem fill_obj_none {L : List (Bytes × JV)} (k : Bytes) (h : L ≠ []) : fill (.obj L k) none = some (.obj L) := by
  cases L with
  | nil => exact absurd rfl h
  | cons d ds => rfl

theorem fill_arr_some (done : List JV) (y : JV) : fill (.arr done) (some y) = some (.arr (done ++ [y])) := by
  cases done <;> rfl

theorem fill_obj_some (done : List (Bytes × JV)) (k : Bytes) (y : JV) :
    fill (.obj done k) (some y) = some (.obj (kvInsert k y done)) := by
  cases done <;> rfl

/-- `setpath` through one frame -/
theorem setpath_frame (f : Frame) (hf : f.ok) (inner : Option JV) (p : List JV) (x : JV) :
    setpath (f.pe :: p) x ((fill f inner).getD .null) =
      (setpath p x (inner.getD .null)).map (fun z => (fill f (some z)).getD .null) := by
  cases f with
  | arr done =>
    have hneg : ¬ ((done.length : Int) < 0) := by omega
    cases inner with
    | none =>
      cases done with
      | nil =>
        simp only [Frame.pe, idxJV, fill, Option.getD_none, setpath, List.length_nil]
        simp [setAt]
      | cons d ds =>
        simp only [Frame.pe, idxJV, fill, Option.getD_some, setpath, hneg, if_false, Int.toNat_natCast,
          getD_end, setAt_end, Option.getD_none]
    | some h =>
      simp only [Frame.pe, idxJV, fill_arr_some, Option.getD_some, setpath, hneg, if_false, Int.toNat_natCast,
        getD_last, setAt_last]
  | obj done k =>
    simp only [Frame.ok] at hf
    cases inner with
    | none =>
      cases done with
      | nil =>
        simp only [Frame.pe, fill, Option.getD_none, setpath]
        simp [kvInsert]
      | cons d ds =>
        simp only [Frame.pe, fill, Option.getD_some, setpath, hf, Option.getD_none]
    | some h =>
      simp only [Frame.pe, fill_obj_some, Option.getD_some, setpath, kvLookup_insert_self, kvInsert_insert]

/-- `setpath` through a whole context reaches the hole -/
theorem setpath_plug : ∀ (C : List Frame), CtxOK C → ∀ (h : Option JV) (q : List JV) (x : JV),
    setpath (cpath C ++ q) x ((plug C h).getD .null) =
      (setpath q x (h.getD .null)).map (fun y => (plug C (some y)).getD .null)
  | [], _, h, q, x => by simp [cpath, plug]
  | f :: C, hC, h, q, x => by
    have hf : f.ok := hC f (by simp)
    have hC' : CtxOK C := fun g hg => hC g (by simp [hg])
    have ih := setpath_plug C hC' h q x
    simp only [cpath, List.map_cons, List.cons_append, plug] at ih ⊢
    rw [setpath_frame f hf (plug C h) _ x, ih]
    cases hs : setpath q x (h.getD .null) with
    | none => rfl
    | some y =>
      obtain ⟨z, hz⟩ := plug_some C y
      simp [hz]

/-! ### the fold -/

theorem step_leaf (cur : JV) (rp : List JV) (x : JV) :
    fromstreamStep ⟨cur, false⟩ (leafEv rp x) = (setpath rp.reverse x cur).map fun v => ⟨v, rp.length == 0⟩ := by
  simp [fromstreamStep, leafEv, pathJV]

theorem step_close (cur : JV) (rp : List JV) :
    fromstreamStep ⟨cur, false⟩ (closeEv rp) = some ⟨cur, rp.length == 1⟩ := by
  simp [fromstreamStep, closeEv, pathJV]

theorem cpath_len (C : List Frame) : (cpath C).reverse.length = C.length := by simp [cpath]

theorem cpath_append (C : List Frame) (f : Frame) : (cpath (C ++ [f])).reverse = f.pe :: (cpath C).reverse := by
  simp [cpath]

theorem ctxOK_append {C : List Frame} {f : Frame} (hC : CtxOK C) (hf : f.ok) : CtxOK (C ++ [f]) := by
  intro g hg
  rcases List.mem_append.mp hg with h | h
  · exact hC g h
  · simp only [List.mem_singleton] at h; rw [h]; exact hf

/-- a leaf (scalar or empty container) written into the hole of a non-empty context -/
theorem build_leaf (x : JV) (C : List Frame) (hne : C ≠ []) (hC : CtxOK C) (rest acc : List JV) :
    fromstreamGo ⟨(plug C none).getD .null, false⟩ (leafEv (cpath C).reverse x :: rest) acc =
      fromstreamGo ⟨(plug C (some x)).getD .null, false⟩ rest acc := by
  have hs := setpath_plug C hC none [] x
  simp only [List.append_nil, setpath, Option.map_some] at hs
  have hlen : ((cpath C).reverse.length == 0) = false := by
    rw [cpath_len]; cases C with
    | nil => exact absurd rfl hne
    | cons _ _ => simp
  simp only [fromstreamGo, step_leaf, List.reverse_reverse, hs, Option.map_some, hlen]
  simp

def firstKey : List (Bytes × JV) → Bytes
  | [] => []
  | (k, _) :: _ => k

mutual
theorem build_value : ∀ (v : JV) (C : List Frame), C ≠ [] → CtxOK C → nodup v → ∀ (rest acc : List JV),
    fromstreamGo ⟨(plug C none).getD .null, false⟩ (spec (cpath C).reverse v ++ rest) acc =
      fromstreamGo ⟨(plug C (some (canon v))).getD .null, false⟩ rest acc
  | .null, C, hne, hC, _, rest, acc => by simpa [spec, canon] using build_leaf .null C hne hC rest acc
  | .bool b, C, hne, hC, _, rest, acc => by simpa [spec, canon] using build_leaf (.bool b) C hne hC rest acc
  | .num n, C, hne, hC, _, rest, acc => by simpa [spec, canon] using build_leaf (.num n) C hne hC rest acc
  | .str s, C, hne, hC, _, rest, acc => by simpa [spec, canon] using build_leaf (.str s) C hne hC rest acc
  | .arr [], C, hne, hC, _, rest, acc => by simpa [spec, canon, canonL] using build_leaf (.arr []) C hne hC rest acc
  | .obj [], C, hne, hC, _, rest, acc => by simpa [spec, canon, canonM] using build_leaf (.obj []) C hne hC rest acc
  | .arr (x :: xs), C, hne, hC, hv, rest, acc => by
    have h := build_list (x :: xs) (by simp) [] C hC (by simpa [nodup] using hv) rest acc
    have hemp : C.isEmpty = false := by cases C with
      | nil => exact absurd rfl hne
      | cons _ _ => rfl
    simp only [hemp, List.nil_append, List.length_nil, Bool.false_eq_true, if_false] at h
    have h0 : plug (C ++ [Frame.arr []]) none = plug C none := by rw [plug_append]; rfl
    rw [h0] at h
    simpa [spec, canon] using h
  | .obj ((k, x) :: kvs), C, hne, hC, hv, rest, acc => by
    have hv' : nodupM ((k, x) :: kvs) := by simpa [nodup] using hv
    have h := build_members ((k, x) :: kvs) (by simp) [] C hC hv' (by intro p _; rfl) rest acc
    have hemp : C.isEmpty = false := by cases C with
      | nil => exact absurd rfl hne
      | cons _ _ => rfl
    simp only [hemp, Bool.false_eq_true, if_false, firstKey] at h
    have h0 : plug (C ++ [Frame.obj [] k]) none = plug C none := by rw [plug_append]; rfl
    rw [h0] at h
    simpa [spec, canon] using h
/-- the elements of a non-empty array from index `done.length`, then its closing event; at the
    top level (`C = []`) the closing event emits the rebuilt array -/
theorem build_list : ∀ (l : List JV), l ≠ [] → ∀ (done : List JV) (C : List Frame), CtxOK C → nodupL l →
    ∀ (rest acc : List JV),
    fromstreamGo ⟨(plug (C ++ [.arr done]) none).getD .null, false⟩ (specL (cpath C).reverse done.length l ++ rest) acc =
      fromstreamGo ⟨(plug C (some (.arr (done ++ canonL l)))).getD .null, C.isEmpty⟩ rest
        (if C.isEmpty then (plug C (some (.arr (done ++ canonL l)))).getD .null :: acc else acc)
  | [], h, _, _, _, _, _, _ => absurd rfl h
  | [x], _, done, C, hC, hl, rest, acc => by
    have hx : nodup x := by simpa [nodupL] using hl
    have hC' : CtxOK (C ++ [.arr done]) := ctxOK_append hC trivial
    have h := build_value x (C ++ [.arr done]) (by simp) hC' hx (closeEv (idxJV done.length :: (cpath C).reverse) :: rest) acc
    rw [cpath_append] at h
    simp only [specL, List.append_assoc, List.singleton_append, Frame.pe] at h ⊢
    rw [h, plug_append, fill_arr_some]
    have hlen : ((idxJV done.length :: (cpath C).reverse).length == 1) = C.isEmpty := by
      simp only [List.length_cons, cpath_len]; cases C <;> simp
    simp only [fromstreamGo, step_close, hlen, canonL]
  | x :: y :: ys, _, done, C, hC, hl, rest, acc => by
    have hl' : nodup x ∧ nodupL (y :: ys) := by simpa [nodupL] using hl
    have hC' : CtxOK (C ++ [.arr done]) := ctxOK_append hC trivial
    have h := build_value x (C ++ [.arr done]) (by simp) hC' hl'.1
      (specL (cpath C).reverse (done.length + 1) (y :: ys) ++ rest) acc
    rw [cpath_append] at h
    simp only [specL, List.append_assoc, Frame.pe] at h ⊢
    rw [h, plug_append, fill_arr_some]
    have ih := build_list (y :: ys) (by simp) (done ++ [canon x]) C hC hl'.2 rest acc
    rw [plug_append, fill_arr_none (by simp)] at ih
    simp only [List.length_append, List.length_singleton] at ih
    rw [ih]
    simp [canonL, List.append_assoc]
/-- the members of a non-empty object, then its closing event -/
theorem build_members : ∀ (l : List (Bytes × JV)), l ≠ [] → ∀ (done : List (Bytes × JV)) (C : List Frame), CtxOK C →
    nodupM l → (∀ p ∈ l, kvLookup p.1 done = none) → ∀ (rest acc : List JV),
    fromstreamGo ⟨(plug (C ++ [.obj done (firstKey l)]) none).getD .null, false⟩ (specM (cpath C).reverse l ++ rest) acc =
      fromstreamGo ⟨(plug C (some (.obj (canonM done l)))).getD .null, C.isEmpty⟩ rest
        (if C.isEmpty then (plug C (some (.obj (canonM done l)))).getD .null :: acc else acc)
  | [], h, _, _, _, _, _, _, _ => absurd rfl h
  | [(k, x)], _, done, C, hC, hl, hk, rest, acc => by
    have hx : nodup x := by simp only [nodupM] at hl; exact hl.2.1
    have hf : (Frame.obj done k).ok := hk (k, x) (by simp)
    have hC' : CtxOK (C ++ [.obj done k]) := ctxOK_append hC hf
    have h := build_value x (C ++ [.obj done k]) (by simp) hC' hx (closeEv (.str k :: (cpath C).reverse) :: rest) acc
    rw [cpath_append] at h
    simp only [specM, List.append_assoc, List.singleton_append, Frame.pe, firstKey] at h ⊢
    rw [h, plug_append, fill_obj_some]
    have hlen : ((JV.str k :: (cpath C).reverse).length == 1) = C.isEmpty := by
      simp only [List.length_cons, cpath_len]; cases C <;> simp
    simp only [fromstreamGo, step_close, hlen, canonM]
  | (k, x) :: (k2, y) :: ys, _, done, C, hC, hl, hk, rest, acc => by
    simp only [nodupM] at hl
    obtain ⟨hk1, hx, hrest⟩ := hl
    have hf : (Frame.obj done k).ok := hk (k, x) (by simp)
    have hC' : CtxOK (C ++ [.obj done k]) := ctxOK_append hC hf
    have h := build_value x (C ++ [.obj done k]) (by simp) hC' hx
      (specM (cpath C).reverse ((k2, y) :: ys) ++ rest) acc
    rw [cpath_append] at h
    simp only [specM, List.append_assoc, Frame.pe, firstKey] at h ⊢
    rw [h, plug_append, fill_obj_some]
    have hk' : ∀ p ∈ (k2, y) :: ys, kvLookup p.1 (kvInsert k (canon x) done) = none := by
      intro p hp
      rw [kvLookup_insert_ne k p.1 _ (hk1 p hp)]
      exact hk p (by simp [hp])
    have ih := build_members ((k2, y) :: ys) (by simp) (kvInsert k (canon x) done) C hC
      (by simpa [nodupM] using hrest) hk' rest acc
    rw [plug_append, fill_obj_none _ (kvInsert_ne_nil _ _ _)] at ih
    rw [ih]
    simp [canonM]
end

/-! ### whole documents -/

theorem spec_ne_nil (rp : List JV) (v : JV) : spec rp v ≠ [] := by
  intro h
  have hl := spec_length v rp
  rw [h] at hl
  cases v with
  | arr xs => simp [ttokens, completed, List.countP_append] at hl
  | obj kvs => simp [ttokens, completed, List.countP_append] at hl
  | _ => simp [ttokens, completed] at hl

/-- a state from which a new document starts: after an emission, or the initial `null` -/
def Fresh (st : FS) : Prop := st.e = true ∨ st = ⟨.null, false⟩

theorem go_fresh {st : FS} (h : Fresh st) (ev : JV) (evs acc : List JV) :
    fromstreamGo st (ev :: evs) acc = fromstreamGo ⟨.null, false⟩ (ev :: evs) acc := by
  rcases h with h | h
  · simp [fromstreamGo, fromstreamStep, h]
  · rw [h]

theorem rebuild_leaf (x : JV) (rest acc : List JV) :
    fromstreamGo ⟨.null, false⟩ (leafEv [] x :: rest) acc = fromstreamGo ⟨x, true⟩ rest (x :: acc) := by
  simp [fromstreamGo, step_leaf, setpath]

/-- one top-level document -/
theorem rebuild_doc (v : JV) (hv : nodup v) (st : FS) (hst : Fresh st) (rest acc : List JV) :
    fromstreamGo st (streamSpec v ++ rest) acc = fromstreamGo ⟨canon v, true⟩ rest (canon v :: acc) := by
  have hne := spec_ne_nil [] v
  simp only [streamSpec]
  obtain ⟨e, es, hes⟩ : ∃ e es, spec [] v = e :: es := by
    cases h : spec [] v with
    | nil => exact absurd h hne
    | cons e es => exact ⟨e, es, rfl⟩
  have hreset : fromstreamGo st (spec [] v ++ rest) acc = fromstreamGo ⟨.null, false⟩ (spec [] v ++ rest) acc := by
    rw [hes]; exact go_fresh hst e _ acc
  rw [hreset]
  cases v with
  | null => simpa [spec, canon] using rebuild_leaf .null rest acc
  | bool b => simpa [spec, canon] using rebuild_leaf (.bool b) rest acc
  | num n => simpa [spec, canon] using rebuild_leaf (.num n) rest acc
  | str s => simpa [spec, canon] using rebuild_leaf (.str s) rest acc
  | arr xs =>
    cases xs with
    | nil => simpa [spec, canon, canonL] using rebuild_leaf (.arr []) rest acc
    | cons x xs =>
      have h := build_list (x :: xs) (by simp) [] [] (by intro f hf; cases hf) (by simpa [nodup] using hv) rest acc
      simpa [spec, canon, plug, fill, cpath] using h
  | obj kvs =>
    cases kvs with
    | nil => simpa [spec, canon, canonM] using rebuild_leaf (.obj []) rest acc
    | cons kx kvs =>
      obtain ⟨k, x⟩ := kx
      have h := build_members ((k, x) :: kvs) (by simp) [] [] (by intro f hf; cases hf) (by simpa [nodup] using hv)
        (by intro p _; rfl) rest acc
      simpa [spec, canon, plug, fill, cpath, firstKey] using h

theorem rebuild_docs : ∀ (vs : List JV), (∀ v ∈ vs, nodup v) → ∀ (st : FS), Fresh st → ∀ (acc : List JV),
    fromstreamGo st (streamSpecDocs vs) acc = .ok (acc.reverse ++ vs.map canon)
  | [], _, st, _, acc => by simp [streamSpecDocs, fromstreamGo]
  | v :: vs, hvs, st, hst, acc => by
    simp only [streamSpecDocs]
    rw [rebuild_doc v (hvs v (by simp)) st hst, rebuild_docs vs (fun w hw => hvs w (by simp [hw])) _ (Or.inl rfl)]
    simp

/-! ### canonical (well-formed) documents are their own canonical form and are duplicate-free -/

theorem cmp_cons_lt (x y : UInt8) (xs ys : Bytes) :
    Bytes.cmp (x :: xs) (y :: ys) = .lt ↔ (x < y ∨ (x = y ∧ Bytes.cmp xs ys = .lt)) := by
  simp only [Bytes.cmp]
  constructor
  · intro h
    split at h
    · rename_i h1; exact Or.inl h1
    · split at h
      · cases h
      · rename_i h1 h2
        exact Or.inr ⟨UInt8.le_antisymm (UInt8.not_lt.mp h2) (UInt8.not_lt.mp h1), h⟩
  · rintro (h | ⟨rfl, h⟩)
    · simp [h]
    · simp [UInt8.lt_irrefl, h]

theorem cmp_lt_trans : ∀ (a b c : Bytes), Bytes.cmp a b = .lt → Bytes.cmp b c = .lt → Bytes.cmp a c = .lt
  | [], [], _, h, _ => by simp [Bytes.cmp] at h
  | [], _ :: _, [], _, h => by simp [Bytes.cmp] at h
  | [], _ :: _, _ :: _, _, _ => by simp [Bytes.cmp]
  | _ :: _, [], _, h, _ => by simp [Bytes.cmp] at h
  | _ :: _, _ :: _, [], _, h => by simp [Bytes.cmp] at h
  | x :: xs, y :: ys, z :: zs, h1, h2 => by
    rw [cmp_cons_lt] at h1 h2 ⊢
    rcases h1 with h1 | ⟨rfl, h1⟩
    · rcases h2 with h2 | ⟨rfl, _⟩
      · exact Or.inl (UInt8.lt_trans h1 h2)
      · exact Or.inl h1
    · rcases h2 with h2 | ⟨rfl, h2⟩
      · exact Or.inl h2
      · exact Or.inr ⟨rfl, cmp_lt_trans xs ys zs h1 h2⟩

theorem cmp_gt_of_lt : ∀ (a b : Bytes), Bytes.cmp a b = .lt → Bytes.cmp b a = .gt
  | [], [], h => by simp [Bytes.cmp] at h
  | [], _ :: _, _ => by simp [Bytes.cmp]
  | _ :: _, [], h => by simp [Bytes.cmp] at h
  | x :: xs, y :: ys, h => by
    rw [cmp_cons_lt] at h
    rcases h with h | ⟨rfl, h⟩
    · have : ¬ y < x := UInt8.not_lt.mpr (UInt8.le_of_lt h)
      simp [Bytes.cmp, this, h]
    · simp [Bytes.cmp, UInt8.lt_irrefl, cmp_gt_of_lt xs ys h]

theorem kvInsert_append (k : Bytes) (y : JV) : ∀ (acc : List (Bytes × JV)), (∀ p ∈ acc, Bytes.cmp p.1 k = .lt) →
    kvInsert k y acc = acc ++ [(k, y)]
  | [], _ => rfl
  | (k', v') :: rest, h => by
    have h1 : Bytes.cmp k k' = .gt := cmp_gt_of_lt _ _ (h (k', v') (by simp))
    simp [kvInsert, h1, kvInsert_append k y rest (fun p hp => h p (by simp [hp]))]

theorem sorted_head_lt (k : Bytes) (x : JV) : ∀ (rest : List (Bytes × JV)), kvSorted ((k, x) :: rest) = true →
    ∀ q ∈ rest, Bytes.cmp k q.1 = .lt
  | [], _, q, hq => by cases hq
  | (k', v') :: rest, h, q, hq => by
    simp only [kvSorted, Bool.and_eq_true, Bytes.lt, beq_iff_eq] at h
    rcases List.mem_cons.mp hq with rfl | hq
    · exact h.1
    · exact cmp_lt_trans _ _ _ h.1 (sorted_head_lt k' v' rest h.2 q hq)

theorem sorted_tail (k : Bytes) (x : JV) (rest : List (Bytes × JV)) (h : kvSorted ((k, x) :: rest) = true) :
    kvSorted rest = true := by
  cases rest with
  | nil => rfl
  | cons p rest =>
    obtain ⟨k', v'⟩ := p
    simp only [kvSorted, Bool.and_eq_true] at h
    exact h.2

mutual
theorem canon_wf : ∀ v : JV, v.wf = true → canon v = v
  | .null, _ => rfl
  | .bool _, _ => rfl
  | .num _, _ => rfl
  | .str _, _ => rfl
  | .arr xs, h => by
    simp only [JV.wf] at h
    simp [canon, canonL_wf xs h]
  | .obj kvs, h => by
    simp only [JV.wf, Bool.and_eq_true] at h
    simp [canon, canonM_wf kvs h.2 h.1 [] (by intro p hp; cases hp)]
theorem canonL_wf : ∀ l : List JV, JV.wfList l = true → canonL l = l
  | [], _ => rfl
  | x :: xs, h => by
    simp only [JV.wfList, Bool.and_eq_true] at h
    simp [canonL, canon_wf x h.1, canonL_wf xs h.2]
theorem canonM_wf : ∀ l : List (Bytes × JV), JV.wfKvs l = true → kvSorted l = true →
    ∀ acc : List (Bytes × JV), (∀ p ∈ acc, ∀ q ∈ l, Bytes.cmp p.1 q.1 = .lt) → canonM acc l = acc ++ l
  | [], _, _, acc, _ => by simp [canonM]
  | (k, x) :: rest, h, hs, acc, hacc => by
    simp only [JV.wfKvs, Bool.and_eq_true] at h
    have hins : kvInsert k (canon x) acc = acc ++ [(k, x)] := by
      rw [canon_wf x h.1]
      exact kvInsert_append k x acc (fun p hp => hacc p hp (k, x) (by simp))
    simp only [canonM, hins]
    rw [canonM_wf rest h.2 (sorted_tail k x rest hs) (acc ++ [(k, x)]) ?_]
    · simp
    · intro p hp q hq
      rcases List.mem_append.mp hp with hp | hp
      · exact hacc p hp q (by simp [hq])
      · simp only [List.mem_singleton] at hp
        rw [hp]
        exact sorted_head_lt k x rest hs q hq
end

mutual
theorem nodup_wf : ∀ v : JV, v.wf = true → nodup v
  | .null, _ => trivial
  | .bool _, _ => trivial
  | .num _, _ => trivial
  | .str _, _ => trivial
  | .arr xs, h => by
    simp only [JV.wf] at h
    simpa [nodup] using nodupL_wf xs h
  | .obj kvs, h => by
    simp only [JV.wf, Bool.and_eq_true] at h
    simpa [nodup] using nodupM_wf kvs h.2 h.1
theorem nodupL_wf : ∀ l : List JV, JV.wfList l = true → nodupL l
  | [], _ => trivial
  | x :: xs, h => by
    simp only [JV.wfList, Bool.and_eq_true] at h
    exact ⟨nodup_wf x h.1, nodupL_wf xs h.2⟩
theorem nodupM_wf : ∀ l : List (Bytes × JV), JV.wfKvs l = true → kvSorted l = true → nodupM l
  | [], _, _ => trivial
  | (k, x) :: rest, h, hs => by
    simp only [JV.wfKvs, Bool.and_eq_true] at h
    refine ⟨?_, nodup_wf x h.1, nodupM_wf rest h.2 (sorted_tail k x rest hs)⟩
    intro p hp heq
    have hlt := sorted_head_lt k x rest hs p hp
    rw [heq, cmp_refl] at hlt
    cases hlt
end

end Gojq.Stream

/-
  C08 (bytecode checker, layer 2): from one instruction to whole runs, both layers together — no call
  of `Next` ends in a panic at ANY site.
-/
import Gojq.Proofs.SafeVM2Native
set_option linter.unusedSimpArgs false
set_option linter.unusedVariables false
namespace Gojq.SafeVM
open Gojq Gojq.VM

variable {S : SC} {Ct : Cert}

theorem exec2_bad (C : Checked S) {x : ExtRec} {l : L} {e : Env}
    (hc : codeAt S l.pc = some .bad) (hI1 : Inv S l e) : WP2 (exec .bad x l) (Post2 S Ct) e := by
  obtain ⟨hb, A, hV, G, hF, hP, hN⟩ := hI1.elimN hc rfl
  obtain ⟨herr, a, succs, ha, hst, hsucc, hpc, hp, hconf⟩ := hN.unpack C hc
  simp [step1] at hst

/-- every opcode keeps the layer-2 invariant and panics at none of the three sites it covers -/
theorem exec2_post (C : Checked S) (C2 : Checked2 S Ct) (ins : Instr) {x : ExtRec} (hx : ExtOK x) {l : L} {e : Env}
    (hk : keyOK ins (stackList e.stack) x)
    (hc : codeAt S l.pc = some (shape ins)) (hI1 : Inv S l e) (hI2 : Inv2 S Ct l e) :
    WP2 (exec ins x l) (Post2 S Ct) e := by
  have h1 := exec_post C ins hx hk hc hI1
  cases ins with
  | nop => exact exec2_nop C C2 hc hI1 hI2
  | push v => exact exec2_push C C2 hc hI1 hI2
  | pop => exact exec2_pop C C2 hc hI1 hI2
  | dup => exact exec2_dup C C2 hc hI1 hI2
  | const v => exact exec2_const C C2 hc hI1 hI2
  | load a b => exact exec2_load C C2 hc hI1 hI2
  | store a b => exact exec2_store C C2 hc hI1 hI2
  | object n => exact exec2_quiet C C2 (quiet_object n x l) h1 (fun h => by cases h) (.inl ⟨n, rfl⟩) hc hI1 hI2
  | append a b => exact exec2_append C C2 hc hI1 hI2
  | fork t => exact exec2_forklike C C2 (.inl rfl) h1 hc hI1 hI2
  | forktrybegin t => exact exec2_forklike C C2 (.inr (.inr rfl)) h1 hc hI1 hI2
  | forktryend => exact exec2_forktryend C C2 hc hI1 hI2
  | forkalt t => exact exec2_forklike C C2 (.inr (.inl rfl)) h1 hc hI1 hI2
  | forklabel a b => exact exec2_forklabel C C2 h1 hc hI1 hI2
  | backtrack => exact exec2_backtrack C C2 hc hI1 hI2
  | jump t => exact exec2_jump C C2 hc hI1 hI2
  | jumpifnot t => exact exec2_jumpifnot C C2 hc hI1 hI2
  | index k => exact exec2_quiet C C2 (quiet_index k x l) h1 (fun h => by cases h) (.inr (.inl ⟨_, rfl⟩)) hc hI1 hI2
  | indexarray k =>
    exact exec2_quiet C C2 (quiet_indexarray k x l) h1 (fun h => by cases h) (.inr (.inr (.inl ⟨_, rfl⟩))) hc hI1 hI2
  | call t => exact exec2_call C C2 hc hI1 hI2
  | callNative k n =>
    refine exec2_quiet C C2 (quiet_callNative k n x l) h1 (fun _ s hs => ?_) (.inr (.inr (.inr (.inl ⟨_, _, rfl⟩)))) hc hI1 hI2
    intro heq; subst heq
    exact callNative_noArr C hk hc hI1 hs
  | callrec t => exact exec2_callrec C C2 hc hI1 hI2
  | pushpc t => exact exec2_pushpc C C2 hc hI1 hI2
  | callpc => exact exec2_callpc C C2 hc hI1 hI2
  | scope a b c => exact exec2_scope C C2 hc hI1 hI2
  | ret => exact exec2_ret C C2 hc hI1 hI2
  | iter => exact exec2_iter C C2 h1 hc hI1 hI2
  | expbegin => exact exec2_expbegin C C2 hc hI1 hI2
  | expend => exact exec2_expend C C2 hc hI1 hI2
  | pathbegin => exact exec2_pathbegin C C2 hc hI1 hI2
  | pathend => exact exec2_quiet C C2 (quiet_pathend x l) h1 (fun h => by cases h) (.inr (.inr (.inr (.inr rfl)))) hc hI1 hI2
  | bad => exact exec2_bad C hc hI1

/-! ## turns, calls, histories -/

def NoCov2 : Outcome → Prop
  | .panic s => covered2 s = false
  | _ => True

def Between2 (S : SC) (Ct : Cert) (P : Params) (s : St) : Prop := Inv2 S Ct (entry P s) s.env

def StepOK2 (S : SC) (Ct : Cert) (P : Params) : Step → Prop
  | .cont l' s' => Inv2 S Ct l' s'.env
  | .fin o s' => NoCov2 o ∧ (Proper o → Between2 S Ct P s')

theorem saveFr2 (e : Env) (pc : Int) : Fr2 e { e with pc := pc, backtrack := true } := ⟨rfl, rfl, rfl, rfl⟩

theorem RegInv.popfork {e : Env} {A : AView} (hV : View e A) (R : RegInv S Ct e) {f : Fork} {rest : List Fork}
    (hf : e.forks = f :: rest) : RegInv S Ct (VM.popfork f rest e).1 := by
  have hpr := hV.scopes.prot
  rw [hf] at hpr
  simp only [scSaved, List.map_cons, Prot] at hpr
  have hRg : Rg ((VM.popfork f rest e).1).scopes = max f.scopeindex f.scopelimit := rfl
  have hle : max f.scopeindex f.scopelimit ≤ Rg e.scopes := by
    have := index_le_Rg e.scopes; omega
  refine ⟨fun j h0 hj => R.reg j h0 (by rw [hRg] at hj; omega), ?_,
    fun j j' sc sc' hlt hj' => R.o2 j j' sc sc' hlt (by rw [hRg] at hj'; omega), ?_⟩
  · intro j sc hj hb
    rw [hRg] at hj
    exact R.o3 f (by rw [hf]; simp) j sc hj hb
  · intro g hg j sc hj hb
    exact R.o3 g (by rw [hf]; exact List.mem_cons_of_mem _ hg) j sc hj hb

theorem unwind2_inv {P : Params} (hS : S.code = P.code.map shape) {l : L} {s : St} {A : AView}
    (hV : View s.env A) (R : RegInv S Ct s.env) (hF2 : ForksConf2 S Ct s.env.scopes.data s.env.values A.forks)
    (hre : A.forks = [] → l.err ≠ none → l.pc = S.size ∨ BConf2 S Ct s.env.scopes.data s.env.values l.pc A.frames) :
    StepOK2 S Ct P (unwind P l s) := by
  unfold unwind
  split
  · rename_i hf
    have hAf := hV.forks_nil.mp hf
    unfold finish
    split
    · rename_i er her
      refine ⟨trivial, fun _ => ?_⟩
      refine ⟨A, hV.fr (saveFr _ _), R.fr (saveFr2 _ _), hF2, ?_⟩
      show (if true = true then BMode2 S Ct (entry P (s.save l.pc)) (s.save l.pc).env A else _)
      rw [if_pos rfl]
      rcases hre hAf (by rw [her]; simp) with h | h
      · exact .inl h
      · exact .inr h
    · refine ⟨trivial, fun _ => ?_⟩
      refine ⟨A, hV.fr (saveFr _ _), R.fr (saveFr2 _ _), hF2, ?_⟩
      show (if true = true then BMode2 S Ct (entry P (s.save P.code.size)) (s.save P.code.size).env A else _)
      rw [if_pos rfl]
      exact .inl (size_map hS).symm
  · rename_i f rest hf
    cases hAf : A.forks with
    | nil => have := hV.forks_nil.mpr hAf; rw [hf] at this; cases this
    | cons g restA =>
      obtain ⟨hV', hpc⟩ := hV.popfork hf hAf
      rw [hAf] at hF2
      refine ⟨⟨g.stk, g.frames, g.paths, restA⟩, hV', R.popfork hV hf, fun f' hf' => hF2 f' (by simp [hf']), ?_⟩
      show (if true = true then BMode2 S Ct _ _ _ else _)
      rw [if_pos rfl]
      refine .inr ?_
      show BConf2 S Ct s.env.scopes.data s.env.values f.pc g.frames
      rw [← hpc]
      exact hF2 g (by simp)

/-- one turn of the loop, layer 2 (using layer 1's invariant as well) -/
theorem step2_inv (C : Checked S) (C2 : Checked2 S Ct) {P : Params} (hS : S.code = P.code.map shape)
    (hext : ∀ k, ExtOK (P.ext k)) {l : L} {s : St} (hI1 : Inv S l s.env) (hI2 : Inv2 S Ct l s.env)
    (hk : keyOK (P.code.getD l.pc.toNat .bad) (stackList s.env.stack) (P.ext s.polls)) :
    StepOK2 S Ct P (step P l s) := by
  have hr := hI1.pc_range
  have hsz := size_map hS
  unfold step
  by_cases h1 : l.pc < P.code.size
  · rw [if_pos h1, if_neg (by omega)]
    split
    · refine ⟨trivial, fun _ => ?_⟩
      obtain ⟨A, hV, R, hF2, _⟩ := hI2
      refine ⟨{ A with forks := [] }, ⟨hV.stack.forget, hV.scopes.forget, hV.paths.forget, rfl⟩,
        ⟨R.reg, R.o1, R.o2, fun f hf => by simp [St.save] at hf⟩, fun f hf => by simp at hf, ?_⟩
      show (if true = true then BMode2 S Ct _ _ _ else _)
      rw [if_pos rfl]
      exact .inl hsz.symm
    · have hc := codeAt_map hS hr.1 h1
      have hwp1 := exec_post C (P.code.getD l.pc.toNat .bad) (hext s.polls) hk hc hI1
      have hwp2 := exec2_post C C2 (P.code.getD l.pc.toNat .bad) (hext s.polls) hk hc hI1 hI2
      unfold WP at hwp1
      unfold WP2 at hwp2
      split
      · rename_i site hex
        rw [hex] at hwp2
        exact ⟨hwp2, fun h => h.elim⟩
      · exact ⟨trivial, fun h => h.elim⟩
      · rename_i ctl l' env' hex
        rw [hex] at hwp1 hwp2
        obtain ⟨A1, _, _, _, _, hpost1⟩ := hwp1
        obtain ⟨A', hV', R', hF2', hpost⟩ := hwp2
        split
        · simp only at hpost hpost1
          refine ⟨A', hV', R', hF2', ?_⟩
          show (if l'.backtrack = true then _ else _)
          rw [if_neg (by rw [hpost1.1]; simp)]
          exact hpost
        · simp only at hpost hpost1
          refine ⟨A', hV', R', hF2', ?_⟩
          rw [if_neg (by rw [hpost1.1]; simp)]
          exact hpost
        · rename_i v
          simp only at hpost1
          refine ⟨trivial, fun _ => ?_⟩
          refine ⟨A', hV'.fr (saveFr _ _), R'.fr (saveFr2 _ _), hF2', ?_⟩
          show (if true = true then BMode2 S Ct _ _ _ else _)
          rw [if_pos rfl]
          refine .inr ?_
          show BConf2 S Ct _ _ l'.pc _
          rw [hpost1]
          exact BConf2.triv C.last rfl
        · simp only at hpost
          exact unwind2_inv hS (s := ⟨env', s.polls + 1⟩) hV' R' hF2' (fun hf he => .inr (hpost hf he))
  · rw [if_neg h1]
    have hpc : l.pc = S.size := by omega
    obtain ⟨A, hV, R, hF2, hM⟩ := hI2
    exact unwind2_inv hS hV R hF2 (fun _ _ => .inl hpc)

/-- no panic at all -/
def NoPanic : Outcome → Prop
  | .panic _ => False
  | _ => True

theorem noPanic_of {o : Outcome} (h1 : NoCov o) (h2 : NoCov2 o) : NoPanic o := by
  cases o with
  | panic s =>
    simp only [NoCov] at h1
    simp only [NoCov2] at h2
    cases s <;> simp [covered, covered2] at h1 h2
  | _ => trivial

theorem loop12_inv (C : Checked S) (C2 : Checked2 S Ct) {P : Params} (hS : S.code = P.code.map shape)
    (hext : ∀ k, ExtOK (P.ext k)) {s0 : St} (hkeys : KeysOK P s0) : ∀ (fuel : Nat) (l : L) (s : St),
    Reach P s0 l s → Inv S l s.env → Inv2 S Ct l s.env →
    NoPanic (loop P fuel l s).1 ∧ (Proper (loop P fuel l s).1 →
      Between S P (loop P fuel l s).2 ∧ Between2 S Ct P (loop P fuel l s).2 ∧
      Reach P s0 (entry P (loop P fuel l s).2) (loop P fuel l s).2) := by
  intro fuel
  induction fuel with
  | zero =>
    intro l s hR hI1 hI2
    have t1 := step_inv C hS hext hI1 (hkeys l s hR)
    have t2 := step2_inv C C2 hS hext hI1 hI2 (hkeys l s hR)
    rw [loop]
    split
    · rename_i o s' hs
      rw [hs] at t1 t2
      exact ⟨noPanic_of t1.1 t2.1, fun hp => ⟨t1.2 hp, t2.2 hp, hR.call hs hp⟩⟩
    · exact ⟨trivial, fun h => h.elim⟩
  | succ n ih =>
    intro l s hR hI1 hI2
    have t1 := step_inv C hS hext hI1 (hkeys l s hR)
    have t2 := step2_inv C C2 hS hext hI1 hI2 (hkeys l s hR)
    rw [loop]
    split
    · rename_i o s' hs
      rw [hs] at t1 t2
      exact ⟨noPanic_of t1.1 t2.1, fun hp => ⟨t1.2 hp, t2.2 hp, hR.call hs hp⟩⟩
    · rename_i l' s' hs
      rw [hs] at t1 t2
      exact ih l' s' (hR.turn hs) t1 t2

/-- a history in which no call panics as long as all earlier calls ended properly -/
def SafeHist2 : List Outcome → Prop
  | [] => True
  | o :: rest => NoPanic o ∧ (Proper o → SafeHist2 rest)

theorem history12_safe (C : Checked S) (C2 : Checked2 S Ct) {P : Params} (hS : S.code = P.code.map shape)
    (hext : ∀ k, ExtOK (P.ext k)) {s0 : St} (hkeys : KeysOK P s0) (fuel : Nat) : ∀ (n : Nat) (s : St),
    Reach P s0 (entry P s) s → Between S P s → Between2 S Ct P s → SafeHist2 (history P fuel n s) := by
  intro n
  induction n with
  | zero => intro s _ _ _; exact trivial
  | succ n ih =>
    intro s hR hB hB2
    have := loop12_inv C C2 hS hext hkeys fuel _ s hR hB hB2
    simp only [history]
    exact ⟨this.1, fun hp => ih _ (this.2 hp).2.2 (this.2 hp).1 (this.2 hp).2.1⟩

/-! ## the initial state -/

theorem between2_init (C : Checked S) (C2 : Checked2 S Ct) {P : Params} (hS : S.code = P.code.map shape)
    (input : V) (vars : List V) (hi : vpure input = true) (hv : ∀ v ∈ vars, vpure v = true) :
    Between2 S Ct P (initSt input vars) := by
  unfold Between2
  obtain ⟨A1, hV1, G1, hl1, hf1, hk1, hq1, hs1, hp1, hb1⟩ := pushes_view (S := S) [input] {} ⟨[], [], [], []⟩ view_empty (ginv_empty S)
    (fun v hv' => by simp at hv'; rw [hv']; exact hi)
  simp only [List.foldl_cons, List.foldl_nil] at hV1 G1 hs1 hp1 hb1
  obtain ⟨A2, hV2, G2, hl2, hf2, hk2, hq2, hs2, hp2, hb2⟩ := pushes_view (S := S) vars.reverse _ A1 hV1 G1
    (fun v hv' => hv v (by simpa using hv'))
  have hV2 : View (initSt input vars).env A2 := hV2
  -- the scope stack and the variables are still empty
  have hsc : (initSt input vars).env.scopes = ({} : Stack Scope) := hs2
  have hforks : A2.forks = [] := by rw [hk2, hk1]
  have hfr : A2.frames = [] := by rw [hf2, hf1]
  have hbt : (entry P (initSt input vars)).backtrack = false := by
    simp only [entry]; exact hb2
  have hpc : (entry P (initSt input vars)).pc = 0 := by
    simp only [entry]; exact hp2
  have hRg : Rg (initSt input vars).env.scopes = -1 := by
    rw [hsc]; rfl
  have hblk : ∀ j : Int, j ≤ -1 → blockAt (initSt input vars).env.scopes.data j = none := by
    intro j hj; unfold blockAt; rw [if_neg (by omega)]
  have hforksE : (initSt input vars).env.forks = [] :=
    hV2.forks_nil.mpr hforks
  refine ⟨A2, hV2, ⟨?_, ?_, ?_, ?_⟩, by rw [hforks]; intro f hf; simp at hf, ?_⟩
  · intro j h0 hj; rw [hRg] at hj; omega
  · intro j sc hj hb; rw [hRg] at hj; rw [hblk j hj] at hb; cases hb
  · intro j j' sc sc' hlt hj' hb hb'; rw [hRg] at hj'; rw [hblk j' hj'] at hb'; cases hb'
  · intro f hf; rw [hforksE] at hf; simp at hf
  · rw [if_neg (by rw [hbt]; simp)]
    obtain ⟨id0, r0, hsa0, hav0, hasm0⟩ := C2.root
    obtain ⟨nv0, na0⟩ := r0
    -- the `scope` instruction at pc 0
    have hc0 : ∃ vars0 nargs0, codeAt S 0 = some (.scope id0 vars0 nargs0) ∧ na0 = nargs0.toNat := by
      unfold scopeAt at hsa0
      cases hc : S.code[0]? with
      | none => rw [hc] at hsa0; simp at hsa0
      | some i =>
        rw [hc] at hsa0
        cases i <;> simp at hsa0
        rename_i id vars0 nargs0
        obtain ⟨rfl, _, rfl⟩ := hsa0
        exact ⟨vars0, nargs0, by unfold codeAt; simp [hc], rfl⟩
    obtain ⟨vars0, nargs0, hc0, hna⟩ := hc0
    have hna0 : na0 = 0 := by
      have hroot := C.root
      unfold entryH at hroot
      have hc0' := hc0
      unfold codeAt at hc0'
      simp only [Int.le_refl, if_true, Int.toNat_zero] at hc0'
      rw [hc0'] at hroot
      simp only at hroot
      split at hroot
      · simp only [Option.some.injEq] at hroot
        omega
      · cases hroot
    obtain ⟨a, ha, _⟩ := C2.entry 0 _ hc0 rfl
    refine ⟨a, _, by rw [hpc]; exact ha, by rw [hpc]; exact hc0, ?_⟩
    rw [if_pos (by simp [isScope])]
    refine ⟨id0, nv0, na0, by rw [hpc]; exact hsa0, ?_⟩
    have hsize : 1 ≤ S.size := by have := codeAt_range C.last; omega
    have hcp : (entry P (initSt input vars)).callpc = S.size - 1 := by
      simp only [entry]; rw [size_map hS]
    refine ⟨?_, ?_, ⟨fun _ => ?_, fun h => by rw [hcp] at h; omega⟩, fun n hn => by omega, .inl ⟨by rw [hcp]; omega, by rw [hfr]; trivial⟩⟩
    · show Good S Ct (initSt input vars).env.scopes.data (initSt input vars).env.values
        (.v id0 (match blockAt (initSt input vars).env.scopes.data (-1) with | some sc => effOuter sc (-1) id0 | none => -1))
      rw [hblk (-1) (Int.le_refl _)]
      show Good S Ct (initSt input vars).env.scopes.data (initSt input vars).env.values (.v id0 (-1))
      exact .v (.nil (by decide)) (fun x hx => .inl (hav0 x hx)) (fun xi hxi => by rw [hasm0] at hxi; simp at hxi)
        (fun xi hxi => by rw [hasm0] at hxi; simp at hxi)
    · show (-1 : Int) ≤ Rg (initSt input vars).env.scopes
      rw [hRg]; exact Int.le_refl _
    · show (match blockAt (initSt input vars).env.scopes.data (-1) with | some sc => effOuter sc (-1) id0 | none => -1) ≤ (initSt input vars).env.scopes.index
      rw [hblk (-1) (Int.le_refl _), hsc]
      exact Int.le_refl _

end Gojq.SafeVM

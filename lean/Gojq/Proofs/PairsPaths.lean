/-
  Helper lemmas for Props/C13Pairs.lean, part 3: every path of `[path(..)]` / `[paths]`
  (`recPaths`, `allPaths`) and every two-element event of `tostream` (`Stream.spec`) is a REAL
  location (`Loc`) of the value, holding — for an event — the event's leaf; `[paths]` is
  `[path(..)]` without the root.
-/
import Gojq.Proofs.PairsLaws
namespace Gojq.Pairs
open Gojq Gojq.Stream

theorem kvLookup_of_mem (k : Bytes) (y : JV) : ∀ kvs : List (Bytes × JV), nodupM kvs → (k, y) ∈ kvs →
    kvLookup k kvs = some y
  | [], _, h => by cases h
  | (k', v') :: rest, hn, hm => by
    simp only [nodupM] at hn
    rcases List.mem_cons.mp hm with h | h
    · simp only [Prod.mk.injEq] at h
      obtain ⟨rfl, rfl⟩ := h
      simp [kvLookup]
    · have hne : k ≠ k' := hn.1 (k, y) h
      simp only [kvLookup, beq_iff_eq, hne, if_false]
      exact kvLookup_of_mem k y rest hn.2.2 h

theorem Loc_child_idx (xs : List JV) (j : Nat) (y : JV) (q : List JV) (x : JV) (hlen : xs.length ≤ 9223372036854775807)
    (hy : xs[j]? = some y) (h : Loc q y x) : Loc (idxJV j :: q) (.arr xs) x := by
  have hlt : j < xs.length := by
    rcases List.getElem?_eq_some_iff.mp hy with ⟨h, _⟩; exact h
  exact Loc_idx j q xs x (by omega) (by simp only [maxInt]; omega) y (by simpa using hy) h

mutual
theorem recPathsFrom_loc : ∀ (v : JV) (rp p : List JV), p ∈ recPathsFrom rp v → nodup v → Indexable v →
    ∃ q x, p = rp.reverse ++ q ∧ Loc q v x
  | .null, rp, p, h, _, _ => by simp only [recPathsFrom, List.mem_singleton] at h; exact ⟨[], .null, by simp [h], rfl⟩
  | .bool b, rp, p, h, _, _ => by simp only [recPathsFrom, List.mem_singleton] at h; exact ⟨[], .bool b, by simp [h], rfl⟩
  | .num n, rp, p, h, _, _ => by simp only [recPathsFrom, List.mem_singleton] at h; exact ⟨[], .num n, by simp [h], rfl⟩
  | .str s, rp, p, h, _, _ => by simp only [recPathsFrom, List.mem_singleton] at h; exact ⟨[], .str s, by simp [h], rfl⟩
  | .arr xs, rp, p, h, hn, hs => by
    simp only [recPathsFrom, List.mem_cons] at h
    rcases h with h | h
    · exact ⟨[], .arr xs, by simp [h], rfl⟩
    · simp only [nodup] at hn
      simp only [ArrLe] at hs
      obtain ⟨j, y, q, x, hy, hp, hl⟩ := recPathsL_loc xs rp 0 p h hn hs.2
      refine ⟨idxJV j :: q, x, by simpa using hp, Loc_child_idx xs j y q x hs.1 hy hl⟩
  | .obj kvs, rp, p, h, hn, hs => by
    simp only [recPathsFrom, List.mem_cons] at h
    rcases h with h | h
    · exact ⟨[], .obj kvs, by simp [h], rfl⟩
    · simp only [nodup] at hn
      simp only [ArrLe] at hs
      obtain ⟨k, y, q, x, hy, hp, hl⟩ := recPathsM_loc kvs rp p h hn hs
      exact ⟨.str k :: q, x, hp, (Loc_key k q kvs x).mpr ⟨y, kvLookup_of_mem k y kvs hn hy, hl⟩⟩
theorem recPathsL_loc : ∀ (xs : List JV) (rp : List JV) (i : Nat) (p : List JV), p ∈ recPathsL rp i xs → nodupL xs →
    ArrLeL 9223372036854775807 xs →
    ∃ j y q x, xs[j]? = some y ∧ p = rp.reverse ++ idxJV (i + j) :: q ∧ Loc q y x
  | [], _, _, _, h, _, _ => by simp [recPathsL] at h
  | x0 :: xs, rp, i, p, h, hn, hs => by
    simp only [recPathsL, List.mem_append] at h
    simp only [nodupL] at hn
    simp only [ArrLeL] at hs
    rcases h with h | h
    · obtain ⟨q, x, hp, hl⟩ := recPathsFrom_loc x0 (idxJV i :: rp) p h hn.1 hs.1
      exact ⟨0, x0, q, x, rfl, by simpa using hp, hl⟩
    · obtain ⟨j, y, q, x, hy, hp, hl⟩ := recPathsL_loc xs rp (i + 1) p h hn.2 hs.2
      exact ⟨j + 1, y, q, x, by simpa using hy, by rw [hp]; congr 3; omega, hl⟩
theorem recPathsM_loc : ∀ (kvs : List (Bytes × JV)) (rp p : List JV), p ∈ recPathsM rp kvs → nodupM kvs →
    ArrLeM 9223372036854775807 kvs →
    ∃ k y q x, (k, y) ∈ kvs ∧ p = rp.reverse ++ JV.str k :: q ∧ Loc q y x
  | [], _, _, h, _, _ => by simp [recPathsM] at h
  | (k0, x0) :: kvs, rp, p, h, hn, hs => by
    simp only [recPathsM, List.mem_append] at h
    simp only [nodupM] at hn
    simp only [ArrLeM] at hs
    rcases h with h | h
    · obtain ⟨q, x, hp, hl⟩ := recPathsFrom_loc x0 (.str k0 :: rp) p h hn.2.1 hs.1
      exact ⟨k0, x0, q, x, by simp, by simpa using hp, hl⟩
    · obtain ⟨k, y, q, x, hy, hp, hl⟩ := recPathsM_loc kvs rp p h hn.2.2 hs.2
      exact ⟨k, y, q, x, List.mem_cons_of_mem _ hy, hp, hl⟩
end

/-! ### tostream events -/

theorem leaf_inj {rp p : List JV} {x leaf : JV} (h : JV.arr [.arr p, leaf] = leafEv rp x) : p = rp.reverse ∧ leaf = x := by
  simp only [leafEv, pathJV, JV.arr.injEq, List.cons.injEq, and_true] at h
  exact h

theorem close_ne {rp p : List JV} {leaf : JV} : JV.arr [.arr p, leaf] ≠ closeEv rp := by
  simp [closeEv]

mutual
theorem spec_loc : ∀ (v : JV) (rp p : List JV) (leaf : JV), JV.arr [.arr p, leaf] ∈ spec rp v → nodup v → Indexable v →
    ∃ q, p = rp.reverse ++ q ∧ Loc q v leaf
  | .null, rp, p, leaf, h, _, _ => by
    simp only [spec, List.mem_singleton] at h; obtain ⟨rfl, rfl⟩ := leaf_inj h; exact ⟨[], by simp, rfl⟩
  | .bool b, rp, p, leaf, h, _, _ => by
    simp only [spec, List.mem_singleton] at h; obtain ⟨rfl, rfl⟩ := leaf_inj h; exact ⟨[], by simp, rfl⟩
  | .num n, rp, p, leaf, h, _, _ => by
    simp only [spec, List.mem_singleton] at h; obtain ⟨rfl, rfl⟩ := leaf_inj h; exact ⟨[], by simp, rfl⟩
  | .str s, rp, p, leaf, h, _, _ => by
    simp only [spec, List.mem_singleton] at h; obtain ⟨rfl, rfl⟩ := leaf_inj h; exact ⟨[], by simp, rfl⟩
  | .arr [], rp, p, leaf, h, _, _ => by
    simp only [spec, List.mem_singleton] at h; obtain ⟨rfl, rfl⟩ := leaf_inj h; exact ⟨[], by simp, rfl⟩
  | .obj [], rp, p, leaf, h, _, _ => by
    simp only [spec, List.mem_singleton] at h; obtain ⟨rfl, rfl⟩ := leaf_inj h; exact ⟨[], by simp, rfl⟩
  | .arr (x0 :: xs), rp, p, leaf, h, hn, hs => by
    simp only [spec] at h
    simp only [nodup] at hn
    simp only [ArrLe] at hs
    obtain ⟨j, y, q, hy, hp, hl⟩ := specL_loc (x0 :: xs) rp 0 p leaf h hn hs.2
    exact ⟨idxJV j :: q, by simpa using hp, Loc_child_idx _ j y q leaf hs.1 hy hl⟩
  | .obj (kv :: kvs), rp, p, leaf, h, hn, hs => by
    simp only [spec] at h
    simp only [nodup] at hn
    simp only [ArrLe] at hs
    obtain ⟨k, y, q, hy, hp, hl⟩ := specM_loc (kv :: kvs) rp p leaf h hn hs
    exact ⟨.str k :: q, hp, (Loc_key k q _ leaf).mpr ⟨y, kvLookup_of_mem k y _ hn hy, hl⟩⟩
theorem specL_loc : ∀ (xs : List JV) (rp : List JV) (i : Nat) (p : List JV) (leaf : JV),
    JV.arr [.arr p, leaf] ∈ specL rp i xs → nodupL xs → ArrLeL 9223372036854775807 xs →
    ∃ j y q, xs[j]? = some y ∧ p = rp.reverse ++ idxJV (i + j) :: q ∧ Loc q y leaf
  | [], _, _, _, _, h, _, _ => by simp [specL] at h
  | [x0], rp, i, p, leaf, h, hn, hs => by
    simp only [specL, List.mem_append, List.mem_singleton] at h
    simp only [nodupL] at hn
    simp only [ArrLeL] at hs
    rcases h with h | h
    · obtain ⟨q, hp, hl⟩ := spec_loc x0 (idxJV i :: rp) p leaf h hn.1 hs.1
      exact ⟨0, x0, q, rfl, by simpa using hp, hl⟩
    · exact absurd h close_ne
  | x0 :: x1 :: xs, rp, i, p, leaf, h, hn, hs => by
    simp only [specL, List.mem_append] at h
    have hn' : nodup x0 ∧ nodupL (x1 :: xs) := by simpa only [nodupL] using hn
    have hs' : ArrLe 9223372036854775807 x0 ∧ ArrLeL 9223372036854775807 (x1 :: xs) := by simpa only [ArrLeL] using hs
    rcases h with h | h
    · obtain ⟨q, hp, hl⟩ := spec_loc x0 (idxJV i :: rp) p leaf h hn'.1 hs'.1
      exact ⟨0, x0, q, rfl, by simpa using hp, hl⟩
    · obtain ⟨j, y, q, hy, hp, hl⟩ := specL_loc (x1 :: xs) rp (i + 1) p leaf h hn'.2 hs'.2
      exact ⟨j + 1, y, q, by simpa using hy, by rw [hp]; congr 3; omega, hl⟩
theorem specM_loc : ∀ (kvs : List (Bytes × JV)) (rp p : List JV) (leaf : JV),
    JV.arr [.arr p, leaf] ∈ specM rp kvs → nodupM kvs → ArrLeM 9223372036854775807 kvs →
    ∃ k y q, (k, y) ∈ kvs ∧ p = rp.reverse ++ JV.str k :: q ∧ Loc q y leaf
  | [], _, _, _, h, _, _ => by simp [specM] at h
  | [(k0, x0)], rp, p, leaf, h, hn, hs => by
    simp only [specM, List.mem_append, List.mem_singleton] at h
    simp only [nodupM] at hn
    simp only [ArrLeM] at hs
    rcases h with h | h
    · obtain ⟨q, hp, hl⟩ := spec_loc x0 (.str k0 :: rp) p leaf h hn.2.1 hs.1
      exact ⟨k0, x0, q, by simp, by simpa using hp, hl⟩
    · exact absurd h close_ne
  | (k0, x0) :: kv1 :: kvs, rp, p, leaf, h, hn, hs => by
    simp only [specM, List.mem_append] at h
    have hn' : (∀ p ∈ kv1 :: kvs, p.1 ≠ k0) ∧ nodup x0 ∧ nodupM (kv1 :: kvs) := by simpa only [nodupM] using hn
    have hs' : ArrLe 9223372036854775807 x0 ∧ ArrLeM 9223372036854775807 (kv1 :: kvs) := by simpa only [ArrLeM] using hs
    rcases h with h | h
    · obtain ⟨q, hp, hl⟩ := spec_loc x0 (.str k0 :: rp) p leaf h hn'.2.1 hs'.1
      exact ⟨k0, x0, q, by simp, by simpa using hp, hl⟩
    · obtain ⟨k, y, q, hy, hp, hl⟩ := specM_loc (kv1 :: kvs) rp p leaf h hn'.2.2 hs'.2
      exact ⟨k, y, q, List.mem_cons_of_mem _ hy, hp, hl⟩
end


/-! ### `[paths] == [path(..)] - [[]]` -/

theorem recPaths_eq (v : JV) : recPaths v = [] :: allPaths v := by
  cases v <;> simp [recPaths, recPathsFrom, allPaths]

mutual
theorem recPathsFrom_len : ∀ (v : JV) (rp p : List JV), p ∈ recPathsFrom rp v → rp.length ≤ p.length
  | .null, rp, p, h => by simp only [recPathsFrom, List.mem_singleton] at h; simp [h]
  | .bool _, rp, p, h => by simp only [recPathsFrom, List.mem_singleton] at h; simp [h]
  | .num _, rp, p, h => by simp only [recPathsFrom, List.mem_singleton] at h; simp [h]
  | .str _, rp, p, h => by simp only [recPathsFrom, List.mem_singleton] at h; simp [h]
  | .arr xs, rp, p, h => by
    simp only [recPathsFrom, List.mem_cons] at h
    rcases h with h | h
    · simp [h]
    · have := recPathsL_len xs rp 0 p h; omega
  | .obj kvs, rp, p, h => by
    simp only [recPathsFrom, List.mem_cons] at h
    rcases h with h | h
    · simp [h]
    · have := recPathsM_len kvs rp p h; omega
theorem recPathsL_len : ∀ (xs : List JV) (rp : List JV) (i : Nat) (p : List JV), p ∈ recPathsL rp i xs →
    rp.length + 1 ≤ p.length
  | [], _, _, _, h => by simp [recPathsL] at h
  | x0 :: xs, rp, i, p, h => by
    simp only [recPathsL, List.mem_append] at h
    rcases h with h | h
    · simpa using recPathsFrom_len x0 (idxJV i :: rp) p h
    · exact recPathsL_len xs rp (i + 1) p h
theorem recPathsM_len : ∀ (kvs : List (Bytes × JV)) (rp p : List JV), p ∈ recPathsM rp kvs →
    rp.length + 1 ≤ p.length
  | [], _, _, h => by simp [recPathsM] at h
  | (k0, x0) :: kvs, rp, p, h => by
    simp only [recPathsM, List.mem_append] at h
    rcases h with h | h
    · simpa using recPathsFrom_len x0 (.str k0 :: rp) p h
    · exact recPathsM_len kvs rp p h
end

/-- no path of a proper descendant is the empty path -/
theorem allPaths_ne_nil (v : JV) : ∀ p ∈ allPaths v, p ≠ [] := by
  intro p hp hnil
  subst hnil
  cases v with
  | arr xs => have := recPathsL_len xs [] 0 [] hp; simp at this
  | obj kvs => have := recPathsM_len kvs [] [] hp; simp at this
  | null => simp [allPaths] at hp
  | bool _ => simp [allPaths] at hp
  | num _ => simp [allPaths] at hp
  | str _ => simp [allPaths] at hp

theorem cmp_arr_nil (p : List JV) : cmp (.arr p) (.arr []) = .eq ↔ p = [] := by
  cases p <;> simp [cmp, cmpList]

theorem arraySub_root (ps : List (List JV)) (h : ∀ p ∈ ps, p ≠ []) :
    arraySub (ps.map JV.arr) [.arr []] = ps.map JV.arr := by
  simp only [arraySub, List.any_cons, List.any_nil, Bool.or_false]
  rw [List.filter_eq_self]
  intro x hx
  obtain ⟨p, hp, rfl⟩ := List.mem_map.mp hx
  have : ¬ cmp (.arr p) (.arr []) = .eq := fun hc => h p hp ((cmp_arr_nil p).mp hc)
  simp [this]

theorem arraySub_root_cons (ps : List (List JV)) (h : ∀ p ∈ ps, p ≠ []) :
    arraySub (([] :: ps).map JV.arr) [.arr []] = ps.map JV.arr := by
  have := arraySub_root ps h
  simp only [arraySub, List.any_cons, List.any_nil, Bool.or_false, List.map_cons] at this ⊢
  rw [List.filter_cons_of_neg (by simp [(cmp_arr_nil []).mpr rfl])]
  exact this

/-! ### `ArrLe` is monotone -/

mutual
theorem ArrLe_mono {n m : Nat} (hnm : n ≤ m) : ∀ v : JV, ArrLe n v → ArrLe m v
  | .null, _ => trivial
  | .bool _, _ => trivial
  | .num _, _ => trivial
  | .str _, _ => trivial
  | .arr xs, h => by
    simp only [ArrLe] at h ⊢
    exact ⟨by omega, ArrLeL_mono hnm xs h.2⟩
  | .obj kvs, h => by
    simp only [ArrLe] at h ⊢
    exact ArrLeM_mono hnm kvs h
theorem ArrLeL_mono {n m : Nat} (hnm : n ≤ m) : ∀ xs : List JV, ArrLeL n xs → ArrLeL m xs
  | [], _ => trivial
  | x :: xs, h => by
    simp only [ArrLeL] at h ⊢
    exact ⟨ArrLe_mono hnm x h.1, ArrLeL_mono hnm xs h.2⟩
theorem ArrLeM_mono {n m : Nat} (hnm : n ≤ m) : ∀ kvs : List (Bytes × JV), ArrLeM n kvs → ArrLeM m kvs
  | [], _ => trivial
  | (_, x) :: kvs, h => by
    simp only [ArrLeM] at h ⊢
    exact ⟨ArrLe_mono hnm x h.1, ArrLeM_mono hnm kvs h.2⟩
end

theorem Rebuildable.indexable {v : JV} (h : Rebuildable v) : Indexable v :=
  ArrLe_mono (by simp [setpathLimit]) v h

end Gojq.Pairs

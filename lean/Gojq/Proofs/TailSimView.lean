/-
  The restatement `optTailV` of the tail-call pass on interpreter code (Model/TailVM.lean) agrees with
  the pass model `Opt.optimizeTailRec` (Model/Optimize.lean — the model the `tailrec`
  translation-validation stream compares with the real compiler) through the dump `OptVM.view`, for
  EVERY code: same result, and the two fail (Go panic / non-termination of the jump-following loop)
  on the same codes.
-/
import Gojq.Model.TailVM
set_option linter.unusedSimpArgs false
set_option linter.unusedVariables false
namespace Gojq.TailVM
open Gojq Gojq.VM Gojq.OptVM

/-- the dump of what `followV` finds -/
def viewEnd : Option Instr → Opt.Instr
  | none => { op := "<end>" }
  | some i => view i

theorem follow_view (a : Array Instr) : ∀ (fuel j : Nat),
    Opt.followJumps (a.map view) fuel j = (followV a fuel j).map viewEnd := by
  intro fuel
  induction fuel with
  | zero => intro j; rfl
  | succ n ih =>
    intro j
    unfold Opt.followJumps followV
    rw [Array.getElem?_map]
    cases ha : a[j]? with
    | none => rfl
    | some x =>
      simp only [Option.map_some]
      cases x with
      | jump t =>
        simp only [view, opName, intOperand]
        by_cases ht : t < 0
        · simp [ht]
        · simp only [ht, if_false]
          exact ih t.toNat
      | _ => rfl

/-- the two loop states correspond -/
structure StRel (O : Opt.TRState) (V : TRStateV) : Prop where
  code : O.code = V.code.map view
  pcs : O.pcs = V.pcs
  scopes : O.scopes = V.scopes
  stop : O.stop = V.stop

/-- both `none` (the Go code panics or loops), or both `some` with corresponding states -/
def OptRelT : Option Opt.TRState → Option TRStateV → Prop
  | none, none => True
  | some O, some V => StRel O V
  | _, _ => False

theorem map_set! (a : Array Instr) (i : Nat) (y : Instr) :
    (a.map view).set! i (view y) = (a.set! i y).map view := by
  rw [Array.set!_eq_setIfInBounds, Array.set!_eq_setIfInBounds, Array.map_setIfInBounds]

theorem ret_view (y : Instr) : ((view y).op == "ret") = (match y with | .ret => true | _ => false) := by
  cases y <;> rfl

/-- one iteration of the pass commutes with the dump -/
theorem step_view {O : Opt.TRState} {V : TRStateV} (h : StRel O V) (i : Nat) :
    OptRelT (Opt.tailRecStep O i) (tailStepV V i) := by
  obtain ⟨oc, op, os, ost⟩ := O
  obtain ⟨vc, vp, vs, vst⟩ := V
  obtain ⟨h1, h2, h3, h4⟩ := h
  simp only at h1 h2 h3 h4
  subst h1 h2 h3 h4
  unfold Opt.tailRecStep tailStepV
  simp only
  by_cases hstop : ost = true
  · simp only [hstop, if_true]; exact ⟨rfl, rfl, rfl, rfl⟩
  · simp only [hstop, if_false, Bool.false_eq_true]
    rw [Array.getElem?_map]
    cases hv : vc[i]? with
    | none => trivial
    | some x =>
      simp only [Option.map_some]
      cases x with
      | scope a b c =>
        simp only [view, opName, intOperand, beq_self_eq_true, if_true]
        by_cases hc : (c == 0) = true
        · simp only [hc, if_true]
          exact ⟨rfl, rfl, rfl, rfl⟩
        · simp only [hc, if_false, Bool.false_eq_true]
          exact ⟨rfl, rfl, rfl, rfl⟩
      | call j =>
        have e1 : ((view (.call j)).op == "scope") = false := rfl
        have e2 : ((view (.call j)).op == "call") = true := rfl
        have e3 : (view (.call j)).tgt = some j := rfl
        simp only [e1, e2, e3, if_true, if_false, Bool.false_eq_true]
        cases op with
        | nil => exact ⟨rfl, rfl, rfl, rfl⟩
        | cons top rest =>
          simp only
          by_cases hj : (j != (top : Int)) = true
          · simp only [hj, if_true]; exact ⟨rfl, rfl, rfl, rfl⟩
          · simp only [hj, if_false, Bool.false_eq_true]
            cases hl : os.lookup top with
            | none => exact ⟨rfl, rfl, rfl, rfl⟩
            | some canjump =>
              simp only
              rw [follow_view, Array.size_map]
              cases hf : followV vc (vc.size + 1) (i + 1) with
              | none => trivial
              | some r =>
                simp only [Option.map_some]
                cases r with
                | none =>
                  have : ((viewEnd none).op == "ret") = false := rfl
                  simp only [this, if_false, Bool.false_eq_true]
                  exact ⟨rfl, rfl, rfl, rfl⟩
                | some y =>
                  simp only [viewEnd, ret_view]
                  cases y with
                  | ret =>
                    simp only [if_true]
                    by_cases hc : canjump = true
                    · simp only [hc, if_true]
                      refine ⟨?_, rfl, rfl, rfl⟩
                      show (vc.map view).set! i (view (.jump ((top : Int) + 1))) = _
                      exact map_set! _ _ _
                    · simp only [hc, if_false, Bool.false_eq_true]
                      refine ⟨?_, rfl, rfl, rfl⟩
                      show (vc.map view).set! i (view (.callrec j)) = _
                      exact map_set! _ _ _
                  | _ => simp only [if_false, Bool.false_eq_true]; exact ⟨rfl, rfl, rfl, rfl⟩
      | callNative k n =>
        have e1 : ((view (.callNative k n)).op == "scope") = false := rfl
        have e2 : ((view (.callNative k n)).op == "call") = true := rfl
        have e3 : (view (.callNative k n)).tgt = none := rfl
        simp only [e1, e2, e3, if_true, if_false, Bool.false_eq_true]
        exact ⟨rfl, rfl, rfl, rfl⟩
      | ret =>
        have e1 : ((view .ret).op == "scope") = false := rfl
        have e2 : ((view .ret).op == "call") = false := rfl
        have e3 : ((view .ret).op == "ret") = true := rfl
        simp only [e1, e2, e3, if_true, if_false, Bool.false_eq_true]
        cases op with
        | nil => exact ⟨rfl, rfl, rfl, rfl⟩
        | cons top rest => exact ⟨rfl, rfl, rfl, rfl⟩
      | _ =>
        simp only [view, opName, intOperand]
        exact ⟨rfl, rfl, rfl, rfl⟩

theorem fold_view : ∀ (is : List Nat) (O : Opt.TRState) (V : TRStateV), StRel O V →
    OptRelT (is.foldlM Opt.tailRecStep O) (is.foldlM tailStepV V) := by
  intro is
  induction is with
  | nil => intro O V h; exact h
  | cons i is ih =>
    intro O V h
    simp only [List.foldlM_cons]
    have := step_view h i
    cases h1 : Opt.tailRecStep O i with
    | none =>
      cases h2 : tailStepV V i with
      | none => trivial
      | some V1 => rw [h1, h2] at this; exact this.elim
    | some O1 =>
      cases h2 : tailStepV V i with
      | none => rw [h1, h2] at this; exact this.elim
      | some V1 =>
        rw [h1, h2] at this
        exact ih O1 V1 this

/-- THE TIE: `Opt.optimizeTailRec` on the dump = the dump of `optTailV` -/
theorem optTailV_view (c : Array Instr) :
    Opt.optimizeTailRec (c.map view) = (optTailV c).map (Array.map view) := by
  unfold Opt.optimizeTailRec optTailV
  simp only [Array.size_map]
  have h0 : StRel { code := c.map view, pcs := [], scopes := [] } { code := c, pcs := [], scopes := [] } :=
    ⟨rfl, rfl, rfl, rfl⟩
  have := fold_view (List.range c.size) _ _ h0
  cases h1 : (List.range c.size).foldlM Opt.tailRecStep { code := c.map view, pcs := [], scopes := [] } with
  | none =>
    cases h2 : (List.range c.size).foldlM tailStepV { code := c, pcs := [], scopes := [] } with
    | none => rfl
    | some V1 => rw [h1, h2] at this; exact this.elim
  | some O1 =>
    cases h2 : (List.range c.size).foldlM tailStepV { code := c, pcs := [], scopes := [] } with
    | none => rw [h1, h2] at this; exact this.elim
    | some V1 =>
      rw [h1, h2] at this
      simp only [Option.map_some]
      exact congrArg some this.code

end Gojq.TailVM

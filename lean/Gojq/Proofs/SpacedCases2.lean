/-
  The printer's output satisfies the adjacency condition, part 7: bindings, definitions, labels,
  and the term forms.
-/
import Gojq.Proofs.SpacedFirst
namespace Gojq.RefTerm
open Gojq Gojq.Lexer Gojq.Printer

theorem stops_sign (b : UInt8) (X : Bytes) (hb : b = 45 ∨ b = 43) (h : StartsOK X) : stops (.ch b) X = true := by
  obtain ⟨ch, r, e, hs⟩ := h
  have hne : ch ≠ 61 := by
    rcases hs with hs | hs
    · exact hs.1
    · subst hs; decide
  rcases hb with rfl | rfl <;> simp [stops, isSolo, isEqExt, e, hne]

theorem safeB_colon (lb : Option UInt8) (X : Bytes) (h : StartsOK X) : safeB lb (58 :: X) = true := by
  obtain ⟨ch, r, e, hs⟩ := h
  have hne : ch ≠ 58 := by
    rcases hs with hs | hs
    · exact hs.2
    · subst hs; decide
  simp [safeB, e, hne]

/-- a single-token term -/
theorem sp_atom (t : Term) (tok : Tok) (hi : itemsT t = [.t tok]) (hp : plainStk tok = true)
    (hwf : okT t = true → tok.wf = true) (hn : tok.inStrTok = false) (hs : tok ≠ .strStart) : SPT t := by
  intro last stk fol hok hf
  rw [hi] at hf ⊢
  simp only [endLast] at hf
  rw [itemsOKF_plain _ _ _ _ _ _ hp]
  simp [hwf hok, hn, render, stops_last tok last fol (hwf hok) hn hs hf]

theorem sp_identity : SPT .identity := sp_atom _ (.ch 46) rfl rfl (fun _ => rfl) rfl (by simp)
theorem sp_recurse : SPT .recurse := sp_atom _ .recurse rfl rfl (fun _ => rfl) rfl (by simp)
theorem sp_null : SPT .null := sp_atom _ (.kw .null_) rfl rfl (fun _ => rfl) rfl (by simp)
theorem sp_true : SPT .true_ := sp_atom _ (.kw .true_) rfl rfl (fun _ => rfl) rfl (by simp)
theorem sp_false : SPT .false_ := sp_atom _ (.kw .false_) rfl rfl (fun _ => rfl) rfl (by simp)
theorem sp_number (s : Bytes) : SPT (.number s) :=
  sp_atom _ (.number s) rfl rfl (fun h => by simpa [okT, Tok.wf] using h) rfl (by simp)
theorem sp_format (s : Bytes) : SPT (.format s) :=
  sp_atom _ (.format s) rfl rfl (fun h => by simpa [okT, Tok.wf] using h) rfl (by simp)
theorem sp_func0 (n : Bytes) : SPT (.func n []) :=
  sp_atom _ (nameTok n) rfl (plainStk_nameTok n) (fun h => wf_nameTok n (by simpa [okT] using h))
    (inStrTok_nameTok n) (nameTok_ne_strStart n)

theorem sp_arrayEmpty : SPT .arrayEmpty := by
  intro last stk fol _ _
  simp [itemsT, okCh, isSolo, stops, render, Tok.spell]

theorem sp_objectEmpty : SPT (.object []) := by
  intro last stk fol _ _
  simp [itemsT, okCh, isSolo, stops, render, Tok.spell]

theorem sp_break (v : Bytes) : SPT (.break_ v) := by
  intro last stk fol hok hf
  simp only [okT] at hok
  simp only [itemsT, endLast] at hf
  simp [itemsT, itemsOKF_kw, itemsOKF_var, Tok.wf, Tok.inStrTok, render, Tok.spell, hok,
    stops_last (.var v) (some 32) fol hok rfl (by simp) hf]

theorem sp_paren (q : Query) (ih : SPQ q) : SPT (.paren q) := by
  intro last stk fol hok _
  simp only [okT] at hok
  simp [itemsT, itemsOKF_append, endQ, render, Tok.spell]
  exact ih _ _ _ (OkQ_of _ _ _ hok) (safeB_safeHead _ _ _ rfl)

theorem sp_array (q : Query) (ih : SPQ q) : SPT (.array q) := by
  intro last stk fol hok _
  simp only [okT] at hok
  simp [itemsT, itemsOKF_append, endQ, render, Tok.spell, okCh, isSolo, stops]
  exact ih _ _ _ (OkQ_of _ _ _ hok) (safeB_safeHead _ _ _ rfl)

theorem sp_unary (neg : Bool) (t : Term) (ih : SPT t) : SPT (.unary neg t) := by
  intro last stk fol hok hf
  simp only [okT] at hok
  cases neg
  · simp only [itemsT, endLast, Tok.spell, lastOr_single, Bool.false_eq_true, if_false] at hf
    simp [itemsT, okCh, isEqExt, Tok.spell, ih _ _ _ hok hf,
      stops_sign 43 _ (Or.inr rfl) (startsOK_append _ fol (startsT t (some 43) hok))]
  · simp only [itemsT, endLast, Tok.spell, lastOr_single, if_true] at hf
    simp [itemsT, okCh, isEqExt, Tok.spell, ih _ _ _ hok hf,
      stops_sign 45 _ (Or.inl rfl) (startsOK_append _ fol (startsT t (some 45) hok))]

theorem okQ_termQ (b : Query) (t : Term) (h : (match b with | .term t => okT t | _ => false) = true)
    (e : b = .term t) : okT t = true := by subst e; exact h

theorem sp_try (b : Query) (ih : SPQ b) : SPT (.try_ b) := by
  intro last stk fol hok hf
  have hb : OkQ b := by
    cases b with
    | term t => simp only [okT] at hok; exact OkQ_of true 1 _ (by rw [okQ_term]; exact hok)
    | _ => simp [okT] at hok
  simp only [itemsT, endLast] at hf
  simp [itemsT, itemsOKF_kw, Tok.wf, Tok.inStrTok, render, Tok.spell, ih _ _ _ hb hf]

theorem sp_tryCatch (b h : Query) (ihb : SPQ b) (ihh : SPQ h) : SPT (.tryCatch b h) := by
  intro last stk fol hok hf
  have hb : OkQ b ∧ OkQ h := by
    cases b with
    | term t =>
      cases h with
      | term t2 =>
        simp only [okT, Bool.and_eq_true] at hok
        exact ⟨OkQ_of true 1 _ (by rw [okQ_term]; exact hok.1.1), OkQ_of true 1 _ (by rw [okQ_term]; exact hok.2)⟩
      | _ => simp [okT] at hok
    | _ => unfold okT at hok; simp at hok
  simp only [itemsT, endLast, endLast_append] at hf
  simp [itemsT, itemsOKF_kw, itemsOKF_append, endQ, Tok.wf, Tok.inStrTok, render, Tok.spell, ihh _ _ _ hb.2 hf]
  exact ihb _ _ _ hb.1 (safeB_safeHead _ 32 _ rfl)

theorem sp_formatStr (f : Bytes) (s : Str) (ih : SPS s) : SPT (.formatStr f s) := by
  intro last stk fol hok _
  simp only [okT, Bool.and_eq_true] at hok
  simp [itemsT, itemsOKF_format, Tok.wf, Tok.inStrTok, render, Tok.spell, hok.1, ih _ _ _ hok.2]

theorem sp_str (s : Str) (ih : SPS s) : SPT (.str s) := by
  intro last stk fol hok _
  simp only [okT] at hok
  simpa [itemsT] using ih last stk fol hok

/-! ### bindings, definitions, labels -/

theorem sp_label (v : Bytes) (b : Query) (ih : SPQ b) : SPQ (.label v b) := by
  intro last stk fol hok hf
  have h : isVarName v = true ∧ OkQ b := by
    rcases hok with ⟨i, m, h⟩ | h
    · rw [okQ_label] at h
      simp only [Bool.and_eq_true] at h
      exact ⟨h.1.2, OkQ_of _ _ _ h.2⟩
    · simp [okOV] at h
  simp only [itemsQ, endLast] at hf
  simp [itemsQ, itemsOKF_kw, itemsOKF_var, Tok.wf, Tok.inStrTok, render, Tok.spell, h.1, okCh, isEqExt,
    isSolo, ih _ _ _ h.2 hf]
  simp [stops, isSolo, isEqExt]

theorem sp_def (fd : FuncDef) (q : Query) (ihfd : SPFD fd) (ih : SPQ q) : SPQ (.def_ fd q) := by
  intro last stk fol hok hf
  have h : okFD fd = true ∧ OkQ q := by
    rcases hok with ⟨i, m, h⟩ | h
    · rw [okQ_def] at h
      simp only [Bool.and_eq_true] at h
      exact ⟨h.1.2, OkQ_of _ _ _ h.2⟩
    · simp [okOV] at h
  simp only [itemsQ, endLast_append, endLast] at hf
  simp [itemsQ, itemsOKF_append, endFD, render, ih _ _ _ h.2 hf]
  exact ihfd _ _ _ h.1

theorem sp_bind (s : Query) (p : Pattern) (ps : List Pattern) (b : Query) (ihs : SPQ s) (ihp : SPP p)
    (ihps : SPAltT ps) (ihb : SPQ b) : SPQ (.bind s (p :: ps) b) := by
  intro last stk fol hok hf
  have h : OkQ s ∧ okP p = true ∧ okPs ps = true ∧ OkQ b := by
    rcases hok with ⟨i, m, h⟩ | h
    · rw [okQ_bind] at h
      simp only [Bool.and_eq_true] at h
      exact ⟨OkQ_of _ _ _ h.1.1.2, h.1.2.1, h.1.2.2, OkQ_of _ _ _ h.2⟩
    · simp [okOV] at h
  simp only [itemsQ, endLast_append, endLast] at hf
  simp [itemsQ, itemsOKF_append, itemsOKF_kw, endQ, endP, endAltT, render, render_append, Tok.wf, Tok.inStrTok,
    Tok.spell, okCh, isEqExt, isSolo, ihb _ _ _ h.2.2.2 hf, ihps _ _ _ h.2.2.1]
  simp [stops, isSolo, isEqExt]
  exact ⟨ihs _ _ _ h.1 (safeB_safeHead _ 32 _ rfl), ihp _ _ _ h.2.1 (safeB_safeHead _ 32 _ rfl)⟩

end Gojq.RefTerm

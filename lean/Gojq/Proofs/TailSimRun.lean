/-
  From the turn-level diagram (`step_sim`, Proofs/TailSimStep.lean) to whole calls of `Next` and call
  histories, under the call-indexed oracle of Model/OptVM.lean (`stepC` / `loopC` / `historyC`): the
  original takes at least as many turns as the optimised code, and the turns it makes alone (the
  call / ret of dropped frames and the jumps in between) consume no oracle answer.
-/
import Gojq.Proofs.TailSimStep
import Gojq.Proofs.OptSimRefines
set_option linter.unusedSimpArgs false
set_option linter.unusedVariables false
namespace Gojq.TailVM
open Gojq Gojq.VM Gojq.OptVM

/-- the relation between two calls of `Next`, with the call counters -/
def FRelS (c c' : Array Instr) (s s' : St) : Prop := FRel c c' s.env s'.env ∧ s.polls = s'.polls

/-- one call: if the original ends properly, the optimised code ends the same way at the same fuel -/
theorem loopC_tail {c c' : Array Instr} (S : TailStatic c c') (ext : Nat → ExtRec) :
    ∀ (fuel : Nat) (lo lp : L) (so sp : St), Inv c c' lo lp so.env sp.env → so.polls = sp.polls →
    (loopC c ext fuel lo so).1.proper = true →
    (loopC c' ext fuel lp sp).1 = (loopC c ext fuel lo so).1 ∧
      FRelS c c' (loopC c ext fuel lo so).2 (loopC c' ext fuel lp sp).2 := by
  intro fuel
  induction fuel with
  | zero =>
    intro lo lp so sp hI hp hprop
    have hd := step_sim S (ext so.polls) hI
    unfold StepOut at hd
    rw [loopC_zero] at hprop ⊢
    rw [loopC_zero]
    rw [stepC_eq] at hprop ⊢
    rw [stepC_eq, ← hp]
    cases hs : stepE c (ext so.polls) lo so.env with
    | fin o ef =>
      rw [hs] at hd hprop
      simp only [StepE.toStep] at hprop
      obtain ⟨ef', h1, h2, h3⟩ := hd hprop
      rw [h1]
      exact ⟨rfl, h2, by show so.polls + _ = so.polls + _; rw [h3]⟩
    | cont lo1 eo1 =>
      rw [hs] at hprop
      simp [StepE.toStep, Outcome.proper] at hprop
  | succ n ih =>
    intro lo lp so sp hI hp hprop
    have hd := step_sim S (ext so.polls) hI
    unfold StepOut at hd
    rw [loopC_succ] at hprop ⊢
    rw [loopC_succ]
    rw [stepC_eq] at hprop ⊢
    rw [stepC_eq, ← hp]
    cases hs : stepE c (ext so.polls) lo so.env with
    | fin o ef =>
      rw [hs] at hd hprop
      simp only [StepE.toStep] at hprop
      obtain ⟨ef', h1, h2, h3⟩ := hd hprop
      rw [h1]
      exact ⟨rfl, h2, by show so.polls + _ = so.polls + _; rw [h3]⟩
    | cont lo1 eo1 =>
      rw [hs] at hd hprop
      simp only [StepE.toStep] at hprop
      rcases hd with ⟨lp1, ep1, h1, h2, h3⟩ | ⟨h2, h3⟩
      · rw [h1]
        exact ih lo1 lp1 ⟨eo1, so.polls + tickAt c lo⟩ ⟨ep1, so.polls + tickAt c' lp⟩ h2
          (by show so.polls + _ = so.polls + _; rw [h3]) hprop
      · -- the original made a turn alone: the optimised run is where it was, with one more unit of fuel
        have hsp : sp = ⟨sp.env, so.polls⟩ := by rw [hp]
        have := ih lo1 lp ⟨eo1, so.polls + tickAt c lo⟩ sp h2 (by show so.polls + _ = _; rw [h3, hp]; rfl) hprop
        have hne : (loopC c' ext n lp sp).1 ≠ .outOfFuel := by
          rw [this.1]; exact proper_ne_outOfFuel hprop
        have hmono := loopC_fuel_mono c' ext n lp sp hne
        rw [loopC_succ, stepC_eq, ← hp] at hmono
        rw [hmono]
        exact this

/-! ## `Next`'s entry -/

theorem entry_inv {c c' : Array Instr} (S : TailStatic c c') (ext : Nat → ExtRec) {s s' : St}
    (h : FRel c c' s.env s'.env) :
    Inv c c' (entry ⟨c, never, ext⟩ s) (entry ⟨c', never, ext⟩ s') s.env s'.env := by
  obtain ⟨hr, hcase⟩ := h
  obtain ⟨sc, fk, he, hs, ho⟩ := hr.elim
  have hpc : s'.env.pc = s.env.pc := by rw [he]
  have hbt : s'.env.backtrack = s.env.backtrack := by rw [he]
  have hpos := S.pos
  refine ⟨hr, hbt, rfl, .sync hpc.symm (fun hsx => ?_), ?_, ?_⟩
  · rcases hcase with ⟨h1, h2, h3, h4⟩ | ⟨h1, h2, h3⟩
    · refine ⟨h3.symm, h4.symm, ?_, .inr ?_, ?_, fun _ => ?_⟩
      · show (c.size : Int) - 1 = (c'.size : Int) - 1
        rw [S.size]
      · show (c'.size : Int) - 1 = (c.size : Int) - 1
        rw [S.size]
      · show 0 ≤ (c'.size : Int) - 1
        rw [S.size]; omega
      · show (c'.size : Int) - 1 = (c.size : Int) - 1
        rw [S.size]
    · exfalso
      obtain ⟨hs0, id, v, n, hsc⟩ := hsx
      have hsc' : c[s.env.pc.toNat]? = some (.scope id v n) := hsc
      have hlt := (Array.getElem?_eq_some_iff.mp hsc').1
      rcases h2 with h2 | ⟨_, ins, h2, h2b⟩
      · rw [S.size] at h2; omega
      · rw [S.same hsc' (by intro j e; cases e)] at h2
        simp only [Option.some.injEq] at h2
        subst h2
        simp [isBreaker] at h2b
  · intro hb
    have hb' : s'.env.backtrack = true := hb
    rcases hcase with ⟨h1, _⟩ | ⟨h1, h2, h3⟩
    · rw [hbt, h1] at hb'; cases hb'
    · exact ⟨hpc.symm, by show BtAt c' s'.env.pc; rw [hpc]; exact h2⟩
  · rcases hcase with ⟨h1, h2, h3, h4⟩ | ⟨h1, h2, h3⟩
    · refine .inr (.inr ⟨hpc.symm, ?_⟩)
      show AtScope c s'.env.pc
      rw [hpc, h2]
      exact ⟨Int.le_refl _, S.first⟩
    · rcases h3 with h3 | h3 | h3
      · exact .inl h3
      · exact .inr (.inl ⟨by show s'.env.backtrack = true; rw [hbt]; exact h1,
          .inl (by show _ ≤ s'.env.pc; rw [hpc]; exact h3)⟩)
      · exact .inr (.inl ⟨by show s'.env.backtrack = true; rw [hbt]; exact h1,
          .inr (by show AtRet c s'.env.pc; rw [hpc]; exact h3)⟩)

/-- call histories: if every call of the original ends properly, the optimised code gives the same
    history -/
theorem historyC_tail {c c' : Array Instr} (S : TailStatic c c') (ext : Nat → ExtRec) (fuel : Nat) :
    ∀ (n : Nat) (s s' : St), FRelS c c' s s' →
    (∀ o ∈ historyC c ext fuel n s, o.proper = true) →
    historyC c' ext fuel n s' = historyC c ext fuel n s := by
  intro n
  induction n with
  | zero => intro s s' _ _; rfl
  | succ n ih =>
    intro s s' hF hp
    simp only [historyC, List.mem_cons, forall_eq_or_imp] at hp
    have h1 := loopC_tail S ext fuel _ _ s s' (entry_inv S ext hF.1) hF.2 hp.1
    have h2 := ih (nextC c ext fuel s).2 (nextC c' ext fuel s').2 h1.2 hp.2
    simp only [historyC]
    rw [h2]
    congr 1
    exact h1.1

/-! ## the initial state -/

theorem foldl_push_fields (vs : List V) : ∀ (e : Env),
    ∃ st, vs.foldl (fun e v => { e with stack := e.stack.push v }) e = { e with stack := st } := by
  induction vs with
  | nil => intro e; exact ⟨e.stack, rfl⟩
  | cons v vs ih =>
    intro e
    obtain ⟨st, h⟩ := ih { e with stack := e.stack.push v }
    exact ⟨st, by rw [List.foldl_cons, h]⟩

theorem initSt_frel (c c' : Array Instr) (input : V) (vars : List V) :
    FRelS c c' (initSt input vars) (initSt input vars) := by
  unfold initSt
  obtain ⟨st, h⟩ := foldl_push_fields vars.reverse { ({} : Env) with stack := ({} : Env).stack.push input }
  refine ⟨?_, rfl⟩
  simp only
  rw [h]
  have hm1 : (-1 : Int) < 0 := by decide
  have hm2 : (-1 : Int) ≤ -1 := by decide
  have hm3 : (-1 : Int) < ((0 : Nat) : Int) := by decide
  have hm4 : (0 : Int) ≤ ((0 : Nat) : Int) := by decide
  refine ⟨⟨rfl, ⟨.nil hm1 hm1, trivial, ⟨hm2, hm3⟩, ⟨hm2, hm3⟩, trivial, trivial⟩,
    ⟨hm4, ?_, ?_⟩⟩, .inl ⟨rfl, rfl, rfl, rfl⟩⟩
  · intro j b hb
    simp at hb
  · intro f hf
    simp at hf

/-- THE SIMULATION, for any code pair satisfying the static conditions: from `execute`'s initial
    state, under every call-indexed oracle, at every fuel, if the first `n` calls of `Next` on the
    original end properly then the optimised code returns the same `n` outcomes -/
theorem tail_refines {c c' : Array Instr} (S : TailStatic c c') (ext : Nat → ExtRec) (fuel n : Nat)
    (input : V) (vars : List V)
    (hp : ∀ o ∈ historyC c ext fuel n (initSt input vars), o.proper = true) :
    historyC c' ext fuel n (initSt input vars) = historyC c ext fuel n (initSt input vars) :=
  historyC_tail S ext fuel n _ _ (initSt_frel c c' input vars) hp

end Gojq.TailVM

/-
  The lexer delivers well-formed tokens, part 2: string values.  The text `scanString` accepts
  consists of plain bytes and valid escapes (`Escaped`); decoding such a text gives valid UTF-8,
  non-empty for a non-empty text — hence a value that prints and decodes back (`okLit`).
-/
import Gojq.Proofs.LexImage1
import Gojq.Proofs.RoundTripStrLit
namespace Gojq.RefTerm
open Gojq Gojq.Lexer Gojq.Printer Gojq.Utf8

def isEsc2 (e : UInt8) : Bool :=
  e == 34 || e == 47 || e == 92 || e == 98 || e == 102 || e == 110 || e == 114 || e == 116

/-- the text of a string literal between two delimiters, as `scanString` accepts it -/
inductive Escaped : Bytes → Prop where
  | nil : Escaped []
  | plain (c : UInt8) (raw : Bytes) : c ≠ 92 → c ≠ 34 → Escaped raw → Escaped (c :: raw)
  | esc2 (e : UInt8) (raw : Bytes) : isEsc2 e = true → Escaped raw → Escaped (92 :: e :: raw)
  | escU (a b c d : UInt8) (raw : Bytes) : isHex a = true → isHex b = true → isHex c = true → isHex d = true →
      Escaped raw → Escaped (92 :: 117 :: a :: b :: c :: d :: raw)

theorem scanString_escaped (r : Bytes) (k0 : Nat) : ∀ k, (scanString r k0 = .quote k ∨ scanString r k0 = .interp k) →
    k0 ≤ k ∧ Escaped (r.take (k - k0)) := by
  fun_induction scanString r k0
  case case3 c k hc e he a b c' d r4 hh ih =>
    intro K h
    obtain ⟨h1, h2⟩ := ih K h
    simp only [beq_iff_eq] at hc he
    subst hc he
    simp only [Bool.and_eq_true] at hh
    refine ⟨by omega, ?_⟩
    have : K - k = (K - (k + 6)) + 6 := by omega
    rw [this]
    simp only [List.take_succ_cons]
    exact .escU a b c' d _ hh.1.1.1 hh.1.1.2 hh.1.2 hh.2 h2
  case case6 c k hc e r' hne he ih =>
    intro K h
    obtain ⟨h1, h2⟩ := ih K h
    simp only [beq_iff_eq] at hc
    subst hc
    refine ⟨by omega, ?_⟩
    have : K - k = (K - (k + 2)) + 2 := by omega
    rw [this]
    simp only [List.take_succ_cons]
    exact .esc2 e _ (by simpa [isEsc2] using he) h2
  case case7 =>
    intro K h
    rcases h with h | h <;> simp at h
    subst h; simp; exact .nil
  case case9 =>
    intro K h
    rcases h with h | h <;> simp at h
    subst h; simp; exact .nil
  case case10 c r k h92 h34 ih =>
    intro K h
    obtain ⟨h1, h2⟩ := ih K h
    refine ⟨by omega, ?_⟩
    have : K - k = (K - (k + 1)) + 1 := by omega
    rw [this]
    simp only [List.take_succ_cons]
    exact .plain c _ (by simpa using h92) (by simpa using h34) h2
  all_goals (intro K h; simp at h)

theorem escaped_tail (c : UInt8) (t : Bytes) (hc : c ≠ 92) (h : Escaped (c :: t)) : Escaped t := by
  cases h with
  | plain _ _ _ _ h' => exact h'
  | esc2 _ _ _ _ => exact absurd rfl hc
  | escU _ _ _ _ _ _ _ _ _ _ => exact absurd rfl hc

theorem escaped_drop : ∀ (m : Nat) (s : Bytes), Escaped s → (∀ x ∈ s.take m, x ≠ 92) → Escaped (s.drop m) := by
  intro m
  induction m with
  | zero => intro s h _; simpa using h
  | succ m ih =>
    intro s h hx
    cases s with
    | nil => simpa using h
    | cons c t =>
      have hc := hx c (by simp)
      exact ih t (escaped_tail c t hc h) (fun x hx' => hx x (by simp [hx']))

/-- the bytes of one rune in front of valid UTF-8 are valid UTF-8 -/
theorem validU_encodeRune (rr : Nat) (X : Bytes) (hX : ValidU X) : ValidU (encodeRune rr ++ X) := by
  have key : ∃ c', Gojq.Codec.isScalar c' = true ∧ encodeRune rr = encodeRune c' := by
    by_cases hs : Gojq.Codec.isScalar rr = true
    · exact ⟨rr, hs, rfl⟩
    · refine ⟨0xFFFD, by decide, ?_⟩
      have : (0xD800 ≤ rr ∧ rr ≤ 0xDFFF) ∨ 0x10FFFF < rr := by
        simp [Gojq.Codec.isScalar] at hs; omega
      rw [Gojq.Codec.encodeRune_bad rr this]
      decide
  obtain ⟨c', hs, e⟩ := key
  rw [e]
  have hd := Gojq.Codec.decode_encode c' hs X
  have hl := Gojq.Codec.encodeRune_length_pos c'
  cases he : encodeRune c' with
  | nil => rw [he] at hl; simp at hl
  | cons b tl =>
    rw [he] at hd hl
    refine .step b (tl ++ X) c' (b :: tl).length hd ?_
    have : max (b :: tl).length 1 = (b :: tl).length := Nat.max_eq_left hl
    rw [this]
    have e2 : b :: (tl ++ X) = (b :: tl) ++ X := rfl
    rw [e2, List.drop_left']
    · exact hX
    · rfl

theorem validU_ascii (c : UInt8) (X : Bytes) (hc : c.toNat < 128) (hX : ValidU X) : ValidU (c :: X) :=
  .step c X c.toNat 1 (Gojq.Encode.decodeRune_ascii hc X) (by simpa using hX)

theorem encodeRune_ne_nil (rr : Nat) : encodeRune rr ≠ [] := by
  have := Gojq.Codec.encodeRune_length_pos rr
  intro e; rw [e] at this; simp at this

/-- decoding an accepted text gives valid UTF-8 -/
theorem unquote_valid : ∀ (n : Nat) (raw : Bytes), raw.length ≤ n → Escaped raw → ∀ f, raw.length < f →
    ValidU (unquote f raw) ∧ (raw ≠ [] → unquote f raw ≠ []) := by
  intro n
  induction n with
  | zero =>
    intro raw hl _ f _
    have : raw = [] := List.length_eq_zero_iff.mp (by omega)
    subst this
    cases f <;> exact ⟨by simp [unquote]; exact .nil, fun h => absurd rfl h⟩
  | succ n ih =>
    intro raw hl hesc f hf
    obtain ⟨f', rfl⟩ : ∃ k, f = k + 1 := ⟨f - 1, by omega⟩
    cases hesc with
    | nil => exact ⟨by simp [unquote]; exact .nil, fun h => absurd rfl h⟩
    | plain c raw' h92 h34 hr =>
      simp only [List.length_cons] at hl hf
      by_cases hc : c.toNat < 128
      · have hlt : c < 128 := hc
        have e : unquote (f' + 1) (c :: raw') = c :: unquote f' raw' := by
          rw [unquote.eq_def]; simp [h92, hlt]
        rw [e]
        exact ⟨validU_ascii c _ hc (ih raw' (by omega) hr f' (by omega)).1, by simp⟩
      · have hnlt : ¬ c < 128 := hc
        have e : unquote (f' + 1) (c :: raw') =
            encodeRune (decodeRune (c :: raw')).1 ++
              unquote f' ((c :: raw').drop (max (decodeRune (c :: raw')).2.1 1)) := by
          rw [unquote.eq_def]; simp [h92, hnlt]
        rw [e]
        have hw := decodeRune_width c raw'
        have hdrop : Escaped ((c :: raw').drop (max (decodeRune (c :: raw')).2.1 1)) := by
          refine escaped_drop _ _ (.plain c raw' h92 h34 hr) ?_
          intro x hx
          cases hv : (decodeRune (c :: raw')).2.2
          · have := decodeRune_invalid_width c raw' hv
            rw [this] at hx
            simp at hx; subst hx; exact h92
          · have hb := decodeRune_valid_bytes (c :: raw') hv (by simp; omega)
            have hm : max (decodeRune (c :: raw')).2.1 1 = (decodeRune (c :: raw')).2.1 := Nat.max_eq_left hw.1
            rw [hm] at hx
            have := hb x hx
            intro e; subst e; simp at this
        have hlen : ((c :: raw').drop (max (decodeRune (c :: raw')).2.1 1)).length ≤ n := by
          simp only [List.length_drop, List.length_cons]; omega
        have := ih _ hlen hdrop f' (by simp only [List.length_drop, List.length_cons]; omega)
        exact ⟨validU_encodeRune _ _ this.1, by simp [encodeRune_ne_nil]⟩
    | esc2 e raw' he hr =>
      simp only [List.length_cons] at hl hf
      have hne : (e == 117) = false := by
        simp only [isEsc2, Bool.or_eq_true, beq_iff_eq] at he
        rcases he with ((((((h | h) | h) | h) | h) | h) | h) | h <;> subst h <;> decide
      have e' : ∃ b : UInt8, b.toNat < 128 ∧ unquote (f' + 1) (92 :: e :: raw') = b :: unquote f' raw' := by
        rw [unquote.eq_def]
        simp only [beq_self_eq_true, if_true, hne, Bool.false_eq_true, if_false]
        refine ⟨_, ?_, rfl⟩
        simp only [isEsc2, Bool.or_eq_true, beq_iff_eq] at he
        rcases he with ((((((h | h) | h) | h) | h) | h) | h) | h <;> subst h <;> decide
      obtain ⟨b, hb, e2⟩ := e'
      rw [e2]
      exact ⟨validU_ascii b _ hb (ih raw' (by omega) hr f' (by omega)).1, by simp⟩
    | escU a b c d raw' ha hb hc hd hr =>
      simp only [List.length_cons] at hl hf
      have hr4 := (ih raw' (by omega) hr f' (by omega)).1
      rw [unquote.eq_def]
      simp only [beq_self_eq_true, if_true]
      split
      · -- a surrogate
        split
        · next a2 b2 c2 d2 r10 =>
          split
          · have hr10 : Escaped r10 := by
              cases hr with
              | plain _ _ h92 _ _ => exact absurd rfl h92
              | esc2 _ _ he _ => simp [isEsc2] at he
              | escU _ _ _ _ _ _ _ _ _ h' => exact h'
            simp only [List.length_cons] at hl hf
            have := ih r10 (by omega) hr10 f' (by omega)
            exact ⟨validU_encodeRune _ _ this.1, by simp [encodeRune_ne_nil]⟩
          · exact ⟨validU_encodeRune _ _ hr4, by simp [encodeRune_ne_nil]⟩
        · exact ⟨validU_encodeRune _ _ hr4, by simp [encodeRune_ne_nil]⟩
      · exact ⟨validU_encodeRune _ _ hr4, by simp [encodeRune_ne_nil]⟩

/-- valid UTF-8 as a derivation implies the Boolean check -/
theorem valid_of_validU (s : Bytes) (h : ValidU s) : ∀ n, s.length ≤ n → validAux n s = true := by
  induction h with
  | nil => intro n _; cases n <;> simp [validAux]
  | step c r rr w hdec _ ih =>
    intro n hn
    obtain ⟨n', rfl⟩ : ∃ k, n = k + 1 := ⟨n - 1, by simp at hn; omega⟩
    simp only [validAux, hdec, Bool.true_and]
    apply ih
    simp only [List.length_drop, List.length_cons] at hn ⊢
    omega

/-- THE VALUE OF A SCANNED STRING PRINTS AND DECODES BACK -/
theorem okLit_unquote (raw : Bytes) (h : Escaped raw) : okLit (unquoteStr raw) = true := by
  have hv := (unquote_valid raw.length raw (Nat.le_refl _) h (raw.length + 1) (by omega)).1
  exact okLit_of_valid _ (valid_of_validU _ hv _ (Nat.le_refl _))

theorem unquoteStr_ne_nil (raw : Bytes) (h : Escaped raw) (hne : raw ≠ []) : unquoteStr raw ≠ [] :=
  (unquote_valid raw.length raw (Nat.le_refl _) h (raw.length + 1) (by omega)).2 hne

end Gojq.RefTerm

/-
  `compile_yields`, the case `foreach src as $x (init; upd; ext)` (C01.3).  Core Lean only.
-/
import Gojq.Proofs.MiniVMRefineLoop
namespace Gojq.MiniVM
variable [IterMsg]
set_option linter.unusedSectionVars false

theorem bindL_cons_seq (f : V → Res) (x : V) (xs : List V) (s : Stop) :
    Res.bindL f (x :: xs) s = (f x).seq (Res.bindL f xs s) := by
  simp only [Res.bindL, Res.seq]

theorem Res.seq_assoc (a b c : Res) : (a.seq b).seq c = a.seq (b.seq c) := by
  rcases a with ⟨oa, sa⟩
  cases sa with
  | done =>
    rcases b with ⟨ob, sb⟩
    cases sb <;> simp [Res.seq, List.append_assoc]
  | err e => simp [Res.seq]
  | diverge => simp [Res.seq]

/-- the update of `foreach` for one element of the source: every output is duplicated, stored
    into the state register and passed to the extractor; when the update is exhausted the machine
    fails into the pending forks `F'` of the source with the register holding the update's last
    output, and `tail` says how it goes on -/
theorem foreach_upd_aux {code Ou Pu o1 fr G pq S c us eu}
    (yu : Yields code Ou Pu o1 fr G pq S c us eu) :
    ∀ {O P K Oe : Nat → Prop} {o : Nat} {F F' : List Fork} {pend sid i : Nat} {f : Frame} {d : Nat}
      {ext : V → Res} {r2 : Res} {Rref : Regs} (su : Stop) (cur : V),
    eu = su.toErr → G = F' ++ F → ForksOK code F' →
    code[pq]? = some .dup → code[pq+1]? = some (.store sid i) →
    resolve sid fr (fr.length - 1) = some (f, d) →
    O (f.base + i) → ¬ Ou (f.base + i) → ¬ Pu (f.base + i) → ¬ Oe (f.base + i) → f.base + i < o1 →
    (∀ a, Ou a → O a ∨ (o ≤ a ∧ a < o1)) → (∀ a, Oe a → O a ∨ (o ≤ a ∧ a < o1)) →
    (∀ a, Pu a → O a ∨ P a ∨ (o ≤ a ∧ a < o1)) → o ≤ o1 →
    (∀ a, Ou a → ¬ Oe a) → (∀ a, Ou a → a < o1) → (∀ a, Oe a → a < o1) → (∀ a, Pu a → a < o1 ∧ ¬ Oe a) →
    (∀ a, K a → O a ∨ P a ∨ (o ≤ a ∧ a < o1)) → (∀ a, K a → ¬ Wr Ou o1 a) → (∀ a, K a → ¬ Wr Oe o1 a) →
    (∀ a, K a → a ≠ f.base + i) →
    (∀ u G' R1 oo cp, o1 ≤ oo → R1 (f.base + i) = .v u → EqOn K Rref R1 → ND (ext u).stop →
      Yields code Oe Pu oo fr G' pend S (.run (pq+2) (.v u :: S) G' false none R1 fr oo cp) (ext u).outs (ext u).stop.toErr) →
    (F' = [] → r2.outs = [] ∧ r2.stop.toErr = none) →
    EqOn K Rref c.regs → c.regs (f.base + i) = .v cur →
    (ND r2.stop → ∀ R', EqOn K Rref R' → R' (f.base + i) = .v (us.getLast?.getD cur) →
      Yields code O P o fr F pend S (.fail (F' ++ F) none R') r2.outs r2.stop.toErr) →
    ND ((Res.bindL ext us su).seq r2).stop →
    Yields code O P o fr F pend S c ((Res.bindL ext us su).seq r2).outs ((Res.bindL ext us su).seq r2).stop.toErr := by
  induction yu with
  | @done c e' R' hs hf =>
    intro O P K Oe o F F' pend sid i f d ext r2 Rref su cur hsu hG hF' _ _ _ _ hrU _ _ hrlt hOu _ _ ho _ _ _ _ _ hd _ _ _ _ hK hcur tail hnd
    subst hG
    have hW : ∀ a, Wr Ou o1 a → Wr O o a := by
      intro a h; rcases h with h | h
      · rcases hOu a h with h | h
        · exact Or.inl h
        · exact Or.inr h.1
      · exact Or.inr (Nat.le_trans ho h)
    have hnw : ¬ Wr Ou o1 (f.base + i) := by
      intro h; rcases h with h | h
      · exact hrU h
      · omega
    have hcur' : R' (f.base + i) = .v cur := by rw [← hf _ hnw]; exact hcur
    cases su with
    | diverge => simp [Res.bindL, Res.seq, ND] at hnd
    | done =>
      simp only [Stop.toErr] at hsu
      subst hsu
      have hr2 : ND r2.stop := by simpa [Res.bindL, Res.seq] using hnd
      have := (tail hr2 R' (hK.trans (hf.toOn hd)) (by simpa using hcur')).steps_left hs (hf.mono hW)
      simpa [Res.bindL, Res.seq] using this
    | err ee =>
      simp only [Stop.toErr] at hsu
      subst hsu
      simp only [Res.bindL, Res.seq, Stop.toErr]
      exact .done (e := some ee) (hs.trans (err_through hF' F (.plain ee) R')) (hf.mono hW)
  | @out c u us' e' F'' R1 oo cp hF'' hs ho1 hf hn _ ih =>
    intro O P K Oe o F F' pend sid i f d ext r2 Rref su cur hsu hG hF' c0 c1 hres hrO hrU hrPu hrE hrlt hOu hOe hPu ho hUE hUlt hElt hPlt hk hd hdE hkr hext hnil hK hcur tail hnd
    subst hG
    have hW : ∀ a, Wr Ou o1 a → Wr O o a := by
      intro a h; rcases h with h | h
      · rcases hOu a h with h | h
        · exact Or.inl h
        · exact Or.inr h.1
      · exact Or.inr (Nat.le_trans ho h)
    have hnw : ¬ Wr Ou o1 (f.base + i) := by
      intro h; rcases h with h | h
      · exact hrU h
      · omega
    have hcur1 : R1 (f.base + i) = .v cur := by rw [← hf _ hnw]; exact hcur
    have hK1 : EqOn K Rref R1 := hK.trans (hf.toOn hd)
    let R1' := R1.set (f.base + i) (.v u)
    have hK1' : EqOn K Rref R1' := by
      intro a ha
      rw [hK1 a ha]; simp [R1', Regs.set, hkr a ha]
    have hsteps : Steps code c (.run (pq+2) (.v u :: S) (F'' ++ (F' ++ F)) false none R1' fr oo cp) := by
      refine hs.trans ?_
      refine .head (c' := .run (pq+1) (.v u :: .v u :: S) (F'' ++ (F' ++ F)) false none R1 fr oo cp) (by simp [step, c0]) ?_
      refine Steps.one ?_
      rw [step_store c1 hres]
    have hfr1 : EqOff (Wr O o) c.regs R1' := by
      intro a ha
      have hne : a ≠ f.base + i := fun h => ha (Or.inl (h ▸ hrO))
      rw [hf.mono hW a ha]; simp [R1', Regs.set, hne]
    rw [bindL_cons_seq, Res.seq_assoc] at hnd ⊢
    have hndx : ND (ext u).stop := by
      rcases hx : ext u with ⟨ox, sx⟩
      rw [hx] at hnd
      cases sx with
      | diverge => simp [Res.seq, ND] at hnd
      | done => simp [ND]
      | err ex => simp [ND]
    have ye := hext u (F'' ++ (F' ++ F)) R1' oo cp ho1 (by simp [R1', Regs.set]) hK1' hndx
    have hOe' : ∀ a, Oe a → O a ∨ (o ≤ a ∧ a < oo) := by
      intro a h; rcases hOe a h with h | h
      · exact Or.inl h
      · exact Or.inr ⟨h.1, by omega⟩
    have hPu' : ∀ a, Pu a → O a ∨ P a ∨ (o ≤ a ∧ a < oo) := by
      intro a h; rcases hPu a h with h | h | h
      · exact Or.inl h
      · exact Or.inr (Or.inl h)
      · exact Or.inr (Or.inr ⟨h.1, by omega⟩)
    have hassoc : F'' ++ (F' ++ F) = (F'' ++ F') ++ F := by simp
    rw [hassoc] at ye hsteps
    rcases hx : ext u with ⟨ox, sx⟩
    rw [hx] at ye hnd hndx
    cases sx with
    | diverge => simp [ND] at hndx
    | err ex =>
      simp only [Res.seq, Stop.toErr] at ye ⊢
      exact (Yields.rebase_err ye (hF''.append hF') hOe' hPu' (Nat.le_trans ho ho1)).steps_left hsteps hfr1
    | done =>
      simp only [Stop.toErr] at ye
      have hseq : (Res.seq ⟨ox, .done⟩ ((Res.bindL ext us' su).seq r2)) =
          ⟨ox ++ ((Res.bindL ext us' su).seq r2).outs, ((Res.bindL ext us' su).seq r2).stop⟩ := rfl
      rw [hseq] at hnd ⊢
      simp only [] at hnd ⊢
      refine (Yields.rebase (K := fun a => KeepP Ou Pu o1 oo a ∨ K a ∨ a = f.base + i) ye (hF''.append hF') hOe' hPu'
        (Nat.le_trans ho ho1) ?_ ?_ ?_ ?_).steps_left hsteps hfr1
      · intro a h
        rcases h with ((h | h) | h) | h | h
        · rcases hOu a h with h | h
          · exact Or.inl h
          · exact Or.inr (Or.inr ⟨h.1, by omega⟩)
        · exact hPu' a h
        · exact Or.inr (Or.inr ⟨by omega, h.2⟩)
        · rcases hk a h with h | h | h
          · exact Or.inl h
          · exact Or.inr (Or.inl h)
          · exact Or.inr (Or.inr ⟨h.1, by omega⟩)
        · exact Or.inl (h ▸ hrO)
      · intro a h hw
        rcases h with ((h | h) | h) | h | h
        · rcases hw with hw | hw
          · exact hUE a h hw
          · have := hUlt a h; omega
        · rcases hw with hw | hw
          · exact (hPlt a h).2 hw
          · have := (hPlt a h).1; omega
        · rcases hw with hw | hw
          · have := hElt a hw; omega
          · omega
        · rcases hw with hw | hw
          · exact hdE a h (Or.inl hw)
          · exact hdE a h (Or.inr (by omega))
        · subst h
          rcases hw with hw | hw
          · exact hrE hw
          · omega
      · intro hnl _
        have h1 : F'' = [] := (List.append_eq_nil_iff.mp hnl).1
        have h2 : F' = [] := (List.append_eq_nil_iff.mp hnl).2
        obtain ⟨rfl, rfl⟩ := hn h1
        obtain ⟨hr1, hr2⟩ := hnil h2
        cases su with
        | done => simp [Res.bindL, Res.seq, hr1, hr2]
        | err ee => simp [Stop.toErr] at hsu
        | diverge => simp [Res.bindL, Res.seq, ND] at hnd
      · intro R' hR'
        have hR1 : EqOn (KeepP Ou Pu o1 oo) R1 R' := by
          intro a ha
          have hne : a ≠ f.base + i := by
            intro h; subst h
            rcases ha with (ha | ha) | ha
            · exact hrU ha
            · exact hrPu ha
            · omega
          rw [← hR' a (Or.inl ha)]; simp [R1', Regs.set, hne]
        have hKR : EqOn K Rref R' := by
          intro a ha
          rw [hK1' a ha]; exact hR' a (Or.inr (Or.inl ha))
        have hcR : R' (f.base + i) = .v u := by
          rw [← hR' _ (Or.inr (Or.inr rfl))]; simp [R1', Regs.set]
        have := ih R' hR1 su u hsu rfl hF' c0 c1 hres hrO hrU hrPu hrE hrlt hOu hOe hPu ho hUE hUlt hElt hPlt hk hd hdE hkr hext hnil
          (by simpa using hKR) (by simpa using hcR)
          (fun hr2 R'' h1 h2 => tail hr2 R'' h1 (by rw [getLast?_getD_cons]; exact h2)) hnd
        rw [hassoc] at this
        exact this

/-- the loop of `foreach` over the outputs of the source.  `helem`: one element (from the exit of
    the source: store `$x`, load the state, update, extract), given how it goes on afterwards. -/
theorem foreach_src_aux {code Os P o fr F px S c ws es}
    (ys : Yields code Os P o fr F px S c ws es) :
    ∀ {O K : Nat → Prop} {pend i : Nat} {f : Frame} {upd ext : V → V → Res} {Rref : Regs}
      (ss : Stop) (cur : V),
    es = ss.toErr →
    ¬ Os (f.base + i) → f.base + i < o →
    (∀ a, Os a → O a) → (∀ a, K a → ¬ Wr Os o a) →
    (∀ w F'' R1 oo cp s r2, ForksOK code F'' → o ≤ oo → R1 (f.base + i) = .v s → EqOn K Rref R1 →
      (F'' = [] → r2.outs = [] ∧ r2.stop.toErr = none) →
      (ND r2.stop → ∀ R', EqOn (KeepP Os P o oo) R1 R' → EqOn K Rref R' →
        R' (f.base + i) = .v ((upd w s).outs.getLast?.getD s) →
        Yields code O P o fr F pend S (.fail (F'' ++ F) none R') r2.outs r2.stop.toErr) →
      ND (guardND (upd w s) ((Res.bindL (ext w) (upd w s).outs (upd w s).stop).seq r2)).stop →
      Yields code O P o fr F pend S (.run px (.v w :: S) (F'' ++ F) false none R1 fr oo cp)
        (guardND (upd w s) ((Res.bindL (ext w) (upd w s).outs (upd w s).stop).seq r2)).outs
        (guardND (upd w s) ((Res.bindL (ext w) (upd w s).outs (upd w s).stop).seq r2)).stop.toErr) →
    EqOn K Rref c.regs → c.regs (f.base + i) = .v cur → ND (foreachL upd ext ss ws cur).stop →
    Yields code O P o fr F pend S c (foreachL upd ext ss ws cur).outs (foreachL upd ext ss ws cur).stop.toErr := by
  induction ys with
  | @done c e' R' hs hf =>
    intro O K pend i f upd ext Rref ss cur hss _ _ hO _ _ _ _ _
    have hW : ∀ a, Wr Os o a → Wr O o a := fun a h => h.elim (fun h => Or.inl (hO a h)) Or.inr
    simp only [foreachL]
    exact .done (e := ss.toErr) (by rw [← hss]; exact hs) (hf.mono hW)
  | @out c w ws' e' F'' R1 oo cp hF'' hs ho1 hf hn _ ih =>
    intro O K pend i f upd ext Rref ss cur hss hrs hrlt hO hd helem hK hcur hnd
    have hW : ∀ a, Wr Os o a → Wr O o a := fun a h => h.elim (fun h => Or.inl (hO a h)) Or.inr
    have hnw : ¬ Wr Os o (f.base + i) := by
      intro h; rcases h with h | h
      · exact hrs h
      · omega
    have hcur1 : R1 (f.base + i) = .v cur := by rw [← hf _ hnw]; exact hcur
    have hK1 : EqOn K Rref R1 := hK.trans (hf.toOn hd)
    simp only [foreachL] at hnd ⊢
    have := helem w F'' R1 oo cp cur (foreachL upd ext ss ws' ((upd w cur).outs.getLast?.getD cur)) hF'' ho1 hcur1 hK1
      (by
        intro hnl
        obtain ⟨rfl, rfl⟩ := hn hnl
        simp only [foreachL]
        exact ⟨trivial, hss.symm⟩)
      (fun hr2 R' h1 h2 h3 => ih R' h1 ss _ hss hrs hrlt hO hd helem (by simpa using h2) (by simpa using h3) hr2)
      hnd
    exact this.steps_left hs (hf.mono hW)

theorem eval_foreach_nd_left {defs n g ρ x src init upd ext v}
    (h : ND (eval defs (n+1) g ρ (.foreach x src init upd ext) v).stop) : ND (eval defs n g ρ init v).stop := by
  simp only [eval] at h
  generalize eval defs n g ρ init v = ri at h
  rcases ri with ⟨oi, si⟩
  cases si <;> simp_all [ND]

theorem eval_foreach_of_nd {defs n g ρ x src init upd ext v} (h : ND (eval defs n g ρ init v).stop) :
    eval defs (n+1) g ρ (.foreach x src init upd ext) v =
      Res.bindL (fun s0 =>
        guardND (eval defs n g ρ src v)
          (foreachL (fun w s => eval defs n g ⟨ρ.clo, (x, w) :: ρ.vars⟩ upd s)
            (fun w u => eval defs n g ⟨ρ.clo, (x, w) :: ρ.vars⟩ ext u)
            (eval defs n g ρ src v).stop (eval defs n g ρ src v).outs s0))
        (eval defs n g ρ init v).outs (eval defs n g ρ init v).stop := by
  simp only [eval]
  generalize eval defs n g ρ init v = ri at h
  rcases ri with ⟨oi, si⟩
  cases si <;> simp_all [ND]

theorem cy_foreach {code defs entry nf n} (hfun : FuncsOK code defs entry nf) (ihn : CY code defs entry nf n)
    (x : Nat) (src init upd ext : Q) :
    CYq code defs entry nf (n+1) (.foreach x src init upd ext) := by
  intro g e p hep hseg hcl ρ v S F R fr o cp P htop hge hpar hP henv hoff hnd
  simp only [compile] at hseg hoff ⊢
  simp only [Q.Closed] at hcl
  simp only [Q.HasParam] at hpar
  obtain ⟨ft, hres, hbase, _, _⟩ := htop.resolve
  generalize hci : compile entry g e (p+1) init = ci at hseg hoff ⊢
  generalize hpst : p + 1 + ci.length = pst at hseg hoff ⊢
  generalize hcs : compile entry g e (pst + 1) src = cs at hseg hoff ⊢
  generalize hpx : pst + 1 + cs.length = px at hseg hoff ⊢
  generalize hcu : compile entry ⟨g.fn, (x, px - e) :: g.vars⟩ e (px + 2) upd = cu at hseg hoff ⊢
  generalize hce : compile entry ⟨g.fn, (x, px - e) :: g.vars⟩ e (px + 2 + cu.length + 2) ext = ce at hseg hoff ⊢
  have h0 : code[p]? = some .dup := by have := hseg 0 (by simp); simpa using this
  have hsi : Seg code (p+1) ci := by
    have := Seg.append_right (a := [Instr.dup]) (b := ci)
      (Seg.append_left (Seg.append_left (Seg.append_left (Seg.append_left (Seg.append_left (Seg.append_left hseg))))))
    simpa using this
  have a0 : code[pst]? = some (.store e (pst - e)) := by
    have := Seg.append_right (a := [Instr.dup] ++ ci) (b := [Instr.store e (pst - e)])
      (Seg.append_left (Seg.append_left (Seg.append_left (Seg.append_left (Seg.append_left hseg)))))
    have e1 : p + ([Instr.dup] ++ ci).length = pst := by simp; omega
    rw [e1] at this; exact Seg.head this
  have hss : Seg code (pst + 1) cs := by
    have := Seg.append_right (a := [Instr.dup] ++ ci ++ [Instr.store e (pst - e)]) (b := cs)
      (Seg.append_left (Seg.append_left (Seg.append_left (Seg.append_left hseg))))
    have e2 : p + ([Instr.dup] ++ ci ++ [Instr.store e (pst - e)]).length = pst + 1 := by simp; omega
    rw [e2] at this; exact this
  have hm2 := Seg.append_right (a := [Instr.dup] ++ ci ++ [Instr.store e (pst - e)] ++ cs)
    (b := [Instr.store e (px - e), .load e (pst - e)]) (Seg.append_left (Seg.append_left (Seg.append_left hseg)))
  have e3 : p + ([Instr.dup] ++ ci ++ [Instr.store e (pst - e)] ++ cs).length = px := by simp; omega
  rw [e3] at hm2
  have b0 : code[px]? = some (.store e (px - e)) := by have := hm2 0 (by simp); simpa using this
  have b1 : code[px+1]? = some (.load e (pst - e)) := by have := hm2 1 (by simp); simpa using this
  have hsu : Seg code (px + 2) cu := by
    have := Seg.append_right (a := [Instr.dup] ++ ci ++ [Instr.store e (pst - e)] ++ cs ++
      [Instr.store e (px - e), .load e (pst - e)]) (b := cu) (Seg.append_left (Seg.append_left hseg))
    have e4 : p + ([Instr.dup] ++ ci ++ [Instr.store e (pst - e)] ++ cs ++
      [Instr.store e (px - e), .load e (pst - e)]).length = px + 2 := by simp; omega
    rw [e4] at this; exact this
  have hm3 := Seg.append_right (a := [Instr.dup] ++ ci ++ [Instr.store e (pst - e)] ++ cs ++
      [Instr.store e (px - e), .load e (pst - e)] ++ cu) (b := [Instr.dup, .store e (pst - e)]) (Seg.append_left hseg)
  have e5 : p + ([Instr.dup] ++ ci ++ [Instr.store e (pst - e)] ++ cs ++
      [Instr.store e (px - e), .load e (pst - e)] ++ cu).length = px + 2 + cu.length := by simp; omega
  rw [e5] at hm3
  have q0 : code[px + 2 + cu.length]? = some .dup := by have := hm3 0 (by simp); simpa using this
  have q1 : code[px + 2 + cu.length + 1]? = some (.store e (pst - e)) := by have := hm3 1 (by simp); simpa using this
  have hse : Seg code (px + 2 + cu.length + 2) ce := by
    have := Seg.append_right (a := [Instr.dup] ++ ci ++ [Instr.store e (pst - e)] ++ cs ++
      [Instr.store e (px - e), .load e (pst - e)] ++ cu ++ [Instr.dup, .store e (pst - e)]) (b := ce) hseg
    have e6 : p + ([Instr.dup] ++ ci ++ [Instr.store e (pst - e)] ++ cs ++
      [Instr.store e (px - e), .load e (pst - e)] ++ cu ++ [Instr.dup, .store e (pst - e)]).length = px + 2 + cu.length + 2 := by
      simp; omega
    rw [e6] at this; exact this
  have hlen : ([Instr.dup] ++ ci ++ [Instr.store e (pst - e)] ++ cs ++
      [Instr.store e (px - e), .load e (pst - e)] ++ cu ++ [Instr.dup, .store e (pst - e)] ++ ce).length
      = 1 + ci.length + 1 + cs.length + 2 + cu.length + 2 + ce.length := by simp; omega
  rw [hlen] at hoff ⊢
  have hexit : p + (1 + ci.length + 1 + cs.length + 2 + cu.length + 2 + ce.length) = px + 2 + cu.length + 2 + ce.length := by omega
  rw [hexit]
  let rs := ft.base + (pst - e)
  let rx := ft.base + (px - e)
  have hrsP : ¬ P rs := by intro h; have := hP _ h; simp only [rs] at this; omega
  have hrxP : ¬ P rx := by intro h; have := hP _ h; simp only [rx] at this; omega
  have hne : rs ≠ rx := by simp only [rs, rx]; omega
  have hndi : ND (eval defs n g ρ init v).stop := eval_foreach_nd_left hnd
  rw [eval_foreach_of_nd hndi] at hnd ⊢
  have start : Steps code (.run p (.v v :: S) F false none R fr o cp) (.run (p+1) (.v v :: .v v :: S) F false none R fr o cp) :=
    Steps.one (by simp [step, h0])
  refine Yields.steps_left start EqOff.refl ?_
  have yi := ihn init g e (p+1) (by omega) (hci ▸ hsi) hcl.2.1 ρ v (.v v :: S) F R fr o cp P htop hge
    (fun h => hpar (Or.inr (Or.inl h))) (fun a h => by have := hP a h; omega) henv (by rw [hci]; omega) hndi
  rw [hci, hpst] at yi
  have := Yields.bind (R0 := R)
    (f := fun s0 => guardND (eval defs n g ρ src v)
      (foreachL (fun w s => eval defs n g ⟨ρ.clo, (x, w) :: ρ.vars⟩ upd s)
        (fun w u => eval defs n g ⟨ρ.clo, (x, w) :: ρ.vars⟩ ext u)
        (eval defs n g ρ src v).stop (eval defs n g ρ src v).outs s0))
    (Oa := Own (base fr) e (p+1) ci.length)
    (Ob := Own (base fr) e pst (1 + cs.length + 2 + cu.length + 2 + ce.length))
    (O := Own (base fr) e p (1 + ci.length + 1 + cs.length + 2 + cu.length + 2 + ce.length))
    (p' := px + 2 + cu.length + 2 + ce.length) (S := S)
    (by intro i h; obtain ⟨j, h1, h2, h3⟩ := h; exact ⟨j, by omega, by omega, h3⟩)
    (by intro i h; obtain ⟨j, h1, h2, h3⟩ := h; exact ⟨j, by omega, by omega, h3⟩)
    (by intro i h h'; obtain ⟨j, h1, h2, h3⟩ := h; obtain ⟨k, k1, k2, k3⟩ := h'; omega)
    (by intro i h; obtain ⟨j, h1, h2, h3⟩ := h; omega)
    (by intro i h; have := hP i h; refine ⟨by omega, ?_⟩; intro h'; obtain ⟨j, h1, h2, h3⟩ := h'; omega)
    yi
    (fun s0 G R' o1 cp' ho1 hR' hs0 => by
      have hnds : ND (eval defs n g ρ src v).stop := nd_of_guardND hs0
      simp only [guardND_of_nd hnds] at hs0 ⊢
      let R'' := R'.set rs (.v s0)
      have hR'' : EqOn P R' R'' := by
        intro a ha; simp only [R'', Regs.set]; split
        · rename_i h; subst h; exact absurd ha hrsP
        · rfl
      have st1 : Steps code (.run pst (.v s0 :: .v v :: S) G false none R' fr o1 cp')
          (.run (pst + 1) (.v v :: S) G false none R'' fr o1 cp') := Steps.one (by rw [step_store a0 hres])
      have ys := ihn src g e (pst + 1) (by omega) (hcs ▸ hss) hcl.1 ρ v S G R'' fr o1 cp' P htop hge
        (fun h => hpar (Or.inl h)) (fun a h => by have := hP a h; omega) ((henv.congr hR').congr hR'') (by rw [hcs]; omega) hnds
      rw [hcs, hpx] at ys
      have key := foreach_src_aux ys
        (O := Own (base fr) e pst (1 + cs.length + 2 + cu.length + 2 + ce.length)) (K := P)
        (pend := px + 2 + cu.length + 2 + ce.length) (i := pst - e) (f := ft)
        (upd := fun w s => eval defs n g ⟨ρ.clo, (x, w) :: ρ.vars⟩ upd s)
        (ext := fun w u => eval defs n g ⟨ρ.clo, (x, w) :: ρ.vars⟩ ext u) (Rref := R'')
        (eval defs n g ρ src v).stop s0 rfl
        (by intro h; obtain ⟨j, j1, j2, j3⟩ := h; omega)
        (by omega)
        (by intro a h; obtain ⟨j, h1, h2, h3⟩ := h; exact ⟨j, by omega, by omega, h3⟩)
        (by intro a h hw
            have := hP a h
            rcases hw with hw | hw
            · obtain ⟨j, j1, j2, j3⟩ := hw; omega
            · omega)
        (by
          -- one element of the source
          intro w F'' R1 oo cpp s r2 hF'' hoo hR1s hR1P hnil tail hnde
          have hndu : ND (eval defs n g ⟨ρ.clo, (x, w) :: ρ.vars⟩ upd s).stop := nd_of_guardND hnde
          simp only [guardND_of_nd hndu] at hnde ⊢
          let R1x := R1.set rx (.v w)
          let P' : Nat → Prop := fun a => P a ∨ a = rx
          have hR1x : EqOn P R1 R1x := by
            intro a ha; simp only [R1x, Regs.set]; split
            · rename_i h; subst h; exact absurd ha hrxP
            · rfl
          have hR1xs : R1x rs = .v s := by
            have : R1 rs = .v s := hR1s
            simp [R1x, Regs.set, hne, this]
          have henvx : EnvOK code entry nf P' R1x fr ⟨ρ.clo, (x, w) :: ρ.vars⟩ ⟨g.fn, (x, px - e) :: g.vars⟩ := by
            have he := (((henv.congr hR').congr hR'').congr hR1P).congr hR1x
            refine ⟨he.1.monoP (fun a h => Or.inl h), ?_⟩
            intro y r hy
            by_cases hyx : x = y
            · subst hyx
              simp only [lookup, if_true, Option.some.injEq] at hy
              subst hy
              exact ⟨w, by simp [lookup], by simp [R1x, Regs.set, rx, hbase], Or.inr (by simp [rx, hbase])⟩
            · simp only [lookup, hyx, if_false] at hy
              obtain ⟨u, h1, h2, h3⟩ := he.2 y r hy
              exact ⟨u, by simp [lookup, hyx, h1], h2, Or.inl h3⟩
          have hP'lt : ∀ a, P' a → a < base fr + (px + 2 - e) := by
            intro a h
            rcases h with h | h
            · have := hP a h; omega
            · simp only [h, rx, hbase]; omega
          have hirru := eval_ctx_irrel defs n upd g ⟨g.fn, (x, px - e) :: g.vars⟩ ⟨ρ.clo, (x, w) :: ρ.vars⟩ s rfl
          have hirre : ∀ u, eval defs n g ⟨ρ.clo, (x, w) :: ρ.vars⟩ ext u =
              eval defs n ⟨g.fn, (x, px - e) :: g.vars⟩ ⟨ρ.clo, (x, w) :: ρ.vars⟩ ext u :=
            fun u => eval_ctx_irrel defs n ext g ⟨g.fn, (x, px - e) :: g.vars⟩ ⟨ρ.clo, (x, w) :: ρ.vars⟩ u rfl
          have yu := ihn upd ⟨g.fn, (x, px - e) :: g.vars⟩ e (px + 2) (by omega) (hcu ▸ hsu) (by simpa using hcl.2.2.1)
            ⟨ρ.clo, (x, w) :: ρ.vars⟩ s S (F'' ++ G) R1x fr oo cpp P' htop hge
            (fun h => hpar (Or.inr (Or.inr (Or.inl h)))) hP'lt henvx (by rw [hcu]; omega) (by rw [← hirru]; exact hndu)
          rw [hcu, ← hirru] at yu
          have stx : Steps code (.run px (.v w :: S) (F'' ++ G) false none R1 fr oo cpp)
              (.run (px + 2) (.v s :: S) (F'' ++ G) false none R1x fr oo cpp) :=
            .head (c' := .run (px + 1) S (F'' ++ G) false none R1x fr oo cpp) (by rw [step_store b0 hres])
              (Steps.one (by rw [step_load b1 hres, hR1xs]))
          have key2 := foreach_upd_aux yu
            (O := Own (base fr) e pst (1 + cs.length + 2 + cu.length + 2 + ce.length)) (P := P)
            (K := fun a => KeepP (Own (base fr) e (pst + 1) cs.length) P o1 oo a ∨ a = rx)
            (Oe := Own (base fr) e (px + 2 + cu.length + 2) ce.length) (o := o1) (F := G) (F' := F'')
            (pend := px + 2 + cu.length + 2 + ce.length) (sid := e) (i := pst - e) (f := ft)
            (ext := fun u => eval defs n g ⟨ρ.clo, (x, w) :: ρ.vars⟩ ext u) (r2 := r2) (Rref := R1x)
            (eval defs n g ⟨ρ.clo, (x, w) :: ρ.vars⟩ upd s).stop s rfl rfl hF'' q0 q1 hres
            ⟨pst, by omega, by omega, by simp [hbase]⟩
            (by intro h; obtain ⟨j, j1, j2, j3⟩ := h; omega)
            (by intro h; rcases h with h | h
                · exact hrsP h
                · exact hne h)
            (by intro h; obtain ⟨j, j1, j2, j3⟩ := h; omega)
            (by omega)
            (by intro a h; obtain ⟨j, h1, h2, h3⟩ := h; exact Or.inl ⟨j, by omega, by omega, h3⟩)
            (by intro a h; obtain ⟨j, h1, h2, h3⟩ := h; exact Or.inl ⟨j, by omega, by omega, h3⟩)
            (by intro a h; rcases h with h | h
                · exact Or.inr (Or.inl h)
                · exact Or.inl ⟨px, by omega, by omega, by simp [h, rx, hbase]⟩)
            hoo
            (by intro a h h'; obtain ⟨j, h1, h2, h3⟩ := h; obtain ⟨k, k1, k2, k3⟩ := h'; omega)
            (by intro a h; obtain ⟨j, h1, h2, h3⟩ := h; omega)
            (by intro a h; obtain ⟨j, h1, h2, h3⟩ := h; omega)
            (by intro a h
                have := hP'lt a h
                refine ⟨by omega, ?_⟩
                intro h'; obtain ⟨j, j1, j2, j3⟩ := h'; omega)
            (by intro a h
                rcases h with ((h | h) | h) | h
                · obtain ⟨j, j1, j2, j3⟩ := h; exact Or.inl ⟨j, by omega, by omega, j3⟩
                · exact Or.inr (Or.inl h)
                · exact Or.inr (Or.inr ⟨h.1, by omega⟩)
                · exact Or.inl ⟨px, by omega, by omega, by simp [h, rx, hbase]⟩)
            (by intro a h hw
                rcases h with ((h | h) | h) | h
                · obtain ⟨j, j1, j2, j3⟩ := h
                  rcases hw with hw | hw
                  · obtain ⟨k, k1, k2, k3⟩ := hw; omega
                  · omega
                · have := hP a h
                  rcases hw with hw | hw
                  · obtain ⟨k, k1, k2, k3⟩ := hw; omega
                  · omega
                · rcases hw with hw | hw
                  · obtain ⟨k, k1, k2, k3⟩ := hw; omega
                  · omega
                · rcases hw with hw | hw
                  · obtain ⟨k, k1, k2, k3⟩ := hw; simp only [h, rx, hbase] at k3; omega
                  · simp only [h, rx, hbase] at hw; omega)
            (by intro a h hw
                rcases h with ((h | h) | h) | h
                · obtain ⟨j, j1, j2, j3⟩ := h
                  rcases hw with hw | hw
                  · obtain ⟨k, k1, k2, k3⟩ := hw; omega
                  · omega
                · have := hP a h
                  rcases hw with hw | hw
                  · obtain ⟨k, k1, k2, k3⟩ := hw; omega
                  · omega
                · rcases hw with hw | hw
                  · obtain ⟨k, k1, k2, k3⟩ := hw; omega
                  · omega
                · rcases hw with hw | hw
                  · obtain ⟨k, k1, k2, k3⟩ := hw; simp only [h, rx, hbase] at k3; omega
                  · simp only [h, rx, hbase] at hw; omega)
            (by intro a h
                rcases h with ((h | h) | h) | h
                · obtain ⟨j, j1, j2, j3⟩ := h; omega
                · intro h'; exact hrsP (by simpa [rs] using h' ▸ h)
                · omega
                · simp only [h, rx]; omega)
            (by
              -- the extractor on one output of the update
              intro u G' R1e ooe cpe hooe hR1eu hKe hndx
              have hPe : EqOn P' R1x R1e := by
                intro a ha
                rcases ha with ha | ha
                · exact hKe a (Or.inl (Or.inl (Or.inr ha)))
                · exact hKe a (Or.inr ha)
              have ye := ihn ext ⟨g.fn, (x, px - e) :: g.vars⟩ e (px + 2 + cu.length + 2) (by omega) (hce ▸ hse)
                (by simpa using hcl.2.2.2)
                ⟨ρ.clo, (x, w) :: ρ.vars⟩ u S G' R1e fr ooe cpe P' htop hge
                (fun h => hpar (Or.inr (Or.inr (Or.inr h))))
                (fun a h => by have := hP'lt a h; omega)
                (henvx.congr hPe) (by rw [hce]; omega) (by rw [← hirre]; exact hndx)
              rw [hce, ← hirre] at ye
              exact ye)
            hnil EqOn.refl hR1xs
            (fun hr2 R' hK hrs' => tail hr2 R'
              (by intro a ha
                  have hne' : a ≠ rx := by
                    intro h; subst h
                    rcases ha with (ha | ha) | ha
                    · obtain ⟨j, j1, j2, j3⟩ := ha; simp only [rx, hbase] at j3; omega
                    · exact hrxP ha
                    · simp only [rx] at ha; omega
                  rw [← hK a (Or.inl ha)]; simp [R1x, Regs.set, hne'])
              (by intro a ha
                  have hne' : a ≠ rx := fun h => hrxP (h ▸ ha)
                  rw [hR1P a ha, ← hK a (Or.inl (Or.inl (Or.inr ha)))]; simp [R1x, Regs.set, hne'])
              hrs')
            hnde
          refine Yields.steps_left stx ?_ key2
          intro a ha
          have h1 : a ≠ rx := fun h => ha (Or.inl ⟨px, by omega, by omega, by simp [h, rx, hbase]⟩)
          simp [R1x, Regs.set, h1])
        EqOn.refl (by simp [R'', Regs.set, rs]) hs0
      refine Yields.steps_left st1 ?_ key
      intro a ha
      have h1 : a ≠ rs := fun h => ha (Or.inl ⟨pst, by omega, by omega, by simp [h, rs, hbase]⟩)
      simp [R'', Regs.set, h1])
    (eval defs n g ρ init v).stop rfl EqOn.refl hnd
  exact this

end Gojq.MiniVM

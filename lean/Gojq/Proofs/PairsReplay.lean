/-
  Helper lemmas for Props/C13Pairs.lean, part 4: replaying the two-element events of `tostream`
  with the native `setpath`, starting from `null`, rebuilds the value.

  C16 (Proofs/Fromstream.lean) proves the rebuild for `fromstream` with `Stream.setpath`, the
  fragment of `setpath` that `fromstream` uses, through contexts (`plug`, `setpath_plug`).  Here:
    * `stream_setpath_setKI`: that fragment agrees with the native `funcSetpath` whenever every
      index on the path is below `setpath`'s index limit 2^29;
    * `replayS_value`: the same context induction for the plain replay (no closing events, no
      emission, the root handled like every other position);
    * `spec_small`: the event paths of a value whose arrays have at most 2^29 elements are below
      the limit.
-/
import Gojq.Proofs.PairsPaths
namespace Gojq.Pairs
open Gojq Gojq.Stream

theorem setAt_lt (y : JV) : ∀ (xs : List JV) (i : Nat), i < xs.length → setAt i y xs = xs.set i y
  | [], i, h => by simp at h
  | x :: xs, 0, _ => by simp [setAt]
  | x :: xs, i + 1, h => by simp [setAt, setAt_lt y xs i (by simpa using h)]

theorem setAt_ge (y : JV) : ∀ (xs : List JV) (i : Nat), xs.length ≤ i →
    setAt i y xs = xs ++ List.replicate (i - xs.length) .null ++ [y]
  | [], i, _ => by simp [setAt]
  | x :: xs, 0, h => by simp at h
  | x :: xs, i + 1, h => by
    have := setAt_ge y xs i (by simpa using h)
    simp [setAt, this]

/-- every integer element of the path is below `setpath`'s index limit -/
def SmallPath (p : List JV) : Prop := ∀ i : Int, JV.num (.int i) ∈ p → i < 536870912

theorem SmallPath.tail {e : JV} {p : List JV} (h : SmallPath (e :: p)) : SmallPath p :=
  fun i hi => h i (List.mem_cons_of_mem _ hi)

theorem setKI_idx_arr (x : JV) (i : Int) (p : List JV) (xs : List JV) (h0 : ¬ i < 0) (h1 : i < 536870912) :
    setKI x (.num (.int i) :: p) (.arr xs) =
      (setKI x p (xs.getD i.toNat .null)).map fun y => .arr (setAt i.toNat y xs) := by
  have hi : idxOf (.int i) = i := idxOf_int i (by omega) (by simp only [maxInt]; omega)
  simp only [setKI, arrOf, hi, clampIndex_nonneg i _ (by omega : 0 ≤ i)]
  by_cases hlt : i < xs.length
  · have hs : ∀ y, setAt i.toNat y xs = xs.set i.toNat y := fun y => setAt_lt y xs _ (by omega)
    simp only [if_pos hlt, hs]
    rw [if_neg (by omega)]
  · have hs : ∀ y, setAt i.toNat y xs = xs ++ List.replicate (i.toNat - xs.length) .null ++ [y] :=
      fun y => setAt_ge y xs _ (by omega)
    have : xs.getD i.toNat .null = .null := by
      simp only [List.getD_eq_getElem?_getD]
      rw [List.getElem?_eq_none (by omega)]; rfl
    simp only [if_neg hlt, hs, this]
    rw [if_neg (by omega), if_neg (by omega), if_neg (by omega)]

/-- C16's fragment `Stream.setpath` (the part of `setpath` that `fromstream` uses) agrees with the
    native on paths whose indices are below the index limit -/
theorem stream_setpath_setKI : ∀ (p : List JV) (x v w : JV), Stream.setpath p x v = some w → SmallPath p →
    setKI x p v = some w ∧ KIPath p
  | [], x, v, w, h, _ => by
    simp only [Stream.setpath, Option.some.injEq] at h; subst h; exact ⟨rfl, KIPath.nil⟩
  | e :: p, x, v, w, h, hs => by
    have ih := fun v w h => stream_setpath_setKI p x v w h hs.tail
    cases e with
    | str k =>
      cases v with
      | null =>
        simp only [Stream.setpath, Option.map_eq_some_iff] at h
        obtain ⟨y, hy, rfl⟩ := h
        obtain ⟨h1, h2⟩ := ih _ _ hy
        exact ⟨by simp [setKI, h1], KIPath.cons (Or.inl ⟨k, rfl⟩) h2⟩
      | obj kvs =>
        simp only [Stream.setpath, Option.map_eq_some_iff] at h
        obtain ⟨y, hy, rfl⟩ := h
        obtain ⟨h1, h2⟩ := ih _ _ hy
        exact ⟨by simp [setKI, h1], KIPath.cons (Or.inl ⟨k, rfl⟩) h2⟩
      | arr _ => simp [Stream.setpath] at h
      | bool _ => simp [Stream.setpath] at h
      | num _ => simp [Stream.setpath] at h
      | str _ => simp [Stream.setpath] at h
    | num m =>
      cases m with
      | int i =>
        have hsm : i < 536870912 := hs i (by simp)
        cases v with
        | null =>
          simp only [Stream.setpath] at h
          split at h
          · cases h
          · rename_i h0
            simp only [Option.map_eq_some_iff] at h
            obtain ⟨y, hy, rfl⟩ := h
            obtain ⟨h1, h2⟩ := ih _ _ hy
            refine ⟨?_, KIPath.cons (Or.inr ⟨_, rfl⟩) h2⟩
            rw [setKI_null_num, setKI_idx_arr x i p [] h0 hsm]
            simp [h1]
        | arr xs =>
          simp only [Stream.setpath] at h
          split at h
          · cases h
          · rename_i h0
            simp only [Option.map_eq_some_iff] at h
            obtain ⟨y, hy, rfl⟩ := h
            obtain ⟨h1, h2⟩ := ih _ _ hy
            refine ⟨?_, KIPath.cons (Or.inr ⟨_, rfl⟩) h2⟩
            rw [setKI_idx_arr x i p xs h0 hsm, h1]
            rfl
        | obj _ => simp [Stream.setpath] at h
        | bool _ => simp [Stream.setpath] at h
        | num _ => simp [Stream.setpath] at h
        | str _ => simp [Stream.setpath] at h
      | flt _ => simp [Stream.setpath] at h
      | nzero => simp [Stream.setpath] at h
      | nan => simp [Stream.setpath] at h
      | inf _ => simp [Stream.setpath] at h
    | null => simp [Stream.setpath] at h
    | bool _ => simp [Stream.setpath] at h
    | arr _ => simp [Stream.setpath] at h
    | obj _ => simp [Stream.setpath] at h

/-! ### the replay -/

/-- the replay with C16's `Stream.setpath` -/
def replayS : List JV → JV → Option JV
  | [], cur => some cur
  | .arr [p, x] :: evs, cur =>
    match p with
    | .arr p' =>
      match Stream.setpath p' x cur with
      | some w => replayS evs w
      | none => none
    | _ => none
  | _ :: evs, cur => replayS evs cur

theorem replayS_leaf (rp : List JV) (x : JV) (evs : List JV) (cur : JV) :
    replayS (leafEv rp x :: evs) cur = (Stream.setpath rp.reverse x cur).bind (replayS evs) := by
  simp only [leafEv, pathJV, replayS]
  cases Stream.setpath rp.reverse x cur <;> rfl

theorem replayS_close (rp : List JV) (evs : List JV) (cur : JV) :
    replayS (closeEv rp :: evs) cur = replayS evs cur := by
  simp only [closeEv, replayS]

/-- every event path is below the index limit -/
def SmallEvents (evs : List JV) : Prop := ∀ ev ∈ evs, ∀ p, eventPath ev = some p → SmallPath p

theorem replayS_native : ∀ (evs : List JV) (cur w : JV), replayS evs cur = some w → SmallEvents evs →
    replayEvents evs cur = .ok w := by
  intro evs cur
  fun_induction replayS evs cur with
  | case1 cur => intro w h _; simp only [Option.some.injEq] at h; subst h; rfl
  | case2 x evs cur p' w' hset ih =>
    intro w h hs
    have hsm : SmallPath p' := hs (.arr [.arr p', x]) (by simp) p' rfl
    obtain ⟨h1, h2⟩ := stream_setpath_setKI p' x cur w' hset hsm
    have := (funcSetpath_ok h2).mpr h1
    simp only [replayEvents, this]
    exact ih w h (fun ev hev => hs ev (List.mem_cons_of_mem _ hev))
  | case3 x evs cur p' hset => intro w h; cases h
  | case4 p x evs cur hp => intro w h; cases h
  | case5 ev evs cur hne ih =>
    intro w h hs
    have : replayEvents (ev :: evs) cur = replayEvents evs cur := replayEvents.eq_3 cur ev evs hne
    rw [this]
    exact ih w h (fun ev hev => hs ev (List.mem_cons_of_mem _ hev))


/-- a leaf (scalar or empty container) written into the hole of a context — the root included -/
theorem replayS_leaf_ctx (x : JV) (C : List Frame) (hC : CtxOK C) (rest : List JV) :
    replayS (leafEv (cpath C).reverse x :: rest) ((plug C none).getD .null) =
      replayS rest ((plug C (some x)).getD .null) := by
  have hs := setpath_plug C hC none [] x
  simp only [List.append_nil, Stream.setpath, Option.map_some] at hs
  rw [replayS_leaf, List.reverse_reverse, hs]
  rfl

mutual
theorem replayS_value : ∀ (v : JV) (C : List Frame), CtxOK C → nodup v → ∀ (rest : List JV),
    replayS (spec (cpath C).reverse v ++ rest) ((plug C none).getD .null) =
      replayS rest ((plug C (some (canon v))).getD .null)
  | .null, C, hC, _, rest => by simpa [spec, canon] using replayS_leaf_ctx .null C hC rest
  | .bool b, C, hC, _, rest => by simpa [spec, canon] using replayS_leaf_ctx (.bool b) C hC rest
  | .num n, C, hC, _, rest => by simpa [spec, canon] using replayS_leaf_ctx (.num n) C hC rest
  | .str s, C, hC, _, rest => by simpa [spec, canon] using replayS_leaf_ctx (.str s) C hC rest
  | .arr [], C, hC, _, rest => by simpa [spec, canon, canonL] using replayS_leaf_ctx (.arr []) C hC rest
  | .obj [], C, hC, _, rest => by simpa [spec, canon, canonM] using replayS_leaf_ctx (.obj []) C hC rest
  | .arr (x :: xs), C, hC, hv, rest => by
    have h := replayS_list (x :: xs) (by simp) [] C hC (by simpa [nodup] using hv) rest
    have h0 : plug (C ++ [Frame.arr []]) none = plug C none := by rw [plug_append]; rfl
    rw [h0] at h
    simpa [spec, canon] using h
  | .obj ((k, x) :: kvs), C, hC, hv, rest => by
    have hv' : nodupM ((k, x) :: kvs) := by simpa [nodup] using hv
    have h := replayS_members ((k, x) :: kvs) (by simp) [] C hC hv' (by intro p _; rfl) rest
    have h0 : plug (C ++ [Frame.obj [] k]) none = plug C none := by rw [plug_append]; rfl
    simp only [firstKey] at h
    rw [h0] at h
    simpa [spec, canon] using h
theorem replayS_list : ∀ (l : List JV), l ≠ [] → ∀ (done : List JV) (C : List Frame), CtxOK C → nodupL l →
    ∀ (rest : List JV),
    replayS (specL (cpath C).reverse done.length l ++ rest) ((plug (C ++ [.arr done]) none).getD .null) =
      replayS rest ((plug C (some (.arr (done ++ canonL l)))).getD .null)
  | [], h, _, _, _, _, _ => absurd rfl h
  | [x], _, done, C, hC, hl, rest => by
    have hx : nodup x := by simpa [nodupL] using hl
    have hC' : CtxOK (C ++ [.arr done]) := ctxOK_append hC trivial
    have h := replayS_value x (C ++ [.arr done]) hC' hx (closeEv (idxJV done.length :: (cpath C).reverse) :: rest)
    rw [cpath_append] at h
    simp only [specL, List.append_assoc, List.singleton_append, Frame.pe] at h ⊢
    rw [h, plug_append, fill_arr_some, replayS_close]
    simp only [canonL]
  | x :: y :: ys, _, done, C, hC, hl, rest => by
    have hl' : nodup x ∧ nodupL (y :: ys) := by simpa [nodupL] using hl
    have hC' : CtxOK (C ++ [.arr done]) := ctxOK_append hC trivial
    have h := replayS_value x (C ++ [.arr done]) hC' hl'.1 (specL (cpath C).reverse (done.length + 1) (y :: ys) ++ rest)
    rw [cpath_append] at h
    simp only [specL, List.append_assoc, Frame.pe] at h ⊢
    rw [h, plug_append, fill_arr_some]
    have ih := replayS_list (y :: ys) (by simp) (done ++ [canon x]) C hC hl'.2 rest
    rw [plug_append, fill_arr_none (by simp)] at ih
    simp only [List.length_append, List.length_singleton] at ih
    rw [ih]
    simp [canonL, List.append_assoc]
theorem replayS_members : ∀ (l : List (Bytes × JV)), l ≠ [] → ∀ (done : List (Bytes × JV)) (C : List Frame), CtxOK C →
    nodupM l → (∀ p ∈ l, kvLookup p.1 done = none) → ∀ (rest : List JV),
    replayS (specM (cpath C).reverse l ++ rest) ((plug (C ++ [.obj done (firstKey l)]) none).getD .null) =
      replayS rest ((plug C (some (.obj (canonM done l)))).getD .null)
  | [], h, _, _, _, _, _, _ => absurd rfl h
  | [(k, x)], _, done, C, hC, hl, hk, rest => by
    have hx : nodup x := by simp only [nodupM] at hl; exact hl.2.1
    have hf : (Frame.obj done k).ok := hk (k, x) (by simp)
    have hC' : CtxOK (C ++ [.obj done k]) := ctxOK_append hC hf
    have h := replayS_value x (C ++ [.obj done k]) hC' hx (closeEv (.str k :: (cpath C).reverse) :: rest)
    rw [cpath_append] at h
    simp only [specM, List.append_assoc, List.singleton_append, Frame.pe, firstKey] at h ⊢
    rw [h, plug_append, fill_obj_some, replayS_close]
    simp only [canonM]
  | (k, x) :: (k2, y) :: ys, _, done, C, hC, hl, hk, rest => by
    simp only [nodupM] at hl
    obtain ⟨hk1, hx, hrest⟩ := hl
    have hf : (Frame.obj done k).ok := hk (k, x) (by simp)
    have hC' : CtxOK (C ++ [.obj done k]) := ctxOK_append hC hf
    have h := replayS_value x (C ++ [.obj done k]) hC' hx (specM (cpath C).reverse ((k2, y) :: ys) ++ rest)
    rw [cpath_append] at h
    simp only [specM, List.append_assoc, Frame.pe, firstKey] at h ⊢
    rw [h, plug_append, fill_obj_some]
    have hk' : ∀ p ∈ (k2, y) :: ys, kvLookup p.1 (kvInsert k (canon x) done) = none := by
      intro p hp
      rw [kvLookup_insert_ne k p.1 _ (hk1 p hp)]
      exact hk p (by simp [hp])
    have ih := replayS_members ((k2, y) :: ys) (by simp) (kvInsert k (canon x) done) C hC
      (by simpa [nodupM] using hrest) hk' rest
    rw [plug_append, fill_obj_none _ (kvInsert_ne_nil _ _ _)] at ih
    rw [ih]
    simp [canonM]
end

/-- the whole document, from `null` -/
theorem replayS_doc (v : JV) (hv : nodup v) : replayS (streamSpec v) .null = some (canon v) := by
  have := replayS_value v [] (by intro f hf; cases hf) hv []
  simpa [streamSpec, cpath, plug, replayS] using this


/-! ### the event paths of a value with short arrays are below the index limit -/

theorem SmallEvents.append {a b : List JV} (ha : SmallEvents a) (hb : SmallEvents b) : SmallEvents (a ++ b) := by
  intro ev hev
  rcases List.mem_append.mp hev with h | h
  · exact ha ev h
  · exact hb ev h

theorem SmallPath.reverse {rp : List JV} (h : SmallPath rp) : SmallPath rp.reverse :=
  fun i hi => h i (List.mem_reverse.mp hi)

theorem SmallPath.cons_idx {rp : List JV} (h : SmallPath rp) (i : Nat) (hi : i < 536870912) : SmallPath (idxJV i :: rp) := by
  intro j hj
  rcases List.mem_cons.mp hj with hj | hj
  · simp only [idxJV, JV.num.injEq, Num.int.injEq] at hj; omega
  · exact h j hj

theorem SmallPath.cons_key {rp : List JV} (h : SmallPath rp) (k : Bytes) : SmallPath (.str k :: rp) := by
  intro j hj
  rcases List.mem_cons.mp hj with hj | hj
  · cases hj
  · exact h j hj

theorem small_leaf {rp : List JV} (h : SmallPath rp) (x : JV) : SmallEvents [leafEv rp x] := by
  intro ev hev p hp
  simp only [List.mem_singleton] at hev
  subst hev
  simp only [leafEv, pathJV, eventPath, Option.some.injEq] at hp
  subst hp
  exact h.reverse

theorem small_close {rp : List JV} (h : SmallPath rp) : SmallEvents [closeEv rp] := by
  intro ev hev p hp
  simp only [List.mem_singleton] at hev
  subst hev
  simp only [closeEv, pathJV, eventPath, Option.some.injEq] at hp
  subst hp
  exact h.reverse

mutual
theorem spec_small : ∀ (v : JV) (rp : List JV), SmallPath rp → Rebuildable v → SmallEvents (spec rp v)
  | .null, rp, h, _ => by simpa [spec] using small_leaf h .null
  | .bool b, rp, h, _ => by simpa [spec] using small_leaf h (.bool b)
  | .num n, rp, h, _ => by simpa [spec] using small_leaf h (.num n)
  | .str s, rp, h, _ => by simpa [spec] using small_leaf h (.str s)
  | .arr [], rp, h, _ => by simpa [spec] using small_leaf h (.arr [])
  | .obj [], rp, h, _ => by simpa [spec] using small_leaf h (.obj [])
  | .arr (x :: xs), rp, h, hs => by
    simp only [ArrLe] at hs
    simp only [spec]
    exact specL_small (x :: xs) rp 0 h (by simpa [setpathLimit] using hs.1) hs.2
  | .obj (kv :: kvs), rp, h, hs => by
    simp only [ArrLe] at hs
    simp only [spec]
    exact specM_small (kv :: kvs) rp h hs
theorem specL_small : ∀ (xs : List JV) (rp : List JV) (i : Nat), SmallPath rp → i + xs.length ≤ 536870912 →
    ArrLeL setpathLimit xs → SmallEvents (specL rp i xs)
  | [], _, _, _, _, _ => by intro ev hev; simp [specL] at hev
  | [x], rp, i, h, hi, hs => by
    simp only [ArrLeL] at hs
    simp only [specL]
    have hsm := h.cons_idx i (by simp at hi; omega)
    exact (spec_small x _ hsm hs.1).append (small_close hsm)
  | x :: y :: ys, rp, i, h, hi, hs => by
    have hs' : ArrLe setpathLimit x ∧ ArrLeL setpathLimit (y :: ys) := by simpa only [ArrLeL] using hs
    simp only [specL]
    have hsm := h.cons_idx i (by simp at hi; omega)
    exact (spec_small x _ hsm hs'.1).append (specL_small (y :: ys) rp (i + 1) h (by simp at hi ⊢; omega) hs'.2)
theorem specM_small : ∀ (kvs : List (Bytes × JV)) (rp : List JV), SmallPath rp →
    ArrLeM setpathLimit kvs → SmallEvents (specM rp kvs)
  | [], _, _, _ => by intro ev hev; simp [specM] at hev
  | [(k, x)], rp, h, hs => by
    simp only [ArrLeM] at hs
    simp only [specM]
    exact (spec_small x _ (h.cons_key k) hs.1).append (small_close (h.cons_key k))
  | (k, x) :: kv :: kvs, rp, h, hs => by
    have hs' : ArrLe setpathLimit x ∧ ArrLeM setpathLimit (kv :: kvs) := by simpa only [ArrLeM] using hs
    simp only [specM]
    exact (spec_small x _ (h.cons_key k) hs'.1).append (specM_small (kv :: kvs) rp h hs'.2)
end

/-- **replaying the two-element events of `tostream` with the native `setpath` on `null` rebuilds
    the value** (canonical member order) -/
theorem replayEvents_doc (v : JV) (hv : nodup v) (hs : Rebuildable v) :
    replayEvents (streamSpec v) .null = .ok (canon v) :=
  replayS_native _ _ _ (replayS_doc v hv) (spec_small v [] (by intro i hi; cases hi) hs)


/-! ### the index limit is real -/

/-- `setpath([2^29]; x)` on an array of exactly 2^29 elements is an error (arrayIndexTooLargeError):
    the last event of a longer array cannot be replayed -/
theorem setpath_at_limit_fails (xs : List JV) (h : xs.length = 536870912) (x : JV) :
    ∃ e, funcSetpath (.arr xs) (.arr [idxJV 536870912]) x = .error e := by
  have hki : KIPath [idxJV 536870912] := KIPath.cons (Or.inr ⟨_, rfl⟩) KIPath.nil
  have hnone : setKI x [idxJV 536870912] (.arr xs) = none := by
    have hi : idxOf (.int (536870912 : Nat)) = 536870912 := idxOf_int _ (by omega) (by simp [maxInt])
    simp only [idxJV, setKI, arrOf, hi, h, clampIndex_nonneg _ _ (by omega : (0 : Int) ≤ 536870912)]
    simp
  have := funcSetpath_eq (.arr xs) [idxJV 536870912] x hki
  rw [hnone] at this
  cases hr : funcSetpath (.arr xs) (.arr [idxJV 536870912]) x with
  | ok w => rw [hr] at this; cases this
  | error e => exact ⟨e, rfl⟩

end Gojq.Pairs

/-
  One pair rewrite of the peephole pass as a whole-run simulation: code `c` with `X ; pop` or
  `X ; const v` at `i, i+1` (X ∈ push, dup, load) against `c'` with `nop ; nop` / `nop ; push v`
  there, under the static conditions `StaticOK (i+1) c` (no control transfer lands on `i+1`).
-/
import Gojq.Proofs.OptSimPair
import Gojq.Proofs.OptSimHygStep
import Gojq.Proofs.OptSimLoop
set_option linter.unusedSimpArgs false
set_option linter.unusedVariables false
namespace Gojq.OptVM
open Gojq Gojq.VM

/-! ## arrays -/

theorem size_set! (c : Array Instr) (i : Nat) (x : Instr) : (c.set! i x).size = c.size := by
  simp [Array.set!_eq_setIfInBounds]

theorem getD_set!_ne (c : Array Instr) (i k : Nat) (x : Instr) (h : i ≠ k) :
    (c.set! i x).getD k .bad = c.getD k .bad := by
  simp only [Array.getD_eq_getD_getElem?, Array.set!_eq_setIfInBounds]
  rw [Array.getElem?_setIfInBounds_ne h]

theorem getD_set!_eq (c : Array Instr) (i : Nat) (x : Instr) (h : i < c.size) :
    (c.set! i x).getD i .bad = x := by
  simp [Array.getD_eq_getD_getElem?, Array.set!_eq_setIfInBounds, Array.getElem?_setIfInBounds, h]

theorem getD_of_getElem? {c : Array Instr} {k : Nat} {x : Instr} (h : c[k]? = some x) : c.getD k .bad = x := by
  simp [Array.getD_eq_getD_getElem?, h]

/-! ## `stepE` at a known instruction -/

theorem stepE_fall {c : Array Instr} {x : ExtRec} {l l' : L} {e e' : Env} {ins : Instr}
    (h0 : 0 ≤ l.pc) (h1 : l.pc < c.size) (hi : c.getD l.pc.toNat .bad = ins)
    (hx : exec ins x l e = .ok (.fall, l') e') : stepE c x l e = .cont { l' with pc := l'.pc + 1 } e' := by
  unfold stepE
  simp only [h1, Int.not_lt.mpr h0, if_true, if_false, hi, hx]

theorem stepE_improper {c : Array Instr} {x : ExtRec} {l : L} {e : Env} {ins : Instr}
    (h0 : 0 ≤ l.pc) (h1 : l.pc < c.size) (hi : c.getD l.pc.toNat .bad = ins)
    (hx : ∀ r e', exec ins x l e ≠ .ok r e') : ∃ o ef, stepE c x l e = .fin o ef ∧ o.proper = false := by
  unfold stepE
  simp only [h1, Int.not_lt.mpr h0, if_true, if_false, hi]
  cases hex : exec ins x l e with
  | ok r e' => exact absurd hex (hx r e')
  | panic s => exact ⟨_, _, rfl, rfl⟩
  | stuck w => exact ⟨_, _, rfl, rfl⟩

theorem tickAt_of {c : Array Instr} {l : L} {ins : Instr} (hi : c.getD l.pc.toNat .bad = ins)
    (hu : usesExt ins = false) : tickAt c l = 0 := by
  unfold tickAt
  rw [hi, hu]; simp

/-! ## the layer -/

/-- between units of the two runs: related environments, same oracle position, and the original
    run is hygienic with respect to `B` and not standing at `B` -/
def IPair (B : Int) (l : L) (s s' : St) : Prop :=
  EnvRel s.env s'.env ∧ s.polls = s'.polls ∧ HygEnv B s.env ∧ PcOK B l.callpc ∧ ErrOK B l.err ∧ l.pc ≠ B

/-- after a call -/
def FPair (B : Int) (s s' : St) : Prop :=
  EnvRel s.env s'.env ∧ s.polls = s'.polls ∧ HygEnv B s.env ∧ s.env.pc ≠ B

theorem isPushLike_usesExt {a : Instr} (h : isPushLike a = true) : usesExt a = false := by
  cases a <;> simp [isPushLike] at h <;> rfl

theorem isPushLike_static {a : Instr} (h : isPushLike a = true) : staticTarget a = none ∧ savesPc a = false := by
  cases a <;> simp [isPushLike] at h <;> exact ⟨rfl, rfl⟩

/-- the second instruction of a pair and what it is rewritten to -/
def PairSecond (b b' : Instr) : Prop := (b = .pop ∧ b' = .nop) ∨ ∃ w, b = .const w ∧ b' = .push w

theorem pair_simstep (c : Array Instr) (i : Nat) (a b b' : Instr) (ha : c[i]? = some a)
    (hpl : isPushLike a = true) (hb : c[i + 1]? = some b) (hbb : PairSecond b b')
    (S : StaticOK ((i : Int) + 1) c) (ext : Nat → ExtRec) (hext : ∀ k, ExtOK ((i : Int) + 1) (ext k)) :
    SimStep c ((c.set! i .nop).set! (i + 1) b') ext (IPair ((i : Int) + 1)) (FPair ((i : Int) + 1)) := by
  intro l s s' hI
  obtain ⟨hR, hp, hH, hcp, herr, hpc⟩ := hI
  have hi1 : i + 1 < c.size := (Array.getElem?_eq_some_iff.mp hb).1
  have hsize : ((c.set! i .nop).set! (i + 1) b').size = c.size := by rw [size_set!, size_set!]
  have hgi : c.getD i .bad = a := getD_of_getElem? ha
  have hgi1 : c.getD (i + 1) .bad = b := getD_of_getElem? hb
  have hgi' : ((c.set! i .nop).set! (i + 1) b').getD i .bad = .nop := by
    rw [getD_set!_ne _ _ _ _ (by omega), getD_set!_eq _ _ _ (by omega)]
  have hgi1' : ((c.set! i .nop).set! (i + 1) b').getD (i + 1) .bad = b' := by
    rw [getD_set!_eq _ _ _ (by rw [size_set!]; exact hi1)]
  have hub : usesExt b = false ∧ usesExt b' = false ∧ staticTarget b = none ∧ savesPc b = false := by
    rcases hbb with ⟨rfl, rfl⟩ | ⟨w, rfl, rfl⟩ <;> exact ⟨rfl, rfl, rfl, rfl⟩
  rw [stepC_eq, stepC_eq]
  by_cases hi : l.pc = i
  · -- at the first instruction of the pair
    have h0 : 0 ≤ l.pc := by omega
    have h1 : l.pc < c.size := by omega
    have h1' : l.pc < ((c.set! i .nop).set! (i + 1) b').size := by rw [hsize]; exact h1
    have hti : l.pc.toNat = i := by omega
    have hga : c.getD l.pc.toNat .bad = a := by rw [hti]; exact hgi
    have hga' : ((c.set! i .nop).set! (i + 1) b').getD l.pc.toNat .bad = .nop := by rw [hti]; exact hgi'
    rw [tickAt_of hga (isPushLike_usesExt hpl), tickAt_of hga' rfl, Nat.add_zero, Nat.add_zero]
    cases hex : exec a (ext s.polls) l s.env with
    | panic site =>
      obtain ⟨o, ef, h2, h3⟩ := stepE_improper (c := c) h0 h1 hga (fun r e' => by rw [hex]; simp)
      rw [h2]; simp only [StepE.toStep]
      intro hpr; rw [h3] at hpr; simp at hpr
    | stuck why =>
      obtain ⟨o, ef, h2, h3⟩ := stepE_improper (c := c) h0 h1 hga (fun r e' => by rw [hex]; simp)
      rw [h2]; simp only [StepE.toStep]
      intro hpr; rw [h3] at hpr; simp at hpr
    | ok r e1 =>
      obtain ⟨ctl, l1⟩ := r
      obtain ⟨hctl, hl1, hm⟩ := pushlike_mid a hpl _ l hR hex
      subst hctl
      have hl1' := hl1.symm
      subst hl1'
      -- hygiene of the original after the first instruction
      have HL : HygL ((i : Int) + 1) a (ext s.polls) l :=
        ⟨hcp, herr, hext _, (fun t ht => by rw [(isPushLike_static hpl).1] at ht; cases ht),
         (fun hs => by rw [(isPushLike_static hpl).2] at hs; cases hs), S.pos⟩
      obtain ⟨hH1, _⟩ := exec_hyg_ok HL hH hex
      rw [stepE_fall h0 h1 hga hex, stepE_fall h0 h1' hga' (exec_nop _ _ _)]
      simp only [StepE.toStep]
      right
      -- the second turn
      rw [stepC_eq]
      have hpc2 : ({ l with pc := l.pc + 1 } : L).pc = (i : Int) + 1 := by simp [hi]
      have h20 : 0 ≤ ({ l with pc := l.pc + 1 } : L).pc := by rw [hpc2]; omega
      have h21 : ({ l with pc := l.pc + 1 } : L).pc < c.size := by rw [hpc2]; omega
      have h21' : ({ l with pc := l.pc + 1 } : L).pc < ((c.set! i .nop).set! (i + 1) b').size := by
        rw [hsize]; exact h21
      have hti2 : ({ l with pc := l.pc + 1 } : L).pc.toNat = i + 1 := by rw [hpc2]; omega
      have hgb : c.getD ({ l with pc := l.pc + 1 } : L).pc.toNat .bad = b := by rw [hti2]; exact hgi1
      have hgb' : ((c.set! i .nop).set! (i + 1) b').getD ({ l with pc := l.pc + 1 } : L).pc.toNat .bad = b' := by
        rw [hti2]; exact hgi1'
      rw [tickAt_of hgb hub.1, Nat.add_zero]
      have HL2 : HygL ((i : Int) + 1) b (ext s.polls) { l with pc := l.pc + 1 } :=
        ⟨hcp, herr, hext _, (fun t ht => by rw [hub.2.2.1] at ht; cases ht),
         (fun hs => by rw [hub.2.2.2] at hs; cases hs), S.pos⟩
      rcases hbb with ⟨rfl, rfl⟩ | ⟨w, rfl, rfl⟩
      · obtain ⟨e2, h3, h4⟩ := pop_after_mid (ext s.polls) { l with pc := l.pc + 1 } hm
        obtain ⟨hH2, _⟩ := exec_hyg_ok HL2 hH1 h3
        rw [stepE_fall h20 h21 hgb h3]
        simp only [StepE.toStep]
        left
        refine ⟨_, _, ⟨s'.env, s'.polls⟩, rfl, ?_, ?_⟩
        · rw [stepC_eq]
          simp only
          rw [tickAt_of hgb' rfl, Nat.add_zero, stepE_fall h20 h21' hgb' (exec_nop _ _ _)]
          simp only [StepE.toStep]
        · exact ⟨h4, hp, hH2, hcp, herr, by simp [hi]; omega⟩
      · obtain ⟨e2, h3, h4⟩ := const_after_mid w (ext s.polls) { l with pc := l.pc + 1 } hm
        obtain ⟨hH2, _⟩ := exec_hyg_ok HL2 hH1 h3
        rw [stepE_fall h20 h21 hgb h3]
        simp only [StepE.toStep]
        left
        refine ⟨_, _, ⟨{ s'.env with stack := s'.env.stack.push (.jv w) }, s'.polls⟩, rfl, ?_, ?_⟩
        · rw [stepC_eq]
          simp only
          rw [tickAt_of hgb' rfl, Nat.add_zero, stepE_fall h20 h21' hgb' (exec_push w _ _ _)]
          simp only [StepE.toStep]
        · exact ⟨h4, hp, hH2, hcp, herr, by simp [hi]; omega⟩
  · -- anywhere else: the two codes agree at the pc
    have hne : ∀ k : Nat, k ≠ i → k ≠ i + 1 → ((c.set! i .nop).set! (i + 1) b').getD k .bad = c.getD k .bad := by
      intro k h1 h2
      rw [getD_set!_ne _ _ _ _ (fun h => h2 h.symm), getD_set!_ne _ _ _ _ (fun h => h1 h.symm)]
    have hsame : ((c.set! i .nop).set! (i + 1) b').getD l.pc.toNat .bad = c.getD l.pc.toNat .bad ∨ l.pc < 0 := by
      by_cases hneg : l.pc < 0
      · exact .inr hneg
      · left
        apply hne <;> omega
    have hstep : stepE ((c.set! i .nop).set! (i + 1) b') (ext s'.polls) l s'.env = stepE c (ext s.polls) l s'.env := by
      rw [← hp]
      rcases hsame with h | h
      · exact stepE_local _ _ _ _ _ hsize h
      · unfold stepE
        rw [hsize]
        simp only [h, if_true]
    have htick : tickAt ((c.set! i .nop).set! (i + 1) b') l = tickAt c l := by
      unfold tickAt
      rw [hsize]
      rcases hsame with h | h
      · rw [h]
      · have n1 : ¬ (0 ≤ l.pc ∧ l.pc < (c.size : Int) ∧ usesExt (((c.set! i .nop).set! (i + 1) b').getD l.pc.toNat .bad) = true) :=
          fun hh => absurd hh.1 (Int.not_le.mpr h)
        have n2 : ¬ (0 ≤ l.pc ∧ l.pc < (c.size : Int) ∧ usesExt (c.getD l.pc.toNat .bad) = true) :=
          fun hh => absurd hh.1 (Int.not_le.mpr h)
        rw [if_neg n1, if_neg n2]
    rw [hstep, htick]
    have hcong := stepE_cong c (ext s.polls) l hR
    have hhyg := stepE_hyg S (ext s.polls) (hext _) l s.env hH hcp herr hpc
    cases hs : stepE c (ext s.polls) l s.env with
    | fin o ef =>
      rw [hs] at hcong hhyg
      cases hs' : stepE c (ext s.polls) l s'.env with
      | cont l1 e1 => rw [hs'] at hcong; exact hcong.elim
      | fin o' ef' =>
        rw [hs'] at hcong
        obtain ⟨rfl, hr⟩ := hcong
        simp only [StepE.toStep]
        intro hpr
        obtain ⟨h1, h2⟩ := hhyg hpr
        exact ⟨_, rfl, hr, by simp [hp], h1, h2⟩
    | cont l1 e1 =>
      rw [hs] at hcong hhyg
      cases hs' : stepE c (ext s.polls) l s'.env with
      | fin o' ef' => rw [hs'] at hcong; exact hcong.elim
      | cont l1' e1' =>
        rw [hs'] at hcong
        obtain ⟨rfl, hr⟩ := hcong
        simp only [StepE.toStep]
        left
        obtain ⟨h1, h2, h3, h4⟩ := hhyg
        refine ⟨_, rfl, hr, by simp [hp], h1, h2, h3, ?_⟩
        rcases h4 with h4 | h4
        · exact h4
        · rw [h4]; omega

end Gojq.OptVM

/-
  C08 (bytecode checker, layer 2): variable operands resolve (`env.index` does not panic), and what
  a variable slot of a good frame holds.
-/
import Gojq.Proofs.SafeVM2Exec4
set_option linter.unusedSimpArgs false
set_option linter.unusedVariables false
namespace Gojq.SafeVM
open Gojq Gojq.VM

variable {S : SC} {Ct : Cert}

theorem OChain.length_le {data : Array (Block Scope)} {o : Int} {xs : List (Int × Scope)} (h : OChain data o xs) :
    xs.length ≤ (o + 1).toNat := by
  induction h with
  | nil _ => simp
  | cons h0 hb hlt _ ih => simp only [List.length_cons]; omega

theorem blockAt_get {data : Array (Block Scope)} {o : Int} {sc : Scope} (h : blockAt data o = some sc) :
    0 ≤ o ∧ ∃ b, data[o.toNat]? = some b ∧ b.value = sc := by
  unfold blockAt at h
  split at h
  · rename_i h0
    cases hd : data[o.toNat]? with
    | none => rw [hd] at h; simp at h
    | some b => rw [hd] at h; simp at h; exact ⟨h0, b, rfl, h⟩
  · simp at h

/-- `env.index` along a chain of `outerindex` links: it finds the first frame of the wanted scope -/
theorem scopeWalk_chain {data : Array (Block Scope)} {o : Int} {xs : List (Int × Scope)} (hch : OChain data o xs)
    (id off : Int) {p : Int × Scope} (hf : findId xs id = some p) :
    ∀ fuel : Nat, xs.length ≤ fuel → scopeWalk data id off fuel o = .ok (p.2.offset + off) := by
  induction hch with
  | nil _ => simp [findId] at hf
  | @cons o sc xs h0 hb hlt _ ih =>
    intro fuel hfuel
    cases fuel with
    | zero => simp at hfuel
    | succ n =>
      obtain ⟨_, b, hget, hbv⟩ := blockAt_get hb
      unfold scopeWalk
      rw [if_neg (by omega), hget]
      simp only
      unfold findId at hf
      simp only [List.find?_cons] at hf
      by_cases hid : sc.id = id
      · simp only [hid, beq_self_eq_true] at hf
        cases hf
        rw [hbv, if_pos hid]
      · have : (sc.id == id) = false := by simpa using hid
        simp only [this] at hf
        rw [hbv, if_neg hid]
        exact ih hf n (by simp at hfuel; omega)

/-- the chain of the frame at slot `j` -/
theorem RegInv.chain {e : Env} (R : RegInv S Ct e) {j : Int} {sc : Scope} (h0 : 0 ≤ j) (hj : j ≤ Rg e.scopes)
    (hb : blockAt e.scopes.data j = some sc) :
    ∃ xs, OChain e.scopes.data j ((j, sc) :: xs) ∧ OChain e.scopes.data sc.outerindex xs ∧
      (∀ x ∈ Ct.availOf sc.id, x = sc.id ∨ ∃ p ∈ xs, p.2.id = x) ∧
      (∀ xi ∈ Ct.assumeOf sc.id, (findId xs xi.1).isSome = true) ∧
      (∀ xi ∈ Ct.assumeOf sc.id, ∀ p, findId xs xi.1 = some p →
        Good S Ct e.scopes.data e.values (.s p.1 p.2 xi.2 (Ct.stabOf xi))) := by
  obtain ⟨sc', hb', h1, h2, hg⟩ := R.reg j h0 hj
  rw [hb] at hb'
  simp only [Option.some.injEq] at hb'
  subst hb'
  cases hg with
  | v hch hav hres hgood => exact ⟨_, .cons h0 hb (by omega) hch, hch, hav, hres, hgood⟩

theorem envIndex_eq {e : Env} {id off : Int} {k : Int}
    (h : scopeWalk e.scopes.data id off (e.scopes.data.size + 1) e.scopes.index = .ok k) : envIndex id off e = .ok k e := by
  unfold envIndex; rw [h]

/-- a variable operand whose scope id is available resolves -/
theorem envIndex_avail {e : Env} {A : AView} (hV : View e A) (R : RegInv S Ct e) {j : Int} {sc : Scope}
    {rest : List (Int × Scope)} (hfr : A.frames = (j, sc) :: rest) {id : Int} (hav : id ∈ Ct.availOf sc.id) (off : Int) :
    ∃ xs p, OChain e.scopes.data sc.outerindex xs ∧ findId ((j, sc) :: xs) id = some p ∧
      envIndex id off e = .ok (p.2.offset + off) e ∧ p.1 ≤ j ∧ blockAt e.scopes.data p.1 = some p.2 ∧ 0 ≤ p.1 := by
  have hs := hV.scopes
  rw [hfr] at hs
  obtain ⟨hidx, h0⟩ := hs.index_cons
  have hmem := hV.frames_le (j, sc) (by rw [hfr]; simp)
  have hjR : j ≤ Rg e.scopes := by have := index_le_Rg e.scopes; omega
  obtain ⟨xs, hch, hchx, havl, _, _⟩ := R.chain h0 hjR hmem.2.2
  have hfind : ∃ p, findId ((j, sc) :: xs) id = some p := by
    unfold findId
    simp only [List.find?_cons]
    by_cases hid : sc.id = id
    · simp [hid]
    · have : (sc.id == id) = false := by simpa using hid
      simp only [this]
      rcases havl id hav with h | ⟨p, hp, hpid⟩
      · exact absurd h.symm hid
      · cases hf : xs.find? (fun p => p.2.id == id) with
        | some q => exact ⟨q, rfl⟩
        | none =>
          have := List.find?_eq_none.mp hf p hp
          simp [hpid] at this
  obtain ⟨p, hp⟩ := hfind
  have hlen := hch.length_le
  have hlt := hV.scopes.chain.index_lt
  have hw := scopeWalk_chain hch id off hp (e.scopes.data.size + 1) (by rw [hidx] at hlt; omega)
  rw [← hidx] at hw
  have hpm := findId_mem hp
  have hsl := hch.slot_le p hpm.1
  exact ⟨xs, p, hchx, hp, envIndex_eq hw, hsl.2.1, hsl.2.2, hsl.1⟩

/-- what a good slot holds -/
theorem Good.slot_inv {d vs} {j : Int} {sc : Scope} {i : Int} {k : Kind} (h : Good S Ct d vs (.s j sc i k)) :
    ∃ v nv, 0 ≤ i ∧ S.tab.lookup sc.id = some nv ∧ i < nv ∧ vs[(sc.offset + i).toNat]? = some v ∧
      Good S Ct d vs (.g k v (j - 1)) := by
  cases h with
  | s hb h0 hnv hi hv hg => exact ⟨_, _, h0, hnv, hi, hv, hg⟩

theorem getValue_eq {e : Env} {k : Int} {v : V} (h0 : 0 ≤ k) (h : e.values[k.toNat]? = some v) : getValue k e = .ok v e := by
  unfold getValue
  simp [h0, h]

end Gojq.SafeVM

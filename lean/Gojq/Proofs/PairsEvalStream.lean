/-
  Helper lemmas for Props/C13Pairs.lean, part 8: the UNIVERSAL tie of `fromstream` to the shipped
  definition: `[fromstream(.[])]` run by `Spec.eval` on the regenerated AST of builtin.jq equals
  `Stream.fromstreamSpec` (C16's model) on EVERY list of modelled events (`eventOK`: well-formed
  `[path, leaf]` / `[path]` events whose path elements are strings, integers `0 ≤ i < 2^29`, or
  elements every `setpath` rejects) — errors included.  Ingredients:
    * `setpathFuel_stream` / `setpathV_stream`: the evaluator's own `setpath` (`Spec.setpathV`)
      against C16's `Stream.setpath`, in success and in failure;
    * symbolic evaluation of every sub-query of the `foreach` (`resetQ`, `stepBindQ`, `stepIfQ`,
      `setVQ`, `setEQ`, `extractQ`: the ASTs the real parser dumps; `shipped_fromstream := rfl`);
    * `Rep`: the state object `{"e":…,"v":…}` against the model's `FS`;
    * `foreachLoop_fromstream`: the loop invariant, by induction on the events;
    * `spec_ok`: the `tostream` events of a value with arrays of at most 2^29 elements are modelled.
-/
import Gojq.Proofs.PairsEval
import Gojq.Proofs.PairsReplay
namespace Gojq.Pairs
open Gojq Gojq.Spec Gojq.Pairs.Tie

/-- an error that is a real jq error (not the model's `UNMODELLED` marker) -/
def RealErr (e : Err) : Prop := ∃ k a, e = .builtin k a ∧ k ≠ "UNMODELLED"

theorem realErr_expectedObject (v : JV) : RealErr (errExpectedObject v) := ⟨_, _, rfl, by decide⟩
theorem realErr_expectedArray (v : JV) : RealErr (errExpectedArray v) := ⟨_, _, rfl, by decide⟩

/-- `Spec.setpathFuel` (the evaluator's `setpath`) against C16's `Stream.setpath` -/
theorem setpathFuel_stream : ∀ (p : List JV) (x v : JV) (fuel : Nat), p.all elemOK = true → p.length < fuel →
    match Stream.setpath p x v with
    | some w => setpathFuel fuel v p x = .ok w
    | none => ∃ e, setpathFuel fuel v p x = .error e ∧ RealErr e
  | [], x, v, fuel, _, hf => by
    obtain ⟨n, rfl⟩ : ∃ n, fuel = n + 1 := ⟨fuel - 1, by simp at hf; omega⟩
    simp only [Stream.setpath, setpathFuel]; rfl
  | e :: p, x, v, fuel, hp, hf => by
    obtain ⟨n, rfl⟩ : ∃ n, fuel = n + 1 := ⟨fuel - 1, by simp at hf; omega⟩
    simp only [List.all_cons, Bool.and_eq_true] at hp
    have ih := fun v => setpathFuel_stream p x v n hp.2 (by simp at hf; omega)
    cases e with
    | str k =>
      cases v with
      | null =>
        have := ih .null
        simp only [Stream.setpath, setpathFuel]
        cases hs : Stream.setpath p x .null with
        | none =>
          rw [hs] at this; obtain ⟨e, he, hr⟩ := this
          simp only [Option.map_none, he, bind, Except.bind]
          exact ⟨e, rfl, hr⟩
        | some w =>
          rw [hs] at this
          simp only [Option.map_some, this, bind, Except.bind, pure, Except.pure]
      | obj kvs =>
        have := ih ((kvLookup k kvs).getD .null)
        simp only [Stream.setpath, setpathFuel]
        cases hs : Stream.setpath p x ((kvLookup k kvs).getD .null) with
        | none =>
          rw [hs] at this; obtain ⟨e, he, hr⟩ := this
          simp only [Option.map_none, he, bind, Except.bind]
          exact ⟨e, rfl, hr⟩
        | some w =>
          rw [hs] at this
          simp only [Option.map_some, this, bind, Except.bind, pure, Except.pure]
      | arr xs => simp only [Stream.setpath, setpathFuel]; exact ⟨_, rfl, realErr_expectedObject _⟩
      | bool b => simp only [Stream.setpath, setpathFuel]; exact ⟨_, rfl, realErr_expectedObject _⟩
      | num b => simp only [Stream.setpath, setpathFuel]; exact ⟨_, rfl, realErr_expectedObject _⟩
      | str b => simp only [Stream.setpath, setpathFuel]; exact ⟨_, rfl, realErr_expectedObject _⟩
    | num m =>
      cases m with
      | int i =>
        simp only [elemOK, Bool.and_eq_true, decide_eq_true_eq] at hp
        have hi : (toInt? (JV.num (.int i))).getD 0 = i := idxOf_int i hp.1.1 (by simp only [maxInt]; omega)
        have key : ∀ xs : List JV,
            match (if i < 0 then none else (Stream.setpath p x (xs.getD i.toNat .null)).map fun y => JV.arr (Stream.setAt i.toNat y xs)) with
            | some w => (let j := clampIndex i (-1) xs.length
                if j < 0 then (throw (.builtin "arrayIndexNegative" [jvInt i]) : Except Err JV)
                else if j < xs.length then do
                  let u ← setpathFuel n (xs.getD j.toNat .null) p x
                  pure (.arr (xs.set j.toNat u))
                else if i ≥ 536870912 then throw (.builtin "arrayIndexTooLarge" [jvInt i])
                else do
                  let u ← setpathFuel n .null p x
                  pure (.arr (xs ++ List.replicate (i.toNat - xs.length) .null ++ [u]))) = .ok w
            | none => ∃ e, (let j := clampIndex i (-1) xs.length
                if j < 0 then (throw (.builtin "arrayIndexNegative" [jvInt i]) : Except Err JV)
                else if j < xs.length then do
                  let u ← setpathFuel n (xs.getD j.toNat .null) p x
                  pure (.arr (xs.set j.toNat u))
                else if i ≥ 536870912 then throw (.builtin "arrayIndexTooLarge" [jvInt i])
                else do
                  let u ← setpathFuel n .null p x
                  pure (.arr (xs ++ List.replicate (i.toNat - xs.length) .null ++ [u]))) = .error e ∧ RealErr e := by
          intro xs
          rw [if_neg (by omega)]
          simp only [clampIndex_nonneg i _ hp.1.1]
          by_cases hlt : i < xs.length
          · simp only [if_pos hlt]
            rw [if_neg (by omega)]
            have := ih (xs.getD i.toNat .null)
            cases hs : Stream.setpath p x (xs.getD i.toNat .null) with
            | none =>
              rw [hs] at this; obtain ⟨e, he, hr⟩ := this
              simp only [Option.map_none, he, bind, Except.bind]
              exact ⟨e, rfl, hr⟩
            | some w =>
              rw [hs] at this
              simp only [Option.map_some, this, bind, Except.bind, pure, Except.pure, setAt_lt _ _ _ (by omega : i.toNat < xs.length)]
          · simp only [if_neg hlt]
            rw [if_neg (by omega), if_neg (by omega), if_neg (by omega)]
            have hnull : xs.getD i.toNat .null = .null := by
              simp only [List.getD_eq_getElem?_getD]
              rw [List.getElem?_eq_none (by omega)]; rfl
            have := ih .null
            rw [hnull]
            cases hs : Stream.setpath p x .null with
            | none =>
              rw [hs] at this; obtain ⟨e, he, hr⟩ := this
              simp only [Option.map_none, he, bind, Except.bind]
              exact ⟨e, rfl, hr⟩
            | some w =>
              rw [hs] at this
              simp only [Option.map_some, this, bind, Except.bind, pure, Except.pure, setAt_ge _ _ _ (by omega : xs.length ≤ i.toNat)]
        cases v with
        | null =>
          have := key []
          simp only [Stream.setpath, setpathFuel, hi]
          simpa using this
        | arr xs =>
          have := key xs
          simp only [Stream.setpath, setpathFuel, hi]
          exact this
        | obj kvs => simp only [Stream.setpath, setpathFuel]; exact ⟨_, rfl, realErr_expectedArray _⟩
        | bool b => simp only [Stream.setpath, setpathFuel]; exact ⟨_, rfl, realErr_expectedArray _⟩
        | num b => simp only [Stream.setpath, setpathFuel]; exact ⟨_, rfl, realErr_expectedArray _⟩
        | str b => simp only [Stream.setpath, setpathFuel]; exact ⟨_, rfl, realErr_expectedArray _⟩
      | flt _ => simp [elemOK] at hp
      | nzero => simp [elemOK] at hp
      | nan => simp [elemOK] at hp
      | inf _ => simp [elemOK] at hp
    | null =>
      simp only [Stream.setpath, setpathFuel]
      cases v <;> exact ⟨_, rfl, _, _, rfl, by decide⟩
    | bool b =>
      simp only [Stream.setpath, setpathFuel]
      cases v <;> exact ⟨_, rfl, _, _, rfl, by decide⟩
    | arr a =>
      simp only [Stream.setpath, setpathFuel]
      cases v <;> exact ⟨_, rfl, _, _, rfl, by decide⟩
    | obj o => simp [elemOK] at hp


theorem realErr_wrap2 (name : String) (v w x : JV) (e : Err) : RealErr (wrapErr2 name v w x e) := ⟨_, _, rfl, by decide⟩

theorem setpathV_stream (p : List JV) (x v : JV) (hp : p.all elemOK = true) :
    match Stream.setpath p x v with
    | some w => setpathV v p x = .ok w
    | none => ∃ e, setpathV v p x = .error e ∧ RealErr e := by
  have := setpathFuel_stream p x v (p.length + 1) hp (by omega)
  cases hs : Stream.setpath p x v with
  | some w =>
    rw [hs] at this
    simp only [setpathV, this]
  | none =>
    rw [hs] at this
    obtain ⟨e, he, k, a, rfl, hk⟩ := this
    refine ⟨wrapErr2 "setpath" v (.arr p) x (.builtin k a), ?_, realErr_wrap2 _ _ _ _ _⟩
    simp only [setpathV, he]
    split
    · rename_i heq; cases heq
    · rename_i heq
      simp only [Except.error.injEq, Err.builtin.injEq] at heq
      exact absurd heq.1 hk
    · rename_i heq
      simp only [Except.error.injEq] at heq
      rw [← heq]

/-- the last step of the special form `setpath(p; x)` -/
theorem setpath_emit (s pv : St) (hpv : pv.ctx = none) (p : List JV) (x : JV) (hp : p.all elemOK = true) :
    Runs (match setpathV s.v p x with
      | .ok u => Res.one (computed pv u)
      | .error (.builtin "UNMODELLED" _) => Res.unmodelled "setpath"
      | .error e => Res.fail e) (Stream.setpath p x s.v) := by
  have := setpathV_stream p x s.v hp
  cases hs : Stream.setpath p x s.v with
  | some w =>
    rw [hs] at this
    simp only [this, computed, hpv]
    exact ⟨_, rfl⟩
  | none =>
    rw [hs] at this
    obtain ⟨e, he, k, a, rfl, hk⟩ := this
    simp only [he]
    split
    · rename_i heq; cases heq
    · rename_i heq
      simp only [Except.error.injEq, Err.builtin.injEq] at heq
      exact absurd heq.1 hk
    · exact ⟨_, rfl⟩


/-! ### small queries evaluated in an environment that binds the variables and shadows no native -/

/-- `$name` / a call without arguments -/
def varQ (name : String) : Query := (Query.term [] (Term.mk (TermCore.func name []) []))

theorem eval_varQ (m : Nat) (hm : 4 ≤ m) (env : Env) (name : String) (a : JV) (i : Ident) (s : St)
    (h : lookupCall name 0 env.bs = .var a i) :
    eval m cfgGo env (varQ name) s = .one { v := a, id := i, ctx := s.ctx } := by
  obtain ⟨n, rfl⟩ : ∃ n, m = n + 4 := ⟨m - 4, by omega⟩
  simp only [varQ, eval_term, Env.defs, List.foldl_nil, evalTerm_succ, evalTermRev, List.reverse_nil, evalCore_succ,
    evalCall_succ, List.length_nil, h]

/-- `["lit"]` -/
def arrLitQ (b : Bytes) : Query := (Query.term [] (Term.mk (TermCore.array (some (strQ b))) []))

theorem eval_arrLitQ (m : Nat) (hm : 8 ≤ m) (env : Env) (b : Bytes) (v : JV) (id : Ident) :
    eval m cfgGo env (arrLitQ b) { v := v, id := id } = .one { v := .arr [.str b], id := .fresh } := by
  obtain ⟨n, rfl⟩ : ∃ n, m = n + 8 := ⟨m - 8, by omega⟩
  simp only [arrLitQ, strQ, eval_term, Env.defs, List.foldl_nil, evalTerm_succ, evalTermRev, List.reverse_nil, evalCore_succ,
    evalStr_succ, computed, Res.one, List.map]

theorem find_length : cfgGo.builtins.find "length" 0 = none := by rfl

theorem evalCall_length_arr (m : Nat) (hm : 1 ≤ m) (env : Env) (xs : List JV) (id : Ident)
    (h : lookupCall "length" 0 env.bs = .none) :
    evalCall m cfgGo env "length" [] { v := .arr xs, id := id } = .one { v := jvInt xs.length, id := .fresh } := by
  obtain ⟨n, rfl⟩ : ∃ n, m = n + 1 := ⟨m - 1, by omega⟩
  have hsw : "length".startsWith "$" = false := by decide +kernel
  simp only [evalCall_succ, List.length_nil, h, hsw, Bool.false_eq_true, if_false, find_length]
  rfl

theorem opEq_nat (a b : Nat) : opEq (jvInt (a : Nat)) (.num (.int (b : Nat))) = decide (a = b) := by
  simp only [opEq, jvInt, cmp, cmpNum, cmpInt]
  by_cases h : a = b
  · subst h; simp
  · by_cases hlt : (a : Int) < b
    · simp [hlt, h]
    · have : ¬ (a : Int) = b := by omega
      simp [hlt, h, this]

/-- `length == k` on an array -/
def lenEqQ (text : String) : Query := (Query.binop [] Op.eq (Query.term [] (Term.mk (TermCore.func "length" []) [])) (Query.term [] (Term.mk (TermCore.number text) [])))

theorem eval_lenEqQ (m : Nat) (hm : 8 ≤ m) (env : Env) (text : String) (k : Nat) (hk : parseNumberLit text = some (.int k))
    (xs : List JV) (id : Ident) (h : lookupCall "length" 0 env.bs = .none) :
    eval m cfgGo env (lenEqQ text) { v := .arr xs, id := id } = .one { v := .bool (decide (xs.length = k)), id := .fresh } := by
  obtain ⟨n, rfl⟩ : ∃ n, m = n + 8 := ⟨m - 8, by omega⟩
  have hne : ("_equal" == "_add") = false := by decide
  have hc : callNative "_equal" (.arr xs) [jvInt xs.length, .num (.int k)] = some (pure (.bool (opEq (jvInt xs.length) (.num (.int k))))) := rfl
  simp only [lenEqQ, eval_binop, Env.defs, List.foldl_nil, evalBinNative_eq, eval_term, evalTerm_succ, evalTermRev,
    List.reverse_nil, evalCore_succ, hk, computed, one_bind_mk, evalCall_length_arr (n + 3) (by omega) env xs id h,
    binApply, hne, Bool.false_and, Bool.false_eq_true, if_false, hc, nativeRes, pure, Except.pure, resultOf, opEq_nat]
  rfl


/-! ### the state object of `fromstream` -/

theorem B_e : B "e" = [101] := by decide +kernel
theorem B_v : B "v" = [118] := by decide +kernel

/-- the jq value `fromstream`'s `foreach` carries, against the model's state `FS` -/
inductive Rep : JV → Stream.FS → Prop
  | null : Rep .null ⟨.null, false⟩
  | ev (b : Bool) (x : JV) : Rep (.obj [([101], .bool b), ([118], x)]) ⟨x, b⟩
  | e (b : Bool) : Rep (.obj [([101], .bool b)]) ⟨.null, b⟩

/-- `.e` and `.v` of a represented state -/
theorem rep_field_e {sv : JV} {fs : Stream.FS} (h : Rep sv fs) :
    ∃ w, field sv "e" = some w ∧ isFalsy w = !fs.e := by
  cases h with
  | null => exact ⟨.null, rfl, rfl⟩
  | ev b x => refine ⟨.bool b, by simp [field, funcIndex2, kvLookup, B_e, pure, Except.pure], by cases b <;> rfl⟩
  | e b => refine ⟨.bool b, by simp [field, funcIndex2, kvLookup, B_e, pure, Except.pure], by cases b <;> rfl⟩

theorem rep_field_v {sv : JV} {fs : Stream.FS} (h : Rep sv fs) : field sv "v" = some fs.v := by
  cases h with
  | null => rfl
  | ev b x => simp [field, funcIndex2, kvLookup, B_v, pure, Except.pure]
  | e b => simp [field, funcIndex2, kvLookup, B_v, pure, Except.pure]

/-- `if .e then null end` -/
def resetQ : Query := (Query.term [] (Term.mk (TermCore.if_ (fieldQ "e") (Query.term [] (Term.mk TermCore.null [])) [] none) []))

theorem eval_resetQ (m : Nat) (hm : 12 ≤ m) (env : Env) (sv : JV) (sid : Ident) (fs : Stream.FS) (h : Rep sv fs) :
    ∃ sv0 i, eval m cfgGo env resetQ { v := sv, id := sid } = .one { v := sv0, id := i } ∧
      Rep sv0 (if fs.e then ⟨.null, false⟩ else fs) := by
  obtain ⟨n, rfl⟩ : ∃ n, m = n + 12 := ⟨m - 12, by omega⟩
  obtain ⟨w, hw, hf⟩ := rep_field_e h
  have hr := eval_fieldQ (n + 9) (by omega) env "e" sv sid
  rw [hw] at hr
  obtain ⟨j, hj⟩ := hr
  simp only [resetQ, eval_term, Env.defs, List.foldl_nil, evalTerm_succ, evalTermRev, List.reverse_nil, evalCore_succ,
    withCtx, hj, one_bind_mk, hf]
  cases he : fs.e with
  | true =>
    simp only [Bool.not_true, Bool.not_false, if_true, computed]
    exact ⟨.null, .fresh, rfl, Rep.null⟩
  | false =>
    simp only [Bool.not_false, Bool.not_true, Bool.false_eq_true, if_false]
    exact ⟨sv, sid, rfl, h⟩

theorem find_empty : cfgGo.builtins.find "empty" 0 = none := by rfl

theorem eval_emptyQ (m : Nat) (hm : 4 ≤ m) (env : Env) (s : St) (h : lookupCall "empty" 0 env.bs = .none) :
    eval m cfgGo env (varQ "empty") s = .empty := by
  obtain ⟨n, rfl⟩ : ∃ n, m = n + 4 := ⟨m - 4, by omega⟩
  have hsw : "empty".startsWith "$" = false := by decide +kernel
  simp only [varQ, eval_term, Env.defs, List.foldl_nil, evalTerm_succ, evalTermRev, List.reverse_nil, evalCore_succ,
    evalCall_succ, List.length_nil, h, hsw, Bool.false_eq_true, if_false, find_empty]
  rfl

/-- `if .e then .v else empty end` -/
def extractQ : Query := (Query.term [] (Term.mk (TermCore.if_ (fieldQ "e") (fieldQ "v") [] (some (varQ "empty"))) []))

theorem eval_extractQ (m : Nat) (hm : 12 ≤ m) (env : Env) (sv : JV) (sid : Ident) (fs : Stream.FS) (h : Rep sv fs)
    (hE : lookupCall "empty" 0 env.bs = .none) :
    ∃ outs, eval m cfgGo env extractQ { v := sv, id := sid } = ⟨outs, .done⟩ ∧
      outs.map (·.v) = (if fs.e then [fs.v] else []) := by
  obtain ⟨n, rfl⟩ : ∃ n, m = n + 12 := ⟨m - 12, by omega⟩
  obtain ⟨w, hw, hf⟩ := rep_field_e h
  have hr := eval_fieldQ (n + 9) (by omega) env "e" sv sid
  rw [hw] at hr
  obtain ⟨j, hj⟩ := hr
  simp only [extractQ, eval_term, Env.defs, List.foldl_nil, evalTerm_succ, evalTermRev, List.reverse_nil, evalCore_succ,
    withCtx, hj, one_bind_mk, hf]
  cases he : fs.e with
  | true =>
    simp only [Bool.not_true, Bool.not_false, if_true]
    have hv := eval_fieldQ (n + 9) (by omega) env "v" sv sid
    rw [rep_field_v h] at hv
    obtain ⟨i, hi⟩ := hv
    exact ⟨_, hi, rfl⟩
  | false =>
    simp only [Bool.not_false, Bool.not_true, Bool.false_eq_true, if_false, eval_emptyQ (n + 9) (by omega) env _ hE]
    exact ⟨[], rfl, rfl⟩


/-! ### the special form `setpath(p; x)` -/

theorem find_setpath : cfgGo.builtins.find "setpath" 2 = none := by rfl

theorem evalCall_setpath (n : Nat) (env : Env) (pq vq : Query) (s : St) (h : lookupCall "setpath" 2 env.bs = .none) :
    evalCall (n + 1) cfgGo env "setpath" [pq, vq] s =
      (eval n cfgGo env vq s).bind fun nv =>
        (eval n cfgGo env pq { s with ctx := nv.ctx }).bind fun pv =>
          match pv.v with
          | .arr path =>
            (match setpathV s.v path nv.v with
             | .ok u => .one (computed pv u)
             | .error (.builtin "UNMODELLED" _) => .unmodelled "setpath"
             | .error e => .fail e)
          | other => .fail (errFunc1 "setpath" s.v other) := by
  have hsw : "setpath".startsWith "$" = false := by decide +kernel
  simp only [evalCall_succ, List.length_cons, List.length_nil, Nat.zero_add, Nat.reduceAdd, h, hsw, Bool.false_eq_true, if_false,
    find_setpath]
  rfl

/-- `setpath(pq; vq)` when the path query yields a modelled path `p` and the value query `x` -/
theorem runs_setpath (n : Nat) (env : Env) (pq vq : Query) (sv : JV) (sid : Ident) (p : List JV) (x : JV)
    (h : lookupCall "setpath" 2 env.bs = .none) (hp : p.all elemOK = true)
    (hv : Runs (eval n cfgGo env vq { v := sv, id := sid }) (some x))
    (hq : Runs (eval n cfgGo env pq { v := sv, id := sid }) (some (.arr p))) :
    Runs (evalCall (n + 1) cfgGo env "setpath" [pq, vq] { v := sv, id := sid }) (Stream.setpath p x sv) := by
  obtain ⟨i, hi⟩ := hv
  obtain ⟨j, hj⟩ := hq
  rw [evalCall_setpath n env pq vq _ h]
  simp only [hi, one_bind_mk, hj]
  exact setpath_emit { v := sv, id := sid } { v := .arr p, id := j } rfl p x hp

/-- `["v"] + $p` -/
def vPathQ : Query := (Query.binop [] Op.add (arrLitQ (B "v")) (varQ "$p"))

theorem eval_vPathQ (m : Nat) (hm : 12 ≤ m) (env : Env) (sv : JV) (sid : Ident) (p : List JV) (pid : Ident)
    (hp : lookupCall "$p" 0 env.bs = .var (.arr p) pid) :
    Runs (eval m cfgGo env vPathQ { v := sv, id := sid }) (some (.arr (.str [118] :: p))) := by
  obtain ⟨n, rfl⟩ : ∃ n, m = n + 12 := ⟨m - 12, by omega⟩
  simp only [vPathQ, eval_binop, Env.defs, List.foldl_nil, evalBinNative_eq, eval_varQ (n + 10) (by omega) env "$p" _ pid _ hp,
    one_bind_mk, eval_arrLitQ (n + 10) (by omega) env, binApply, B_v]
  cases p with
  | nil => exact ⟨_, rfl⟩
  | cons a p => exact ⟨_, rfl⟩


/-! ### the update of `fromstream`, one event -/

/-- `$p | length == k` -/
def pLenQ (text : String) : Query := (Query.binop [] Op.pipe (varQ "$p") (lenEqQ text))

theorem eval_pLenQ (m : Nat) (hm : 10 ≤ m) (env : Env) (text : String) (k : Nat) (hk : parseNumberLit text = some (.int k))
    (sv : JV) (sid : Ident) (p : List JV) (pid : Ident)
    (hp : lookupCall "$p" 0 env.bs = .var (.arr p) pid) (hL : lookupCall "length" 0 env.bs = .none) :
    eval m cfgGo env (pLenQ text) { v := sv, id := sid } = .one { v := .bool (decide (p.length = k)), id := .fresh } := by
  obtain ⟨n, rfl⟩ : ∃ n, m = n + 10 := ⟨m - 10, by omega⟩
  simp only [pLenQ, eval_binop, Env.defs, List.foldl_nil, eval_varQ (n + 9) (by omega) env "$p" _ pid _ hp, one_bind_mk,
    eval_lenEqQ (n + 9) (by omega) env text k hk p pid hL]

/-- `setpath(["e"]; $p | length == k)` -/
def setEQ (text : String) : Query := (Query.term [] (Term.mk (TermCore.func "setpath" [arrLitQ (B "e"), pLenQ text]) []))

theorem eval_setEQ (m : Nat) (hm : 14 ≤ m) (env : Env) (text : String) (k : Nat) (hk : parseNumberLit text = some (.int k))
    (sv : JV) (sid : Ident) (p : List JV) (pid : Ident)
    (hp : lookupCall "$p" 0 env.bs = .var (.arr p) pid) (hL : lookupCall "length" 0 env.bs = .none)
    (hS : lookupCall "setpath" 2 env.bs = .none) :
    Runs (eval m cfgGo env (setEQ text) { v := sv, id := sid })
      (Stream.setpath [.str [101]] (.bool (decide (p.length = k))) sv) := by
  obtain ⟨n, rfl⟩ : ∃ n, m = n + 14 := ⟨m - 14, by omega⟩
  simp only [setEQ, eval_term, Env.defs, List.foldl_nil, evalTerm_succ, evalTermRev, List.reverse_nil, evalCore_succ]
  apply runs_setpath (n + 10) env _ _ sv sid [.str [101]] _ hS (by rfl)
  · rw [eval_pLenQ (n + 10) (by omega) env text k hk sv sid p pid hp hL]; exact ⟨_, rfl⟩
  · rw [eval_arrLitQ (n + 10) (by omega) env, B_e]; exact ⟨_, rfl⟩

/-- `setpath(["v"] + $p; $v)` -/
def setVQ : Query := (Query.term [] (Term.mk (TermCore.func "setpath" [vPathQ, varQ "$v"]) []))

theorem eval_setVQ (m : Nat) (hm : 16 ≤ m) (env : Env) (sv : JV) (sid : Ident) (p : List JV) (pid : Ident) (x : JV) (xid : Ident)
    (hp : lookupCall "$p" 0 env.bs = .var (.arr p) pid) (hx : lookupCall "$v" 0 env.bs = .var x xid)
    (hS : lookupCall "setpath" 2 env.bs = .none) (hok : p.all elemOK = true) :
    Runs (eval m cfgGo env setVQ { v := sv, id := sid }) (Stream.setpath (.str [118] :: p) x sv) := by
  obtain ⟨n, rfl⟩ : ∃ n, m = n + 16 := ⟨m - 16, by omega⟩
  simp only [setVQ, eval_term, Env.defs, List.foldl_nil, evalTerm_succ, evalTermRev, List.reverse_nil, evalCore_succ]
  apply runs_setpath (n + 12) env _ _ sv sid (.str [118] :: p) _ hS (by simpa [elemOK] using hok)
  · rw [eval_varQ (n + 12) (by omega) env "$v" x xid _ hx]; exact ⟨_, rfl⟩
  · exact eval_vPathQ (n + 12) (by omega) env sv sid p pid hp

/-- what the two `setpath`s of a leaf event make of a represented state -/
theorem rep_leaf {sv0 : JV} {fs0 : Stream.FS} (h : Rep sv0 fs0) (p : List JV) (x : JV) (b : Bool) :
    (Stream.setpath (.str [118] :: p) x sv0).bind (fun s1 => Stream.setpath [.str [101]] (.bool b) s1) =
      (Stream.setpath p x fs0.v).map fun y => .obj [([101], .bool b), ([118], y)] := by
  cases h with
  | null =>
    simp only [Stream.setpath]
    cases Stream.setpath p x .null with
    | none => rfl
    | some y => simp [Stream.setpath, kvLookup, kvInsert, Bytes.cmp]
  | ev b0 x0 =>
    simp only [Stream.setpath, kvLookup]
    simp only [show (([118] : Bytes) == [101]) = false from by decide, show (([118] : Bytes) == [118]) = true from by decide,
      Bool.false_eq_true, if_false, if_true, Option.getD_some]
    cases Stream.setpath p x x0 with
    | none => rfl
    | some y => simp [Stream.setpath, kvLookup, kvInsert, Bytes.cmp]
  | e b0 =>
    simp only [Stream.setpath, kvLookup]
    simp only [show (([118] : Bytes) == [101]) = false from by decide, Bool.false_eq_true, if_false, Option.getD_none]
    cases Stream.setpath p x .null with
    | none => rfl
    | some y => simp [Stream.setpath, kvLookup, kvInsert, Bytes.cmp]

/-- what the `setpath` of a closing event makes of a represented state -/
theorem rep_close {sv0 : JV} {fs0 : Stream.FS} (h : Rep sv0 fs0) (b : Bool) :
    ∃ sv', Stream.setpath [.str [101]] (.bool b) sv0 = some sv' ∧ Rep sv' ⟨fs0.v, b⟩ := by
  cases h with
  | null => exact ⟨_, rfl, Rep.e b⟩
  | ev b0 x0 => exact ⟨_, by simp [Stream.setpath, kvLookup, kvInsert, Bytes.cmp], Rep.ev b x0⟩
  | e b0 => exact ⟨_, by simp [Stream.setpath, kvLookup, kvInsert, Bytes.cmp], Rep.e b⟩


/-- `$pv | length == 2` -/
def isLeafQ : Query := (Query.binop [] Op.pipe (varQ "$pv") (lenEqQ "2"))

theorem eval_isLeafQ (m : Nat) (hm : 10 ≤ m) (env : Env) (sv : JV) (sid : Ident) (es : List JV) (eid : Ident)
    (hpv : lookupCall "$pv" 0 env.bs = .var (.arr es) eid) (hL : lookupCall "length" 0 env.bs = .none) :
    eval m cfgGo env isLeafQ { v := sv, id := sid } = .one { v := .bool (decide (es.length = 2)), id := .fresh } := by
  obtain ⟨n, rfl⟩ : ∃ n, m = n + 10 := ⟨m - 10, by omega⟩
  simp only [isLeafQ, eval_binop, Env.defs, List.foldl_nil, eval_varQ (n + 9) (by omega) env "$pv" _ eid _ hpv, one_bind_mk,
    eval_lenEqQ (n + 9) (by omega) env "2" 2 rfl es eid hL]

/-- `if $pv | length == 2 then setpath(["v"] + $p; $v) | setpath(["e"]; $p | length == 0)
     else setpath(["e"]; $p | length == 1) end` -/
def stepIfQ : Query := (Query.term [] (Term.mk (TermCore.if_ isLeafQ (Query.binop [] Op.pipe setVQ (setEQ "0")) [] (some (setEQ "1"))) []))

theorem eval_stepIfQ_leaf (m : Nat) (hm : 24 ≤ m) (env : Env) (sv0 : JV) (sid : Ident) (fs0 : Stream.FS) (hr : Rep sv0 fs0)
    (p : List JV) (x : JV) (eid pid xid : Ident)
    (hpv : lookupCall "$pv" 0 env.bs = .var (.arr [.arr p, x]) eid)
    (hp : lookupCall "$p" 0 env.bs = .var (.arr p) pid) (hx : lookupCall "$v" 0 env.bs = .var x xid)
    (hL : lookupCall "length" 0 env.bs = .none) (hS : lookupCall "setpath" 2 env.bs = .none) (hok : p.all elemOK = true) :
    Runs (eval m cfgGo env stepIfQ { v := sv0, id := sid })
      ((Stream.setpath p x fs0.v).map fun y => .obj [([101], .bool (decide (p.length = 0))), ([118], y)]) := by
  obtain ⟨n, rfl⟩ : ∃ n, m = n + 24 := ⟨m - 24, by omega⟩
  simp only [stepIfQ, eval_term, Env.defs, List.foldl_nil, evalTerm_succ, evalTermRev, List.reverse_nil, evalCore_succ, withCtx,
    eval_isLeafQ (n + 21) (by omega) env sv0 sid _ eid hpv hL, one_bind_mk, List.length_cons, List.length_nil,
    Nat.reduceAdd, decide_true, isFalsy, Bool.not_false, if_true, eval_binop]
  rw [← rep_leaf hr p x]
  exact runs_bind (eval_setVQ (n + 20) (by omega) env sv0 sid p pid x xid hp hx hS hok)
    (fun w i => eval_setEQ (n + 20) (by omega) env "0" 0 rfl w i p pid hp hL hS)

theorem eval_stepIfQ_close (m : Nat) (hm : 24 ≤ m) (env : Env) (sv0 : JV) (sid : Ident)
    (p : List JV) (eid pid : Ident)
    (hpv : lookupCall "$pv" 0 env.bs = .var (.arr [.arr p]) eid)
    (hp : lookupCall "$p" 0 env.bs = .var (.arr p) pid)
    (hL : lookupCall "length" 0 env.bs = .none) (hS : lookupCall "setpath" 2 env.bs = .none) :
    Runs (eval m cfgGo env stepIfQ { v := sv0, id := sid })
      (Stream.setpath [.str [101]] (.bool (decide (p.length = 1))) sv0) := by
  obtain ⟨n, rfl⟩ : ∃ n, m = n + 24 := ⟨m - 24, by omega⟩
  simp only [stepIfQ, eval_term, Env.defs, List.foldl_nil, evalTerm_succ, evalTermRev, List.reverse_nil, evalCore_succ, withCtx,
    eval_isLeafQ (n + 21) (by omega) env sv0 sid _ eid hpv hL, one_bind_mk, List.length_cons, List.length_nil,
    Nat.reduceAdd, Nat.reduceEqDiff, decide_false, isFalsy, Bool.not_true, Bool.false_eq_true, if_false]
  exact eval_setEQ (n + 21) (by omega) env "1" 1 rfl sv0 sid p pid hp hL hS


/-- `$pv as [$p, $v] | if … end` -/
def stepBindQ : Query := (Query.bind [] (varQ "$pv") [(Pattern.array [(Pattern.var "$p"), (Pattern.var "$v")])] stepIfQ)

theorem append_empty_left (r : Res) : (Res.empty.append fun _ => r) = r := by
  cases r; rfl

theorem append_nil_done (r : Res) : (r.append fun _ => (⟨[], .done⟩ : Res)) = r := by
  rcases r with ⟨outs, stop⟩
  cases stop <;> simp [Res.append]

/-- the environment inside the `if`: `$pv`, `$p`, `$v` bound on top of `rest` -/
def envStep (ev : JV) (eid : Ident) (pp x : JV) (rest : List Binding) : Env :=
  .mk (.var "$v" x (childIdent eid (jvInt (1 : Nat))) :: .var "$p" pp (childIdent eid (jvInt (0 : Nat))) :: .var "$pv" ev eid :: rest)

theorem eval_stepBindQ (m : Nat) (hm : 4 ≤ m) (rest : List Binding) (es : List JV) (eid : Ident) (pp x : JV) (s : St)
    (h0 : funcIndex2 (.arr es) (jvInt (0 : Nat)) = .ok pp) (h1 : funcIndex2 (.arr es) (jvInt (1 : Nat)) = .ok x) :
    eval (m + 2) cfgGo (.mk (.var "$pv" (.arr es) eid :: rest)) stepBindQ s =
      eval m cfgGo (envStep (.arr es) eid pp x rest) stepIfQ s := by
  obtain ⟨n, rfl⟩ : ∃ n, m = n + 4 := ⟨m - 4, by omega⟩
  have hv : lookupCall "$pv" 0 (Env.mk (.var "$pv" (.arr es) eid :: rest)).bs = .var (.arr es) eid := rfl
  simp only [stepBindQ, eval_bind, Env.defs, List.foldl_nil, withCtx,
    eval_varQ (n + 5) (by omega) _ "$pv" _ eid _ hv, one_bind_mk, evalAlts_one, List.length_cons, List.length_nil,
    altAttempt, bindPattern_succ, bindArrayK, expandEnvs, PatRes.ok, h0, h1, Env.push, Env.bs, List.append_nil, forEnvs,
    List.foldl_cons, List.foldl_nil, append_empty_left, append_nil_done, envStep]
  rfl


/-- the whole update: `if .e then null end | $pv as [$p, $v] | if … end` -/
def updateQ : Query := (Query.binop [] Op.pipe resetQ stepBindQ)

theorem eventOK_cases {ev : JV} (h : eventOK ev = true) :
    (∃ p x, ev = .arr [.arr p, x] ∧ p.all elemOK = true) ∨ (∃ p, ev = .arr [.arr p]) := by
  unfold eventOK at h
  split at h
  · exact Or.inl ⟨_, _, rfl, h⟩
  · exact Or.inr ⟨_, rfl⟩
  · cases h

theorem nat_beq_decide (a b : Nat) : (a == b) = decide (a = b) := by
  by_cases h : a = b <;> simp [h]

theorem eval_updateQ (m : Nat) (hm : 40 ≤ m) (rest : List Binding) (ev : JV) (eid : Ident) (hev : eventOK ev = true)
    (sv : JV) (sid : Ident) (fs : Stream.FS) (hr : Rep sv fs)
    (hL : lookupCall "length" 0 rest = .none) (hS : lookupCall "setpath" 2 rest = .none) :
    match Stream.fromstreamStep fs ev with
    | some fs' => ∃ sv' i, eval m cfgGo (.mk (.var "$pv" ev eid :: rest)) updateQ { v := sv, id := sid } =
        .one { v := sv', id := i } ∧ Rep sv' fs'
    | none => ∃ e, eval m cfgGo (.mk (.var "$pv" ev eid :: rest)) updateQ { v := sv, id := sid } = .fail e := by
  obtain ⟨n, rfl⟩ : ∃ n, m = n + 40 := ⟨m - 40, by omega⟩
  obtain ⟨sv0, i0, h0, hr0⟩ := eval_resetQ (n + 39) (by omega) (.mk (.var "$pv" ev eid :: rest)) sv sid fs hr
  simp only [updateQ, eval_binop, Env.defs, List.foldl_nil, h0, one_bind_mk]
  rcases eventOK_cases hev with ⟨p, x, rfl, hok⟩ | ⟨p, rfl⟩
  · rw [eval_stepBindQ (n + 37) (by omega) rest _ eid (.arr p) x _ rfl rfl]
    have hrun := eval_stepIfQ_leaf (n + 37) (by omega) (envStep (.arr [.arr p, x]) eid (.arr p) x rest) sv0 i0 _ hr0 p x eid _ _
      rfl rfl rfl hL hS hok
    simp only [Stream.fromstreamStep]
    cases hs : Stream.setpath p x (if fs.e = true then (⟨.null, false⟩ : Stream.FS) else fs).v with
    | none =>
      rw [hs] at hrun
      obtain ⟨e, he⟩ := hrun
      exact ⟨e, he⟩
    | some y =>
      rw [hs] at hrun
      obtain ⟨i, hi⟩ := hrun
      refine ⟨_, i, hi, ?_⟩
      simp only [nat_beq_decide]
      exact Rep.ev _ y
  · rw [eval_stepBindQ (n + 37) (by omega) rest _ eid (.arr p) .null _ rfl rfl]
    have hrun := eval_stepIfQ_close (n + 37) (by omega) (envStep (.arr [.arr p]) eid (.arr p) .null rest) sv0 i0 p eid _
      rfl rfl hL hS
    obtain ⟨sv', hs, hr'⟩ := rep_close hr0 (decide (p.length = 1))
    rw [hs] at hrun
    obtain ⟨i, hi⟩ := hrun
    simp only [Stream.fromstreamStep, nat_beq_decide]
    exact ⟨sv', i, hi, hr'⟩


/-! ### the `foreach` loop -/

theorem foreachLoop_fromstream (m : Nat) (hm : 40 ≤ m) (rest : List Binding)
    (hL : lookupCall "length" 0 rest = .none) (hS : lookupCall "setpath" 2 rest = .none)
    (hE : lookupCall "empty" 0 rest = .none) :
    ∀ (sts : List St), (∀ st ∈ sts, st.pend = false ∧ st.ctx = none ∧ eventOK st.v = true) →
    ∀ (sv : JV) (sid : Ident) (fs : Stream.FS), Rep sv fs → ∀ (acc : List St) (accM : List JV),
      acc.map (·.v) = accM.reverse →
      match Stream.fromstreamGo fs (sts.map (·.v)) accM with
      | .ok outs => ∃ res, foreachLoop (fun x => bindPattern m cfgGo (.mk rest) (.var "$pv") x.v x.id x.ctx)
          (fun x env' sv sid => eval m cfgGo env' updateQ { v := sv, id := sid, ctx := x.ctx })
          (fun env' u => eval m cfgGo env' extractQ u) .done sts sv sid acc = ⟨res, .done⟩ ∧ res.map (·.v) = outs
      | .error _ => ∃ res e, foreachLoop (fun x => bindPattern m cfgGo (.mk rest) (.var "$pv") x.v x.id x.ctx)
          (fun x env' sv sid => eval m cfgGo env' updateQ { v := sv, id := sid, ctx := x.ctx })
          (fun env' u => eval m cfgGo env' extractQ u) .done sts sv sid acc = ⟨res, .err e⟩
  | [], _, sv, sid, fs, _, acc, accM, hacc => by
    simp only [List.map_nil, Stream.fromstreamGo, foreachLoop]
    exact ⟨acc, rfl, hacc⟩
  | x :: sts, hx, sv, sid, fs, hr, acc, accM, hacc => by
    obtain ⟨n, rfl⟩ : ∃ n, m = n + 40 := ⟨m - 40, by omega⟩
    obtain ⟨hpend, hctx, hev⟩ := hx x (by simp)
    have ih := foreachLoop_fromstream (n + 40) hm rest hL hS hE sts (fun st hst => hx st (by simp [hst]))
    have hup := eval_updateQ (n + 40) (by omega) rest x.v x.id hev sv sid fs hr hL hS
    simp only [List.map_cons, Stream.fromstreamGo, foreachLoop, bindPattern_succ, PatRes.ok, foreachEnvs, Env.push, Env.bs, hctx]
    cases hstep : Stream.fromstreamStep fs x.v with
    | none =>
      rw [hstep] at hup
      obtain ⟨e, he⟩ := hup
      simp only [he, Res.fail, foreachOuts, hpend, pendStop]
      exact ⟨acc, e, rfl⟩
    | some fs' =>
      rw [hstep] at hup
      obtain ⟨sv', i, hu, hr'⟩ := hup
      have hE' : lookupCall "empty" 0 (Env.mk (.var "$pv" x.v x.id :: rest)).bs = .none := hE
      obtain ⟨outs, hext, houts⟩ := eval_extractQ (n + 40) (by omega) (.mk (.var "$pv" x.v x.id :: rest)) sv' i fs' hr' hE'
      simp only [hu, Res.one, foreachOuts, hext]
      have hacc' : (acc ++ outs).map (·.v) = (if fs'.e = true then fs'.v :: accM else accM).reverse := by
        rw [List.map_append, hacc, houts]
        cases fs'.e <;> simp
      exact ih sv' i fs' hr' (acc ++ outs) _ hacc'


/-! ### `fromstream(f)` and `[fromstream(.[])]` -/

/-- the body of `fromstream(f)` as the real parser dumps it -/
def fromstreamBody : Query := (Query.term [] (Term.mk (TermCore.foreach (varQ "f") (Pattern.var "$pv") (Query.term [] (Term.mk TermCore.null [])) updateQ (some extractQ)) []))

theorem shipped_fromstream : Generated.Builtins.go_fromstream_a01 = .mk "fromstream" ["f"] fromstreamBody := rfl

theorem find_fromstream : cfgGo.builtins.find "fromstream" 1 = some (.mk "fromstream" ["f"] fromstreamBody) := by
  rw [← shipped_fromstream]; rfl

theorem evalCall_fromstream (n : Nat) (env : Env) (fq : Query) (s : St) (h : lookupCall "fromstream" 1 env.bs = .none) :
    evalCall (n + 2) cfgGo env "fromstream" [fq] s =
      eval n cfgGo (.mk [.clo "f" fq env, .fn "fromstream" ["f"] fromstreamBody true]) fromstreamBody s := by
  have hsw : "fromstream".startsWith "$" = false := by decide +kernel
  have hf : "f".startsWith "$" = false := by decide +kernel
  simp only [evalCall_succ, List.length_cons, List.length_nil, Nat.zero_add, h, hsw, Bool.false_eq_true, if_false,
    find_fromstream, callDef_succ, FuncDef.name, FuncDef.params, FuncDef.body, List.zip_cons_cons, List.zip_nil_right,
    List.foldl_cons, List.foldl_nil, List.filter_cons, List.filter_nil, hf, bindValsK]
  rfl

theorem eval_fromstreamBody (n : Nat) (env : Env) (v : JV) (id : Ident) :
    eval (n + 6) cfgGo env fromstreamBody { v := v, id := id } =
      foreachFrom (n + 3) cfgGo env (varQ "f") (.var "$pv") updateQ (some extractQ) { v := v, id := id }
        { v := .null, id := .fresh } := by
  simp only [fromstreamBody, eval_term, Env.defs, List.foldl_nil, evalTerm_succ, evalTermRev, List.reverse_nil, evalCore_succ,
    computed, one_bind_mk]

/-- `.[]` -/
def iterQ : Query := (Query.term [] (Term.mk TermCore.identity [Suffix.iter]))

/-- **`Stream.fromstreamSpec` IS the shipped `fromstream`** on every list of modelled events:
    `[fromstream(.[])]` run by `Spec.eval` from the regenerated definition -/
theorem eval_fromstream_iter (m : Nat) (hm : 60 ≤ m) (env : Env) (evs : List JV) (id : Ident)
    (hev : evs.all eventOK = true) (h : lookupCall "fromstream" 1 env.bs = .none) :
    Agrees (eval m cfgGo env qFromstreamIter { v := .arr evs, id := id }) (ofFOut (Stream.fromstreamSpec evs)) := by
  obtain ⟨n, rfl⟩ : ∃ n, m = n + 60 := ⟨m - 60, by omega⟩
  obtain ⟨sts, h1, h2, h3⟩ := iterate_vals (.arr evs) id evs rfl
  have hsts : ∀ st ∈ sts, st.pend = false ∧ st.ctx = none ∧ eventOK st.v = true := by
    intro st hst
    refine ⟨(h3 st hst).1, (h3 st hst).2, ?_⟩
    have : st.v ∈ evs := by rw [← h2]; exact List.mem_map_of_mem hst
    exact List.all_eq_true.mp hev _ this
  have hloop := foreachLoop_fromstream (n + 49) (by omega)
    [.clo "f" iterQ env, .fn "fromstream" ["f"] fromstreamBody true] rfl rfl rfl sts hsts .null .fresh ⟨.null, false⟩ Rep.null [] [] rfl
  rw [h2] at hloop
  have hsrc : eval (n + 49) cfgGo (.mk [.clo "f" iterQ env, .fn "fromstream" ["f"] fromstreamBody true]) (varQ "f")
      { v := .arr evs, id := id } = ⟨sts, .done⟩ := by
    simp only [varQ, eval_term, Env.defs, List.foldl_nil, evalTerm_succ, evalTermRev, List.reverse_nil, evalCore_succ,
      evalCall_succ, List.length_nil, Env.bs, lookupCall, beq_self_eq_true, Bool.and_self, if_true, iterQ, List.reverse_cons,
      List.nil_append, one_bind_mk, h1]
  have hcall : evalCall (n + 54) cfgGo env "fromstream" [iterQ] { v := .arr evs, id := id } =
      foreachFrom (n + 49) cfgGo (.mk [.clo "f" iterQ env, .fn "fromstream" ["f"] fromstreamBody true]) (varQ "f") (.var "$pv")
        updateQ (some extractQ) { v := .arr evs, id := id } { v := .null, id := .fresh } := by
    rw [evalCall_fromstream (n + 52) env _ _ h, eval_fromstreamBody (n + 46)]
  simp only [qFromstreamIter, eval_term, Env.defs, List.foldl_nil, evalTerm_succ, evalTermRev, List.reverse_nil, evalCore_succ]
  rw [show (Query.term [] (Term.mk TermCore.identity [Suffix.iter])) = iterQ from rfl, hcall]
  simp only [foreachFrom, hsrc]
  cases hspec : Stream.fromstreamSpec evs with
  | ok outs =>
    simp only [Stream.fromstreamSpec] at hspec
    rw [hspec] at hloop
    obtain ⟨res, hres, hv⟩ := hloop
    simp only [hres, computed, ofFOut, hv]
    exact ⟨rfl, rfl⟩
  | error outs =>
    simp only [Stream.fromstreamSpec] at hspec
    rw [hspec] at hloop
    obtain ⟨res, e, hres⟩ := hloop
    simp only [hres, ofFOut]
    exact ⟨rfl, e, rfl⟩


/-! ### the events of `tostream` are modelled events -/

open Gojq.Stream in
theorem elemOK_idx (i : Nat) (h : i < 536870912) : elemOK (idxJV i) = true := by
  simp only [idxJV, elemOK, Bool.and_eq_true, decide_eq_true_eq]
  omega

theorem all_reverse_ok {rp : List JV} (h : rp.all elemOK = true) : rp.reverse.all elemOK = true := by
  simp only [List.all_eq_true, List.mem_reverse] at h ⊢
  exact h

open Gojq.Stream in
theorem leafEv_ok {rp : List JV} (h : rp.all elemOK = true) (x : JV) : eventOK (leafEv rp x) = true := by
  simp only [leafEv, pathJV, eventOK]
  exact all_reverse_ok h

open Gojq.Stream in
theorem closeEv_ok (rp : List JV) : eventOK (closeEv rp) = true := by
  simp only [closeEv, pathJV, eventOK]

open Gojq.Stream in
mutual
theorem spec_ok : ∀ (v : JV) (rp : List JV), rp.all elemOK = true → Rebuildable v → (spec rp v).all eventOK = true
  | .null, rp, h, _ => by simp [spec, leafEv_ok h]
  | .bool b, rp, h, _ => by simp [spec, leafEv_ok h]
  | .num n, rp, h, _ => by simp [spec, leafEv_ok h]
  | .str s, rp, h, _ => by simp [spec, leafEv_ok h]
  | .arr [], rp, h, _ => by simp [spec, leafEv_ok h]
  | .obj [], rp, h, _ => by simp [spec, leafEv_ok h]
  | .arr (x :: xs), rp, h, hs => by
    simp only [ArrLe] at hs
    simp only [spec]
    exact specL_ok (x :: xs) rp 0 h (by simpa [setpathLimit] using hs.1) hs.2
  | .obj (kv :: kvs), rp, h, hs => by
    simp only [ArrLe] at hs
    simp only [spec]
    exact specM_ok (kv :: kvs) rp h hs
theorem specL_ok : ∀ (xs : List JV) (rp : List JV) (i : Nat), rp.all elemOK = true → i + xs.length ≤ 536870912 →
    ArrLeL setpathLimit xs → (specL rp i xs).all eventOK = true
  | [], _, _, _, _, _ => by simp [specL]
  | [x], rp, i, h, hi, hs => by
    simp only [ArrLeL] at hs
    have hrp : (idxJV i :: rp).all elemOK = true := by
      simp only [List.all_cons, Bool.and_eq_true]; exact ⟨elemOK_idx i (by simp at hi; omega), h⟩
    simp only [specL, List.all_append, Bool.and_eq_true, spec_ok x _ hrp hs.1, List.all_cons, closeEv_ok, List.all_nil]
    trivial
  | x :: y :: ys, rp, i, h, hi, hs => by
    have hs' : ArrLe setpathLimit x ∧ ArrLeL setpathLimit (y :: ys) := by simpa only [ArrLeL] using hs
    have hrp : (idxJV i :: rp).all elemOK = true := by
      simp only [List.all_cons, Bool.and_eq_true]; exact ⟨elemOK_idx i (by simp at hi; omega), h⟩
    simp only [specL, List.all_append, Bool.and_eq_true]
    exact ⟨spec_ok x _ hrp hs'.1, specL_ok (y :: ys) rp (i + 1) h (by simp at hi ⊢; omega) hs'.2⟩
theorem specM_ok : ∀ (kvs : List (Bytes × JV)) (rp : List JV), rp.all elemOK = true →
    ArrLeM setpathLimit kvs → (specM rp kvs).all eventOK = true
  | [], _, _, _ => by simp [specM]
  | [(k, x)], rp, h, hs => by
    simp only [ArrLeM] at hs
    have hrp : (JV.str k :: rp).all elemOK = true := by
      simp only [List.all_cons, Bool.and_eq_true]; exact ⟨rfl, h⟩
    simp only [specM, List.all_append, Bool.and_eq_true, spec_ok x _ hrp hs.1, List.all_cons, closeEv_ok, List.all_nil]
    trivial
  | (k, x) :: kv :: kvs, rp, h, hs => by
    have hs' : ArrLe setpathLimit x ∧ ArrLeM setpathLimit (kv :: kvs) := by simpa only [ArrLeM] using hs
    have hrp : (JV.str k :: rp).all elemOK = true := by
      simp only [List.all_cons, Bool.and_eq_true]; exact ⟨rfl, h⟩
    simp only [specM, List.all_append, Bool.and_eq_true]
    exact ⟨spec_ok x _ hrp hs'.1, specM_ok (kv :: kvs) rp h hs'.2⟩
end

theorem streamSpec_ok (v : JV) (hs : Rebuildable v) : (Stream.streamSpec v).all eventOK = true :=
  spec_ok v [] rfl hs

theorem streamSpecDocs_ok : ∀ (vs : List JV), (∀ v ∈ vs, Rebuildable v) → (Stream.streamSpecDocs vs).all eventOK = true
  | [], _ => rfl
  | v :: vs, h => by
    simp only [Stream.streamSpecDocs, List.all_append, Bool.and_eq_true]
    exact ⟨streamSpec_ok v (h v (by simp)), streamSpecDocs_ok vs (fun w hw => h w (by simp [hw]))⟩

end Gojq.Pairs

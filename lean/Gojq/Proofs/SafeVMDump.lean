/-
  C08 (bytecode checker): the check on the DUMPED instruction syntax is the check on interpreter
  code — `shapeV` reads off the dump `viewS i` exactly the shape of `i`.
-/
import Gojq.Model.SafeVM2
namespace Gojq.SafeVM
open Gojq Gojq.VM

theorem kindOfCode_kindCode (k : NativeKind) : kindOfCode (kindCode k) = k := by
  cases k <;> rfl

theorem shapeV_viewS (i : Instr) : shapeV (viewS i) = shape i := by
  cases i with
  | callNative k n =>
    have h1 : ("calln" == "index") = false := by decide
    have h2 : ("calln" == "indexarray") = false := by decide
    have h3 : ("calln" == "push") = false := by decide
    simp [viewS, shapeV, shape, kindOfCode_kindCode, h1, h2, h3]
  | push v =>
    cases h : isArrJV v <;> simp [viewS, shapeV, shape, h] <;> decide
  | index k =>
    have h3 : ("index" == "push") = false := by decide
    cases h : nonNull k <;> simp [viewS, shapeV, shape, h, h3] <;> decide
  | indexarray k =>
    have h1 : ("indexarray" == "index") = false := by decide
    have h3 : ("indexarray" == "push") = false := by decide
    cases h : nonNull k <;> simp [viewS, shapeV, shape, h, h1, h3] <;> decide
  | _ => rfl

theorem map_shapeV_viewS (c : Array Instr) : (c.map viewS).map shapeV = c.map shape := by
  rw [Array.map_map]
  congr 1
  funext i
  exact shapeV_viewS i

theorem safeCheckViewN_view (nvars : Nat) (c : Array Instr) :
    safeCheckViewN nvars (c.map viewS) = safeCheckN nvars c := by
  unfold safeCheckViewN safeCheckN
  rw [map_shapeV_viewS]

theorem safeCheckView_view (c : Array Instr) : safeCheckView (c.map viewS) = safeCheck c :=
  safeCheckViewN_view 0 c

end Gojq.SafeVM

/-
  Helper lemmas for C03 (Props/C03.lean): bounds of every index the natives compute, the
  operators' dispatch tables, and the declarative descriptions of the natives.  Core Lean only.
-/
import Gojq.Model.Native
import Gojq.Proofs.Sort
import Gojq.Proofs.Codec
import Gojq.Proofs.EncodeNum
import Gojq.Proofs.Arith
namespace Gojq.Native
open Gojq Utf8

/-! ## 1. index and slice bounds -/

theorem clampIndex_range (i mn mx : Int) (h : mn ≤ mx) :
    mn ≤ clampIndex i mn mx ∧ clampIndex i mn mx ≤ mx := by
  unfold clampIndex
  generalize (if i < 0 then wrap64 (i + mx) else i) = j
  simp only
  split
  · omega
  · split <;> omega

theorem sliceStart_range (len : Nat) (s : JV) (mk : JV → Err) (st : Int)
    (h : sliceStart len s mk = .ok st) : 0 ≤ st ∧ st ≤ len := by
  unfold sliceStart at h
  split at h
  · cases h; omega
  · split at h
    · cases h; exact clampIndex_range _ 0 len (by omega)
    · cases h

theorem sliceEnd_range (len : Nat) (start : Int) (e : JV) (mk : JV → Err) (en : Int)
    (hs : start ≤ len) (h : sliceEnd len start e mk = .ok en) : start ≤ en ∧ en ≤ len := by
  unfold sliceEnd at h
  split at h
  · cases h; omega
  · split at h
    · cases h; exact clampIndex_range _ start len hs
    · cases h

theorem sliceBounds_ok (len : Nat) (e s : JV) (mk : JV → Err) (a b : Nat)
    (h : sliceBounds len e s mk = .ok (a, b)) : a ≤ b ∧ b ≤ len := by
  unfold sliceBounds at h
  split at h
  · cases h
  · rename_i st hst
    split at h
    · cases h
    · rename_i en hen
      cases h
      have h1 := sliceStart_range len s mk st hst
      have h2 := sliceEnd_range len st e mk en h1.2 hen
      omega

theorem decodeRune_width (b : UInt8) (rest : Bytes) :
    1 ≤ (decodeRune (b :: rest)).2.1 ∧ (decodeRune (b :: rest)).2.1 ≤ (b :: rest).length := by
  simp only [decodeRune]
  repeat' split
  all_goals simp

theorem runeOffsetAux_bounds : ∀ (fuel : Nat) (s : Bytes) (k off : Nat),
    off ≤ runeOffsetAux fuel s k off ∧ runeOffsetAux fuel s k off ≤ off + s.length := by
  intro fuel
  induction fuel with
  | zero => intro s k off; simp [runeOffsetAux]
  | succ fuel ih =>
    intro s k off
    cases k with
    | zero => simp [runeOffsetAux]
    | succ k =>
      cases s with
      | nil => simp [runeOffsetAux]
      | cons b rest =>
        simp only [runeOffsetAux]
        have hw := decodeRune_width b rest
        generalize hwd : max (decodeRune (b :: rest)).2.1 1 = w
        have hw1 : 1 ≤ w ∧ w ≤ rest.length + 1 := by
          simp only [List.length_cons] at hw; omega
        have h := ih ((b :: rest).drop w) k (off + w)
        simp only [List.length_drop, List.length_cons] at h ⊢
        omega

theorem runeOffsetAux_mono : ∀ (fuel : Nat) (s : Bytes) (k off : Nat),
    runeOffsetAux fuel s k off ≤ runeOffsetAux fuel s (k + 1) off := by
  intro fuel
  induction fuel with
  | zero => intro s k off; simp [runeOffsetAux]
  | succ fuel ih =>
    intro s k off
    cases s with
    | nil => cases k <;> simp [runeOffsetAux]
    | cons b rest =>
      cases k with
      | zero =>
        simp only [runeOffsetAux]
        generalize max (decodeRune (b :: rest)).2.1 1 = w
        have := (runeOffsetAux_bounds fuel ((b :: rest).drop w) 0 (off + w)).1
        omega
      | succ k =>
        simp only [runeOffsetAux]
        exact ih _ k _

theorem runeOffset_le (s : Bytes) (k : Nat) : runeOffset s k ≤ s.length := by
  have := (runeOffsetAux_bounds (s.length + 1) s k 0).2
  simpa [runeOffset] using this

theorem runeOffset_mono (s : Bytes) {a b : Nat} (h : a ≤ b) : runeOffset s a ≤ runeOffset s b := by
  induction h with
  | refl => exact Nat.le_refl _
  | step _ ih => exact Nat.le_trans ih (runeOffsetAux_mono _ s _ 0)

/-- the two byte offsets `sliceString` computes satisfy `start ≤ end ≤ len(v)` -/
theorem sliceStr_offsets (str : Bytes) (a b : Nat) (hab : a ≤ b) :
    byteOffset str a ≤ byteOffset str b ∧ byteOffset str b ≤ str.length := by
  unfold byteOffset
  constructor
  · split
    · split
      · exact runeOffset_mono str hab
      · exact runeOffset_le str a
    · split
      · omega
      · exact Nat.le_refl _
  · split
    · exact runeOffset_le str b
    · exact Nat.le_refl _

theorem indexArr_in_range (vs : List JV) (i : Int)
    (h0 : 0 ≤ clampIndex i (-1) vs.length) (h1 : clampIndex i (-1) vs.length < vs.length) :
    ∃ h : (clampIndex i (-1) vs.length).toNat < vs.length,
      indexArr vs i = vs[(clampIndex i (-1) vs.length).toNat] := by
  have hb : (clampIndex i (-1) vs.length).toNat < vs.length := by omega
  refine ⟨hb, ?_⟩
  simp only [indexArr, h0, h1, and_self, if_true]
  simp [List.getD, hb]

theorem indexArr_out_of_range (vs : List JV) (i : Int)
    (h : ¬ (0 ≤ clampIndex i (-1) vs.length ∧ clampIndex i (-1) vs.length < vs.length)) :
    indexArr vs i = .null := by
  simp only [indexArr, h, if_false]

theorem replicate_flatten_length (c : Nat) (s : Bytes) : (List.replicate c s).flatten.length = c * s.length := by
  induction c with
  | zero => simp
  | succ c ih => simp [List.replicate_succ, ih, Nat.succ_mul, Nat.add_comm]

theorem repeatString_guard (s : Bytes) (n : Num) (r : Bytes) (h : repeatString s n = .ok (.str r)) :
    (s.length : Int) * repeatCount n < maxInt32 ∧ r.length = s.length * (repeatCount n).toNat := by
  unfold repeatString at h
  split at h
  · cases h
  · simp only at h
    split at h
    · cases h
    · rename_i hlt
      split at h
      · rename_i he
        cases h
        have : s = [] := by simpa using he
        subst this
        exact ⟨by omega, by simp⟩
      · cases h
        refine ⟨by omega, ?_⟩
        rw [replicate_flatten_length, Nat.mul_comm]

theorem foldl_max_ge (rows : List (List JV)) (m : Nat) :
    m ≤ rows.foldl (fun m r => max m r.length) m ∧
    ∀ r ∈ rows, r.length ≤ rows.foldl (fun m r => max m r.length) m := by
  induction rows generalizing m with
  | nil => simp
  | cons r rest ih =>
    simp only [List.foldl_cons, List.mem_cons, forall_eq_or_imp]
    have h := ih (max m r.length)
    refine ⟨by omega, by omega, h.2⟩

/-! ## 2. dispatch tables of the operators -/

inductive Tag where | null | bool | num | str | arr | obj
  deriving DecidableEq, Repr

def tag : JV → Tag
  | .null => .null | .bool _ => .bool | .num _ => .num | .str _ => .str | .arr _ => .arr | .obj _ => .obj

/-- what one cell of an operator's dispatch table promises about the result -/
inductive Cell where
  | number | string | array | object
  | numberOrZeroError (kind : String)
  | repeated          -- string repeat: a string, null (negative / NaN count) or repeatStringTooLarge
  | left | right      -- the operand itself
  | typeError
  deriving DecidableEq, Repr

def Cell.holds (name : String) (l r : JV) : Cell → NRes → Prop
  | .number, res => ∃ n, res = .ok (.num n)
  | .string, res => ∃ s, res = .ok (.str s)
  | .array, res => ∃ xs, res = .ok (.arr xs)
  | .object, res => ∃ kvs, res = .ok (.obj kvs)
  | .numberOrZeroError kind, res => (∃ n, res = .ok (.num n)) ∨ ∃ a b, res = .error (.builtin kind [.num a, .num b])
  | .repeated, res => res = .ok .null ∨ (∃ s, res = .ok (.str s)) ∨
      ∃ s n, res = .error (.builtin "repeatStringTooLarge" [.str s, .num n])
  | .left, res => res = .ok l
  | .right, res => res = .ok r
  | .typeError, res => res = .error (errBinop name l r)

def addTable : Tag → Tag → Cell
  | .null, _ => .right
  | _, .null => .left
  | .num, .num => .number
  | .str, .str => .string
  | .arr, .arr => .array
  | .obj, .obj => .object
  | _, _ => .typeError

def subTable : Tag → Tag → Cell
  | .num, .num => .number
  | .arr, .arr => .array
  | _, _ => .typeError

def mulTable : Tag → Tag → Cell
  | .num, .num => .number
  | .obj, .obj => .object
  | .str, .num => .repeated
  | .num, .str => .repeated
  | _, _ => .typeError

def divTable : Tag → Tag → Cell
  | .num, .num => .numberOrZeroError "zeroDivision"
  | .str, .str => .array
  | _, _ => .typeError

def modTable : Tag → Tag → Cell
  | .num, .num => .numberOrZeroError "zeroModulo"
  | _, _ => .typeError

theorem add_dispatch (l r : JV) : (addTable (tag l) (tag r)).holds "add" l r (opAdd l r) := by
  cases l <;> cases r <;> simp [addTable, tag, Cell.holds, opAdd, pure, Except.pure, throw, throwThe, MonadExceptOf.throw]

theorem sub_dispatch (l r : JV) : (subTable (tag l) (tag r)).holds "subtract" l r (opSub l r) := by
  cases l <;> cases r <;> simp [subTable, tag, Cell.holds, opSub, pure, Except.pure, throw, throwThe, MonadExceptOf.throw]

theorem repeatString_cell (s : Bytes) (n : Num) :
    repeatString s n = .ok .null ∨ (∃ t, repeatString s n = .ok (.str t)) ∨
      ∃ s' n', repeatString s n = .error (.builtin "repeatStringTooLarge" [.str s', .num n']) := by
  unfold repeatString
  split
  · left; rfl
  · simp only
    split
    · right; right; exact ⟨_, _, rfl⟩
    · split
      · right; left; exact ⟨_, rfl⟩
      · right; left; exact ⟨_, rfl⟩

theorem mul_dispatch (l r : JV) : (mulTable (tag l) (tag r)).holds "multiply" l r (opMul l r) := by
  cases l <;> cases r <;>
    simp [mulTable, tag, Cell.holds, opMul, pure, Except.pure, throw, throwThe, MonadExceptOf.throw, repeatString_cell]

theorem numOperands_nums (a b : Num) : ∃ x y, numOperands a b = (.num x, .num y) := by
  unfold numOperands; split <;> exact ⟨_, _, rfl⟩

theorem div_dispatch (l r : JV) : (divTable (tag l) (tag r)).holds "divide" l r (opDiv l r) := by
  cases l <;> cases r <;>
    simp [divTable, tag, Cell.holds, opDiv, pure, Except.pure, throw, throwThe, MonadExceptOf.throw]
  · rename_i a b
    obtain ⟨x, y, hxy⟩ := numOperands_nums a b
    cases h : opDivNum a b with
    | ok n => left; exact ⟨n, rfl⟩
    | error e => right; exact ⟨x, y, by simp [hxy]⟩
  · rename_i a b
    split
    · exact ⟨_, rfl⟩
    · exact ⟨_, rfl⟩

theorem mod_dispatch (l r : JV) : (modTable (tag l) (tag r)).holds "modulo" l r (opMod l r) := by
  cases l <;> cases r <;>
    simp [modTable, tag, Cell.holds, opMod, pure, Except.pure, throw, throwThe, MonadExceptOf.throw]
  rename_i a b
  obtain ⟨x, y, hxy⟩ := numOperands_nums a b
  cases h : opModNum a b with
  | ok n => left; exact ⟨n, rfl⟩
  | error e => right; exact ⟨x, y, by simp [hxy]⟩

/-! ## 3. add, flatten -/

theorem opAdd_null_right (l : JV) : opAdd l .null = .ok l := by
  cases l <;> rfl

theorem opAdd_null_left (r : JV) : opAdd .null r = .ok r := by
  cases r <;> rfl

/-- `add` is the plain left fold of `+` from null: skipping the nulls changes nothing -/
theorem addAll_eq_foldlM (xs : List JV) : addAll xs = xs.foldlM opAdd .null := by
  unfold addAll
  congr 1
  funext acc x
  cases x <;> first | rfl | exact (opAdd_null_right acc).symm

def isArr : JV → Bool
  | .arr _ => true
  | _ => false

mutual
  theorem flattenVal_zero : ∀ v : JV, flattenVal 0 v = [v]
    | .arr vs => by simp [flattenVal]
    | .null => by simp [flattenVal]
    | .bool _ => by simp [flattenVal]
    | .num _ => by simp [flattenVal]
    | .str _ => by simp [flattenVal]
    | .obj _ => by simp [flattenVal]
end

theorem flattenList_zero : ∀ xs : List JV, flattenList 0 xs = xs
  | [] => by simp [flattenList]
  | v :: rest => by simp [flattenList, flattenVal_zero, flattenList_zero rest]

mutual
  /-- with a negative depth (−1 is the one-argument `flatten`) no array is left -/
  theorem flattenVal_neg : ∀ (v : JV) (d : Rat), d < 0 → ∀ y ∈ flattenVal d v, isArr y = false
    | .arr vs, d, hd => by
      have hne : (d != 0) = true := by grind
      simp only [flattenVal, hne, if_true]
      exact flattenList_neg vs (d - 1) (by grind)
    | .null, d, _ => by simp [flattenVal, isArr]
    | .bool _, d, _ => by simp [flattenVal, isArr]
    | .num _, d, _ => by simp [flattenVal, isArr]
    | .str _, d, _ => by simp [flattenVal, isArr]
    | .obj _, d, _ => by simp [flattenVal, isArr]
  theorem flattenList_neg : ∀ (xs : List JV) (d : Rat), d < 0 → ∀ y ∈ flattenList d xs, isArr y = false
    | [], d, _ => by simp [flattenList]
    | v :: rest, d, hd => by
      intro y hy
      simp only [flattenList, List.mem_append] at hy
      cases hy with
      | inl h => exact flattenVal_neg v d hd y h
      | inr h => exact flattenList_neg rest d hd y h
end

/-! ## 4. index/rindex, prefixes and suffixes, strings.Contains -/

/-! index / rindex -/
theorem head_is_least : ∀ (l : List Nat) (i : Nat), l.Pairwise (· < ·) → l.head? = some i →
    i ∈ l ∧ ∀ j ∈ l, i ≤ j
  | [], _, _, h => by simp at h
  | a :: rest, i, hp, h => by
    simp only [List.head?_cons, Option.some.injEq] at h
    subst h
    refine ⟨List.mem_cons_self .., ?_⟩
    intro j hj
    rcases List.mem_cons.mp hj with rfl | hj
    · exact Nat.le_refl _
    · exact Nat.le_of_lt ((List.pairwise_cons.mp hp).1 j hj)

theorem last_is_greatest : ∀ (l : List Nat) (i : Nat), l.Pairwise (· < ·) → l.getLast? = some i →
    i ∈ l ∧ ∀ j ∈ l, j ≤ i
  | [], _, _, h => by simp at h
  | [a], i, _, h => by
    simp only [List.getLast?_singleton, Option.some.injEq] at h
    subst h; simp
  | a :: b :: rest, i, hp, h => by
    rw [List.getLast?_cons_cons] at h
    have hp' := List.pairwise_cons.mp hp
    obtain ⟨hm, hle⟩ := last_is_greatest (b :: rest) i hp'.2 h
    refine ⟨List.mem_cons_of_mem _ hm, ?_⟩
    intro j hj
    rcases List.mem_cons.mp hj with rfl | hj
    · exact Nat.le_of_lt (hp'.1 i hm)
    · exact hle j hj

/-! prefixes / suffixes -/
theorem hasPrefix_iff (s p : Bytes) : hasPrefix s p = true ↔ p <+: s := by
  unfold hasPrefix
  rw [beq_iff_eq, List.prefix_iff_eq_take]
  exact eq_comm

theorem hasSuffix_iff (s p : Bytes) : hasSuffix s p = true ↔ p <:+ s := by
  unfold hasSuffix
  rw [Bool.and_eq_true, decide_eq_true_eq, beq_iff_eq, List.suffix_iff_eq_drop]
  constructor
  · rintro ⟨_, h⟩; exact h.symm
  · intro h
    refine ⟨?_, h.symm⟩
    have := congrArg List.length h
    simp only [List.length_drop] at this
    omega

theorem trimPrefix_append (p s : Bytes) : trimPrefix (p ++ s) p = s := by
  unfold trimPrefix
  rw [if_pos ((hasPrefix_iff _ _).2 (List.prefix_append p s))]
  simp

theorem trimSuffix_append (s p : Bytes) : trimSuffix (s ++ p) p = s := by
  unfold trimSuffix
  rw [if_pos ((hasSuffix_iff _ _).2 (List.suffix_append s p))]
  simp

theorem trimPrefix_of_not (s p : Bytes) (h : ¬ p <+: s) : trimPrefix s p = s := by
  unfold trimPrefix
  rw [if_neg (fun hp => h ((hasPrefix_iff _ _).1 hp))]

theorem trimSuffix_of_not (s p : Bytes) (h : ¬ p <:+ s) : trimSuffix s p = s := by
  unfold trimSuffix
  rw [if_neg (fun hp => h ((hasSuffix_iff _ _).1 hp))]

/-! strings.Contains -/
theorem bytesContains_iff (l r : Bytes) : bytesContains l r = true ↔ r <:+: l := by
  unfold bytesContains
  rw [Bool.or_eq_true, List.any_eq_true]
  constructor
  · rintro (h | ⟨i, hi, h⟩)
    · have : r = [] := by simpa using h
      subst this; exact List.nil_infix
    · rw [beq_iff_eq] at h
      refine ⟨l.take i, (l.drop i).drop r.length, ?_⟩
      have h1 : l.drop i = r ++ (l.drop i).drop r.length := by
        conv => lhs; rw [← List.take_append_drop r.length (l.drop i), h]
      rw [List.append_assoc, ← h1, List.take_append_drop]
  · rintro ⟨s, t, h⟩
    right
    refine ⟨s.length, ?_, ?_⟩
    · rw [List.mem_range, ← h]; simp; omega
    · rw [beq_iff_eq, ← h]; simp

/-! ## 5. join -/

/-! join -/
/-- `sep ++ x` for every remaining piece -/
def joinTail (sep : Bytes) (ss : List Bytes) : Bytes := ss.flatMap fun s => sep ++ s

theorem codec_join_cons (sep x : Bytes) : ∀ rest : List Bytes, Codec.join sep (x :: rest) = x ++ joinTail sep rest
  | [] => by simp [Codec.join, joinTail]
  | y :: rest => by
    rw [Codec.join_cons sep x (y :: rest) (by simp), codec_join_cons sep y rest]
    simp [joinTail, List.append_assoc]

/-- the step of `add`'s fold -/
def addStep (acc x : JV) : NRes := match x with
  | .null => pure acc
  | x => opAdd acc x

theorem addAll_def (xs : List JV) : addAll xs = xs.foldlM addStep .null := rfl

theorem joinSeq_tail (sep : Bytes) : ∀ (ss : List Bytes) (acc : Bytes),
    ∃ seq, joinSeq (.str sep) (ss.map .str) false = some seq ∧
      seq.foldlM addStep (.str acc) = .ok (.str (acc ++ joinTail sep ss))
  | [], acc => ⟨[], by simp [joinSeq], by simp [joinTail, pure, Except.pure]⟩
  | s :: rest, acc => by
    obtain ⟨seq, h1, h2⟩ := joinSeq_tail sep rest (acc ++ sep ++ s)
    refine ⟨.str sep :: .str s :: seq, ?_, ?_⟩
    · simp [joinSeq, h1]
    · simp only [List.foldlM_cons, addStep, opAdd, bind, Except.bind, pure, Except.pure]
      rw [h2]
      simp [joinTail, List.append_assoc]

theorem funcJoin_strings (sep : Bytes) (ss : List Bytes) :
    funcJoin (.arr (ss.map .str)) (.str sep) = .ok (.str (Codec.join sep ss)) := by
  cases ss with
  | nil => simp [funcJoin, valuesOf, Codec.join, pure, Except.pure]
  | cons s rest =>
    obtain ⟨seq, h1, h2⟩ := joinSeq_tail sep rest s
    simp only [funcJoin, valuesOf, List.map_cons, joinSeq, h1, if_true]
    rw [addAll_def]
    simp only [List.foldlM_cons, addStep, opAdd, bind, Except.bind, pure, Except.pure, List.nil_append]
    rw [h2, codec_join_cons]

/-! ## 6. transpose, has, contains -/

/-! transpose -/
def maxLen (rows : List (List JV)) : Nat := rows.foldl (fun m r => max m r.length) 0

theorem transposeRows_length (rows : List (List JV)) : (transposeRows rows).length = maxLen rows := by
  simp [transposeRows, maxLen]

theorem transposeRows_cell (rows : List (List JV)) (i j : Nat) (hj : j < maxLen rows) (hi : i < rows.length) :
    ∃ col, (transposeRows rows)[j]? = some (.arr col) ∧ col[i]? = some ((rows[i]).getD j .null) := by
  refine ⟨rows.map fun r => r.getD j .null, ?_, ?_⟩
  · simp only [transposeRows]
    rw [List.getElem?_map, List.getElem?_range (by simpa [maxLen] using hj)]
    rfl
  · rw [List.getElem?_map, List.getElem?_eq_getElem hi]
    rfl

/-! has -/
theorem kvLookup_isSome (k : Bytes) : ∀ kvs : List (Bytes × JV), (kvLookup k kvs).isSome = kvs.any (fun kv => kv.1 == k)
  | [] => rfl
  | (k', v) :: rest => by
    simp only [kvLookup, List.any_cons]
    by_cases h : k = k'
    · subst h; simp
    · have h' : (k == k') = false := by simpa using h
      have h'' : (k' == k) = false := by simpa using (fun e => h e.symm)
      simp [h', h'', kvLookup_isSome k rest]

/-! contains on arrays -/
theorem containsAny_eq (r : JV) : ∀ l : List JV, containsAny l r = l.any (fun x => contains x r == some true)
  | [] => rfl
  | x :: xs => by simp [containsAny, containsAny_eq r xs]

theorem containsKey_eq (k : Bytes) (rv : JV) : ∀ l : List (Bytes × JV),
    containsKey l k rv = match kvLookup k l with
      | some lv => contains lv rv == some true
      | none => false
  | [] => rfl
  | (k', lv) :: rest => by
    simp only [containsKey, kvLookup]
    split
    · rfl
    · exact containsKey_eq k rv rest

/-! ## 7. range, tostring|tonumber -/

theorem opAddNum_int (l r : Int) : opAddNum (.int l) (.int r) = .int (l + r) := by
  simp only [opAddNum]
  split
  · rename_i h; rw [addInt_exact h.1 h.2]
  · rfl

theorem cmp_int (a b : Int) : cmp (jvInt a) (jvInt b) = cmpInt a b := by
  simp [jvInt, cmp, cmpNum]

theorem cmp_int_lt (a b : Int) : (cmp (jvInt a) (jvInt b) == .lt) = decide (a < b) := by
  rw [cmp_int]; unfold cmpInt
  by_cases h : a < b
  · simp [h]
  · rw [if_neg h]; split <;> simp [h]

theorem rangePrefix_succ_lt (b s : Int) (hs : 0 < s) (n : Nat) (a : Int) (hab : a < b) :
    rangePrefix (jvInt b) (jvInt s) (n + 1) (jvInt a) =
      (jvInt a :: (rangePrefix (jvInt b) (jvInt s) n (jvInt (a + s))).1,
       (rangePrefix (jvInt b) (jvInt s) n (jvInt (a + s))).2) := by
  have hstep : cmp (jvInt s) (jvInt 0) = .gt := by
    rw [cmp_int]; unfold cmpInt; rw [if_neg (by omega), if_neg (by omega)]
  have hc : cmp (jvInt a) (jvInt b) = .lt := by rw [cmp_int]; unfold cmpInt; rw [if_pos hab]
  have hadd : opAdd (jvInt a) (jvInt s) = .ok (jvInt (a + s)) := by
    simp [jvInt, opAdd, opAddNum_int, pure, Except.pure]
  simp only [rangePrefix, hstep, hc, hadd]
  rw [if_neg (by decide)]

theorem rangePrefix_succ_ge (b s : Int) (hs : 0 < s) (n : Nat) (a : Int) (hab : ¬ a < b) :
    rangePrefix (jvInt b) (jvInt s) (n + 1) (jvInt a) = ([], false) := by
  have hstep : cmp (jvInt s) (jvInt 0) = .gt := by
    rw [cmp_int]; unfold cmpInt; rw [if_neg (by omega), if_neg (by omega)]
  simp only [rangePrefix, hstep]
  rw [cmp_int]; unfold cmpInt; rw [if_neg hab]
  by_cases he : a = b <;> simp [he]

/-- `range(a; b; s)` with a positive integer step: the arithmetic progression `a, a+s, a+2s, …`
    cut at the first term that is not below `b` -/
theorem rangePrefix_pos (b s : Int) (hs : 0 < s) : ∀ (n : Nat) (a : Int),
    (rangePrefix (jvInt b) (jvInt s) n (jvInt a)).1 =
      (((List.range n).map fun (i : Nat) => a + s * (i : Int)).takeWhile fun z => decide (z < b)).map jvInt := by
  intro n
  induction n with
  | zero => intro a; simp [rangePrefix]
  | succ n ih =>
    intro a
    rw [List.range_succ_eq_map]
    simp only [List.map_cons, List.map_map]
    by_cases hab : a < b
    · rw [rangePrefix_succ_lt b s hs n a hab]
      have h0 : a + s * ((0 : Nat) : Int) = a := by simp
      rw [h0, List.takeWhile_cons_of_pos (by simpa using hab), List.map_cons, ih (a + s)]
      dsimp only
      congr 3
      apply List.map_congr_left
      intro i _
      simp only [Function.comp, Nat.succ_eq_add_one, Int.natCast_add, Int.natCast_one]
      rw [Int.mul_add, Int.mul_one]; omega
    · rw [rangePrefix_succ_ge b s hs n a hab]
      have h0 : a + s * ((0 : Nat) : Int) = a := by simp
      rw [h0, List.takeWhile_cons_of_neg (by simpa using hab)]
      rfl

theorem rangePrefix_zero_step (e v : JV) : ∀ n, rangePrefix e (jvInt 0) n v = ([], false)
  | 0 => by
    have : cmp (jvInt 0) (jvInt 0) = .eq := by rw [cmp_int]; rfl
    simp [rangePrefix, this]
  | n + 1 => by
    have : cmp (jvInt 0) (jvInt 0) = .eq := by rw [cmp_int]; rfl
    simp [rangePrefix, this]

/-! tostring | tonumber on integers -/
theorem funcToString_int (z : Int) : funcToString (.num (.int z)) = .ok (.str (Encode.encodeInt z)) := by
  simp [funcToString, funcToJSON, toJsonBytes, Encode.modelled, Encode.encodeValue, Encode.encodeNum, pure, Except.pure]

theorem natDigits_head (n : Nat) : ∃ c cs, Encode.natDigits n = c :: cs ∧ Encode.isDigit c = true := by
  have h := Encode.natDigits_spec n
  cases hd : Encode.natDigits n with
  | nil => exact absurd hd h.ne
  | cons c cs => exact ⟨c, cs, rfl, h.all c (by rw [hd]; simp)⟩

theorem scanNumLit_digits (neg : Bool) (n : Nat) :
    scanNumLit ((if neg then [Encode.cMinus] else []) ++ Encode.natDigits n) =
      some ⟨neg, Encode.natDigits n, [], false, none⟩ := by
  obtain ⟨c, cs, hcs, hc⟩ := natDigits_head n
  have hall := (Encode.natDigits_spec n).all
  have hspan : spanDigitsB (Encode.natDigits n) = (Encode.natDigits n, []) := by
    have := Encode.spanDigits_append (Encode.natDigits n) [] hall (by intro b t h; cases h)
    simpa [spanDigitsB] using this
  have hcd : 48 ≤ c.toNat ∧ c.toNat ≤ 57 := by
    simpa [Encode.isDigit] using hc
  have hstrip : stripSign ((if neg then [Encode.cMinus] else []) ++ Encode.natDigits n) = (neg, Encode.natDigits n) := by
    cases neg
    · simp only [Bool.false_eq_true, if_false, List.nil_append, hcs, stripSign]
      rw [if_neg (by omega), if_neg (by omega)]
    · simp [stripSign, Encode.cMinus]
  unfold scanNumLit
  simp only [hstrip]
  rw [hcs]
  simp only
  rw [if_neg (by omega), ← hcs, hspan]
  simp [hcs]

theorem funcToNumber_encodeInt (z : Int) :
    funcToNumber (.str (Encode.encodeInt z)) = .ok (.num (.int z)) := by
  rw [Encode.encodeInt_eq]
  have h := scanNumLit_digits (decide (z < 0)) z.natAbs
  have hv := (Encode.natDigits_spec z.natAbs).val 0
  simp only [funcToNumber, h, expDigitsOk, NumLit.value, Bool.not_false, Option.isNone_none, Bool.and_self,
    if_true, pure, Except.pure, hv]
  congr 3
  by_cases hz : z < 0
  · simp [hz]; omega
  · simp [hz]; omega

/-! ## 8. object merge -/

theorem bcmp_eq_iff (a b : Bytes) : Bytes.cmp a b = .eq ↔ a = b := Bytes.cmp_eq_iff a b

theorem kvLookup_kvInsert_self (k : Bytes) (v : JV) : ∀ l, kvLookup k (kvInsert k v l) = some v
  | [] => by simp [kvInsert, kvLookup]
  | (k', v') :: rest => by
    simp only [kvInsert]
    cases h : Bytes.cmp k k' with
    | lt => simp [kvLookup]
    | eq => simp [kvLookup]
    | gt =>
      have hne : k ≠ k' := fun e => by rw [(bcmp_eq_iff k k').2 e] at h; cases h
      simp [kvLookup, hne, kvLookup_kvInsert_self k v rest]

theorem kvLookup_kvInsert_ne (k k2 : Bytes) (v : JV) (hne : k2 ≠ k) : ∀ l, kvLookup k2 (kvInsert k v l) = kvLookup k2 l
  | [] => by simp [kvInsert, kvLookup, hne]
  | (k', v') :: rest => by
    simp only [kvInsert]
    cases h : Bytes.cmp k k' with
    | lt => simp [kvLookup, hne]
    | eq =>
      have : k = k' := (bcmp_eq_iff k k').1 h
      subst this
      simp [kvLookup, hne]
    | gt =>
      simp only [kvLookup]
      split
      · rfl
      · exact kvLookup_kvInsert_ne k k2 v hne rest

theorem kvLookup_none_of_not_mem (k : Bytes) : ∀ l : List (Bytes × JV), k ∉ l.map (·.1) → kvLookup k l = none
  | [], _ => rfl
  | (k', v) :: rest, h => by
    simp only [List.map_cons, List.mem_cons, not_or] at h
    simp [kvLookup, h.1, kvLookup_none_of_not_mem k rest h.2]

/-- `l + r` on objects: the right operand wins, key by key -/
theorem kvLookup_objMerge (k : Bytes) : ∀ (r l : List (Bytes × JV)), (r.map (·.1)).Nodup →
    kvLookup k (objMerge l r) = (kvLookup k r <|> kvLookup k l)
  | [], l, _ => by simp [objMerge, kvLookup]
  | (k', v) :: rest, l, hn => by
    have hn' := List.nodup_cons.mp hn
    have ih := kvLookup_objMerge k rest (kvInsert k' v l) hn'.2
    simp only [objMerge, List.foldl_cons] at ih ⊢
    rw [ih]
    by_cases hk : k = k'
    · subst hk
      rw [kvLookup_none_of_not_mem k rest hn'.1, kvLookup_kvInsert_self]
      simp [kvLookup]
    · rw [kvLookup_kvInsert_ne k' k v hk]
      simp [kvLookup, hk]

theorem mergeVal_objects (lk rv : List (Bytes × JV)) : mergeVal (some (.obj lk)) (.obj rv) = .obj (deepMerge lk rv) := by
  simp [mergeVal]

theorem mergeVal_right_not_object (lv : Option JV) (v : JV) (h : ∀ rv, v ≠ .obj rv) : mergeVal lv v = v := by
  cases v <;> simp_all [mergeVal]

theorem mergeVal_left_not_object (lv : Option JV) (rv : List (Bytes × JV)) (h : ∀ lk, lv ≠ some (.obj lk)) :
    mergeVal lv (.obj rv) = .obj rv := by
  cases lv with
  | none => simp [mergeVal]
  | some w => cases w <;> simp_all [mergeVal]

/-- `l * r` on objects (deepMergeObjects): a key of the right operand is merged recursively when
    both sides hold objects, otherwise the right value wins; other keys keep the left value -/
theorem kvLookup_deepMerge (k : Bytes) : ∀ (r l : List (Bytes × JV)), (r.map (·.1)).Nodup →
    kvLookup k (deepMerge l r) = match kvLookup k r with
      | none => kvLookup k l
      | some rv => some (mergeVal (kvLookup k l) rv)
  | [], l, _ => by simp [deepMerge, kvLookup]
  | (k', v) :: rest, l, hn => by
    have hn' := List.nodup_cons.mp hn
    have ih := kvLookup_deepMerge k rest (kvInsert k' (mergeVal (kvLookup k' l) v) l) hn'.2
    simp only [deepMerge]
    rw [ih]
    by_cases hk : k = k'
    · subst hk
      rw [kvLookup_none_of_not_mem k rest hn'.1, kvLookup_kvInsert_self]
      simp [kvLookup]
    · rw [kvLookup_kvInsert_ne k' k _ hk]
      simp [kvLookup, hk]


/-! ## 9. setpath on a key, constants -/

def valKv (kv : Bytes × JV) : Bytes × MV := (kv.1, MV.val kv.2)

theorem toJVKvs_map_val : ∀ kvs : List (Bytes × JV), MV.toJVKvs? (kvs.map valKv) = some kvs
  | [] => rfl
  | (k, v) :: rest => by
    have ih := toJVKvs_map_val rest
    simp only [List.map_cons, valKv, MV.toJVKvs?, MV.toJV?] at ih ⊢
    rw [ih]

theorem kvInsertM_map (k : Bytes) (n : JV) : ∀ kvs : List (Bytes × JV),
    MV.kvInsertM k (.val n) (kvs.map valKv) = (kvInsert k n kvs).map valKv
  | [] => rfl
  | (k', v') :: rest => by
    simp only [List.map_cons, valKv, MV.kvInsertM, kvInsert]
    cases h : Bytes.cmp k k' with
    | lt => rfl
    | eq => rfl
    | gt =>
      simp only [List.map_cons, valKv]
      congr 1
      exact kvInsertM_map k n rest

theorem kvLookupM_map (k : Bytes) : ∀ kvs : List (Bytes × JV),
    MV.kvLookupM k (kvs.map valKv) = (kvLookup k kvs).map MV.val
  | [] => rfl
  | (k', v') :: rest => by
    simp only [List.map_cons, valKv, MV.kvLookupM, kvLookup]
    split
    · rfl
    · exact kvLookupM_map k rest

theorem funcSetpath_key (kvs : List (Bytes × JV)) (k : Bytes) (n : JV) :
    funcSetpath (.obj kvs) (.arr [.str k]) n = .ok (.obj (kvInsert k n kvs)) := by
  have hshape : MV.shape (.val (.obj kvs)) = .obj (kvs.map valKv) := rfl
  simp only [funcSetpath, update, hshape]
  rw [kvLookupM_map]
  cases kvLookup k kvs with
  | none =>
    simp only [Option.map_none, MV.isDel, Bool.false_eq_true, if_false, bind, Except.bind, pure, Except.pure]
    rw [kvInsertM_map]
    simp [MV.toJV?, toJVKvs_map_val]
  | some x =>
    simp only [Option.map_some, bind, Except.bind, pure, Except.pure]
    rw [kvInsertM_map]
    simp [MV.toJV?, toJVKvs_map_val]

theorem roundInt_neg_one : roundInt (-1) = .flt (-1) := by decide +kernel
theorem roundInt_zero : roundInt 0 = .flt 0 := by decide +kernel


/-! ## 10. literals are never integer carriers when spelt with `.`/exponent; growing an array -/

theorem roundRat_ne_int (q : Rat) (z : Int) : roundRat q ≠ .int z := by
  unfold roundRat
  simp only
  repeat' split
  all_goals simp

theorem decimalToFloat_ne_int (neg : Bool) (m nd : Nat) (sc : Int) (z : Int) : decimalToFloat neg m nd sc ≠ .int z := by
  unfold decimalToFloat
  split
  · split <;> simp
  · split
    · simp
    · split
      · split <;> simp
      · exact roundRat_ne_int _ z

theorem grow_index_ge (len : Nat) (i : Int) (hi : InRange i) (hl : (len : Int) ≤ maxInt)
    (_h0 : ¬ clampIndex i (-1) len < 0) (h1 : ¬ clampIndex i (-1) len < len) : (len : Int) ≤ i := by
  unfold clampIndex at h1
  by_cases hneg : i < 0
  · have hr : InRange (i + len) := by
      unfold InRange at hi ⊢; unfold maxInt minInt at *; omega
    rw [if_pos hneg, wrap64_of_inRange hr] at h1
    simp only at h1
    split at h1
    · omega
    · split at h1 <;> omega
  · rw [if_neg hneg] at h1
    simp only at h1
    split at h1
    · omega
    · split at h1 <;> omega


/-! ## 11. gmtime on whole seconds -/

theorem fracNanos_int (t : Int) : fracNanos (.flt (t : Rat)) = 0 := by
  have hfl : ffloor (.flt (t : Rat)) = .flt (t : Rat) := by
    simp [ffloor, Rat.floor_intCast]
  unfold fracNanos
  rw [hfl]
  have hsub : fsub (.flt (t : Rat)) (.flt (t : Rat)) = .flt 0 := by
    unfold fsub fneg
    by_cases h0 : ((t : Rat) == 0) = true
    · have : (t : Rat) = 0 := by simpa using h0
      rw [this]; decide +kernel
    · have h0' : ((t : Rat) == 0) = false := by simpa using h0
      simp only [h0', Bool.false_eq_true, if_false]
      show roundRat ((t : Rat) + -(t : Rat)) = .flt 0
      have : (t : Rat) + -(t : Rat) = 0 := by grind
      rw [this]; decide +kernel
  rw [hsub]
  decide +kernel


theorem truncRat_int (t : Int) : truncRat (t : Rat) = t := by
  unfold truncRat
  split
  · have : -(t : Rat) = ((-t : Int) : Rat) := by simp
    rw [this, Rat.floor_intCast]; omega
  · exact Rat.floor_intCast t


theorem split_nanos (n : Int) :
    ((n / 1000000000 : Int) : Rat) + ((n % 1000000000 : Int) : Rat) / 1000000000 = (n : Rat) / 1000000000 := by
  have h : 1000000000 * (n / 1000000000) + n % 1000000000 = n := by omega
  have hc : ((1000000000 * (n / 1000000000) + n % 1000000000 : Int) : Rat) = (n : Rat) := by rw [h]
  simp only [Rat.intCast_add, Rat.intCast_mul] at hc
  grind

end Gojq.Native

/-
  How the scope-stack operations of `opscope`, `opret` and `popfork` act on the relation `ScRel`
  (Proofs/TailSimRel.lean): pushing a frame on both sides, pushing a DROPPED frame on the original
  side only (the rewritten call), popping on both sides, popping a dropped frame on the original
  side only, restoring the positions saved by corresponding forks.
-/
import Gojq.Proofs.TailSimCong
import Gojq.Proofs.OptSimHyg
set_option linter.unusedSimpArgs false
set_option linter.unusedVariables false
namespace Gojq.TailVM
open Gojq Gojq.VM Gojq.OptVM

/-- the frame `opscope` pushes for scope `id`, called from the top of `s` with return address `cpc` -/
def newFrame (s : Stack Scope) (id off cpc : Int) : Scope :=
  ⟨id, off, cpc, s.index, outerOf s.data s.index id⟩

theorem outerOf_le (d : Array (Block Scope)) (k id : Int)
    (hdec : ∀ b, 0 ≤ k → d[k.toNat]? = some b → b.value.id = id → b.value.outerindex < k) : outerOf d k id ≤ k := by
  unfold outerOf
  split
  · rename_i h0
    cases hb : d[k.toNat]? with
    | none => simp
    | some b =>
      simp only
      split
      · rename_i hid; exact Int.le_of_lt (hdec b h0 hb hid)
      · exact Int.le_refl _
  · exact Int.le_refl _

/-- lookups from a new frame pushed on slot `k`: its own id hits, any other id is looked up from `k` -/
theorem Lk.push {d d' : Array (Block Scope)} {k p : Int} {id id' : Int} {r : Option Int} {off cpc sv : Int}
    (h : Lk d id' k r) (hne : id' ≠ id) (hkp : k < p) (h0 : 0 ≤ p)
    (hp : d'[p.toNat]? = some ⟨⟨id, off, cpc, sv, TailVM.outerOf d k id⟩, k⟩)
    (hd : ∀ j : Nat, (j : Int) ≤ k → d'[j]? = d[j]?) : Lk d' id' p r := by
  obtain ⟨h1, h2⟩ := h.outerOf id hne
  refine .miss h0 hp (fun e => hne e.symm) (by show TailVM.outerOf d k id < p; omega) ?_
  exact h1.frame (fun j hj => hd j (by omega))

theorem ScRel.pushKeep {c : Array Instr} {a b : Stack Scope} {fa fb : List Fork} {off : Int}
    (h : ScRel c a fa b fb off) (id cpc off' : Int) (hk : KeptPc c cpc)
    (hbot : b.index < 0 → cpc = (c.size : Int) - 1) :
    ScRel c (a.push (newFrame a id off cpc)) fa (b.push (newFrame b id off cpc)) fb off' := by
  obtain ⟨hsr, hfk, la, lb, fwa, fwb⟩ := h
  obtain ⟨hi1, hi2⟩ := hsr.lt_size
  obtain ⟨a1, a2, a3, a4, a5⟩ := push_spec' a (newFrame a id off cpc) la.1 la.2 hi1
  obtain ⟨b1, b2, b3, b4, b5⟩ := push_spec' b (newFrame b id off cpc) lb.1 lb.2 hi2
  refine ⟨?_, ?_, ?_, ?_, ?_, ?_⟩
  · rw [a1, a2, b1, b2]
    refine .keep (by omega) (by omega) a3 b3 rfl rfl rfl rfl (by omega) (by omega)
      ⟨fun _ => by omega, fun _ => by omega⟩ hk hbot ?_ ?_
    · intro id' hid'
      by_cases hne : id' = id
      · subst hne
        exact ⟨some off, .hit (by omega) a3 rfl, .hit (by omega) b3 rfl⟩
      · obtain ⟨r, r1, r2⟩ := hsr.leq id' hid'
        exact ⟨r, r1.push hne (by omega) (by omega) a3 (fun j hj => a4 j (by omega)),
          r2.push hne (by omega) (by omega) b3 (fun j hj => b4 j (by omega))⟩
    · exact hsr.frame (fun j hj => a4 j (by omega)) (fun j hj => b4 j (by omega))
  · exact hfk.frame (FWs.index_le fwa) (FWs.index_le fwb) (fun j hj => a4 j (by omega)) (fun j hj => b4 j (by omega))
  · rw [a2]; exact ⟨la.1, by omega⟩
  · rw [b2]; exact ⟨lb.1, by omega⟩
  · rw [a2]; exact fwa
  · rw [b2]; exact fwb

theorem ScRel.pushDrop {c : Array Instr} {a b : Stack Scope} {fa fb : List Fork} {off : Int}
    (h : ScRel c a fa b fb off) (id cpc : Int) (hd : Dead c id) (hj : JumpsToRet c (cpc + 1)) (hb0 : 0 ≤ b.index) :
    ScRel c (a.push (newFrame a id off cpc)) fa b fb off := by
  obtain ⟨hsr, hfk, la, lb, fwa, fwb⟩ := h
  obtain ⟨hi1, hi2⟩ := hsr.lt_size
  obtain ⟨a1, a2, a3, a4, a5⟩ := push_spec' a (newFrame a id off cpc) la.1 la.2 hi1
  refine ⟨?_, ?_, ?_, lb, ?_, fwb⟩
  · rw [a1, a2]
    refine .drop (by omega) hb0 a3 hj rfl (by omega) (fun _ => rfl) ?_ ?_
    · intro id' hid'
      have hne : id' ≠ id := fun e => hid' (e ▸ hd)
      obtain ⟨r, r1, r2⟩ := hsr.leq id' hid'
      exact ⟨r, r1.push hne (by omega) (by omega) a3 (fun j hj => a4 j (by omega)), r2⟩
    · exact hsr.frame (fun j hj => a4 j (by omega)) (fun j hj => rfl)
  · exact hfk.frame (FWs.index_le fwa) (FWs.index_le fwb) (fun j hj => a4 j (by omega)) (fun j hj => rfl)
  · rw [a2]; exact ⟨la.1, by omega⟩
  · rw [a2]; exact fwa

/-- the top of the original scope stack, as `SR` sees it -/
inductive TopCase (c : Array Instr) (a b : Stack Scope) (off : Int) : Prop
  | nil : a.index < 0 → b.index < 0 → TopCase c a b off
  | keep (ga gb : Scope) (na nb : Int) :
      0 ≤ a.index → 0 ≤ b.index → a.data[a.index.toNat]? = some ⟨ga, na⟩ → b.data[b.index.toNat]? = some ⟨gb, nb⟩ →
      ga.pc = gb.pc → ga.offset = gb.offset → ga.saveindex = na → gb.saveindex = nb →
      (a.limit < a.index ↔ b.limit < b.index) → KeptPc c gb.pc → (nb < 0 → gb.pc = (c.size : Int) - 1) →
      (na < 0 ↔ nb < 0) →
      (∀ fa fb, ScRel c a fa b fb off →
        ScRel c { a with index := na } fa { b with index := nb } fb (if a.limit < a.index then ga.offset else off)) →
      TopCase c a b off
  | drop (d : Scope) (na : Int) :
      0 ≤ a.index → 0 ≤ b.index → a.data[a.index.toNat]? = some ⟨d, na⟩ → JumpsToRet c (d.pc + 1) →
      d.saveindex = na → 0 ≤ na → (a.limit < a.index → d.offset = off) →
      (∀ fa fb, ScRel c a fa b fb off → ScRel c { a with index := na } fa b fb off) →
      TopCase c a b off

theorem ScRel.top {c : Array Instr} {a b : Stack Scope} {fa fb : List Fork} {off : Int}
    (h : ScRel c a fa b fb off) : TopCase c a b off := by
  have hsr := h.sr
  cases hsr with
  | nil h1 h2 => exact .nil h1 h2
  | @keep _ _ _ ga gb na nb h0 g0 ha hb e1 e2 e3 e4 hn gn hl hk hbot hq hr =>
    refine .keep ga gb na nb h0 g0 ha hb e1 e2 e3 e4 hl hk hbot ?_ ?_
    · have := hr.nonneg_iff
      constructor <;> intro <;> omega
    · intro fa' fb' h'
      obtain ⟨_, hfk, la, lb, fwa, fwb⟩ := h'
      refine ⟨?_, hfk, la, lb, fwa, fwb⟩
      show SR c a.data b.data a.limit b.limit na nb _
      by_cases hfree : a.limit < a.index
      · rw [if_pos hfree]; exact hr
      · rw [if_neg hfree]; exact hr.off_irrel (by omega) _
  | @drop _ _ _ d na h0 g0 ha hj e3 hn ho hq hr =>
    refine .drop d na h0 g0 ha hj e3 ?_ ho ?_
    · have := hr.nonneg_iff; omega
    · intro fa' fb' h'
      obtain ⟨_, hfk, la, lb, fwa, fwb⟩ := h'
      refine ⟨?_, hfk, la, lb, fwa, fwb⟩
      show SR c a.data b.data a.limit b.limit na b.index off
      by_cases hfree : a.limit < a.index
      · rw [← ho hfree]; exact hr
      · exact hr.off_irrel (by omega) _

theorem ScRel.restore {c : Array Instr} {a b : Stack Scope} {f g : Fork} {fa fb : List Fork} {off : Int}
    (h : ScRel c a (f :: fa) b (g :: fb) off) :
    ForkCoreS f g ∧ 0 ≤ g.scopeindex ∧ ForkAt c f.pc ∧
    ScRel c (a.restore f.scopeindex f.scopelimit) fa (b.restore g.scopeindex g.scopelimit) fb f.offset := by
  obtain ⟨_, ⟨hc, hs, h0, hp, hr⟩, la, lb, fwa, fwb⟩ := h
  refine ⟨hc, h0, hp, hs, hr, ?_, ?_, fwa.2.2.2, fwb.2.2.2⟩
  · show -1 ≤ f.scopelimit ∧ f.scopelimit < a.data.size
    have := fwa.2.1; have := fwa.2.2.1; omega
  · show -1 ≤ g.scopelimit ∧ g.scopelimit < b.data.size
    have := fwb.2.1; have := fwb.2.2.1; omega

theorem FkRel.nil_iff {c : Array Instr} {da db : Array (Block Scope)} {fa fb : List Fork}
    (h : FkRel c da db fa fb) : fa = [] ↔ fb = [] := by
  cases fa <;> cases fb <;> simp [FkRel] at h ⊢

end Gojq.TailVM

/-
  Helper lemmas for Props/C01Tie.lean, part 4: the simulation itself.  `Tie defs cfg n` is the
  statement for mini fuel `n` (every `Spec` fuel, every query of the fragment, every pair of
  related environments); one lemma `tie_<construct>` per construct derives the statement for
  fuel `n+1` from `Tie … n`; `tie_all` assembles them by induction on `n`.

  The `Spec` side of every construct is first brought into the form of a combinator of
  Proofs/MiniSpecRel.lean / MiniSpecLoop.lean by an unfolding lemma (`S_…`, each `rfl` or a
  rewrite with the unfolding lemmas of Proofs/SpecPathUnfold.lean): a change of one function of
  `Spec.eval` breaks the lemma of the constructs that go through it.
  Core Lean only.
-/
import Gojq.Proofs.MiniSpecLoop
import Gojq.Proofs.MiniSpecEnv
import Gojq.Proofs.MiniVMObjSpec
namespace Gojq.MiniSpec
open Gojq Gojq.MiniVM

attribute [local instance] specMsg

/-! ### `Spec.eval` on the translated forms -/

section SpecSide
variable (cfg : Spec.Cfg) (env : Spec.Env) (s : Spec.St)

theorem S_T (M : Nat) (core : TermCore) :
    Spec.eval (M+3) cfg env (T core) s = Spec.evalCore (M+1) cfg env core s := rfl

theorem S_pipe (N : Nat) (A B : Query) :
    Spec.eval (N+1) cfg env (.binop [] .pipe A B) s =
      (Spec.eval N cfg env A s).bind fun x => Spec.eval N cfg env B x := rfl

theorem S_comma (N : Nat) (A B : Query) :
    Spec.eval (N+1) cfg env (.binop [] .comma A B) s =
      (Spec.eval N cfg env A s).append fun _ => Spec.eval N cfg env B s := rfl

theorem S_alt (N : Nat) (A B : Query) :
    Spec.eval (N+1) cfg env (.binop [] .alt A B) s =
      altS (Spec.eval N cfg env A s) (fun _ => Spec.eval N cfg env B s) := rfl

theorem S_iter (M : Nat) :
    Spec.eval (M+4) cfg env (.term [] (.mk .identity [.iter])) s = (Spec.Res.one s).bind Spec.iterate := rfl

theorem S_arr (M : Nat) (A : Query) :
    Spec.evalCore (M+1) cfg env (.array (some A)) s = arrS s (Spec.eval M cfg env A s) := rfl

theorem S_try (M : Nat) (A : Query) (c : Option Query) :
    Spec.evalCore (M+1) cfg env (.try_ A c) s = Spec.tryResult M cfg env c s (Spec.eval M cfg env A s) := rfl

theorem S_if (M : Nat) (C A B : Query) :
    Spec.evalCore (M+1) cfg env (.if_ C A [] (some B)) s =
      (Spec.eval M cfg env C (Spec.withCtx none s)).bind fun x =>
        if !isFalsy x.v then Spec.eval M cfg env A s else Spec.eval M cfg env B s := rfl

theorem S_index (M : Nat) (n : Bytes) :
    Spec.evalCore (M+4) cfg env (.index (.name n)) s = (Spec.Res.one s).bind fun x => Spec.navStep x (.str n) := rfl

theorem S_func (M : Nat) (name : String) (args : List Query) :
    Spec.evalCore (M+2) cfg env (.func name args) s =
      match Spec.lookupCall name args.length env.bs with
      | .var v id => .one { v := v, id := id, ctx := s.ctx }
      | .clo body cenv => Spec.eval M cfg cenv body s
      | .fn params body fenv _ => Spec.callDef M cfg env fenv params body args s
      | .none =>
        if name.startsWith "$" then
          if name == "$ENV" then .one (Spec.computed s (.obj []))
          else if name == "$__loc__" then .unmodelled "$__loc__"
          else .unmodelled s!"variable {name} not defined (compile error)"
        else
        match cfg.builtins.find name args.length with
        | some d =>
          Spec.callDef M cfg env (Spec.Env.empty.push (.fn d.name d.params d.body true)) d.params d.body args s
        | none => Spec.nativeCall M cfg env name args s := rfl

theorem S_bind (N : Nat) (S B : Query) (p : Pattern) :
    Spec.eval (N+1) cfg env (.bind [] S [p] B) s =
      (Spec.eval N cfg env S (Spec.withCtx none s)).bind fun x =>
        Spec.evalAlts N cfg env [p] [p] x.v x.id B s := rfl

theorem append_done (r : Spec.Res) :
    ((Spec.Res.empty.append fun _ => r).append fun _ => ⟨[], .done⟩) = r := by
  rcases r with ⟨o, st⟩
  cases st <;> simp [Spec.Res.append, Spec.Res.empty]

theorem S_alts_var (M : Nat) (n : String) (xv : JV) (xid : Spec.Ident) (B : Query) :
    Spec.evalAlts (M+2) cfg env [.var n] [.var n] xv xid B s =
      Spec.eval (M+1) cfg (env.push (.var n xv xid)) B s := by
  have : Spec.evalAlts (M+2) cfg env [.var n] [.var n] xv xid B s =
      ((Spec.Res.empty.append fun _ => Spec.eval (M+1) cfg (env.push (.var n xv xid)) B s).append
        fun _ => ⟨[], .done⟩) := rfl
  rw [this, append_done]

theorem S_reduce (M : Nat) (SRC INIT UPD : Query) (n : String) :
    Spec.evalCore (M+2) cfg env (.reduce SRC (.var n) INIT UPD) s =
      (Spec.eval (M+1) cfg env INIT s).bind fun st0 =>
        redFinS (Spec.eval (M+1) cfg env SRC { s with ctx := st0.ctx }).stop st0.ctx
          ((Spec.eval (M+1) cfg env SRC { s with ctx := st0.ctx }).outs.foldl
            (Spec.reduceStep (fun x => Spec.PatRes.ok [env.push (.var n x.v x.id)])
              (fun x env' sv sid => Spec.eval (M+1) cfg env' UPD { v := sv, id := sid, ctx := x.ctx }))
            (.ok (st0.v, st0.id))) := rfl

theorem S_foreach (M : Nat) (SRC INIT UPD EXT : Query) (n : String) :
    Spec.evalCore (M+2) cfg env (.foreach SRC (.var n) INIT UPD (some EXT)) s =
      (Spec.eval (M+1) cfg env INIT s).bind fun st0 =>
        Spec.foreachLoop (fun x => Spec.PatRes.ok [env.push (.var n x.v x.id)])
          (fun x env' sv sid => Spec.eval (M+1) cfg env' UPD { v := sv, id := sid, ctx := x.ctx })
          (fun env' u => Spec.eval (M+1) cfg env' EXT u)
          (Spec.eval (M+1) cfg env SRC { s with ctx := st0.ctx }).stop
          (Spec.eval (M+1) cfg env SRC { s with ctx := st0.ctx }).outs st0.v st0.id [] := rfl

theorem S_T' (M : Nat) (core : TermCore) :
    Spec.eval (M+2) cfg env (T core) s = Spec.evalCore M cfg env core s := rfl

theorem S_query (M : Nat) (A : Query) : Spec.evalCore (M+1) cfg env (.query A) s = Spec.eval M cfg env A s := rfl

theorem S_if1 (M : Nat) (C A : Query) :
    Spec.evalCore (M+1) cfg env (.if_ C A [] none) s =
      (Spec.eval M cfg env C (Spec.withCtx none s)).bind fun x =>
        if !isFalsy x.v then Spec.eval M cfg env A s else Spec.Res.one s := rfl

theorem S_elif (M : Nat) (C A C' A' : Query) (rest : List (Query × Query)) (E : Option Query) :
    Spec.evalCore (M+1) cfg env (.if_ C A ((C', A') :: rest) E) s =
      (Spec.eval M cfg env C (Spec.withCtx none s)).bind fun x =>
        if !isFalsy x.v then Spec.eval M cfg env A s else Spec.evalCore M cfg env (.if_ C' A' rest E) s := rfl

theorem S_and (N : Nat) (L R : Query) :
    Spec.eval (N+1) cfg env (.binop [] .and L R) s =
      (Spec.eval N cfg env L (Spec.withCtx none s)).bind fun x =>
        if isFalsy x.v then .one (Spec.computed s (.bool false))
        else (Spec.eval N cfg env R (Spec.withCtx none s)).bind fun y =>
          .one (Spec.computed s (.bool (!isFalsy y.v))) := rfl

theorem S_or (N : Nat) (L R : Query) :
    Spec.eval (N+1) cfg env (.binop [] .or L R) s =
      (Spec.eval N cfg env L (Spec.withCtx none s)).bind fun x =>
        if !isFalsy x.v then .one (Spec.computed s (.bool true))
        else (Spec.eval N cfg env R (Spec.withCtx none s)).bind fun y =>
          .one (Spec.computed s (.bool (!isFalsy y.v))) := rfl

theorem S_foreach2 (M : Nat) (SRC INIT UPD : Query) (n : String) :
    Spec.evalCore (M+2) cfg env (.foreach SRC (.var n) INIT UPD none) s =
      (Spec.eval (M+1) cfg env INIT s).bind fun st0 =>
        Spec.foreachLoop (fun x => Spec.PatRes.ok [env.push (.var n x.v x.id)])
          (fun x env' sv sid => Spec.eval (M+1) cfg env' UPD { v := sv, id := sid, ctx := x.ctx })
          (fun _ u => Spec.Res.one u)
          (Spec.eval (M+1) cfg env SRC { s with ctx := st0.ctx }).stop
          (Spec.eval (M+1) cfg env SRC { s with ctx := st0.ctx }).outs st0.v st0.id [] := rfl

theorem S_sfxIter (M : Nat) (core : TermCore) (sfx : List Suffix) :
    Spec.eval (M+2) cfg env (.term [] (.mk core (sfx ++ [.iter]))) s =
      (Spec.eval (M+1) cfg env (.term [] (.mk core sfx)) s).bind Spec.iterate := by
  show Spec.evalTerm (M+1) cfg env (.mk core (sfx ++ [.iter])) s =
    (Spec.evalTerm M cfg env (.mk core sfx) s).bind Spec.iterate
  rw [Spec.evalTerm_succ]
  simp only [List.reverse_append, List.reverse_cons, List.reverse_nil, List.nil_append, List.cons_append,
    Spec.evalTermRev, List.reverse_reverse]

theorem S_sfxIndex (M : Nat) (core : TermCore) (sfx : List Suffix) (nm : Bytes) :
    Spec.eval (M+2) cfg env (.term [] (.mk core (sfx ++ [.index (.name nm)]))) s =
      Spec.evalIndex M cfg env (.mk core sfx) (.name nm) s := by
  show Spec.evalTerm (M+1) cfg env (.mk core (sfx ++ [.index (.name nm)])) s = _
  rw [Spec.evalTerm_succ]
  simp only [List.reverse_append, List.reverse_cons, List.reverse_nil, List.nil_append, List.cons_append,
    Spec.evalTermRev, List.reverse_reverse]

theorem S_evalIndex_name (M : Nat) (core : TermCore) (sfx : List Suffix) (nm : Bytes) :
    Spec.evalIndex (M+1) cfg env (.mk core sfx) (.name nm) s =
      (Spec.eval (M+1) cfg env (.term [] (.mk core sfx)) s).bind fun x => Spec.navStep x (.str nm) := rfl

theorem catchAll_eq (fuel : Nat) (r : Spec.Res) : Spec.catchAll r = Spec.tryResult fuel cfg env none s r := by
  unfold Spec.catchAll Spec.tryResult
  cases hs : r.stop with
  | err e => cases e <;> rfl
  | _ => rfl

theorem S_sfxOpt (M : Nat) (core : TermCore) (sfx : List Suffix) (h : noNav sfx) :
    Spec.eval (M+2) cfg env (.term [] (.mk core (sfx ++ [.optional]))) s =
      Spec.tryResult M cfg env none s (Spec.eval (M+1) cfg env (.term [] (.mk core sfx)) s) := by
  show Spec.evalTerm (M+1) cfg env (.mk core (sfx ++ [.optional])) s =
    Spec.tryResult M cfg env none s (Spec.evalTerm M cfg env (.mk core sfx) s)
  rw [Spec.evalTerm_succ, ← catchAll_eq]
  simp only [List.reverse_append, List.reverse_cons, List.reverse_nil, List.nil_append, List.cons_append]
  unfold noNav at h
  have hrr : sfx.reverse.reverse = sfx := List.reverse_reverse sfx
  cases hr : sfx.reverse with
  | nil =>
    rw [hr] at hrr
    simp only [Spec.evalTermRev, hrr]
  | cons x xs =>
    rw [hr] at h hrr
    cases x with
    | index i => exact absurd h (by simp)
    | iter => exact absurd h (by simp)
    | optional => simp only [Spec.evalTermRev, hrr]

theorem S_sfxIterOpt (M : Nat) (core : TermCore) (sfx : List Suffix) :
    Spec.eval (M+2) cfg env (.term [] (.mk core (sfx ++ [.iter, .optional]))) s =
      (Spec.eval (M+1) cfg env (.term [] (.mk core sfx)) s).bind fun x =>
        Spec.tryResult M cfg env none x (Spec.iterate x) := by
  show Spec.evalTerm (M+1) cfg env (.mk core (sfx ++ [.iter, .optional])) s =
    (Spec.evalTerm M cfg env (.mk core sfx) s).bind fun x => Spec.tryResult M cfg env none x (Spec.iterate x)
  rw [Spec.evalTerm_succ]
  simp only [List.reverse_append, List.reverse_cons, List.reverse_nil, List.nil_append, List.cons_append,
    Spec.evalTermRev, List.reverse_reverse]
  have : (fun x => Spec.catchAll (Spec.iterate x)) = fun x => Spec.tryResult M cfg env none x (Spec.iterate x) := by
    funext x
    exact catchAll_eq cfg env x M _
  rw [this]

theorem S_sfxIndexOpt (M : Nat) (core : TermCore) (sfx : List Suffix) (nm : Bytes) :
    Spec.eval (M+2) cfg env (.term [] (.mk core (sfx ++ [.index (.name nm), .optional]))) s =
      (Spec.eval (M+1) cfg env (.term [] (.mk core sfx)) s).bind fun x =>
        Spec.tryResult M cfg env none x (Spec.evalIndex M cfg env (.mk .identity []) (.name nm) x) := by
  show Spec.evalTerm (M+1) cfg env (.mk core (sfx ++ [.index (.name nm), .optional])) s =
    (Spec.evalTerm M cfg env (.mk core sfx) s).bind fun x =>
      Spec.tryResult M cfg env none x (Spec.evalIndex M cfg env (.mk .identity []) (.name nm) x)
  rw [Spec.evalTerm_succ]
  simp only [List.reverse_append, List.reverse_cons, List.reverse_nil, List.nil_append, List.cons_append,
    Spec.evalTermRev, List.reverse_reverse]
  have : (fun x => Spec.catchAll (Spec.evalIndex M cfg env (.mk .identity []) (.name nm) x)) =
      fun x => Spec.tryResult M cfg env none x (Spec.evalIndex M cfg env (.mk .identity []) (.name nm) x) := by
    funext x
    exact catchAll_eq cfg env x M _
  rw [this]

theorem S_evalIndex_id (M : Nat) (nm : Bytes) :
    Spec.evalIndex (M+3) cfg env (.mk .identity []) (.name nm) s =
      (Spec.Res.one s).bind fun x => Spec.navStep x (.str nm) := rfl

end SpecSide

theorem withCtx_clean {s : Spec.St} (hs : Clean s) : Spec.withCtx none s = s := by
  rcases s with ⟨v, id, ctx, pend⟩
  obtain ⟨rfl, _⟩ := hs
  rfl

theorem setCtx_clean {s x : Spec.St} (hs : Clean s) (hx : Clean x) : ({ s with ctx := x.ctx } : Spec.St) = s := by
  rcases s with ⟨v, id, ctx, pend⟩
  obtain ⟨rfl, _⟩ := hs
  rw [hx.1]

theorem one_bind_clean {s : Spec.St} (hs : Clean s) (f : Spec.St → Spec.Res) : (Spec.Res.one s).bind f = f s := by
  rw [Spec.one_bind_wrap, hs.2]; rfl

/-! ### the statement, per mini fuel -/

/-- well-scoped, and the parameter is bound if used -/
structure QOK (k : Nat) (ρ : MiniVM.Env) (q : Q) : Prop where
  closed : q.Closed k (ρ.vars.map (·.1))
  par : q.HasParam → ρ.clo ≠ .none

def Tie (defs : Name → Q) (body : Nat → Query) (cfg : Spec.Cfg) (n : Nat) : Prop :=
  ∀ (N : Nat) (b : Bool) (q : Q) (A : Query) (g : Ctx) (ρ : MiniVM.Env) (k : Nat) (bs : List Spec.Binding)
    (s : Spec.St), Tr q A →
    (b = true → 6 * n ≤ N) → EnvRel defs body k ρ bs → Clean s → QOK k ρ q →
    ND (eval defs n g ρ q s.v).stop →
    Rel b (Spec.eval N cfg (.mk bs) A s) (eval defs n g ρ q s.v)

theorem Rel.done' {b : Bool} {outs : List Spec.St} {ym : List V} (hc : ∀ x ∈ outs, Clean x) (h : vals outs = ym) :
    Rel b ⟨outs, .done⟩ ⟨ym, .done⟩ := h ▸ .done outs hc

/-- the guarded sequencing of the mini evaluator (`pipe`, `if`, `as`, `reduce`, `foreach`) -/
theorem Rel.gbind {b : Bool} {rs : Spec.Res} {rm : MiniVM.Res} {fs : Spec.St → Spec.Res} {fm : V → MiniVM.Res}
    (hnd : ND (guardND rm (Res.bindL fm rm.outs rm.stop)).stop) (h : ND rm.stop → Rel b rs rm)
    (hf : ∀ x, Clean x → ND (fm x.v).stop → Rel b (fs x) (fm x.v)) :
    Rel b (rs.bind fs) (guardND rm (Res.bindL fm rm.outs rm.stop)) := by
  obtain ⟨hnda, hg⟩ := guardND_nd hnd
  rw [hg] at hnd ⊢
  exact Rel.bind (h hnda) hnd hf

/-- running out of `Spec` fuel is excluded when `b` -/
theorem fuel_small {b : Bool} {n N c : Nat} (hN : b = true → 6 * (n+1) ≤ N) (hc : N < c) (h6 : c ≤ 6) :
    b = true → False := fun h => by have := hN h; omega

/-- closes a goal `Rel b (Spec.eval <small numeral> …) _`: `Spec.eval` is out of fuel, excluded by `hN` -/
macro "small_fuel" hN:ident : tactic =>
  `(tactic| exact Rel.fuel (fuel_small $hN (by omega) (Nat.le_refl 6)) _)

section Constructs
variable {defs : Name → Q} {body : Nat → Query} {cfg : Spec.Cfg} {n : Nat}
variable {N : Nat} {b : Bool} {g : Ctx} {ρ : MiniVM.Env} {k : Nat} {bs : List Spec.Binding} {s : Spec.St}

theorem eval_id (m : Nat) (g : Ctx) (ρ : MiniVM.Env) (v : V) : eval defs (m+1) g ρ .id v = ⟨[v], .done⟩ := rfl
theorem eval_const (m : Nat) (g : Ctx) (ρ : MiniVM.Env) (c v : V) : eval defs (m+1) g ρ (.const c) v = ⟨[c], .done⟩ := rfl
theorem eval_zero (g : Ctx) (ρ : MiniVM.Env) (q : Q) (v : V) : eval defs 0 g ρ q v = ⟨[], .diverge⟩ := rfl

theorem nd_pos {m : Nat} {g : Ctx} {ρ : MiniVM.Env} {q : Q} {v : V} (h : ND (eval defs m g ρ q v).stop) :
    ∃ m', m = m' + 1 := by
  cases m with
  | zero => exact absurd h (by simp [eval_zero, ND])
  | succ m => exact ⟨m, rfl⟩

theorem tie_id (hs : Clean s) (hN : b = true → 6 * (n+1) ≤ N) :
    Rel b (Spec.eval N cfg (.mk bs) (T .identity) s) (eval defs (n+1) g ρ .id s.v) := by
  rcases N with _ | _ | _ | M
  · small_fuel hN
  · small_fuel hN
  · small_fuel hN
  · exact Rel.one s hs

theorem tie_const (c : V) (hs : Clean s) (hl : litOK c = true) (hN : b = true → 6 * (n+1) ≤ N) :
    Rel b (Spec.eval N cfg (.mk bs) (T (constCore c)) s) (eval defs (n+1) g ρ (.const c) s.v) := by
  have hcomp : ∀ w : JV, Rel b (Spec.Res.one (Spec.computed s w)) ⟨[w], .done⟩ :=
    fun w => Rel.one (Spec.computed s w) ⟨hs.1, rfl⟩
  rcases N with _ | _ | _ | M
  · small_fuel hN
  · small_fuel hN
  · small_fuel hN
  · show Rel b (Spec.eval (M+3) cfg (.mk bs) (T (constCore c)) s) ⟨[c], .done⟩
    rw [S_T]
    cases c with
    | null => exact hcomp .null
    | bool x => cases x <;> exact hcomp _
    | str x =>
      cases M with
      | zero => small_fuel hN
      | succ M => exact hcomp _
    | num x =>
      cases x with
      | int i =>
        simp only [litOK] at hl
        show Rel b (match parseNumberLit (toString i) with
          | some n => Spec.Res.one (Spec.computed s (.num n))
          | none => Spec.Res.unmodelled _) _
        split at hl
        · rename_i j hj
          have : i = j := by simpa using hl
          subst this
          rw [hj]
          exact hcomp _
        · exact absurd hl (by simp)
      | _ => simp [litOK] at hl
    | arr xs =>
      cases xs with
      | nil => exact hcomp _
      | cons x xs => simp [litOK] at hl
    | obj kvs => simp [litOK] at hl

theorem tie_pipe (ih : Tie defs body cfg n) {a c : Q} {A C : Query} (ha : Tr a A) (hc : Tr c C)
    (he : EnvRel defs body k ρ bs) (hs : Clean s) (hq : QOK k ρ (.pipe a c))
    (hN : b = true → 6 * (n+1) ≤ N) (hnd : ND (eval defs (n+1) g ρ (.pipe a c) s.v).stop) :
    Rel b (Spec.eval N cfg (.mk bs) (.binop [] .pipe A C) s) (eval defs (n+1) g ρ (.pipe a c) s.v) := by
  have hqa : QOK k ρ a := ⟨hq.closed.1, fun h => hq.par (Or.inl h)⟩
  have hqc : QOK k ρ c := ⟨hq.closed.2, fun h => hq.par (Or.inr h)⟩
  have hm : eval defs (n+1) g ρ (.pipe a c) s.v =
      guardND (eval defs n g ρ a s.v) (Res.bindL (eval defs n g ρ c) (eval defs n g ρ a s.v).outs
        (eval defs n g ρ a s.v).stop) := rfl
  rw [hm] at hnd ⊢
  cases N with
  | zero => small_fuel hN
  | succ N =>
    have hN' : b = true → 6 * n ≤ N := fun h => by have := hN h; omega
    rw [S_pipe]
    exact Rel.gbind hnd (ih N b a A g ρ k bs s ha hN' he hs hqa)
      (fun x hx hndx => ih N b c C g ρ k bs x hc hN' he hx hqc hndx)

theorem tie_comma (ih : Tie defs body cfg n) {a c : Q} {A C : Query} (ha : Tr a A) (hc : Tr c C)
    (he : EnvRel defs body k ρ bs) (hs : Clean s) (hq : QOK k ρ (.comma a c))
    (hN : b = true → 6 * (n+1) ≤ N) (hnd : ND (eval defs (n+1) g ρ (.comma a c) s.v).stop) :
    Rel b (Spec.eval N cfg (.mk bs) (.binop [] .comma A C) s) (eval defs (n+1) g ρ (.comma a c) s.v) := by
  have hqa : QOK k ρ a := ⟨hq.closed.1, fun h => hq.par (Or.inl h)⟩
  have hqc : QOK k ρ c := ⟨hq.closed.2, fun h => hq.par (Or.inr h)⟩
  have hm : eval defs (n+1) g ρ (.comma a c) s.v = (eval defs n g ρ a s.v).seq (eval defs n g ρ c s.v) := by
    show (match eval defs n g ρ a s.v with
      | ⟨o, .done⟩ => let rb := eval defs n g ρ c s.v; (⟨o ++ rb.outs, rb.stop⟩ : MiniVM.Res)
      | r => r) = _
    rcases eval defs n g ρ a s.v with ⟨o, st⟩
    cases st <;> rfl
  rw [hm] at hnd ⊢
  obtain ⟨hnda, hndc⟩ := seq_nd hnd
  cases N with
  | zero => small_fuel hN
  | succ N =>
    have hN' : b = true → 6 * n ≤ N := fun h => by have := hN h; omega
    rw [S_comma]
    exact Rel.seq (ih N b a A g ρ k bs s ha hN' he hs hqa hnda)
      (fun hd => ih N b c C g ρ k bs s hc hN' he hs hqc (hndc hd))

theorem vals_iter_arr (id : Spec.Ident) (xs : List JV) :
    vals (((List.range xs.length).zip xs |>.map fun (i, x) => (jvInt (i : Nat), x)).map
      fun (k, w) => ({ v := w, id := Spec.childIdent id k, ctx := none } : Spec.St)) = xs := by
  simp only [vals, List.map_map]
  have : ((fun (x : Spec.St) => x.v) ∘ (fun (p : JV × JV) => ({ v := p.2, id := Spec.childIdent id p.1, ctx := none } : Spec.St)) ∘
      fun (p : Nat × JV) => (jvInt (p.1 : Nat), p.2)) = Prod.snd := by
    funext p; rfl
  rw [this]
  exact List.map_snd_zip (by simp)

theorem rel_iterate {b : Bool} (s : Spec.St) (hs : Clean s) :
    Rel b (Spec.iterate s) (match MiniVM.iterItems s.v with
      | some xs => ⟨xs, .done⟩
      | none => ⟨[], .err (.notIter s.v)⟩) := by
  rcases s with ⟨v, id, ctx, pend⟩
  obtain ⟨h1, h2⟩ := hs
  simp only at h1 h2
  subst h1 h2
  have hfail : ∀ w : JV, Rel b (Spec.Res.fail (.builtin "iterator" [w])) ⟨[], .err (.notIter w)⟩ :=
    fun w => .err [] (.notIter w) (by simp)
  cases v with
  | arr xs =>
    simp only [Spec.iterate, Spec.iterItems, MiniVM.iterItems]
    refine Rel.done' ?_ (vals_iter_arr id xs)
    intro x hx
    simp only [List.mem_map] at hx
    obtain ⟨p, _, rfl⟩ := hx
    exact ⟨rfl, rfl⟩
  | obj kvs =>
    simp only [Spec.iterate, Spec.iterItems, MiniVM.iterItems]
    refine Rel.done' ?_ ?_
    · intro x hx
      simp only [List.mem_map] at hx
      obtain ⟨p, _, rfl⟩ := hx
      exact ⟨rfl, rfl⟩
    · simp [vals, List.map_map, Function.comp_def]
  | null => exact hfail _
  | bool x => exact hfail _
  | num x => exact hfail _
  | str x => exact hfail _

/-- `.[]` at any positive mini fuel -/
theorem rel_iter_eval {b : Bool} (m : Nat) (g : Ctx) (ρ : MiniVM.Env) (x : Spec.St) (hx : Clean x) :
    Rel b (Spec.iterate x) (eval defs (m+1) g ρ .iter x.v) := rel_iterate x hx

theorem tie_iter (hs : Clean s) (hN : b = true → 6 * (n+1) ≤ N) :
    Rel b (Spec.eval N cfg (.mk bs) (.term [] (.mk .identity [.iter])) s) (eval defs (n+1) g ρ .iter s.v) := by
  rcases N with _ | _ | _ | _ | M
  · small_fuel hN
  · small_fuel hN
  · small_fuel hN
  · small_fuel hN
  · rw [S_iter, one_bind_clean hs]
    exact rel_iterate s hs

theorem tie_empty (hc : NoShadow cfg) (he : EnvRel defs body k ρ bs) (hN : b = true → 6 * (n+1) ≤ N) :
    Rel b (Spec.eval N cfg (.mk bs) (T (.func "empty" [])) s) (eval defs (n+1) g ρ .empty s.v) := by
  rcases N with _ | _ | _ | _ | M
  · small_fuel hN
  · small_fuel hN
  · small_fuel hN
  · small_fuel hN
  · show Rel b (Spec.eval (M+1+3) cfg (.mk bs) (T (.func "empty" [])) s) ⟨[], .done⟩
    rw [S_T, S_func]
    have h1 : Spec.lookupCall "empty" 0 bs = .none := lookup_none "empty" vname_ne_empty pname_ne_empty bs he.ok
    have h2 : "empty".startsWith "$" = false := by decide +kernel
    simp only [List.length_nil, Spec.Env.bs, h1, h2, hc.1]
    exact Rel.empty

set_option maxHeartbeats 4000000 in
theorem nativeCall_error (M : Nat) (cfg : Spec.Cfg) (env : Spec.Env) (s : Spec.St) :
    Spec.nativeCall M cfg env "error" [] s = Spec.Res.fail (.user s.v) := by rfl

theorem tie_error (hc : NoShadow cfg) (he : EnvRel defs body k ρ bs) (hN : b = true → 6 * (n+1) ≤ N) :
    Rel b (Spec.eval N cfg (.mk bs) (T (.func "error" [])) s) (eval defs (n+1) g ρ .error s.v) := by
  rcases N with _ | _ | _ | _ | M
  · small_fuel hN
  · small_fuel hN
  · small_fuel hN
  · small_fuel hN
  · show Rel b (Spec.eval (M+1+3) cfg (.mk bs) (T (.func "error" [])) s) ⟨[], .err (.user s.v)⟩
    rw [S_T, S_func]
    have h1 : Spec.lookupCall "error" 0 bs = .none := lookup_none "error" vname_ne_error pname_ne_error bs he.ok
    have h2 : "error".startsWith "$" = false := by decide +kernel
    simp only [List.length_nil, Spec.Env.bs, h1, h2, hc.2, nativeCall_error]
    exact .err [] (.user s.v) (by simp)

theorem tie_arr (ih : Tie defs body cfg n) {a : Q} {A : Query} (ha : Tr a A) (he : EnvRel defs body k ρ bs) (hs : Clean s)
    (hq : QOK k ρ (.arr a))
    (hN : b = true → 6 * (n+1) ≤ N) (hnd : ND (eval defs (n+1) g ρ (.arr a) s.v).stop) :
    Rel b (Spec.eval N cfg (.mk bs) (T (.array (some A))) s) (eval defs (n+1) g ρ (.arr a) s.v) := by
  have hqa : QOK k ρ a := ⟨hq.closed, fun h => hq.par h⟩
  have hm : eval defs (n+1) g ρ (.arr a) s.v = arrM (eval defs n g ρ a s.v) := rfl
  rw [hm] at hnd ⊢
  have hnda := arrM_nd hnd
  rcases N with _ | _ | _ | M
  · small_fuel hN
  · small_fuel hN
  · small_fuel hN
  · have hN' : b = true → 6 * n ≤ M := fun h => by have := hN h; omega
    rw [S_T, S_arr]
    exact Rel.arr hs.1 (ih M b a A g ρ k bs s ha hN' he hs hqa hnda)

theorem tie_try (ih : Tie defs body cfg n) {a : Q} {A : Query} (ha : Tr a A) (he : EnvRel defs body k ρ bs) (hs : Clean s)
    (hq : QOK k ρ (.try_ a))
    (hN : b = true → 6 * (n+1) ≤ N) (hnd : ND (eval defs (n+1) g ρ (.try_ a) s.v).stop) :
    Rel b (Spec.eval N cfg (.mk bs) (T (.try_ A none)) s) (eval defs (n+1) g ρ (.try_ a) s.v) := by
  have hqa : QOK k ρ a := ⟨hq.closed, fun h => hq.par h⟩
  have hm : eval defs (n+1) g ρ (.try_ a) s.v = tryM (eval defs n g ρ a s.v) := rfl
  rw [hm] at hnd ⊢
  have hnda := tryM_nd hnd
  rcases N with _ | _ | _ | M
  · small_fuel hN
  · small_fuel hN
  · small_fuel hN
  · have hN' : b = true → 6 * n ≤ M := fun h => by have := hN h; omega
    rw [S_T, S_try]
    exact Rel.try_ M cfg (.mk bs) s (ih M b a A g ρ k bs s ha hN' he hs hqa hnda)

theorem tie_tryCatch (ih : Tie defs body cfg n) {a h : Q} {A H : Query} (ha : Tr a A) (hh : Tr h H)
    (he : EnvRel defs body k ρ bs) (hs : Clean s) (hq : QOK k ρ (.tryCatch a h))
    (hN : b = true → 6 * (n+1) ≤ N) (hnd : ND (eval defs (n+1) g ρ (.tryCatch a h) s.v).stop) :
    Rel b (Spec.eval N cfg (.mk bs) (T (.try_ A (some H))) s) (eval defs (n+1) g ρ (.tryCatch a h) s.v) := by
  have hqa : QOK k ρ a := ⟨hq.closed.1, fun h => hq.par (Or.inl h)⟩
  have hqh : QOK k ρ h := ⟨hq.closed.2, fun h => hq.par (Or.inr h)⟩
  have hm : eval defs (n+1) g ρ (.tryCatch a h) s.v = tryCatchM (eval defs n g ρ h) (eval defs n g ρ a s.v) := rfl
  rw [hm] at hnd ⊢
  have hnda := tryCatchM_nd hnd
  rcases N with _ | _ | _ | M
  · small_fuel hN
  · small_fuel hN
  · small_fuel hN
  · have hN' : b = true → 6 * n ≤ M := fun h => by have := hN h; omega
    rw [S_T, S_try]
    exact Rel.tryCatch M cfg (.mk bs) H s hs.1 _ (ih M b a A g ρ k bs s ha hN' he hs hqa hnda) hnd
      (fun x hx hndx => ih M b h H g ρ k bs x hh hN' he hx hqh hndx)

theorem funcIndex2_str_err {v : JV} {n : Bytes} {e : Gojq.Err} (h : funcIndex2 v (.str n) = .error e) :
    ∃ kind args, e = .builtin kind args := by
  unfold funcIndex2 at h
  cases v <;> simp [errExpectedObject, pure, Except.pure, throw, throwThe, MonadExceptOf.throw] at h <;>
    exact ⟨_, _, h.symm⟩

/-- `.name` on one state, at any positive mini fuel -/
theorem rel_navStep {b : Bool} (m : Nat) (g : Ctx) (ρ : MiniVM.Env) (nm : Bytes) (x : Spec.St) (hx : Clean x) :
    Rel b (Spec.navStep x (.str nm)) (eval defs (m+1) g ρ (.index (.str nm)) x.v) := by
  show Rel b _ (match IterMsg.index x.v (.str nm) with
    | some w => ⟨[w], .done⟩
    | none => ⟨[], .err (.idx x.v (.str nm))⟩)
  simp only [Spec.navStep, IterMsg.index]
  cases hfi : funcIndex2 x.v (.str nm) with
  | ok w =>
    simp only [Spec.navigated, hx.1]
    exact Rel.one _ ⟨rfl, rfl⟩
  | error e =>
    obtain ⟨kind, args, rfl⟩ := funcIndex2_str_err hfi
    have : trErr (.idx x.v (.str nm)) = .builtin kind args := by simp [trErr, hfi]
    simp only []
    rw [← this]
    exact .err [] _ (by simp)

theorem tie_index (nm : Bytes) (hs : Clean s) (hN : b = true → 6 * (n+1) ≤ N) :
    Rel b (Spec.eval N cfg (.mk bs) (T (.index (.name nm))) s) (eval defs (n+1) g ρ (.index (.str nm)) s.v) := by
  rcases N with _ | _ | _ | _ | _ | _ | M
  · small_fuel hN
  · small_fuel hN
  · small_fuel hN
  · small_fuel hN
  · small_fuel hN
  · small_fuel hN
  · show Rel b (Spec.eval (M+3+3) cfg (.mk bs) (T (.index (.name nm))) s) _
    rw [S_T, S_index, one_bind_clean hs]
    exact rel_navStep n g ρ nm s hs

/-- the branches of an `if`, given how the two sides treat each branch -/
theorem tie_cond {rsC : Spec.Res} {thenS elseS : Spec.Res} {c a e : Q}
    (hnd : ND (eval defs (n+1) g ρ (.ite c a e) s.v).stop)
    (hC : ND (eval defs n g ρ c s.v).stop → Rel b rsC (eval defs n g ρ c s.v))
    (hA : ND (eval defs n g ρ a s.v).stop → Rel b thenS (eval defs n g ρ a s.v))
    (hE : ND (eval defs n g ρ e s.v).stop → Rel b elseS (eval defs n g ρ e s.v)) :
    Rel b (rsC.bind fun x => if !isFalsy x.v then thenS else elseS) (eval defs (n+1) g ρ (.ite c a e) s.v) := by
  have hm : eval defs (n+1) g ρ (.ite c a e) s.v =
      guardND (eval defs n g ρ c s.v) (Res.bindL (fun w => if falsy w then eval defs n g ρ e s.v else eval defs n g ρ a s.v)
        (eval defs n g ρ c s.v).outs (eval defs n g ρ c s.v).stop) := rfl
  rw [hm] at hnd ⊢
  refine Rel.gbind hnd hC (fun x _ hndx => ?_)
  simp only [isFalsy_eq] at hndx ⊢
  cases hf : falsy x.v
  · simp only [hf] at hndx
    simpa using hA (by simpa using hndx)
  · simp only [hf] at hndx
    simpa using hE (by simpa using hndx)

theorem tie_ite (ih : Tie defs body cfg n) {c a e : Q} {C A E : Query} (hc : Tr c C) (ha : Tr a A) (hE : Tr e E)
    (he : EnvRel defs body k ρ bs) (hs : Clean s) (hq : QOK k ρ (.ite c a e))
    (hN : b = true → 6 * (n+1) ≤ N) (hnd : ND (eval defs (n+1) g ρ (.ite c a e) s.v).stop) :
    Rel b (Spec.eval N cfg (.mk bs) (T (.if_ C A [] (some E))) s) (eval defs (n+1) g ρ (.ite c a e) s.v) := by
  have hqc : QOK k ρ c := ⟨hq.closed.1, fun h => hq.par (Or.inl h)⟩
  have hqa : QOK k ρ a := ⟨hq.closed.2.1, fun h => hq.par (Or.inr (Or.inl h))⟩
  have hqe : QOK k ρ e := ⟨hq.closed.2.2, fun h => hq.par (Or.inr (Or.inr h))⟩
  rcases N with _ | _ | _ | M
  · small_fuel hN
  · small_fuel hN
  · small_fuel hN
  · have hN' : b = true → 6 * n ≤ M := fun h => by have := hN h; omega
    rw [S_T, S_if, withCtx_clean hs]
    exact tie_cond hnd (ih M b c C g ρ k bs s hc hN' he hs hqc) (ih M b a A g ρ k bs s ha hN' he hs hqa)
      (ih M b e E g ρ k bs s hE hN' he hs hqe)

theorem tie_if1 (ih : Tie defs body cfg n) {c a : Q} {C A : Query} (hc : Tr c C) (ha : Tr a A)
    (he : EnvRel defs body k ρ bs) (hs : Clean s) (hq : QOK k ρ (.ite c a .id))
    (hN : b = true → 6 * (n+1) ≤ N) (hnd : ND (eval defs (n+1) g ρ (.ite c a .id) s.v).stop) :
    Rel b (Spec.eval N cfg (.mk bs) (T (.if_ C A [] none)) s) (eval defs (n+1) g ρ (.ite c a .id) s.v) := by
  have hqc : QOK k ρ c := ⟨hq.closed.1, fun h => hq.par (Or.inl h)⟩
  have hqa : QOK k ρ a := ⟨hq.closed.2.1, fun h => hq.par (Or.inr (Or.inl h))⟩
  rcases N with _ | _ | _ | M
  · small_fuel hN
  · small_fuel hN
  · small_fuel hN
  · have hN' : b = true → 6 * n ≤ M := fun h => by have := hN h; omega
    rw [S_T, S_if1, withCtx_clean hs]
    refine tie_cond hnd (ih M b c C g ρ k bs s hc hN' he hs hqc) (ih M b a A g ρ k bs s ha hN' he hs hqa) (fun h => ?_)
    obtain ⟨m, rfl⟩ := nd_pos h
    exact Rel.one s hs

theorem tie_elif (ih : Tie defs body cfg n) {c a e : Q} {C A C' A' : Query} {rest : List (Query × Query)} {E : Option Query}
    (hc : Tr c C) (ha : Tr a A) (hE : Tr e (T (.if_ C' A' rest E)))
    (he : EnvRel defs body k ρ bs) (hs : Clean s) (hq : QOK k ρ (.ite c a e))
    (hN : b = true → 6 * (n+1) ≤ N) (hnd : ND (eval defs (n+1) g ρ (.ite c a e) s.v).stop) :
    Rel b (Spec.eval N cfg (.mk bs) (T (.if_ C A ((C', A') :: rest) E)) s) (eval defs (n+1) g ρ (.ite c a e) s.v) := by
  have hqc : QOK k ρ c := ⟨hq.closed.1, fun h => hq.par (Or.inl h)⟩
  have hqa : QOK k ρ a := ⟨hq.closed.2.1, fun h => hq.par (Or.inr (Or.inl h))⟩
  have hqe : QOK k ρ e := ⟨hq.closed.2.2, fun h => hq.par (Or.inr (Or.inr h))⟩
  rcases N with _ | _ | _ | M
  · small_fuel hN
  · small_fuel hN
  · small_fuel hN
  · have hN' : b = true → 6 * n ≤ M := fun h => by have := hN h; omega
    have hN'' : b = true → 6 * n ≤ M + 2 := fun h => by have := hN h; omega
    rw [S_T, S_elif, withCtx_clean hs, ← S_T']
    exact tie_cond hnd (ih M b c C g ρ k bs s hc hN' he hs hqc) (ih M b a A g ρ k bs s ha hN' he hs hqa)
      (ih (M+2) b e _ g ρ k bs s hE hN'' he hs hqe)

/-- `if r then true else false end` against `(eval r).bind fun y => one (!isFalsy y)` -/
theorem tie_tobool (ihle : ∀ m, m ≤ n → Tie defs body cfg m) {r : Q} {R : Query} (hr : Tr r R)
    (he : EnvRel defs body k ρ bs) (hs : Clean s) (hqr : QOK k ρ r) (hN : b = true → 6 * n ≤ N)
    (hnd : ND (eval defs n g ρ (.ite r qTrue qFalse) s.v).stop) :
    Rel b ((Spec.eval N cfg (.mk bs) R s).bind fun y => .one (Spec.computed s (.bool (!isFalsy y.v))))
      (eval defs n g ρ (.ite r qTrue qFalse) s.v) := by
  obtain ⟨m, rfl⟩ := nd_pos hnd
  have hN' : b = true → 6 * m ≤ N := fun h => by have := hN h; omega
  have hm : eval defs (m+1) g ρ (.ite r qTrue qFalse) s.v =
      guardND (eval defs m g ρ r s.v) (Res.bindL (fun w => if falsy w then eval defs m g ρ qFalse s.v else eval defs m g ρ qTrue s.v)
        (eval defs m g ρ r s.v).outs (eval defs m g ρ r s.v).stop) := rfl
  rw [hm] at hnd ⊢
  refine Rel.gbind hnd (ihle m (Nat.le_succ m) N b r R g ρ k bs s hr hN' he hs hqr) (fun y _ hndy => ?_)
  simp only [isFalsy_eq] at hndy ⊢
  cases hf : falsy y.v
  · simp only [hf] at hndy
    obtain ⟨m', rfl⟩ := nd_pos (q := qTrue) (by simpa using hndy)
    exact Rel.one (Spec.computed s (.bool true)) ⟨hs.1, rfl⟩
  · simp only [hf] at hndy
    obtain ⟨m', rfl⟩ := nd_pos (q := qFalse) (by simpa using hndy)
    exact Rel.one (Spec.computed s (.bool false)) ⟨hs.1, rfl⟩

theorem tie_and (ihle : ∀ m, m ≤ n → Tie defs body cfg m) {l r : Q} {L R : Query} (hl : Tr l L) (hr : Tr r R)
    (he : EnvRel defs body k ρ bs) (hs : Clean s) (hq : QOK k ρ (.ite l (.ite r qTrue qFalse) qFalse))
    (hN : b = true → 6 * (n+1) ≤ N)
    (hnd : ND (eval defs (n+1) g ρ (.ite l (.ite r qTrue qFalse) qFalse) s.v).stop) :
    Rel b (Spec.eval N cfg (.mk bs) (.binop [] .and L R) s)
      (eval defs (n+1) g ρ (.ite l (.ite r qTrue qFalse) qFalse) s.v) := by
  have hql : QOK k ρ l := ⟨hq.closed.1, fun h => hq.par (Or.inl h)⟩
  have hqr : QOK k ρ r := ⟨hq.closed.2.1.1, fun h => hq.par (Or.inr (Or.inl (Or.inl h)))⟩
  cases N with
  | zero => small_fuel hN
  | succ N =>
    have hN' : b = true → 6 * n ≤ N := fun h => by have := hN h; omega
    rw [S_and, withCtx_clean hs]
    have hm : eval defs (n+1) g ρ (.ite l (.ite r qTrue qFalse) qFalse) s.v =
        guardND (eval defs n g ρ l s.v) (Res.bindL
          (fun w => if falsy w then eval defs n g ρ qFalse s.v else eval defs n g ρ (.ite r qTrue qFalse) s.v)
          (eval defs n g ρ l s.v).outs (eval defs n g ρ l s.v).stop) := rfl
    rw [hm] at hnd ⊢
    refine Rel.gbind hnd (ihle n (Nat.le_refl n) N b l L g ρ k bs s hl hN' he hs hql) (fun x _ hndx => ?_)
    have hfx := isFalsy_eq x.v
    simp only [hfx] at hndx ⊢
    cases hf : falsy x.v
    · simp only [hf] at hndx
      simpa using tie_tobool ihle hr he hs hqr hN' (by simpa using hndx)
    · simp only [hf] at hndx
      obtain ⟨m', rfl⟩ := nd_pos (q := qFalse) (by simpa using hndx)
      exact Rel.one (Spec.computed s (.bool false)) ⟨hs.1, rfl⟩

theorem tie_or (ihle : ∀ m, m ≤ n → Tie defs body cfg m) {l r : Q} {L R : Query} (hl : Tr l L) (hr : Tr r R)
    (he : EnvRel defs body k ρ bs) (hs : Clean s) (hq : QOK k ρ (.ite l qTrue (.ite r qTrue qFalse)))
    (hN : b = true → 6 * (n+1) ≤ N)
    (hnd : ND (eval defs (n+1) g ρ (.ite l qTrue (.ite r qTrue qFalse)) s.v).stop) :
    Rel b (Spec.eval N cfg (.mk bs) (.binop [] .or L R) s)
      (eval defs (n+1) g ρ (.ite l qTrue (.ite r qTrue qFalse)) s.v) := by
  have hql : QOK k ρ l := ⟨hq.closed.1, fun h => hq.par (Or.inl h)⟩
  have hqr : QOK k ρ r := ⟨hq.closed.2.2.1, fun h => hq.par (Or.inr (Or.inr (Or.inl h)))⟩
  cases N with
  | zero => small_fuel hN
  | succ N =>
    have hN' : b = true → 6 * n ≤ N := fun h => by have := hN h; omega
    rw [S_or, withCtx_clean hs]
    have hm : eval defs (n+1) g ρ (.ite l qTrue (.ite r qTrue qFalse)) s.v =
        guardND (eval defs n g ρ l s.v) (Res.bindL
          (fun w => if falsy w then eval defs n g ρ (.ite r qTrue qFalse) s.v else eval defs n g ρ qTrue s.v)
          (eval defs n g ρ l s.v).outs (eval defs n g ρ l s.v).stop) := rfl
    rw [hm] at hnd ⊢
    refine Rel.gbind hnd (ihle n (Nat.le_refl n) N b l L g ρ k bs s hl hN' he hs hql) (fun x _ hndx => ?_)
    have hfx := isFalsy_eq x.v
    simp only [hfx] at hndx ⊢
    cases hf : falsy x.v
    · simp only [hf] at hndx
      obtain ⟨m', rfl⟩ := nd_pos (q := qTrue) (by simpa using hndx)
      exact Rel.one (Spec.computed s (.bool true)) ⟨hs.1, rfl⟩
    · simp only [hf] at hndx
      simpa using tie_tobool ihle hr he hs hqr hN' (by simpa using hndx)

theorem tie_alt (ih : Tie defs body cfg n) {l r : Q} {L R : Query} (hl : Tr l L) (hr : Tr r R)
    (he : EnvRel defs body k ρ bs) (hs : Clean s) (hq : QOK k ρ (.alt l r))
    (hN : b = true → 6 * (n+1) ≤ N) (hnd : ND (eval defs (n+1) g ρ (.alt l r) s.v).stop) :
    Rel b (Spec.eval N cfg (.mk bs) (.binop [] .alt L R) s) (eval defs (n+1) g ρ (.alt l r) s.v) := by
  have hql : QOK k ρ l := ⟨hq.closed.1, fun h => hq.par (Or.inl h)⟩
  have hqr : QOK k ρ r := ⟨hq.closed.2, fun h => hq.par (Or.inr h)⟩
  have hm : eval defs (n+1) g ρ (.alt l r) s.v = altM (eval defs n g ρ l s.v) (eval defs n g ρ r s.v) := rfl
  rw [hm] at hnd ⊢
  have hndl := altM_nd hnd
  cases N with
  | zero => small_fuel hN
  | succ N =>
    have hN' : b = true → 6 * n ≤ N := fun h => by have := hN h; omega
    rw [S_alt]
    exact Rel.alt (ih N b l L g ρ k bs s hl hN' he hs hql hndl) hnd
      (fun hndr => ih N b r R g ρ k bs s hr hN' he hs hqr hndr)

theorem tie_var (x : Nat) (he : EnvRel defs body k ρ bs) (hs : Clean s) (hq : QOK k ρ (.var x))
    (hN : b = true → 6 * (n+1) ≤ N) :
    Rel b (Spec.eval N cfg (.mk bs) (T (.func (vname x) [])) s) (eval defs (n+1) g ρ (.var x) s.v) := by
  obtain ⟨w, hw⟩ := lookup_of_mem x ρ.vars hq.closed
  obtain ⟨id, hid⟩ := he.vars x w hw
  rcases N with _ | _ | _ | _ | M
  · small_fuel hN
  · small_fuel hN
  · small_fuel hN
  · small_fuel hN
  · show Rel b (Spec.eval (M+1+3) cfg (.mk bs) (T (.func (vname x) [])) s)
      (match MiniVM.lookup x ρ.vars with
        | some w => ⟨[w], .done⟩
        | none => ⟨[], .err (.noVar x)⟩)
    rw [S_T, S_func, hw]
    simp only [List.length_nil, Spec.Env.bs, hid]
    exact Rel.one _ ⟨hs.1, rfl⟩

theorem tie_param (ih : Tie defs body cfg n) (he : EnvRel defs body k ρ bs) (hs : Clean s) (hq : QOK k ρ .param)
    (hN : b = true → 6 * (n+1) ≤ N) (hnd : ND (eval defs (n+1) g ρ .param s.v).stop) :
    Rel b (Spec.eval N cfg (.mk bs) (T (.func pname [])) s) (eval defs (n+1) g ρ .param s.v) := by
  have hne := hq.par trivial
  have hclo := he.clo
  cases hc : ρ.clo with
  | none => exact absurd hc hne
  | mk h a ρ' =>
    rw [hc] at hclo
    obtain ⟨A, cbs, k', h1, hA, h2, h3, h4, h6, h7⟩ := hclo
    have hm : eval defs (n+1) g ρ .param s.v = eval defs n ⟨h, []⟩ ⟨ρ', []⟩ a s.v := by
      show (match ρ.clo with
        | .mk h q ρ' => eval defs n ⟨h, []⟩ ⟨ρ', []⟩ q s.v
        | .none => ⟨[], .err .noParam⟩) = _
      rw [hc]
    rw [hm] at hnd ⊢
    rcases N with _ | _ | _ | _ | M
    · small_fuel hN
    · small_fuel hN
    · small_fuel hN
    · small_fuel hN
    · have hN' : b = true → 6 * n ≤ M := fun h => by have := hN h; omega
      show Rel b (Spec.eval (M+1+3) cfg (.mk bs) (T (.func pname [])) s) _
      rw [S_T, S_func]
      simp only [List.length_nil, Spec.Env.bs, h1]
      exact ih M b a A ⟨h, []⟩ ⟨ρ', []⟩ k' cbs s hA hN' (EnvRel.of_clo h2 h3 h7) hs ⟨h4, h6⟩ hnd

theorem callDef_one (M : Nat) (cfg : Spec.Cfg) (callerEnv fenv : Spec.Env) (B A : Query) (s : Spec.St) :
    Spec.callDef (M+1) cfg callerEnv fenv [pname] B [A] s =
      Spec.eval M cfg (fenv.push (.clo pname A callerEnv)) B s := by
  have h : pname.startsWith "$" = false := by decide +kernel
  rw [Spec.callDef_succ]
  simp only [List.zip_cons_cons, List.zip_nil_right, List.foldl_cons, List.foldl_nil, h, List.filter_cons,
    List.filter_nil, Spec.bindValsK, if_false, Bool.false_eq_true]

theorem tie_call (ih : Tie defs body cfg n) (f : Nat) {a : Q} {A : Query} (ha : Tr a A)
    (he : EnvRel defs body k ρ bs) (hs : Clean s) (hq : QOK k ρ (.call1 f a))
    (hN : b = true → 6 * (n+1) ≤ N) (hnd : ND (eval defs (n+1) g ρ (.call1 f a) s.v).stop) :
    Rel b (Spec.eval N cfg (.mk bs) (T (.func (fname f) [A])) s) (eval defs (n+1) g ρ (.call1 f a) s.v) := by
  have hf : f < k := hq.closed.1
  have hfn := he.fns f hf
  have he' := he.call hf g.fn ha hq.closed.2 (fun h => hq.par h)
  have hm : eval defs (n+1) g ρ (.call1 f a) s.v = eval defs n ⟨some f, []⟩ ⟨.mk g.fn a ρ.clo, []⟩ (defs f) s.v := rfl
  rw [hm] at hnd ⊢
  have hqb : QOK (f+1) ⟨.mk g.fn a ρ.clo, []⟩ (defs f) := ⟨hfn.2.1, fun _ => by simp⟩
  rcases N with _ | _ | _ | _ | _ | M
  · small_fuel hN
  · small_fuel hN
  · small_fuel hN
  · small_fuel hN
  · show Rel b (Spec.eval (0+1+3) cfg (.mk bs) (T (.func (fname f) [A])) s) _
    rw [S_T, S_func]
    simp only [List.length_cons, List.length_nil, Spec.Env.bs, hfn.1]
    small_fuel hN
  · have hN' : b = true → 6 * n ≤ M := fun h => by have := hN h; omega
    show Rel b (Spec.eval (M+1+1+3) cfg (.mk bs) (T (.func (fname f) [A])) s) _
    rw [S_T, S_func]
    simp only [List.length_cons, List.length_nil, Spec.Env.bs, hfn.1]
    rw [callDef_one]
    exact ih M b (defs f) (body f) ⟨some f, []⟩ ⟨.mk g.fn a ρ.clo, []⟩ (f+1) _ s hfn.2.2 hN' he' hs hqb hnd

theorem tie_bind (ih : Tie defs body cfg n) (x : Nat) {src bd : Q} {S B : Query} (hS : Tr src S) (hB : Tr bd B)
    (he : EnvRel defs body k ρ bs) (hs : Clean s) (hq : QOK k ρ (.bind x src bd))
    (hN : b = true → 6 * (n+1) ≤ N) (hnd : ND (eval defs (n+1) g ρ (.bind x src bd) s.v).stop) :
    Rel b (Spec.eval N cfg (.mk bs) (.bind [] S [.var (vname x)] B) s) (eval defs (n+1) g ρ (.bind x src bd) s.v) := by
  have hqs : QOK k ρ src := ⟨hq.closed.1, fun h => hq.par (Or.inl h)⟩
  have hqb : ∀ w, QOK k ⟨ρ.clo, (x, w) :: ρ.vars⟩ bd := fun w => ⟨hq.closed.2, fun h => hq.par (Or.inr h)⟩
  have hm : eval defs (n+1) g ρ (.bind x src bd) s.v =
      guardND (eval defs n g ρ src s.v) (Res.bindL (fun w => eval defs n g ⟨ρ.clo, (x, w) :: ρ.vars⟩ bd s.v)
        (eval defs n g ρ src s.v).outs (eval defs n g ρ src s.v).stop) := rfl
  rw [hm] at hnd ⊢
  cases N with
  | zero => small_fuel hN
  | succ N =>
    have hN' : b = true → 6 * n ≤ N := fun h => by have := hN h; omega
    rw [S_bind, withCtx_clean hs]
    refine Rel.gbind hnd (ih N b src S g ρ k bs s hS hN' he hs hqs) (fun y hy hndy => ?_)
    rcases N with _ | _ | M
    · small_fuel hN
    · small_fuel hN
    · rw [S_alts_var]
      have hN'' : b = true → 6 * n ≤ M + 1 := fun h => by have := hN h; omega
      exact ih (M+1) b bd B g ⟨ρ.clo, (x, y.v) :: ρ.vars⟩ k _ s hB hN'' (he.push_var x y.v y.id) hs (hqb y.v) hndy

theorem tie_reduce (ih : Tie defs body cfg n) (x : Nat) {src init upd : Q} {SRC INIT UPD : Query}
    (hS : Tr src SRC) (hI : Tr init INIT) (hU : Tr upd UPD)
    (he : EnvRel defs body k ρ bs) (hs : Clean s) (hq : QOK k ρ (.reduce x src init upd))
    (hN : b = true → 6 * (n+1) ≤ N) (hnd : ND (eval defs (n+1) g ρ (.reduce x src init upd) s.v).stop) :
    Rel b (Spec.eval N cfg (.mk bs) (T (.reduce SRC (.var (vname x)) INIT UPD)) s)
      (eval defs (n+1) g ρ (.reduce x src init upd) s.v) := by
  have hqs : QOK k ρ src := ⟨hq.closed.1, fun h => hq.par (Or.inl h)⟩
  have hqi : QOK k ρ init := ⟨hq.closed.2.1, fun h => hq.par (Or.inr (Or.inl h))⟩
  have hqu : ∀ w, QOK k ⟨ρ.clo, (x, w) :: ρ.vars⟩ upd :=
    fun w => ⟨hq.closed.2.2, fun h => hq.par (Or.inr (Or.inr h))⟩
  have hm : eval defs (n+1) g ρ (.reduce x src init upd) s.v =
      guardND (eval defs n g ρ init s.v) (Res.bindL (fun s0 =>
        guardND (eval defs n g ρ src s.v)
          (reduceL (fun w st => eval defs n g ⟨ρ.clo, (x, w) :: ρ.vars⟩ upd st)
            (eval defs n g ρ src s.v).stop (eval defs n g ρ src s.v).outs s0))
        (eval defs n g ρ init s.v).outs (eval defs n g ρ init s.v).stop) := rfl
  rw [hm] at hnd ⊢
  rcases N with _ | _ | _ | _ | M
  · small_fuel hN
  · small_fuel hN
  · small_fuel hN
  · small_fuel hN
  · have hN' : b = true → 6 * n ≤ M + 1 := fun h => by have := hN h; omega
    show Rel b (Spec.eval (M+1+3) cfg (.mk bs) (T (.reduce SRC (.var (vname x)) INIT UPD)) s) _
    rw [S_T, S_reduce]
    refine Rel.gbind hnd (ih (M+1) b init INIT g ρ k bs s hI hN' he hs hqi) (fun st0 hst0 hnd0 => ?_)
    obtain ⟨hnds, hg0⟩ := guardND_nd hnd0
    rw [hg0] at hnd0 ⊢
    rw [setCtx_clean hs hst0, hst0.1]
    have hsrc := ih (M+1) b src SRC g ρ k bs s hS hN' he hs hqs hnds
    exact Rel.reduce _ (fun y sv sid => Spec.eval (M+1) cfg ((Spec.Env.mk bs).push (.var (vname x) y.v y.id))
        UPD { v := sv, id := sid, ctx := y.ctx })
      (fun w st => eval defs n g ⟨ρ.clo, (x, w) :: ρ.vars⟩ upd st)
      (fun acc y hy => reduceStep_var _ _ acc y hy)
      (fun y sv sid hy hndy =>
        ih (M+1) b upd UPD g ⟨ρ.clo, (x, y.v) :: ρ.vars⟩ k _ { v := sv, id := sid, ctx := y.ctx } hU hN'
          (he.push_var x y.v y.id) ⟨hy.1, rfl⟩ (hqu y.v) hndy)
      _ _ _ _ st0.v st0.id hsrc hnd0

/-- `foreach`, for an arbitrary extractor on the `Spec` side (`EXTf`) related to the mini extractor -/
theorem tie_foreach_core (ih : Tie defs body cfg n) (x : Nat) {src init upd ext : Q} {SRC INIT UPD : Query}
    (EXTf : Spec.Env → Spec.St → Spec.Res) (M : Nat)
    (hS : Tr src SRC) (hI : Tr init INIT) (hU : Tr upd UPD)
    (hX : ∀ (y u : Spec.St), Clean y → Clean u →
      ND (eval defs n g ⟨ρ.clo, (x, y.v) :: ρ.vars⟩ ext u.v).stop →
      Rel b (EXTf ((Spec.Env.mk bs).push (.var (vname x) y.v y.id)) u) (eval defs n g ⟨ρ.clo, (x, y.v) :: ρ.vars⟩ ext u.v))
    (he : EnvRel defs body k ρ bs) (hs : Clean s) (hq : QOK k ρ (.foreach x src init upd ext))
    (hN' : b = true → 6 * n ≤ M + 1) (hnd : ND (eval defs (n+1) g ρ (.foreach x src init upd ext) s.v).stop) :
    Rel b ((Spec.eval (M+1) cfg (.mk bs) INIT s).bind fun st0 =>
        Spec.foreachLoop (fun y => Spec.PatRes.ok [(Spec.Env.mk bs).push (.var (vname x) y.v y.id)])
          (fun y env' sv sid => Spec.eval (M+1) cfg env' UPD { v := sv, id := sid, ctx := y.ctx })
          EXTf
          (Spec.eval (M+1) cfg (.mk bs) SRC { s with ctx := st0.ctx }).stop
          (Spec.eval (M+1) cfg (.mk bs) SRC { s with ctx := st0.ctx }).outs st0.v st0.id [])
      (eval defs (n+1) g ρ (.foreach x src init upd ext) s.v) := by
  have hqs : QOK k ρ src := ⟨hq.closed.1, fun h => hq.par (Or.inl h)⟩
  have hqi : QOK k ρ init := ⟨hq.closed.2.1, fun h => hq.par (Or.inr (Or.inl h))⟩
  have hqu : ∀ w, QOK k ⟨ρ.clo, (x, w) :: ρ.vars⟩ upd :=
    fun w => ⟨hq.closed.2.2.1, fun h => hq.par (Or.inr (Or.inr (Or.inl h)))⟩
  have hm : eval defs (n+1) g ρ (.foreach x src init upd ext) s.v =
      guardND (eval defs n g ρ init s.v) (Res.bindL (fun s0 =>
        guardND (eval defs n g ρ src s.v)
          (foreachL (fun w st => eval defs n g ⟨ρ.clo, (x, w) :: ρ.vars⟩ upd st)
            (fun w u => eval defs n g ⟨ρ.clo, (x, w) :: ρ.vars⟩ ext u)
            (eval defs n g ρ src s.v).stop (eval defs n g ρ src s.v).outs s0))
        (eval defs n g ρ init s.v).outs (eval defs n g ρ init s.v).stop) := rfl
  rw [hm] at hnd ⊢
  refine Rel.gbind hnd (ih (M+1) b init INIT g ρ k bs s hI hN' he hs hqi) (fun st0 hst0 hnd0 => ?_)
  obtain ⟨hnds, hg0⟩ := guardND_nd hnd0
  rw [hg0] at hnd0 ⊢
  rw [setCtx_clean hs hst0]
  have hsrc := ih (M+1) b src SRC g ρ k bs s hS hN' he hs hqs hnds
  have := Rel.foreach (b := b) (fun y => (Spec.Env.mk bs).push (.var (vname x) y.v y.id))
    (fun y env' sv sid => Spec.eval (M+1) cfg env' UPD { v := sv, id := sid, ctx := y.ctx })
    EXTf
    (fun w st => eval defs n g ⟨ρ.clo, (x, w) :: ρ.vars⟩ upd st)
    (fun w u => eval defs n g ⟨ρ.clo, (x, w) :: ρ.vars⟩ ext u)
    (fun y sv sid hy hndy =>
      ih (M+1) b upd UPD g ⟨ρ.clo, (x, y.v) :: ρ.vars⟩ k _ { v := sv, id := sid, ctx := y.ctx } hU hN'
        (he.push_var x y.v y.id) ⟨hy.1, rfl⟩ (hqu y.v) hndy)
    (fun y u hy hu hndu => hX y u hy hu hndu)
    _ _ _ _ st0.v st0.id [] (by simp) hsrc hnd0
  exact this

theorem tie_foreach (ih : Tie defs body cfg n) (x : Nat) {src init upd ext : Q} {SRC INIT UPD EXT : Query}
    (hS : Tr src SRC) (hI : Tr init INIT) (hU : Tr upd UPD) (hE : Tr ext EXT)
    (he : EnvRel defs body k ρ bs) (hs : Clean s) (hq : QOK k ρ (.foreach x src init upd ext))
    (hN : b = true → 6 * (n+1) ≤ N) (hnd : ND (eval defs (n+1) g ρ (.foreach x src init upd ext) s.v).stop) :
    Rel b (Spec.eval N cfg (.mk bs) (T (.foreach SRC (.var (vname x)) INIT UPD (some EXT))) s)
      (eval defs (n+1) g ρ (.foreach x src init upd ext) s.v) := by
  have hqe : ∀ w, QOK k ⟨ρ.clo, (x, w) :: ρ.vars⟩ ext :=
    fun w => ⟨hq.closed.2.2.2, fun h => hq.par (Or.inr (Or.inr (Or.inr h)))⟩
  rcases N with _ | _ | _ | _ | M
  · small_fuel hN
  · small_fuel hN
  · small_fuel hN
  · small_fuel hN
  · have hN' : b = true → 6 * n ≤ M + 1 := fun h => by have := hN h; omega
    show Rel b (Spec.eval (M+1+3) cfg (.mk bs) (T (.foreach SRC (.var (vname x)) INIT UPD (some EXT))) s) _
    rw [S_T, S_foreach]
    exact tie_foreach_core ih x (fun env' u => Spec.eval (M+1) cfg env' EXT u) M hS hI hU
      (fun y u hy hu hndu =>
        ih (M+1) b ext EXT g ⟨ρ.clo, (x, y.v) :: ρ.vars⟩ k _ u hE hN' (he.push_var x y.v y.id) hu (hqe y.v) hndu)
      he hs hq hN' hnd

theorem tie_foreach2 (ih : Tie defs body cfg n) (x : Nat) {src init upd : Q} {SRC INIT UPD : Query}
    (hS : Tr src SRC) (hI : Tr init INIT) (hU : Tr upd UPD)
    (he : EnvRel defs body k ρ bs) (hs : Clean s) (hq : QOK k ρ (.foreach x src init upd .id))
    (hN : b = true → 6 * (n+1) ≤ N) (hnd : ND (eval defs (n+1) g ρ (.foreach x src init upd .id) s.v).stop) :
    Rel b (Spec.eval N cfg (.mk bs) (T (.foreach SRC (.var (vname x)) INIT UPD none)) s)
      (eval defs (n+1) g ρ (.foreach x src init upd .id) s.v) := by
  rcases N with _ | _ | _ | _ | M
  · small_fuel hN
  · small_fuel hN
  · small_fuel hN
  · small_fuel hN
  · have hN' : b = true → 6 * n ≤ M + 1 := fun h => by have := hN h; omega
    show Rel b (Spec.eval (M+1+3) cfg (.mk bs) (T (.foreach SRC (.var (vname x)) INIT UPD none)) s) _
    rw [S_T, S_foreach2]
    exact tie_foreach_core ih x (fun _ u => Spec.Res.one u) M hS hI hU
      (fun y u _ hu hndu => by
        obtain ⟨m, rfl⟩ := nd_pos hndu
        exact Rel.one u hu)
      he hs hq hN' hnd

/-! ### the forms compiler.go compiles as another construct -/

theorem bindL_id {m : Nat} {g : Ctx} {ρ : MiniVM.Env} (outs : List V) (st : MiniVM.Stop) :
    Res.bindL (eval defs (m+1) g ρ .id) outs st = ⟨outs, st⟩ := by
  induction outs with
  | nil => rfl
  | cons x xs ih => simp [Res.bindL, eval_id, ih]

theorem tie_paren (ih : Tie defs body cfg n) {q : Q} {A : Query} (hA : Tr q A)
    (he : EnvRel defs body k ρ bs) (hs : Clean s) (hq : QOK k ρ (.pipe q .id))
    (hN : b = true → 6 * (n+1) ≤ N) (hnd : ND (eval defs (n+1) g ρ (.pipe q .id) s.v).stop) :
    Rel b (Spec.eval N cfg (.mk bs) (T (.query A)) s) (eval defs (n+1) g ρ (.pipe q .id) s.v) := by
  have hqq : QOK k ρ q := ⟨hq.closed.1, fun h => hq.par (Or.inl h)⟩
  have hm : eval defs (n+1) g ρ (.pipe q .id) s.v =
      guardND (eval defs n g ρ q s.v) (Res.bindL (eval defs n g ρ .id) (eval defs n g ρ q s.v).outs
        (eval defs n g ρ q s.v).stop) := rfl
  rw [hm] at hnd ⊢
  obtain ⟨hndq, hg⟩ := guardND_nd hnd
  rw [hg]
  obtain ⟨m, rfl⟩ := nd_pos hndq
  rw [bindL_id]
  rcases N with _ | _ | _ | M
  · small_fuel hN
  · small_fuel hN
  · small_fuel hN
  · have hN' : b = true → 6 * (m+1) ≤ M := fun h => by have := hN h; omega
    rw [S_T, S_query]
    exact ih M b q A g ρ k bs s hA hN' he hs hqq hndq

theorem tie_sfxIter (ih : Tie defs body cfg n) {a : Q} {core : TermCore} {sfx : List Suffix}
    (ha : Tr a (.term [] (.mk core sfx)))
    (he : EnvRel defs body k ρ bs) (hs : Clean s) (hq : QOK k ρ (.pipe a .iter))
    (hN : b = true → 6 * (n+1) ≤ N) (hnd : ND (eval defs (n+1) g ρ (.pipe a .iter) s.v).stop) :
    Rel b (Spec.eval N cfg (.mk bs) (.term [] (.mk core (sfx ++ [.iter]))) s) (eval defs (n+1) g ρ (.pipe a .iter) s.v) := by
  have hqa : QOK k ρ a := ⟨hq.closed.1, fun h => hq.par (Or.inl h)⟩
  have hm : eval defs (n+1) g ρ (.pipe a .iter) s.v =
      guardND (eval defs n g ρ a s.v) (Res.bindL (eval defs n g ρ .iter) (eval defs n g ρ a s.v).outs
        (eval defs n g ρ a s.v).stop) := rfl
  rw [hm] at hnd ⊢
  rcases N with _ | _ | M
  · small_fuel hN
  · small_fuel hN
  · have hN' : b = true → 6 * n ≤ M + 1 := fun h => by have := hN h; omega
    rw [S_sfxIter]
    refine Rel.gbind hnd (ih (M+1) b a _ g ρ k bs s ha hN' he hs hqa) (fun x hx hndx => ?_)
    obtain ⟨m, rfl⟩ := nd_pos hndx
    exact rel_iter_eval m g ρ x hx

theorem tie_sfxIndex (ih : Tie defs body cfg n) (nm : Bytes) {a : Q} {core : TermCore} {sfx : List Suffix}
    (ha : Tr a (.term [] (.mk core sfx)))
    (he : EnvRel defs body k ρ bs) (hs : Clean s) (hq : QOK k ρ (.pipe a (.index (.str nm))))
    (hN : b = true → 6 * (n+1) ≤ N) (hnd : ND (eval defs (n+1) g ρ (.pipe a (.index (.str nm))) s.v).stop) :
    Rel b (Spec.eval N cfg (.mk bs) (.term [] (.mk core (sfx ++ [.index (.name nm)]))) s)
      (eval defs (n+1) g ρ (.pipe a (.index (.str nm))) s.v) := by
  have hqa : QOK k ρ a := ⟨hq.closed.1, fun h => hq.par (Or.inl h)⟩
  have hm : eval defs (n+1) g ρ (.pipe a (.index (.str nm))) s.v =
      guardND (eval defs n g ρ a s.v) (Res.bindL (eval defs n g ρ (.index (.str nm))) (eval defs n g ρ a s.v).outs
        (eval defs n g ρ a s.v).stop) := rfl
  rw [hm] at hnd ⊢
  rcases N with _ | _ | _ | M
  · small_fuel hN
  · small_fuel hN
  · rw [S_sfxIndex]
    small_fuel hN
  · have hN' : b = true → 6 * n ≤ M + 1 := fun h => by have := hN h; omega
    rw [S_sfxIndex, S_evalIndex_name]
    refine Rel.gbind hnd (ih (M+1) b a _ g ρ k bs s ha hN' he hs hqa) (fun x hx hndx => ?_)
    obtain ⟨m, rfl⟩ := nd_pos hndx
    exact rel_navStep m g ρ nm x hx

theorem tie_sfxOpt (ih : Tie defs body cfg n) {a : Q} {core : TermCore} {sfx : List Suffix}
    (ha : Tr a (.term [] (.mk core sfx))) (hnn : noNav sfx)
    (he : EnvRel defs body k ρ bs) (hs : Clean s) (hq : QOK k ρ (.try_ a))
    (hN : b = true → 6 * (n+1) ≤ N) (hnd : ND (eval defs (n+1) g ρ (.try_ a) s.v).stop) :
    Rel b (Spec.eval N cfg (.mk bs) (.term [] (.mk core (sfx ++ [.optional]))) s) (eval defs (n+1) g ρ (.try_ a) s.v) := by
  have hqa : QOK k ρ a := ⟨hq.closed, fun h => hq.par h⟩
  have hm : eval defs (n+1) g ρ (.try_ a) s.v = tryM (eval defs n g ρ a s.v) := rfl
  rw [hm] at hnd ⊢
  have hnda := tryM_nd hnd
  rcases N with _ | _ | M
  · small_fuel hN
  · small_fuel hN
  · have hN' : b = true → 6 * n ≤ M + 1 := fun h => by have := hN h; omega
    rw [S_sfxOpt _ _ _ _ _ _ hnn]
    exact Rel.try_ M cfg (.mk bs) s (ih (M+1) b a _ g ρ k bs s ha hN' he hs hqa hnda)

theorem tie_sfxIterOpt (ih : Tie defs body cfg n) {a : Q} {core : TermCore} {sfx : List Suffix}
    (ha : Tr a (.term [] (.mk core sfx)))
    (he : EnvRel defs body k ρ bs) (hs : Clean s) (hq : QOK k ρ (.pipe a (.try_ .iter)))
    (hN : b = true → 6 * (n+1) ≤ N) (hnd : ND (eval defs (n+1) g ρ (.pipe a (.try_ .iter)) s.v).stop) :
    Rel b (Spec.eval N cfg (.mk bs) (.term [] (.mk core (sfx ++ [.iter, .optional]))) s)
      (eval defs (n+1) g ρ (.pipe a (.try_ .iter)) s.v) := by
  have hqa : QOK k ρ a := ⟨hq.closed.1, fun h => hq.par (Or.inl h)⟩
  have hm : eval defs (n+1) g ρ (.pipe a (.try_ .iter)) s.v =
      guardND (eval defs n g ρ a s.v) (Res.bindL (eval defs n g ρ (.try_ .iter)) (eval defs n g ρ a s.v).outs
        (eval defs n g ρ a s.v).stop) := rfl
  rw [hm] at hnd ⊢
  rcases N with _ | _ | M
  · small_fuel hN
  · small_fuel hN
  · have hN' : b = true → 6 * n ≤ M + 1 := fun h => by have := hN h; omega
    rw [S_sfxIterOpt]
    refine Rel.gbind hnd (ih (M+1) b a _ g ρ k bs s ha hN' he hs hqa) (fun x hx hndx => ?_)
    obtain ⟨m, rfl⟩ := nd_pos hndx
    have hm2 : eval defs (m+1) g ρ (.try_ .iter) x.v = tryM (eval defs m g ρ .iter x.v) := rfl
    rw [hm2] at hndx ⊢
    obtain ⟨m', rfl⟩ := nd_pos (tryM_nd hndx)
    exact Rel.try_ M cfg (.mk bs) x (rel_iter_eval m' g ρ x hx)

theorem tie_sfxIndexOpt (ih : Tie defs body cfg n) (nm : Bytes) {a : Q} {core : TermCore} {sfx : List Suffix}
    (ha : Tr a (.term [] (.mk core sfx)))
    (he : EnvRel defs body k ρ bs) (hs : Clean s) (hq : QOK k ρ (.pipe a (.try_ (.index (.str nm)))))
    (hN : b = true → 6 * (n+1) ≤ N)
    (hnd : ND (eval defs (n+1) g ρ (.pipe a (.try_ (.index (.str nm)))) s.v).stop) :
    Rel b (Spec.eval N cfg (.mk bs) (.term [] (.mk core (sfx ++ [.index (.name nm), .optional]))) s)
      (eval defs (n+1) g ρ (.pipe a (.try_ (.index (.str nm)))) s.v) := by
  have hqa : QOK k ρ a := ⟨hq.closed.1, fun h => hq.par (Or.inl h)⟩
  have hm : eval defs (n+1) g ρ (.pipe a (.try_ (.index (.str nm)))) s.v =
      guardND (eval defs n g ρ a s.v) (Res.bindL (eval defs n g ρ (.try_ (.index (.str nm)))) (eval defs n g ρ a s.v).outs
        (eval defs n g ρ a s.v).stop) := rfl
  rw [hm] at hnd ⊢
  rcases N with _ | _ | M
  · small_fuel hN
  · small_fuel hN
  · have hN' : b = true → 6 * n ≤ M + 1 := fun h => by have := hN h; omega
    rw [S_sfxIndexOpt]
    refine Rel.gbind hnd (ih (M+1) b a _ g ρ k bs s ha hN' he hs hqa) (fun x hx hndx => ?_)
    obtain ⟨m, rfl⟩ := nd_pos hndx
    have hm2 : eval defs (m+1) g ρ (.try_ (.index (.str nm))) x.v = tryM (eval defs m g ρ (.index (.str nm)) x.v) := rfl
    rw [hm2] at hndx ⊢
    obtain ⟨m', rfl⟩ := nd_pos (tryM_nd hndx)
    refine Rel.try_ M cfg (.mk bs) x ?_
    rcases M with _ | _ | _ | M
    · small_fuel hN
    · small_fuel hN
    · small_fuel hN
    · rw [S_evalIndex_id, one_bind_clean hx]
      exact rel_navStep m' g ρ nm x hx

/-! ### object construction -/

/-- the entries of a mini object construction are read by the entries of a jq object term —
    `(K): V` for a key query, `name: V` for a constant string key — and their queries satisfy `Pq` -/
inductive TrEntries (Pq : Q → Prop) : List (EKey × Q) → List ObjKV → Prop where
  | nil : TrEntries Pq [] []
  | q {k v K V es kvs} : Tr k K → Tr v V → Pq k → Pq v → TrEntries Pq es kvs →
      TrEntries Pq ((.q k, v) :: es) (.mk (.query K) (some V) :: kvs)
  | c (nm : Bytes) {v V es kvs} : Tr v V → Pq v → TrEntries Pq es kvs →
      TrEntries Pq ((.c (.str nm), v) :: es) (.mk (.name nm) (some V) :: kvs)
  | s (nm : Bytes) {v V es kvs} : Tr v V → Pq v → TrEntries Pq es kvs →
      TrEntries Pq ((.c (.str nm), v) :: es) (.mk (.str (.lit nm)) (some V) :: kvs)
  | short (nm : Bytes) {es kvs} : TrEntries Pq es kvs →
      TrEntries Pq ((.c (.str nm), .index (.str nm)) :: es) (.mk (.name nm) none :: kvs)
  | shortS (nm : Bytes) {es kvs} : TrEntries Pq es kvs →
      TrEntries Pq ((.c (.str nm), .index (.str nm)) :: es) (.mk (.str (.lit nm)) none :: kvs)
  | var (x : Nat) {es kvs} : Pq (.var x) → TrEntries Pq es kvs →
      TrEntries Pq ((.c (.str (B (Spec.dropFirst (vname x)))), .var x) :: es) (.mk (.var (vname x)) none :: kvs)

theorem TrEntries.append {Pq : Q → Prop} {a A b B} (ha : TrEntries Pq a A) (hb : TrEntries Pq b B) :
    TrEntries Pq (a ++ b) (A ++ B) := by
  induction ha with
  | nil => exact hb
  | q h1 h2 h3 h4 _ ih => exact .q h1 h2 h3 h4 ih
  | c nm h1 h2 _ ih => exact .c nm h1 h2 ih
  | s nm h1 h2 _ ih => exact .s nm h1 h2 ih
  | short nm _ ih => exact .short nm ih
  | shortS nm _ ih => exact .shortS nm ih
  | var x h1 _ ih => exact .var x h1 ih

theorem bindG_eq_guardND (r : MiniVM.Res) (f : V → MiniVM.Res) :
    r.bindG f = guardND r (Res.bindL f r.outs r.stop) := rfl

theorem S_evalObject_nil (fuel : Nat) (env : Spec.Env) (acc : List (JV × JV)) (s : Spec.St) (ctx : Option Spec.PCtx) :
    Spec.evalObject (fuel+1) cfg env [] acc s ctx =
      match acc.reverse.find? (fun (k, _) => match k with | .str _ => false | _ => true) with
      | some (k, _) => .fail (.builtin "objectKeyNotString" [k])
      | none =>
        .one { v := JV.mkObj (acc.filterMap fun (k, v) => match k with | .str b => some (b, v) | _ => none),
               id := .fresh, ctx := ctx } := rfl

theorem S_evalObject_query (fuel : Nat) (env : Spec.Env) (K V : Query) (rest : List ObjKV)
    (acc : List (JV × JV)) (s : Spec.St) (ctx : Option Spec.PCtx) :
    Spec.evalObject (fuel+1) cfg env (.mk (.query K) (some V) :: rest) acc s ctx =
      (Spec.eval fuel cfg env K { s with ctx := ctx }).bind fun k =>
        (Spec.eval fuel cfg env V { s with ctx := k.ctx }).bind fun v =>
          Spec.evalObject fuel cfg env rest (acc ++ [(k.v, v.v)]) s v.ctx := rfl

theorem S_evalObject_name (fuel : Nat) (env : Spec.Env) (nm : Bytes) (V : Query) (rest : List ObjKV)
    (acc : List (JV × JV)) (s : Spec.St) (ctx : Option Spec.PCtx) :
    Spec.evalObject (fuel+1) cfg env (.mk (.name nm) (some V) :: rest) acc s ctx =
      (Spec.Res.one (Spec.computed { s with ctx := ctx } (.str nm))).bind fun k =>
        (Spec.eval fuel cfg env V { s with ctx := k.ctx }).bind fun v =>
          Spec.evalObject fuel cfg env rest (acc ++ [(k.v, v.v)]) s v.ctx := rfl

theorem S_evalObject_strlit (fuel : Nat) (env : Spec.Env) (nm : Bytes) (V : Query) (rest : List ObjKV)
    (acc : List (JV × JV)) (s : Spec.St) (ctx : Option Spec.PCtx) :
    Spec.evalObject (fuel+2) cfg env (.mk (.str (.lit nm)) (some V) :: rest) acc s ctx =
      (Spec.Res.one (Spec.computed { s with ctx := ctx } (.str nm))).bind fun k =>
        (Spec.eval (fuel+1) cfg env V { s with ctx := k.ctx }).bind fun v =>
          Spec.evalObject (fuel+1) cfg env rest (acc ++ [(k.v, v.v)]) s v.ctx := rfl

theorem S_evalObject_strlit1 (env : Spec.Env) (nm : Bytes) (V : Option Query) (rest : List ObjKV)
    (acc : List (JV × JV)) (s : Spec.St) (ctx : Option Spec.PCtx) :
    Spec.evalObject 1 cfg env (.mk (.str (.lit nm)) V :: rest) acc s ctx = Spec.Res.outOfFuel := rfl

theorem S_evalObject_short (fuel : Nat) (env : Spec.Env) (nm : Bytes) (rest : List ObjKV)
    (acc : List (JV × JV)) (s : Spec.St) (ctx : Option Spec.PCtx) :
    Spec.evalObject (fuel+1) cfg env (.mk (.name nm) none :: rest) acc s ctx =
      (Spec.Res.one (Spec.computed { s with ctx := ctx } (.str nm))).bind fun k =>
        (Spec.navStep { s with ctx := k.ctx } (.str nm)).bind fun v =>
          Spec.evalObject fuel cfg env rest (acc ++ [(k.v, v.v)]) s v.ctx := rfl

theorem S_evalObject_shortS (fuel : Nat) (env : Spec.Env) (nm : Bytes) (rest : List ObjKV)
    (acc : List (JV × JV)) (s : Spec.St) (ctx : Option Spec.PCtx) :
    Spec.evalObject (fuel+2) cfg env (.mk (.str (.lit nm)) none :: rest) acc s ctx =
      (Spec.Res.one (Spec.computed { s with ctx := ctx } (.str nm))).bind fun k =>
        (Spec.navStep { s with ctx := k.ctx } (.str nm)).bind fun v =>
          Spec.evalObject (fuel+1) cfg env rest (acc ++ [(k.v, v.v)]) s v.ctx := rfl

theorem S_evalObject_var (fuel : Nat) (env : Spec.Env) (name : String) (rest : List ObjKV)
    (acc : List (JV × JV)) (s : Spec.St) (ctx : Option Spec.PCtx) :
    Spec.evalObject (fuel+1) cfg env (.mk (.var name) none :: rest) acc s ctx =
      (Spec.Res.one (Spec.computed { s with ctx := ctx } (.str (B (Spec.dropFirst name))))).bind fun k =>
        (Spec.evalCall fuel cfg env name [] { s with ctx := k.ctx }).bind fun v =>
          Spec.evalObject fuel cfg env rest (acc ++ [(k.v, v.v)]) s v.ctx := rfl

theorem S_object (M : Nat) (env : Spec.Env) (s : Spec.St) (kvs : List ObjKV) :
    Spec.evalCore (M+1) cfg env (.object kvs) s = Spec.evalObject M cfg env kvs [] s s.ctx := rfl

/-- The object case of the simulation, given the simulation of the keys and values: if every key
    and value query of the entries is simulated (`Rel`) at every `Spec` fuel (`≥ lo` when the claim
    includes "not out of fuel"), then `Spec.evalObject` (with fuel above `lo` + the number of
    entries) is simulated by the mini evaluator's `evalEntries` — same nesting of the loops, same
    accumulated pairs, same final object or key error (`objOfPairs_eq_spec`). -/
theorem rel_evalObject {b : Bool} (env : Spec.Env) (s : Spec.St) (hs : Clean s)
    (ev : Q → V → MiniVM.Res) (lo : Nat) (Pq : Q → Prop)
    (H : ∀ (M : Nat) (q : Q) (A : Query) (s' : Spec.St), Tr q A → Pq q → Clean s' → s'.v = s.v → (b = true → lo ≤ M) →
      ND (ev q s.v).stop → Rel b (Spec.eval M cfg env A s') (ev q s.v))
    (Hidx : ∀ (nm : Bytes) (s' : Spec.St), Clean s' → s'.v = s.v → ND (ev (.index (.str nm)) s.v).stop →
      Rel b (Spec.navStep s' (.str nm)) (ev (.index (.str nm)) s.v))
    (Hvar : ∀ (M : Nat) (x : Nat) (s' : Spec.St), Pq (.var x) → Clean s' → s'.v = s.v → (b = true → lo ≤ M) →
      ND (ev (.var x) s.v).stop → Rel b (Spec.evalCall M cfg env (vname x) [] s') (ev (.var x) s.v)) :
    ∀ (es : List (EKey × Q)) (kvs : List ObjKV), TrEntries Pq es kvs →
    ∀ (fuel : Nat) (acc : List (V × V)) (ctx : Option Spec.PCtx), ctx = none → (b = true → lo + es.length < fuel) →
      ND (evalEntries ev s.v es acc).stop →
      Rel b (Spec.evalObject fuel cfg env kvs acc s ctx) (evalEntries ev s.v es acc) := by
  intro es kvs htr
  induction htr with
  | nil =>
    intro fuel acc ctx hctx hf _
    subst hctx
    cases fuel with
    | zero => exact Rel.fuel (fun hb => by have := hf hb; omega) _
    | succ f =>
      rw [S_evalObject_nil]
      simp only [evalEntries]
      rw [objOfPairs_eq_spec]
      unfold nonStr strPairs
      cases acc.reverse.find? (fun (x : V × V) => match x with | (k, _) => match k with | .str _ => false | _ => true) with
      | some kv => exact .err [] (.keyNotStr kv.1) (by simp)
      | none => exact Rel.one _ ⟨rfl, rfl⟩
  | @q k v K V es kvs hk hv hpk hpv _ ih =>
    intro fuel acc ctx hctx hf hnd
    subst hctx
    simp only [List.length_cons] at hf
    cases fuel with
    | zero => exact Rel.fuel (fun hb => by have := hf hb; omega) _
    | succ f =>
      rw [S_evalObject_query]
      simp only [evalEntries, bindG_eq_guardND] at hnd ⊢
      have hs0 : Clean { s with ctx := none } := ⟨rfl, hs.2⟩
      refine Rel.gbind hnd (fun h => H f k K _ hk hpk hs0 rfl (fun hb => by have := hf hb; omega) h) ?_
      intro kk hkk hndk
      have hs1 : Clean { s with ctx := kk.ctx } := ⟨hkk.1, hs.2⟩
      refine Rel.gbind hndk (fun h => H f v V _ hv hpv hs1 rfl (fun hb => by have := hf hb; omega) h) ?_
      intro vv hvv hndv
      exact ih f (acc ++ [(kk.v, vv.v)]) vv.ctx hvv.1 (fun hb => by have := hf hb; omega) hndv
  | @c nm v V es kvs hv hpv _ ih =>
    intro fuel acc ctx hctx hf hnd
    subst hctx
    simp only [List.length_cons] at hf
    cases fuel with
    | zero => exact Rel.fuel (fun hb => by have := hf hb; omega) _
    | succ f =>
      rw [S_evalObject_name]
      have hk0 : Clean (Spec.computed { s with ctx := none } (.str nm)) := ⟨rfl, rfl⟩
      rw [one_bind_clean hk0]
      simp only [evalEntries, bindG_eq_guardND] at hnd ⊢
      have hs1 : Clean { s with ctx := (Spec.computed { s with ctx := none } (.str nm)).ctx } := ⟨rfl, hs.2⟩
      refine Rel.gbind hnd (fun h => H f v V _ hv hpv hs1 rfl (fun hb => by have := hf hb; omega) h) ?_
      intro vv hvv hndv
      exact ih f (acc ++ [(.str nm, vv.v)]) vv.ctx hvv.1 (fun hb => by have := hf hb; omega) hndv
  | @s nm v V es kvs hv hpv _ ih =>
    intro fuel acc ctx hctx hf hnd
    subst hctx
    simp only [List.length_cons] at hf
    rcases fuel with _ | _ | f
    · exact Rel.fuel (fun hb => by have := hf hb; omega) _
    · rw [S_evalObject_strlit1]; exact Rel.fuel (fun hb => by have := hf hb; omega) _
    · rw [S_evalObject_strlit]
      have hk0 : Clean (Spec.computed { s with ctx := none } (.str nm)) := ⟨rfl, rfl⟩
      rw [one_bind_clean hk0]
      simp only [evalEntries, bindG_eq_guardND] at hnd ⊢
      have hs1 : Clean { s with ctx := (Spec.computed { s with ctx := none } (.str nm)).ctx } := ⟨rfl, hs.2⟩
      refine Rel.gbind hnd (fun h => H (f+1) v V _ hv hpv hs1 rfl (fun hb => by have := hf hb; omega) h) ?_
      intro vv hvv hndv
      exact ih (f+1) (acc ++ [(.str nm, vv.v)]) vv.ctx hvv.1 (fun hb => by have := hf hb; omega) hndv
  | @short nm es kvs _ ih =>
    intro fuel acc ctx hctx hf hnd
    subst hctx
    simp only [List.length_cons] at hf
    cases fuel with
    | zero => exact Rel.fuel (fun hb => by have := hf hb; omega) _
    | succ f =>
      rw [S_evalObject_short]
      have hk0 : Clean (Spec.computed { s with ctx := none } (.str nm)) := ⟨rfl, rfl⟩
      rw [one_bind_clean hk0]
      simp only [evalEntries, bindG_eq_guardND] at hnd ⊢
      have hs1 : Clean { s with ctx := (Spec.computed { s with ctx := none } (.str nm)).ctx } := ⟨rfl, hs.2⟩
      refine Rel.gbind hnd (fun h => Hidx nm _ hs1 rfl h) ?_
      intro vv hvv hndv
      exact ih f (acc ++ [(.str nm, vv.v)]) vv.ctx hvv.1 (fun hb => by have := hf hb; omega) hndv
  | @shortS nm es kvs _ ih =>
    intro fuel acc ctx hctx hf hnd
    subst hctx
    simp only [List.length_cons] at hf
    rcases fuel with _ | _ | f
    · exact Rel.fuel (fun hb => by have := hf hb; omega) _
    · rw [S_evalObject_strlit1]; exact Rel.fuel (fun hb => by have := hf hb; omega) _
    · rw [S_evalObject_shortS]
      have hk0 : Clean (Spec.computed { s with ctx := none } (.str nm)) := ⟨rfl, rfl⟩
      rw [one_bind_clean hk0]
      simp only [evalEntries, bindG_eq_guardND] at hnd ⊢
      have hs1 : Clean { s with ctx := (Spec.computed { s with ctx := none } (.str nm)).ctx } := ⟨rfl, hs.2⟩
      refine Rel.gbind hnd (fun h => Hidx nm _ hs1 rfl h) ?_
      intro vv hvv hndv
      exact ih (f+1) (acc ++ [(.str nm, vv.v)]) vv.ctx hvv.1 (fun hb => by have := hf hb; omega) hndv
  | @var x es kvs hpx _ ih =>
    intro fuel acc ctx hctx hf hnd
    subst hctx
    simp only [List.length_cons] at hf
    cases fuel with
    | zero => exact Rel.fuel (fun hb => by have := hf hb; omega) _
    | succ f =>
      rw [S_evalObject_var]
      have hk0 : Clean (Spec.computed { s with ctx := none } (.str (B (Spec.dropFirst (vname x))))) := ⟨rfl, rfl⟩
      rw [one_bind_clean hk0]
      simp only [evalEntries, bindG_eq_guardND] at hnd ⊢
      have hs1 : Clean { s with ctx := (Spec.computed { s with ctx := none } (.str (B (Spec.dropFirst (vname x))))).ctx } :=
        ⟨rfl, hs.2⟩
      refine Rel.gbind hnd (fun h => Hvar f x _ hpx hs1 rfl (fun hb => by have := hf hb; omega) h) ?_
      intro vv hvv hndv
      exact ih f (acc ++ [(.str (B (Spec.dropFirst (vname x))), vv.v)]) vv.ctx hvv.1 (fun hb => by have := hf hb; omega) hndv

/-- the entries of a spine read as an object term, with well-scopedness of every key and value -/
theorem trEntries_of_spine (k : Nat) (ρ : MiniVM.Env) : ∀ (sp : Q), sp.IsSpine → ∀ (kvs : List ObjKV),
    Tr sp (T (.object kvs)) → sp.Closed k (ρ.vars.map (·.1)) → (sp.HasParam → ρ.clo ≠ .none) →
    TrEntries (QOK k ρ) sp.entries kvs := by
  intro sp
  induction sp with
  | objStart =>
    intro _ kvs h _ _
    cases h with
    | objStart => exact .nil
    | @obj _ sp' _ _ _ _ heq => cases hm : sp'.entries.length <;> simp [hm, delayN] at heq
  | objSnoc init kq v ihi _ _ =>
    intro hsp kvs h hc hp
    simp only [Q.IsSpine] at hsp
    simp only [Q.Closed] at hc
    simp only [Q.HasParam] at hp
    cases h with
    | objSnoc h1 h2 h3 =>
      exact (ihi hsp _ h1 hc.1 (fun h => hp (Or.inl h))).append
        (.q h2 h3 ⟨hc.2.1, fun h => hp (Or.inr (Or.inl h))⟩ ⟨hc.2.2, fun h => hp (Or.inr (Or.inr h))⟩ .nil)
    | @obj _ sp' _ _ _ _ heq => cases hm : sp'.entries.length <;> simp [hm, delayN] at heq
  | objSnocC init key v ihi _ =>
    intro hsp kvs h hc hp
    simp only [Q.IsSpine] at hsp
    simp only [Q.Closed] at hc
    simp only [Q.HasParam] at hp
    cases h with
    | objSnocC nm h1 h2 =>
      exact (ihi hsp _ h1 hc.1 (fun h => hp (Or.inl h))).append
        (.c nm h2 ⟨hc.2, fun h => hp (Or.inr h)⟩ .nil)
    | objSnocS nm h1 h2 =>
      exact (ihi hsp _ h1 hc.1 (fun h => hp (Or.inl h))).append
        (.s nm h2 ⟨hc.2, fun h => hp (Or.inr h)⟩ .nil)
    | objShort nm h1 => exact (ihi hsp _ h1 hc.1 (fun h => hp (Or.inl h))).append (.short nm .nil)
    | objShortS nm h1 => exact (ihi hsp _ h1 hc.1 (fun h => hp (Or.inl h))).append (.shortS nm .nil)
    | objVar x h1 =>
      exact (ihi hsp _ h1 hc.1 (fun h => hp (Or.inl h))).append
        (.var x ⟨hc.2, fun h => hp (Or.inr h)⟩ .nil)
    | @obj _ sp' _ _ _ _ heq => cases hm : sp'.entries.length <;> simp [hm, delayN] at heq
  | _ => intro h; simp [Q.IsSpine] at h

theorem eval_delayN (m : Nat) : ∀ (fuel : Nat) (g : Ctx) (ρ : MiniVM.Env) (q : Q) (v : V),
    eval defs (fuel + m) g ρ (delayN m q) v = eval defs fuel g ρ q v := by
  induction m with
  | zero => intros; rfl
  | succ m ih => intro fuel g ρ q v; exact ih fuel g ρ q v

theorem eval_delayN_small (m : Nat) : ∀ (fuel : Nat) (g : Ctx) (ρ : MiniVM.Env) (q : Q) (v : V), fuel ≤ m →
    eval defs fuel g ρ (delayN m q) v = ⟨[], .diverge⟩ := by
  induction m with
  | zero => intro fuel g ρ q v h; have : fuel = 0 := by omega
            subst this; rfl
  | succ m ih =>
    intro fuel g ρ q v h
    cases fuel with
    | zero => rfl
    | succ f => exact ih f g ρ q v (by omega)

theorem closed_delayN (m : Nat) (q : Q) (nf : Nat) (vs : List Nat) : (delayN m q).Closed nf vs ↔ q.Closed nf vs := by
  induction m with
  | zero => exact Iff.rfl
  | succ m ih => simpa [delayN, Q.Closed] using ih

theorem hasParam_delayN (m : Nat) (q : Q) : (delayN m q).HasParam ↔ q.HasParam := by
  induction m with
  | zero => exact Iff.rfl
  | succ m ih => simpa [delayN, Q.HasParam] using ih

theorem tie_delay (ih : Tie defs body cfg n) {a : Q} {A : Query} (ha : Tr a A) (he : EnvRel defs body k ρ bs) (hs : Clean s)
    (hq : QOK k ρ (.delay a))
    (hN : b = true → 6 * (n+1) ≤ N) (hnd : ND (eval defs (n+1) g ρ (.delay a) s.v).stop) :
    Rel b (Spec.eval N cfg (.mk bs) A s) (eval defs (n+1) g ρ (.delay a) s.v) :=
  ih N b a A g ρ k bs s ha (fun h => by have := hN h; omega) he hs ⟨hq.closed, hq.par⟩ hnd

theorem tie_obj (ihle : ∀ m, m ≤ n → Tie defs body cfg m) {q sp : Q} {kvs : List ObjKV}
    (hsp : Tr sp (T (.object kvs))) (hspine : sp.IsSpine) (hq' : q = delayN sp.entries.length (.obj sp))
    (he : EnvRel defs body k ρ bs) (hs : Clean s) (hq : QOK k ρ q)
    (hN : b = true → 6 * (n+1) ≤ N) (hnd : ND (eval defs (n+1) g ρ q s.v).stop) :
    Rel b (Spec.eval N cfg (.mk bs) (T (.object kvs)) s) (eval defs (n+1) g ρ q s.v) := by
  subst hq'
  by_cases hle : n + 1 ≤ sp.entries.length
  · rw [eval_delayN_small _ _ _ _ _ _ hle] at hnd
    exact absurd hnd (by simp [ND])
  · obtain ⟨j, hj⟩ : ∃ j, n + 1 = (j + 1) + sp.entries.length := ⟨n - sp.entries.length, by omega⟩
    rw [hj, eval_delayN] at hnd ⊢
    have hm : eval defs (j+1) g ρ (.obj sp) s.v = evalEntries (fun q x => eval defs j g ρ q x) s.v sp.entries [] := rfl
    rw [hm] at hnd ⊢
    have hcl : sp.Closed k (ρ.vars.map (·.1)) := ((closed_delayN _ _ _ _).mp hq.closed).1
    have hpar : sp.HasParam → ρ.clo ≠ .none := fun h => hq.par ((hasParam_delayN _ _).mpr h)
    have hent := trEntries_of_spine k ρ sp hspine kvs hsp hcl hpar
    rcases N with _ | _ | _ | M
    · small_fuel hN
    · small_fuel hN
    · small_fuel hN
    · rw [S_T, S_object]
      refine rel_evalObject (.mk bs) s hs _ (6 * j) (QOK k ρ) ?_ ?_ ?_ sp.entries kvs hent M [] s.ctx hs.1
        (fun hb => by have := hN hb; omega) hnd
      · intro M' q' A' s' htr hqok hs' hv hM' hndq
        have := ihle j (by omega) M' b q' A' g ρ k bs s' htr hM' he hs' hqok (by rw [hv]; exact hndq)
        rw [hv] at this
        exact this
      · intro nm s' hs' hv hndq
        obtain ⟨j', rfl⟩ := nd_pos hndq
        have := rel_navStep (defs := defs) (b := b) j' g ρ nm s' hs'
        rw [hv] at this
        exact this
      · intro M' x s' hqok hs' hv hM' hndq
        obtain ⟨j', rfl⟩ := nd_pos hndq
        obtain ⟨w, hw⟩ := lookup_of_mem x ρ.vars hqok.closed
        obtain ⟨id, hid⟩ := he.vars x w hw
        cases M' with
        | zero => exact Rel.fuel (fun hb => by have := hM' hb; have := hN hb; omega) _
        | succ M'' =>
          show Rel b (Spec.evalCall (M''+1) cfg (.mk bs) (vname x) [] s')
            (match MiniVM.lookup x ρ.vars with
              | some w => ⟨[w], .done⟩
              | none => ⟨[], .err (.noVar x)⟩)
          rw [hw]
          have hcall : Spec.evalCall (M''+1) cfg (.mk bs) (vname x) [] s' = .one { v := w, id := id, ctx := s'.ctx } := by
            show (match Spec.lookupCall (vname x) ([] : List Query).length (Spec.Env.mk bs).bs with
              | .var v id => Spec.Res.one { v := v, id := id, ctx := s'.ctx }
              | .clo body cenv => Spec.eval M'' cfg cenv body s'
              | .fn params body fenv _ => Spec.callDef M'' cfg (.mk bs) fenv params body [] s'
              | .none => _) = _
            simp only [List.length_nil, Spec.Env.bs, hid]
          rw [hcall]
          exact Rel.one _ ⟨hs'.1, rfl⟩

end Constructs

/-- the simulation, for every mini fuel -/
theorem tie_all (defs : Name → Q) (body : Nat → Query) (cfg : Spec.Cfg) (hc : NoShadow cfg) :
    ∀ n, Tie defs body cfg n := by
  intro n
  induction n using Nat.strongRecOn with
  | _ n ihs =>
    cases n with
    | zero =>
      intro N b q A g ρ k bs s _ _ _ _ _ hnd
      exact absurd hnd (by simp [eval_zero, ND])
    | succ n =>
      have ih : Tie defs body cfg n := ihs n (Nat.lt_succ_self n)
      have ihle : ∀ m, m ≤ n → Tie defs body cfg m := fun m hm => ihs m (Nat.lt_succ_of_le hm)
      intro N b q A g ρ k bs s htr hN he hs hq hnd
      cases htr with
      | id => exact tie_id hs hN
      | const c h => exact tie_const c hs h hN
      | pipe ha hb => exact tie_pipe ih ha hb he hs hq hN hnd
      | comma ha hb => exact tie_comma ih ha hb he hs hq hN hnd
      | iter => exact tie_iter hs hN
      | empty => exact tie_empty hc he hN
      | arr ha => exact tie_arr ih ha he hs hq hN hnd
      | param => exact tie_param ih he hs hq hN hnd
      | call1 f ha => exact tie_call ih f ha he hs hq hN hnd
      | error => exact tie_error hc he hN
      | try_ ha => exact tie_try ih ha he hs hq hN hnd
      | tryCatch ha hh => exact tie_tryCatch ih ha hh he hs hq hN hnd
      | index nm => exact tie_index nm hs hN
      | ite h1 h2 h3 => exact tie_ite ih h1 h2 h3 he hs hq hN hnd
      | alt h1 h2 => exact tie_alt ih h1 h2 he hs hq hN hnd
      | var x => exact tie_var x he hs hq hN
      | bind x h1 h2 => exact tie_bind ih x h1 h2 he hs hq hN hnd
      | reduce x h1 h2 h3 => exact tie_reduce ih x h1 h2 h3 he hs hq hN hnd
      | «foreach» x h1 h2 h3 h4 => exact tie_foreach ih x h1 h2 h3 h4 he hs hq hN hnd
      | paren h1 => exact tie_paren ih h1 he hs hq hN hnd
      | if1 h1 h2 => exact tie_if1 ih h1 h2 he hs hq hN hnd
      | elif h1 h2 h3 => exact tie_elif ih h1 h2 h3 he hs hq hN hnd
      | and h1 h2 => exact tie_and ihle h1 h2 he hs hq hN hnd
      | or h1 h2 => exact tie_or ihle h1 h2 he hs hq hN hnd
      | foreach2 x h1 h2 h3 => exact tie_foreach2 ih x h1 h2 h3 he hs hq hN hnd
      | sfxIter h1 => exact tie_sfxIter ih h1 he hs hq hN hnd
      | sfxIndex nm h1 => exact tie_sfxIndex ih nm h1 he hs hq hN hnd
      | sfxOpt h1 h2 => exact tie_sfxOpt ih h1 h2 he hs hq hN hnd
      | sfxIterOpt h1 => exact tie_sfxIterOpt ih h1 he hs hq hN hnd
      | sfxIndexOpt nm h1 => exact tie_sfxIndexOpt ih nm h1 he hs hq hN hnd
      | delay h1 => exact tie_delay ih h1 he hs hq hN hnd
      | objStart => exact absurd hnd (by simp [eval, ND])
      | objSnoc _ _ _ => exact absurd hnd (by simp [eval, ND])
      | objSnocC nm _ _ => exact absurd hnd (by simp [eval, ND])
      | objSnocS nm _ _ => exact absurd hnd (by simp [eval, ND])
      | objShort nm _ => exact absurd hnd (by simp [eval, ND])
      | objShortS nm _ => exact absurd hnd (by simp [eval, ND])
      | objVar x _ => exact absurd hnd (by simp [eval, ND])
      | obj h1 h2 _ h4 => exact tie_obj ihle h1 h2 h4 he hs hq hN hnd

end Gojq.MiniSpec

/-
  Helper lemmas for Props/C02Path.lean, part 7: the model of `path(p)` (`evalCall_path`), the
  output-by-output correspondence between `path(p)` and the tracked run of `p`
  (`bindList_pathEmit_get`, `bindList_pathEmit_length`), and the relation of the evaluator`s
  navigation `nav` to `getpath` (`getpath_of_nav`).  Core Lean only.
-/
import Gojq.Proofs.SpecPathInv
import Gojq.Proofs.SpecPathGood
namespace Gojq.C02
open Gojq Gojq.Spec

/-! ### `path(p)` in the model -/

/-- `path(p)` (not shadowed by a user definition, not a jq-defined builtin) evaluates `p` on the
    tracked state `pathStart` and emits the recorded path of every output that is intact -/
theorem evalCall_path (fuel : Nat) (cfg : Cfg) (env : Env) (p : Query) (s : St)
    (h1 : lookupCall "path" 1 env.bs = .none) (h2 : cfg.builtins.find "path" 1 = none) :
    evalCall (fuel+1) cfg env "path" [p] s =
      (eval fuel cfg env p (pathStart fuel s)).bind fun x => pathEmit s x := by
  rw [evalCall_succ]
  simp only [List.length_singleton, h1, h2]
  have : ("path".startsWith "$") = false := by decide +kernel
  simp only [this]
  rfl

/-- an output of `p` that `path(p)` turns into a path -/
def Intact (x : St) : Prop := ∃ c, x.ctx = some c ∧ pathIntact x c = some true

/-- the path `path(p)` emits for the output `x` of `p` -/
def pathOf (x : St) : List JV := match x.ctx with | some c => c.path | none => []

theorem pathEmit_cases (s x : St) :
    (Intact x ∧ pathEmit s x = .one (computed s (.arr (pathOf x)))) ∨
    (¬ Intact x ∧ (pathEmit s x).outs = [] ∧ (pathEmit s x).stop ≠ .done) := by
  unfold pathEmit pathOf Intact
  cases hc : x.ctx with
  | none =>
    refine Or.inr ⟨?_, rfl, ?_⟩
    · rintro ⟨c, h, _⟩; cases h
    · simp [Res.unmodelled]
  | some c =>
    simp only
    cases hi : pathIntact x c with
    | none =>
      refine Or.inr ⟨?_, rfl, ?_⟩
      · rintro ⟨c', h, h'⟩; cases h; rw [hi] at h'; cases h'
      · simp [Res.unmodelled]
    | some b =>
      cases b with
      | true => exact Or.inl ⟨⟨c, rfl, hi⟩, rfl⟩
      | false =>
        refine Or.inr ⟨?_, rfl, ?_⟩
        · rintro ⟨c', h, h'⟩; cases h; rw [hi] at h'; cases h'
        · simp [Res.fail]

theorem pendWrap_one_outs (b : Bool) (y : St) : ∃ y', (pendWrap b (Res.one y)).outs = [y'] ∧ y'.v = y.v ∧ y'.ctx = y.ctx ∧
    (pendWrap b (Res.one y)).stop = .done := by
  cases b with
  | false => exact ⟨y, rfl, rfl, rfl, rfl⟩
  | true => exact ⟨{ y with pend := true }, rfl, rfl, rfl, rfl⟩

theorem pendWrap_fail (b : Bool) (r : Res) (h1 : r.outs = []) (h2 : r.stop ≠ .done) :
    (pendWrap b r).outs = [] ∧ (pendWrap b r).stop ≠ .done := by
  cases b with
  | false => exact ⟨h1, h2⟩
  | true =>
    refine ⟨by simp [pendWrap, h1], ?_⟩
    simp only [pendWrap, if_true]
    cases hs : r.stop with
    | done => exact absurd hs h2
    | err e => simp [pendStop]
    | fuel => simp [pendStop]
    | unmodelled w => simp [pendStop]

/-- ORDER AND CORRESPONDENCE: the `i`-th output of `path(p)` comes from the `i`-th output of
    `p`, which is intact, and is its recorded path (with the context of the caller) -/
theorem bindList_pathEmit_get (s : St) (final : Stop) : ∀ (xs : List St) (i : Nat) (y : St),
    (Res.bindList (pathEmit s) final xs).outs[i]? = some y →
    ∃ x, xs[i]? = some x ∧ Intact x ∧ y.v = .arr (pathOf x) ∧ y.ctx = s.ctx
  | [], i, y, h => by simp [bindList_nil] at h
  | x :: xs, i, y, h => by
    rw [bindList_cons] at h
    rcases pathEmit_cases s x with ⟨hint, he⟩ | ⟨_, he1, he2⟩
    · rw [he] at h
      obtain ⟨y', ho, hv, hc, hst⟩ := pendWrap_one_outs x.pend (computed s (.arr (pathOf x)))
      rw [hst] at h
      simp only [ho] at h
      cases i with
      | zero =>
        simp only [List.cons_append, List.nil_append, List.getElem?_cons_zero, Option.some.injEq] at h
        subst h
        exact ⟨x, rfl, hint, hv, hc⟩
      | succ i =>
        simp only [List.cons_append, List.nil_append, List.getElem?_cons_succ] at h
        obtain ⟨x', hx', h'⟩ := bindList_pathEmit_get s final xs i y h
        exact ⟨x', by simpa using hx', h'⟩
    · obtain ⟨ho, hst⟩ := pendWrap_fail x.pend _ he1 he2
      cases hs : (pendWrap x.pend (pathEmit s x)).stop with
      | done => exact absurd hs hst
      | err e => rw [hs] at h; simp [ho] at h
      | fuel => rw [hs] at h; simp [ho] at h
      | unmodelled w => rw [hs] at h; simp [ho] at h

/-- COMPLETENESS: `path(p)` never has more outputs than `p`; if every output of `p` is intact
    it has exactly as many and ends the way `p` ends -/
theorem bindList_pathEmit_length (s : St) (final : Stop) : ∀ (xs : List St),
    (Res.bindList (pathEmit s) final xs).outs.length ≤ xs.length ∧
    ((∀ x ∈ xs, Intact x) →
      (Res.bindList (pathEmit s) final xs).outs.length = xs.length ∧
      (Res.bindList (pathEmit s) final xs).stop = final) ∧
    ((Res.bindList (pathEmit s) final xs).stop = .done →
      (Res.bindList (pathEmit s) final xs).outs.length = xs.length ∧ final = .done ∧ ∀ x ∈ xs, Intact x)
  | [] => by simp [bindList_nil]
  | x :: xs => by
    obtain ⟨ih1, ih2, ih3⟩ := bindList_pathEmit_length s final xs
    rw [bindList_cons]
    rcases pathEmit_cases s x with ⟨hint, he⟩ | ⟨hnint, he1, he2⟩
    · rw [he]
      obtain ⟨y', ho, _, _, hst⟩ := pendWrap_one_outs x.pend (computed s (.arr (pathOf x)))
      rw [hst]
      simp only [ho, List.cons_append, List.nil_append, List.length_cons]
      refine ⟨by omega, ?_, ?_⟩
      · intro hall
        obtain ⟨h1, h2⟩ := ih2 (fun x' hx' => hall x' (List.mem_cons_of_mem _ hx'))
        exact ⟨by omega, h2⟩
      · intro hd
        obtain ⟨h1, h2, h3⟩ := ih3 hd
        refine ⟨by omega, h2, ?_⟩
        intro x' hx'
        rcases List.mem_cons.mp hx' with rfl | hx'
        · exact hint
        · exact h3 x' hx'
    · obtain ⟨ho, hst⟩ := pendWrap_fail x.pend _ he1 he2
      have hfin : ∀ st, st ≠ Stop.done →
          ([] : List St).length ≤ (x :: xs).length ∧
          ((∀ x' ∈ x :: xs, Intact x') → ([] : List St).length = (x :: xs).length ∧ st = final) ∧
          (st = .done → ([] : List St).length = (x :: xs).length ∧ final = .done ∧ ∀ x' ∈ x :: xs, Intact x') := by
        intro st hne
        refine ⟨by simp, ?_, ?_⟩
        · intro hall
          exact absurd (hall x (List.mem_cons_self ..)) hnint
        · intro hd
          exact absurd hd hne
      cases hs : (pendWrap x.pend (pathEmit s x)).stop with
      | done => exact absurd hs hst
      | err e => simp only [ho]; exact hfin _ (by simp)
      | fuel => simp only [ho]; exact hfin _ (by simp)
      | unmodelled w => simp only [ho]; exact hfin _ (by simp)

/-! ### `nav` and `getpath` -/

/-- no proper prefix of the path leads to a string -/
def NoStringInside (v : JV) (p : List JV) : Prop :=
  ∀ p1 k p2, p = p1 ++ k :: p2 → ∀ b, nav v p1 ≠ .ok (.str b)

theorem funcIndex2_bool (b : Bool) (k : JV) : ∃ e, funcIndex2 (.bool b) k = .error e := by
  cases k with
  | null => exact ⟨_, rfl⟩
  | bool _ => exact ⟨_, rfl⟩
  | num _ => exact ⟨_, rfl⟩
  | str _ => exact ⟨_, rfl⟩
  | arr _ => exact ⟨_, rfl⟩
  | obj kvs =>
    simp only [funcIndex2]
    split
    · exact ⟨_, rfl⟩
    · exact ⟨_, rfl⟩

/-- where no string is indexed, the evaluator's navigation IS `getpath` -/
theorem getpath_of_nav : ∀ (p : List JV) (v w : JV), nav v p = .ok w → NoStringInside v p → getpath v p = .ok w
  | [], v, w, h, _ => by
    simp only [nav_nil, Except.ok.injEq] at h; subst h; rfl
  | k :: rest, v, w, h, hns => by
    have h' := h
    rw [nav_cons] at h'
    cases h1 : funcIndex2 v k with
    | error e => rw [h1] at h'; cases h'
    | ok u =>
      rw [h1] at h'
      have hrest : getpath u rest = .ok w := by
        refine getpath_of_nav rest u w h' ?_
        intro p1 k' p2 hp b hb
        refine hns (k :: p1) k' p2 (by rw [hp]; rfl) b ?_
        rw [nav_cons, h1]; exact hb
      have hcons : ∀ (hv : v = .null ∨ (∃ xs, v = .arr xs) ∨ (∃ kvs, v = .obj kvs)),
          getpath v (k :: rest) = .ok w := by
        intro hv
        unfold getpath at hrest ⊢
        rcases hv with rfl | ⟨xs, rfl⟩ | ⟨kvs, rfl⟩ <;>
          (simp only [List.foldlM_cons, h1]; exact hrest)
      cases v with
      | null => exact hcons (Or.inl rfl)
      | arr xs => exact hcons (Or.inr (Or.inl ⟨xs, rfl⟩))
      | obj kvs => exact hcons (Or.inr (Or.inr ⟨kvs, rfl⟩))
      | str b => exact absurd rfl (hns [] k rest rfl b)
      | num n => obtain ⟨e, he⟩ := funcIndex2_num n k; rw [he] at h1; cases h1
      | bool b => obtain ⟨e, he⟩ := funcIndex2_bool b k; rw [he] at h1; cases h1

/-! ### the world of one `path(p)` call -/

/-- the interpretation used for a `path(p)` call on `s`: every root number stands for `s.v` -/
def worldOf (s : St) : World := ⟨s.v, fun _ => s.v⟩

theorem worldOf_good {s : St} (h : Good s.v) : (worldOf s).Good := ⟨h, fun _ => h⟩

/-- the state `path(p)` starts `p` on satisfies the precondition, when the identity of the input is
    a root identity or not known -/
theorem pathStart_pre (fuel : Nat) (s : St) (hid : ∀ r p, s.id = .known r p → p = []) :
    Pre (worldOf s) (pathStart fuel s) := by
  have hroot : IdOK (worldOf s) s.v (pathStart fuel s).id := by
    intro r p h
    refine ⟨s.v, ?_, SameVal.rfl' _⟩
    have hp : p = [] := by
      unfold pathStart at h
      simp only at h
      split at h
      · rename_i r' p' hs
        simp only [Ident.known.injEq] at h
        rw [← h.2]; exact hid r' p' hs
      · simp only [Ident.known.injEq] at h
        exact h.2.symm
    subst hp
    rfl
  exact ⟨hroot, ⟨s.v, rfl, SameVal.rfl' _⟩, hroot⟩

/-! ### `path(p)` anywhere inside a program -/

mutual
  /-- every `$variable` of the binding (closure environments included) satisfies `P` -/
  inductive BindingAll (P : JV → Ident → Prop) : Binding → Prop
    | var (n : String) (v : JV) (id : Ident) : P v id → BindingAll P (.var n v id)
    | fn (n : String) (ps : List String) (body : Query) (bi : Bool) : BindingAll P (.fn n ps body bi)
    | clo (n : String) (body : Query) (env : Env) : EnvAll P env → BindingAll P (.clo n body env)
    | label (n : String) (id : Nat) : BindingAll P (.label n id)
  inductive EnvAll (P : JV → Ident → Prop) : Env → Prop
    | mk (bs : List Binding) : (∀ b ∈ bs, BindingAll P b) → EnvAll P (.mk bs)
end

mutual
  theorem EnvAll.toOK {P : JV → Ident → Prop} {W : World} (hP : ∀ v id, P v id → IdOK W v id) :
      ∀ (env : Env), EnvAll P env → EnvOK W env
    | .mk bs, h => EnvOK.mk bs (bsAll_toOK hP bs (by cases h; assumption))
  theorem bsAll_toOK {P : JV → Ident → Prop} {W : World} (hP : ∀ v id, P v id → IdOK W v id) :
      ∀ (bs : List Binding), (∀ b ∈ bs, BindingAll P b) → ∀ b ∈ bs, BindingOK W b
    | [], _ => fun b hb => by cases hb
    | b0 :: rest, h => fun b hb => by
      have h0 : BindingOK W b0 := bindingAll_toOK hP b0 (h b0 (List.mem_cons_self ..))
      have hr := bsAll_toOK hP rest (fun b' hb' => h b' (List.mem_cons_of_mem _ hb'))
      rcases List.mem_cons.mp hb with e | hb
      · rw [e]; exact h0
      · exact hr b hb
  theorem bindingAll_toOK {P : JV → Ident → Prop} {W : World} (hP : ∀ v id, P v id → IdOK W v id) :
      ∀ (b : Binding), BindingAll P b → BindingOK W b
    | .var n v id, h => .var n v id (hP v id (by cases h; assumption))
    | .fn n ps body bi, _ => .fn n ps body bi
    | .clo n body env, h => .clo n body env (EnvAll.toOK hP env (by cases h; assumption))
    | .label n id, _ => .label n id
end

/-- the interpretation `W0` with root number `n` re-pointed at `v` and root `v` -/
def World.reroot (W0 : World) (n : Nat) (v : JV) : World :=
  ⟨v, fun r => if r = n then v else W0.ρ r⟩

/-- an identity that does not use root number `n` -/
def AvoidsRoot (n : Nat) (id : Ident) : Prop := ∀ q, id ≠ .known n q

theorem IdOK.reroot {W0 : World} {n : Nat} {u v : JV} {id : Ident} (h : IdOK W0 v id) (ha : AvoidsRoot n id) :
    IdOK (W0.reroot n u) v id := by
  intro r p hid
  obtain ⟨v0, h0, h1⟩ := h r p hid
  refine ⟨v0, ?_, h1⟩
  have : r ≠ n := by
    intro e; subst e; exact ha p hid
  simp only [World.reroot, this, if_false]
  exact h0

theorem World.reroot_good {W0 : World} (hW0 : ∀ r, C02.Good (W0.ρ r)) (n : Nat) {v : JV} (hv : C02.Good v) :
    (W0.reroot n v).Good := by
  refine ⟨hv, fun r => ?_⟩
  simp only [World.reroot]
  split
  · exact hv
  · exact hW0 r

/-- the identity `path` gives its root is truthful in the re-rooted interpretation -/
theorem pathStart_id_reroot {W0 : World} (fuel : Nat) (s : St) (hs : IdOK W0 s.v s.id)
    (ha : AvoidsRoot (fuel+1) s.id) : IdOK (W0.reroot (fuel+1) s.v) s.v (pathStart fuel s).id := by
  unfold pathStart
  simp only
  split
  · rename_i r q hid
    exact (hid ▸ hs.reroot ha : IdOK (W0.reroot (fuel+1) s.v) s.v (.known r q))
  · intro r q h
    simp only [Ident.known.injEq] at h
    obtain ⟨rfl, rfl⟩ := h
    exact ⟨s.v, by simp [World.reroot, nav_nil], SameVal.rfl' _⟩

theorem EnvAll.empty (P : JV → Ident → Prop) : EnvAll P Env.empty := EnvAll.mk [] (fun _ h => by cases h)

/-- every path the update operators enumerate is among the outputs of `path(l)` -/
theorem evalPaths_mem (fuel : Nat) (cfg : Cfg) (env : Env) (l : Query) (s : St) (q : List JV)
    (h : q ∈ (evalPaths (fuel+1) cfg env l s).1) :
    ∃ (i : Nat) (y : St), (evalCall fuel cfg env "path" [l] (withCtx none s)).outs[i]? = some y ∧
      q = (match y.v with | .arr p => p | _ => []) := by
  rw [evalPaths_succ] at h
  simp only at h
  split at h
  · cases h
  · simp only [List.mem_map] at h
    obtain ⟨y, hy, rfl⟩ := h
    obtain ⟨i, hi, hget⟩ := List.getElem_of_mem hy
    exact ⟨i, y, by rw [List.getElem?_eq_getElem hi, hget], rfl⟩

end Gojq.C02

/-
  The printer's output satisfies the adjacency condition, part 10: every Printable query is
  Spaced — by structural recursion over the AST.
-/
import Gojq.Proofs.SpacedCases4
namespace Gojq.RefTerm
open Gojq Gojq.Lexer Gojq.Printer

mutual
  theorem spQ : (q : Query) → SPQ q
    | .term t => sp_term t (spT t)
    | .binop o l r => sp_binop o l r (spQ l) (spQ r)
    | .bind s [] b => fun _ _ _ hok _ => by
      rcases hok with ⟨i, m, h⟩ | h
      · rw [okQ_bind_nil] at h; cases h
      · simp [okOV] at h
    | .bind s (p :: ps) b => sp_bind s p ps b (spQ s) (spP p) (spAltT ps) (spQ b)
    | .def_ fd q => sp_def fd q (spFD fd) (spQ q)
    | .label v b => sp_label v b (spQ b)
  theorem spFD : (fd : FuncDef) → SPFD fd
    | .mk name params body => sp_funcDef name params body (spQ body)
  theorem spT : (t : Term) → SPT t
    | .identity => sp_identity
    | .recurse => sp_recurse
    | .null => sp_null
    | .true_ => sp_true
    | .false_ => sp_false
    | .index i => sp_index i (spSuf i)
    | .func n [] => sp_func0 n
    | .func n (a :: as) => sp_call n a as (spQ a) (spArgsT as)
    | .object [] => sp_objectEmpty
    | .object (kv :: kvs) => sp_object kv kvs (spKV kv) (spKVsT kvs)
    | .arrayEmpty => sp_arrayEmpty
    | .array q => sp_array q (spQ q)
    | .number s => sp_number s
    | .unary neg t => sp_unary neg t (spT t)
    | .format f => sp_format f
    | .formatStr f s => sp_formatStr f s (spS s)
    | .str s => sp_str s (spS s)
    | .if_ c t r => sp_if c t r (spQ c) (spQ t) (spIf r)
    | .try_ b => sp_try b (spQ b)
    | .tryCatch b h => sp_tryCatch b h (spQ b) (spQ h)
    | .reduce s p a u => sp_reduce s p a u (spQ s) (spP p) (spQ a) (spQ u)
    | .foreach s p a u => sp_foreach s p a u (spQ s) (spP p) (spQ a) (spQ u)
    | .foreach3 s p a u e => sp_foreach3 s p a u e (spQ s) (spP p) (spQ a) (spQ u) (spQ e)
    | .break_ v => sp_break v
    | .paren q => sp_paren q (spQ q)
    | .suf t s => sp_suf t s (spT t) (spSuf s)
  theorem spSuf : (s : Suffix) → SPSuf s
    | .name n => sp_sufName n
    | .str s => sp_sufStr s (spS s)
    | .at q => sp_sufAt q (spQ q)
    | .sliceFrom a => sp_sufFrom a (spQ a)
    | .sliceTo b => sp_sufTo b (spQ b)
    | .slice a b => sp_sufSlice a b (spQ a) (spQ b)
    | .iter => sp_sufIter
    | .opt => sp_sufOpt
  theorem spS : (s : Str) → SPS s
    | .lit v => sp_strLit v
    | .interp ps => sp_strI ps (spParts ps)
  theorem spParts : (ps : List Part) → SPParts ps
    | [] => sp_partsNil
    | .lit v :: ps => sp_partsLit v ps (spParts ps)
    | .q q :: ps => sp_partsQ q ps (spQ q) (spParts ps)
  theorem spArgsT : (qs : List Query) → SPArgsT qs
    | [] => sp_argsNil
    | q :: qs => sp_argsCons q qs (spQ q) (spArgsT qs)
  theorem spKV : (kv : KV) → SPKV kv
    | .nameVal n v => sp_kvNameVal n v (spQ v)
    | .strVal s v => sp_kvStrVal s v (spS s) (spQ v)
    | .qVal kq v => sp_kvQVal kq v (spQ kq) (spQ v)
    | .name n => sp_kvName n
    | .str s => sp_kvStr s (spS s)
  theorem spKVsT : (kvs : List KV) → SPKVsT kvs
    | [] => sp_kvsNil
    | kv :: kvs => sp_kvsCons kv kvs (spKV kv) (spKVsT kvs)
  theorem spP : (p : Pattern) → SPP p
    | .var n => sp_patVar n
    | .arr [] => fun _ _ _ hok _ => by simp [okP] at hok
    | .arr (p :: ps) => sp_patArr p ps (spP p) (spPsT ps)
    | .obj [] => fun _ _ _ hok _ => by simp [okP] at hok
    | .obj (kv :: kvs) => sp_patObj kv kvs (spPKV kv) (spPKVsT kvs)
  theorem spPsT : (ps : List Pattern) → SPPsT ps
    | [] => sp_psNil
    | p :: ps => sp_psCons p ps (spP p) (spPsT ps)
  theorem spAltT : (ps : List Pattern) → SPAltT ps
    | [] => sp_altNil
    | p :: ps => sp_altCons p ps (spP p) (spAltT ps)
  theorem spPKV : (kv : PKV) → SPPKV kv
    | .nameVal n p => sp_pkvNameVal n p (spP p)
    | .strVal s p => sp_pkvStrVal s p (spS s) (spP p)
    | .qVal kq p => sp_pkvQVal kq p (spQ kq) (spP p)
    | .name n => sp_pkvName n
  theorem spPKVsT : (kvs : List PKV) → SPPKVsT kvs
    | [] => sp_pkvsNil
    | kv :: kvs => sp_pkvsCons kv kvs (spPKV kv) (spPKVsT kvs)
  theorem spIf : (r : IfRest) → SPIf r
    | .end_ => sp_ifEnd
    | .else_ e => sp_ifElse e (spQ e)
    | .elif_ c t r => sp_ifElif c t r (spQ c) (spQ t) (spIf r)
end

/-- THE PRINTER'S OUTPUT SATISFIES THE ADJACENCY CONDITION: for every query in the image of the
    parser, no two tokens the printer writes next to each other merge, the printer's `soft` space
    separates a `.` from a preceding `.` or digit, and interpolated strings are re-entered where
    they were left -/
theorem spaced_of_printable (q : Query) (h : Printable q = true) : Spaced q = true := by
  unfold Spaced
  rw [← itemsOKF_nil]
  exact spQ q none [] [] (OkQ_of true 1 q h) rfl

end Gojq.RefTerm

/-
  C08 (bytecode checker, layer 2): `scope`.
-/
import Gojq.Proofs.SafeVM2Exec8
set_option linter.unusedSimpArgs false
set_option linter.unusedVariables false
namespace Gojq.SafeVM
open Gojq Gojq.VM

variable {S : SC} {Ct : Cert}

theorem replicate_get_any {n i : Nat} {k : Kind} (h : (List.replicate n Kind.any)[i]? = some k) : k = .any := by
  rw [List.getElem?_replicate] at h
  split at h
  · exact (Option.some.inj h).symm
  · cases h

theorem entry_ks_get {na n : Nat} {k : Kind} (h : (Kind.any :: List.replicate na Kind.clo)[n]? = some k) (hne : k ≠ .any) :
    ∃ m, n = m + 1 ∧ m < na ∧ k = .clo := by
  cases n with
  | zero => simp at h; exact absurd h.symm hne
  | succ m =>
    simp only [List.getElem?_cons_succ, List.getElem?_replicate] at h
    split at h
    · exact ⟨m, rfl, by assumption, (Option.some.inj h).symm⟩
    · cases h

/-- the new frame is pushed on a state (after the `popscope` of a tail call, if any) that satisfies
    the region facts: the claims of the function's entry annotation hold -/
theorem scope_finish (C2 : Checked2 S Ct) {l : L} {e1 : Env} {A1 : AView} (hV1 : View e1 A1) (G1 : GInv S e1)
    (R1 : RegInv S Ct e1) (hF21 : ForksConf2 S Ct e1.scopes.data e1.values A1.forks)
    {id vars nargs : Int} {cp oi : Int} (hvars : 0 ≤ vars) (hlook : S.tab.lookup id = some vars.toNat)
    (hsa : scopeAt S.code l.pc.toNat = some (id, vars.toNat, nargs.toNat)) (h0 : 0 ≤ l.pc)
    (hole : oi ≤ e1.scopes.index) (hvg : Good S Ct e1.scopes.data e1.values (.v id oi))
    (hargs : ∀ n : Nat, n < nargs.toNat → ∃ p, A1.stk[n + 1]? = some p ∧ ∃ m, m ≤ Rg e1.scopes ∧
      Good S Ct e1.scopes.data e1.values (.g .clo p.2 m))
    (hsusp : Susp S Ct e1.scopes.data e1.values cp A1.frames)
    {a2 : Abs2} (ha2 : entryAbs2 S.code l.pc.toNat = some a2)
    (hs2 : SuccOK2 Ct (l.pc + 1, a2)) (hs1 : ∃ i, codeAt S (l.pc + 1) = some i ∧ isScope i = false) :
    Post2 S Ct (.fall, { l with callpc := cp }) (scopeEnv ⟨id, e1.offset, cp, e1.scopes.index, oi⟩ vars e1) := by
  obtain ⟨i, hci, hns⟩ := hs1
  obtain ⟨R3, hsame, hnew, hidx3⟩ := RegInv.scope (sc := ⟨id, e1.offset, cp, e1.scopes.index, oi⟩) hV1 G1 R1 rfl rfl hole
    hvars hlook hvg
  have hV3 := hV1.scope ⟨id, e1.offset, cp, e1.scopes.index, oi⟩ vars
  have hRg := index_le_Rg e1.scopes
  have hfrm := hV1.frames_le
  have hffrm := hV1.fork_frames_le
  have hpidx : (e1.scopes.push ⟨id, e1.offset, cp, e1.scopes.index, oi⟩).index = Rg e1.scopes + 1 := by
    have : (scopeEnv ⟨id, e1.offset, cp, e1.scopes.index, oi⟩ vars e1).scopes = e1.scopes.push ⟨id, e1.offset, cp, e1.scopes.index, oi⟩ :=
      (growEnv_fields _).2.1
    rw [← this]; exact hidx3
  refine ⟨_, hV3, R3, ?_, ?_⟩
  · exact ForksConf2.same hsame (fun f hf p hp => by have := hffrm f hf p hp; omega) hF21
  · refine NMode2.of_succ hs2 rfl hci hns ?_
    unfold entryAbs2 at ha2
    rw [hsa] at ha2
    simp only [Option.map_some, Option.some.injEq] at ha2
    subst ha2
    refine ⟨_, _, A1.frames, rfl, by unfold idOf; rw [hsa]; rfl, ?_, ?_, ?_⟩
    · intro i' k hk hne
      exact absurd (replicate_get_any hk) hne
    · intro n k hk hne
      obtain ⟨m, rfl, hm, rfl⟩ := entry_ks_get hk hne
      obtain ⟨p, hp, mb, hmb, hg⟩ := hargs m hm
      refine ⟨p, hp, ?_⟩
      show Good S Ct _ _ (.g .clo p.2 ((e1.scopes.push ⟨id, e1.offset, cp, e1.scopes.index, oi⟩).index - 1))
      rw [hpidx]
      exact Good.g_mono (Good.same hsame hg (by simp only [J.bnd]; exact hmb)) (by omega)
    · exact Susp.same hsame (fun p hp => by have := hfrm p hp; omega) hsusp

theorem exec2_scope (C : Checked S) (C2 : Checked2 S Ct) {id vars nargs : Int} {x : ExtRec} {l : L} {e : Env}
    (hc : codeAt S l.pc = some (.scope id vars nargs)) (hI1 : Inv S l e) (hI2 : Inv2 S Ct l e) :
    WP2 (exec (.scope id vars nargs) x l) (Post2 S Ct) e := by
  obtain ⟨hb, A, hV, G, hN, R, hF2, hN2⟩ := both_normal hI1 hI2 hc rfl
  obtain ⟨herr, a, succs, ha, hst, hsucc, hpc, hp, hconf⟩ := hN.unpack C hc
  obtain ⟨a2, succs2, idF, nv, na, ha2, hsaF, hlen, hst2, hsucc2, _, hent, hcur⟩ := hN2.unpack C2 hc
  simp only [step1] at hst
  split at hst
  · rename_i hh
    obtain ⟨hvars, hlook⟩ := hh
    simp only [Option.some.injEq] at hst; subst hst; rw [hpc] at hsucc
    simp only [step2, hsaF, Option.some.injEq] at hst2; subst hst2; rw [hpc] at hsucc2
    rw [if_pos (by simp [isScope])] at hconf hcur
    obtain ⟨hE1, hidxlt⟩ := hconf
    obtain ⟨idt, nvt, nat, hsat, hE2⟩ := hcur
    have hr := codeAt_range hc
    -- the scope instruction at this pc
    have hsa : scopeAt S.code l.pc.toNat = some (id, vars.toNat, nargs.toNat) := by
      have hc' := hc
      unfold codeAt at hc'
      rw [if_pos hr.1] at hc'
      unfold scopeAt; rw [hc']
    rw [hsa] at hsat
    simp only [Option.some.injEq, Prod.mk.injEq] at hsat
    obtain ⟨rfl, rfl, rfl⟩ := hsat
    have hea2 := hent (by simp [isScope])
    have hs2' : SuccOK2 Ct (l.pc + 1, a2) := succ1 hsucc2
    -- the outer index the instruction computes
    have hstage2 : ∀ (e1 : Env), e1.scopes.data = e.scopes.data →
        WP2 (if l.index ≥ 0 then
              match e1.scopes.data[l.index.toNat]? with
              | none => VM.panic .scopesData
              | some b => pure (if b.value.id = id then b.value.outerindex else l.index)
            else pure l.index : M Int)
          (fun oi e2 => e2 = e1 ∧ oi = (match blockAt e.scopes.data l.index with | some sc => effOuter sc l.index id | none => l.index)) e1 := by
      intro e1 hd1
      rw [hd1]
      split
      · rename_i h0
        cases hg : e.scopes.data[l.index.toNat]? with
        | none => exact WP2.panic rfl
        | some b =>
          simp only
          apply WP2.pure
          refine ⟨rfl, ?_⟩
          unfold blockAt
          rw [if_pos h0, hg]
          simp only [Option.map_some, effOuter]
      · rename_i h0
        apply WP2.pure
        refine ⟨rfl, ?_⟩
        unfold blockAt
        rw [if_neg h0]
    have hfin : ∀ (e1 : Env) (cp oi : Int) (m : M (Ctl × L)),
        m e1 = .ok (.fall, { l with callpc := cp }) (scopeEnv ⟨id, e1.offset, cp, e1.scopes.index, oi⟩ vars e1) →
        Post2 S Ct (.fall, { l with callpc := cp }) (scopeEnv ⟨id, e1.offset, cp, e1.scopes.index, oi⟩ vars e1) →
        WP2 m (Post2 S Ct) e1 := by
      intro e1 cp oi m hm hP; unfold WP2; rw [hm]; exact hP
    have htail : ∀ (e1 : Env) (cp si oi : Int), si = e1.scopes.index →
        (do modifyEnv fun e => { e with scopes := e.scopes.push ⟨id, e.offset, cp, si, oi⟩, offset := e.offset + vars }
            let e ← getEnv
            if e.offset > e.values.size then
              modifyEnv fun e => { e with values := e.values ++ Array.replicate ((e.offset * 2).toNat - e.values.size) (.jv .null) }
            pure (Ctl.fall, { l with callpc := cp }) : M (Ctl × L)) e1 =
          .ok (.fall, { l with callpc := cp }) (scopeEnv ⟨id, e1.offset, cp, e1.scopes.index, oi⟩ vars e1) := by
      intro e1 cp si oi hsi
      subst hsi
      exact scope_tail_eq _ _ _ _
    simp only [exec]
    apply WP2.step (getEnv_eq _)
    obtain ⟨hfrE, hE1'⟩ := hE1
    rcases hE1' with ⟨hcp0, _, _, _, _⟩ | ⟨hcpm, ⟨i, s, r, hA, hli⟩, _, _⟩
    · -- an ordinary call: the frame is pushed on the current state
      have hsusp : Susp S Ct e.scopes.data e.values l.callpc A.frames := by
        rcases hE2.susp with h | h
        · exact h.2
        · omega
      have hstage1 : (if l.index = e.scopes.index then
            if l.callpc ≥ 0 then pure (l.callpc, l.index) else popscope
          else pure (l.callpc, e.scopes.index) : M (Int × Int)) e = .ok (l.callpc, e.scopes.index) e := by
        by_cases hidx : l.index = e.scopes.index
        · rw [if_pos hidx, if_pos hcp0, hidx]; rfl
        · rw [if_neg hidx]; rfl
      apply WP2.step hstage1
      simp only
      apply WP2.step (getEnv_eq _)
      apply WP2.bind
      refine WP2.mono (hstage2 e rfl) ?_
      rintro oi e2 ⟨rfl, rfl⟩
      refine hfin e2 l.callpc (match blockAt e2.scopes.data l.index with | some sc => effOuter sc l.index id | none => l.index) _ ?_ ?_
      · exact htail e2 l.callpc e2.scopes.index _ rfl
      · refine scope_finish C2 hV G R hF2 hvars hlook hsa hr.1 (hE2.ole.1 hcp0) hE2.outer ?_ hsusp hea2 hs2'
          (succ_code (succ1 hsucc))
        intro n hn
        obtain ⟨p, hp, hg⟩ := hE2.args n hn
        exact ⟨p, hp, e2.scopes.index, (index_le_Rg _).1, hg⟩
    · -- a tail call: the current frame is popped first
      have hs := hV.scopes
      rw [hA] at hs
      obtain ⟨hidx, hi0⟩ := hs.index_cons
      obtain ⟨e1, hpop, hV1, G1, hsi, hd, hvals, hstack, hforks⟩ := popscope_spec hV G hA
      obtain ⟨nx, hpp, _, hget, _⟩ := hs.pop_cons
      have he1 : e1 = { e with scopes := { e.scopes with index := nx },
                               offset := if e.scopes.index > e.scopes.limit then s.offset else e.offset } := by
        unfold VM.popscope at hpop
        rw [hpp] at hpop
        simp only [Res.ok.injEq] at hpop
        exact hpop.2.symm
      have hnxlt : nx < i := by
        cases hs.chain with
        | cons _ hb' hlt _ =>
          rw [hget] at hb'
          simp only [Option.some.injEq, Block.mk.injEq] at hb'
          omega
      have R1 : RegInv S Ct e1 := by rw [he1]; exact R.popscope hV G hA hnxlt
      have hF21 : ForksConf2 S Ct e1.scopes.data e1.values A.forks := by rw [hd, hvals]; exact hF2
      obtain ⟨hna0, hsusp⟩ : nargs.toNat = 0 ∧ Susp S Ct e.scopes.data e.values s.pc r := by
        rcases hE2.susp with h | ⟨_, hna, j', sc', rest', hA', hs'⟩
        · omega
        · rw [hA] at hA'
          simp only [List.cons.injEq, Prod.mk.injEq] at hA'
          obtain ⟨⟨_, rfl⟩, rfl⟩ := hA'
          exact ⟨hna, hs'⟩
      have hstage1 : (if l.index = e.scopes.index then
            if l.callpc ≥ 0 then pure (l.callpc, l.index) else popscope
          else pure (l.callpc, e.scopes.index) : M (Int × Int)) e = .ok (s.pc, s.saveindex) e1 := by
        rw [if_pos (by omega), if_neg (by omega)]; exact hpop
      apply WP2.step hstage1
      simp only
      apply WP2.step (getEnv_eq _)
      apply WP2.bind
      refine WP2.mono (hstage2 e1 hd) ?_
      rintro oi e2 ⟨rfl, rfl⟩
      refine hfin e2 s.pc (match blockAt e.scopes.data l.index with | some sc => effOuter sc l.index id | none => l.index) _ ?_ ?_
      · exact htail e2 s.pc s.saveindex _ hsi.symm
      · refine scope_finish C2 (A1 := { A with frames := r }) hV1 G1 R1 hF21 hvars hlook hsa hr.1 ?_ ?_ ?_ ?_ hea2 hs2'
          (succ_code (succ1 hsucc))
        · rw [hsi]; exact hE2.ole.2 hcpm i s r hA
        · rw [hd, hvals]; exact hE2.outer
        · intro n hn; omega
        · rw [hd, hvals]; exact hsusp
  · simp at hst

end Gojq.SafeVM

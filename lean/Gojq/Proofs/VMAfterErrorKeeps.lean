/-
  What ONE instruction (`exec`, Model/VM.lean) can do to the PROTECTED part of the data stack:
  for every `k ≤ stack.limit`, the blocks in the slots `≤ k` of the array are not written (stack.go
  writes at `max(index, limit) + 1` only), the limit never drops below `k`, and every fork the
  instruction pushes saves a limit `≥ k`.  This is what keeps the label pushed by `opforklabel`
  (and the block it links to) intact for as long as the fork of that `opforklabel` is pending.
  Proved once for all 32 opcodes by the same weakest-precondition calculus as Proofs/VMExec.lean,
  for arbitrary code.
-/
import Gojq.Proofs.VMReentry
set_option linter.unusedSimpArgs false
set_option linter.unusedVariables false
namespace Gojq.VM

/-- relative to `e0`: the data stack is well-formed, its limit is at least `k`, the array only
    grows, the slots `≤ k` hold what they held in `e0`, and the forks pushed since `e0` saved a
    limit `≥ k` -/
def Keeps (k : Int) (e0 e : Env) : Prop :=
  StackWF e.stack ∧ k ≤ e.stack.limit ∧ e0.stack.data.size ≤ e.stack.data.size ∧
  (∀ i : Nat, (i : Int) ≤ k → e.stack.data[i]? = e0.stack.data[i]?) ∧
  ∃ new, e.forks = new ++ e0.forks ∧ ∀ g ∈ new, k ≤ g.stacklimit

theorem Keeps.refl (k : Int) (e : Env) (hw : StackWF e.stack) (hk : k ≤ e.stack.limit) : Keeps k e e :=
  ⟨hw, hk, Nat.le_refl _, fun _ _ => rfl, [], rfl, by simp⟩

/-- `m` keeps `Keeps k` -/
def Kp {α : Type} (k : Int) (m : M α) : Prop :=
  ∀ e0 e, Keeps k e0 e → wp m (fun _ e' => Keeps k e0 e') e

theorem Kp.pure {α : Type} {k : Int} {a : α} : Kp k (pure a : M α) := fun _ _ hr => wp_pure hr

theorem Kp.bind {α β : Type} {k : Int} {m : M α} {f : α → M β}
    (hm : Kp k m) (hf : ∀ a, Kp k (f a)) : Kp k (m >>= f) := by
  intro e0 e hr
  apply wp_bind
  have := hm e0 e hr
  unfold wp at this ⊢
  cases hme : m e with
  | ok a e' => simp only [hme] at this ⊢; exact hf a e0 e' this
  | panic s => trivial
  | stuck w => trivial

theorem Kp.panic {α : Type} {k : Int} {s : Site} : Kp k (panic s : M α) :=
  fun _ _ _ => by simp [wp, VM.panic]

theorem Kp.stuck {α : Type} {k : Int} {w : String} : Kp k (stuck w : M α) :=
  fun _ _ _ => by simp [wp, VM.stuck]

/-- a state transformer that keeps the data stack and the forks -/
theorem Kp.frame {α : Type} {k : Int} {m : M α}
    (h : ∀ e a e', m e = .ok a e' → e'.stack = e.stack ∧ e'.forks = e.forks) : Kp k m := by
  intro e0 e hr
  unfold wp
  cases hme : m e with
  | ok a e' =>
    have := h e a e' hme
    simp only
    obtain ⟨h0, h1, h2, h3, new, h4, h5⟩ := hr
    exact ⟨by rw [this.1]; exact h0, by rw [this.1]; exact h1, by rw [this.1]; exact h2,
      by rw [this.1]; exact h3, new, by rw [this.2]; exact h4, h5⟩
  | panic s => trivial
  | stuck w => trivial

/-- `push` writes above the limit -/
theorem Stack.push_keeps (s : Stack V) (v : V) (hw : StackWF s) :
    (s.push v).limit = s.limit ∧ ∀ i : Nat, (i : Int) ≤ s.limit → (s.push v).data[i]? = s.data[i]? := by
  obtain ⟨h1, h2, h3, h4, h5⟩ := hw
  unfold Stack.push
  simp only
  have hi0 : 0 ≤ max s.index s.limit + 1 := by omega
  split
  · refine ⟨rfl, fun i hi => ?_⟩
    simp only
    rw [Array.getElem?_setIfInBounds]
    have : (max s.index s.limit + 1).toNat ≠ i := by
      intro e
      have : ((max s.index s.limit + 1).toNat : Int) = (i : Int) := by rw [e]
      rw [Int.toNat_of_nonneg hi0] at this
      omega
    simp [this]
  · refine ⟨rfl, fun i hi => ?_⟩
    simp only
    have hlt : i < s.data.size := by omega
    rw [Array.getElem?_push]
    have : i ≠ s.data.size := by omega
    simp [this]

theorem Kp.push {k : Int} (v : V) : Kp k (push v) := by
  intro e0 e hr
  obtain ⟨h0, h1, h2, h3, new, h4, h5⟩ := hr
  have hs := Stack.push_size e.stack v
  obtain ⟨hl, hd⟩ := Stack.push_keeps e.stack v h0
  refine ⟨(Stack.push_wf e.stack v h0).1, ?_, Nat.le_trans h2 hs, ?_, new, h4, h5⟩
  · show k ≤ (e.stack.push v).limit
    rw [hl]; exact h1
  · intro i hi
    show (e.stack.push v).data[i]? = _
    rw [hd i (by omega)]
    exact h3 i hi

theorem Kp.pop {k : Int} : Kp k pop := by
  intro e0 e hr
  obtain ⟨h0, h1, h2, h3, new, h4, h5⟩ := hr
  unfold wp VM.pop
  cases hp : e.stack.pop? with
  | none => simp
  | some p =>
    obtain ⟨v, s'⟩ := p
    obtain ⟨a, b, c⟩ := Stack.pop?_spec _ _ _ hp h0
    simp only
    exact ⟨c, by rw [b]; exact h1, by rw [a]; exact h2, by rw [a]; exact h3, new, h4, h5⟩

theorem Kp.pushfork {k : Int} (pc : Int) : Kp k (pushfork pc) := by
  intro e0 e hr
  obtain ⟨h0, h1, h2, h3, new, h4, h5⟩ := hr
  obtain ⟨f, e', heq, hf1, hf2, hf3, hf4, hf5, hf6, hf7⟩ := pushfork_spec pc e h0
  unfold wp; rw [heq]; simp only
  have hlim : e.stack.limit ≤ e'.stack.limit := by
    simp only [VM.pushfork, modifyEnv] at heq
    simp at heq
    rw [← heq]
    simp only [Stack.save]
    split <;> simp <;> omega
  refine ⟨hf4, by omega, by rw [hf2]; exact h2, by rw [hf2]; exact h3, f :: new, by rw [hf1, h4]; rfl, ?_⟩
  intro g hg
  simp only [List.mem_cons] at hg
  rcases hg with rfl | hg
  · rw [hf7]; exact h1
  · exact h5 g hg

theorem Kp.stackTop {k : Int} : Kp k stackTop := by
  apply Kp.frame; intro e a e' h; unfold VM.stackTop at h; split at h <;> simp_all
theorem Kp.pathsPush {k : Int} (v : V) : Kp k (pathsPush v) := by
  apply Kp.frame; intro e a e' h; simp [VM.pathsPush, modifyEnv] at h; obtain ⟨_, rfl⟩ := h; exact ⟨rfl, rfl⟩
theorem Kp.pathsPop {k : Int} : Kp k pathsPop := by
  apply Kp.frame; intro e a e' h; unfold VM.pathsPop at h; split at h <;> simp at h
  obtain ⟨_, rfl⟩ := h; exact ⟨rfl, rfl⟩
theorem Kp.pathsTop {k : Int} : Kp k pathsTop := by
  apply Kp.frame; intro e a e' h; unfold VM.pathsTop at h; split at h <;> simp_all
theorem Kp.envIndex {k : Int} (a b : Int) : Kp k (envIndex a b) := by
  apply Kp.frame; intro e a e' h; unfold VM.envIndex at h; split at h <;> simp_all
theorem Kp.getValue {k : Int} (i : Int) : Kp k (getValue i) := by
  apply Kp.frame; intro e a e' h; unfold VM.getValue at h
  split at h
  · split at h <;> simp_all
  · simp at h
theorem Kp.setValue {k : Int} (i : Int) (v : V) : Kp k (setValue i v) := by
  apply Kp.frame; intro e a e' h; unfold VM.setValue at h; split at h <;> simp at h
  obtain ⟨_, rfl⟩ := h; exact ⟨rfl, rfl⟩
theorem Kp.popscope {k : Int} : Kp k popscope := by
  apply Kp.frame; intro e a e' h; unfold VM.popscope at h; split at h <;> simp at h
  obtain ⟨_, rfl⟩ := h; exact ⟨rfl, rfl⟩
theorem Kp.extCall {k : Int} (x : ExtRec) : Kp k (extCall x) := by
  apply Kp.frame; intro e a e' h; unfold VM.extCall at h; split at h <;> simp_all
theorem Kp.getEnv {k : Int} : Kp k getEnv := by
  apply Kp.frame; intro e a e' h; simp [VM.getEnv] at h; obtain ⟨_, rfl⟩ := h; exact ⟨rfl, rfl⟩
theorem Kp.tracking {k : Int} : Kp k tracking := by
  apply Kp.frame; intro e a e' h; simp [VM.tracking] at h; obtain ⟨_, rfl⟩ := h; exact ⟨rfl, rfl⟩
theorem Kp.modify {k : Int} (f : Env → Env) (h : ∀ e, (f e).stack = e.stack ∧ (f e).forks = e.forks) :
    Kp k (modifyEnv f) := by
  apply Kp.frame; intro e a e' h'; simp only [modifyEnv] at h'; simp at h'; obtain ⟨_, rfl⟩ := h'; exact h e
theorem Kp.asJV {k : Int} (v : V) : Kp k (asJV v) := by
  unfold VM.asJV; split
  · exact Kp.pure
  · exact Kp.stuck

theorem Kp.pushforkOver {k : Int} (v : V) (pc : Int) : Kp k (pushforkOver v pc) := by
  unfold VM.pushforkOver
  exact Kp.bind (Kp.push v) fun _ => Kp.bind (Kp.pushfork pc) fun _ => Kp.bind Kp.pop fun _ => Kp.pure

macro "kp_prim" : tactic => `(tactic| first
  | exact Kp.push _ | exact Kp.pop | exact Kp.stackTop | exact Kp.pathsPush _ | exact Kp.pathsPop
  | exact Kp.pathsTop | exact Kp.envIndex _ _ | exact Kp.getValue _ | exact Kp.setValue _ _
  | exact Kp.popscope | exact Kp.extCall _ | exact Kp.getEnv | exact Kp.tracking | exact Kp.asJV _
  | exact Kp.panic | exact Kp.stuck | exact Kp.pure
  | exact Kp.pushfork _ | exact Kp.pushforkOver _ _
  | (apply Kp.modify; intro e; exact ⟨rfl, rfl⟩))

macro "kp_steps" : tactic => `(tactic| repeat' (first
  | kp_prim
  | refine Kp.bind ?_ (fun _ => ?_)
  | split))

theorem Kp.pathIntact {k : Int} (x : ExtRec) : Kp k (pathIntact x) := by
  unfold VM.pathIntact
  kp_steps

theorem Kp.objectLoop {k : Int} (x : ExtRec) : ∀ (n : Nat) (m : List (Bytes × JV)), Kp k (objectLoop x n m) := by
  intro n
  induction n with
  | zero => intro m; unfold VM.objectLoop; exact Kp.pure
  | succ n ih =>
    intro m
    unfold VM.objectLoop
    apply Kp.bind Kp.pop; intro v
    apply Kp.bind Kp.pop; intro key
    split
    · apply Kp.bind (Kp.asJV _); intro j
      exact ih _
    · exact Kp.pure

theorem Kp.popArgs {k : Int} : ∀ (n : Nat), Kp k (popArgs n) := by
  intro n
  induction n with
  | zero => unfold VM.popArgs; exact Kp.pure
  | succ n ih =>
    unfold VM.popArgs
    apply Kp.bind Kp.pop; intro a
    apply Kp.bind ih; intro r
    exact Kp.pure

theorem Kp.poppathsLoop {k : Int} : ∀ (n : Nat) (acc : List JV), Kp k (poppathsLoop n acc) := by
  intro n
  induction n with
  | zero => intro acc; unfold VM.poppathsLoop; exact Kp.stuck
  | succ n ih =>
    intro acc
    unfold VM.poppathsLoop
    apply Kp.bind Kp.pathsPop; intro p
    split
    · exact Kp.pure
    · apply Kp.bind (Kp.asJV _); intro j
      exact ih _
    · exact Kp.panic

theorem Kp.poppaths {k : Int} : Kp k poppaths := by
  intro e0 e hr
  exact Kp.poppathsLoop _ _ e0 e hr

theorem Kp.pushPaths {k : Int} (w : V) : ∀ (ps : List JV), Kp k (pushPaths w ps) := by
  intro ps
  induction ps with
  | nil => unfold VM.pushPaths; exact Kp.pure
  | cons p ps ih =>
    unfold VM.pushPaths
    apply Kp.bind (Kp.pathsPush _); intro _
    exact ih

macro "kp_exec" : tactic => `(tactic| repeat' (first
  | kp_prim
  | exact Kp.pathIntact _ | exact Kp.objectLoop _ _ _ | exact Kp.popArgs _ | exact Kp.poppaths
  | exact Kp.pushPaths _ _
  | refine Kp.bind ?_ (fun _ => ?_)
  | split))

set_option maxHeartbeats 1000000 in
theorem exec_keeps_a (k : Int) (ins : Instr) (x : ExtRec) (l : L)
    (h : match ins with
      | .nop | .push _ | .pop | .dup | .const _ | .load _ _ | .store _ _ | .object _ | .append _ _
      | .fork _ | .forktrybegin _ | .forktryend | .forkalt _ | .forklabel _ _ | .backtrack | .jump _ => True
      | _ => False) : Kp k (exec ins x l) := by
  cases ins <;> first
    | exact h.elim
    | (simp only [exec]; kp_exec)

set_option maxHeartbeats 1000000 in
theorem exec_keeps_b (k : Int) (ins : Instr) (x : ExtRec) (l : L)
    (h : match ins with
      | .jumpifnot _ | .index _ | .indexarray _ | .call _ | .callrec _ | .pushpc _ | .callpc
      | .scope _ _ _ | .ret | .expbegin | .expend | .pathbegin | .pathend | .bad => True
      | _ => False) : Kp k (exec ins x l) := by
  cases ins <;> first
    | exact h.elim
    | (simp only [exec, exec.execIndex]; kp_exec)

set_option maxHeartbeats 2000000 in
theorem exec_keeps_callNative (k : Int) (kd : NativeKind) (n : Int) (x : ExtRec) (l : L) :
    Kp k (exec (.callNative kd n) x l) := by
  simp only [exec]
  kp_exec

set_option maxHeartbeats 2000000 in
theorem exec_keeps_iter (k : Int) (x : ExtRec) (l : L) : Kp k (exec .iter x l) := by
  simp only [exec, iterEmit, iterInvalid, pathBroken]
  kp_exec

/-- every opcode keeps the protected part of the data stack -/
theorem exec_keeps (k : Int) (ins : Instr) (x : ExtRec) (l : L) : Kp k (exec ins x l) := by
  cases ins with
  | callNative kd n => exact exec_keeps_callNative k kd n x l
  | iter => exact exec_keeps_iter k x l
  | nop | push _ | pop | dup | const _ | load _ _ | store _ _ | object _ | append _ _
  | fork _ | forktrybegin _ | forktryend | forkalt _ | forklabel _ _ | backtrack | jump _ =>
    exact exec_keeps_a k _ x l trivial
  | jumpifnot _ | index _ | indexarray _ | call _ | callrec _ | pushpc _ | callpc
  | scope _ _ _ | ret | expbegin | expend | pathbegin | pathend | bad =>
    exact exec_keeps_b k _ x l trivial

theorem exec_keeps_ok (k : Int) (ins : Instr) (x : ExtRec) (l : L) (e : Env) (r : Ctl × L) (e' : Env)
    (hw : StackWF e.stack) (hk : k ≤ e.stack.limit) (h : exec ins x l e = .ok r e') : Keeps k e e' := by
  have := exec_keeps k ins x l e e (Keeps.refl k e hw hk)
  unfold wp at this
  rw [h] at this
  exact this

end Gojq.VM

/-
  Helper lemmas, part 5: `_modify` in full — update steps, `empty` steps (the path is collected) and the
  final `_delpaths` — refines the defining reduction on values (C02 item 4).
  Core Lean only.
-/
import Gojq.Proofs.HeapDel
namespace Gojq.Heap
open Gojq

/-! ### well-formedness (strictly increasing keys) is preserved by `getpath` / `setpath` -/

theorem wfList_iff (xs : List JV) : JV.wfList xs = true ↔ ∀ x ∈ xs, JV.wf x = true := by
  induction xs with
  | nil => simp [JV.wfList]
  | cons y ys ih => simp [JV.wfList, ih]

theorem wfKvs_iff (kvs : List (Bytes × JV)) : JV.wfKvs kvs = true ↔ ∀ y ∈ kvs, JV.wf y.2 = true := by
  induction kvs with
  | nil => simp [JV.wfKvs]
  | cons z zs ih => obtain ⟨k, x⟩ := z; simp [JV.wfKvs, ih]

theorem sorted_cons_iff (k : Bytes) (x : JV) (rest : List (Bytes × JV)) :
    kvSorted ((k, x) :: rest) = true ↔ (∀ y ∈ rest, Bytes.cmp k y.1 = .lt) ∧ kvSorted rest = true := by
  constructor
  · intro h; exact ⟨sorted_head_lt k x rest h, sorted_tail k x rest h⟩
  · intro ⟨h1, h2⟩
    cases rest with
    | nil => rfl
    | cons z zs =>
      obtain ⟨k', x'⟩ := z
      simp only [kvSorted, Bool.and_eq_true, Bytes.lt, beq_iff_eq]
      exact ⟨h1 (k', x') (by simp), h2⟩

theorem mem_kvInsert (k : Bytes) (u : JV) : ∀ (kvs : List (Bytes × JV)) (y : Bytes × JV),
    y ∈ kvInsert k u kvs → y = (k, u) ∨ y ∈ kvs
  | [], y, h => by simp only [kvInsert, List.mem_singleton] at h; exact Or.inl h
  | (k', v') :: rest, y, h => by
    simp only [kvInsert] at h
    cases hc : Bytes.cmp k k' with
    | lt =>
      simp only [hc, List.mem_cons] at h
      rcases h with h | h | h
      · exact Or.inl h
      · exact Or.inr (by simp [h])
      · exact Or.inr (by simp [h])
    | eq =>
      simp only [hc, List.mem_cons] at h
      rcases h with h | h
      · exact Or.inl h
      · exact Or.inr (by simp [h])
    | gt =>
      simp only [hc, List.mem_cons] at h
      rcases h with h | h
      · exact Or.inr (by simp [h])
      · rcases mem_kvInsert k u rest y h with h' | h'
        · exact Or.inl h'
        · exact Or.inr (by simp [h'])

theorem kvInsert_sorted (k : Bytes) (u : JV) : ∀ kvs : List (Bytes × JV), kvSorted kvs = true →
    kvSorted (kvInsert k u kvs) = true
  | [], _ => rfl
  | (k', v') :: rest, hs => by
    obtain ⟨h1, h2⟩ := (sorted_cons_iff k' v' rest).mp hs
    simp only [kvInsert]
    cases hc : Bytes.cmp k k' with
    | lt =>
      simp only []
      rw [sorted_cons_iff]
      refine ⟨?_, hs⟩
      intro y hy
      rcases List.mem_cons.mp hy with rfl | hy
      · exact hc
      · exact cmp_lt_trans _ _ _ hc (h1 y hy)
    | eq =>
      simp only []
      rw [cmp_eq _ _ hc, sorted_cons_iff]
      exact ⟨h1, h2⟩
    | gt =>
      simp only []
      rw [sorted_cons_iff]
      refine ⟨?_, kvInsert_sorted k u rest h2⟩
      intro y hy
      rcases mem_kvInsert k u rest y hy with rfl | hy
      · exact cmp_lt_of_gt _ _ hc
      · exact h1 y hy

theorem kvFind_mem (k : Bytes) : ∀ (kvs : List (Bytes × JV)) (x : JV), kvFind k kvs = some x → ∃ k', (k', x) ∈ kvs
  | [], _, h => by simp [kvFind] at h
  | (k', v') :: rest, x, h => by
    simp only [kvFind] at h
    cases hc : Bytes.cmp k k' with
    | lt => simp [hc] at h
    | eq => simp only [hc, Option.some.injEq] at h; exact ⟨k', by simp [h]⟩
    | gt =>
      simp only [hc] at h
      obtain ⟨k'', hm⟩ := kvFind_mem k rest x h
      exact ⟨k'', by simp [hm]⟩

theorem wf_null : JV.wf .null = true := rfl

theorem wf_child_obj {kvs : List (Bytes × JV)} (h : JV.wf (.obj kvs) = true) (k : Bytes) :
    JV.wf ((kvFind k kvs).getD .null) = true := by
  cases hf : kvFind k kvs with
  | none => rfl
  | some x =>
    obtain ⟨k', hm⟩ := kvFind_mem k kvs x hf
    exact (wf_obj h).2 (k', x) hm

theorem wf_child_arr {xs : List JV} (h : JV.wf (.arr xs) = true) (j : Nat) : JV.wf (xs.getD j .null) = true := by
  simp only [List.getD]
  cases hx : xs[j]? with
  | none => rfl
  | some x => exact wf_arr h x (List.mem_of_getElem? hx)

theorem getpath_wf : ∀ (p : Path) (v x : JV), JV.wf v = true → getpath p v = some x → JV.wf x = true := by
  intro p
  induction p with
  | nil => intro v x hw h; simp only [getpath, Option.some.injEq] at h; subst h; exact hw
  | cons e p ih =>
    intro v x hw h
    cases e with
    | key k =>
      cases v with
      | null => exact ih _ x wf_null (by simpa [getpath] using h)
      | obj kvs => exact ih _ x (wf_child_obj hw k) (by simpa [getpath] using h)
      | bool _ => simp [getpath] at h
      | num _ => simp [getpath] at h
      | str _ => simp [getpath] at h
      | arr _ => simp [getpath] at h
    | idx i =>
      cases v with
      | null => exact ih _ x wf_null (by simpa [getpath] using h)
      | arr xs =>
        simp only [getpath] at h
        split at h
        · exact ih _ x (wf_child_arr hw _) h
        · exact ih _ x wf_null h
      | bool _ => simp [getpath] at h
      | num _ => simp [getpath] at h
      | str _ => simp [getpath] at h
      | obj _ => simp [getpath] at h

theorem setpath_wf : ∀ (p : Path) (v n w : JV), JV.wf v = true → JV.wf n = true → setpath p v n = some w →
    JV.wf w = true := by
  intro p
  induction p with
  | nil => intro v n w _ hn h; simp only [setpath, Option.some.injEq] at h; subst h; exact hn
  | cons e p ih =>
    intro v n w hw hn h
    cases e with
    | key k =>
      cases v with
      | null =>
        simp only [setpath, Option.map_eq_some_iff] at h
        obtain ⟨u, hu, rfl⟩ := h
        have := ih _ n u wf_null hn hu
        simp [JV.wf, kvSorted, JV.wfKvs, this]
      | obj kvs =>
        simp only [setpath, Option.map_eq_some_iff] at h
        obtain ⟨u, hu, rfl⟩ := h
        have hu' := ih _ n u (wf_child_obj hw k) hn hu
        obtain ⟨hs, hk⟩ := wf_obj hw
        simp only [JV.wf, Bool.and_eq_true]
        refine ⟨kvInsert_sorted k u kvs hs, (wfKvs_iff _).mpr ?_⟩
        intro y hy
        rcases mem_kvInsert k u kvs y hy with rfl | hy
        · exact hu'
        · exact hk y hy
      | bool _ => simp [setpath] at h
      | num _ => simp [setpath] at h
      | str _ => simp [setpath] at h
      | arr _ => simp [setpath] at h
    | idx i =>
      cases v with
      | null =>
        simp only [setpath] at h
        split at h
        · split at h
          · cases h
          · simp only [Option.map_eq_some_iff] at h
            obtain ⟨u, hu, rfl⟩ := h
            have hu' := ih _ n u wf_null hn hu
            simp only [JV.wf]
            rw [wfList_iff]
            intro x hx
            simp only [List.mem_append, List.mem_replicate, List.mem_singleton] at hx
            rcases hx with hx | rfl
            · rw [hx.2]; rfl
            · exact hu'
        · cases h
      | arr xs =>
        simp only [setpath] at h
        split at h
        · cases h
        · simp only [Option.map_eq_some_iff] at h
          obtain ⟨u, hu, rfl⟩ := h
          have hu' := ih _ n u (wf_child_arr hw _) hn hu
          simp only [JV.wf]
          rw [wfList_iff]
          intro x hx
          rcases List.mem_or_eq_of_mem_set hx with hx | rfl
          · exact wf_arr hw x hx
          · exact hu'
        · split at h
          · cases h
          · simp only [Option.map_eq_some_iff] at h
            obtain ⟨u, hu, rfl⟩ := h
            have hu' := ih _ n u wf_null hn hu
            simp only [JV.wf]
            rw [wfList_iff]
            intro x hx
            simp only [List.mem_append, List.mem_replicate, List.mem_singleton] at hx
            rcases hx with (hx | hx) | rfl
            · exact wf_arr hw x hx
            · rw [hx.2]; rfl
            · exact hu'
      | bool _ => simp [setpath] at h
      | num _ => simp [setpath] at h
      | str _ => simp [setpath] at h
      | obj _ => simp [setpath] at h

/-! ### placeholders never enter a value through `update` -/

theorem holeFreeK_iff (ks : Kids) : holeFreeK ks ↔ ∀ x ∈ ks, holeFree x.2 := by
  induction ks with
  | nil => simp [holeFreeK]
  | cons y ys ih => obtain ⟨k, t⟩ := y; simp [holeFreeK, ih]

theorem holeFree_null : holeFree T.null := trivial

theorem enter_holeFree (e : PE) (v : T) (cell o fo) (h : enter e v = some (cell, o, fo)) (hv : holeFree v) :
    holeFree fo.child ∧ holeFreeK fo.pre ∧ holeFreeK fo.post := by
  have key : ∀ t, (t = fo.child ∨ (∃ x ∈ fo.pre ++ fo.post, x.2 = t)) → holeFree t := by
    intro t htm
    rcases (enter_mem e v cell o fo h).2 t htm with rfl | ⟨id, o', c, ks, rfl, x, hx, rfl⟩
    · exact holeFree_null
    · simp only [holeFree] at hv
      exact (holeFreeK_iff ks).mp hv x hx
  refine ⟨key _ (Or.inl rfl), (holeFreeK_iff _).mpr ?_, (holeFreeK_iff _).mpr ?_⟩
  · exact fun x hx => key _ (Or.inr ⟨x, by simp [hx], rfl⟩)
  · exact fun x hx => key _ (Or.inr ⟨x, by simp [hx], rfl⟩)

theorem upd_holeFree : ∀ (p : Path) (v n : T) (A : List Nat) (f : Nat) r,
    upd A f p v n = some r → holeFree v → holeFree n → holeFree r.1 := by
  intro p
  induction p with
  | nil => intro v n A f r h _ hn; simp only [upd, Option.some.injEq] at h; subst h; exact hn
  | cons e p ih =>
    intro v n A f r h hv hn
    obtain ⟨v', A', f', log⟩ := r
    obtain ⟨cell, o, fo, u, A1, f1, log1, he, hu, hcase⟩ := upd_step A f e p v n v' A' f' log h
    obtain ⟨hc, hpre, hpost⟩ := enter_holeFree e v cell o fo he hv
    have hu' := ih fo.child n A f _ hu hc hn
    have hk : holeFreeK (fo.pre ++ (fo.key, u) :: fo.post) := by
      rw [holeFreeK_append]; simp only [holeFreeK]; exact ⟨hpre, hu', hpost⟩
    rcases hcase with ⟨id, c, _, _, rfl, _, _, _⟩ | ⟨c', A2, rfl, _, _, _, _⟩ <;> exact hk

theorem getp_holeFree : ∀ (p : Path) (v x : T), getp p v = some x → holeFree v → holeFree x := by
  intro p
  induction p with
  | nil => intro v x h hv; simp only [getp, Option.some.injEq] at h; subst h; exact hv
  | cons e p ih =>
    intro v x h hv
    obtain ⟨ch, hch, hcase⟩ := getp_step e p v x h
    rcases hcase with rfl | ⟨id, o, c, pre, k, post, rfl⟩
    · exact ih _ x hch holeFree_null
    · simp only [holeFree] at hv
      rw [holeFreeK_append] at hv
      simp only [holeFreeK] at hv
      exact ih _ x hch hv.2.1

/-! ### the full reduction -/

/-- label discipline of an update query that may be `empty` -/
def QOK' (q : T → Nat → Option (T × Nat)) : Prop :=
  ∀ x f n f1, q x f = some (n, f1) →
    f ≤ f1 ∧ (∀ j ∈ n.ids, j ∈ x.ids ∨ (f ≤ j ∧ j < f1)) ∧ (holeFree x → holeFree n)

/-- the total query used to reuse the lemmas about `modifyStep` -/
def totalise (q : T → Nat → Option (T × Nat)) : T → Nat → T × Nat := fun x f => (q x f).getD (x, f)

theorem totalise_ok (q : T → Nat → Option (T × Nat)) (hq : QOK' q) : QOK (totalise q) := by
  intro x f
  simp only [totalise]
  cases h : q x f with
  | none => exact ⟨Nat.le_refl _, fun j hj => Or.inl hj⟩
  | some r => obtain ⟨n, f1⟩ := r; exact ⟨(hq x f n f1 h).1, (hq x f n f1 h).2.1⟩

theorem modifyFullAux_sound (q : T → Nat → Option (T × Nat)) (qv : JV → Option JV) (hq : QOK' q)
    (habs : ∀ x f, (q x f).map (fun r => abs r.1) = qv (abs x))
    (hqwf : ∀ y z, JV.wf y = true → qv y = some z → JV.wf z = true) :
    ∀ (ps : List Path) (v : T) (A : List Nat) (f : Nat) (d : List Path) r,
      Inv A f v → holeFree v → JV.wf (abs v) = true → modifyFullAux q ps (v, A, f) d = some r →
      modifyVAux qv ps (abs v) d = some (abs r.1.1, r.2) ∧ Inv r.1.2.1 r.1.2.2 r.1.1 ∧ holeFree r.1.1 ∧
        JV.wf (abs r.1.1) = true := by
  intro ps
  induction ps with
  | nil =>
    intro v A f d r inv hf hw h
    simp only [modifyFullAux, Option.some.injEq] at h
    subst h
    exact ⟨rfl, inv, hf, hw⟩
  | cons p ps ih =>
    intro v A f d r inv hf hw h
    simp only [modifyFullAux, getpRelease] at h
    cases hx : getp p v with
    | none => simp [hx] at h
    | some x =>
      simp only [hx, Option.map_some] at h
      have hxa := getp_abs p v x hx
      have hxw : JV.wf (abs x) = true := getpath_wf p _ _ hw hxa
      have hxf : holeFree x := getp_holeFree p v x hx hf
      have hab := habs x f
      cases hqx : q x f with
      | none =>
        simp only [hqx] at h
        rw [hqx] at hab
        simp only [Option.map_none] at hab
        -- only `release` happened
        have hxc := getp_count p v x hx
        have inv' : Inv (release A x) f v :=
          ⟨fun a ha => inv.uniq a (release_sub x A a ha), release_tc A p v x hx inv.top inv.uniq, inv.hv,
           fun a ha => inv.hA a (release_sub x A a ha)⟩
        obtain ⟨g1, g2⟩ := ih v (release A x) f (d ++ [p]) r inv' hf hw h
        refine ⟨?_, g2⟩
        simp only [modifyVAux, hxa, ← hab]
        exact g1
      | some nf =>
        obtain ⟨n, f1⟩ := nf
        simp only [hqx] at h
        rw [hqx] at hab
        simp only [Option.map_some] at hab
        cases hu : upd (release A x) f1 p v n with
        | none => simp [hu] at h
        | some r1 =>
          obtain ⟨v', A', f', log⟩ := r1
          simp only [hu] at h
          have hstep : modifyStep (totalise q) (v, A, f) p = some (v', A', f', log) := by
            simp only [modifyStep, getpRelease, hx, Option.map_some, totalise, hqx, Option.getD_some]
            exact hu
          obtain ⟨inv', hcons, _, x', hx', hset⟩ :=
            modifyStep_sound (totalise q) (totalise_ok q hq) v A f p v' A' f' log hstep inv
          rw [hx] at hx'
          simp only [Option.some.injEq] at hx'
          subst hx'
          simp only [totalise, hqx, Option.getD_some] at hset
          rw [applyLog_id log v' hcons] at h
          have hnf : holeFree n := (hq x f n f1 hqx).2.2 hxf
          have hv'f : holeFree v' := upd_holeFree p v n _ _ _ hu hf hnf
          have hnw : JV.wf (abs n) = true := hqwf _ _ hxw hab.symm
          have hv'w : JV.wf (abs v') = true := setpath_wf p _ _ _ hw hnw hset
          obtain ⟨g1, g2⟩ := ih v' A' f' d r inv' hv'f hv'w h
          refine ⟨?_, g2⟩
          simp only [modifyVAux, hxa, ← hab, hset]
          exact g1

/-- **`_modify` in full refines its defining reduction** on key/index paths -/
theorem modifyFull_sound (q : T → Nat → Option (T × Nat)) (qv : JV → Option JV) (hq : QOK' q)
    (habs : ∀ x f, (q x f).map (fun r => abs r.1) = qv (abs x))
    (hqwf : ∀ y z, JV.wf y = true → qv y = some z → JV.wf z = true)
    (ps : List Path) (v : T) (f : Nat) (hv : ∀ j ∈ v.ids, j < f) (hf : holeFree v) (hw : JV.wf (abs v) = true)
    (r : T) (h : modifyFull q ps v f = some r) : modifyVFull qv ps (abs v) = some (abs r) := by
  simp only [modifyFull] at h
  split at h
  · cases h
  · rename_i v' A' f' d haux
    obtain ⟨g1, _, g3, g4⟩ := modifyFullAux_sound q qv hq habs hqwf ps v [] f [] _ (inv_empty v f hv) hf hw haux
    simp only [Option.map_eq_some_iff] at h
    obtain ⟨r', hr', rfl⟩ := h
    simp only [modifyVFull, g1, Option.map_some, Option.some.injEq]
    exact (delpathsT_abs A' f' d v' r' g3 g4 hr').symm

end Gojq.Heap

/-
  The whole peephole pass (`optV`, Model/OptVM.lean) as a composition of single rewrites: each
  iteration of its backward loop is the identity, a pair rewrite, a jump-to-next rewrite or a jump
  threading, applied to the CURRENT code; an invariant of the loop (`CodeInv`) provides the side
  conditions of each rewrite from three checkable conditions on the ORIGINAL code (`WellFormed`)
  and from the `targets` table the pass computes.
-/
import Gojq.Proofs.OptSimRefines
set_option linter.unusedSimpArgs false
set_option linter.unusedVariables false
namespace Gojq.OptVM
open Gojq Gojq.VM

/-! ## what one iteration can do -/

theorem stepV_cases {T : Array Bool} {a a' : Array Instr} {i : Nat} (h : stepV T a i = some a') :
    a' = a ∨
    (∃ x b b', a[i]? = some x ∧ isPushLike x = true ∧ T.getD (i + 1) false = false ∧
      a[i + 1]? = some b ∧ PairSecond b b' ∧ a' = (a.set! i .nop).set! (i + 1) b') ∨
    (∃ j, a[i]? = some j ∧ jumpTgt j = some ((i : Int) + 1) ∧ a' = a.set! i .nop) ∨
    (∃ j t u, a[i]? = some j ∧ jumpTgt j = some t ∧ 0 ≤ t ∧ a[t.toNat]? = some (.jump u) ∧
      a' = a.set! i (retarget j u)) := by
  unfold stepV at h
  cases hai : a[i]? with
  | none => simp [hai] at h
  | some x =>
    simp only [hai] at h
    by_cases hpl : isPushLike x = true
    · simp only [hpl, if_true] at h
      cases hT : T.getD (i + 1) false with
      | true => simp [hT] at h; exact .inl h.symm
      | false =>
        simp only [hT, Bool.false_eq_true, if_false] at h
        cases hb : a[i + 1]? with
        | none => simp [hb] at h
        | some b =>
          simp only [hb] at h
          cases b <;> dsimp only at h <;> (have h := Option.some.inj h) <;> first
            | exact .inl h.symm
            | exact .inr (.inl ⟨x, _, _, rfl, hpl, rfl, rfl, .inl ⟨rfl, rfl⟩, h.symm⟩)
            | exact .inr (.inl ⟨x, _, _, rfl, hpl, rfl, rfl, .inr ⟨_, rfl, rfl⟩, h.symm⟩)
    · simp only [hpl, Bool.false_eq_true, if_false] at h
      cases hj : jumpTgt x with
      | none => simp [hj] at h; exact .inl h.symm
      | some t =>
        simp only [hj] at h
        by_cases hnext : t - 1 = (i : Int)
        · have hbq : (t - 1 == (i : Int)) = true := by simp [hnext]
          simp only [hbq, if_true] at h
          have h := Option.some.inj h
          exact .inr (.inr (.inl ⟨x, rfl, (by rw [hj]; congr 1; omega), h.symm⟩))
        · have : (t - 1 == (i : Int)) = false := by simp [hnext]
          simp only [this, Bool.false_eq_true, if_false] at h
          by_cases hneg : t < 0
          · simp [hneg] at h
          · simp only [hneg, if_false] at h
            cases ht : a[t.toNat]? with
            | none => simp [ht] at h
            | some y =>
              simp only [ht] at h
              cases y <;> dsimp only at h <;> (have h := Option.some.inj h) <;> first
                | exact .inl h.symm
                | exact .inr (.inr (.inr ⟨x, t, _, rfl, hj, (by omega), ht, h.symm⟩))

/-! ## conditions on the original code, and the loop invariant -/

/-- three conditions on the code BEFORE the pass, each a static scan:
    every `call` / `callrec` / `pushpc` operand is the pc of a `scope` instruction (a function
    entry); the last instruction is `ret`; no `jumpifnot` targets its own successor -/
structure WellFormed (c : Array Instr) : Prop where
  calls : ∀ (pc : Nat) (ins : Instr) (t : Int), c[pc]? = some ins → callTarget ins = some t →
    0 ≤ t ∧ ∃ sc, c[t.toNat]? = some sc ∧ isScope sc = true
  last : ∃ n, c.size = n + 1 ∧ c[n]? = some .ret
  nojn : ∀ (i : Nat) (t : Int), c[i]? = some (.jumpifnot t) → t ≠ (i : Int) + 1

/-- the table marks every in-range operand of a jump / fork instruction of `a` -/
def Marks (T : Array Bool) (size : Nat) (a : Array Instr) : Prop :=
  ∀ (pc : Nat) (ins : Instr) (t : Int), a[pc]? = some ins → targetOf ins = some t → 0 ≤ t → t ≤ size →
    T.getD t.toNat false = true

/-- invariant of the backward loop; positions below `m` have not been visited -/
structure CodeInv (T : Array Bool) (c a : Array Instr) (m : Nat) : Prop where
  size : a.size = c.size
  orig : ∀ k, k < m → a[k]? = c[k]?
  tg : Marks T c.size a
  calls : ∀ (pc : Nat) (ins : Instr) (t : Int), a[pc]? = some ins → callTarget ins = some t →
    0 ≤ t ∧ ∃ sc, a[t.toNat]? = some sc ∧ isScope sc = true
  last : ∃ n, c.size = n + 1 ∧ a[n]? = some .ret

theorem getElem?_set! (a : Array Instr) (k p : Nat) (y : Instr) :
    (a.set! k y)[p]? = if k = p ∧ k < a.size then some y else a[p]? := by
  rw [Array.set!_eq_setIfInBounds, Array.getElem?_setIfInBounds]
  by_cases h : k = p
  · subst h
    by_cases h2 : k < a.size
    · simp [h2]
    · simp [h2]
  · simp [h]

/-- overwriting one visited position `k` (holding `x`, neither a function entry nor `ret`) with an
    instruction `y` that calls nothing and whose jump operand, if any, is marked -/
theorem CodeInv.set {T : Array Bool} {c a : Array Instr} {m m' : Nat} (h : CodeInv T c a m)
    (k : Nat) (x y : Instr) (hx : a[k]? = some x) (hxs : isScope x = false) (hxr : x ≠ .ret)
    (hyc : callTarget y = none)
    (hyt : ∀ t, targetOf y = some t → 0 ≤ t → t ≤ c.size → T.getD t.toNat false = true)
    (hm : m' ≤ m) (hk : m' ≤ k) : CodeInv T c (a.set! k y) m' := by
  have hks : k < a.size := (Array.getElem?_eq_some_iff.mp hx).1
  refine ⟨by rw [size_set!]; exact h.size, ?_, ?_, ?_, ?_⟩
  · intro p hp
    rw [getElem?_set!, if_neg (by omega)]
    exact h.orig p (by omega)
  · intro pc ins t hins ht h0 h1
    rw [getElem?_set!] at hins
    split at hins
    · simp at hins; subst hins; exact hyt t ht h0 h1
    · exact h.tg pc ins t hins ht h0 h1
  · intro pc ins t hins ht
    rw [getElem?_set!] at hins
    have key : ∀ ins, a[pc]? = some ins → callTarget ins = some t →
        0 ≤ t ∧ ∃ sc, (a.set! k y)[t.toNat]? = some sc ∧ isScope sc = true := by
      intro ins hins ht
      obtain ⟨h0, sc, hsc, hs⟩ := h.calls pc ins t hins ht
      refine ⟨h0, sc, ?_, hs⟩
      rw [getElem?_set!]
      split
      · rename_i hh
        rw [← hh.1, hx] at hsc
        simp at hsc; subst hsc
        rw [hxs] at hs; cases hs
      · exact hsc
    split at hins
    · simp at hins; subst hins; rw [hyc] at ht; cases ht
    · exact key ins hins ht
  · obtain ⟨n, hn, hr⟩ := h.last
    refine ⟨n, hn, ?_⟩
    rw [getElem?_set!]
    split
    · rename_i hh
      rw [← hh.1, hx] at hr
      simp at hr; exact absurd hr hxr
    · exact hr

theorem isPushLike_facts {x : Instr} (h : isPushLike x = true) :
    isScope x = false ∧ x ≠ .ret ∧ jumpTgt x = none := by
  cases x <;> simp [isPushLike] at h <;> exact ⟨rfl, (by intro h; cases h), rfl⟩

theorem jumpTgt_facts {j : Instr} {t : Int} (h : jumpTgt j = some t) :
    isScope j = false ∧ j ≠ .ret ∧ (j = .jump t ∨ j = .jumpifnot t) := by
  cases j <;> simp [jumpTgt] at h
  · subst h; exact ⟨rfl, (by intro h; cases h), .inl rfl⟩
  · subst h; exact ⟨rfl, (by intro h; cases h), .inr rfl⟩

theorem retarget_facts {j : Instr} {t : Int} (h : jumpTgt j = some t) (u : Int) :
    callTarget (retarget j u) = none ∧ targetOf (retarget j u) = some u := by
  cases j <;> simp [jumpTgt] at h <;> exact ⟨rfl, rfl⟩

/-- under the invariant, a pair the pass merges at `i` satisfies the side conditions of the pair
    simulation: no control transfer lands on `i + 1` -/
theorem CodeInv.static {T : Array Bool} {c a : Array Instr} {m : Nat} (h : CodeInv T c a m) (i : Nat)
    (x b b' : Instr) (hx : a[i]? = some x) (hpl : isPushLike x = true)
    (hT : T.getD (i + 1) false = false) (hb : a[i + 1]? = some b) (hbb : PairSecond b b') :
    StaticOK ((i : Int) + 1) a := by
  have hi1 : i + 1 < a.size := (Array.getElem?_eq_some_iff.mp hb).1
  have hbf : isScope b = false ∧ b ≠ .ret ∧ savesPc b = false := by
    rcases hbb with ⟨rfl, _⟩ | ⟨w, rfl, _⟩ <;> exact ⟨rfl, (by intro h; cases h), rfl⟩
  refine ⟨?_, ?_, by omega, ?_⟩
  · intro pc ins t hins ht heq
    subst heq
    -- a static operand equal to i+1: either a marked jump/fork operand, or a call operand
    cases hto : targetOf ins with
    | some t' =>
      have : t' = (i : Int) + 1 := by
        cases ins <;> simp [targetOf] at hto <;> simp [staticTarget] at ht <;> omega
      subst this
      have := h.tg pc ins _ hins hto (by omega) (by have := h.size; omega)
      rw [show ((i : Int) + 1).toNat = i + 1 by omega, hT] at this
      cases this
    | none =>
      have hct : callTarget ins = some ((i : Int) + 1) := by
        cases ins <;> simp [targetOf] at hto <;> simp [staticTarget] at ht <;> simp [callTarget, ht]
      obtain ⟨_, sc, hsc, hs⟩ := h.calls pc ins _ hins hct
      rw [show ((i : Int) + 1).toNat = i + 1 by omega, hb] at hsc
      simp at hsc; subst hsc
      rw [hbf.1] at hs; cases hs
  · intro pc ins hins hs
    have h1 : pc ≠ i := by
      intro e; subst e; rw [hx] at hins; simp at hins; subst hins
      rw [(isPushLike_static hpl).2] at hs; cases hs
    have h2 : pc ≠ i + 1 := by
      intro e; subst e; rw [hb] at hins; simp at hins; subst hins
      rw [hbf.2.2] at hs; cases hs
    exact ⟨by omega, by omega⟩
  · obtain ⟨n, hn, hr⟩ := h.last
    have : i + 1 ≠ n := by
      intro e; subst e; rw [hb] at hr; simp at hr; exact hbf.2.1 hr
    have := h.size
    omega

/-! ## the loop -/

theorem fold_refines {T : Array Bool} {c : Array Instr} (W : WellFormed c) : ∀ (m : Nat) (a a' : Array Instr),
    CodeInv T c a m → (List.range m).reverse.foldlM (stepV T) a = some a' → Refines a a' := by
  intro m
  induction m with
  | zero =>
    intro a a' _ h
    simp at h
    subst h
    exact Refines.refl _
  | succ m ih =>
    intro a a' hinv h
    rw [List.range_succ, List.reverse_append, List.reverse_singleton, List.singleton_append,
      List.foldlM_cons] at h
    cases hs : stepV T a m with
    | none => rw [hs] at h; simp at h
    | some a1 =>
      rw [hs] at h
      simp only [Option.bind_eq_bind, Option.bind_some] at h
      have key : CodeInv T c a1 m ∧ Refines a a1 := by
        rcases stepV_cases hs with rfl | ⟨x, b, b', hx, hpl, hT, hb, hbb, rfl⟩ | ⟨j, hj, hjt, rfl⟩ |
            ⟨j, t, u, hj, hjt, ht0, htj, rfl⟩
        · exact ⟨⟨hinv.size, fun k hk => hinv.orig k (by omega), hinv.tg, hinv.calls, hinv.last⟩, Refines.refl _⟩
        · -- a merged pair
          have S := hinv.static m x b b' hx hpl hT hb hbb
          refine ⟨?_, pair_refines a m x b b' hx hpl hb hbb S⟩
          obtain ⟨f1, f2, _⟩ := isPushLike_facts hpl
          have hbf : isScope b = false ∧ b ≠ .ret ∧ callTarget b' = none ∧ targetOf b' = none := by
            rcases hbb with ⟨rfl, rfl⟩ | ⟨w, rfl, rfl⟩ <;> exact ⟨rfl, (by intro h; cases h), rfl, rfl⟩
          have inv1 : CodeInv T c (a.set! m .nop) m :=
            hinv.set m x .nop hx f1 f2 rfl (fun t ht => by cases ht) (by omega) (Nat.le_refl _)
          have hb1 : (a.set! m .nop)[m + 1]? = some b := by
            rw [getElem?_set!, if_neg (by omega)]; exact hb
          exact inv1.set (m + 1) b b' hb1 hbf.1 hbf.2.1 hbf.2.2.1
            (fun t ht => by rw [hbf.2.2.2] at ht; cases ht) (Nat.le_refl _) (by omega)
        · -- a jump to the next instruction; it is a `jump`, not a `jumpifnot`, because position m is original
          obtain ⟨g1, g2, g3⟩ := jumpTgt_facts hjt
          have hjump : j = .jump ((m : Int) + 1) := by
            rcases g3 with g3 | g3
            · exact g3
            · exfalso
              have ho := hinv.orig m (by omega)
              rw [hj, g3] at ho
              exact W.nojn m _ ho.symm rfl
          subst hjump
          exact ⟨hinv.set m _ .nop hj g1 g2 rfl (fun t ht => by cases ht) (by omega) (Nat.le_refl _),
            jumpnext_refines a m hj⟩
        · -- a threaded jump: the new operand is the operand of a jump of the current code, so it is marked
          obtain ⟨g1, g2, _⟩ := jumpTgt_facts hjt
          obtain ⟨r1, r2⟩ := retarget_facts hjt u
          refine ⟨hinv.set m j _ hj g1 g2 r1 ?_ (by omega) (Nat.le_refl _), thread_refines a m j t u hj hjt ht0 htj⟩
          intro t' ht' h0 h1
          rw [r2] at ht'
          simp at ht'; subst ht'
          exact hinv.tg t.toNat (.jump u) u htj rfl h0 h1
      exact Refines.trans key.2 (ih a1 a' key.1 h)

/-! ## the `targets` table -/

theorem getD_set!_true (t : Array Bool) (j j' : Nat) (h : t.getD j' false = true) :
    (t.set! j true).getD j' false = true := by
  simp only [Array.getD_eq_getD_getElem?, Array.set!_eq_setIfInBounds, Array.getElem?_setIfInBounds] at h ⊢
  by_cases hj : j = j'
  · subst hj
    by_cases hs : j < t.size
    · simp [hs]
    · simp [hs] at h ⊢
  · simp [hj, h]

theorem getD_set!_self_true (t : Array Bool) (j : Nat) (h : j < t.size) : (t.set! j true).getD j false = true := by
  simp [Array.getD_eq_getD_getElem?, Array.set!_eq_setIfInBounds, Array.getElem?_setIfInBounds, h]

/-- `targetsV` marks every in-range operand of a jump / fork instruction -/
theorem targetsV_marks (c : Array Instr) : Marks (targetsV c) c.size c := by
  unfold targetsV
  have := Array.foldl_induction (as := c)
    (motive := fun k (t : Array Bool) => t.size = c.size + 1 ∧
      ∀ (pc : Nat) (ins : Instr) (tg : Int), pc < k → c[pc]? = some ins → targetOf ins = some tg → 0 ≤ tg →
        tg ≤ c.size → t.getD tg.toNat false = true)
    (init := Array.replicate (c.size + 1) false)
    (f := fun t ins => match targetOf ins with
      | some k => if 0 ≤ k ∧ k.toNat < t.size then t.set! k.toNat true else t
      | none => t)
    ⟨by simp, fun pc ins tg h => by omega⟩
    (by
      intro k t ⟨hsz, hm⟩
      cases hto : targetOf c[k] with
      | none =>
        simp only [hto]
        refine ⟨hsz, fun pc ins tg hpc hins htg h0 h1 => ?_⟩
        by_cases hk : pc = k
        · subst hk
          have hck : c[(k : Nat)]? = some c[k] := by simp
          rw [hck] at hins; simp at hins; subst hins
          have htg' : targetOf c[k] = some tg := htg
          rw [hto] at htg'; cases htg'
        · exact hm pc ins tg (by omega) hins htg h0 h1
      | some tk =>
        simp only [hto]
        split
        · rename_i hin
          refine ⟨by simp [Array.set!_eq_setIfInBounds, hsz], fun pc ins tg hpc hins htg h0 h1 => ?_⟩
          by_cases hk : pc = k
          · subst hk
            have hck : c[(k : Nat)]? = some c[k] := by simp
            rw [hck] at hins; simp at hins; subst hins
            have htg' : targetOf c[k] = some tg := htg
            rw [hto] at htg'; simp at htg'; subst htg'
            exact getD_set!_self_true _ _ hin.2
          · exact getD_set!_true _ _ _ (hm pc ins tg (by omega) hins htg h0 h1)
        · rename_i hin
          refine ⟨hsz, fun pc ins tg hpc hins htg h0 h1 => ?_⟩
          by_cases hk : pc = k
          · subst hk
            have hck : c[(k : Nat)]? = some c[k] := by simp
            rw [hck] at hins; simp at hins; subst hins
            have htg' : targetOf c[k] = some tg := htg
            rw [hto] at htg'; simp at htg'; subst htg'
            exfalso; apply hin
            exact ⟨h0, by omega⟩
          · exact hm pc ins tg (by omega) hins htg h0 h1)
  intro pc ins t hins ht h0 h1
  exact this.2 pc ins t (Array.getElem?_eq_some_iff.mp hins).1 hins ht h0 h1

/-- the static scan `wfCheck` (Model/OptVM.lean) establishes `WellFormed` -/
theorem wfCheck_sound {c : Array Instr} (h : wfCheck c = true) : WellFormed c := by
  unfold wfCheck at h
  simp only [Bool.and_eq_true, List.all_eq_true, List.mem_range] at h
  obtain ⟨h1, h2⟩ := h
  refine ⟨?_, ?_, ?_⟩
  · intro pc ins t hins ht
    have := h1 pc (Array.getElem?_eq_some_iff.mp hins).1
    rw [hins] at this
    simp only [ht, Bool.and_eq_true, decide_eq_true_eq] at this
    obtain ⟨⟨h0, hsc⟩, _⟩ := this
    refine ⟨h0, ?_⟩
    cases hc : c[t.toNat]? with
    | none => rw [hc] at hsc; cases hsc
    | some sc => rw [hc] at hsc; exact ⟨sc, rfl, hsc⟩
  · cases hs : c.size with
    | zero => rw [hs] at h2; cases h2
    | succ n =>
      rw [hs] at h2
      simp only at h2
      refine ⟨n, rfl, ?_⟩
      cases hc : c[n]? with
      | none => rw [hc] at h2; cases h2
      | some x =>
        rw [hc] at h2
        cases x <;> first | rfl | cases h2
  · intro i t hins
    have := h1 i (Array.getElem?_eq_some_iff.mp hins).1
    rw [hins] at this
    simp only [Bool.and_eq_true, bne_iff_ne, ne_eq] at this
    exact this.2

/-- the whole pass: its result refines the original code -/
theorem optV_refines {c c' : Array Instr} (W : WellFormed c) (h : optV c = some c') : Refines c c' := by
  unfold optV at h
  exact fold_refines W c.size c c'
    ⟨rfl, fun _ _ => rfl, targetsV_marks c, W.calls, W.last⟩ h

end Gojq.OptVM

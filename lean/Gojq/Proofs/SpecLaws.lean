/-
  Helper definitions and lemmas for Props/C01.lean (Spec sanity laws, DESIGN §6 C01.4):
  the algebra of `Res.bind` (sequencing) and the small example programs.  Core Lean only.
-/
import Gojq.Model.Spec
namespace Gojq.Spec

/-! ### the `pend` wrapper of `Res.bindList` -/

/-- what `Res.bindList` does to the result of `f x` when `x` carries the `pend` flag (an output of
    a non-last `?//` alternative): outputs inherit the flag, an error becomes `unmodelled` -/
def pendWrap (pend : Bool) (r : Res) : Res :=
  if pend then ⟨r.outs.map ({ · with pend := true }), pendStop true r.stop⟩ else r

/-- no output carries the `pend` flag -/
def Res.NoPend (r : Res) : Prop := ∀ x ∈ r.outs, x.pend = false

theorem bindList_nil (f : St → Res) (final : Stop) : Res.bindList f final [] = ⟨[], final⟩ := rfl

theorem bindList_cons (f : St → Res) (final : Stop) (x : St) (xs : List St) :
    Res.bindList f final (x :: xs) =
      match (pendWrap x.pend (f x)).stop with
      | .done => ⟨(pendWrap x.pend (f x)).outs ++ (Res.bindList f final xs).outs, (Res.bindList f final xs).stop⟩
      | s => ⟨(pendWrap x.pend (f x)).outs, s⟩ := by
  simp only [Res.bindList, pendWrap]
  cases x.pend <;> rfl

theorem bindList_cons_nopend (f : St → Res) (final : Stop) (x : St) (xs : List St) (hx : x.pend = false) :
    Res.bindList f final (x :: xs) =
      match (f x).stop with
      | .done => ⟨(f x).outs ++ (Res.bindList f final xs).outs, (Res.bindList f final xs).stop⟩
      | s => ⟨(f x).outs, s⟩ := by
  rw [bindList_cons]; simp [pendWrap, hx]

/-- a bind whose final stop is not `done` never ends with `done` -/
theorem bindList_stop_ne_done (f : St → Res) (final : Stop) (h : final.isDone = false) :
    ∀ xs, (Res.bindList f final xs).stop.isDone = false := by
  intro xs
  induction xs with
  | nil => simpa [bindList_nil] using h
  | cons x xs ih =>
    rw [bindList_cons]
    cases hs : (pendWrap x.pend (f x)).stop with
    | done => simpa using ih
    | _ => rfl

theorem bindList_append (g : St → Res) (final : Stop) (as bs : List St) :
    Res.bindList g final (as ++ bs) =
      match (Res.bindList g .done as).stop with
      | .done => ⟨(Res.bindList g .done as).outs ++ (Res.bindList g final bs).outs, (Res.bindList g final bs).stop⟩
      | s => ⟨(Res.bindList g .done as).outs, s⟩ := by
  induction as with
  | nil => simp [bindList_nil]
  | cons a as ih =>
    rw [List.cons_append, bindList_cons, bindList_cons, ih]
    cases h1 : (pendWrap a.pend (g a)).stop <;> simp only []
    cases h2 : (Res.bindList g Stop.done as).stop <;> simp [List.append_assoc]

theorem Res.eta_stop (r : Res) (s : Stop) (h : r.stop = s) : r = ⟨r.outs, s⟩ := by
  cases r; simp_all

theorem bindList_assoc (f g : St → Res) (final : Stop) :
    ∀ xs : List St, (∀ x ∈ xs, x.pend = false) →
      Res.bindList g (Res.bindList f final xs).stop (Res.bindList f final xs).outs
        = Res.bindList (fun x => (f x).bind g) final xs := by
  intro xs
  induction xs with
  | nil => intro _; rfl
  | cons x xs ih =>
    intro hx
    have hx0 : x.pend = false := hx x (by simp)
    have ih' := ih (fun y hy => hx y (by simp [hy]))
    rw [bindList_cons_nopend f final x xs hx0, bindList_cons_nopend _ final x xs hx0]
    simp only [Res.bind] at ih' ⊢
    cases h1 : (f x).stop with
    | done =>
      simp only []
      rw [bindList_append, ← ih']
    | err e =>
      simp only []
      have hnd := bindList_stop_ne_done g (.err e) rfl (f x).outs
      cases hs : (Res.bindList g (Stop.err e) (f x).outs).stop with
      | done => simp [hs, Stop.isDone] at hnd
      | _ => exact Res.eta_stop _ _ hs
    | fuel =>
      simp only []
      have hnd := bindList_stop_ne_done g .fuel rfl (f x).outs
      cases hs : (Res.bindList g Stop.fuel (f x).outs).stop with
      | done => simp [hs, Stop.isDone] at hnd
      | _ => exact Res.eta_stop _ _ hs
    | unmodelled w =>
      simp only []
      have hnd := bindList_stop_ne_done g (.unmodelled w) rfl (f x).outs
      cases hs : (Res.bindList g (Stop.unmodelled w) (f x).outs).stop with
      | done => simp [hs, Stop.isDone] at hnd
      | _ => exact Res.eta_stop _ _ hs

theorem bindList_one (final : Stop) : ∀ xs : List St, Res.bindList Res.one final xs = ⟨xs, final⟩ := by
  intro xs
  induction xs with
  | nil => rfl
  | cons x xs ih =>
    rw [bindList_cons, ih]
    rcases x with ⟨v, id, ctx, pend⟩
    cases pend <;> simp [pendWrap, Res.one, pendStop]

theorem one_bind_wrap (s : St) (f : St → Res) : (Res.one s).bind f = pendWrap s.pend (f s) := by
  simp only [Res.bind, Res.one, bindList_cons, bindList_nil]
  cases h : (pendWrap s.pend (f s)).stop <;> simp
  all_goals (rcases hr : pendWrap s.pend (f s) with ⟨o, st⟩; simp_all)

/-! ### binary natives -/

/-- the last line of `evalBinNative`: apply the native to ONE pair of operand outputs
    (`funcOpAdd` returns one operand unchanged when the other is a unit of the same kind) -/
def binApply (name : String) (s x y : St) : Res :=
  let isUnit (v : JV) : Bool := match v with | .null => true | .arr [] => true | .obj [] => true | _ => false
  let sameKind (a b : JV) : Bool := match a, b with
    | .null, _ => true | .arr _, .arr _ => true | .obj _, .obj _ => true | _, _ => false
  if name == "_add" && isUnit x.v && sameKind x.v y.v then .one { v := y.v, id := y.id, ctx := x.ctx }
  else if name == "_add" && isUnit y.v && sameKind y.v x.v then .one { v := x.v, id := x.id, ctx := x.ctx }
  else nativeRes x name (callNative name s.v [x.v, y.v]) [s.v, x.v, y.v]

theorem evalBinNative_eq (n : Nat) (cfg : Cfg) (env : Env) (name : String) (l r : Query) (s : St) :
    evalBinNative (n+1) cfg env name l r s =
      (eval n cfg env r s).bind fun y =>
        (eval n cfg env l { s with ctx := y.ctx }).bind fun x => binApply name s x y := by
  simp only [evalBinNative, binApply]; rfl

/-- the native that an arithmetic / comparison operator calls (operator.go `getFunc`) -/
def opNative? : Op → Option String
  | .add => some "_add" | .sub => some "_subtract" | .mul => some "_multiply" | .div => some "_divide"
  | .mod => some "_modulo" | .eq => some "_equal" | .ne => some "_notequal" | .gt => some "_greater"
  | .lt => some "_less" | .ge => some "_greatereq" | .le => some "_lesseq" | _ => none

theorem eval_alt (n : Nat) (cfg : Cfg) (env : Env) (ds : List FuncDef) (l r : Query) (s : St) :
    eval (n+1) cfg env (.binop ds .alt l r) s =
      let rl := eval n cfg (env.defs ds) l s
      let truthy := rl.outs.filter fun x => !isFalsy x.v
      match rl.stop with
      | .done => if truthy.isEmpty then eval n cfg (env.defs ds) r s else ⟨truthy, .done⟩
      | st => if truthy.isEmpty then ⟨[], st⟩ else ⟨truthy, st⟩ := by
  simp only [eval, Query.defs]; rfl

/-! ### example programs (ASTs as the real parser dumps them) -/

/-- the values of a result -/
def Res.vals (r : Res) : List JV := r.outs.map (·.v)

/-- an evaluation context without jq-defined builtins -/
def cfg0 : Cfg := { builtins := ⟨[]⟩ }
def qnum (s : String) : Query := .ofTerm (.number s)
def qstr (s : String) : Query := .ofTerm (.str (.lit (B s)))
def qcomma (a b : Query) : Query := .binop [] .comma a b
def sNull : St := { v := .null }

/-- `def f: def g: 1; g; def g: 2; f` -/
def exLexical : Query :=
  .term [.mk "f" [] (.term [.mk "g" [] (qnum "1")] (.mk (.func "g" []) [])), .mk "g" [] (qnum "2")]
    (.mk (.func "f" []) [])

/-- `def f($a; $b): [$a, $b]; f(1,2; 3,4)` -/
def exParams : Query :=
  .term [.mk "f" ["$a", "$b"] (.ofTerm (.array (some (qcomma (.call "$a") (.call "$b")))))]
    (.mk (.func "f" [qcomma (qnum "1") (qnum "2"), qcomma (qnum "3") (qnum "4")]) [])

/-- `{("a","b"): (1,2)}` -/
def exObject : Query :=
  .ofTerm (.object [.mk (.query (qcomma (qstr "a") (qstr "b"))) (some (qcomma (qnum "1") (qnum "2")))])

/-- `(1,2) + (10,20)` -/
def exPlus : Query := .binop [] .add (qcomma (qnum "1") (qnum "2")) (qcomma (qnum "10") (qnum "20"))

/-- `reduce (1,2) as $x (10; empty)` -/
def exReduceEmpty : Query :=
  .ofTerm (.reduce (qcomma (qnum "1") (qnum "2")) (.var "$x") (qnum "10") (.call "empty"))

/-- `reduce (1,2) as $x (10; ., $x)` -/
def exReduceLast : Query :=
  .ofTerm (.reduce (qcomma (qnum "1") (qnum "2")) (.var "$x") (qnum "10") (qcomma .id (.call "$x")))

/-- `[label $out | 1, break $out, 2]` -/
def exLabel : Query :=
  .ofTerm (.array (some (.ofTerm (.label "$out" (qcomma (qnum "1") (qcomma (.ofTerm (.break_ "$out")) (qnum "2")))))))

/-- `label $out | try break $out catch 7` -/
def exTryBreak : Query :=
  .ofTerm (.label "$out" (.ofTerm (.try_ (.ofTerm (.break_ "$out")) (some (qnum "7")))))

/-- `(null, 1, false, 2) // 3` -/
def exAltTruthy : Query :=
  .binop [] .alt (qcomma (.ofTerm .null) (qcomma (qnum "1") (qcomma (.ofTerm .false_) (qnum "2")))) (qnum "3")

/-- `(null, false) // 3` -/
def exAltFalsy : Query := .binop [] .alt (qcomma (.ofTerm .null) (.ofTerm .false_)) (qnum "3")

/-- `(1, 2) | (., 10)` -/
def exPipe : Query := .binop [] .pipe (qcomma (qnum "1") (qnum "2")) (qcomma .id (qnum "10"))

/-- a filter that looks at the `pend` flag: the witness that `Res.bind` is not associative on
    outputs of non-last `?//` alternatives -/
def pendSensitive (x : St) : Res := if x.pend then Res.empty else Res.one x

end Gojq.Spec

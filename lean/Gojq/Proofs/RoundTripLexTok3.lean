/-
  Lexing printed text, part 4: variables, module names, formats, field names, numbers.
-/
import Gojq.Proofs.RoundTripLexTok2
namespace Gojq.RefTerm
open Gojq Gojq.Lexer Gojq.Generated.Lalr

/-- from a scan, given by its components, to a step -/
theorem step_scan (c : UInt8) (r fol : Bytes) (t : Tok) (n : Nat) (tok : Option Bytes) (ty : Int) (lval : LVal)
    (hw : isWhite c = false) (hh : (c == 35) = false)
    (hsc : scanTok false c r = { n := n, token := tok, ty := ty, lval := lval })
    (hty : (ty == eof) = false) (hcl : classify false ty lval = t) (hdrop : r.drop n = fol) :
    LexStep false (c :: r) t fol false :=
  step_of_scan c r fol t _ hw hh hsc hty hcl hdrop

theorem step_var (s : Bytes) (fol : Bytes) (hs : isVarName s = true) (h : stops (.var s) fol = true) :
    LexStep false (s ++ fol) (.var s) fol false := by
  obtain ⟨hf, hm⟩ := stops_ident (s := s) (w := .and_) (Or.inr (Or.inr rfl)) h
  unfold isVarName at hs
  split at hs
  · next r =>
    obtain ⟨c1, s'', e, h1, hs'⟩ := identName_split r hs
    have hall : ∀ x ∈ r, isIdent x true = true := identName_bytes r hs
    have hp : isIdent (peek (r ++ fol)) false = true := by rw [e]; simpa using h1
    rw [List.cons_append]
    refine step_scan 36 (r ++ fol) fol _ r.length (some (36 :: r)) tokVariable { token := 36 :: r }
      (by decide) (by decide) ?_ (by decide) rfl (by simp)
    simp [scanTok, hp, scanIdent_app r fol hall hf hm, show isIdent 36 false = false by decide,
      show isNumber 36 = false by decide]
  · cases hs

theorem splitColons_eq (n : Bytes) : ∀ a z, splitColons n = some (a, z) → n = a ++ 58 :: 58 :: z := by
  fun_induction splitColons n with
  | case1 r => intro a z h; simp at h; obtain ⟨rfl, rfl⟩ := h; rfl
  | case2 b r hne a z hs ih => intro a' z' h; simp at h; obtain ⟨rfl, rfl⟩ := h; simp [ih a z hs]
  | case3 b r hne hs => intro a z h; simp at h
  | case4 => intro a z h; cases h

/-- `scanIdentOrModule` on `a::b` where the first byte of `a` has been consumed already -/
theorem scanModule_app (a' b fol : Bytes) (ha : ∀ x ∈ a', isIdent x true = true) (hb : isIdentName b = true)
    (hf : isIdent (peek fol) true = false) :
    scanIdentOrModule ((a' ++ 58 :: 58 :: b) ++ fol) = ((a' ++ 58 :: 58 :: b).length, true) := by
  obtain ⟨cb, b', e, hb0, hb'⟩ := identName_split b hb
  subst e
  unfold scanIdentOrModule
  have e1 : (a' ++ 58 :: 58 :: cb :: b') ++ fol = a' ++ (58 :: 58 :: cb :: (b' ++ fol)) := by simp
  have h1 : identLen (a' ++ (58 :: 58 :: cb :: (b' ++ fol))) = a'.length :=
    identLen_app a' (58 :: 58 :: cb :: (b' ++ fol)) ha (by simp; decide)
  rw [e1]
  simp only [h1, List.drop_left']
  simp [hb0, identLen_app b' fol hb' hf]
  omega

theorem modIdent_split (s : Bytes) (h : isModIdent s = true) :
    ∃ c0 a' b, s = c0 :: (a' ++ 58 :: 58 :: b) ∧ isIdent c0 false = true ∧ (∀ x ∈ a', isIdent x true = true) ∧
      isIdentName b = true := by
  unfold isModIdent at h
  split at h
  · next a z hs =>
    simp only [Bool.and_eq_true] at h
    obtain ⟨c0, a', e, h0, ha⟩ := identName_split a h.1
    exact ⟨c0, a', z, by rw [splitColons_eq s a z hs, e]; simp, h0, ha, h.2⟩
  · cases h

theorem step_modIdent (s : Bytes) (fol : Bytes) (hs : isModIdent s = true) (h : stops (.modIdent s) fol = true) :
    LexStep false (s ++ fol) (.modIdent s) fol false := by
  simp only [stops, Bool.not_eq_true'] at h
  obtain ⟨c0, a', b, e, h0, ha, hb⟩ := modIdent_split s hs
  obtain ⟨hw, hh, _⟩ := isIdent_props c0 false h0
  subst e
  generalize hwd : a' ++ 58 :: 58 :: b = w at *
  rw [List.cons_append]
  refine step_scan c0 (w ++ fol) fol _ w.length (some (c0 :: w)) tokModuleIdent { token := c0 :: w }
    hw hh ?_ (by decide) rfl (by simp)
  have hm := scanModule_app a' b fol ha hb h
  rw [hwd] at hm
  simp [scanTok, h0, hm]

theorem step_modVar (s : Bytes) (fol : Bytes) (hs : isModVar s = true) (h : stops (.modVar s) fol = true) :
    LexStep false (s ++ fol) (.modVar s) fol false := by
  simp only [stops, Bool.not_eq_true'] at h
  unfold isModVar at hs
  split at hs
  · next r =>
    obtain ⟨c0, a', b, e, h0, ha, hb⟩ := modIdent_split r hs
    subst e
    have hall : ∀ x ∈ c0 :: a', isIdent x true = true := by
      intro x hx; simp only [List.mem_cons] at hx
      rcases hx with rfl | hx
      · exact isIdent_tail _ h0
      · exact ha x hx
    have hm := scanModule_app (c0 :: a') b fol hall hb h
    have hp : isIdent (peek ((c0 :: a' ++ 58 :: 58 :: b) ++ fol)) false = true := by simpa using h0
    generalize hwd : (c0 :: a') ++ 58 :: 58 :: b = w at *
    have hwd' : c0 :: (a' ++ 58 :: 58 :: b) = w := by rw [← hwd]; rfl
    (try rw [hwd'])
    (try rw [List.cons_append])
    refine step_scan 36 (w ++ fol) fol _ w.length (some (36 :: w)) tokModuleVariable { token := 36 :: w }
      (by decide) (by decide) ?_ (by decide) rfl (by simp)
    simp [scanTok, hp, hm, show isIdent 36 false = false by decide, show isNumber 36 = false by decide]
  · cases hs

theorem step_format (s : Bytes) (fol : Bytes) (hs : okFormat s = true) (h : stops (.format s) fol = true) :
    LexStep false (s ++ fol) (.format s) fol false := by
  simp only [stops, Bool.not_eq_true'] at h
  unfold okFormat at hs
  split at hs
  · next r =>
    simp only [Bool.and_eq_true, Bool.not_eq_true', List.all_eq_true] at hs
    obtain ⟨hne, hall⟩ := hs
    have hp : isIdent (peek (r ++ fol)) true = true := by
      cases r with
      | nil => simp at hne
      | cons c1 r' => simpa using hall c1 (by simp)
    rw [List.cons_append]
    refine step_scan 64 (r ++ fol) fol _ r.length (some (64 :: r)) tokFormat { token := 64 :: r }
      (by decide) (by decide) ?_ (by decide) rfl (by simp)
    simp [scanTok, hp, identLen_app r fol hall h, show isIdent 64 false = false by decide,
      show isNumber 64 = false by decide]
  · cases hs

theorem step_index (s : Bytes) (fol : Bytes) (hs : isIdentName s = true) (h : stops (.index s) fol = true) :
    LexStep false ((46 :: s) ++ fol) (.index s) fol false := by
  simp only [stops, Bool.not_eq_true'] at h
  obtain ⟨c1, s', e, h1, hs'⟩ := identName_split s hs
  have hall : ∀ x ∈ s, isIdent x true = true := identName_bytes s hs
  obtain ⟨_, _, h46, _⟩ := isIdent_props c1 false h1
  have hp : peek (s ++ fol) = c1 := by rw [e]; rfl
  rw [List.cons_append]
  refine step_scan 46 (s ++ fol) fol _ s.length (some (46 :: s)) tokIndex { token := s }
    (by decide) (by decide) ?_ (by decide) rfl (by simp)
  simp [scanTok, hp, h46, h1, identLen_app s fol hall h, show isIdent 46 false = false by decide,
    show isNumber 46 = false by decide]

/-! ### numbers -/

def numStop (fol : Bytes) : Bool := !(isNumber (peek fol) || peek fol == 46 || isIdent (peek fol) false)

theorem scanNumber_nil (st : NumState) (fol : Bytes) (h : scanNumber st [] = (0, true)) (hf : numStop fol = true) :
    scanNumber st fol = (0, true) := by
  cases fol with
  | nil => exact h
  | cons c fol =>
    simp only [numStop, peek_cons, Bool.not_eq_true', Bool.or_eq_false_iff] at hf
    obtain ⟨⟨h1, h2⟩, h3⟩ := hf
    have he : (c == 101 || c == 69) = false := by
      cases hc : (c == 101 || c == 69)
      · rfl
      · simp only [Bool.or_eq_true, beq_iff_eq] at hc
        rcases hc with rfl | rfl <;> exact absurd h3 (by decide)
    simp only [Bool.or_eq_false_iff] at he
    cases st <;> simp [scanNumber] at h ⊢ <;> simp_all

/-- a number scanned in full is scanned the same way when a byte that cannot continue it follows -/
theorem scanNumber_app (st : NumState) (r : Bytes) : ∀ (fol : Bytes), scanNumber st r = (r.length, true) →
    numStop fol = true → scanNumber st (r ++ fol) = (r.length, true) := by
  fun_induction scanNumber st r
  case case1 => intro fol _ hf; exact scanNumber_nil _ fol rfl hf
  case case2 => intro fol _ hf; exact scanNumber_nil _ fol rfl hf
  case case3 => intro fol h; simp at h
  case case4 => intro fol h; simp at h
  case case5 => intro fol _ hf; exact scanNumber_nil _ fol rfl hf
  all_goals (intro fol h hf)
  all_goals (try (simp at h; done))
  all_goals (
    simp only [List.length_cons, Prod.mk.injEq, Nat.add_right_cancel_iff] at h
    obtain ⟨h1, h2⟩ := h
    subst h1 h2
    rename_i ih hx
    have := ih fol hx hf
    rw [List.cons_append, scanNumber]
    simp_all)

theorem number_props (c : UInt8) (h : isNumber c = true) :
    isWhite c = false ∧ (c == 35) = false ∧ isIdent c false = false ∧ (c == 46) = false := by
  simp only [isNumber, Bool.and_eq_true, decide_eq_true_eq] at h
  have h57 : ∀ d : UInt8, 57 < d → ¬ d ≤ c := fun d hd => UInt8.not_le.mpr (Nat.lt_of_le_of_lt h.2 hd)
  have h48 : ∀ d : UInt8, d < 48 → c ≠ d := fun d hd e => by
    subst e; exact absurd h.1 (UInt8.not_le.mpr hd)
  refine ⟨?_, ?_, ?_, ?_⟩
  · simp only [isWhite, Bool.or_eq_false_iff, beq_eq_false_iff_ne]
    exact ⟨⟨⟨h48 9 (by decide), h48 10 (by decide)⟩, h48 13 (by decide)⟩, h48 32 (by decide)⟩
  · simp only [beq_eq_false_iff_ne]; exact h48 35 (by decide)
  · simp only [isIdent, Bool.false_and, Bool.or_false, Bool.or_eq_false_iff, Bool.and_eq_false_iff,
      decide_eq_false_iff_not, beq_eq_false_iff_ne]
    refine ⟨⟨Or.inl (h57 97 (by decide)), Or.inl (h57 65 (by decide))⟩, ?_⟩
    intro e; subst e; exact absurd h.2 (by decide)
  · simp only [beq_eq_false_iff_ne]; exact h48 46 (by decide)

theorem step_number (s : Bytes) (fol : Bytes) (hs : okNumber s = true) (h : stops (.number s) fol = true) :
    LexStep false (s ++ fol) (.number s) fol false := by
  have hf : numStop fol = true := h
  unfold okNumber at hs
  split at hs
  · cases hs
  · next b r =>
    simp only [Bool.or_eq_true, Bool.and_eq_true, beq_iff_eq] at hs
    rw [List.cons_append]
    rcases hs with ⟨hb, hsc⟩ | ⟨⟨hb, hp⟩, hsc⟩
    · obtain ⟨hw, hh, hi, _⟩ := number_props b hb
      refine step_scan b (r ++ fol) fol _ r.length (some (b :: r)) tokNumber { token := b :: r }
        hw hh ?_ (by decide) rfl (by simp)
      simp [scanTok, hi, hb, scanNumber_app .lead r fol hsc hf]
    · subst hb
      have hne : r ≠ [] := by intro e; subst e; simp [peek, isNumber] at hp
      have hpk : peek (r ++ fol) = peek r := by cases r with | nil => exact absurd rfl hne | cons _ _ => rfl
      obtain ⟨_, _, hi, h46⟩ := number_props (peek r) hp
      refine step_scan 46 (r ++ fol) fol _ r.length (some (46 :: r)) tokNumber { token := 46 :: r }
        (by decide) (by decide) ?_ (by decide) rfl (by simp)
      simp [scanTok, hpk, hi, hp, h46, scanNumber_app .float r fol hsc hf,
        show isIdent 46 false = false by decide, show isNumber 46 = false by decide]

end Gojq.RefTerm

/-
  What `optTailV` (the tail-call pass on interpreter code, Model/TailVM.lean) does, by a loop
  invariant over its forward scan, and why code that passes the static scan `tailWfCheck`, together
  with the pass's output, satisfies the conditions `TailStatic` of the simulation
  (Proofs/TailSimInv.lean).

  The pass follows jumps in the code IT IS REWRITING; the scan requires every jump to go forward, so
  what it follows behind a call at `i` lies beyond `i`, where nothing is rewritten yet: the jumps
  lead to `ret` in the ORIGINAL code as well (`follow_ret`).
-/
import Gojq.Model.TailVM
import Gojq.Proofs.TailSimRun
set_option linter.unusedSimpArgs false
set_option linter.unusedVariables false
namespace Gojq.TailVM
open Gojq Gojq.VM Gojq.OptVM

/-! ## the loop invariant of the pass -/

/-- every jump goes forward -/
def Fwd (c : Array Instr) : Prop := ∀ (i : Nat) (t : Int), c[i]? = some (.jump t) → (i : Int) < t

/-- what the pass did at `i`, where the original code has `a` -/
def SiteAt (c code' : Array Instr) (i : Nat) (a : Instr) : Prop :=
  ∃ j id v, a = .call j ∧ 0 ≤ j ∧ c[j.toNat]? = some (.scope id v 0) ∧ JumpsToRet c ((i : Int) + 1) ∧
    ((v = 0 ∧ code'[i]? = some (.jump (j + 1))) ∨ (v ≠ 0 ∧ code'[i]? = some (.callrec j)))

structure PInv (c : Array Instr) (k : Nat) (st : TRStateV) : Prop where
  size : st.code.size = c.size
  suffix : ∀ i, k ≤ i → st.code[i]? = c[i]?
  pre : ∀ i a, i < k → c[i]? = some a → st.code[i]? = some a ∨ SiteAt c st.code i a
  scopes : ∀ p b, (p, b) ∈ st.scopes → ∃ id v, c[p]? = some (.scope id v 0) ∧ b = (v == 0)

theorem follow_ret {c code : Array Instr} (hf : Fwd c) : ∀ (fuel j : Nat),
    followV code fuel j = some (some .ret) → (∀ i, j ≤ i → code[i]? = c[i]?) → JumpsToRet c (j : Int) := by
  intro fuel
  induction fuel with
  | zero => intro j h; simp [followV] at h
  | succ n ih =>
    intro j h hs
    unfold followV at h
    have hj := hs j (Nat.le_refl _)
    cases hc : code[j]? with
    | none => rw [hc] at h; simp at h
    | some ins =>
      rw [hc] at h hj
      cases ins with
      | jump t =>
        simp only at h
        by_cases ht : t < 0
        · rw [if_pos ht] at h; cases h
        · rw [if_neg ht] at h
          have hlt := hf j t hj.symm
          have := ih t.toNat h (fun i hi => hs i (by omega))
          have e : ((t.toNat : Nat) : Int) = t := by omega
          rw [e] at this
          exact .jump (by omega) (by rw [Int.toNat_natCast]; exact hj.symm) this
      | ret => exact .ret (by omega) (by rw [Int.toNat_natCast]; exact hj.symm)
      | _ => simp at h

theorem mem_of_lookup {p : Nat} {b : Bool} : ∀ {l : List (Nat × Bool)}, l.lookup p = some b → (p, b) ∈ l
  | [], h => by simp [List.lookup] at h
  | (q, b') :: rest, h => by
    unfold List.lookup at h
    by_cases hq : p == q
    · rw [show (p == q) = true from hq] at h
      simp only [Option.some.injEq] at h
      subst h
      have : p = q := by simpa using hq
      subst this
      exact List.mem_cons_self
    · have hq' : (p == q) = false := by simpa using hq
      rw [hq'] at h
      exact List.mem_cons_of_mem _ (mem_of_lookup h)

theorem getElem?_set!_ne {α : Type} (a : Array α) (i j : Nat) (v : α) (h : i ≠ j) : (a.set! i v)[j]? = a[j]? := by
  rw [Array.set!_eq_setIfInBounds, Array.getElem?_setIfInBounds_ne h]

theorem getElem?_set!_self {α : Type} (a : Array α) (i : Nat) (v : α) (h : i < a.size) : (a.set! i v)[i]? = some v := by
  rw [Array.set!_eq_setIfInBounds]
  simp [Array.getElem?_setIfInBounds, h]

theorem SiteAt.mono {c code code' : Array Instr} {i : Nat} {a : Instr} (h : SiteAt c code i a)
    (he : code'[i]? = code[i]?) : SiteAt c code' i a := by
  obtain ⟨j, id, v, h1, h2, h3, h4, h5⟩ := h
  exact ⟨j, id, v, h1, h2, h3, h4, by rw [he]; exact h5⟩

/-- rewriting position `k` keeps the invariant up to `k + 1` -/
theorem PInv.rewrite {c : Array Instr} {k : Nat} {st : TRStateV} (h : PInv c k st) (hk : k < c.size) (new : Instr)
    {a : Instr} (ha : c[k]? = some a) (hs : SiteAt c (st.code.set! k new) k a) :
    PInv c (k + 1) { st with code := st.code.set! k new } := by
  refine ⟨by simp [h.size], ?_, ?_, h.scopes⟩
  · intro i hi
    show (st.code.set! k new)[i]? = _
    rw [getElem?_set!_ne _ _ _ _ (by omega)]
    exact h.suffix i (by omega)
  · intro i a' hi ha'
    show (st.code.set! k new)[i]? = _ ∨ _
    by_cases hik : i = k
    · subst hik
      rw [ha] at ha'
      simp only [Option.some.injEq] at ha'
      subst ha'
      exact .inr hs
    · rw [getElem?_set!_ne _ _ _ _ (fun e => hik e.symm)]
      rcases h.pre i a' (by omega) ha' with h1 | h1
      · exact .inl h1
      · exact .inr (h1.mono (getElem?_set!_ne _ _ _ _ (fun e => hik e.symm)))

/-- leaving position `k` alone keeps the invariant up to `k + 1` -/
theorem PInv.keep {c : Array Instr} {k : Nat} {st : TRStateV} (h : PInv c k st) (pcs : List Nat) (stop : Bool) :
    PInv c (k + 1) { st with pcs := pcs, stop := stop } := by
  refine ⟨h.size, fun i hi => h.suffix i (by omega), ?_, h.scopes⟩
  intro i a hi ha
  by_cases hik : i = k
  · subst hik
    left
    show st.code[i]? = _
    rw [h.suffix i (Nat.le_refl _)]; exact ha
  · exact h.pre i a (by omega) ha

theorem PInv.same {c : Array Instr} {k : Nat} {st : TRStateV} (h : PInv c k st) : PInv c (k + 1) st := by
  have := h.keep st.pcs st.stop
  exact this

/-- one iteration of the pass -/
theorem tailStepV_inv {c : Array Instr} (hf : Fwd c) {k : Nat} {st st' : TRStateV} (h : PInv c k st)
    (hk : k < c.size) (hs : tailStepV st k = some st') : PInv c (k + 1) st' := by
  unfold tailStepV at hs
  by_cases hstop : st.stop = true
  · rw [if_pos hstop] at hs
    simp only [Option.some.injEq] at hs
    subst hs; exact h.same
  · rw [if_neg hstop] at hs
    have hck := h.suffix k (Nat.le_refl _)
    cases hc : st.code[k]? with
    | none => rw [hc] at hs; simp at hs
    | some ins =>
      rw [hc] at hs hck
      cases ins with
      | scope id v1 v2 =>
        simp only at hs
        by_cases hv : (v2 == 0) = true
        · rw [if_pos hv] at hs
          simp only [Option.some.injEq] at hs
          subst hs
          have hv' : v2 = 0 := by simpa using hv
          subst hv'
          have := h.keep (k :: st.pcs) st.stop
          refine ⟨this.size, this.suffix, this.pre, ?_⟩
          intro p b hp
          have hp' : (p, b) ∈ (k, v1 == 0) :: st.scopes := hp
          simp only [List.mem_cons] at hp'
          rcases hp' with hp' | hp'
          · simp only [Prod.mk.injEq] at hp'
            obtain ⟨rfl, rfl⟩ := hp'
            exact ⟨id, v1, hck.symm, rfl⟩
          · exact h.scopes p b hp'
        · rw [if_neg hv] at hs
          simp only [Option.some.injEq] at hs
          subst hs
          exact h.keep (k :: st.pcs) st.stop
      | call j =>
        simp only at hs
        cases hp : st.pcs with
        | nil =>
          rw [hp] at hs
          simp only [Option.some.injEq] at hs
          subst hs; exact h.same
        | cons top rest =>
          rw [hp] at hs
          simp only at hs
          by_cases hj : (j != (top : Int)) = true
          · rw [if_pos hj] at hs
            simp only [Option.some.injEq] at hs
            subst hs; exact h.same
          · rw [if_neg hj] at hs
            have hjt : j = (top : Int) := by simpa using hj
            cases hl : st.scopes.lookup top with
            | none =>
              rw [hl] at hs
              simp only [Option.some.injEq] at hs
              subst hs; exact h.same
            | some canjump =>
              rw [hl] at hs
              simp only at hs
              obtain ⟨id, v, hsc, hcj⟩ := h.scopes top canjump (mem_of_lookup hl)
              cases hfo : followV st.code (st.code.size + 1) (k + 1) with
              | none => rw [hfo] at hs; simp at hs
              | some r =>
                rw [hfo] at hs
                cases r with
                | none =>
                  simp only [Option.some.injEq] at hs
                  subst hs; exact h.same
                | some fin =>
                  have hjr : fin = .ret → JumpsToRet c ((k : Int) + 1) := by
                    intro e
                    subst e
                    have := follow_ret hf _ _ hfo (fun i hi => h.suffix i (by omega))
                    have e2 : ((k + 1 : Nat) : Int) = (k : Int) + 1 := by omega
                    rw [e2] at this; exact this
                  have hkk : k < st.code.size := by rw [h.size]; exact hk
                  have hjs : c[j.toNat]? = some (.scope id v 0) := by
                    rw [hjt, Int.toNat_natCast]; exact hsc
                  cases fin with
                  | ret =>
                    simp only at hs
                    by_cases hcan : canjump = true
                    · rw [if_pos hcan] at hs
                      simp only [Option.some.injEq] at hs
                      subst hs
                      have hv0 : v = 0 := by rw [hcj] at hcan; simpa using hcan
                      have := h.rewrite hk (.jump ((top : Int) + 1)) hck.symm ⟨j, id, v, rfl, by omega, hjs, hjr rfl,
                        .inl ⟨hv0, by rw [getElem?_set!_self _ _ _ hkk, hjt]⟩⟩
                      rw [hp] at this
                      exact this
                    · rw [if_neg hcan] at hs
                      simp only [Option.some.injEq] at hs
                      subst hs
                      have hv0 : v ≠ 0 := by rw [hcj] at hcan; simpa using hcan
                      have := h.rewrite hk (.callrec j) hck.symm ⟨j, id, v, rfl, by omega, hjs, hjr rfl,
                        .inr ⟨hv0, by rw [getElem?_set!_self _ _ _ hkk]⟩⟩
                      rw [hp] at this
                      exact this
                  | _ =>
                    simp only [Option.some.injEq] at hs
                    subst hs; exact h.same
      | ret =>
        simp only at hs
        cases hp : st.pcs with
        | nil =>
          rw [hp] at hs
          simp only [Option.some.injEq] at hs
          subst hs
          have := h.keep st.pcs true
          rw [hp] at this
          exact this
        | cons top rest =>
          rw [hp] at hs
          simp only [Option.some.injEq] at hs
          subst hs
          exact h.keep rest st.stop
      | _ =>
        simp only [Option.some.injEq] at hs
        subst hs; exact h.same

theorem fold_inv {c : Array Instr} (hf : Fwd c) (st0 : TRStateV) (h0 : PInv c 0 st0) : ∀ (n : Nat), n ≤ c.size →
    ∀ st', (List.range n).foldlM tailStepV st0 = some st' → PInv c n st' := by
  intro n
  induction n with
  | zero =>
    intro _ st' h
    simp only [List.range_zero, List.foldlM_nil] at h
    have : st0 = st' := by simpa using h
    subst this; exact h0
  | succ n ih =>
    intro hn st' h
    rw [List.range_succ, List.foldlM_append] at h
    cases h1 : (List.range n).foldlM tailStepV st0 with
    | none => rw [h1] at h; simp at h
    | some st1 =>
      rw [h1] at h
      simp only [List.foldlM_cons, List.foldlM_nil, Option.bind_eq_bind, Option.bind_some] at h
      have hs : tailStepV st1 n = some st' := by
        cases h2 : tailStepV st1 n with
        | none => rw [h2] at h; simp at h
        | some s2 => rw [h2] at h; simpa using h
      exact tailStepV_inv hf (ih (by omega) st1 h1) (by omega) hs

/-- WHAT THE PASS DOES: the output has the length of the input and differs from it only at self
    tail calls `call j` of an argument-free scope `j` whose continuation leads by jumps to `ret` —
    `jump j+1` if the scope has no variables, `callrec j` otherwise -/
theorem optTailV_spec {c c' : Array Instr} (hf : Fwd c) (h : optTailV c = some c') :
    c'.size = c.size ∧ ∀ i a, c[i]? = some a → c'[i]? = some a ∨ SiteAt c c' i a := by
  unfold optTailV at h
  cases hr : (List.range c.size).foldlM tailStepV { code := c, pcs := [], scopes := [] } with
  | none => rw [hr] at h; simp at h
  | some st =>
    rw [hr] at h
    simp only [Option.map_some, Option.some.injEq] at h
    subst h
    have h0 : PInv c 0 { code := c, pcs := [], scopes := [] } :=
      ⟨rfl, fun _ _ => rfl, fun i a hi => by omega, fun p b hp => by simp at hp⟩
    have := fold_inv hf _ h0 c.size (Nat.le_refl _) st hr
    refine ⟨this.size, fun i a ha => this.pre i a ?_ ha⟩
    exact (Array.getElem?_eq_some_iff.mp ha).1

end Gojq.TailVM

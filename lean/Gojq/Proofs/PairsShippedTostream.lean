/-
  Helper lemmas for Props/C13Shipped.lean, part 5: the UNIVERSAL tie of `tostream` to the shipped
  definition — `Spec.eval` of the regenerated AST
    path(def r: (.[]? | r), .; r) as $p | getpath($p) | reduce path(.[]?) as $q ([$p, .]; [$p + $q])
  emits exactly the events `Stream.streamSpec v`, in order, for EVERY value `v` with distinct keys,
  arrays no longer than a Go `int` and integers that fit a Go `int`, and every fuel from
  `10 * depth v + 60` on; and the composition with the tie of `fromstream`.
-/
import Gojq.Proofs.PairsShippedStream
namespace Gojq.Pairs
open Gojq Gojq.Spec Gojq.Pairs.Tie

/-! ### the shipped definition (AST as the real parser dumps it) -/

/-- `(.[]? | r), .` -/
def r2Body : Query := (Query.binop [] Op.comma (Query.term [] (Term.mk (TermCore.query (Query.binop [] Op.pipe iterOptQ (varQ "r"))) [])) (Query.term [] (Term.mk TermCore.identity [])))
/-- `def r: (.[]? | r), .; r` -/
def postQ : Query := (Query.term [(FuncDef.mk "r" [] r2Body)] (Term.mk (TermCore.func "r" []) []))
/-- `getpath($p)` -/
def getpQ : Query := (Query.term [] (Term.mk (TermCore.func "getpath" [varQ "$p"]) []))
/-- `path(.[]?)` -/
def pathIterQ : Query := (Query.term [] (Term.mk (TermCore.func "path" [iterOptQ]) []))
/-- `[$p, .]` -/
def startQ : Query := (Query.term [] (Term.mk (TermCore.array (some (Query.binop [] Op.comma (varQ "$p") (Query.term [] (Term.mk TermCore.identity []))))) []))
/-- `$p + $q` -/
def addPQ : Query := (Query.binop [] Op.add (varQ "$p") (varQ "$q"))
/-- `[$p + $q]` -/
def updQ : Query := (Query.term [] (Term.mk (TermCore.array (some addPQ)) []))
/-- `reduce path(.[]?) as $q ([$p, .]; [$p + $q])` -/
def reduceQ : Query := (Query.term [] (Term.mk (TermCore.reduce pathIterQ (Pattern.var "$q") startQ updQ) []))
/-- `getpath($p) | reduce …` -/
def eventQ : Query := (Query.binop [] Op.pipe getpQ reduceQ)
/-- `path(def r: (.[]? | r), .; r)` -/
def postPathQ : Query := (Query.term [] (Term.mk (TermCore.func "path" [postQ]) []))
/-- the body of `tostream` -/
def tostreamBody : Query := (Query.bind [] postPathQ [(Pattern.var "$p")] eventQ)

theorem shipped_tostream : Generated.Builtins.go_tostream_a00 = .mk "tostream" [] tostreamBody := rfl

theorem find_tostream : cfgGo.builtins.find "tostream" 0 = some (.mk "tostream" [] tostreamBody) := by
  rw [← shipped_tostream]; rfl

/-! ### the post-order walk -/

theorem eval_r2Body (n : Nat) (env : Env) (s : St) (hs : s.pend = false) :
    eval (n + 13) cfgGo env r2Body s = stepRes true s (fun x => evalCall (n + 5) cfgGo env "r" [] x) := by
  simp only [r2Body, varQ, eval_binop, Env.defs, List.foldl_nil, eval_term, evalTerm_succ, evalTermRev, List.reverse_nil,
    evalCore_succ, eval_iterOptQ (n + 8) (by omega) env s hs, stepRes, if_true]

/-- the environment in which the post-order `r` runs -/
def env2 (rest : List Binding) : Env := .mk (.fn "r" [] r2Body false :: rest)

theorem evalCall_r2 (n : Nat) (rest : List Binding) (s : St) :
    evalCall (n + 2) cfgGo (env2 rest) "r" [] s = eval n cfgGo (env2 rest) r2Body s := by
  simp only [evalCall_succ, List.length_nil, env2, Env.bs, lookupCall, beq_self_eq_true, Bool.and_self, if_true, callDef_succ,
    List.zip_nil_right, List.filter_nil, List.foldl_nil, bindValsK]

theorem step_r2 (rest : List Binding) (n : Nat) (s : St) (hs : Trk s) :
    evalCall (n + 10 + 5) cfgGo (env2 rest) "r" [] s =
      stepRes true s (fun x => evalCall (n + 5) cfgGo (env2 rest) "r" [] x) := by
  rw [evalCall_r2 (n + 13) rest s, eval_r2Body n (env2 rest) s hs.pend]

/-- `def r: (.[]? | r), .; r` emits the nodes of the value in post-order, in both modes -/
theorem eval_postQ (m : Nat) (env : Env) (s : St) (hs : Trk s) (hm : 10 * depth s.v + 18 ≤ m) :
    eval m cfgGo env postQ s = ⟨(nodes true [] s.v).map (descN s), .done⟩ := by
  obtain ⟨k, rfl⟩ : ∃ k, m = k + 5 + 3 := ⟨m - 8, by omega⟩
  have hcall : eval (k + 5 + 3) cfgGo env postQ s = evalCall (k + 5) cfgGo (env2 env.bs) "r" [] s := by
    simp only [postQ, eval_term, Env.defs, List.foldl_cons, List.foldl_nil, evalTerm_succ, evalTermRev, List.reverse_nil,
      evalCore_succ, FuncDef.name, FuncDef.params, FuncDef.body]
    rfl
  rw [hcall]
  exact walk_root (fun n x => evalCall (n + 5) cfgGo (env2 env.bs) "r" [] x) 10 true
    (fun n x hx => step_r2 env.bs n x hx) s hs k (by omega)

/-- `path(def r: (.[]? | r), .; r)`: the paths of the nodes in post-order -/
theorem eval_postPathQ (m : Nat) (env : Env) (s : St) (hv : IntsOK s.v) (hm : 10 * depth s.v + 22 ≤ m)
    (hP : lookupCall "path" 1 env.bs = .none) :
    eval m cfgGo env postPathQ s = ⟨(nodes true [] s.v).map fun nd => computed s (.arr nd.1), .done⟩ := by
  obtain ⟨n, rfl⟩ : ∃ n, m = n + 4 := ⟨m - 4, by omega⟩
  simp only [postPathQ, eval_term, Env.defs, List.foldl_nil, evalTerm_succ, evalTermRev, List.reverse_nil, evalCore_succ]
  exact evalCall_path_walk n env postQ s true hP hv
    (eval_postQ n env _ (trk_pathStart n s) (by rw [pathStart_v]; omega))

/-! ### the event of one node -/

theorem find_getpath : cfgGo.builtins.find "getpath" 1 = none := by rfl

theorem evalCall_getpath (n : Nat) (env : Env) (pq : Query) (s : St) (h : lookupCall "getpath" 1 env.bs = .none) :
    evalCall (n + 1) cfgGo env "getpath" [pq] s =
      (eval n cfgGo env pq (withCtx none s)).bind fun pv => getpathEmit s pv := by
  have hsw : "getpath".startsWith "$" = false := by decide +kernel
  simp only [evalCall_succ, List.length_cons, List.length_nil, Nat.zero_add, h, hsw, Bool.false_eq_true, if_false, find_getpath]
  rfl

/-- `getpath($p)` without tracking, at a path `getpathV` resolves -/
theorem eval_getpQ (m : Nat) (hm : 8 ≤ m) (env : Env) (v : JV) (id : Ident) (p : List JV) (pid : Ident) (w : JV)
    (hp : lookupCall "$p" 0 env.bs = .var (.arr p) pid) (hG : lookupCall "getpath" 1 env.bs = .none)
    (hw : getpathV v p = .ok w) :
    eval m cfgGo env getpQ { v := v, id := id } = .one { v := w, id := p.foldl childIdent id } := by
  obtain ⟨n, rfl⟩ : ∃ n, m = n + 8 := ⟨m - 8, by omega⟩
  simp only [getpQ, eval_term, Env.defs, List.foldl_nil, evalTerm_succ, evalTermRev, List.reverse_nil, evalCore_succ,
    evalCall_getpath (n + 4) env _ _ hG, withCtx, eval_varQ (n + 4) (by omega) env "$p" _ pid _ hp, one_bind_mk, getpathEmit, hw]

theorem IntsOK.scalarOK {w : JV} (h : IntsOK w) : ScalarOK w := by
  intro i hi; subst hi; simpa only [IntsOK] using h

theorem intsOK_itemsFrom : ∀ (xs : List JV) (i : Nat), IntsOKL xs → ∀ kw ∈ itemsFrom i xs, IntsOK kw.2
  | [], _, _, kw, h => by simp [itemsFrom] at h
  | x :: xs, i, hx, kw, h => by
    simp only [IntsOKL] at hx
    simp only [itemsFrom, List.mem_cons] at h
    rcases h with rfl | h
    · exact hx.1
    · exact intsOK_itemsFrom xs (i + 1) hx.2 kw h

theorem intsOK_itemsOf : ∀ (kvs : List (Bytes × JV)), IntsOKM kvs → ∀ kw ∈ itemsOf kvs, IntsOK kw.2
  | [], _, kw, h => by simp [itemsOf] at h
  | (k, x) :: kvs, hx, kw, h => by
    simp only [IntsOKM] at hx
    simp only [itemsOf, List.map_cons, List.mem_cons] at h
    rcases h with rfl | h
    · exact hx.1
    · exact intsOK_itemsOf kvs hx.2 kw h

theorem intsOK_itemsAll (w : JV) (h : IntsOK w) : ∀ kw ∈ itemsAll w, IntsOK kw.2 := by
  cases w with
  | arr xs => simp only [itemsAll, iterItems_arr, Option.getD_some]; exact intsOK_itemsFrom xs 0 (by simpa only [IntsOK] using h)
  | obj kvs => simp only [itemsAll, iterItems_obj, Option.getD_some]; exact intsOK_itemsOf kvs (by simpa only [IntsOK] using h)
  | null => intro kw hk; simp [itemsAll, iterItems] at hk
  | bool _ => intro kw hk; simp [itemsAll, iterItems] at hk
  | num _ => intro kw hk; simp [itemsAll, iterItems] at hk
  | str _ => intro kw hk; simp [itemsAll, iterItems] at hk

theorem bindList_map_ones {α : Type} (f : St → Res) (mk g : α → St) : ∀ l : List α,
    (∀ a ∈ l, (mk a).pend = false ∧ f (mk a) = .one (g a)) →
    Res.bindList f .done (l.map mk) = ⟨l.map g, .done⟩
  | [], _ => rfl
  | a :: l, h => by
    have ha := h a (by simp)
    rw [List.map_cons, bindList_cons_nopend f .done _ _ ha.1, ha.2,
      bindList_map_ones f mk g l (fun b hb => h b (by simp [hb]))]
    rfl

/-- `path(.[]?)`: the one-element paths of the children, none for a scalar -/
theorem eval_pathIterQ (m : Nat) (hm : 10 ≤ m) (env : Env) (t : St) (hv : IntsOK t.v)
    (hP : lookupCall "path" 1 env.bs = .none) :
    eval m cfgGo env pathIterQ t = ⟨(itemsAll t.v).map fun kw => computed t (.arr [kw.1]), .done⟩ := by
  obtain ⟨n, rfl⟩ : ∃ n, m = n + 4 := ⟨m - 4, by omega⟩
  simp only [pathIterQ, eval_term, Env.defs, List.foldl_nil, evalTerm_succ, evalTermRev, List.reverse_nil, evalCore_succ]
  rw [evalCall_path n env iterOptQ t hP, eval_iterOptQ n (by omega) env _ (trk_pathStart n t).pend]
  obtain ⟨c0, hc0, hp0⟩ := pathStart_ctx n t
  cases hi : iterItems t.v with
  | none =>
    rw [iterate_scalar _ (by rw [pathStart_v]; exact hi)]
    simp [itemsAll, hi, Res.bind, Res.bindList]
  | some items =>
    rw [iterate_trk _ (trk_pathStart n t) items (by rw [pathStart_v]; exact hi), catchAll_done]
    simp only [Res.bind, itemsAll, hi, Option.getD_some]
    apply bindList_map_ones
    intro kw hkw
    refine ⟨rfl, ?_⟩
    have hok : ScalarOK kw.2 := (intsOK_itemsAll t.v hv kw (by simp only [itemsAll, hi, Option.getD_some]; exact hkw)).scalarOK
    rw [pathEmit_desc t _ (trk_pathStart n t) c0 hc0 [kw.1] kw.2 hok, hp0]
    rfl

/-- `$p + $q` -/
theorem eval_addPQ (m : Nat) (hm : 6 ≤ m) (env : Env) (s : St) (p : List JV) (pid : Ident) (k : JV) (qid : Ident)
    (hp : lookupCall "$p" 0 env.bs = .var (.arr p) pid) (hq : lookupCall "$q" 0 env.bs = .var (.arr [k]) qid) :
    ∃ i, eval m cfgGo env addPQ s = .one { v := .arr (p ++ [k]), id := i, ctx := s.ctx } := by
  obtain ⟨n, rfl⟩ : ∃ n, m = n + 6 := ⟨m - 6, by omega⟩
  simp only [addPQ, eval_binop, Env.defs, List.foldl_nil, evalBinNative_eq, eval_varQ (n + 4) (by omega) env "$q" _ qid _ hq,
    eval_varQ (n + 4) (by omega) env "$p" _ pid _ hp, one_bind_mk, binApply]
  cases p with
  | nil => exact ⟨_, rfl⟩
  | cons a p => exact ⟨_, rfl⟩

/-- `[$p + $q]` -/
theorem eval_updQ (m : Nat) (hm : 10 ≤ m) (env : Env) (s : St) (p : List JV) (pid : Ident) (k : JV) (qid : Ident)
    (hp : lookupCall "$p" 0 env.bs = .var (.arr p) pid) (hq : lookupCall "$q" 0 env.bs = .var (.arr [k]) qid) :
    eval m cfgGo env updQ s = .one { v := .arr [.arr (p ++ [k])], id := .fresh, ctx := s.ctx } := by
  obtain ⟨n, rfl⟩ : ∃ n, m = n + 10 := ⟨m - 10, by omega⟩
  obtain ⟨i, hi⟩ := eval_addPQ (n + 7) (by omega) env s p pid k qid hp hq
  simp only [updQ, eval_term, Env.defs, List.foldl_nil, evalTerm_succ, evalTermRev, List.reverse_nil, evalCore_succ, hi,
    Res.one, List.map, computed]

/-- `[$p, .]` -/
theorem eval_startQ (m : Nat) (hm : 10 ≤ m) (env : Env) (w : JV) (id : Ident) (p : List JV) (pid : Ident)
    (hp : lookupCall "$p" 0 env.bs = .var (.arr p) pid) :
    eval m cfgGo env startQ { v := w, id := id } = .one { v := .arr [.arr p, w], id := .fresh } := by
  obtain ⟨n, rfl⟩ : ∃ n, m = n + 10 := ⟨m - 10, by omega⟩
  simp only [startQ, eval_term, Env.defs, List.foldl_nil, evalTerm_succ, evalTermRev, List.reverse_nil, evalCore_succ,
    eval_binop, eval_varQ (n + 6) (by omega) env "$p" _ pid _ hp, Res.one, Res.append, List.map, computed, List.cons_append,
    List.nil_append]

/-- the `reduce` loop over the one-element paths `[k]`: the state is replaced at every key -/
theorem reduce_fold (n : Nat) (hn : 11 ≤ n) (rest : List Binding) (p : List JV) (pid : Ident) (t : St)
    (hq : ∀ b, lookupCall "$p" 0 (.var "$q" b .fresh :: rest) = .var (.arr p) pid) :
    ∀ (ks : List (JV × JV)) (a : JV × Ident),
      (ks.map fun kw => computed t (.arr [kw.1])).foldl
        (reduceStep (fun x => bindPattern n cfgGo (.mk rest) (.var "$q") x.v x.id x.ctx)
          (fun x env' sv sid => eval n cfgGo env' updQ { v := sv, id := sid, ctx := x.ctx })) (.ok a) =
      .ok (ks.foldl (fun _ kw => (JV.arr [.arr (p ++ [kw.1])], Ident.fresh)) a)
  | [], a => rfl
  | kw :: ks, a => by
    obtain ⟨j, rfl⟩ : ∃ j, n = j + 1 := ⟨n - 1, by omega⟩
    have hu : ∀ sv sid, eval (j + 1) cfgGo (.mk (.var "$q" (.arr [kw.1]) .fresh :: rest)) updQ
        { v := sv, id := sid, ctx := t.ctx } = .one { v := .arr [.arr (p ++ [kw.1])], id := .fresh, ctx := t.ctx } :=
      fun sv sid => eval_updQ (j + 1) (by omega) _ _ p pid kw.1 .fresh (hq _) rfl
    have hstep : reduceStep (fun x => bindPattern (j + 1) cfgGo (.mk rest) (.var "$q") x.v x.id x.ctx)
        (fun x env' sv sid => eval (j + 1) cfgGo env' updQ { v := sv, id := sid, ctx := x.ctx }) (.ok a)
        (computed t (.arr [kw.1])) = .ok (JV.arr [.arr (p ++ [kw.1])], Ident.fresh) := by
      rcases a with ⟨sv, sid⟩
      simp only [reduceStep, bindPattern_succ, PatRes.ok, List.foldl_cons, List.foldl_nil, Env.push, Env.bs, computed, hu,
        Res.one, List.getLast?_singleton]
    rw [List.map_cons, List.foldl_cons, hstep, List.foldl_cons]
    exact reduce_fold (j + 1) hn rest p pid t hq ks _

/-- `reduce path(.[]?) as $q ([$p, .]; [$p + $q])` on the value `w` found at `$p`: the event of the node -/
theorem eval_reduceQ (m : Nat) (hm : 20 ≤ m) (rest : List Binding) (w : JV) (id : Ident) (p : List JV) (pid : Ident)
    (hv : IntsOK w) (hp : lookupCall "$p" 0 rest = .var (.arr p) pid)
    (hq : ∀ b, lookupCall "$p" 0 (.var "$q" b .fresh :: rest) = .var (.arr p) pid)
    (hP : lookupCall "path" 1 rest = .none) :
    eval m cfgGo (.mk rest) reduceQ { v := w, id := id } = .one { v := evOf p w, id := .fresh } := by
  obtain ⟨n, rfl⟩ : ∃ n, m = n + 3 := ⟨m - 3, by omega⟩
  have hfold := reduce_fold n (by omega) rest p pid { v := w, id := id } hq (itemsAll w) (JV.arr [.arr p, w], Ident.fresh)
  have hsnd : ∀ (ks : List (JV × JV)) (a : JV × Ident), a.2 = .fresh →
      ks.foldl (fun _ kw => (JV.arr [.arr (p ++ [kw.1])], Ident.fresh)) a =
        (ks.foldl (fun _ kw => JV.arr [.arr (p ++ [kw.1])]) a.1, Ident.fresh) := by
    intro ks
    induction ks with
    | nil => intro a ha; cases a; simp_all
    | cons kw ks ih => intro a _; simp only [List.foldl_cons]; exact ih _ rfl
  rw [hsnd _ _ rfl] at hfold
  simp only [reduceQ, eval_term, Env.defs, List.foldl_nil, evalTerm_succ, evalTermRev, List.reverse_nil, evalCore_succ,
    eval_startQ n (by omega) (.mk rest) w id p pid hp, one_bind_mk, reduceFrom,
    eval_pathIterQ n (by omega) (.mk rest) { v := w, id := id } hv hP, hfold, evOf]

/-- `getpath($p) | reduce …` with `$p` bound to the path of a node holding `w` -/
theorem eval_eventQ (m : Nat) (hm : 25 ≤ m) (rest : List Binding) (v : JV) (id : Ident) (p : List JV) (pid : Ident) (w : JV)
    (hv : IntsOK w) (hw : getpathV v p = .ok w)
    (hG : lookupCall "getpath" 1 rest = .none) (hP : lookupCall "path" 1 rest = .none) :
    eval m cfgGo (.mk (.var "$p" (.arr p) pid :: rest)) eventQ { v := v, id := id } = .one { v := evOf p w, id := .fresh } := by
  obtain ⟨n, rfl⟩ : ∃ n, m = n + 1 := ⟨m - 1, by omega⟩
  simp only [eventQ, eval_binop, Env.defs, List.foldl_nil]
  have hG' : lookupCall "getpath" 1 (Env.mk (.var "$p" (.arr p) pid :: rest)).bs = .none := by
    simpa [Env.bs, lookupCall] using hG
  have hP' : lookupCall "path" 1 (.var "$p" (.arr p) pid :: rest) = .none := by
    simpa [lookupCall] using hP
  rw [eval_getpQ n (by omega) (.mk (.var "$p" (.arr p) pid :: rest)) v id p pid w rfl hG' hw, one_bind_mk]
  exact eval_reduceQ n (by omega) _ w _ p pid hv rfl (fun _ => rfl) hP'

/-! ### `tostream` -/

/-- the body of `tostream`, in an environment that shadows none of the names it uses -/
theorem eval_tostreamBody (m : Nat) (rest : List Binding) (v : JV) (id : Ident) (hn : Stream.nodup v) (hs : Indexable v)
    (hv : IntsOK v) (hm : 10 * depth v + 50 ≤ m)
    (hG : lookupCall "getpath" 1 rest = .none) (hP : lookupCall "path" 1 rest = .none) :
    eval m cfgGo (.mk rest) tostreamBody { v := v, id := id } =
      ⟨(Stream.streamSpec v).map fun ev => { v := ev, id := .fresh }, .done⟩ := by
  obtain ⟨n, rfl⟩ : ∃ n, m = n + 3 := ⟨m - 3, by omega⟩
  simp only [tostreamBody, eval_bind, Env.defs, List.foldl_nil, withCtx]
  rw [eval_postPathQ (n + 2) (.mk rest) _ hv (by simp only; omega) hP]
  simp only [Res.bind]
  rw [bindList_map_ones _ _ (fun nd => ({ v := evOf nd.1 nd.2, id := .fresh } : St))]
  · rw [streamSpec_nodes, List.map_map]; rfl
  · intro nd hnd
    refine ⟨rfl, ?_⟩
    have hw := nodes_getpathV true v hn hs nd hnd
    have hok := (nodes_scalarOK true v [] hv nd hnd).2
    simp only [evalAlts_one, List.length_cons, List.length_nil, Nat.lt_irrefl, if_false, altAttempt, bindPattern_succ,
      PatRes.ok, forEnvs, List.foldl_cons, List.foldl_nil, Env.push, Env.bs, computed, append_empty_left, append_nil_done,
      gt_iff_lt]
    exact eval_eventQ (n + 1) (by omega) rest v id nd.1 .fresh nd.2 hok hw hG hP

theorem evalCall_tostream (n : Nat) (env : Env) (s : St) (h : lookupCall "tostream" 0 env.bs = .none) :
    evalCall (n + 2) cfgGo env "tostream" [] s = eval n cfgGo (.mk [.fn "tostream" [] tostreamBody true]) tostreamBody s := by
  have hsw : "tostream".startsWith "$" = false := by decide +kernel
  simp only [evalCall_succ, List.length_nil, h, hsw, Bool.false_eq_true, if_false, find_tostream, callDef_succ,
    FuncDef.name, FuncDef.params, FuncDef.body, List.zip_nil_right, List.filter_nil, List.foldl_nil, bindValsK]
  rfl

/-- `tostream` -/
def tostreamQ : Query := (Query.term [] (Term.mk (TermCore.func "tostream" []) []))

/-- **`Stream.streamSpec` IS the shipped `tostream`, on every value** -/
theorem eval_tostreamQ (m : Nat) (env : Env) (v : JV) (id : Ident) (hn : Stream.nodup v) (hs : Indexable v)
    (hv : IntsOK v) (hm : 10 * depth v + 60 ≤ m) (h : lookupCall "tostream" 0 env.bs = .none) :
    eval m cfgGo env tostreamQ { v := v, id := id } =
      ⟨(Stream.streamSpec v).map fun ev => { v := ev, id := .fresh }, .done⟩ := by
  obtain ⟨n, rfl⟩ : ∃ n, m = n + 5 := ⟨m - 5, by omega⟩
  simp only [tostreamQ, eval_term, Env.defs, List.foldl_nil, evalTerm_succ, evalTermRev, List.reverse_nil, evalCore_succ]
  rw [evalCall_tostream n env _ h]
  exact eval_tostreamBody n _ v id hn hs hv (by omega) rfl rfl

end Gojq.Pairs

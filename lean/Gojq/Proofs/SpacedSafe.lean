/-
  The printer's output satisfies the adjacency condition, part 2: every scanner stops before a
  safe byte (`stops_of_safe`); a number token ends in a digit or `.` (so the printer's `soft`
  space separates it from a following `.`).
-/
import Gojq.Proofs.SpacedBasic
namespace Gojq.RefTerm
open Gojq Gojq.Lexer Gojq.Printer

theorem isNumber_dotdigit (c : UInt8) (h : isNumber c = true) : isDotOrDigit c = true := by
  simp only [isNumber, Bool.and_eq_true, decide_eq_true_eq] at h
  simp [isDotOrDigit, h]

theorem last_step (c b : UInt8) (r : Bytes) (hb : (c :: r).getLast? = some b)
    (h0 : r = [] → isDotOrDigit c = true) (ih : ∀ b, r.getLast? = some b → isDotOrDigit b = true) :
    isDotOrDigit b = true := by
  cases r with
  | nil => simp at hb; subst hb; exact h0 rfl
  | cons x r' => rw [List.getLast?_cons_cons] at hb; exact ih b hb

theorem scanNumber_last (st : NumState) (r : Bytes) :
    scanNumber st r = (r.length, true) → ∀ b, r.getLast? = some b → isDotOrDigit b = true := by
  fun_induction scanNumber st r
  all_goals (intro h b hb)
  all_goals (try (simp at hb; done))
  all_goals (try (simp at h; done))
  all_goals (
    simp only [List.length_cons, Prod.mk.injEq, Nat.add_right_cancel_iff] at h
    obtain ⟨h1, h2⟩ := h
    subst h1 h2
    rename_i ih hx
    refine last_step _ b _ hb ?_ (ih hx)
    intro e
    subst e
    first
      | (apply isNumber_dotdigit; simp_all; done)
      | (simp_all [isDotOrDigit]; done)
      | (simp [scanNumber] at hx; done))

/-- A NUMBER TOKEN ENDS IN A DIGIT OR `.` -/
theorem number_last (s : Bytes) (h : okNumber s = true) : ∀ b, s.getLast? = some b → isDotOrDigit b = true := by
  unfold okNumber at h
  split at h
  · cases h
  · next c r =>
    simp only [Bool.or_eq_true, Bool.and_eq_true, beq_iff_eq] at h
    intro b hb
    rcases h with ⟨hc, hs⟩ | ⟨⟨hc, _⟩, hs⟩
    · exact last_step c b r hb (fun _ => isNumber_dotdigit c hc) (scanNumber_last .lead r hs)
    · subst hc
      exact last_step 46 b r hb (fun _ => by decide) (scanNumber_last .float r hs)

/-- the safe head bytes -/
def safeHead (ch : UInt8) : Bool :=
  ch == 32 || ch == 10 || ch == 41 || ch == 93 || ch == 125 || ch == 44 || ch == 59 || ch == 91 || ch == 63 || ch == 40

theorem safeHead_props (ch : UInt8) (h : safeHead ch = true) :
    isIdent ch true = false ∧ isIdent ch false = false ∧ isNumber ch = false ∧ (ch == 61) = false ∧
      (ch == 46) = false ∧ (ch == 47) = false ∧ (ch == 58) = false := by
  simp only [safeHead, Bool.or_eq_true, beq_iff_eq] at h
  rcases h with ((((((((h | h) | h) | h) | h) | h) | h) | h) | h) | h <;> subst h <;> decide

theorem okCh_cases (c : UInt8) (h : okCh c = true) :
    c = 40 ∨ c = 41 ∨ c = 91 ∨ c = 93 ∨ c = 123 ∨ c = 125 ∨ c = 44 ∨ c = 58 ∨ c = 59 ∨ c = 46 ∨ c = 124 ∨
      c = 43 ∨ c = 45 ∨ c = 42 ∨ c = 37 ∨ c = 47 ∨ c = 63 := by
  simp only [okCh, isSolo, isEqExt, Bool.or_eq_true, beq_iff_eq, or_assoc] at h
  exact h

theorem stops_ch_nil (c : UInt8) (h : okCh c = true) : stops (.ch c) [] = true := by
  rcases okCh_cases c h with rfl | rfl | rfl | rfl | rfl | rfl | rfl | rfl | rfl | rfl | rfl | rfl | rfl | rfl |
    rfl | rfl | rfl <;> decide

theorem stops_ch_safe (c ch : UInt8) (r : Bytes) (h : okCh c = true) (hc : safeHead ch = true) :
    stops (.ch c) (ch :: r) = true := by
  obtain ⟨h1, h2, h3, h4, h5, h6, h7⟩ := safeHead_props ch hc
  rcases okCh_cases c h with rfl | rfl | rfl | rfl | rfl | rfl | rfl | rfl | rfl | rfl | rfl | rfl | rfl | rfl |
    rfl | rfl | rfl <;> simp [stops, isSolo, isEqExt, peek_cons, h1, h2, h3, h4, h5, h6, h7]

theorem stops_nil (t : Tok) (hwf : t.wf = true) (hn : t.inStrTok = false) (hs : t ≠ .strStart) : stops t [] = true := by
  cases t with
  | ch c => exact stops_ch_nil c hwf
  | op o => cases o <;> rfl
  | _ => simp_all [stops, Tok.wf, Tok.inStrTok, peek, isIdent, isNumber]

theorem stops_safeHead (t : Tok) (ch : UInt8) (r : Bytes) (hwf : t.wf = true) (hn : t.inStrTok = false)
    (hs : t ≠ .strStart) (hc : safeHead ch = true) : stops t (ch :: r) = true := by
  obtain ⟨h1, h2, h3, h4, h5, h6, h7⟩ := safeHead_props ch hc
  cases t with
  | ch c => exact stops_ch_safe c ch r hwf hc
  | op o => cases o <;> simp [stops, peek_cons, h4]
  | ident s | kw w | var s =>
    simp only [stops, peek_cons, h1, Bool.not_false, Bool.true_and]
    split
    · next heq => injection heq with e _; subst e; simp at h7
    · rfl
  | _ => simp_all [stops, Tok.wf, Tok.inStrTok, peek_cons]

/-- a `:` that is not followed by another `:` -/
theorem stops_colon (t : Tok) (r : Bytes) (hwf : t.wf = true) (hn : t.inStrTok = false)
    (hs : t ≠ .strStart) (hr : (r.head? == some 58) = false) : stops t (58 :: r) = true := by
  cases t with
  | ch c =>
    rcases okCh_cases c hwf with rfl | rfl | rfl | rfl | rfl | rfl | rfl | rfl | rfl | rfl | rfl | rfl | rfl |
      rfl | rfl | rfl | rfl <;> simp [stops, isSolo, isEqExt, peek_cons, isIdent, isNumber]
  | op o => cases o <;> simp [stops, peek_cons]
  | ident s | kw w | var s =>
    simp only [stops, peek_cons, show isIdent 58 true = false by decide, Bool.not_false, Bool.true_and]
    split
    · next heq => injection heq with _ e; subst e; simp at hr
    · rfl
  | _ => simp_all [stops, Tok.wf, Tok.inStrTok, peek_cons, isIdent, isNumber]

/-- a `.` after a token that ends neither in `.` nor in a digit -/
theorem stops_dot (t : Tok) (r : Bytes) (hwf : t.wf = true) (hn : t.inStrTok = false) (hs : t ≠ .strStart)
    (hl : ∀ b, t.spell.getLast? = some b → isDotOrDigit b = false) : stops t (46 :: r) = true := by
  cases t with
  | ch c =>
    have hc : c ≠ 46 := by
      intro e; subst e; exact absurd (hl 46 rfl) (by decide)
    rcases okCh_cases c hwf with rfl | rfl | rfl | rfl | rfl | rfl | rfl | rfl | rfl | rfl | rfl | rfl | rfl |
      rfl | rfl | rfl | rfl <;> simp_all [stops, isSolo, isEqExt, peek_cons, isIdent, isNumber]
  | op o => cases o <;> simp [stops, peek_cons]
  | number s =>
    exfalso
    have hne : 1 ≤ (Tok.number s).spell.length := Tok.wf_spell_ne _ hwf
    simp only [Tok.spell] at hne hl
    cases hg : s.getLast? with
    | none => simp [List.getLast?_eq_none_iff] at hg; subst hg; simp at hne
    | some b => exact absurd (number_last s hwf b hg) (by simp [hl b hg])
  | ident s | kw w | var s =>
    simp only [stops, peek_cons, show isIdent 46 true = false by decide, Bool.not_false, Bool.true_and]
    split
    · next heq => injection heq with e _; exact absurd e (by decide)
    · rfl
  | _ => simp_all [stops, Tok.wf, Tok.inStrTok, peek_cons, isIdent, isNumber]

/-- EVERY SCANNER STOPS BEFORE A SAFE BYTE -/
theorem stops_of_safe (t : Tok) (fol : Bytes) (hwf : t.wf = true) (hn : t.inStrTok = false) (hs : t ≠ .strStart)
    (h : safeB t.spell.getLast? fol = true) : stops t fol = true := by
  cases fol with
  | nil => exact stops_nil t hwf hn hs
  | cons ch r =>
    simp only [safeB, Bool.or_eq_true, Bool.and_eq_true, beq_iff_eq, Bool.not_eq_true'] at h
    rcases h with (h | h) | h
    · exact stops_safeHead t ch r hwf hn hs (by simp only [safeHead, Bool.or_eq_true, beq_iff_eq]; exact h)
    · obtain ⟨rfl, hr⟩ := h
      exact stops_colon t r hwf hn hs hr
    · obtain ⟨rfl, hl⟩ := h
      refine stops_dot t r hwf hn hs ?_
      intro b hb
      rw [hb] at hl
      exact hl

end Gojq.RefTerm
